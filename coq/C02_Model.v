(* C02 -- every selected test runs exactly once per repetition; selection follows the filters; reversing and shuffling
   only permute the order.

   Executable mirror of
     TestRegistry::addTest / runAllTests / endOfGroup / testShouldRun / shuffleTests / reverseTests   (TestRegistry.cpp)
     UtestShell::match / shouldRun, IgnoredUtestShell::runOneTest / setRunIgnored,
     UtestShellPointerArray (constructor, swap, shuffle, reverse, relinkTestsInOrder, getFirstTest)  (Utest.cpp)
     TestFilter::match                                                                               (TestFilter.cpp)
     TestResult's four counters                                                                      (TestResult.cpp)
     the reverse / shuffle / repeat part of CommandLineTestRunner::runAllTests                       (CommandLineTestRunner.cpp)
   The singly linked list of tests is the Coq list it denotes (addTest = cons); the pointer array is a list with
   bounds-checked indexing (an access outside it makes the whole run `None`); SimpleString::contains and operator== are
   the C13 models of StrStr / StrCmp on NUL-terminated buffers.  The rand() stream is scenario input.
   A scenario is a SESSION on one registry: the first run (the scenario's own fields) and any number of further runs
   (`s_more`), each with its own command line / API calls.  What one run leaves on the registry -- the order of the list, the
   groupFilters_ / nameFilters_ fields, the runIgnored_ switch -- is the `rstate` the next run starts from
   (CommandLineTestRunner::initializeTestRun = `install`).
   No proofs in this file. *)
From Coq Require Import NArith Arith Bool List.
From CppUVerif Require Import lib.Str C13_Model.
Import ListNotations.
Local Open Scope N_scope.

(* ------------------------------------------------------------------ data *)
Record test := mkTest { t_id : nat; t_group : list N; t_name : list N; t_ignored : bool }.
Record tfilter := mkFilter { f_pat : list N; f_strict : bool; f_invert : bool }.

(* one run's own configuration: the command line of one CommandLineTestRunner, or one round of direct API calls *)
Record runcfg := mkRun {
  u_gf : list tfilter; u_nf : list tfilter; u_ri : bool; u_rev : bool; u_shuffle : bool; u_seed : N; u_rands : list N;
  u_repeat : nat; u_route : N; u_real : bool;
  u_list : N                    (* 0 = run the tests; 1 = -lg, 2 = -ln, 3 = -ll: list and return *)
}.

Record scenario := mkScn {
  s_tests : list test;          (* in order of registration (addTest); ids are 0,1,2,... *)
  s_gf : list tfilter;           (* group filters, [] = NULL list *)
  s_nf : list tfilter;           (* name filters *)
  s_ri : bool;                  (* -ri / setRunIgnored *)
  s_rev : bool;                 (* -b / reverseTests *)
  s_shuffle : bool;             (* -s<seed> / shuffleTests(seed) before every repetition *)
  s_seed : N;
  s_rands : list N;             (* values rand() returns after srand(seed), in order *)
  s_repeat : nat;               (* -r<n> *)
  s_route : N;                  (* 0 direct API, 1 argv, 2 argv with -t/-st/-xt/-xst pairs: how the harness configures; not used by run *)
  s_real : bool;                (* the harness lets the platform's srand/rand through (and records them) instead of scripting them *)
  s_more : list runcfg          (* further runs on the SAME registry, in order, each with its own configuration *)
}.

Inductive event :=
| ETestsStarted | EGroupStarted (id : nat) | ETestStarted (id : nat) | EBody (id : nat)
| ETestEnded | EGroupEnded | ETestsEnded.

Record counters := mkCnt { c_tests : N; c_run : N; c_ign : N; c_filt : N }.

Record rep_obs := mkRep {
  r_order : list nat;           (* ids in list order when the repetition starts (after reverse / shuffle) *)
  r_srand : list N;             (* M-obs: arguments of srand during the shuffle of this repetition *)
  r_rands : list N;             (* M-obs: values rand() returned during the shuffle of this repetition *)
  r_word : list event;          (* callback word of this repetition *)
  r_cnt : counters              (* counters of this repetition's TestResult when testsEnded is printed *)
}.
Record obs := mkObs {
  o_runs : list (list rep_obs);  (* per run of the session: its repetitions (none for a listing run) *)
  o_totals : list N              (* executions of each test's body over the whole session, by id *)
}.

(* ------------------------------------------------------------------ TestFilter::match, UtestShell::match / shouldRun *)
Definition ok_or_false (r : res bool) : bool := match r with Ok b => b | _ => false end.
Definition sstr_contains (a b : list N) : bool := ok_or_false (contains_m (cs a) (cs b)).   (* name.contains(filter_) *)
Definition sstr_equal (a b : list N) : bool := ok_or_false (equal_m (cs a) (cs b)).         (* name == filter_ *)

Definition filter_match (f : tfilter) (name : list N) : bool :=
  let matches := if f_strict f then sstr_equal name (f_pat f) else sstr_contains name (f_pat f) in
  if f_invert f then negb matches else matches.

Fixpoint match_loop (target : list N) (fs : list tfilter) : bool :=
  match fs with
  | [] => false
  | f :: rest => if filter_match f target then true else match_loop target rest
  end.
Definition shell_match (target : list N) (fs : list tfilter) : bool :=
  match fs with [] => true | _ => match_loop target fs end.
Definition should_run (gf nf : list tfilter) (t : test) : bool :=
  shell_match (t_group t) gf && shell_match (t_name t) nf.

(* ------------------------------------------------------------------ the registry list *)
Definition add_test (reg : list test) (t : test) : list test := t :: reg.
Definition registry_of (ts : list test) : list test := fold_left add_test ts [].

(* ------------------------------------------------------------------ UtestShellPointerArray *)
Fixpoint upd {A} (a : list A) (i : nat) (v : A) : list A :=
  match a, i with
  | [], _ => []
  | _ :: r, O => v :: r
  | x :: r, S i' => x :: upd r i' v
  end.
(* swap(index1, index2): e2 = a[index2]; e1 = a[index1]; a[index1] = e2; a[index2] = e1 *)
Definition swap {A} (a : list A) (i1 i2 : nat) : option (list A) :=
  match nth_error a i2, nth_error a i1 with
  | Some e2, Some e1 => Some (upd (upd a i1 e2) i2 e1)
  | _, _ => None
  end.

(* constructor: count_ = firstTest->countTests(); for (i = 0; i < count_; i++) { array[i] = current; current = current->getNext(); } *)
Fixpoint count_tests {A} (l : list A) : nat := match l with [] => 0 | _ :: r => count_tests r + 1 end.
Fixpoint array_fill {A} (n : nat) (cur : list A) : list A :=
  match n with
  | O => []
  | S n' => match cur with [] => [] | t :: r => t :: array_fill n' r end
  end.
Definition pointer_array {A} (first : list A) : list A := array_fill (count_tests first) first.

(* relinkTestsInOrder: for (i = 0; i < count; i++) tests = a[count - i - 1]->addTest(tests) *)
Fixpoint relink_loop {A} (n i count : nat) (a : list A) (tests : list A) : option (list A) :=
  match n with
  | O => Some tests
  | S n' => match nth_error a (count - i - 1) with
            | Some t => relink_loop n' (S i) count a (t :: tests)
            | None => None
            end
  end.
Definition relink {A} (a : list A) : option (list A) := relink_loop (length a) 0 (length a) a [].

Definition next_rand (rs : list N) : N * list N := match rs with [] => (0, []) | r :: rs' => (r, rs') end.

(* for (i = count - 1; i >= 1; --i) { j = rand() % (i + 1); swap(i, j); }   -- returns the array and the values drawn *)
Fixpoint shuffle_loop {A} (i : nat) (rs : list N) (a : list A) (drawn : list N) : option (list A * list N) :=
  match i with
  | O => Some (a, rev drawn)
  | S i' => let (r, rs') := next_rand rs in
            let j := N.to_nat (r mod N.of_nat (i + 1)) in
            match swap a i j with
            | Some a' => shuffle_loop i' rs' a' (r :: drawn)
            | None => None
            end
  end.
Definition UINT_MOD : N := 4294967296.
(* shuffle(seed): result list, srand arguments, rand values *)
Definition shuffle {A} (seed : N) (rs : list N) (a : list A) : option (list A * list N * list N) :=
  match length a with
  | O => Some (a, [], [])
  | S k => match shuffle_loop k rs a [] with
           | Some (a', drawn) => match relink a' with Some l => Some (l, [seed mod UINT_MOD], drawn) | None => None end
           | None => None
           end
  end.

(* for (i = 0; i < count / 2; i++) swap(i, count - i - 1) *)
Fixpoint reverse_loop {A} (n i count : nat) (a : list A) : option (list A) :=
  match n with
  | O => Some a
  | S n' => match swap a i (count - i - 1) with
            | Some a' => reverse_loop n' (S i) count a'
            | None => None
            end
  end.
Definition reverse {A} (a : list A) : option (list A) :=
  match length a with
  | O => Some a
  | count => match reverse_loop (Nat.div2 count) 0 count a with Some a' => relink a' | None => None end
  end.

(* TestRegistry::shuffleTests / reverseTests: array from the list, permute, relink, tests_ = array.getFirstTest() *)
Definition shuffle_tests (seed : N) (rs : list N) (reg : list test) := shuffle seed rs (pointer_array reg).
Definition reverse_tests (reg : list test) := reverse (pointer_array reg).

(* ------------------------------------------------------------------ runAllTests *)
Definition count_test (k : counters) := mkCnt (c_tests k + 1) (c_run k) (c_ign k) (c_filt k).
Definition count_run (k : counters) := mkCnt (c_tests k) (c_run k + 1) (c_ign k) (c_filt k).
Definition count_ignored (k : counters) := mkCnt (c_tests k) (c_run k) (c_ign k + 1) (c_filt k).
Definition count_filtered (k : counters) := mkCnt (c_tests k) (c_run k) (c_ign k) (c_filt k + 1).
Definition cnt0 : counters := mkCnt 0 0 0 0.

(* IgnoredUtestShell::runOneTest / UtestShell::runOneTest: events of the body and the counter *)
Definition run_one_test (ri : bool) (t : test) (k : counters) : list event * counters :=
  if t_ignored t && negb ri then ([], count_ignored k) else ([EBody (t_id t)], count_run k).

Definition end_of_group (t : test) (next : list test) : bool :=
  match next with [] => true | n :: _ => negb (sstr_equal (t_group t) (t_group n)) end.

Fixpoint run_loop (gf nf : list tfilter) (ri : bool) (tests : list test) (group_start : bool) (k : counters)
  : list event * counters :=
  match tests with
  | [] => ([], k)
  | t :: rest =>
      let ev1 := if group_start then [EGroupStarted (t_id t)] else [] in
      let k1 := count_test k in
      let '(ev2, k2) := if should_run gf nf t
                        then let '(e, k') := run_one_test ri t k1 in (ETestStarted (t_id t) :: e ++ [ETestEnded], k')
                        else ([], count_filtered k1) in
      let eog := end_of_group t rest in
      let ev3 := if eog then [EGroupEnded] else [] in
      let '(evs, k3) := run_loop gf nf ri rest eog k2 in
      (ev1 ++ ev2 ++ ev3 ++ evs, k3)
  end.
Definition run_all_tests (gf nf : list tfilter) (ri : bool) (tests : list test) : list event * counters :=
  let '(evs, k) := run_loop gf nf ri tests true cnt0 in (ETestsStarted :: evs ++ [ETestsEnded], k).

(* ------------------------------------------------------------------ the runner: install, reverse, then (shuffle; run)* *)
Definition cfg_of (s : scenario) : runcfg :=
  mkRun (s_gf s) (s_nf s) (s_ri s) (s_rev s) (s_shuffle s) (s_seed s) (s_rands s) (s_repeat s) (s_route s) (s_real s) 0.
Definition runs_of (s : scenario) : list runcfg := cfg_of s :: s_more s.

(* what a run leaves on the registry: tests_ (the list order), groupFilters_, nameFilters_ ([] = NULL), runIgnored_ *)
Record rstate := mkSt { st_reg : list test; st_gf : list tfilter; st_nf : list tfilter; st_ri : bool }.
Definition st0 (ts : list test) : rstate := mkSt (registry_of ts) [] [] false.

(* CommandLineTestRunner::initializeTestRun (and the API route of the harness):
     registry_->setGroupFilters(arguments_->getGroupFilters());  registry_->setNameFilters(arguments_->getNameFilters());
     if (arguments_->isRunIgnored()) registry_->setRunIgnored();
   both filter fields are overwritten unconditionally (with NULL when the run gives no filter of that kind); runIgnored_ is a
   one-way switch (nothing ever clears it, and runAllTests copies it into every shell). *)
Definition install (st : rstate) (c : runcfg) : rstate := mkSt (st_reg st) (u_gf c) (u_nf c) (st_ri st || u_ri c).

(* while (loopCount++ < repeatCount) { if (shuffling) shuffleTests(seed); printTestRun; TestResult tr; runAllTests(tr); }
   -- the filters and the run-ignored switch are read from the REGISTRY (gf nf ri), not from the command line *)
Fixpoint repeat_loop (c : runcfg) (gf nf : list tfilter) (ri : bool) (n : nat) (reg : list test)
  : option (list rep_obs * list test) :=
  match n with
  | O => Some ([], reg)
  | S n' =>
      match (if u_shuffle c then shuffle_tests (u_seed c) (u_rands c) reg else Some (reg, [], [])) with
      | None => None
      | Some (reg', seeds, drawn) =>
          let '(w, k) := run_all_tests gf nf ri reg' in
          match repeat_loop c gf nf ri n' reg' with
          | Some (reps, reg'') => Some (mkRep (map t_id reg') seeds drawn w k :: reps, reg'')
          | None => None
          end
      end
  end.

(* CommandLineTestRunner::runAllTests after parseArguments: initializeTestRun; a listing option lists and returns; otherwise
   reverse once, then the repeat loop.  `inst` is initializeTestRun (the code's is `install`). *)
Definition run_cfg_with (inst : rstate -> runcfg -> rstate) (st : rstate) (c : runcfg) : option (list rep_obs * rstate) :=
  let st1 := inst st c in
  if negb (u_list c =? 0) then Some ([], st1)
  else match (if u_rev c then reverse_tests (st_reg st1) else Some (st_reg st1)) with
       | None => None
       | Some reg1 =>
           match repeat_loop c (st_gf st1) (st_nf st1) (st_ri st1) (u_repeat c) reg1 with
           | Some (reps, reg2) => Some (reps, mkSt reg2 (st_gf st1) (st_nf st1) (st_ri st1))
           | None => None
           end
       end.
Definition run_cfg := run_cfg_with install.

Fixpoint run_cfgs_with (inst : rstate -> runcfg -> rstate) (st : rstate) (cs : list runcfg) : option (list (list rep_obs)) :=
  match cs with
  | [] => Some []
  | c :: cs' => match run_cfg_with inst st c with
                | Some (reps, st') => match run_cfgs_with inst st' cs' with Some rs => Some (reps :: rs) | None => None end
                | None => None
                end
  end.
Definition run_cfgs := run_cfgs_with install.

Definition count_body (id : nat) (w : list event) : N :=
  N.of_nat (length (filter (fun e => match e with EBody i => Nat.eqb i id | _ => false end) w)).
Definition totals (n : nat) (reps : list rep_obs) : list N :=
  map (fun id => fold_right (fun r acc => count_body id (r_word r) + acc) 0 reps) (seq 0 n).

Definition run_opt_with (inst : rstate -> runcfg -> rstate) (s : scenario) : option obs :=
  match run_cfgs_with inst (st0 (s_tests s)) (runs_of s) with
  | Some rs => Some (mkObs rs (totals (length (s_tests s)) (concat rs)))
  | None => None
  end.
Definition run_opt := run_opt_with install.
(* an access outside the pointer array would give the empty observation, which `spec` rejects *)
Definition run_with (inst : rstate -> runcfg -> rstate) (s : scenario) : obs :=
  match run_opt_with inst s with Some o => o | None => mkObs [] [] end.
Definition run (s : scenario) : obs := run_with install s.

(* ------------------------------------------------------------------ the property as a model-free oracle *)
(* a filter accepts by substring, by exact match, or by the negation of either *)
Definition accepts (f : tfilter) (x : list N) : bool :=
  xorb (f_invert f) (if f_strict f then bytes_eqb x (f_pat f) else contains x (f_pat f)).
Definition accepted (fs : list tfilter) (x : list N) : bool :=
  match fs with [] => true | _ => existsb (fun f => accepts f x) fs end.
Definition selected (s : scenario) (t : test) : bool := accepted (s_gf s) (t_group t) && accepted (s_nf s) (t_name t).
Definition executes (s : scenario) (t : test) : bool := selected s t && (negb (t_ignored t) || s_ri s).
Definition counted_ignored (s : scenario) (t : test) : bool := selected s t && t_ignored t && negb (s_ri s).

Definition b2n (b : bool) : N := if b then 1 else 0.
Definition count_if {A} (p : A -> bool) (l : list A) : N := N.of_nat (length (filter p l)).
Definition ev_eqb (a b : event) : bool :=
  match a, b with
  | ETestsStarted, ETestsStarted | ETestEnded, ETestEnded | EGroupEnded, EGroupEnded | ETestsEnded, ETestsEnded => true
  | EGroupStarted i, EGroupStarted j | ETestStarted i, ETestStarted j | EBody i, EBody j => Nat.eqb i j
  | _, _ => false
  end.
Definition occurrences (e : event) (w : list event) : N := count_if (ev_eqb e) w.

(* the order is a permutation of the n registered tests: nothing lost, nothing duplicated *)
Definition is_perm_ids (n : nat) (ord : list nat) : bool :=
  Nat.eqb (length ord) n && forallb (fun i => count_if (Nat.eqb i) ord =? 1) (seq 0 n).

(* (GS (TS B? TE)* GE)* where B names the started test and every test started inside a group segment has the group string of
   the test the segment was opened with.  grp: group string of a test id. *)
Inductive wstate := WOut | WGroup (g : nat) | WTest (g id : nat) | WBody (g id : nat).
Fixpoint balanced_from (n : nat) (grp : nat -> list N) (st : wstate) (w : list event) : bool :=
  match w with
  | [] => match st with WOut => true | _ => false end
  | e :: r =>
      match st, e with
      | WOut, EGroupStarted g => Nat.ltb g n && balanced_from n grp (WGroup g) r
      | WGroup g, ETestStarted i => Nat.ltb i n && bytes_eqb (grp i) (grp g) && balanced_from n grp (WTest g i) r
      | WGroup _, EGroupEnded => balanced_from n grp WOut r
      | WTest g i, EBody j => Nat.eqb i j && balanced_from n grp (WBody g i) r
      | WTest g _, ETestEnded => balanced_from n grp (WGroup g) r
      | WBody g _, ETestEnded => balanced_from n grp (WGroup g) r
      | _, _ => false
      end
  end.
Definition word_shape (n : nat) (grp : nat -> list N) (w : list event) : bool :=
  match w with
  | ETestsStarted :: r =>
      match rev r with
      | ETestsEnded :: m => balanced_from n grp WOut (rev m)
      | _ => false
      end
  | _ => false
  end.
Definition group_of (ts : list test) (i : nat) : list N := match nth_error ts i with Some t => t_group t | None => [] end.

Definition cnt_eqb (a b : counters) : bool :=
  (c_tests a =? c_tests b) && (c_run a =? c_run b) && (c_ign a =? c_ign b) && (c_filt a =? c_filt b).

Fixpoint natlist_eqb (a b : list nat) : bool :=
  match a, b with [], [] => true | x :: a', y :: b' => Nat.eqb x y && natlist_eqb a' b' | _, _ => false end.

Definition rep_ok (s : scenario) (r : rep_obs) : bool :=
  let ts := s_tests s in
  let n := length ts in
  is_perm_ids n (r_order r)
  && (s_shuffle s || natlist_eqb (r_order r) (if s_rev s then seq 0 n else rev (seq 0 n)))
  && word_shape n (group_of ts) (r_word r)
  && forallb (fun t => (occurrences (ETestStarted (t_id t)) (r_word r) =? b2n (selected s t))
                       && (occurrences (EBody (t_id t)) (r_word r) =? b2n (executes s t))) ts
  && (c_tests (r_cnt r) =? N.of_nat n)
  && (c_tests (r_cnt r) =? c_run (r_cnt r) + c_ign (r_cnt r) + c_filt (r_cnt r))
  && (c_run (r_cnt r) =? count_if (executes s) ts)
  && (c_ign (r_cnt r) =? count_if (counted_ignored s) ts)
  && (c_filt (r_cnt r) =? count_if (fun t => negb (selected s t)) ts).

Fixpoint nlist_eqb (a b : list N) : bool :=
  match a, b with [], [] => true | x :: a', y :: b' => (x =? y) && nlist_eqb a' b' | _, _ => false end.

(* ---- a session: run k is judged against ITS OWN configuration.  Of the earlier runs only what the property leaves open
   enters: the list order they left (the reversals so far, whether a shuffle happened) and whether run-ignored was ever asked
   for (the property does not say that the switch is undone between runs, nor that it is kept: both are accepted). *)
Definition reverses (c : runcfg) : bool := u_rev c && (u_list c =? 0).
Definition shuffles (c : runcfg) : bool := u_shuffle c && (u_list c =? 0) && Nat.leb 1 (u_repeat c).
Definition parity (cs : list runcfg) : bool := fold_left (fun b c => xorb b (reverses c)) cs false.
Definition hist_ri (prev : list runcfg) : bool := existsb u_ri prev.
(* run c, after the runs prev, read as a single-run scenario: c's own filters; ri as given *)
Definition virt (ts : list test) (prev : list runcfg) (c : runcfg) (ri : bool) : scenario :=
  mkScn ts (u_gf c) (u_nf c) ri (parity (prev ++ [c])) (existsb shuffles (prev ++ [c])) (u_seed c) (u_rands c) (u_repeat c) 0 (u_real c) [].
Definition run_ok (ts : list test) (prev : list runcfg) (c : runcfg) (reps : list rep_obs) : bool :=
  Nat.eqb (length reps) (if u_list c =? 0 then u_repeat c else 0)
  && forallb (fun r => rep_ok (virt ts prev c (u_ri c)) r || (hist_ri prev && rep_ok (virt ts prev c true) r)) reps.
Fixpoint runs_ok (ts : list test) (prev : list runcfg) (cs : list runcfg) (rs : list (list rep_obs)) : bool :=
  match cs, rs with
  | [], [] => true
  | c :: cs', reps :: rs' => run_ok ts prev c reps && runs_ok ts (prev ++ [c]) cs' rs'
  | _, _ => false
  end.

Definition spec (s : scenario) (o : obs) : bool :=
  runs_ok (s_tests s) [] (runs_of s) (o_runs o)
  && nlist_eqb (o_totals o) (totals (length (s_tests s)) (concat (o_runs o))).   (* the per-test counters agree with the words *)

(* ------------------------------------------------------------------ scenarios the property speaks about *)
Definition nonul (x : list N) : bool := forallb (fun c => negb (c =? 0) && (c <? 256)) x.
Definition filter_ok (f : tfilter) : bool := nonul (f_pat f).
Definition test_ok (t : test) : bool := nonul (t_group t) && nonul (t_name t).
Definition valid1 (s : scenario) : bool :=
  natlist_eqb (map t_id (s_tests s)) (seq 0 (length (s_tests s)))
  && forallb test_ok (s_tests s) && forallb filter_ok (s_gf s) && forallb filter_ok (s_nf s)
  && forallb (fun r => r <? 2147483648) (s_rands s)                    (* rand() returns 0..RAND_MAX *)
  && ((s_route s =? 0)                                                  (* what the command line can express *)
      || (Nat.leb 1 (s_repeat s) && (negb (s_shuffle s) || ((0 <? s_seed s) && (s_seed s <? UINT_MOD))))).
Definition cfg_ok (c : runcfg) : bool :=
  forallb filter_ok (u_gf c) && forallb filter_ok (u_nf c) && forallb (fun r => r <? 2147483648) (u_rands c)
  && ((u_route c =? 0) || (Nat.leb 1 (u_repeat c) && (negb (u_shuffle c) || ((0 <? u_seed c) && (u_seed c <? UINT_MOD)))))
  && (u_list c <? 4).
Definition valid (s : scenario) : bool := valid1 s && forallb cfg_ok (s_more s).
