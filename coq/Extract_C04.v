From Coq Require Import ExtrOcamlBasic ZArith.
From CppUVerif Require Import C04_Model.
Extraction "c04_model.ml" C04_Model.run C04_Model.spec C04_Model.valid BinInt.Z.of_N.
