(* C18 -- environment mode: consequences of the simulation, the tie to the cache model, the refuted red-team variants. *)
From Coq Require Import NArith Arith Bool List Lia Permutation.
From CppUVerif Require Import gen.Gen_C18 C18_Model C18_Lists C18_Inv C18_Sim C18_ModelG C18_GInv C18_GSim C18_ModelE C18_EInv C18_EBooks C18_ELife C18_EOps C18_EPop C18_EProofs.
Import ListNotations.
Local Open Scope N_scope.

(* ---------------------------------------------------------------- the allocators' own books of a whole run: per block the
   allocator and the size, the ids given back.  A call is legal in them when a block handed out is the next ordinal, a block
   goes back to the allocator it came from and has not gone back before, and a buffer handed out (to the scenario or to the
   underlying allocator's own string) lies in a block that has been obtained and has not gone back. *)
Definition tbooks : Type := list (N * N) * list N.
Definition tapply (bk : tbooks) (e : xev) : option tbooks :=
  match e with
  | XA who id sz => if id =? N.of_nat (length (fst bk)) then Some (fst bk ++ [(who, sz)], snd bk) else None
  | XF who id _ =>
      match xszof (fst bk) id with
      | Some (w, _) => if (w =? who) && negb (memN id (snd bk)) then Some (fst bk, id :: snd bk) else None
      | None => None
      end
  | XR id _ _ => match xszof (fst bk) id with Some _ => if memN id (snd bk) then None else Some bk | None => None end
  end.
Fixpoint tapplies (bk : tbooks) (l : list xev) : option tbooks :=
  match l with
  | [] => Some bk
  | e :: r => match tapply bk e with Some bk1 => tapplies bk1 r | None => None end
  end.
Definition ret_ev (it : eitem) : list xev := match ei_ret it with Some (id, off) => [XR id off 0] | None => [] end.
Definition etrace (o : eobs) : list xev := flat_map (fun it => ei_evs it ++ ret_ev it) o.
Definition bk_of (b : xbk) : tbooks := (xo b, xf b).

Lemma tapplies_app : forall l1 l2 bk, tapplies bk (l1 ++ l2) = match tapplies bk l1 with Some bk1 => tapplies bk1 l2 | None => None end.
Proof. induction l1 as [|e r IH]; intros l2 bk; simpl; [reflexivity|]. destruct (tapply bk e); [apply IH | reflexivity]. Qed.

Lemma handout_t : forall live b id off n b', handout live b id off n = Some b' -> tapply (bk_of b) (XR id off 0) = Some (bk_of b) /\ bk_of b' = bk_of b.
Proof.
  intros live b id off n b' H. unfold handout in H. unfold tapply, bk_of. cbn [fst snd].
  destruct (xszof (xo b) id) as [[w a]|]; [|discriminate]. destruct (memN id (xf b)); [discriminate|].
  split; [reflexivity|]. destruct (negb (off + n <=? a)); [discriminate|]. destruct (existsb (overlaps id off n) (map le3 live)); [discriminate|].
  destruct (seen_cls (xs b) id) as [c|]; [destruct (optN_eqb c (cls n)); [|discriminate]|]; inversion H; subst; reflexivity.
Qed.
Lemma x_apply_t : forall c live b e b', x_apply c live b e = Some b' -> tapply (bk_of b) e = Some (bk_of b').
Proof.
  intros c live b [who id sz|who id sz|id off n] b' H; unfold x_apply in H.
  - unfold tapply, bk_of. cbn [fst snd]. destruct (id =? N.of_nat (length (xo b))); [|discriminate]. inversion H; subst. reflexivity.
  - unfold tapply, bk_of. cbn [fst snd]. destruct (xszof (xo b) id) as [[w a]|]; [|discriminate].
    destruct (w =? who); [|discriminate]. cbn [negb orb] in H. destruct (memN id (xf b)); [discriminate|]. cbn [negb andb orb] in *.
    destruct (negb (size_ok a sz c) || memN id (lids live)); [discriminate|]. inversion H; subst. reflexivity.
  - destruct (handout_t _ _ _ _ _ _ H) as [H1 H2]. unfold tapply in *. cbn [bk_of fst snd] in *.
    destruct (xszof (xo b) id); [|discriminate]. destruct (memN id (xf b)); [discriminate|]. rewrite H2. reflexivity.
Qed.
Lemma x_applies_t : forall c live l b b', x_applies c live b l = Some b' -> tapplies (bk_of b) l = Some (bk_of b').
Proof.
  intros c live l. induction l as [|e r IH]; intros b b' H; simpl in *; [inversion H; reflexivity|].
  destruct (x_apply c live b e) as [b1|] eqn:E; [|discriminate]. rewrite (x_apply_t _ _ _ _ _ E). apply IH. exact H.
Qed.

Ltac edes H := repeat match type of H with
  | context [match ?x with _ => _ end] => destruct x eqn:?; try discriminate H
  end.
Lemma echeck_t : forall q o it q', echeck q o it = Some q' -> tapplies (bk_of (q_b q)) (ei_evs it ++ ret_ev it) = Some (bk_of (q_b q')).
Proof.
  intros q o it q' H. unfold echeck in H. destruct (ei_warn it); [discriminate|]. rewrite tapplies_app. unfold ret_ev.
  destruct o as [k|kind| | | |n|k].
  - edes H. inversion H; subst. cbn [mk_es q_b]. erewrite x_applies_t by eauto. reflexivity.
  - edes H. inversion H; subst. cbn [mk_es q_b]. erewrite x_applies_t by eauto. reflexivity.
  - edes H. inversion H; subst. cbn [mk_es q_b]. erewrite x_applies_t by eauto. reflexivity.
  - edes H. inversion H; subst. cbn [mk_es q_b]. erewrite x_applies_t by eauto. reflexivity.
  - edes H. inversion H; subst. cbn [mk_es q_b]. erewrite x_applies_t by eauto. reflexivity.
  - edes H. inversion H; subst. cbn [mk_es q_b]. erewrite x_applies_t by eauto.
    match goal with Hh : handout _ _ _ _ _ = Some _ |- _ => destruct (handout_t _ _ _ _ _ _ Hh) as [T1 T2] end.
    cbn [tapplies]. rewrite T1, T2. reflexivity.
  - edes H. inversion H; subst. cbn [mk_es q_b]. erewrite x_applies_t by eauto. reflexivity.
Qed.
Lemma echeck_ops_t : forall ops q o qf, echeck_ops q ops o = Some qf -> tapplies (bk_of (q_b q)) (etrace o) = Some (bk_of (q_b qf)).
Proof.
  induction ops as [|op r IH]; intros q o qf H; cbn [echeck_ops] in H.
  - destruct (v_obj (q_env q)); destruct o as [|it [|it2 o2]]; try discriminate.
    + unfold etrace. cbn [flat_map]. rewrite app_nil_r. eapply echeck_t; eauto.
    + inversion H; subst. reflexivity.
  - destruct o as [|it o']; [discriminate|]. destruct (echeck q op it) as [q1|] eqn:E; [|discriminate].
    unfold etrace. cbn [flat_map]. rewrite tapplies_app. rewrite (echeck_t _ _ _ _ E). apply IH. exact H.
Qed.

Lemma tapply_nodup : forall bk e bk', tapply bk e = Some bk' -> NoDup (snd bk) -> NoDup (snd bk').
Proof.
  intros bk [who id sz|who id sz|id off n] bk' H N; unfold tapply in H.
  - destruct (id =? N.of_nat (length (fst bk))); [|discriminate]. inversion H; subst. exact N.
  - destruct (xszof (fst bk) id) as [[w a]|]; [|discriminate]. destruct (w =? who); [|discriminate]. cbn [andb] in H.
    destruct (memN id (snd bk)) eqn:M; [discriminate|]. inversion H; subst. cbn [snd]. constructor; [apply memN_false; exact M | exact N].
  - destruct (xszof (fst bk) id); [|discriminate]. destruct (memN id (snd bk)); [discriminate|]. inversion H; subst. exact N.
Qed.
Lemma tapplies_nodup : forall l bk bk', tapplies bk l = Some bk' -> NoDup (snd bk) -> NoDup (snd bk').
Proof.
  induction l as [|e r IH]; intros bk bk' H N; simpl in H; [inversion H; subst; exact N|].
  destruct (tapply bk e) as [bk1|] eqn:E; [|discriminate]. eapply IH; [exact H|]. eapply tapply_nodup; eauto.
Qed.

(* every valid scenario: the whole trace -- every allocator call, every buffer handed out -- is legal in the allocators' own
   books; no block went back twice; when the scenario is over (the object destroyed) every block any allocator ever handed out
   is back at that allocator, except the blocks of buffers still in use that an allocator served directly *)
Theorem env_books_balanced : forall s, evalid s = true ->
  exists qf, efinal s (erun s) = Some qf /\ v_obj (q_env qf) = None /\
    tapplies ([], []) (etrace (erun s)) = Some (bk_of (q_b qf)) /\ NoDup (xf (q_b qf)) /\
    (forall e, In e (q_lv qf) -> le_own e < 2) /\
    forall id, id < xlen (q_b qf) -> In id (xf (q_b qf)) \/ In id (lids (q_lv qf)).
Proof.
  intros s V. unfold efinal, erun.
  destruct (erun_ops_ok (e_rf s) (e_ra s) (e_ops s) eworld0 es0 [] WI_init V) as [qf [wf [rq [C [W Ho]]]]].
  exists qf. split; [exact C|]. split; [exact Ho|]. pose proof (echeck_ops_t _ _ _ _ C) as T. cbn in T. split; [exact T|].
  split; [apply (tapplies_nodup _ _ _ T); constructor|].
  assert (Eo : ew_obj wf = None) by (apply (wi_obj _ _ _ W); exact Ho). pose proof (wi_bi _ _ _ W) as B. rewrite Eo in B. split.
  - intros e H. destruct (bi_own _ _ _ _ _ _ B e H) as [G|[G _]]; [exact G | congruence].
  - intros id H. destruct (bi_cov _ _ _ _ _ _ B id) as [G|[G|G]]; [lia | exact H | left; exact G | destruct G | right; apply dir_in_lids; exact G].
Qed.

(* ---------------------------------------------------------------- with an underlying allocator that does not re-enter, the
   operations of this mode ARE those of the cache model C18_Model (tied to the source by C18_HeapTie) *)
Lemma frees_plain : forall l st nx, (forall e, In e l -> exists id sz, e = EF id sz) -> frees_with_lives None st nx l = (st, nx, map xu l).
Proof.
  induction l as [|e r IH]; intros st nx H; [reflexivity|]. destruct (H e (or_introl eq_refl)) as [id [sz ->]].
  cbn [frees_with_lives olife]. rewrite IH; [reflexivity|]. intros x Hx. apply H. right. exact Hx.
Qed.
Lemma direct_plain : forall l nx, (forall e, In e l -> exists id sz, e = EF id sz) -> direct_frees None nx l = (map xu l, nx).
Proof.
  induction l as [|e r IH]; intros nx H; [reflexivity|]. destruct (H e (or_introl eq_refl)) as [id [sz ->]].
  cbn [direct_frees dlife]. rewrite IH; [reflexivity|]. intros x Hx. apply H. right. exact Hx.
Qed.
Lemma dealloc_only_frees : forall st p n e, In e (o_evs (snd (dealloc st p n))) -> exists id sz, e = EF id sz.
Proof.
  intros st p n e H. unfold dealloc in H. destruct (is_cached n).
  - cbv zeta in H. destruct (unlink _ p) as [[b u]|]; simpl in H; destruct H.
  - destruct (unlink (s_non st) p) as [[b u]|]; simpl in H; [|destruct H]. destruct H as [<-|[<-|[]]]; eauto.
Qed.

Theorem plain_request_is_alloc : forall st nx n,
  let '(st', nx', p, e) := r_alloc None st nx n in
  let '(st1, x) := alloc (set_next st nx) n in
  s_cache st' = s_cache st1 /\ s_non st' = s_non st1 /\ s_warned st' = s_warned st1 /\ nx' = s_next st1 /\ o_ret x = Some p /\ e = map xu (o_evs x).
Proof.
  intros st nx n. unfold r_alloc, need, alloc_hit, alloc, link, olife. cbn [set_next s_cache s_non s_warned s_next].
  destruct (is_cached n) eqn:C.
  - cbv zeta. destruct (n_free (nth (index_for (s_cache st) n) (s_cache st) dnode)) as [|b fr] eqn:F.
    + unfold create_block. cbn [with_cache s_cache s_non s_warned s_next mk_out o_ret o_evs b_mem map xu app].
      repeat split; try reflexivity. lia.
    + cbn [with_cache s_cache s_non s_warned s_next mk_out o_ret o_evs map]. repeat split; reflexivity.
  - unfold create_block. cbn [s_cache s_non s_warned s_next mk_out o_ret o_evs b_mem map xu app]. repeat split; try reflexivity. lia.
Qed.
Theorem plain_release_is_dealloc : forall st nx p n,
  r_dealloc None st nx p n = (fst (dealloc st p n), nx, map xu (o_evs (snd (dealloc st p n))), o_warn (snd (dealloc st p n))).
Proof.
  intros st nx p n. unfold r_dealloc. destruct (dealloc st p n) as [st' x] eqn:D. cbn [fst snd].
  rewrite frees_plain; [reflexivity|]. intros e H. apply (dealloc_only_frees st p n). rewrite D. exact H.
Qed.
Theorem plain_destructor_is_clear_all : forall ra w st tab, ew_obj w = Some (st, tab) ->
  estep None ra w EPop =
  ({| ew_obj := None; ew_nx := ew_nx w; ew_cur := FU; ew_tsv := ew_tsv w; ew_res := ew_res w |},
   mk_ei (map xu (o_evs (snd (clear_all st))) ++ [XF who_D tab node_array_size]) None false).
Proof.
  intros ra w st tab H. cbn [estep]. rewrite H. destruct (clear_all st) as [stx x] eqn:CA. cbn [snd].
  rewrite direct_plain; [reflexivity|]. intros e He. pose proof (clear_all_eq st) as Q. rewrite CA in Q. inversion Q; subst x.
  cbn [o_evs mk_out] in He. fold (wipe_evs st) in He. apply in_wipe_evs in He. destruct He as [k [blk [_ [->| ->]]]]; eauto.
Qed.

(* ---------------------------------------------------------------- the three red-team changes of round 5 are refuted *)
Definition sc_tab : escenario := {| e_rf := None; e_ra := None; e_ops := [EMal 1; EPush 0] |}.
Definition sc_guard : escenario := {| e_rf := None; e_ra := None; e_ops := [EPush 0; EAlloc 20; ETop] |}.
Definition sc_order : escenario := {| e_rf := Some 10; e_ra := None; e_ops := [EPush 0; EAlloc 20; ERel 0] |}.

(* C18-1: the node table taken from the current malloc allocator and returned to the default one *)
Theorem table_from_current_refuted :
  evalid sc_tab = true /\ espec sc_tab (erun_tab_variant None None 0 eworld0 (e_ops sc_tab)) = false /\ espec sc_tab (erun sc_tab) = true.
Proof. vm_compute. auto. Qed.
(* C18-2: the destructor that only uninstalls and clears when its adaptor is still the current string allocator *)
Theorem guarded_destructor_refuted :
  evalid sc_guard = true /\ espec sc_guard (erun_with (estep_guarded_variant None None) eworld0 (e_ops sc_guard)) = false /\
  espec sc_guard (erun sc_guard) = true.
Proof. vm_compute. auto. Qed.
(* C18-3: the destructor that clears before it uninstalls: the re-entering allocator's string is served the block just returned *)
Theorem clear_before_uninstall_refuted :
  evalid sc_order = true /\ espec sc_order (erun_with (estep_clear_first_variant (Some 10) None) eworld0 (e_ops sc_order)) = false /\
  espec sc_order (erun sc_order) = true.
Proof. vm_compute. auto. Qed.

(* ---------------------------------------------------------------- the hypotheses are satisfiable *)
Definition edemo : escenario :=
  {| e_rf := Some 10; e_ra := Some 300;
     e_ops := [EAlloc 20; EMal 1; EPush 0; EAlloc 20; EAlloc 300; EAlloc 40; ERel 2; ERel 3; EMal 2; ETop; EAlloc 7; EPop; EUntop; ERel 0;
               EPush 1; EAlloc 20] |}.
Example edemo_ok : evalid edemo = true /\ espec edemo (erun edemo) = true /\ length (erun edemo) = 17%nat.
Proof. vm_compute. auto. Qed.
Example edemo_balanced : exists qf, efinal edemo (erun edemo) = Some qf /\ lids (q_lv qf) = [23].
Proof. eexists. split; vm_compute; reflexivity. Qed.
