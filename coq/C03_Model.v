(* C03 -- executable mirror of the check macros (include/CppUTest/UtestMacros.h, TestHarness_c.h), the
   UtestShell::assert* family (src/CppUTest/Utest.cpp), the C entry points (src/CppUTest/TestHarness_c.cpp) and the
   SimpleString primitives they call (StrCmp, StrNCmp, StrStr, MemCmp, lowerCase), LP64.
   Every check is a function to  (failed, counted) : one failure recorded?, how many times countCheck() ran.
   No proofs in this file. *)
From Coq Require Import ZArith NArith Bool List.
From CppUVerif Require Import lib.CInt lib.Dbl lib.Str.
Import ListNotations.
Local Open Scope Z_scope.

(* ------------------------------------------------------------------ operand types *)
(* the type of an operand expression handed to a macro: the six types of CInt plus the four sub-int types *)
Inductive oty := OSChar | OUChar | OShort | OUShort | OI (t : ity).
Definition owidth (t : oty) : Z := match t with OSChar | OUChar => 8 | OShort | OUShort => 16 | OI t => width t end.
Definition osigned (t : oty) : bool := match t with OSChar | OShort => true | OUChar | OUShort => false | OI t => signed t end.
Definition olo (t : oty) : Z := if osigned t then - 2 ^ (owidth t - 1) else 0.
Definition ohi (t : oty) : Z := if osigned t then 2 ^ (owidth t - 1) - 1 else 2 ^ owidth t - 1.
Definition o_in_range (t : oty) (z : Z) : bool := (olo t <=? z) && (z <=? ohi t).
Definition osize (t : oty) : Z := owidth t / 8.                      (* sizeof *)
(* integral promotion: every sub-int type promotes to int, value unchanged *)
Definition promote (t : oty) : ity := match t with OI t => t | _ => TInt end.
(* conversion of a mathematical integer to a w-bit type (what a C cast / parameter passing does in g++) *)
Definition wcast (w : Z) (sg : bool) (z : Z) : Z :=
  let m := z mod 2 ^ w in if sg && (2 ^ (w - 1) <=? m) then m - 2 ^ w else m.
Definition ocast (t : oty) : Z -> Z :=
  match t with OI t => cast t | _ => wcast (owidth t) (osigned t) end.
Definition OLong := OI TLong.
Definition OULong := OI TULong.

(* ------------------------------------------------------------------ UtestShell::assert*  (Utest.cpp) *)
Definition res := (bool * N)%type.          (* (failure recorded, number of countCheck calls) *)
Definition assertTrue (condition : bool) : res := (negb condition, 1%N).
Definition shell_fail : res := (true, 1%N).                               (* UtestShell::fail *)
Definition assertLongsEqual (e a : Z) : res := (negb (e =? a), 1%N).
Definition assertUnsignedLongsEqual (e a : Z) : res := (negb (e =? a), 1%N).
Definition assertLongLongsEqual (e a : Z) : res := (negb (e =? a), 1%N).
Definition assertUnsignedLongLongsEqual (e a : Z) : res := (negb (e =? a), 1%N).
Definition assertSignedBytesEqual (e a : Z) : res := (negb (e =? a), 1%N).
Definition assertPointersEqual (e a : Z) : res := (negb (e =? a), 1%N).
Definition assertFunctionPointersEqual (e a : Z) : res := (negb (e =? a), 1%N).
Definition assertDoublesEqual (e a t : dbl) : res := (negb (doubles_equal e a t), 1%N).
Definition assertEquals (failed : bool) : res := (failed, 1%N).
Definition assertCompare (comparison : bool) : res := (negb comparison, 1%N).
Definition assertBitsEqual (e a mask byteCount : Z) : res := (negb (Z.land e mask =? Z.land a mask), 1%N).

(* --- SimpleString primitives on NUL-terminated arrays: a list of bytes followed by an implicit terminator;
       an embedded 0 byte terminates earlier, exactly as in memory *)
Definition hd0 (s : list N) : N := match s with [] => 0%N | c :: _ => c end.
Definition zb (c : N) : Z := Z.of_N c.
(* int StrCmp(s1, s2): while ( s1[0] && s1[0] == s2[0] ) advance both; return s1[0] - s2[0] as unsigned chars *)
Fixpoint StrCmp (s1 s2 : list N) : Z :=
  match s1 with
  | [] => 0 - zb (hd0 s2)
  | c1 :: r1 => if negb (c1 =? 0)%N && (c1 =? hd0 s2)%N then StrCmp r1 (tl s2) else zb c1 - zb (hd0 s2)
  end.
(* int StrNCmp(s1, s2, n): while ( n && s1[0] && s1[0] == s2[0] ) --n, advance both; return n ? s1[0] - s2[0] : 0 *)
Fixpoint StrNCmp (s1 s2 : list N) (n : N) : Z :=
  if (n =? 0)%N then 0 else
  match s1 with
  | [] => 0 - zb (hd0 s2)
  | c1 :: r1 => if negb (c1 =? 0)%N && (c1 =? hd0 s2)%N then StrNCmp r1 (tl s2) (N.pred n) else zb c1 - zb (hd0 s2)
  end.
Fixpoint StrLen (s : list N) : N :=
  match s with [] => 0%N | c :: r => if (c =? 0)%N then 0%N else N.succ (StrLen r) end.
(* StrStr(s1, s2) != NULL *)
Fixpoint StrStr_loop (s1 s2 : list N) (len2 : N) : bool :=
  match s1 with
  | [] => false
  | c :: r => if (c =? 0)%N then false
              else if StrNCmp s1 s2 len2 =? 0 then true else StrStr_loop r s2 len2
  end.
Definition StrStr_found (s1 s2 : list N) : bool :=
  if (hd0 s2 =? 0)%N then true else StrStr_loop s1 s2 (StrLen s2).
(* SimpleString(const char* ) : NULL gives "", otherwise a copy up to the terminator *)
Definition SimpleString_of (s : option (list N)) : list N := match s with None => [] | Some l => cut_nul l end.
Definition lowerCase (s : list N) : list N := map to_lower s.           (* ToLower on each char of the buffer *)
Definition ss_equal (a b : list N) : bool := StrCmp a b =? 0.            (* operator== *)
Definition ss_contains (s other : list N) : bool := StrStr_found s other.
(* int MemCmp(s1, s2, n) on blocks of at least n bytes *)
Fixpoint MemCmp (p1 p2 : list N) (n : N) : Z :=
  if (n =? 0)%N then 0 else
  match p1, p2 with
  | c1 :: r1, c2 :: r2 => if (c1 =? c2)%N then MemCmp r1 r2 (N.pred n) else zb c1 - zb c2
  | _, _ => 0      (* reading past a block: excluded by validity *)
  end.

(* the first n elements (n is a size_t: no conversion to nat) *)
Fixpoint take (n : N) (l : list N) : list N :=
  match l with [] => [] | c :: r => if (n =? 0)%N then [] else c :: take (N.pred n) r end.

Definition passed1 : res := (false, 1%N).
Definition failed1 : res := (true, 1%N).
Definition assertCstrEqual (e a : option (list N)) : res :=
  match e, a with
  | None, None => passed1
  | None, _ | _, None => failed1
  | Some e, Some a => if negb (StrCmp e a =? 0) then failed1 else passed1
  end.
Definition assertCstrNEqual (e a : option (list N)) (n : N) : res :=
  match e, a with
  | None, None => passed1
  | None, _ | _, None => failed1
  | Some e, Some a => if negb (StrNCmp e a n =? 0) then failed1 else passed1
  end.
Definition assertCstrNoCaseEqual (e a : option (list N)) : res :=
  match e, a with
  | None, None => passed1
  | None, _ | _, None => failed1
  | Some _, Some _ => if negb (ss_equal (lowerCase (SimpleString_of e)) (lowerCase (SimpleString_of a))) then failed1 else passed1
  end.
Definition assertCstrContains (e a : option (list N)) : res :=
  match e, a with
  | None, None => passed1
  | None, _ | _, None => failed1
  | Some _, Some _ => if negb (ss_contains (SimpleString_of a) (SimpleString_of e)) then failed1 else passed1
  end.
Definition assertCstrNoCaseContains (e a : option (list N)) : res :=
  match e, a with
  | None, None => passed1
  | None, _ | _, None => failed1
  | Some _, Some _ => if negb (ss_contains (lowerCase (SimpleString_of a)) (lowerCase (SimpleString_of e))) then failed1 else passed1
  end.
Definition assertBinaryEqual (e a : option (list N)) (len : N) : res :=
  if (len =? 0)%N then passed1 else
  match e, a with
  | None, None => passed1
  | None, _ | _, None => failed1
  | Some e, Some a => if negb (MemCmp e a len =? 0) then failed1 else passed1
  end.

(* ------------------------------------------------------------------ the macros *)
(* two-operand integer checks *)
Inductive k2 :=
| CHECK_EQUAL | LONGS_EQUAL | UNSIGNED_LONGS_EQUAL | LONGLONGS_EQUAL | UNSIGNED_LONGLONGS_EQUAL | BYTES_EQUAL | SIGNED_BYTES_EQUAL
| C_BOOL | C_INT | C_UINT | C_LONG | C_ULONG | C_LONGLONG | C_ULONGLONG | C_CHAR | C_UBYTE | C_SBYTE.

(* (x) & 0xff  for x of type t: usual arithmetic conversions with the int constant, then bitwise and *)
Definition and_ff (t : oty) (z : Z) : ity * Z :=
  let ct := common (promote t) TInt in (ct, Z.land (cast ct z) (cast ct 255)).

Definition run_k2 (k : k2) (ta : oty) (za : Z) (tb : oty) (zb : Z) : res :=
  match k with
  | CHECK_EQUAL =>
      (* if ((expected) != (actual)) assertEquals(true,...) else assertLongsEqual(0,0)   -- operator != of the language *)
      if negb (c_eq (promote ta) za (promote tb) zb) then assertEquals true else assertLongsEqual (cast TLong 0) (cast TLong 0)
  | LONGS_EQUAL => assertLongsEqual (cast TLong za) (cast TLong zb)
  | UNSIGNED_LONGS_EQUAL => assertUnsignedLongsEqual (cast TULong za) (cast TULong zb)
  | LONGLONGS_EQUAL => assertLongLongsEqual (cast TLLong za) (cast TLLong zb)
  | UNSIGNED_LONGLONGS_EQUAL => assertUnsignedLongLongsEqual (cast TULLong za) (cast TULLong zb)
  | BYTES_EQUAL =>
      (* LONGS_EQUAL((expected) & 0xff, (actual) & 0xff) *)
      assertLongsEqual (cast TLong (snd (and_ff ta za))) (cast TLong (snd (and_ff tb zb)))
  | SIGNED_BYTES_EQUAL => assertSignedBytesEqual (ocast OSChar za) (ocast OSChar zb)     (* parameters are signed char *)
  | C_BOOL =>
      (* parameters int; assertEquals(!!expected != !!actual, ...) *)
      assertEquals (negb (Bool.eqb (negb (cast TInt za =? 0)) (negb (cast TInt zb =? 0))))
  | C_INT => assertLongsEqual (cast TLong (cast TInt za)) (cast TLong (cast TInt zb))
  | C_UINT => assertUnsignedLongsEqual (cast TULong (cast TUInt za)) (cast TULong (cast TUInt zb))
  | C_LONG => assertLongsEqual (cast TLong za) (cast TLong zb)
  | C_ULONG => assertUnsignedLongsEqual (cast TULong za) (cast TULong zb)
  | C_LONGLONG => assertLongLongsEqual (cast TLLong za) (cast TLLong zb)
  | C_ULONGLONG => assertUnsignedLongLongsEqual (cast TULLong za) (cast TULLong zb)
  | C_CHAR => assertEquals (negb (c_eq TInt (ocast OSChar za) TInt (ocast OSChar zb)))    (* plain char is signed here *)
  | C_UBYTE => assertEquals (negb (c_eq TInt (ocast OUChar za) TInt (ocast OUChar zb)))
  | C_SBYTE => assertEquals (negb (c_eq TInt (ocast OSChar za) TInt (ocast OSChar zb)))
  end.

(* boolean checks on an integer operand *)
Inductive k1 := K_CHECK | K_CHECK_TRUE | K_CHECK_FALSE | K_CHECK_C.
Definition to_bool (z : Z) : bool := negb (z =? 0).
Definition run_k1 (k : k1) (t : oty) (z : Z) : res :=
  match k with
  | K_CHECK | K_CHECK_TRUE => assertTrue (to_bool z)
  | K_CHECK_FALSE => assertTrue (negb (to_bool z))
  | K_CHECK_C => assertTrue (negb (cast TInt z =? 0))       (* parameter int condition; condition != 0 *)
  end.

(* CHECK_EQUAL_ZERO(actual) = CHECK_EQUAL(0, (actual)) *)
Definition run_equal_zero (t : oty) (z : Z) : res := run_k2 CHECK_EQUAL (OI TInt) 0 t z.

(* CHECK_COMPARE(first, relop, second) *)
Inductive relop := RLt | RLe | RGt | RGe | REq | RNe.
Definition rel (op : relop) (x y : Z) : bool :=
  match op with RLt => x <? y | RLe => x <=? y | RGt => y <? x | RGe => y <=? x | REq => x =? y | RNe => negb (x =? y) end.
Definition c_rel (op : relop) (a : ity) (x : Z) (b : ity) (y : Z) : bool :=
  let t := common a b in rel op (cast t x) (cast t y).
Definition run_compare (op : relop) (ta : oty) (za : Z) (tb : oty) (zb : Z) : res :=
  let success := c_rel op (promote ta) za (promote tb) zb in
  if negb success then assertCompare false else (false, 0%N).

(* ENUMS_EQUAL_TYPE(underlying_type, expected, actual); ENUMS_EQUAL_INT = underlying type int *)
Definition run_enums (u : oty) (za zb : Z) : res :=
  let e := ocast u za in let a := ocast u zb in
  if negb (c_eq (promote u) e (promote u) a) then assertEquals true else assertLongsEqual (cast TLong 0) (cast TLong 0).

(* POINTERS_EQUAL / FUNCTIONPOINTERS_EQUAL / CHECK_EQUAL_C_POINTER on addresses *)
Inductive kp := K_POINTERS | K_FUNCTIONPOINTERS | K_C_POINTER.
Definition run_ptr (k : kp) (e a : Z) : res :=
  match k with K_FUNCTIONPOINTERS => assertFunctionPointersEqual e a | _ => assertPointersEqual e a end.

(* string checks *)
Inductive ks := K_STRCMP | K_STRNCMP | K_NOCASE | K_CONTAINS | K_NOCASE_CONTAINS | K_C_STRING.
Definition run_str (k : ks) (e a : option (list N)) (n : N) : res :=
  match k with
  | K_STRCMP | K_C_STRING => assertCstrEqual e a
  | K_STRNCMP => assertCstrNEqual e a n
  | K_NOCASE => assertCstrNoCaseEqual e a
  | K_CONTAINS => assertCstrContains e a
  | K_NOCASE_CONTAINS => assertCstrNoCaseContains e a
  end.

(* BITS_EQUAL(expected, actual, mask): parameters unsigned long, byte count sizeof(actual);
   CHECK_EQUAL_C_BITS: parameters unsigned int first *)
Definition run_bits (c : bool) (te : oty) (ze : Z) (ta : oty) (za : Z) (zm : Z) : res :=
  if c then assertBitsEqual (cast TULong (cast TUInt ze)) (cast TULong (cast TUInt za)) (cast TULong (cast TUInt zm)) (osize ta)
  else assertBitsEqual (cast TULong ze) (cast TULong za) (cast TULong zm) (osize ta).

(* CHECK_THROWS(expected, expression) *)
Inductive thrown := ThrowsNothing | ThrowsExpected | ThrowsOther.
Definition run_throws (w : thrown) : res :=
  match w with ThrowsExpected => (false, 1%N) (* countCheck() *) | _ => shell_fail end.

Inductive check :=
| Int2 (k : k2) (ta : oty) (za : Z) (tb : oty) (zb : Z)
| Bool1 (k : k1) (t : oty) (z : Z)
| EqualZero (t : oty) (z : Z)
| Compare (op : relop) (ta : oty) (za : Z) (tb : oty) (zb : Z)
| Enums (u : oty) (t : oty) (za zb : Z)            (* both operands of type t, converted to the underlying type u *)
| Ptr (k : kp) (e a : Z)
| Dbl (c : bool) (e a t : dbl)                      (* DOUBLES_EQUAL / CHECK_EQUAL_C_REAL *)
| Str (k : ks) (e a : option (list N)) (n : N)
| Mem (c : bool) (e a : option (list N)) (n : N)    (* MEMCMP_EQUAL / CHECK_EQUAL_C_MEMCMP *)
| Bits (c : bool) (te : oty) (ze : Z) (ta : oty) (za : Z) (zm : Z)
| Throws (w : thrown)
| Fail.                                             (* FAIL, FAIL_TEST, FAIL_C, FAIL_TEXT_C *)

Definition run_check (c : check) : res :=
  match c with
  | Int2 k ta za tb zb => run_k2 k ta za tb zb
  | Bool1 k t z => run_k1 k t z
  | EqualZero t z => run_equal_zero t z
  | Compare op ta za tb zb => run_compare op ta za tb zb
  | Enums u t za zb => run_enums u za zb
  | Ptr k e a => run_ptr k e a
  | Dbl _ e a t => assertDoublesEqual e a t
  | Str k e a n => run_str k e a n
  | Mem _ e a n => assertBinaryEqual e a n
  | Bits c te ze ta za zm => run_bits c te ze ta za zm
  | Throws w => run_throws w
  | Fail => shell_fail
  end.

(* what the fixture shows after running a test consisting of the check and one statement after it *)
Record obs := { o_failures : N; o_checks : N; o_after : bool }.
Definition run (c : check) : obs :=
  let '(f, n) := run_check c in {| o_failures := if f then 1%N else 0%N; o_checks := n; o_after := negb f |}.

(* ------------------------------------------------------------------ validity of a scenario *)
Definition block_ok (b : option (list N)) (n : N) : bool :=
  match b with None => true | Some l => (n <=? N.of_nat (length l))%N end.
Definition valid (c : check) : bool :=
  match c with
  | Int2 _ ta za tb zb | Compare _ ta za tb zb => o_in_range ta za && o_in_range tb zb
  | Bool1 _ t z | EqualZero t z => o_in_range t z
  | Enums _ t za zb => o_in_range t za && o_in_range t zb
  | Ptr _ e a => o_in_range OULong e && o_in_range OULong a
  | Mem _ e a n => block_ok e n && block_ok a n
  | Bits _ te ze ta za zm => o_in_range te ze && o_in_range ta za && o_in_range OULong zm
  | _ => true
  end.

(* ------------------------------------------------------------------ spec: what the property demands (model-free) *)
(* representative of z in the w-bit type, written with plain modular arithmetic *)
Definition wrap (w : Z) (sg : bool) (z : Z) : Z :=
  if sg then (z + 2 ^ (w - 1)) mod 2 ^ w - 2 ^ (w - 1) else z mod 2 ^ w.
Definition owrap (t : oty) : Z -> Z := wrap (owidth t) (osigned t).
(* the type a two-operand integer check names *)
Definition named (k : k2) : option oty :=
  match k with
  | LONGS_EQUAL | C_LONG => Some (OI TLong)
  | UNSIGNED_LONGS_EQUAL | C_ULONG => Some (OI TULong)
  | LONGLONGS_EQUAL | C_LONGLONG => Some (OI TLLong)
  | UNSIGNED_LONGLONGS_EQUAL | C_ULONGLONG => Some (OI TULLong)
  | BYTES_EQUAL | C_UBYTE => Some OUChar
  | SIGNED_BYTES_EQUAL | C_CHAR | C_SBYTE => Some OSChar
  | C_INT => Some (OI TInt)
  | C_UINT => Some (OI TUInt)
  | CHECK_EQUAL | C_BOOL => None
  end.
(* value of an operand of type t after the usual arithmetic conversions to the common type ct: a signed common type
   holds every value of both operand types; an unsigned one reduces modulo 2^width *)
Definition conv (ct : ity) (z : Z) : Z := if signed ct then z else z mod 2 ^ width ct.
Definition lang_rel (op : relop) (ta : oty) (za : Z) (tb : oty) (zb : Z) : bool :=
  let ct := common (promote ta) (promote tb) in rel op (conv ct za) (conv ct zb).

(* is the predicate named by the check true?  (one function per family, so that statements about integer or string
   checks do not mention the floating-point library) *)
Definition holds_int2 (k : k2) (ta : oty) (za : Z) (tb : oty) (zb : Z) : bool :=
  match named k with
  | Some t => owrap t za =? owrap t zb
  | None => match k with
            | C_BOOL => Bool.eqb (owrap (OI TInt) za =? 0) (owrap (OI TInt) zb =? 0)
            | _ => lang_rel REq ta za tb zb
            end
  end.
Definition holds_bool1 (k : k1) (z : Z) : bool :=
  match k with
  | K_CHECK_FALSE => z =? 0
  | K_CHECK_C => negb (owrap (OI TInt) z =? 0)
  | _ => negb (z =? 0)
  end.
Definition holds_dbl (e a t : dbl) : bool :=
  if d_is_nan e || d_is_nan a || d_is_nan t then false
  else if d_is_inf e || d_is_inf a then
    (d_is_inf e && d_is_inf a && Bool.eqb (d_sign e) (d_sign a)) || (d_is_inf t && negb (d_sign t))
  else d_le (d_abs (d_minus e a)) t.          (* finite operands: |e - a| <= t in binary64 arithmetic *)
Definition holds_str (k : ks) (e a : option (list N)) (n : N) : bool :=
  match e, a with
  | None, None => true
  | None, _ | _, None => false
  | Some e, Some a =>
      let e := cut_nul e in let a := cut_nul a in
      match k with
      | K_STRCMP | K_C_STRING => bytes_eqb e a
      | K_STRNCMP => bytes_eqb (take n e) (take n a)
      | K_NOCASE => bytes_eqb (lower e) (lower a)
      | K_CONTAINS => contains a e
      | K_NOCASE_CONTAINS => contains (lower a) (lower e)
      end
  end.
Definition holds_mem (e a : option (list N)) (n : N) : bool :=
  (n =? 0)%N ||
  match e, a with
  | None, None => true
  | None, _ | _, None => false
  | Some e, Some a => bytes_eqb (take n e) (take n a)
  end.
Definition holds_bits (c : bool) (ze za zm : Z) : bool :=
  let w := if c then 32 else 64 in
  Z.land (ze mod 2 ^ w) (zm mod 2 ^ w) =? Z.land (za mod 2 ^ w) (zm mod 2 ^ w).
Definition holds_throws (w : thrown) : bool := match w with ThrowsExpected => true | _ => false end.

Definition holds (c : check) : bool :=
  match c with
  | Int2 k ta za tb zb => holds_int2 k ta za tb zb
  | Bool1 k _ z => holds_bool1 k z
  | EqualZero t z => lang_rel REq (OI TInt) 0 t z
  | Compare op ta za tb zb => lang_rel op ta za tb zb
  | Enums u _ za zb => owrap u za =? owrap u zb
  | Ptr _ e a => e =? a
  | Dbl _ e a t => holds_dbl e a t
  | Str k e a n => holds_str k e a n
  | Mem _ e a n => holds_mem e a n
  | Bits c _ ze _ za zm => holds_bits c ze za zm
  | Throws w => holds_throws w
  | Fail => false
  end.

(* the one kind of check that is not counted when it passes *)
Definition is_compare (c : check) : bool := match c with Compare _ _ _ _ _ => true | _ => false end.

Definition spec (c : check) (o : obs) : bool :=
  let h := holds c in
  (o_failures o =? (if h then 0 else 1))%N &&
  (o_checks o =? (if h && is_compare c then 0 else 1))%N &&
  Bool.eqb (o_after o) h.
