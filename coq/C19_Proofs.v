(* C19 -- proofs about the wiring model (coq/C19_Model.v) over the tables regenerated from the source (coq/gen/Gen_C19.v). *)
From Coq Require Import ZArith NArith Bool List Lia.
From CppUVerif Require Import lib.CInt lib.Str C09_Model C19_Table gen.Gen_C19 C19_Model.
Import ListNotations.
Local Open Scope name_scope.

Definition name_eq_dec (a b : name) : {a = b} + {a <> b}. Proof. decide equality. apply (list_eq_dec N.eq_dec). Defined.
Lemma name_eqb_eq a b : (a =? b) = true <-> a = b.
Proof. destruct a as [x], b as [y]. simpl. rewrite bytes_eqb_eq. split; [now intros -> | now intros [= ->]]. Qed.
Lemma name_eqb_refl a : (a =? a) = true.
Proof. now apply name_eqb_eq. Qed.

(* ---------------------------------------------------------------- decidable equality of signatures and meanings *)
Definition ity_eq_dec (a b : ity) : {a = b} + {a <> b}. Proof. decide equality. Defined.
Definition cty_eq_dec (a b : cty) : {a = b} + {a <> b}. Proof. decide equality; apply ity_eq_dec. Defined.
Definition csig_eq_dec (a b : csig) : {a = b} + {a <> b}. Proof. decide equality; [apply (list_eq_dec cty_eq_dec) | apply cty_eq_dec]. Defined.
Definition aexp_eq_dec (a b : aexp) : {a = b} + {a <> b}. Proof. decide equality; try apply Nat.eq_dec; apply name_eq_dec. Defined.
Definition rwrap_eq_dec (a b : rwrap) : {a = b} + {a <> b}. Proof. decide equality. Defined.
Definition recv_eq_dec (a b : recv) : {a = b} + {a <> b}. Proof. decide equality. Defined.
Definition sem_eq_dec (a b : sem) : {a = b} + {a <> b}.
Proof. decide equality; try apply recv_eq_dec; try apply name_eq_dec; try apply (list_eq_dec aexp_eq_dec); try apply rwrap_eq_dec; try apply Nat.eq_dec; apply aexp_eq_dec. Defined.
Definition entry_eq_dec (a b : csig * sem) : {a = b} + {a <> b}. Proof. decide equality; [apply sem_eq_dec | apply csig_eq_dec]. Defined.
Definition opt_entry_eqb (a b : option (csig * sem)) : bool :=
  match a, b with Some x, Some y => if entry_eq_dec x y then true else false | None, None => true | _, _ => false end.
Lemma opt_entry_eqb_eq a b : opt_entry_eqb a b = true -> a = b.
Proof. destruct a, b; simpl; try discriminate; auto. destruct (entry_eq_dec p p0); [now subst | discriminate]. Qed.

(* ---------------------------------------------------------------- the finite check over the regenerated tables *)
Definition lookup (l : list (name * (csig * sem))) (f : name) : option (csig * sem) := option_map snd (find (fun d => fst d =? f) l).
(* every slot means what its field denotes; every denoted entry point is a field of the header *)
Definition agree (A D : list (name * (csig * sem))) : bool :=
  forallb (fun e => opt_entry_eqb (lookup D (fst e)) (Some (snd e))) A && forallb (fun d => existsb (fun e => fst e =? fst d) A) D.
(* the forwarder stored in a slot has the C signature of the field, and no slot is bad *)
Definition slot_typed (e : (name * csig) * name) : bool :=
  match find_fdef forwarders (snd e) with
  | Some fd => if csig_eq_dec (f_sig fd) (snd (fst e)) then true else false
  | None => false
  end.
Fixpoint nodupb (l : list name) : bool := match l with [] => true | x :: r => negb (existsb (name_eqb x) r) && nodupb r end.
Definition table_ok (t : tbl) : bool :=
  Nat.eqb (List.length (fields_of t)) (List.length (init_of t)) && nodupb (map fst (wired_entries t)) && forallb slot_typed (slots t)
  && agree (wired_entries t) (denotations t).
Definition strpair_eq_dec (a b : name * name) : {a = b} + {a <> b}. Proof. decide equality; apply name_eq_dec. Defined.
Definition adaptors_ok : bool :=
  if list_eq_dec strpair_eq_dec adaptor_bodies
       [("isEqual", "return equal_(object1, object2) != 0;"); ("valueToString", "return SimpleString(toString_(object));"); ("copy", "copier_(dst, src);")]
  then true else false.
(* the C++ side of "...OrDefault" (regenerated from MockSupport.cpp / MockActualCall.cpp): hasReturnValue() ? <getter>() : default,
   with the getter that norm_ret and denote assume *)
Definition class_of (r : recv) : name := match r with RSup => "MockSupport" | _ => "MockCheckedActualCall" end.
Definition cpp_defaults_ok : bool :=
  forallb (fun r => forallb (fun t => existsb (fun e => (fst (fst e) =? class_of r) && (snd (fst e) =? or_default_name t) && (snd e =? getter_name r t))
                                              cpp_or_default) type_names) [RSup; RAct].
Definition wiring_ok : bool := table_ok TblS && table_ok TblE && table_ok TblA && select_ok && adaptors_ok && cpp_defaults_ok.

Lemma wiring_checked : wiring_ok = true.
Proof. vm_compute. reflexivity. Qed.

Lemma find_none_no_key {V} (l : list (name * V)) f : find (fun d => fst d =? f) l = None -> forall e, In e l -> fst e <> f.
Proof.
  intros H e He Hf. apply (find_none _ _ H) in He. rewrite Hf, name_eqb_refl in He. discriminate.
Qed.

Lemma agree_lookup A D : agree A D = true -> forall f, lookup A f = lookup D f.
Proof.
  unfold agree. rewrite andb_true_iff, !forallb_forall. intros [H1 H2] f. unfold lookup at 1.
  destruct (find (fun d => fst d =? f) A) as [e|] eqn:Hf.
  - apply find_some in Hf. destruct Hf as [Hin Hk]. apply name_eqb_eq in Hk. specialize (H1 e Hin).
    apply opt_entry_eqb_eq in H1. rewrite Hk in H1. simpl. now rewrite H1.
  - simpl. unfold lookup. destruct (find (fun d => fst d =? f) D) as [d|] eqn:Hd; [|reflexivity]. exfalso.
    apply find_some in Hd. destruct Hd as [Hin Hk]. apply name_eqb_eq in Hk. specialize (H2 d Hin).
    apply existsb_exists in H2. destruct H2 as [e [He Hek]]. apply name_eqb_eq in Hek.
    apply (find_none_no_key _ _ Hf e He). congruence.
Qed.

Lemma table_ok_all t : table_ok t = true.
Proof.
  pose proof wiring_checked as H. unfold wiring_ok in H. rewrite !andb_true_iff in H. destruct H as [[[[[HS HE] HA] _] _] _].
  destruct t; assumption.
Qed.

(* C19_tables_wired, lookup form: through every field of every table a C caller reaches exactly the operation the field denotes,
   and a name that is no field of the header denotes nothing *)
Lemma wired_is_denote : forall t f, wired t f = denote t f.
Proof.
  intros t f. pose proof (table_ok_all t) as H. unfold table_ok in H. rewrite !andb_true_iff in H. destruct H as [_ H].
  exact (agree_lookup _ _ H f).
Qed.

(* positional form: the initialisers have the length of their structs; the forwarder at position i has the C signature of field i
   and the meaning the name of field i denotes *)
Lemma nth_error_combine {A B} (a : list A) (b : list B) i x y :
  nth_error a i = Some x -> nth_error b i = Some y -> nth_error (combine a b) i = Some (x, y).
Proof.
  revert b i. induction a as [|a0 a IH]; intros b i; destruct b, i; simpl; try discriminate.
  - intros H1 H2. congruence.
  - apply IH.
Qed.
Lemma find_in_nodup {V} (l : list (name * V)) e : nodupb (map fst l) = true -> In e l -> find (fun d => fst d =? fst e) l = Some e.
Proof.
  induction l as [|a l IH]; simpl; intros H Hin; [tauto|]. apply andb_true_iff in H. destruct H as [H1 H2].
  destruct Hin as [->|Hin]; [now rewrite name_eqb_refl|].
  destruct (fst a =? fst e) eqn:E; [|auto]. exfalso. apply name_eqb_eq in E. rewrite negb_true_iff in H1.
  assert (existsb (name_eqb (fst a)) (map fst l) = true) as X.
  { apply existsb_exists. exists (fst e). split; [now apply in_map | rewrite E; apply name_eqb_refl]. }
  congruence.
Qed.
Lemma tables_wired_positional : forall t i field sg fn,
  nth_error (fields_of t) i = Some (field, sg) -> nth_error (init_of t) i = Some fn ->
  denote t field = Some (sg, resolve fn) /\ (exists fd, find_fdef forwarders fn = Some fd /\ f_sig fd = sg).
Proof.
  intros t i field sg fn H1 H2. pose proof (table_ok_all t) as H. unfold table_ok in H. rewrite !andb_true_iff in H.
  destruct H as [[[_ Hnd] Hty] _].
  pose proof (nth_error_In _ _ (nth_error_combine _ _ _ _ _ H1 H2)) as Hin. fold (slots t) in Hin. split.
  - rewrite <- wired_is_denote. unfold wired.
    assert (In (field, (sg, resolve fn)) (wired_entries t)) as Hw.
    { unfold wired_entries. apply (in_map (fun e => (fst (fst e), (snd (fst e), resolve (snd e)))) _ _ Hin). }
    pose proof (find_in_nodup _ _ Hnd Hw) as F. simpl in F. now rewrite F.
  - rewrite forallb_forall in Hty. specialize (Hty _ Hin). unfold slot_typed in Hty. cbn [fst snd] in Hty.
    destruct (find_fdef forwarders fn) as [fd|]; [|discriminate Hty]. exists fd. split; [reflexivity|].
    destruct (csig_eq_dec (f_sig fd) sg); [assumption | discriminate Hty].
Qed.
Lemma tables_same_length : forall t, List.length (fields_of t) = List.length (init_of t).
Proof.
  intros t. pose proof (table_ok_all t) as H. unfold table_ok in H. rewrite !andb_true_iff in H.
  destruct H as [[[H _] _] _]. now apply Nat.eqb_eq.
Qed.

Lemma select_checked : select_ok = true.
Proof. pose proof wiring_checked as H. unfold wiring_ok in H. rewrite !andb_true_iff in H. tauto. Qed.

Lemma cpp_or_default_is : forall r t, r <> RExp -> In t type_names ->
  In (class_of r, or_default_name t, getter_name r t) cpp_or_default.
Proof.
  intros r t Hr Ht. pose proof wiring_checked as H. unfold wiring_ok in H. rewrite !andb_true_iff in H. destruct H as [_ H].
  unfold cpp_defaults_ok in H. rewrite forallb_forall in H.
  assert (In r [RSup; RAct]) as Hin by (destruct r; simpl; auto; contradiction).
  specialize (H r Hin). rewrite forallb_forall in H. specialize (H t Ht). apply existsb_exists in H.
  destruct H as [[[c m] g] [He Hk]]. cbn [fst snd] in Hk. rewrite !andb_true_iff in Hk. destruct Hk as [[K1 K2] K3].
  apply name_eqb_eq in K1, K2, K3. subst. exact He.
Qed.

(* ---------------------------------------------------------------- C19_equiv: same C++ operations *)
(* an installer is faithful when the object it hands to the C++ repository runs exactly the functions of THIS call, whatever
   adaptor nodes exist already *)
Definition faithful (I : installer) : Prop :=
  (forall l e s, snd (i_cmp I l e s) = {| n_equal := e; n_to_string := s |}) /\ (forall l c, snd (i_copy I l c) = c).
Lemma c_installer_faithful : faithful c_installer.
Proof. split; intros; reflexivity. Qed.
Lemma x_installer_faithful : faithful x_installer.
Proof. split; intros; reflexivity. Qed.

(* with faithful installers the operation performed and the three pointers do not depend on the adaptor lists *)
Lemma apply_sem_indep I1 I2 : faithful I1 -> faithful I2 -> forall p ad1 ad2 k f sg s args,
  fst (fst (apply_sem I1 p ad1 k f sg s args)) = fst (fst (apply_sem I2 p ad2 k f sg s args))
  /\ snd (apply_sem I1 p ad1 k f sg s args) = snd (apply_sem I2 p ad2 k f sg s args).
Proof.
  intros [C1 Y1] [C2 Y2] p ad1 ad2 k f sg s args. unfold apply_sem. destruct (bind f (snd sg) args 0%N) as [vs|]; [|split; reflexivity].
  destruct s; try (split; reflexivity).
  - pose proof (C1 (a_cmps ad1) (eval_arg vs (AParam 1)) (eval_arg vs (AParam 2))) as E1.
    pose proof (C2 (a_cmps ad2) (eval_arg vs (AParam 1)) (eval_arg vs (AParam 2))) as E2.
    destruct (i_cmp I1 _ _ _) as [l1 o1]. destruct (i_cmp I2 _ _ _) as [l2 o2]. simpl in *. subst. split; reflexivity.
  - pose proof (Y1 (a_cps ad1) (eval_arg vs (AParam 1))) as E1. pose proof (Y2 (a_cps ad2) (eval_arg vs (AParam 1))) as E2.
    destruct (i_copy I1 _ _) as [l1 o1]. destruct (i_copy I2 _ _) as [l2 o2]. simpl in *. subst. split; reflexivity.
Qed.

Lemma trace_ext l1 l2 b I1 I2 : (forall t f, l1 t f = l2 t f) -> faithful I1 -> faithful I2 ->
  forall ops p ad1 ad2 k, trace_from l1 b I1 p ad1 k ops = trace_from l2 b I2 p ad2 k ops.
Proof.
  intros H F1 F2. induction ops as [|o r IH]; intros p ad1 ad2 k; simpl; [reflexivity|].
  assert (fst (fst (step l1 b I1 p ad1 k o)) = fst (fst (step l2 b I2 p ad2 k o)) /\ snd (step l1 b I1 p ad1 k o) = snd (step l2 b I2 p ad2 k o)) as [E1 E2].
  { destruct o as [sc|t f args|]; simpl.
    - destruct b; split; reflexivity.
    - rewrite H. destruct (l2 t f) as [[sg s]|]; [|split; reflexivity]. apply (apply_sem_indep I1 I2 F1 F2).
    - split; reflexivity. }
  destruct (step l1 b I1 p ad1 k o) as [[p1 a1] x1]. destruct (step l2 b I2 p ad2 k o) as [[p2 a2] x2]. simpl in E1, E2. subst.
  f_equal. apply IH.
Qed.

Lemma equiv_trace : forall ops, c_trace ops = x_trace ops.
Proof.
  intros ops. unfold c_trace, x_trace. rewrite select_checked.
  apply trace_ext; [exact wired_is_denote | exact c_installer_faithful | exact x_installer_faithful].
Qed.

(* the comparator / copier a type name gets through the C interface runs the functions given in that very call: however many
   adaptor nodes exist, whatever functions they hold (C19_adaptor_fresh) *)
Lemma adaptor_fresh : forall p ad k args ty e s,
  bind "installComparator" [TCharP; TEqFn; TStrFn] args 0%N = Some [ty; e; s] ->
  snd (apply_sem c_installer p ad k "installComparator" (TVoid, [TCharP; TEqFn; TStrFn]) SInstallCmp args)
  = XInstallCmp (p_sup p) (XPass ty) (XPass e) (XPass s).
Proof. intros p ad k args ty e s H. unfold apply_sem. cbn [snd]. rewrite H. reflexivity. Qed.
Lemma copier_fresh : forall p ad k args ty c,
  bind "installCopier" [TCharP; TCopyFn] args 0%N = Some [ty; c] ->
  snd (apply_sem c_installer p ad k "installCopier" (TVoid, [TCharP; TCopyFn]) SInstallCopy args) = XInstallCopy (p_sup p) (XPass ty) (XPass c).
Proof. intros p ad k args ty c H. unfold apply_sem. cbn [snd]. rewrite H. reflexivity. Qed.

(* an installComparator_c / installCopier_c that looks for an existing adaptor node with the same equality function (resp. the same
   copier) and reuses it -- "the same functions are installed in every setup" -- is not faithful: two types that share one
   equality function and have their own to-string functions get the first type's text *)
Definition fn_index (x : xarg) : option Z := match x with XPass (CFn _ i) => Some i | _ => None end.
Definition same_fn (a b : xarg) : bool := match fn_index a, fn_index b with Some i, Some j => (i =? j)%Z | _, _ => false end.
Definition reuse_installer : installer :=
  {| i_cmp := fun l e s => match find (fun n => same_fn (n_equal n) e) l with
                           | Some n => (l, n)
                           | None => i_cmp c_installer l e s
                           end;
     i_copy := fun l c => match find (fun n => same_fn n c) l with Some n => (l, n) | None => i_copy c_installer l c end |}.
Definition equiv_reuse_stmt : Prop := forall ops, trace_from wired select_ok reuse_installer ptrs0 adaptors0 0 ops = x_trace ops.
(* mock_c()->installComparator("P", eq0, str0); mock_c()->installComparator("S", eq0, str1) *)
Definition reuse_witness : list op :=
  [ OSelect None; OCall TblS "installComparator" [AB (Some [80%N]); AZ 0; AZ 0]; OCall TblS "installComparator" [AB (Some [83%N]); AZ 0; AZ 1] ].
Lemma equiv_reuse_refuted : ~ equiv_reuse_stmt.
Proof. intros H. specialize (H reuse_witness). vm_compute in H. discriminate H. Qed.
Lemma reuse_not_faithful : ~ faithful reuse_installer.
Proof.
  intros [H _]. specialize (H [{| n_equal := XPass (CFn TEqFn 0); n_to_string := XPass (CFn TStrFn 0) |}] (XPass (CFn TEqFn 0)) (XPass (CFn TStrFn 1))).
  vm_compute in H. discriminate H.
Qed.

(* ---------------------------------------------------------------- C19_value_roundtrip *)
Lemma find_dispatch_none ty : forallb (fun d => negb (d_type d =? ty)) value_dispatch = true ->
  find (fun d => d_type d =? ty) value_dispatch = None.
Proof.
  intros H. destruct (find (fun d => d_type d =? ty) value_dispatch) eqn:E; [|reflexivity].
  apply find_some in E. destruct E as [Hin Hk]. rewrite forallb_forall in H. apply H in Hin. rewrite Hk in Hin. discriminate.
Qed.

Lemma value_roundtrip : forall v, mvalid v = true ->
  exists c, value_to_c v = Some c /\ canon_of_c c = Some (canon_of_value v).
Proof.
  intros v Hv. destruct v as [b|t z|d|s|a|a|a|a|ty a].
  - destruct b; eexists; split; vm_compute; reflexivity.
  - destruct t; eexists; split; vm_compute; reflexivity.
  - eexists; split; vm_compute; reflexivity.
  - eexists; split; vm_compute; reflexivity.
  - eexists; split; vm_compute; reflexivity.
  - eexists; split; vm_compute; reflexivity.
  - eexists; split; vm_compute; reflexivity.
  - eexists; split; vm_compute; reflexivity.
  - simpl in Hv. unfold value_to_c. simpl mtype. rewrite (find_dispatch_none ty Hv). eexists; split; vm_compute; reflexivity.
Qed.

(* the tag a C caller receives is the tag of the value's type, for every built-in type (the enum of the header, by name) *)
Definition expected_tag (v : mvalue) : name :=
  match v with
  | MBool _ => "MOCKVALUETYPE_BOOL" | MInt TInt _ => "MOCKVALUETYPE_INTEGER" | MInt TUInt _ => "MOCKVALUETYPE_UNSIGNED_INTEGER"
  | MInt TLong _ => "MOCKVALUETYPE_LONG_INTEGER" | MInt TULong _ => "MOCKVALUETYPE_UNSIGNED_LONG_INTEGER"
  | MInt TLLong _ => "MOCKVALUETYPE_LONG_LONG_INTEGER" | MInt TULLong _ => "MOCKVALUETYPE_UNSIGNED_LONG_LONG_INTEGER"
  | MDouble _ => "MOCKVALUETYPE_DOUBLE" | MStr _ => "MOCKVALUETYPE_STRING" | MPtr _ => "MOCKVALUETYPE_POINTER"
  | MCPtr _ => "MOCKVALUETYPE_CONST_POINTER" | MFun _ => "MOCKVALUETYPE_FUNCTIONPOINTER" | MMem _ => "MOCKVALUETYPE_MEMORYBUFFER"
  | MObj _ _ => "MOCKVALUETYPE_OBJECT"
  end.
Lemma value_tag : forall v, mvalid v = true -> option_map (fun c => fst (fst c)) (value_to_c v) = Some (expected_tag v).
Proof.
  intros v Hv. destruct v as [b|t z|d|s|a|a|a|a|ty a].
  - destruct b; vm_compute; reflexivity.
  - destruct t; vm_compute; reflexivity.
  - vm_compute; reflexivity.
  - vm_compute; reflexivity.
  - vm_compute; reflexivity.
  - vm_compute; reflexivity.
  - vm_compute; reflexivity.
  - vm_compute; reflexivity.
  - simpl in Hv. unfold value_to_c. simpl mtype. rewrite (find_dispatch_none ty Hv). vm_compute. reflexivity.
Qed.

(* ---------------------------------------------------------------- what the caller sees *)
Lemma observe_same : forall w r, fits w r = true -> observe_c w r = observe_x r.
Proof.
  intros w r H. destruct r as [|b|t z|d|s|k a|v].
  7: { destruct w; try discriminate H. cbn [fits] in H. unfold observe_c, observe_x.
       destruct (value_roundtrip v H) as [c [E1 E2]]. rewrite E1. exact E2. }
  all: destruct w; try discriminate H; try reflexivity.
  all: try (destruct b; reflexivity).
  all: try (destruct k; try discriminate H; reflexivity).
Qed.

(* ---------------------------------------------------------------- the failure reporters: how the test is left *)
(* the source says what the model of the reporters assumes (regenerated: gen.Gen_C19.reporter_bodies, support_reporter_facts):
   the C reporter is the C++ reporter but for the terminator it leaves the test with; both terminators run UT_CRASH() iff the flag
   handed over by failTest is set; MockSupport sets activeReporter_ only in setActiveReporter (called by mock()), reads it in
   crashOnFailure, createActualCall and failTest (after clear()), and clear() mentions no reporter at all *)
Definition lookup_name (l : list (name * name)) (k : name) : name := match find (fun e => fst e =? k) l with Some e => snd e | None => "?" end.
Definition reporters_ok : bool :=
  let rb := lookup_name reporter_bodies in
  (rb "C.failTest" =? rb "X.failTest") && (rb "C.exitCurrentTest" =? rb "X.exitCurrentTest")
  && (rb "X.failTest" =? "if (!getTestToFail()->hasFailed()) getTestToFail()->failWith(failure, TERMINATOR(crashOnFailure_));")
  && (rb "X.exitCurrentTest" =? "if (crashOnFailure_) UT_CRASH(); EXIT.exitCurrentTest();")
  && (rb "C.terminator" =? "MockFailureReporterTestTerminatorForInCOnlyCode") && (rb "X.terminator" =? "MockFailureReporterTestTerminator")
  && (rb "C.exit" =? "UtestShell::getCurrentTestTerminatorWithoutExceptions()") && (rb "X.exit" =? "UtestShell::getCurrentTestTerminator()")
  && (rb "C.terminator.flag" =? "crashOnFailure_(crashOnFailure)") && (rb "X.terminator.flag" =? "crashOnFailure_(crashOnFailure)")
  && (rb "C.reporter" =? "class MockFailureReporterForInCOnlyCode : public MockFailureReporter") && (rb "C.methods" =? "failTest")
  && (rb "C.object" =? "static MockFailureReporterForInCOnlyCode failureReporterForC;") && (rb "X.crashOnFailure" =? "crashOnFailure_ = shouldCrash;")
  && (if list_eq_dec strpair_eq_dec support_reporter_facts
       [ ("mock", "MockSupport& mock_support = (mockName != """") ? *global_mock.getMockSupportScope(mockName) : global_mock; mock_support.setActiveReporter(failureReporterForThisCall); mock_support.setDefaultComparatorsAndCopiersRepository(); return mock_support;");
         ("mock.default", "NULLPTR");
         ("setActiveReporter", "activeReporter_ = (reporter) ? reporter : standardReporter_;");
         ("crashOnFailure", "activeReporter_->crashOnFailure(shouldCrash);");
         ("failTest", "clear(); activeReporter_->failTest(failure);");
         ("createActualCall.reporter", "activeReporter_");
         ("clear.reporters", "");
         ("clone.reporters", "setMockFailureStandardReporter(standardReporter_)");
         ("constructor.reporters", "activeReporter_(NULLPTR) standardReporter_(&defaultReporter_)") ]
      then true else false).
Lemma reporters_checked : reporters_ok = true.
Proof. vm_compute. reflexivity. Qed.

(* two layers mirror one another when they do the same up to the names of the two reporter objects *)
Definition mirror (Lc Lx : rlayer) : Prop :=
  (forall sc, l_given Lx sc = swap (l_given Lc sc)) /\ (forall r, l_clear Lx (swap r) = swap (l_clear Lc r))
  /\ (forall r, l_call Lx (swap r) = swap (l_call Lc r)).
Definition call_swap (c : callrec) : callrec := {| c_id := c_id c; c_scope := c_scope c; c_rep := swap (c_rep c) |}.
Definition act_swap (e : scope * reporter) : scope * reporter := (fst e, swap (snd e)).
Definition rs_swap (s : rstate) : rstate :=
  {| rs_std := rs_c s; rs_c := rs_std s; rs_active := map act_swap (rs_active s); rs_calls := map call_swap (rs_calls s) |}.
Lemma swap_swap r : swap (swap r) = r. Proof. destruct r; reflexivity. Qed.
Lemma flag_swap s r : flag (rs_swap s) (swap r) = flag s r. Proof. destruct r; reflexivity. Qed.
Lemma set_flag_swap s r b : set_flag (rs_swap s) (swap r) b = rs_swap (set_flag s r b). Proof. destruct r; reflexivity. Qed.
Lemma filter_map_comm {A} (f : A -> bool) (g : A -> A) (l : list A) : (forall x, f (g x) = f x) -> filter f (map g l) = map g (filter f l).
Proof. intros H. induction l as [|a l IH]; simpl; [reflexivity|]. rewrite H. destruct (f a); simpl; now rewrite IH. Qed.
Lemma find_map_comm {A} (f : A -> bool) (g : A -> A) (l : list A) : (forall x, f (g x) = f x) -> find f (map g l) = option_map g (find f l).
Proof. intros H. induction l as [|a l IH]; simpl; [reflexivity|]. rewrite H. destruct (f a); simpl; [reflexivity | exact IH]. Qed.
Lemma rs_get_swap s sc : rs_get (rs_swap s) sc = option_map swap (rs_get s sc).
Proof.
  unfold rs_get. simpl. rewrite (find_map_comm _ act_swap) by reflexivity.
  assert (forall o : option (scope * reporter), option_map snd (option_map act_swap o) = option_map swap (option_map snd o)) as E
    by (intros [o|]; reflexivity).
  rewrite E. reflexivity.
Qed.
Lemma rs_set_swap s sc r : rs_set (rs_swap s) sc (swap r) = rs_swap (rs_set s sc r).
Proof. unfold rs_set, rs_swap. simpl. rewrite (filter_map_comm _ act_swap) by reflexivity. reflexivity. Qed.
Lemma rs_clear_swap Lc Lx s sc : mirror Lc Lx -> rs_clear Lx (rs_swap s) sc = rs_swap (rs_clear Lc s sc).
Proof.
  intros [_ [Hc _]]. unfold rs_clear, rs_swap. simpl. f_equal.
  - rewrite (filter_map_comm _ act_swap) by reflexivity. rewrite !map_map. apply map_ext. intros [a r]. unfold act_swap. simpl.
    destruct (optbytes_eqb a sc); simpl; [now rewrite Hc | reflexivity].
  - now rewrite (filter_map_comm _ call_swap) by reflexivity.
Qed.
Lemma rstep_swap Lc Lx s k x : mirror Lc Lx -> rstep Lx (rs_swap s) k x = rs_swap (rstep Lc s k x).
Proof.
  intros Hm. pose proof Hm as [Hg [_ Hk]]. destruct x as [sc0|h method args target|h method args| | | | | | |]; try reflexivity; simpl.
  - rewrite Hg. apply rs_set_swap.
  - destruct h as [sc| | |]; try reflexivity. destruct target; try reflexivity. destruct (method =? "actualCall"); [|reflexivity].
    rewrite rs_get_swap. destruct (rs_get s sc) as [r|]; [|reflexivity]. simpl. unfold rs_swap. simpl. f_equal.
    rewrite (filter_map_comm _ call_swap) by reflexivity. f_equal. unfold call_swap. simpl. now rewrite Hk.
  - destruct h as [sc| | |]; try reflexivity. destruct (method =? "crashOnFailure").
    + rewrite rs_get_swap. destruct args as [|a0 ar]; [reflexivity|]. destruct a0; try reflexivity. destruct ar; [|reflexivity].
      destruct (rs_get s sc) as [r|]; [|reflexivity]. simpl. apply set_flag_swap.
    + destruct (method =? "clear"); [now apply rs_clear_swap | reflexivity].
Qed.
Lemma armed_swap s r : armed (rs_swap s) (option_map swap r) = armed s r.
Proof. destruct r as [r|]; [|reflexivity]. simpl. now rewrite flag_swap. Qed.
Lemma crash_on_swap Lc Lx s s' x b : mirror Lc Lx -> crash_on Lx (rs_swap s) (rs_swap s') x b = crash_on Lc s s' x b.
Proof.
  intros Hm. destruct b as [j| |]; simpl; [| |reflexivity].
  - rewrite <- map_app, (find_map_comm _ call_swap) by reflexivity.
    rewrite <- (armed_swap s'). f_equal. destruct (find _ (rs_calls s' ++ rs_calls s)); reflexivity.
  - destruct (receiver x) as [sc|]; [|reflexivity]. rewrite (rs_clear_swap Lc Lx) by exact Hm. rewrite rs_get_swap. apply armed_swap.
Qed.
Lemma rs_failed_swap Lc Lx s' x b : mirror Lc Lx -> rs_failed Lx (rs_swap s') x b = rs_swap (rs_failed Lc s' x b).
Proof. intros Hm. unfold rs_failed. destruct b; try reflexivity. destruct (receiver x); [now apply rs_clear_swap | reflexivity]. Qed.
Lemma rstate0_swap : rs_swap rstate0 = rstate0. Proof. reflexivity. Qed.

Section AnyMachine.
  Variable M : machine.
  (* C++ type checking of the forwarders: the result of an operation has the type its wrapper is applied to *)
  Hypothesis typed : forall st k x, fits (wrap_of x) (r_val (snd (mexec M st k x))) = true.
  Variables Lc Lx : rlayer.
  Hypothesis layers : mirror Lc Lx.

  Lemma exec_same : forall tr st rs k vals done skip,
    exec M Lc observe_c st rs k tr vals done skip = exec M Lx (fun _ => observe_x) st (rs_swap rs) k tr vals done skip.
  Proof.
    induction tr as [|x r IH]; intros st rs k vals done skip; [reflexivity|].
    assert (forall y, y = x ->
              (if skip then exec M Lc observe_c st rs (S k) r vals done true
               else let (st', res) := mexec M st k y in
                    let rs' := rstep Lc rs k y in
                    match r_fail res with
                    | Some text => exec M Lc observe_c st' (rs_failed Lc rs' y (r_by res)) (S k) r vals
                                     ({| t_fail := Some (N.of_nat k, text); t_crash := crash_on Lc rs rs' y (r_by res) |} :: done) true
                    | None => exec M Lc observe_c st' rs' (S k) r
                                (match observe_c (wrap_of y) (r_val res) with Some c => {| v_op := N.of_nat k; v_canon := c |} :: vals | None => vals end) done false
                    end)
              = (if skip then exec M Lx (fun _ => observe_x) st (rs_swap rs) (S k) r vals done true
                 else let (st', res) := mexec M st k y in
                      let rs' := rstep Lx (rs_swap rs) k y in
                      match r_fail res with
                      | Some text => exec M Lx (fun _ => observe_x) st' (rs_failed Lx rs' y (r_by res)) (S k) r vals
                                       ({| t_fail := Some (N.of_nat k, text); t_crash := crash_on Lx (rs_swap rs) rs' y (r_by res) |} :: done) true
                      | None => exec M Lx (fun _ => observe_x) st' rs' (S k) r
                                  (match observe_x (r_val res) with Some c => {| v_op := N.of_nat k; v_canon := c |} :: vals | None => vals end) done false
                      end)) as G.
    { intros y _. destruct skip; [apply IH|]. pose proof (typed st k y) as T. destruct (mexec M st k y) as [st' res]. simpl in T. cbv zeta.
      rewrite (rstep_swap Lc Lx) by exact layers. destruct (r_fail res).
      - rewrite (crash_on_swap Lc Lx), (rs_failed_swap Lc Lx) by exact layers. apply IH.
      - rewrite (observe_same _ _ T). apply IH. }
    destruct x; try exact (G _ eq_refl). simpl. apply IH.
  Qed.

  Lemma halves_identical_layers : forall ops, o_c (run_layers Lc Lx M ops) = o_x (run_layers Lc Lx M ops).
  Proof. intros ops. unfold run_layers. simpl. rewrite equiv_trace. exact (exec_same _ _ rstate0 _ _ _ _). Qed.
End AnyMachine.

(* the layers of the real code: through C every support is selected with failureReporterForC, through C++ with the standard reporter *)
Lemma c_given : forall sc, l_given c_layer sc = RepC.
Proof. intros [sc|]; vm_compute; reflexivity. Qed.
Lemma layers_mirror : mirror c_layer x_layer.
Proof. split; [|split]; [intros sc; now rewrite c_given | reflexivity | reflexivity]. Qed.
Lemma halves_identical M (T : forall st k x, fits (wrap_of x) (r_val (snd (mexec M st k x))) = true) :
  forall ops, o_c (run_with M ops) = o_x (run_with M ops).
Proof. exact (halves_identical_layers M T c_layer x_layer layers_mirror). Qed.

Lemma optbytes_eqb_refl a : optbytes_eqb a a = true.
Proof. destruct a; simpl; [apply bytes_eqb_refl | reflexivity]. Qed.
Lemma canon_eqb_refl c : canon_eqb c c = true.
Proof.
  destruct c; simpl; try apply Bool.eqb_reflx; try apply Z.eqb_refl; try apply optbytes_eqb_refl.
  - rewrite Z.eqb_refl, andb_true_r. apply ity_eqb_eq. reflexivity.
  - rewrite Z.eqb_refl, andb_true_r. destruct k; reflexivity.
Qed.
Lemma list_eqb_refl {A} (e : A -> A -> bool) : (forall x, e x x = true) -> forall l, list_eqb e l l = true.
Proof. intros H l. induction l; simpl; [reflexivity|]. now rewrite H, IHl. Qed.
Lemma tres_eqb_refl t : tres_eqb t t = true.
Proof. unfold tres_eqb. destruct (t_fail t) as [[i s]|]; simpl; now rewrite ?N.eqb_refl, ?bytes_eqb_refl. Qed.
Lemma half_eqb_refl h : half_eqb h h = true.
Proof.
  unfold half_eqb. rewrite !andb_true_iff. repeat split.
  - apply list_eqb_refl. exact tres_eqb_refl.
  - apply list_eqb_refl. intros x. now rewrite N.eqb_refl, canon_eqb_refl.
  - apply list_eqb_refl. intros x. now rewrite N.eqb_refl, bytes_eqb_refl.
Qed.

Lemma equiv_obs : forall (M : machine), (forall st k x, fits (wrap_of x) (r_val (snd (mexec M st k x))) = true) ->
  forall ops, spec ops (run_with M ops) = true.
Proof. intros M T ops. unfold spec. rewrite (halves_identical M T ops). apply half_eqb_refl. Qed.

Lemma equiv_obs_layers : forall Lc Lx, mirror Lc Lx -> forall (M : machine), (forall st k x, fits (wrap_of x) (r_val (snd (mexec M st k x))) = true) ->
  forall ops, spec ops (run_layers Lc Lx M ops) = true.
Proof. intros Lc Lx H M T ops. unfold spec. rewrite (halves_identical_layers M T Lc Lx H ops). apply half_eqb_refl. Qed.

Lemma machine0_typed : forall st k x, fits (wrap_of x) (r_val (snd (mexec machine0 st k x))) = true.
Proof. intros st k x. simpl. destruct (wrap_of x); reflexivity. Qed.

Lemma run_meets_spec : forall s, valid s = true -> spec s (run s) = true.
Proof. intros s _. exact (equiv_obs machine0 machine0_typed s). Qed.

(* ---------------------------------------------------------------- the crash hook, interface by interface *)
Lemma crash_equiv : forall (M : machine), (forall st k x, fits (wrap_of x) (r_val (snd (mexec M st k x))) = true) -> forall ops,
  h_tests (o_c (run_with M ops)) = h_tests (o_x (run_with M ops)).
Proof. intros M T ops. now rewrite (halves_identical M T ops). Qed.

(* a layer keeps reporter G: every support is selected with G, clear() and createActualCall pass on what they find *)
Definition keeps (G : reporter) (L : rlayer) : Prop :=
  (forall sc, l_given L sc = G) /\ (forall r, l_clear L r = r) /\ (forall r, l_call L r = r).
Lemma c_keeps : keeps RepC c_layer.
Proof. split; [exact c_given | split; reflexivity]. Qed.
Lemma x_keeps : keeps RepStd x_layer.
Proof. split; [|split]; reflexivity. Qed.
(* every mock support that exists and every actual call that exists holds reporter G *)
Definition uniform (G : reporter) (s : rstate) : Prop :=
  (forall e, In e (rs_active s) -> snd e = G) /\ (forall c, In c (rs_calls s) -> c_rep c = G).
Lemma uniform0 G : uniform G rstate0.
Proof. split; intros ? []. Qed.
Lemma rs_get_in s sc r : rs_get s sc = Some r -> exists e, In e (rs_active s) /\ snd e = r.
Proof.
  unfold rs_get. intros E. match type of E with context [find ?f ?l] => destruct (find f l) as [e|] eqn:F end; [|discriminate E].
  apply find_some in F. injection E as <-. exists e. tauto.
Qed.
Lemma rs_clear_uniform G L s sc : keeps G L -> uniform G s -> uniform G (rs_clear L s sc).
Proof.
  intros [_ [Hc _]] [Ha Hk]. split; simpl.
  - intros e He. apply in_map_iff in He. destruct He as [e0 [<- Hin]]. apply filter_In in Hin. destruct Hin as [Hin _].
    destruct (optbytes_eqb (fst e0) sc); simpl; [rewrite Hc|]; now apply Ha.
  - intros c Hin. apply filter_In in Hin. now apply Hk.
Qed.
Lemma rstep_uniform G L s k x : keeps G L -> uniform G s -> uniform G (rstep L s k x).
Proof.
  intros HL Hu. pose proof HL as [Hg [_ Hcall]]. pose proof Hu as [Ha Hk].
  destruct x as [sc0|h method args target|h method args| | | | | | |]; try exact Hu; simpl.
  - split; simpl; [|exact Hk]. intros e [<-|Hin]; [apply Hg|]. apply filter_In in Hin. now apply Ha.
  - destruct h as [sc| | |]; try exact Hu. destruct target; try exact Hu. destruct (method =? "actualCall"); [|exact Hu].
    destruct (rs_get s sc) as [r|] eqn:E; [|exact Hu]. split; simpl; [exact Ha|].
    intros c [<-|Hin]; [|apply filter_In in Hin; now apply Hk]. simpl. rewrite Hcall.
    destruct (rs_get_in _ _ _ E) as [e [Hin <-]]. now apply Ha.
  - destruct h as [sc| | |]; try exact Hu. destruct (method =? "crashOnFailure").
    + destruct args as [|a0 ar]; [exact Hu|]. destruct a0; try exact Hu. destruct ar; [|exact Hu].
      destruct (rs_get s sc) as [r|]; [|exact Hu]. destruct r; exact Hu.
    + destruct (method =? "clear"); [now apply rs_clear_uniform | exact Hu].
Qed.
Lemma rs_failed_uniform G L s x b : keeps G L -> uniform G s -> uniform G (rs_failed L s x b).
Proof. intros HL Hu. unfold rs_failed. destruct b; try exact Hu. destruct (receiver x); [now apply rs_clear_uniform | exact Hu]. Qed.
Fixpoint rs_run (L : rlayer) (s : rstate) (k : nat) (tr : list xop) : rstate :=
  match tr with [] => s | x :: r => rs_run L (rstep L s k x) (S k) r end.
Lemma rs_run_uniform G L : keeps G L -> forall tr s k, uniform G s -> uniform G (rs_run L s k tr).
Proof. intros HL. induction tr as [|x r IH]; intros s k Hu; simpl; [exact Hu|]. apply IH. now apply rstep_uniform. Qed.
(* C19_reporter_uniform: whatever a scenario does (select, crashOnFailure, calls, clear in any order, any scopes), through C every
   support and every call reports through failureReporterForC, through C++ through the standard reporter *)
Lemma reporter_uniform : forall ops k,
  uniform RepC (rs_run c_layer rstate0 k (c_trace ops)) /\ uniform RepStd (rs_run x_layer rstate0 k (x_trace ops)).
Proof. intros ops k. split; [apply (rs_run_uniform RepC _ c_keeps) | apply (rs_run_uniform RepStd _ x_keeps)]; apply uniform0. Qed.

Lemma optbytes_eqb_global a b : optbytes_eqb a b = true -> is_global a = is_global b.
Proof. destruct a, b; simpl; intros H; try reflexivity; discriminate H. Qed.
Lemma rs_get_clear L s sc : rs_get (rs_clear L s sc) sc = option_map (l_clear L) (rs_get s sc).
Proof.
  unfold rs_get, rs_clear. simpl. induction (rs_active s) as [|e l IH]; simpl; [reflexivity|].
  destruct (optbytes_eqb (fst e) sc) eqn:E.
  - rewrite (optbytes_eqb_global _ _ E). destruct (is_global sc); simpl; rewrite E; simpl; rewrite E; reflexivity.
  - destruct (negb (is_global sc) || is_global (fst e)); simpl; [rewrite E; simpl; rewrite E|]; exact IH.
Qed.
Lemma flag_clear L s sc r : flag (rs_clear L s sc) r = flag s r.
Proof. destruct r; reflexivity. Qed.
(* C19_crash_iff_flag: under a layer that keeps G, when an operation fails the crash hook runs at most once, only if G's flag is set,
   and then for every failure raised by a mock support that exists or by an actual call that exists (or that this operation deletes) *)
Lemma crash_iff_flag : forall G L, keeps G L -> forall s s' x, uniform G s -> uniform G s' ->
  (forall b, crash_on L s s' x b = 0%N \/ (crash_on L s s' x b = 1%N /\ flag s' G = true))
  /\ (flag s' G = true -> forall sc, receiver x = Some sc -> rs_get s' sc <> None -> crash_on L s s' x BySupport = 1%N)
  /\ (flag s' G = true -> forall c, In c (rs_calls s' ++ rs_calls s) -> crash_on L s s' x (ByCall (c_id c)) = 1%N).
Proof.
  intros G L HL s s' x Hs Hs'. pose proof HL as [_ [Hclr _]].
  assert (forall c, In c (rs_calls s' ++ rs_calls s) -> c_rep c = G) as Hcalls.
  { intros c Hin. apply in_app_or in Hin. destruct Hin; [now apply Hs' | now apply Hs]. }
  assert (forall sc r, rs_get s' sc = Some r -> r = G) as Hact.
  { intros sc r E. destruct (rs_get_in _ _ _ E) as [e [Hin <-]]. now apply Hs'. }
  split; [|split].
  - intros [j| |]; simpl; [| |now left].
    + destruct (find _ (rs_calls s' ++ rs_calls s)) as [c|] eqn:F; simpl; [|now left]. apply find_some in F. rewrite (Hcalls c) by tauto.
      destruct (flag s' G); [right; split; reflexivity | now left].
    + destruct (receiver x) as [sc|]; [|now left]. rewrite rs_get_clear. destruct (rs_get s' sc) as [r|] eqn:E; simpl; [|now left].
      rewrite Hclr, flag_clear, (Hact sc r E). destruct (flag s' G); [right; split; reflexivity | now left].
  - intros Hf sc Hr Hex. simpl. rewrite Hr, rs_get_clear. destruct (rs_get s' sc) as [r|] eqn:E; [|contradiction]. simpl.
    now rewrite Hclr, flag_clear, (Hact sc r E), Hf.
  - intros Hf c Hin. simpl. destruct (find _ (rs_calls s' ++ rs_calls s)) as [c'|] eqn:F; simpl.
    + apply find_some in F. rewrite (Hcalls c') by tauto. now rewrite Hf.
    + exfalso. apply (find_none _ _ F) in Hin. now rewrite Nat.eqb_refl in Hin.
Qed.

(* ---------------------------------------------------------------- changed code is another layer: three ways to lose the C reporter *)
(* a machine whose ops listed in `l` fail (empty text), each raised by whom the list says; nothing else happens *)
Definition machine_fails (l : list (nat * raiser)) : machine :=
  {| mst := unit; minit := tt;
     mexec := fun st k _ => (st, match find (fun e => Nat.eqb (fst e) k) l with
                                 | Some e => {| r_fail := Some []; r_by := snd e; r_val := RNone |}
                                 | None => {| r_fail := None; r_by := ByAssert; r_val := RNone |}
                                 end);
     mouts := fun _ => [] |}.
Definition machine_fail (k0 : nat) (b : raiser) : machine := machine_fails [(k0, b)].
Lemma machine_fails_typed l : forall st k x, fits (wrap_of x) (r_val (snd (mexec (machine_fails l) st k x))) = true.
Proof. intros st k x. simpl. destruct (find _ l); simpl; destruct (wrap_of x); reflexivity. Qed.
Lemma machine_fail_typed k0 b : forall st k x, fits (wrap_of x) (r_val (snd (mexec (machine_fail k0 b) st k x))) = true.
Proof. exact (machine_fails_typed _). Qed.
Definition layer_equiv_stmt (Lc : rlayer) : Prop :=
  forall M, (forall st k x, fits (wrap_of x) (r_val (snd (mexec M st k x))) = true) -> forall ops, spec ops (run_layers Lc x_layer M ops) = true.
(* MockSupport::clear() puts the standard reporter back (activeReporter_ = standardReporter_), and failTest clears before it reports *)
Definition clear_resets_layer : rlayer := {| l_given := l_given c_layer; l_clear := fun _ => RepStd; l_call := fun r => r |}.
(* mock_scope_c passes no reporter: named scopes report through the standard reporter *)
Definition scope_null_layer : rlayer := {| l_given := fun sc => if is_global sc then RepC else RepStd; l_clear := fun r => r; l_call := fun r => r |}.
(* createActualCall hands the standard reporter to the new call *)
Definition call_standard_layer : rlayer := {| l_given := l_given c_layer; l_clear := fun r => r; l_call := fun _ => RepStd |}.
Definition crash_on_check : list op :=      (* crashOnFailure(1); expectOneCall("f"); checkExpectations() *)
  [ OSelect None; OCall TblS "crashOnFailure" [AZ 1]; OCall TblS "expectOneCall" [AB (Some [102%N])]; OCall TblS "checkExpectations" [] ].
Definition crash_after_clear : list op :=   (* crashOnFailure(1); clear(); actualCall("g") -- the call is created after the clear, no new selection *)
  [ OSelect None; OCall TblS "crashOnFailure" [AZ 1]; OCall TblS "clear" []; OCall TblS "actualCall" [AB (Some [103%N])] ].
Definition crash_in_scope : list op :=      (* mock_c()->crashOnFailure(1); mock_scope_c("s")->actualCall("g") *)
  [ OSelect None; OCall TblS "crashOnFailure" [AZ 1]; OSelect (Some [115%N]); OCall TblS "actualCall" [AB (Some [103%N])] ].
Definition crash_on_call : list op :=       (* crashOnFailure(1); actualCall("g") *)
  [ OSelect None; OCall TblS "crashOnFailure" [AZ 1]; OCall TblS "actualCall" [AB (Some [103%N])] ].
Lemma clear_resets_refuted : ~ layer_equiv_stmt clear_resets_layer.
Proof. intros H. specialize (H (machine_fail 3 BySupport) (machine_fail_typed 3 BySupport) crash_on_check). vm_compute in H. discriminate H. Qed.
Lemma clear_resets_refuted_2 : ~ (forall ops, spec ops (run_layers clear_resets_layer x_layer (machine_fail 3 (ByCall 3)) ops) = true).
Proof. intros H. specialize (H crash_after_clear). vm_compute in H. discriminate H. Qed.
Lemma scope_null_refuted : ~ layer_equiv_stmt scope_null_layer.
Proof. intros H. specialize (H (machine_fail 3 (ByCall 3)) (machine_fail_typed 3 (ByCall 3)) crash_in_scope). vm_compute in H. discriminate H. Qed.
Lemma call_standard_refuted : ~ layer_equiv_stmt call_standard_layer.
Proof. intros H. specialize (H (machine_fail 2 (ByCall 2)) (machine_fail_typed 2 (ByCall 2)) crash_on_call). vm_compute in H. discriminate H. Qed.
Lemma faithful_layer_equiv : layer_equiv_stmt c_layer.
Proof. intros M T ops. exact (equiv_obs_layers c_layer x_layer layers_mirror M T ops). Qed.

(* ---------------------------------------------------------------- the code before the repair (fix: b5ec8af)
   Both tables shared one set of reader functions: the support table's readers went through the static `actualCall`
   (whatever scope made the last call, possibly none or a deleted one) and the actual-call table's hasReturnValue (hence every
   ...OrDefault) through `currentMockSupport`. *)
Definition is_reader (f : name) : bool :=
  existsb (name_eqb f) (map fst (den_readers RAct)) && negb (f =? "hasReturnValue").
Definition wired_old (t : tbl) (f : name) : option (csig * sem) :=
  match t with
  | TblS => if is_reader f then wired TblA f else wired TblS f
  | TblA => if f =? "hasReturnValue" then wired TblS f else wired TblA f
  | TblE => wired TblE f
  end.
Definition equiv_old_stmt : Prop := forall ops, trace_from wired_old true c_installer ptrs0 adaptors0 0 ops = x_trace ops.
(* mock_c()->actualCall("f"); mock_scope_c("s")->...; call->hasReturnValue()  and  mock_c()->intReturnValue() after a call in a scope *)
Definition old_witness : list op :=
  [ OSelect None; OCall TblS "actualCall" [AB (Some [102%N])]; OSelect (Some [115%N]); OCall TblS "actualCall" [AB (Some [103%N])];
    OSelect None; OCall TblS "intReturnValue" [] ].
Lemma equiv_old_refuted : ~ equiv_old_stmt.
Proof. intros H. specialize (H old_witness). vm_compute in H. discriminate H. Qed.

(* ---------------------------------------------------------------- examples: the hypotheses are satisfiable, the statements not vacuous *)
Example ex_wired_1 : wired TblE "andReturnUnsignedIntValue" = Some ((TExpTbl, [TI TUInt]), SChain RExp "andReturnValue" [AParam 0] RExp).
Proof. vm_compute. reflexivity. Qed.
Example ex_wired_2 : wired TblA "returnLongIntValueOrDefault" = Some ((TI TLong, [TI TLong]), SOrDefault RAct RAct "returnLongIntValue" WNone 0).
Proof. vm_compute. reflexivity. Qed.
Example ex_wired_3 : wired TblS "returnBoolValueOrDefault" = Some ((TI TInt, [TI TInt]), SOrDefault RSup RSup "boolReturnValue" WBool01 0).
Proof. vm_compute. reflexivity. Qed.
Example ex_wired_4 : wired TblS "noSuchField" = None /\ nth_error (fields_of TblE) 20 = Some ("andReturnUnsignedIntValue", (TExpTbl, [TI TUInt]))
                     /\ nth_error (init_of TblE) 20 = Some "andReturnUnsignedIntValue_c".
Proof. vm_compute. repeat split. Qed.
Example ex_roundtrip : mvalid (MInt TULong 18446744073709551615) = true /\ mvalid (MObj "MyType" 4096) = true /\ mvalid (MObj "int" 4096) = false.
Proof. vm_compute. repeat split. Qed.
Definition ex_scenario : list op :=
  [ OSelect None; OCall TblS "expectOneCall" [AB (Some [102%N])]; OCall TblE "withBoolParameters" [AB (Some [112%N]); AZ 2];
    OCall TblE "andReturnUnsignedLongIntValue" [AZ 18446744073709551615];
    OSelect (Some [115%N]); OCall TblS "actualCall" [AB (Some [102%N])]; OCall TblA "withMemoryBufferParameter" [AB (Some [112%N]); AB (Some [1%N; 2%N])];
    OCall TblA "returnUnsignedLongIntValueOrDefault" [AZ 7]; OCall TblS "returnValue" [] ].
Example ex_valid : valid ex_scenario = true /\ existsb (fun x => match x with XStuck => true | _ => false end) (c_trace ex_scenario) = false
                   /\ nth_error (c_trace ex_scenario) 2 = Some (XChain (HExp 1) "withParameter" [XPass (CBytes TCharP (Some [112%N])); XBool true] RExp)
                   /\ nth_error (c_trace ex_scenario) 7 = Some (XOrDefault (HAct 6) (HAct 6) "returnUnsignedLongIntValue" WNone (XPass (CNum (TI TULong) 7)))
                   /\ nth_error (c_trace ex_scenario) 8 = Some (XRet WValueC (HSup (Some [115%N])) "returnValue" []).
Proof. vm_compute. repeat split. Qed.
Example ex_invalid : valid [OCall TblE "withIntParameters" [AB (Some [112%N]); AZ 2147483648]] = false.
Proof. vm_compute. reflexivity. Qed.
(* several custom types with shared functions: P = (eq0, str0), S = (eq0, str1), copier 1 for both; the adaptor lists grow, the
   objects installed carry the functions of their own call; a function index outside the pool is not a valid scenario *)
Definition ex_custom : list op :=
  [ OSelect None; OCall TblS "installComparator" [AB (Some [80%N]); AZ 0; AZ 0]; OCall TblS "installComparator" [AB (Some [83%N]); AZ 0; AZ 1];
    OCall TblS "installCopier" [AB (Some [80%N]); AZ 1]; OCall TblS "installCopier" [AB (Some [83%N]); AZ 1];
    OCall TblS "expectOneCall" [AB (Some [102%N])]; OCall TblE "withParameterOfType" [AB (Some [83%N]); AB (Some [112%N]); AB (Some [1%N; 2%N; 3%N; 4%N; 5%N; 6%N; 7%N; 8%N])];
    OCall TblS "actualCall" [AB (Some [102%N])]; OCall TblA "withParameterOfType" [AB (Some [83%N]); AB (Some [112%N]); AB (Some [1%N; 2%N; 3%N; 5%N; 5%N; 6%N; 7%N; 8%N])] ].
Example ex_custom_trace : valid ex_custom = true
  /\ nth_error (c_trace ex_custom) 2 = Some (XInstallCmp (HSup None) (XPass (CBytes TCharP (Some [83%N]))) (XPass (CFn TEqFn 0)) (XPass (CFn TStrFn 1)))
  /\ nth_error (c_trace ex_custom) 4 = Some (XInstallCopy (HSup None) (XPass (CBytes TCharP (Some [83%N]))) (XPass (CFn TCopyFn 1)))
  /\ nth_error (trace_from wired select_ok reuse_installer ptrs0 adaptors0 0 ex_custom) 2
     = Some (XInstallCmp (HSup None) (XPass (CBytes TCharP (Some [83%N]))) (XPass (CFn TEqFn 0)) (XPass (CFn TStrFn 0))).
Proof. vm_compute. repeat split. Qed.
Example ex_fresh_hyp : bind "installComparator" [TCharP; TEqFn; TStrFn] [AB (Some [83%N]); AZ 1; AZ 2] 0%N
                       = Some [CBytes TCharP (Some [83%N]); CFn TEqFn 1; CFn TStrFn 2]
                       /\ bind "installCopier" [TCharP; TCopyFn] [AB (Some [83%N]); AZ 1] 0%N = Some [CBytes TCharP (Some [83%N]); CFn TCopyFn 1].
Proof. vm_compute. split; reflexivity. Qed.
Example ex_invalid_fn : valid [OCall TblS "installComparator" [AB (Some [80%N]); AZ 2; AZ 0]] = false
                        /\ valid [OCall TblS "installComparator" [AB (Some [80%N]); AZ 1; AZ 3]] = false
                        /\ valid [OCall TblS "installCopier" [AB (Some [80%N])]] = false.
Proof. vm_compute. repeat split. Qed.
(* a machine that returns values: the observation of a typed machine is non-empty and identical on both sides *)
Definition machine1 : machine :=
  {| mst := unit; minit := tt;
     mexec := fun st _ x => (st, {| r_fail := None; r_by := ByAssert;
                                    r_val := match wrap_of x with WBool01 => RBool true | WFunCast => RPtr PFunc 12288 | WValueC => RValue (MInt TLLong (-5))
                                                                | WNone => match x with XRet _ _ _ _ | XOrDefault _ _ _ _ _ => RInt TULong 18446744073709551615 | _ => RNone end end |});
     mouts := fun _ => [] |}.
Lemma machine1_typed : forall st k x, fits (wrap_of x) (r_val (snd (mexec machine1 st k x))) = true.
Proof. intros st k x. simpl. destruct (wrap_of x) eqn:E; try reflexivity. destruct x; reflexivity. Qed.
Example ex_machine1 : h_tests (o_c (run_with machine1 ex_scenario)) = [t_pass] /\ h_vals (o_c (run_with machine1 ex_scenario)) =
  [ {| v_op := 7; v_canon := CI TULong 18446744073709551615 |}; {| v_op := 8; v_canon := CI TLLong (-5) |} ].
Proof. vm_compute. split; reflexivity. Qed.

(* the crash hook: non-vacuous on both sides, lost by the changed layers exactly where the theorems say *)
Definition crashes (h : half) : list N := map t_crash (h_tests h).
Example ex_crash_check : h_tests (o_c (run_with (machine_fail 3 BySupport) crash_on_check)) = [ {| t_fail := Some (3%N, []); t_crash := 1 |} ]
                         /\ h_tests (o_x (run_with (machine_fail 3 BySupport) crash_on_check)) = [ {| t_fail := Some (3%N, []); t_crash := 1 |} ]
                         /\ crashes (o_c (run_layers clear_resets_layer x_layer (machine_fail 3 BySupport) crash_on_check)) = [0%N].
Proof. vm_compute. repeat split. Qed.
Example ex_crash_other : crashes (o_c (run_with (machine_fail 3 (ByCall 3)) crash_in_scope)) = [1%N]
                         /\ crashes (o_c (run_layers scope_null_layer x_layer (machine_fail 3 (ByCall 3)) crash_in_scope)) = [0%N]
                         /\ crashes (o_c (run_with (machine_fail 2 (ByCall 2)) crash_on_call)) = [1%N]
                         /\ crashes (o_c (run_layers call_standard_layer x_layer (machine_fail 2 (ByCall 2)) crash_on_call)) = [0%N]
                         /\ crashes (o_c (run_with (machine_fail 3 ByAssert) crash_on_check)) = [0%N]
                         /\ crashes (o_c (run_with (machine_fail 3 BySupport) (OSelect None :: OCall TblS "crashOnFailure" [AZ 0] :: tl (tl crash_on_check)))) = [0%N].
Proof. vm_compute. repeat split. Qed.
(* several tests in a row: the flag and the reporters survive a failing test (whose failTest cleared the support); the second test
   goes on with the table / reference the user holds, the third turns the flag off; the op after a failure is not executed *)
Definition ex_three_tests : list op :=
  [ OSelect None; OCall TblS "crashOnFailure" [AZ 1]; OCall TblS "expectOneCall" [AB (Some [102%N])]; OCall TblS "checkExpectations" [];
    OCall TblS "actualCall" [AB (Some [103%N])];
    ONewTest; OCall TblS "actualCall" [AB (Some [103%N])];
    ONewTest; OCall TblS "crashOnFailure" [AZ 0]; OCall TblS "actualCall" [AB (Some [103%N])];
    ONewTest; OCall TblS "expectedCallsLeft" [] ].
Definition ex_three_machine : machine := machine_fails [(3, BySupport); (4, ByCall 4); (6, ByCall 6); (9, ByCall 9)]%nat.
Example ex_tests : valid ex_three_tests = true
  /\ h_tests (o_c (run_with ex_three_machine ex_three_tests))
     = [ {| t_fail := Some (3%N, []); t_crash := 1 |}; {| t_fail := Some (6%N, []); t_crash := 1 |}; {| t_fail := Some (9%N, []); t_crash := 0 |}; t_pass ]
  /\ h_tests (o_x (run_with ex_three_machine ex_three_tests)) = h_tests (o_c (run_with ex_three_machine ex_three_tests))
  /\ crashes (o_c (run_layers clear_resets_layer x_layer ex_three_machine ex_three_tests)) = [0; 0; 0; 0]%N.
Proof. vm_compute. repeat split. Qed.
(* crashOnFailure is one flag per interface: set through a scope, it holds for a failure the global support raises after a clear *)
Definition ex_crash_scn : list op :=
  [ OSelect (Some [115%N]); OCall TblS "crashOnFailure" [AZ 4294967295]; OSelect None; OCall TblS "clear" [];
    OCall TblS "expectOneCall" [AB (Some [102%N])]; OCall TblS "checkExpectations" [] ].
Example ex_crash_scope_clear : valid ex_crash_scn = true
  /\ crashes (o_c (run_with (machine_fail 5 BySupport) ex_crash_scn)) = [1%N] /\ crashes (o_x (run_with (machine_fail 5 BySupport) ex_crash_scn)) = [1%N]
  /\ rs_run c_layer rstate0 0 (c_trace ex_crash_scn) = {| rs_std := false; rs_c := true; rs_active := [(None, RepC)]; rs_calls := [] |}
  /\ rs_run x_layer rstate0 0 (x_trace ex_crash_scn) = {| rs_std := true; rs_c := false; rs_active := [(None, RepStd)]; rs_calls := [] |}.
Proof. vm_compute. repeat split. Qed.
Example ex_mirror_hyp : mirror c_layer x_layer /\ ~ mirror clear_resets_layer x_layer.
Proof. split; [exact layers_mirror|]. intros [_ [H _]]. specialize (H RepC). vm_compute in H. discriminate H. Qed.
Example ex_keeps_hyp : keeps RepC c_layer /\ uniform RepC {| rs_std := false; rs_c := true; rs_active := [(None, RepC)]; rs_calls := [] |}.
Proof. split; [exact c_keeps|]. split; simpl; [intros e [<-|[]]; reflexivity | intros c []]. Qed.
