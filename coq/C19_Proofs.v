(* C19 -- proofs about the wiring model (coq/C19_Model.v) over the tables regenerated from the source (coq/gen/Gen_C19.v). *)
From Coq Require Import ZArith NArith Bool List Lia.
From CppUVerif Require Import lib.CInt lib.Str C09_Model C19_Table gen.Gen_C19 C19_Model.
Import ListNotations.
Local Open Scope name_scope.

Definition name_eq_dec (a b : name) : {a = b} + {a <> b}. Proof. decide equality. apply (list_eq_dec N.eq_dec). Defined.
Lemma name_eqb_eq a b : (a =? b) = true <-> a = b.
Proof. destruct a as [x], b as [y]. simpl. rewrite bytes_eqb_eq. split; [now intros -> | now intros [= ->]]. Qed.
Lemma name_eqb_refl a : (a =? a) = true.
Proof. now apply name_eqb_eq. Qed.

(* ---------------------------------------------------------------- decidable equality of signatures and meanings *)
Definition ity_eq_dec (a b : ity) : {a = b} + {a <> b}. Proof. decide equality. Defined.
Definition cty_eq_dec (a b : cty) : {a = b} + {a <> b}. Proof. decide equality; apply ity_eq_dec. Defined.
Definition csig_eq_dec (a b : csig) : {a = b} + {a <> b}. Proof. decide equality; [apply (list_eq_dec cty_eq_dec) | apply cty_eq_dec]. Defined.
Definition aexp_eq_dec (a b : aexp) : {a = b} + {a <> b}. Proof. decide equality; try apply Nat.eq_dec; apply name_eq_dec. Defined.
Definition rwrap_eq_dec (a b : rwrap) : {a = b} + {a <> b}. Proof. decide equality. Defined.
Definition recv_eq_dec (a b : recv) : {a = b} + {a <> b}. Proof. decide equality. Defined.
Definition sem_eq_dec (a b : sem) : {a = b} + {a <> b}.
Proof. decide equality; try apply recv_eq_dec; try apply name_eq_dec; try apply (list_eq_dec aexp_eq_dec); try apply rwrap_eq_dec; try apply Nat.eq_dec; apply aexp_eq_dec. Defined.
Definition entry_eq_dec (a b : csig * sem) : {a = b} + {a <> b}. Proof. decide equality; [apply sem_eq_dec | apply csig_eq_dec]. Defined.
Definition opt_entry_eqb (a b : option (csig * sem)) : bool :=
  match a, b with Some x, Some y => if entry_eq_dec x y then true else false | None, None => true | _, _ => false end.
Lemma opt_entry_eqb_eq a b : opt_entry_eqb a b = true -> a = b.
Proof. destruct a, b; simpl; try discriminate; auto. destruct (entry_eq_dec p p0); [now subst | discriminate]. Qed.

(* ---------------------------------------------------------------- the finite check over the regenerated tables *)
Definition lookup (l : list (name * (csig * sem))) (f : name) : option (csig * sem) := option_map snd (find (fun d => fst d =? f) l).
(* every slot means what its field denotes; every denoted entry point is a field of the header *)
Definition agree (A D : list (name * (csig * sem))) : bool :=
  forallb (fun e => opt_entry_eqb (lookup D (fst e)) (Some (snd e))) A && forallb (fun d => existsb (fun e => fst e =? fst d) A) D.
(* the forwarder stored in a slot has the C signature of the field, and no slot is bad *)
Definition slot_typed (e : (name * csig) * name) : bool :=
  match find_fdef forwarders (snd e) with
  | Some fd => if csig_eq_dec (f_sig fd) (snd (fst e)) then true else false
  | None => false
  end.
Fixpoint nodupb (l : list name) : bool := match l with [] => true | x :: r => negb (existsb (name_eqb x) r) && nodupb r end.
Definition table_ok (t : tbl) : bool :=
  Nat.eqb (List.length (fields_of t)) (List.length (init_of t)) && nodupb (map fst (wired_entries t)) && forallb slot_typed (slots t)
  && agree (wired_entries t) (denotations t).
Definition strpair_eq_dec (a b : name * name) : {a = b} + {a <> b}. Proof. decide equality; apply name_eq_dec. Defined.
Definition adaptors_ok : bool :=
  if list_eq_dec strpair_eq_dec adaptor_bodies
       [("isEqual", "return equal_(object1, object2) != 0;"); ("valueToString", "return SimpleString(toString_(object));"); ("copy", "copier_(dst, src);")]
  then true else false.
(* the C++ side of "...OrDefault" (regenerated from MockSupport.cpp / MockActualCall.cpp): hasReturnValue() ? <getter>() : default,
   with the getter that norm_ret and denote assume *)
Definition class_of (r : recv) : name := match r with RSup => "MockSupport" | _ => "MockCheckedActualCall" end.
Definition cpp_defaults_ok : bool :=
  forallb (fun r => forallb (fun t => existsb (fun e => (fst (fst e) =? class_of r) && (snd (fst e) =? or_default_name t) && (snd e =? getter_name r t))
                                              cpp_or_default) type_names) [RSup; RAct].
Definition wiring_ok : bool := table_ok TblS && table_ok TblE && table_ok TblA && select_ok && adaptors_ok && cpp_defaults_ok.

Lemma wiring_checked : wiring_ok = true.
Proof. vm_compute. reflexivity. Qed.

Lemma find_none_no_key {V} (l : list (name * V)) f : find (fun d => fst d =? f) l = None -> forall e, In e l -> fst e <> f.
Proof.
  intros H e He Hf. apply (find_none _ _ H) in He. rewrite Hf, name_eqb_refl in He. discriminate.
Qed.

Lemma agree_lookup A D : agree A D = true -> forall f, lookup A f = lookup D f.
Proof.
  unfold agree. rewrite andb_true_iff, !forallb_forall. intros [H1 H2] f. unfold lookup at 1.
  destruct (find (fun d => fst d =? f) A) as [e|] eqn:Hf.
  - apply find_some in Hf. destruct Hf as [Hin Hk]. apply name_eqb_eq in Hk. specialize (H1 e Hin).
    apply opt_entry_eqb_eq in H1. rewrite Hk in H1. simpl. now rewrite H1.
  - simpl. unfold lookup. destruct (find (fun d => fst d =? f) D) as [d|] eqn:Hd; [|reflexivity]. exfalso.
    apply find_some in Hd. destruct Hd as [Hin Hk]. apply name_eqb_eq in Hk. specialize (H2 d Hin).
    apply existsb_exists in H2. destruct H2 as [e [He Hek]]. apply name_eqb_eq in Hek.
    apply (find_none_no_key _ _ Hf e He). congruence.
Qed.

Lemma table_ok_all t : table_ok t = true.
Proof.
  pose proof wiring_checked as H. unfold wiring_ok in H. rewrite !andb_true_iff in H. destruct H as [[[[[HS HE] HA] _] _] _].
  destruct t; assumption.
Qed.

(* C19_tables_wired, lookup form: through every field of every table a C caller reaches exactly the operation the field denotes,
   and a name that is no field of the header denotes nothing *)
Lemma wired_is_denote : forall t f, wired t f = denote t f.
Proof.
  intros t f. pose proof (table_ok_all t) as H. unfold table_ok in H. rewrite !andb_true_iff in H. destruct H as [_ H].
  exact (agree_lookup _ _ H f).
Qed.

(* positional form: the initialisers have the length of their structs; the forwarder at position i has the C signature of field i
   and the meaning the name of field i denotes *)
Lemma nth_error_combine {A B} (a : list A) (b : list B) i x y :
  nth_error a i = Some x -> nth_error b i = Some y -> nth_error (combine a b) i = Some (x, y).
Proof.
  revert b i. induction a as [|a0 a IH]; intros b i; destruct b, i; simpl; try discriminate.
  - intros H1 H2. congruence.
  - apply IH.
Qed.
Lemma find_in_nodup {V} (l : list (name * V)) e : nodupb (map fst l) = true -> In e l -> find (fun d => fst d =? fst e) l = Some e.
Proof.
  induction l as [|a l IH]; simpl; intros H Hin; [tauto|]. apply andb_true_iff in H. destruct H as [H1 H2].
  destruct Hin as [->|Hin]; [now rewrite name_eqb_refl|].
  destruct (fst a =? fst e) eqn:E; [|auto]. exfalso. apply name_eqb_eq in E. rewrite negb_true_iff in H1.
  assert (existsb (name_eqb (fst a)) (map fst l) = true) as X.
  { apply existsb_exists. exists (fst e). split; [now apply in_map | rewrite E; apply name_eqb_refl]. }
  congruence.
Qed.
Lemma tables_wired_positional : forall t i field sg fn,
  nth_error (fields_of t) i = Some (field, sg) -> nth_error (init_of t) i = Some fn ->
  denote t field = Some (sg, resolve fn) /\ (exists fd, find_fdef forwarders fn = Some fd /\ f_sig fd = sg).
Proof.
  intros t i field sg fn H1 H2. pose proof (table_ok_all t) as H. unfold table_ok in H. rewrite !andb_true_iff in H.
  destruct H as [[[_ Hnd] Hty] _].
  pose proof (nth_error_In _ _ (nth_error_combine _ _ _ _ _ H1 H2)) as Hin. fold (slots t) in Hin. split.
  - rewrite <- wired_is_denote. unfold wired.
    assert (In (field, (sg, resolve fn)) (wired_entries t)) as Hw.
    { unfold wired_entries. apply (in_map (fun e => (fst (fst e), (snd (fst e), resolve (snd e)))) _ _ Hin). }
    pose proof (find_in_nodup _ _ Hnd Hw) as F. simpl in F. now rewrite F.
  - rewrite forallb_forall in Hty. specialize (Hty _ Hin). unfold slot_typed in Hty. cbn [fst snd] in Hty.
    destruct (find_fdef forwarders fn) as [fd|]; [|discriminate Hty]. exists fd. split; [reflexivity|].
    destruct (csig_eq_dec (f_sig fd) sg); [assumption | discriminate Hty].
Qed.
Lemma tables_same_length : forall t, List.length (fields_of t) = List.length (init_of t).
Proof.
  intros t. pose proof (table_ok_all t) as H. unfold table_ok in H. rewrite !andb_true_iff in H.
  destruct H as [[[H _] _] _]. now apply Nat.eqb_eq.
Qed.

Lemma select_checked : select_ok = true.
Proof. pose proof wiring_checked as H. unfold wiring_ok in H. rewrite !andb_true_iff in H. tauto. Qed.

Lemma cpp_or_default_is : forall r t, r <> RExp -> In t type_names ->
  In (class_of r, or_default_name t, getter_name r t) cpp_or_default.
Proof.
  intros r t Hr Ht. pose proof wiring_checked as H. unfold wiring_ok in H. rewrite !andb_true_iff in H. destruct H as [_ H].
  unfold cpp_defaults_ok in H. rewrite forallb_forall in H.
  assert (In r [RSup; RAct]) as Hin by (destruct r; simpl; auto; contradiction).
  specialize (H r Hin). rewrite forallb_forall in H. specialize (H t Ht). apply existsb_exists in H.
  destruct H as [[[c m] g] [He Hk]]. cbn [fst snd] in Hk. rewrite !andb_true_iff in Hk. destruct Hk as [[K1 K2] K3].
  apply name_eqb_eq in K1, K2, K3. subst. exact He.
Qed.

(* ---------------------------------------------------------------- C19_equiv: same C++ operations *)
(* an installer is faithful when the object it hands to the C++ repository runs exactly the functions of THIS call, whatever
   adaptor nodes exist already *)
Definition faithful (I : installer) : Prop :=
  (forall l e s, snd (i_cmp I l e s) = {| n_equal := e; n_to_string := s |}) /\ (forall l c, snd (i_copy I l c) = c).
Lemma c_installer_faithful : faithful c_installer.
Proof. split; intros; reflexivity. Qed.
Lemma x_installer_faithful : faithful x_installer.
Proof. split; intros; reflexivity. Qed.

(* with faithful installers the operation performed and the three pointers do not depend on the adaptor lists *)
Lemma apply_sem_indep I1 I2 : faithful I1 -> faithful I2 -> forall p ad1 ad2 k f sg s args,
  fst (fst (apply_sem I1 p ad1 k f sg s args)) = fst (fst (apply_sem I2 p ad2 k f sg s args))
  /\ snd (apply_sem I1 p ad1 k f sg s args) = snd (apply_sem I2 p ad2 k f sg s args).
Proof.
  intros [C1 Y1] [C2 Y2] p ad1 ad2 k f sg s args. unfold apply_sem. destruct (bind f (snd sg) args 0%N) as [vs|]; [|split; reflexivity].
  destruct s; try (split; reflexivity).
  - pose proof (C1 (a_cmps ad1) (eval_arg vs (AParam 1)) (eval_arg vs (AParam 2))) as E1.
    pose proof (C2 (a_cmps ad2) (eval_arg vs (AParam 1)) (eval_arg vs (AParam 2))) as E2.
    destruct (i_cmp I1 _ _ _) as [l1 o1]. destruct (i_cmp I2 _ _ _) as [l2 o2]. simpl in *. subst. split; reflexivity.
  - pose proof (Y1 (a_cps ad1) (eval_arg vs (AParam 1))) as E1. pose proof (Y2 (a_cps ad2) (eval_arg vs (AParam 1))) as E2.
    destruct (i_copy I1 _ _) as [l1 o1]. destruct (i_copy I2 _ _) as [l2 o2]. simpl in *. subst. split; reflexivity.
Qed.

Lemma trace_ext l1 l2 b I1 I2 : (forall t f, l1 t f = l2 t f) -> faithful I1 -> faithful I2 ->
  forall ops p ad1 ad2 k, trace_from l1 b I1 p ad1 k ops = trace_from l2 b I2 p ad2 k ops.
Proof.
  intros H F1 F2. induction ops as [|o r IH]; intros p ad1 ad2 k; simpl; [reflexivity|].
  assert (fst (fst (step l1 b I1 p ad1 k o)) = fst (fst (step l2 b I2 p ad2 k o)) /\ snd (step l1 b I1 p ad1 k o) = snd (step l2 b I2 p ad2 k o)) as [E1 E2].
  { destruct o as [sc|t f args]; simpl.
    - destruct b; split; reflexivity.
    - rewrite H. destruct (l2 t f) as [[sg s]|]; [|split; reflexivity]. apply (apply_sem_indep I1 I2 F1 F2). }
  destruct (step l1 b I1 p ad1 k o) as [[p1 a1] x1]. destruct (step l2 b I2 p ad2 k o) as [[p2 a2] x2]. simpl in E1, E2. subst.
  f_equal. apply IH.
Qed.

Lemma equiv_trace : forall ops, c_trace ops = x_trace ops.
Proof.
  intros ops. unfold c_trace, x_trace. rewrite select_checked.
  apply trace_ext; [exact wired_is_denote | exact c_installer_faithful | exact x_installer_faithful].
Qed.

(* the comparator / copier a type name gets through the C interface runs the functions given in that very call: however many
   adaptor nodes exist, whatever functions they hold (C19_adaptor_fresh) *)
Lemma adaptor_fresh : forall p ad k args ty e s,
  bind "installComparator" [TCharP; TEqFn; TStrFn] args 0%N = Some [ty; e; s] ->
  snd (apply_sem c_installer p ad k "installComparator" (TVoid, [TCharP; TEqFn; TStrFn]) SInstallCmp args)
  = XInstallCmp (p_sup p) (XPass ty) (XPass e) (XPass s).
Proof. intros p ad k args ty e s H. unfold apply_sem. cbn [snd]. rewrite H. reflexivity. Qed.
Lemma copier_fresh : forall p ad k args ty c,
  bind "installCopier" [TCharP; TCopyFn] args 0%N = Some [ty; c] ->
  snd (apply_sem c_installer p ad k "installCopier" (TVoid, [TCharP; TCopyFn]) SInstallCopy args) = XInstallCopy (p_sup p) (XPass ty) (XPass c).
Proof. intros p ad k args ty c H. unfold apply_sem. cbn [snd]. rewrite H. reflexivity. Qed.

(* an installComparator_c / installCopier_c that looks for an existing adaptor node with the same equality function (resp. the same
   copier) and reuses it -- "the same functions are installed in every setup" -- is not faithful: two types that share one
   equality function and have their own to-string functions get the first type's text *)
Definition fn_index (x : xarg) : option Z := match x with XPass (CFn _ i) => Some i | _ => None end.
Definition same_fn (a b : xarg) : bool := match fn_index a, fn_index b with Some i, Some j => (i =? j)%Z | _, _ => false end.
Definition reuse_installer : installer :=
  {| i_cmp := fun l e s => match find (fun n => same_fn (n_equal n) e) l with
                           | Some n => (l, n)
                           | None => i_cmp c_installer l e s
                           end;
     i_copy := fun l c => match find (fun n => same_fn n c) l with Some n => (l, n) | None => i_copy c_installer l c end |}.
Definition equiv_reuse_stmt : Prop := forall ops, trace_from wired select_ok reuse_installer ptrs0 adaptors0 0 ops = x_trace ops.
(* mock_c()->installComparator("P", eq0, str0); mock_c()->installComparator("S", eq0, str1) *)
Definition reuse_witness : list op :=
  [ OSelect None; OCall TblS "installComparator" [AB (Some [80%N]); AZ 0; AZ 0]; OCall TblS "installComparator" [AB (Some [83%N]); AZ 0; AZ 1] ].
Lemma equiv_reuse_refuted : ~ equiv_reuse_stmt.
Proof. intros H. specialize (H reuse_witness). vm_compute in H. discriminate H. Qed.
Lemma reuse_not_faithful : ~ faithful reuse_installer.
Proof.
  intros [H _]. specialize (H [{| n_equal := XPass (CFn TEqFn 0); n_to_string := XPass (CFn TStrFn 0) |}] (XPass (CFn TEqFn 0)) (XPass (CFn TStrFn 1))).
  vm_compute in H. discriminate H.
Qed.

(* ---------------------------------------------------------------- C19_value_roundtrip *)
Lemma find_dispatch_none ty : forallb (fun d => negb (d_type d =? ty)) value_dispatch = true ->
  find (fun d => d_type d =? ty) value_dispatch = None.
Proof.
  intros H. destruct (find (fun d => d_type d =? ty) value_dispatch) eqn:E; [|reflexivity].
  apply find_some in E. destruct E as [Hin Hk]. rewrite forallb_forall in H. apply H in Hin. rewrite Hk in Hin. discriminate.
Qed.

Lemma value_roundtrip : forall v, mvalid v = true ->
  exists c, value_to_c v = Some c /\ canon_of_c c = Some (canon_of_value v).
Proof.
  intros v Hv. destruct v as [b|t z|d|s|a|a|a|a|ty a].
  - destruct b; eexists; split; vm_compute; reflexivity.
  - destruct t; eexists; split; vm_compute; reflexivity.
  - eexists; split; vm_compute; reflexivity.
  - eexists; split; vm_compute; reflexivity.
  - eexists; split; vm_compute; reflexivity.
  - eexists; split; vm_compute; reflexivity.
  - eexists; split; vm_compute; reflexivity.
  - eexists; split; vm_compute; reflexivity.
  - simpl in Hv. unfold value_to_c. simpl mtype. rewrite (find_dispatch_none ty Hv). eexists; split; vm_compute; reflexivity.
Qed.

(* the tag a C caller receives is the tag of the value's type, for every built-in type (the enum of the header, by name) *)
Definition expected_tag (v : mvalue) : name :=
  match v with
  | MBool _ => "MOCKVALUETYPE_BOOL" | MInt TInt _ => "MOCKVALUETYPE_INTEGER" | MInt TUInt _ => "MOCKVALUETYPE_UNSIGNED_INTEGER"
  | MInt TLong _ => "MOCKVALUETYPE_LONG_INTEGER" | MInt TULong _ => "MOCKVALUETYPE_UNSIGNED_LONG_INTEGER"
  | MInt TLLong _ => "MOCKVALUETYPE_LONG_LONG_INTEGER" | MInt TULLong _ => "MOCKVALUETYPE_UNSIGNED_LONG_LONG_INTEGER"
  | MDouble _ => "MOCKVALUETYPE_DOUBLE" | MStr _ => "MOCKVALUETYPE_STRING" | MPtr _ => "MOCKVALUETYPE_POINTER"
  | MCPtr _ => "MOCKVALUETYPE_CONST_POINTER" | MFun _ => "MOCKVALUETYPE_FUNCTIONPOINTER" | MMem _ => "MOCKVALUETYPE_MEMORYBUFFER"
  | MObj _ _ => "MOCKVALUETYPE_OBJECT"
  end.
Lemma value_tag : forall v, mvalid v = true -> option_map (fun c => fst (fst c)) (value_to_c v) = Some (expected_tag v).
Proof.
  intros v Hv. destruct v as [b|t z|d|s|a|a|a|a|ty a].
  - destruct b; vm_compute; reflexivity.
  - destruct t; vm_compute; reflexivity.
  - vm_compute; reflexivity.
  - vm_compute; reflexivity.
  - vm_compute; reflexivity.
  - vm_compute; reflexivity.
  - vm_compute; reflexivity.
  - vm_compute; reflexivity.
  - simpl in Hv. unfold value_to_c. simpl mtype. rewrite (find_dispatch_none ty Hv). vm_compute. reflexivity.
Qed.

(* ---------------------------------------------------------------- what the caller sees *)
Lemma observe_same : forall w r, fits w r = true -> observe_c w r = observe_x r.
Proof.
  intros w r H. destruct r as [|b|t z|d|s|k a|v].
  7: { destruct w; try discriminate H. cbn [fits] in H. unfold observe_c, observe_x.
       destruct (value_roundtrip v H) as [c [E1 E2]]. rewrite E1. exact E2. }
  all: destruct w; try discriminate H; try reflexivity.
  all: try (destruct b; reflexivity).
  all: try (destruct k; try discriminate H; reflexivity).
Qed.

Section AnyMachine.
  Variable M : machine.
  (* C++ type checking of the forwarders: the result of an operation has the type its wrapper is applied to *)
  Hypothesis typed : forall st k x, fits (wrap_of x) (r_val (snd (mexec M st k x))) = true.

  Lemma exec_same : forall tr st k vals, exec M observe_c st k tr vals = exec M (fun _ => observe_x) st k tr vals.
  Proof.
    induction tr as [|x r IH]; intros st k vals; simpl; [reflexivity|].
    pose proof (typed st k x) as T. destruct (mexec M st k x) as [st' res]. simpl in T.
    destruct (r_fail res); [reflexivity|]. rewrite (observe_same _ _ T). apply IH.
  Qed.

  Lemma halves_identical : forall ops, o_c (run_with M ops) = o_x (run_with M ops).
  Proof. intros ops. unfold run_with. simpl. rewrite equiv_trace. apply exec_same. Qed.
End AnyMachine.

Lemma optbytes_eqb_refl a : optbytes_eqb a a = true.
Proof. destruct a; simpl; [apply bytes_eqb_refl | reflexivity]. Qed.
Lemma canon_eqb_refl c : canon_eqb c c = true.
Proof.
  destruct c; simpl; try apply Bool.eqb_reflx; try apply Z.eqb_refl; try apply optbytes_eqb_refl.
  - rewrite Z.eqb_refl, andb_true_r. apply ity_eqb_eq. reflexivity.
  - rewrite Z.eqb_refl, andb_true_r. destruct k; reflexivity.
Qed.
Lemma list_eqb_refl {A} (e : A -> A -> bool) : (forall x, e x x = true) -> forall l, list_eqb e l l = true.
Proof. intros H l. induction l; simpl; [reflexivity|]. now rewrite H, IHl. Qed.
Lemma half_eqb_refl h : half_eqb h h = true.
Proof.
  unfold half_eqb. rewrite !andb_true_iff. repeat split.
  - destruct (h_fail h) as [[i s]|]; [|reflexivity]. now rewrite N.eqb_refl, bytes_eqb_refl.
  - apply list_eqb_refl. intros x. now rewrite N.eqb_refl, canon_eqb_refl.
  - apply list_eqb_refl. intros x. now rewrite N.eqb_refl, bytes_eqb_refl.
Qed.

Lemma equiv_obs : forall (M : machine), (forall st k x, fits (wrap_of x) (r_val (snd (mexec M st k x))) = true) ->
  forall ops, spec ops (run_with M ops) = true.
Proof. intros M T ops. unfold spec. rewrite (halves_identical M T ops). apply half_eqb_refl. Qed.

Lemma machine0_typed : forall st k x, fits (wrap_of x) (r_val (snd (mexec machine0 st k x))) = true.
Proof. intros st k x. simpl. destruct (wrap_of x); reflexivity. Qed.

Lemma run_meets_spec : forall s, valid s = true -> spec s (run s) = true.
Proof. intros s _. exact (equiv_obs machine0 machine0_typed s). Qed.

(* ---------------------------------------------------------------- the code before the repair (fix: b5ec8af)
   Both tables shared one set of reader functions: the support table's readers went through the static `actualCall`
   (whatever scope made the last call, possibly none or a deleted one) and the actual-call table's hasReturnValue (hence every
   ...OrDefault) through `currentMockSupport`. *)
Definition is_reader (f : name) : bool :=
  existsb (name_eqb f) (map fst (den_readers RAct)) && negb (f =? "hasReturnValue").
Definition wired_old (t : tbl) (f : name) : option (csig * sem) :=
  match t with
  | TblS => if is_reader f then wired TblA f else wired TblS f
  | TblA => if f =? "hasReturnValue" then wired TblS f else wired TblA f
  | TblE => wired TblE f
  end.
Definition equiv_old_stmt : Prop := forall ops, trace_from wired_old true c_installer ptrs0 adaptors0 0 ops = x_trace ops.
(* mock_c()->actualCall("f"); mock_scope_c("s")->...; call->hasReturnValue()  and  mock_c()->intReturnValue() after a call in a scope *)
Definition old_witness : list op :=
  [ OSelect None; OCall TblS "actualCall" [AB (Some [102%N])]; OSelect (Some [115%N]); OCall TblS "actualCall" [AB (Some [103%N])];
    OSelect None; OCall TblS "intReturnValue" [] ].
Lemma equiv_old_refuted : ~ equiv_old_stmt.
Proof. intros H. specialize (H old_witness). vm_compute in H. discriminate H. Qed.

(* ---------------------------------------------------------------- examples: the hypotheses are satisfiable, the statements not vacuous *)
Example ex_wired_1 : wired TblE "andReturnUnsignedIntValue" = Some ((TExpTbl, [TI TUInt]), SChain RExp "andReturnValue" [AParam 0] RExp).
Proof. vm_compute. reflexivity. Qed.
Example ex_wired_2 : wired TblA "returnLongIntValueOrDefault" = Some ((TI TLong, [TI TLong]), SOrDefault RAct RAct "returnLongIntValue" WNone 0).
Proof. vm_compute. reflexivity. Qed.
Example ex_wired_3 : wired TblS "returnBoolValueOrDefault" = Some ((TI TInt, [TI TInt]), SOrDefault RSup RSup "boolReturnValue" WBool01 0).
Proof. vm_compute. reflexivity. Qed.
Example ex_wired_4 : wired TblS "noSuchField" = None /\ nth_error (fields_of TblE) 20 = Some ("andReturnUnsignedIntValue", (TExpTbl, [TI TUInt]))
                     /\ nth_error (init_of TblE) 20 = Some "andReturnUnsignedIntValue_c".
Proof. vm_compute. repeat split. Qed.
Example ex_roundtrip : mvalid (MInt TULong 18446744073709551615) = true /\ mvalid (MObj "MyType" 4096) = true /\ mvalid (MObj "int" 4096) = false.
Proof. vm_compute. repeat split. Qed.
Definition ex_scenario : list op :=
  [ OSelect None; OCall TblS "expectOneCall" [AB (Some [102%N])]; OCall TblE "withBoolParameters" [AB (Some [112%N]); AZ 2];
    OCall TblE "andReturnUnsignedLongIntValue" [AZ 18446744073709551615];
    OSelect (Some [115%N]); OCall TblS "actualCall" [AB (Some [102%N])]; OCall TblA "withMemoryBufferParameter" [AB (Some [112%N]); AB (Some [1%N; 2%N])];
    OCall TblA "returnUnsignedLongIntValueOrDefault" [AZ 7]; OCall TblS "returnValue" [] ].
Example ex_valid : valid ex_scenario = true /\ existsb (fun x => match x with XStuck => true | _ => false end) (c_trace ex_scenario) = false
                   /\ nth_error (c_trace ex_scenario) 2 = Some (XChain (HExp 1) "withParameter" [XPass (CBytes TCharP (Some [112%N])); XBool true] RExp)
                   /\ nth_error (c_trace ex_scenario) 7 = Some (XOrDefault (HAct 6) (HAct 6) "returnUnsignedLongIntValue" WNone (XPass (CNum (TI TULong) 7)))
                   /\ nth_error (c_trace ex_scenario) 8 = Some (XRet WValueC (HSup (Some [115%N])) "returnValue" []).
Proof. vm_compute. repeat split. Qed.
Example ex_invalid : valid [OCall TblE "withIntParameters" [AB (Some [112%N]); AZ 2147483648]] = false.
Proof. vm_compute. reflexivity. Qed.
(* several custom types with shared functions: P = (eq0, str0), S = (eq0, str1), copier 1 for both; the adaptor lists grow, the
   objects installed carry the functions of their own call; a function index outside the pool is not a valid scenario *)
Definition ex_custom : list op :=
  [ OSelect None; OCall TblS "installComparator" [AB (Some [80%N]); AZ 0; AZ 0]; OCall TblS "installComparator" [AB (Some [83%N]); AZ 0; AZ 1];
    OCall TblS "installCopier" [AB (Some [80%N]); AZ 1]; OCall TblS "installCopier" [AB (Some [83%N]); AZ 1];
    OCall TblS "expectOneCall" [AB (Some [102%N])]; OCall TblE "withParameterOfType" [AB (Some [83%N]); AB (Some [112%N]); AB (Some [1%N; 2%N; 3%N; 4%N; 5%N; 6%N; 7%N; 8%N])];
    OCall TblS "actualCall" [AB (Some [102%N])]; OCall TblA "withParameterOfType" [AB (Some [83%N]); AB (Some [112%N]); AB (Some [1%N; 2%N; 3%N; 5%N; 5%N; 6%N; 7%N; 8%N])] ].
Example ex_custom_trace : valid ex_custom = true
  /\ nth_error (c_trace ex_custom) 2 = Some (XInstallCmp (HSup None) (XPass (CBytes TCharP (Some [83%N]))) (XPass (CFn TEqFn 0)) (XPass (CFn TStrFn 1)))
  /\ nth_error (c_trace ex_custom) 4 = Some (XInstallCopy (HSup None) (XPass (CBytes TCharP (Some [83%N]))) (XPass (CFn TCopyFn 1)))
  /\ nth_error (trace_from wired select_ok reuse_installer ptrs0 adaptors0 0 ex_custom) 2
     = Some (XInstallCmp (HSup None) (XPass (CBytes TCharP (Some [83%N]))) (XPass (CFn TEqFn 0)) (XPass (CFn TStrFn 0))).
Proof. vm_compute. repeat split. Qed.
Example ex_fresh_hyp : bind "installComparator" [TCharP; TEqFn; TStrFn] [AB (Some [83%N]); AZ 1; AZ 2] 0%N
                       = Some [CBytes TCharP (Some [83%N]); CFn TEqFn 1; CFn TStrFn 2]
                       /\ bind "installCopier" [TCharP; TCopyFn] [AB (Some [83%N]); AZ 1] 0%N = Some [CBytes TCharP (Some [83%N]); CFn TCopyFn 1].
Proof. vm_compute. split; reflexivity. Qed.
Example ex_invalid_fn : valid [OCall TblS "installComparator" [AB (Some [80%N]); AZ 2; AZ 0]] = false
                        /\ valid [OCall TblS "installComparator" [AB (Some [80%N]); AZ 1; AZ 3]] = false
                        /\ valid [OCall TblS "installCopier" [AB (Some [80%N])]] = false.
Proof. vm_compute. repeat split. Qed.
(* a machine that returns values: the observation of a typed machine is non-empty and identical on both sides *)
Definition machine1 : machine :=
  {| mst := unit; minit := tt;
     mexec := fun st _ x => (st, {| r_fail := None;
                                    r_val := match wrap_of x with WBool01 => RBool true | WFunCast => RPtr PFunc 12288 | WValueC => RValue (MInt TLLong (-5))
                                                                | WNone => match x with XRet _ _ _ _ | XOrDefault _ _ _ _ _ => RInt TULong 18446744073709551615 | _ => RNone end end |});
     mouts := fun _ => [] |}.
Lemma machine1_typed : forall st k x, fits (wrap_of x) (r_val (snd (mexec machine1 st k x))) = true.
Proof. intros st k x. simpl. destruct (wrap_of x) eqn:E; try reflexivity. destruct x; reflexivity. Qed.
Example ex_machine1 : h_vals (o_c (run_with machine1 ex_scenario)) =
  [ {| v_op := 7; v_canon := CI TULong 18446744073709551615 |}; {| v_op := 8; v_canon := CI TLLong (-5) |} ].
Proof. vm_compute. reflexivity. Qed.
