(* C07 -- proofs, part 3: all tests, the final report, the oracle, and the statements of Properties_C07.v *)
From Coq Require Import NArith List Bool Lia Permutation Arith.
From CppUVerif Require Import gen.Gen_Common C04_Model C04_Lists C04_Table C04_Proofs C07_Model C07_Proofs C07_Tests.
Import ListNotations.
Local Open Scope N_scope.

Definition flat_text (ts : list ltest) : list stmt := flat_map text_of ts.

Fixpoint items_good (base : N) (ts : list ltest) (os : list titem) : Prop :=
  match ts, os with
  | [], [] => True
  | t :: ts', o :: os' =>
      let b1 := base + allocs (t_before t) in
      item_good b1 t o /\ items_good (b1 + allocs (executed t)) ts' os'
  | _, _ => False
  end.

Lemma all_tests P0 : forall ts w T0 a rest, Between P0 w T0 a ->
  valid_trace (addrs (pure_recs P0 T0)) (flat_text ts ++ rest) = true ->
  exists a', Between P0 (fst (run_tests w ts)) (T0 ++ flat_text ts) a' /\
             valid_trace (addrs (pure_recs P0 (T0 ++ flat_text ts))) rest = true /\
             items_good (1 + allocs P0 + allocs T0) ts (snd (run_tests w ts)).
Proof.
  induction ts as [|t ts IH]; intros w T0 a rest HB HV.
  - cbn. rewrite app_nil_r. exists a. auto.
  - cbn [flat_text flat_map] in *. fold (flat_text ts) in *. rewrite <- app_assoc in HV.
    destruct (one_test P0 w T0 a t _ HB HV) as (a1 & HB1 & HV1 & HG1).
    cbn [run_tests]. destruct (run_one w t) as [w1 i]. cbn [fst snd] in *.
    destruct (IH w1 _ a1 rest HB1 HV1) as (a2 & HB2 & HV2 & HG2).
    destruct (run_tests w1 ts) as [w2 os]. cbn [fst snd] in *.
    rewrite <- app_assoc in HB2, HV2. exists a2. split; [assumption|]. split; [assumption|].
    cbn [items_good]. cbn zeta. split; [exact HG1|].
    replace (1 + allocs P0 + allocs T0 + allocs (t_before t) + allocs (executed t)) with (1 + allocs P0 + allocs (T0 ++ text_of t))
      by (unfold text_of; rewrite !allocs_app; lia).
    exact HG2.
Qed.

(* the plugin is created after the statements P0 ran on the fresh (disabled) detector *)
Lemma between_init P0 rest : valid_trace [] (P0 ++ rest) = true ->
  exists a, Between P0 (w_start (fold_left mem_stmt P0 d_init)) [] a /\ valid_trace (addrs (pure_recs P0 [])) rest = true.
Proof.
  intros HV. destruct (mem_refines P0 rest _ _ R_init HV) as [HR HV'].
  destruct (aexec_formula P0 a_init) as (E1 & E2 & E3 & E4). cbn zeta in *. cbn [a_init a_recs a_period a_stage a_seq filter] in E1, E2, E3, E4.
  rewrite app_nil_r in E1.
  assert (EP : pure_recs P0 [] = a_recs (fold_left astep P0 a_init)).
  { unfold pure_recs, en_recs, dis_recs. cbn [nodes rev app]. rewrite E1. apply filter_all. intros; reflexivity. }
  set (af := fold_left astep P0 a_init) in *.
  exists (mkA (a_recs af) SEnabled (a_stage af) (a_seq af)). split.
  - constructor; cbn [w_start w_det w_ignore w_expected w_err a_recs a_period a_stage a_seq]; try reflexivity.
    + apply R_period. exact HR.
    + symmetry. exact EP.
    + assumption.
    + rewrite E2. change (allocs []) with 0. lia.
  - rewrite EP. assumption.
Qed.

(* ------------------------------------------------------------------ FinalReport *)
Lemma final_spec P0 w T a tbd : Between P0 w T a ->
  let out := leaked (1 + allocs P0) T in
  if len out =? tbd then final_report w tbd = (None, false)
  else exists l, final_report w tbd = (Some l, false) /\ Permutation (map ent l) out.
Proof.
  intros [HR Hrecs Hp Hs Hq Hi He Hx] out. pose proof HR as (HI & HP & _).
  assert (Hen : forall n, In n (en_recs P0 T) -> applies PEnabled n = true).
  { intros n Hn. unfold applies. rewrite (en_enabled _ _ _ Hn). reflexivity. }
  assert (Hdis : forall n, In n (dis_recs P0 T) -> applies PEnabled n = false).
  { intros n Hn. unfold applies. rewrite (dis_disabled _ _ _ Hn). reflexivity. }
  assert (Hout : map ent (en_recs P0 T) = rev out).
  { unfold en_recs, out. rewrite map_rev, nodes_leaked. reflexivity. }
  assert (Hleaks : t_total PEnabled (d_tbl (w_det w)) = len out).
  { rewrite (count_perm _ _ _ HP), Hrecs. unfold pure_recs. rewrite count_split by assumption.
    rewrite <- (len_map ent), Hout. apply len_rev. }
  unfold final_report. rewrite Hleaks, Hx.
  destruct (len out =? tbd); cbn [negb]; [reflexivity|].
  rewrite (report_spec _ _ HI). eexists. split; [reflexivity|].
  eapply perm_trans; [apply Permutation_map, perm_filter; exact HP|].
  rewrite Hrecs. unfold pure_recs. rewrite filter_app, (filter_all _ _ Hen), (filter_none _ _ Hdis), app_nil_r, Hout.
  apply Permutation_sym, Permutation_rev.
Qed.

(* ------------------------------------------------------------------ the whole run *)
Lemma trace_text s : trace s = flat_text (s_tests s) ++ s_tail s.
Proof. reflexivity. Qed.

Lemma valid_trace_of s : valid s = true -> valid_trace [] (s_pre s ++ trace s) = true.
Proof. unfold valid. intros H. apply andb_true_iff in H. apply H. Qed.

Definition final_good (s : scenario) (o : obs) : Prop :=
  let out := leaked (1 + allocs (s_pre s)) (trace s) in
  if len out =? s_tbd s then
    o_empty o = true /\ o_noleaks o = false /\ o_many o = false /\ o_total o = 0 /\ o_entries o = []
  else
    o_empty o = false /\ o_noleaks o = is_nil out /\ o_many o = false /\ o_total o = len out /\ Permutation (o_entries o) out.

Lemma run_good s : valid s = true ->
  o_err (run s) = false /\ o_stray (run s) = 0 /\ items_good (1 + allocs (s_pre s)) (s_tests s) (o_tests (run s)) /\ final_good s (run s).
Proof.
  intros HV. apply valid_trace_of in HV. rewrite trace_text in HV.
  destruct (between_init _ _ HV) as (a0 & HB0 & HV0).
  destruct (all_tests _ (s_tests s) _ [] _ (s_tail s) HB0 HV0) as (a1 & HB1 & HV1 & HG1).
  cbn [app] in *. unfold allocs at 2 in HG1. cbn [filter length len] in HG1. rewrite N.add_0_r in HG1.
  unfold run. destruct (run_tests (w_start (fold_left mem_stmt (s_pre s) d_init)) (s_tests s)) as [w os]. cbn [fst snd] in *.
  rewrite <- (app_nil_r (s_tail s)) in HV1.
  destruct (outside_ops _ _ _ _ _ _ HB1 HV1) as (a2 & HB2 & _).
  pose proof (final_spec _ _ _ _ (s_tbd s) HB2) as HF. cbn zeta in HF.
  unfold final_good. rewrite trace_text.
  destruct (len (leaked (1 + allocs (s_pre s)) (flat_text (s_tests s) ++ s_tail s)) =? s_tbd s).
  - rewrite HF. cbn. auto 10.
  - destruct HF as (l & -> & PL). cbn [o_err o_stray o_tests o_empty o_noleaks o_many o_total o_entries].
    repeat split; try assumption.
    + rewrite <- (perm_is_nil _ _ PL). destruct l; reflexivity.
    + rewrite <- (len_map ent). unfold len. rewrite (Permutation_length PL). reflexivity.
Qed.

(* ------------------------------------------------------------------ the oracle accepts what it should *)
Lemma pair_eqb_refl e : pair_eqb e e = true.
Proof. unfold pair_eqb. rewrite !N.eqb_refl. reflexivity. Qed.
Lemma perm_subset_p x y : Permutation x y -> subset_p x y = true.
Proof.
  intros H. unfold subset_p, mem_p. apply forallb_forall. intros e He. apply existsb_exists.
  exists e. split; [eapply Permutation_in; eassumption|apply pair_eqb_refl].
Qed.
Lemma check_report_perm want ents : Permutation ents want ->
  check_report want (is_nil want) false (len want) ents = true.
Proof.
  intros H. unfold check_report. rewrite eqb_reflx, N.eqb_refl, (perm_subset_p _ _ H), (perm_subset_p _ _ (Permutation_sym H)).
  rewrite (Permutation_length H), Nat.eqb_refl. reflexivity.
Qed.

Lemma item_good_check base t o : item_good base t o -> check_test base t o = true.
Proof.
  unfold item_good, check_test. destruct (verdict (executed t) (leaked base (executed t))).
  - intros (-> & -> & P & -> & -> & ->). rewrite (check_report_perm _ _ P). reflexivity.
  - intros (-> & -> & -> & -> & -> & ->). rewrite !N.eqb_refl. reflexivity.
Qed.

Lemma items_good_spec : forall ts os base, items_good base ts os -> spec_tests base ts os = true.
Proof.
  induction ts as [|t ts IH]; intros [|o os] base H; cbn in *; try tauto.
  destruct H as [H1 H2]. rewrite (item_good_check _ _ _ H1), (IH _ _ H2). reflexivity.
Qed.

Lemma run_meets_spec s : valid s = true -> spec s (run s) = true.
Proof.
  intros HV. destruct (run_good s HV) as (E1 & E2 & HG & HF).
  unfold spec. rewrite E1, E2, (items_good_spec _ _ _ HG). cbn [negb N.eqb andb].
  unfold final_good in HF. destruct (len (leaked (1 + allocs (s_pre s)) (trace s)) =? s_tbd s).
  - destruct HF as (-> & -> & -> & -> & ->). reflexivity.
  - destruct HF as (-> & -> & -> & -> & P). cbn [Bool.eqb]. apply check_report_perm. assumption.
Qed.

(* ------------------------------------------------------------------ test number i *)
Definition no_test : ltest := mkT [] [] [] [] [] [].
Definition no_item : titem := mkTI 0 0 false false 0 [].
(* ordinal of the first allocation test i makes: 1 + everything allocated before its setup *)
Definition base_from (b0 : N) (ts : list ltest) (i : nat) : N :=
  b0 + allocs (flat_text (firstn i ts)) + allocs (t_before (nth i ts no_test)).
Definition base_of (s : scenario) (i : nat) : N := base_from (1 + allocs (s_pre s)) (s_tests s) i.
(* L_i, on the program text *)
Definition leaks_of (s : scenario) (i : nat) : list entry2 := leaked (base_of s i) (executed (nth i (s_tests s) no_test)).

Lemma items_good_nth : forall ts os base, items_good base ts os ->
  length os = length ts /\
  forall i, (i < length ts)%nat ->
    item_good (base + allocs (flat_text (firstn i ts)) + allocs (t_before (nth i ts no_test))) (nth i ts no_test) (nth i os no_item).
Proof.
  induction ts as [|t ts IH]; intros [|o os] base H; cbn [items_good] in H; try tauto.
  - split; [reflexivity|]. intros i Hi. cbn in Hi. lia.
  - destruct H as [H1 H2]. destruct (IH _ _ H2) as [EL Hn]. split; [cbn; congruence|].
    intros [|i] Hi.
    + cbn [firstn flat_text flat_map nth]. unfold allocs at 1. cbn. rewrite N.add_0_r. assumption.
    + cbn [firstn nth]. cbn [flat_text flat_map]. fold (flat_text (firstn i ts)).
      cbn [length] in Hi. specialize (Hn i ltac:(lia)).
      replace (base + allocs (text_of t ++ flat_text (firstn i ts)) + allocs (t_before (nth i ts no_test)))
        with (base + allocs (t_before t) + allocs (executed t) + allocs (flat_text (firstn i ts)) + allocs (t_before (nth i ts no_test)))
        by (unfold text_of; rewrite !allocs_app; lia).
      exact Hn.
Qed.

Lemma item_of s i : valid s = true -> (i < length (s_tests s))%nat ->
  item_good (base_of s i) (nth i (s_tests s) no_test) (nth i (o_tests (run s)) no_item).
Proof.
  intros HV Hi. destruct (run_good s HV) as (_ & _ & HG & _).
  destruct (items_good_nth _ _ _ HG) as [_ Hn]. exact (Hn i Hi).
Qed.

(* ------------------------------------------------------------------ the named statements *)
Lemma verdict_true_iff ex L : verdict ex L = true <-> own_failures ex = 0 /\ asked_ignore ex = false /\ len L <> declared ex.
Proof.
  unfold verdict. rewrite !andb_true_iff, !negb_true_iff, N.eqb_eq, N.eqb_neq. tauto.
Qed.

Lemma verdict_iff s i : valid s = true -> (i < length (s_tests s))%nat ->
  let ex := executed (nth i (s_tests s) no_test) in
  let o := nth i (o_tests (run s)) no_item in
  (ti_leak o = 1 <-> own_failures ex = 0 /\ asked_ignore ex = false /\ len (leaks_of s i) <> declared ex) /\
  (ti_leak o = 0 \/ ti_leak o = 1) /\
  ti_fail o = own_failures ex + ti_leak o.
Proof.
  intros HV Hi ex o. pose proof (item_of s i HV Hi) as H. unfold item_good in H. fold ex in H. fold o in H.
  rewrite <- verdict_true_iff. unfold leaks_of. fold ex.
  destruct (verdict ex (leaked (base_of s i) ex)) eqn:Ev.
  - destruct H as (F & Lk & _). rewrite Lk, F. apply verdict_true_iff in Ev. destruct Ev as (-> & _). repeat split; auto.
  - destruct H as (F & Lk & _). rewrite Lk, F. repeat split; auto; try discriminate. lia.
Qed.

Lemma report_exact s i : valid s = true -> (i < length (s_tests s))%nat ->
  let o := nth i (o_tests (run s)) no_item in
  (ti_leak o = 1 -> Permutation (ti_entries o) (leaks_of s i) /\ ti_total o = len (leaks_of s i) /\
                    ti_many o = false /\ (ti_noleaks o = true <-> leaks_of s i = [])) /\
  (ti_leak o = 0 -> ti_entries o = []).
Proof.
  intros HV Hi o. pose proof (item_of s i HV Hi) as H. unfold item_good in H. fold o in H. unfold leaks_of.
  destruct (verdict _ _).
  - destruct H as (_ & Lk & P & NL & M & T). split; [|rewrite Lk; discriminate].
    intros _. repeat split; try assumption; rewrite NL; destruct (leaked _ _); cbn; congruence.
  - destruct H as (_ & Lk & E & _). split; [rewrite Lk; discriminate|]. intros _. assumption.
Qed.

Lemma already_failed_no_extra s i : valid s = true -> (i < length (s_tests s))%nat ->
  let ex := executed (nth i (s_tests s) no_test) in
  let o := nth i (o_tests (run s)) no_item in
  own_failures ex <> 0 -> ti_leak o = 0 /\ ti_fail o = own_failures ex /\ ti_entries o = [].
Proof.
  intros HV Hi ex o Hown. destruct (verdict_iff s i HV Hi) as (V & D & F). fold ex in V, F. fold o in V, D, F.
  assert (ti_leak o = 0) as E0 by (destruct D as [D|D]; [assumption|]; apply V in D; tauto).
  split; [assumption|]. split; [lia|]. apply (report_exact s i HV Hi). assumption.
Qed.

(* ordinals of L_i lie in the range of test i *)
Lemma leaked_range : forall l base e, In e (leaked base l) -> base <= fst e < base + allocs l.
Proof.
  induction l as [|s r IH]; intros base e H; [destruct H|].
  destruct s; cbn [leaked] in H; unfold allocs; cbn [filter is_alloc]; fold (allocs r); try (apply IH; assumption);
    (rewrite len_cons; fold (allocs r);
     destruct (existsb (frees id) r); [apply IH in H; lia|]; destruct H as [<-|H]; [cbn; lia|apply IH in H; lia]).
Qed.

Lemma base_mono b0 ts i j : (i < j)%nat -> (j < length ts)%nat ->
  base_from b0 ts i + allocs (executed (nth i ts no_test)) <= base_from b0 ts j.
Proof.
  intros Hij Hj. unfold base_from.
  assert (E : firstn j ts = firstn i ts ++ nth i ts no_test :: firstn (j - S i) (skipn (S i) ts)).
  { revert i j Hij Hj. induction ts as [|t ts IH]; intros i j Hij Hj; [cbn in Hj; lia|].
    destruct j as [|j]; [lia|]. destruct i as [|i].
    - cbn. rewrite Nat.sub_0_r. reflexivity.
    - cbn [firstn nth skipn app]. f_equal. cbn [length] in Hj. rewrite (IH i j) by lia. reflexivity. }
  rewrite E. unfold flat_text. rewrite flat_map_app. cbn [flat_map]. rewrite !allocs_app.
  change (text_of (nth i ts no_test)) with (t_before (nth i ts no_test) ++ executed (nth i ts no_test)). rewrite allocs_app. lia.
Qed.

Lemma no_cross_blame s i j : valid s = true -> (i < j)%nat -> (j < length (s_tests s))%nat ->
  forall e, In e (leaks_of s i) ->
    ~ In (fst e) (map fst (ti_entries (nth j (o_tests (run s)) no_item))) /\ ~ In (fst e) (map fst (leaks_of s j)).
Proof.
  intros HV Hij Hj e He.
  assert (HL : ~ In (fst e) (map fst (leaks_of s j))).
  { intros Hin. apply in_map_iff in Hin. destruct Hin as (e' & E & He').
    apply leaked_range in He. apply leaked_range in He'. pose proof (base_mono (1 + allocs (s_pre s)) _ _ _ Hij Hj). unfold base_of in *. lia. }
  split; [|assumption].
  destruct (report_exact s j HV Hj) as [H1 H0]. destruct (verdict_iff s j HV Hj) as (_ & [D|D] & _).
  - rewrite (H0 D). intros [].
  - destruct (H1 D) as (P & _). intros Hin. apply HL. eapply Permutation_in; [apply Permutation_map; exact P|assumption].
Qed.

(* releasing a block that this test did not allocate (an earlier test's block, or p[id] == NULL) leaves L unchanged *)
Definition allocates (id : N) (s : stmt) : bool := match s with SAlloc j _ _ | SRealloc j _ => j =? id | _ => false end.
Lemma foreign_release_no_offset : forall a b id base, existsb (allocates id) a = false ->
  leaked base (a ++ SFree id :: b) = leaked base (a ++ b).
Proof.
  induction a as [|s r IH]; intros b id base H; [reflexivity|].
  cbn [existsb] in H. apply orb_false_iff in H. destruct H as [H1 H2].
  destruct s; cbn [app leaked]; try (apply IH; assumption);
    (cbn [allocates] in H1; rewrite !existsb_app; cbn [existsb frees]; rewrite (N.eqb_sym id), H1, orb_false_l, (IH _ _ _ H2); reflexivity).
Qed.

(* the state before every preTestAction: after k tests and the outside statements that precede test k *)
Definition world_before_pre (s : scenario) (k : nat) : world :=
  let w := fst (run_tests (w_start (fold_left mem_stmt (s_pre s) d_init)) (firstn k (s_tests s))) in
  with_det w (fold_left mem_stmt (t_before (nth k (s_tests s) no_test)) (w_det w)).

Lemma skipn_nth {A} (d : A) : forall k l, (k < length l)%nat -> skipn k l = nth k l d :: skipn (S k) l.
Proof. induction k; intros [|t l] Hk; cbn in *; try lia; [reflexivity|apply IHk; lia]. Qed.

(* the statements executed before the pre-action of test k, after the plugin was created *)
Definition text_before (s : scenario) (k : nat) : list stmt :=
  flat_text (firstn k (s_tests s)) ++ t_before (nth k (s_tests s) no_test).

Lemma between_before_pre s k : valid s = true -> exists a, Between (s_pre s) (world_before_pre s k) (text_before s k) a.
Proof.
  intros HV. apply valid_trace_of in HV. rewrite trace_text in HV.
  rewrite <- (firstn_skipn k (s_tests s)) in HV. unfold flat_text in HV. rewrite flat_map_app, <- app_assoc in HV.
  destruct (between_init _ _ HV) as (a0 & HB0 & HV0).
  destruct (all_tests _ (firstn k (s_tests s)) _ [] _ _ HB0 HV0) as (a1 & HB1 & HV1 & _).
  cbn [app] in *. unfold world_before_pre, text_before.
  destruct (Nat.lt_ge_cases k (length (s_tests s))) as [Hk|Hk].
  - rewrite (skipn_nth no_test k _ Hk) in HV1. cbn [flat_map] in HV1. unfold text_of at 1 in HV1. rewrite <- !app_assoc in HV1.
    destruct (outside_ops _ _ _ _ _ _ HB1 HV1) as (a2 & HB2 & _). eauto.
  - rewrite (nth_overflow _ _ Hk). cbn [t_before no_test fold_left]. rewrite app_nil_r.
    destruct (fst (run_tests _ (firstn k (s_tests s)))) eqn:Ew. unfold with_det. cbn. eauto.
Qed.

(* the table holds exactly the records the text defines: one per block obtained and not released so far; those obtained
   since the plugin exists are stamped `enabled`, the older ones `disabled` *)
Lemma table_is_text s k : valid s = true ->
  let d := w_det (world_before_pre s k) in
  Inv (d_tbl d) /\ Permutation (flat (d_tbl d)) (pure_recs (s_pre s) (text_before s k)) /\
  d_seq d = 1 + allocs (s_pre s) + allocs (text_before s k).
Proof.
  intros HV d. destruct (between_before_pre s k HV) as (a & [HR Hrecs Hp Hs Hq Hi He Hx]). fold d in HR.
  destruct HR as (HI & HP & _ & _ & E). rewrite <- Hrecs, <- Hq. auto.
Qed.

Lemma inv_no_checking_between_tests s k : valid s = true ->
  let w := world_before_pre s k in
  Forall (fun n => n_period n <> SChecking) (flat (d_tbl (w_det w))) /\
  d_period (w_det w) = SEnabled /\ t_total PChecking (d_tbl (w_det w)) = 0.
Proof.
  intros HV w. destruct (between_before_pre s k HV) as (a & [HR Hrecs Hp Hs Hq Hi He Hx]). fold w in HR.
  pose proof HR as (HI & HP & E1 & _).
  assert (HF : Forall (fun n => n_period n <> SChecking) (flat (d_tbl (w_det w)))).
  { apply Forall_forall. intros n Hn. eapply pure_not_checking. rewrite <- Hrecs. eapply Permutation_in; eassumption. }
  split; [assumption|]. split; [congruence|].
  rewrite total_flat. rewrite filter_none; [reflexivity|].
  intros n Hn. rewrite in_period_applies. apply not_checking_applies. exact (proj1 (Forall_forall _ _) HF n Hn).
Qed.

Lemma flags_reset s k : valid s = true ->
  let w := world_before_pre s k in w_ignore w = false /\ w_expected w = 0 /\ w_err w = false.
Proof. intros HV w. destruct (between_before_pre s k HV) as (a & [HR Hrecs Hp Hs Hq Hi He Hx]). auto. Qed.

Lemma final_report_exact s : valid s = true -> final_good s (run s).
Proof. intros HV. apply (run_good s HV). Qed.

(* ------------------------------------------------------------------ the hypotheses are satisfiable: a program with every ingredient *)
Definition example_s : scenario := mkS
  [SAlloc 20 5 0; SAlloc 21 5 2]                                         (* before the plugin exists: ordinals 1, 2 *)
  [ mkT [] [] [SAlloc 1 4 0] [SAlloc 2 8 1; SFree 1; SFree 20] [] [];    (* block 2 outlives the test: leak failure *)
    mkT [SAlloc 9 1 2] [] [] [SFree 2; SAlloc 3 1 0; SExpect 1] [] [];   (* releases the earlier block, leaks one, declared one: passes *)
    mkT [] [] [SAlloc 4 1 0; SFail; SFree 4] [SAlloc 5 1 0] [SIgnore] []; (* fails in setup: body skipped, no leak failure although 4 stays *)
    mkT [] [] [] [SAlloc 1 2 0; SIgnore] [SExpect 7] [];                 (* address 1 reused; asked to ignore *)
    mkT [] [] [] [SExpect 2; SAlloc 6 0 1] [] [];                        (* one leak, two declared: leak failure *)
    mkT [] [SAlloc 7 1 0] [] [] [] [SFree 7];                            (* a plugin's pre-action allocates, its post-action releases: clean *)
    mkT [] [] [] [SAlloc 8 1 0] [] [SFail; SFail];                       (* the inner plugin reports failures: no leak failure on top *)
    mkT [] [] [] [SRealloc 9 3; SRealloc 21 6; SRealloc 10 2; SFree 10] [] [] ]   (* an outside block, a pre-plugin block and NULL reallocated *)
  [SFree 9] 0.
Example example_valid : valid example_s = true.
Proof. vm_compute. reflexivity. Qed.
Example example_run :
  map ti_leak (o_tests (run example_s)) = [1; 0; 0; 0; 1; 0; 0; 1] /\ map ti_fail (o_tests (run example_s)) = [1; 0; 1; 0; 1; 0; 2; 1] /\
  map ti_entries (o_tests (run example_s)) = [[(4, 8)]; []; []; []; [(9, 0)]; []; []; [(12, 3); (13, 6)]] /\
  o_empty (run example_s) = false /\ o_total (run example_s) = 6.
Proof. vm_compute. repeat split; reflexivity. Qed.
Example example_before_pre : world_before_pre example_s 1 <> w_start d_init.
Proof. vm_compute. discriminate. Qed.
