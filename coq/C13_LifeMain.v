(* C13 -- the oracle theorem for the scenario language of the check (C13_Life.v): for every valid scenario the model's
   observation satisfies the model-free spec, and is never an error value. *)
From Coq Require Import NArith ZArith Bool List Lia ZifyBool.
From CppUVerif Require Import lib.Str C13_Text C13_Alloc C13_Model C13_Proofs C13_Main C13_Pool C13_PoolProofs C13_Life C13_LifeProofs
                              C13_LifeProofs2 C13_LifeSplit C13_Loose C13_Chain C13_Coll.
Import ListNotations.
Local Open Scope N_scope.

Lemma eval_expected_scn s : valid_scn s = true -> eval_scn s = expected_scn s.
Proof.
  destruct s; intro V.
  - apply eval_expected. exact V.
  - apply eval_repeat. exact V.
  - apply eval_pad. exact V.
  - apply eval_seq. exact V.
  - cbn [valid_scn] in V. split_valid V. destruct (chr_ok _ V0) as [Z _]. cbn [eval_scn expected_scn].
    apply split_ok; [apply nonul_NN; exact V | exact Z].
  - cbn [valid_scn] in V. split_valid V. cbn [eval_scn expected_scn]. apply fromTill_ok; [apply nonul_NN; exact V | lia].
  - cbn [valid_scn] in V. split_valid V. cbn [eval_scn expected_scn]. rewrite masked_ok by lia. reflexivity.
  - cbn [valid_scn] in V. cbn [eval_scn expected_scn]. rewrite binary_ok; [reflexivity|].
    unfold isbyte in V. rewrite forallb_forall in V. apply Forall_forall. intros c Hc. specialize (V c Hc). lia.
  - apply eval_coll. exact V.
Qed.
Lemma scn_meets_spec s : valid_scn s = true -> spec_scn s (run_scn s) = true.
Proof.
  intro V. unfold spec_scn, run_scn. cbn [o_val o_ref o_paired]. rewrite (eval_expected_scn s V), pairing_scn_ok.
  rewrite oval_eqb_refl by apply expected_scn_ok. reflexivity.
Qed.
Lemma scn_safe s : valid_scn s = true -> o_val (run_scn s) <> VErr.
Proof. intro V. cbn. rewrite (eval_expected_scn s V). apply expected_scn_ok. Qed.
Example ex_split : run_scn (SSplit [97;44;44;98] 44) = {| o_val := VL [[97;44]; [44]; [98]]; o_ref := true; o_paired := true |}.
Proof. vm_compute. reflexivity. Qed.
Example ex_fromtill : valid_scn (SFromTill [102;40;97;44;98;41] 40 44) = true /\ o_val (run_scn (SFromTill [102;40;97;44;98;41] 40 44)) = VB [40;97].
Proof. split; vm_compute; reflexivity. Qed.
Example ex_masked : o_val (run_scn (SMasked 165 240 1)) = VB [49;48;49;48;120;120;120;120].
Proof. vm_compute. reflexivity. Qed.
Example ex_binary : o_val (run_scn (SBinary [0;255;16])) = VB [48;48;32;70;70;32;49;48].
Proof. vm_compute. reflexivity. Qed.
