(* C07 -- per-test leak verdict and blame.
   Executable mirror of MemoryLeakWarningPlugin::preTestAction / postTestAction / FinalReport
   (src/CppUTest/MemoryLeakWarningPlugin.cpp) driving the allocation table of MemoryLeakDetector (the C04 model: hash table,
   period stamps, startChecking / stopChecking, totalMemoryLeaks, report, markCheckingPeriodLeaksAsNonCheckingPeriod), inside
   the control flow of Utest::run (setup / body / teardown, a failing check leaves its phase, a failed setup skips the body,
   teardown always runs) and of UtestShell::runOneTestInCurrentProcess (pre-actions, test, post-actions).
   `spec` is the property read off the PROGRAM TEXT (no table, no periods).  No proofs in this file. *)
From Coq Require Import NArith List Bool.
From CppUVerif Require Import gen.Gen_Common C04_Model.
Import ListNotations.
Local Open Scope N_scope.

(* ------------------------------------------------------------------ programs *)
Inductive stmt :=
| SAlloc (id size kind : N)     (* p[id] = new char[size] / operator new / cpputest_malloc (kind 0 new, 1 new [], 2 malloc) *)
| SFree (id : N)                (* release p[id] with the matching call; p[id] = NULL   (a NULL p[id]: nothing happens) *)
| SRealloc (id size : N)        (* p[id] = cpputest_realloc(p[id], size)   (a NULL p[id]: like malloc) *)
| SFail                         (* a failing check of the test itself: FAIL(...) *)
| SExpect (n : N)               (* EXPECT_N_LEAKS(n) *)
| SIgnore.                      (* IGNORE_ALL_LEAKS_IN_TEST() *)

Record ltest := mkT {
  t_before : list stmt;         (* allocations / releases made outside the test, before the leak plugin's preTestAction
                                   (the pre-action of a plugin installed AFTER the leak plugin): only SAlloc / SFree *)
  t_ipre : list stmt;           (* pre-action of a plugin installed BEFORE the leak plugin (MockSupportPlugin, ...): runs after
                                   the leak plugin's pre-action; SFail = result.addFailure(...), nothing is left early *)
  t_setup : list stmt; t_body : list stmt; t_teardown : list stmt;
  t_ipost : list stmt }.        (* post-action of that plugin: runs before the leak plugin's post-action *)

Record scenario := mkS {
  s_pre : list stmt;            (* before the plugin exists (the detector is still in period `disabled`): only SAlloc / SFree *)
  s_tests : list ltest;
  s_tail : list stmt;           (* after the last test, before FinalReport: only SAlloc / SFree *)
  s_tbd : N }.                  (* FinalReport(toBeDeletedLeaks) *)

(* ------------------------------------------------------------------ the machine *)
(* MemoryLeakWarningPlugin's members + TestResult::failureCount_ *)
Record world := mkW {
  w_det : det;                  (* memLeakDetector_ *)
  w_ignore : bool;              (* ignoreAllWarnings_ *)
  w_expected : N;               (* expectedLeaks_ *)
  w_fc0 : N;                    (* failureCount_ : result.getFailureCount() at preTestAction *)
  w_failures : N;               (* TestResult::failureCount_ *)
  w_err : bool }.               (* a table walk ran out of fuel: never happens (proved) *)

Definition with_det (w : world) (d : det) := mkW d (w_ignore w) (w_expected w) (w_fc0 w) (w_failures w) (w_err w).

(* MemoryLeakWarningPlugin::MemoryLeakWarningPlugin on detector d: flags cleared, memLeakDetector_->enable() *)
Definition w_start (d : det) : world := mkW (with_period d SEnabled) false 0 0 0 false.

(* allocMemory / deallocMemory through p[id]; block id lives at "address" id *)
Definition mem_stmt (d : det) (s : stmt) : det :=
  match s with
  | SAlloc id sz k => d_store d id sz k 0 0
  | SFree id => fst (d_dealloc d id)           (* p[id] == NULL (not outstanding): the table is left alone *)
  | SRealloc id sz => d_store (fst (d_dealloc d id)) id sz 2 0 0     (* reallocMemory: the old record is removed, the new block
                                                                        gets a new number and the CURRENT period *)
  | _ => d
  end.

(* one statement that returns normally *)
Definition exec_stmt (w : world) (s : stmt) : world :=
  match s with
  | SExpect n => mkW (w_det w) (w_ignore w) n (w_fc0 w) (w_failures w) (w_err w)          (* expectLeaksInTest *)
  | SIgnore => mkW (w_det w) true (w_expected w) (w_fc0 w) (w_failures w) (w_err w)       (* ignoreAllLeaksInTest *)
  | _ => with_det w (mem_stmt (w_det w) s)
  end.
(* UtestShell::failWith: result.addFailure, then the terminator leaves the phase *)
Definition add_failure (w : world) : world :=
  mkW (w_det w) (w_ignore w) (w_expected w) (w_fc0 w) (w_failures w + 1) (w_err w).

(* a statement of a plugin action: a failure is added to the result, the action goes on *)
Definition step (w : world) (s : stmt) : world := match s with SFail => add_failure w | _ => exec_stmt w s end.

(* PlatformSpecificSetJmp(helperDoTest<Phase>, this): true = the phase ran to its end *)
Fixpoint run_phase (w : world) (l : list stmt) : world * bool :=
  match l with
  | [] => (w, true)
  | SFail :: _ => (add_failure w, false)
  | s :: r => run_phase (exec_stmt w s) r
  end.
(* Utest::run *)
Definition run_body (w : world) (t : ltest) : world :=
  let (w1, ok) := run_phase w (t_setup t) in
  let w2 := if ok then fst (run_phase w1 (t_body t)) else w1 in
  fst (run_phase w2 (t_teardown t)).

(* preTestAction: memLeakDetector_->startChecking(); failureCount_ = result.getFailureCount() *)
Definition pre_action (w : world) : world :=
  mkW (with_period (w_det w) SChecking) (w_ignore w) (w_expected w) (w_failures w) (w_failures w) (w_err w).

(* postTestAction, as written.  Result: the new world, and Some nodes = a failure carrying report(mem_leak_period_checking) was added *)
Definition post_action (w : world) : world * option (list node) :=
  let d1 := with_period (w_det w) SEnabled in                                   (* stopChecking() *)
  let leaks := t_total PChecking (d_tbl d1) in                                  (* totalMemoryLeaks(mem_leak_period_checking) *)
  let fire := negb (w_ignore w) && negb (w_expected w =? leaks) && (w_fc0 w =? w_failures w) in
  let rep := if fire then d_report PChecking d1 else Some [] in                 (* TestFailure f(&test, report(...)) *)
  let fails := if fire then w_failures w + 1 else w_failures w in               (* result.addFailure(f) *)
  let d2 := d_mark d1 in                                                        (* markCheckingPeriodLeaksAsNonCheckingPeriod() *)
  let err := w_err w || match rep with None => true | _ => false end || match d2 with None => true | _ => false end in
  (mkW (match d2 with Some d => d | None => d1 end) false 0 (w_fc0 w) fails err,    (* ignoreAllWarnings_ = false; expectedLeaks_ = 0 *)
   if fire then Some (match rep with Some l => l | None => [] end) else None).

(* FinalReport(toBeDeletedLeaks): None = the empty string *)
Definition final_report (w : world) (tbd : N) : option (list node) * bool :=
  let leaks := t_total PEnabled (d_tbl (w_det w)) in
  if negb (leaks =? tbd) then
    match d_report PEnabled (w_det w) with Some l => (Some l, w_err w) | None => (Some [], true) end
  else (None, w_err w).

(* ------------------------------------------------------------------ observation *)
Definition entry2 := (N * N)%type.                  (* allocation ordinal ("Alloc num"), size *)
Definition ent (n : node) : entry2 := (n_number n, n_size n).
Definition is_nil {A} (l : list A) : bool := match l with [] => true | _ => false end.
Definition len {A} (l : list A) : N := N.of_nat (length l).

Record titem := mkTI {
  ti_fail : N;                  (* failures recorded for this test *)
  ti_leak : N;                  (* how many of them carry a leak report *)
  ti_noleaks : bool; ti_many : bool; ti_total : N; ti_entries : list entry2 }.   (* the parsed report (defaults when there is none) *)
Record obs := mkO {
  o_err : bool;
  o_tests : list titem;
  o_stray : N;                  (* failures charged to something that is not one of the tests *)
  o_empty : bool;               (* FinalReport returned "" *)
  o_noleaks : bool; o_many : bool; o_total : N; o_entries : list entry2 }.

(* UtestShell::runOneTestInCurrentProcess with the plugin chain [outer plugin; leak plugin; inner plugin]:
   runAllPreTestAction goes down the chain, runAllPostTestAction comes back up *)
Definition run_one (w : world) (t : ltest) : world * titem :=
  let w0 := with_det w (fold_left mem_stmt (t_before t) (w_det w)) in           (* outer plugin's pre-action *)
  let w1 := pre_action w0 in
  let w2 := fold_left step (t_ipost t) (run_body (fold_left step (t_ipre t) w1) t) in
  let (w3, rep) := post_action w2 in
  (w3, match rep with
       | Some l => mkTI (w_failures w3 - w_failures w0) 1 (is_nil l) false (len l) (map ent l)
       | None => mkTI (w_failures w3 - w_failures w0) 0 false false 0 []
       end).

Fixpoint run_tests (w : world) (ts : list ltest) : world * list titem :=
  match ts with
  | [] => (w, [])
  | t :: r => let (w1, i) := run_one w t in let (w2, is) := run_tests w1 r in (w2, i :: is)
  end.

Definition run (s : scenario) : obs :=
  let (w, items) := run_tests (w_start (fold_left mem_stmt (s_pre s) d_init)) (s_tests s) in
  let w' := with_det w (fold_left mem_stmt (s_tail s) (w_det w)) in
  match final_report w' (s_tbd s) with
  | (Some l, e) => mkO e items 0 false (is_nil l) false (len l) (map ent l)
  | (None, e) => mkO e items 0 true false false 0 []
  end.

(* ------------------------------------------------------------------ the property, read off the program text *)
Definition is_fail (s : stmt) : bool := match s with SFail => true | _ => false end.
Definition is_ignore (s : stmt) : bool := match s with SIgnore => true | _ => false end.
(* a reallocation is a release followed by an allocation *)
Definition is_alloc (s : stmt) : bool := match s with SAlloc _ _ _ | SRealloc _ _ => true | _ => false end.
Definition frees (id : N) (s : stmt) : bool := match s with SFree j | SRealloc j _ => j =? id | _ => false end.

(* the statements of a phase that are executed: up to and including the first failing check *)
Fixpoint upto_fail (l : list stmt) : list stmt * bool :=
  match l with
  | [] => ([], false)
  | SFail :: _ => ([SFail], true)
  | s :: r => let (e, f) := upto_fail r in (s :: e, f)
  end.
(* the statements of setup / body / teardown that are executed *)
Definition phase_text (t : ltest) : list stmt :=
  let (a, fa) := upto_fail (t_setup t) in
  let b := if fa then [] else fst (upto_fail (t_body t)) in
  a ++ b ++ fst (upto_fail (t_teardown t)).
(* everything executed between the leak plugin's pre-action and its post-action: "the test" *)
Definition executed (t : ltest) : list stmt := t_ipre t ++ phase_text t ++ t_ipost t.

Definition own_failures (ex : list stmt) : N := len (filter is_fail ex).
Definition asked_ignore (ex : list stmt) : bool := existsb is_ignore ex.
(* the number declared last, default zero *)
Definition declared (ex : list stmt) : N := fold_left (fun e s => match s with SExpect n => n | _ => e end) ex 0.
Definition allocs (l : list stmt) : N := len (filter is_alloc l).

(* blocks allocated in l (the k-th allocation of the program has ordinal k, `base` = ordinal of the next one) and not
   released later in l *)
Fixpoint leaked (base : N) (l : list stmt) : list entry2 :=
  match l with
  | [] => []
  | SAlloc id sz _ :: r | SRealloc id sz :: r =>
      if existsb (frees id) r then leaked (base + 1) r else (base, sz) :: leaked (base + 1) r
  | _ :: r => leaked base r
  end.

Definition pair_eqb (x y : entry2) : bool := (fst x =? fst y) && (snd x =? snd y).
Definition mem_p (x : entry2) (l : list entry2) : bool := existsb (pair_eqb x) l.
Definition subset_p (l m : list entry2) : bool := forallb (fun x => mem_p x m) l.
Fixpoint nodup_p (l : list entry2) : bool := match l with [] => true | x :: r => negb (mem_p x r) && nodup_p r end.

(* a parsed report against the blocks it has to list; `many` = the text was cut short by the 4096-byte buffer (C14):
   then only "nothing foreign, nothing twice, right total" can be demanded *)
Definition check_report (want : list entry2) (noleaks many : bool) (total : N) (ents : list entry2) : bool :=
  Bool.eqb noleaks (is_nil want) && (total =? len want) &&
  (if many then subset_p ents want && nodup_p ents
   else subset_p ents want && subset_p want ents && Nat.eqb (length ents) (length want)).

Definition verdict (ex : list stmt) (L : list entry2) : bool :=
  (own_failures ex =? 0) && negb (asked_ignore ex) && negb (len L =? declared ex).

Definition check_test (base : N) (t : ltest) (o : titem) : bool :=
  let ex := executed t in
  let L := leaked base ex in
  if verdict ex L then
    (ti_leak o =? 1) && (ti_fail o =? 1) && check_report L (ti_noleaks o) (ti_many o) (ti_total o) (ti_entries o)
  else
    (ti_leak o =? 0) && (ti_fail o =? own_failures ex) &&
    negb (ti_noleaks o) && negb (ti_many o) && (ti_total o =? 0) && is_nil (ti_entries o).

Fixpoint spec_tests (base : N) (ts : list ltest) (os : list titem) : bool :=
  match ts, os with
  | [], [] => true
  | t :: ts', o :: os' =>
      let b1 := base + allocs (t_before t) in
      check_test b1 t o && spec_tests (b1 + allocs (executed t)) ts' os'
  | _, _ => false
  end.

(* everything the program executes, in order *)
Definition trace (s : scenario) : list stmt :=
  flat_map (fun t => t_before t ++ executed t) (s_tests s) ++ s_tail s.

(* blocks obtained before the plugin existed are not the plugin's business: never charged, never in the final report *)
Definition spec (s : scenario) (o : obs) : bool :=
  let b0 := 1 + allocs (s_pre s) in
  let out := leaked b0 (trace s) in
  negb (o_err o) && (o_stray o =? 0) &&
  spec_tests b0 (s_tests s) (o_tests o) &&
  Bool.eqb (o_empty o) (len out =? s_tbd s) &&
  (if o_empty o then negb (o_noleaks o) && negb (o_many o) && (o_total o =? 0) && is_nil (o_entries o)
   else check_report out (o_noleaks o) (o_many o) (o_total o) (o_entries o)).

(* ------------------------------------------------------------------ which programs the property speaks about *)
(* the underlying allocator never hands out a block that is still in use: p[id] is NULL when it is assigned
   (otherwise the program would lose the pointer and could never name the block again) *)
Fixpoint valid_trace (live : list N) (l : list stmt) : bool :=
  match l with
  | [] => true
  | SAlloc id sz k :: r => negb (existsb (N.eqb id) live) && (id <? 4096) && (sz <=? 64) && (k <? 3) && valid_trace (id :: live) r
  | SFree id :: r => valid_trace (filter (fun j => negb (j =? id)) live) r
  | SRealloc id sz :: r => (id <? 4096) && (sz <=? 64) && valid_trace (id :: filter (fun j => negb (j =? id)) live) r
  | SExpect n :: r => (n <? 4294967296) && valid_trace live r
  | _ :: r => valid_trace live r
  end.
Definition mem_only (l : list stmt) : bool :=
  forallb (fun s => match s with SAlloc _ _ _ | SFree _ | SRealloc _ _ => true | _ => false end) l.
(* cpputest_realloc is given blocks of the malloc family only (anything else is a mismatch, C06) *)
Fixpoint kinds_ok (live : list (N * N)) (l : list stmt) : bool :=
  match l with
  | [] => true
  | SAlloc id _ k :: r => kinds_ok ((id, k) :: filter (fun x => negb (fst x =? id)) live) r
  | SFree id :: r => kinds_ok (filter (fun x => negb (fst x =? id)) live) r
  | SRealloc id _ :: r => forallb (fun x => negb (fst x =? id) || (snd x =? 2)) live &&
                          kinds_ok ((id, 2) :: filter (fun x => negb (fst x =? id)) live) r
  | _ :: r => kinds_ok live r
  end.
Definition valid (s : scenario) : bool :=
  forallb (fun t => mem_only (t_before t)) (s_tests s) && mem_only (s_tail s) && mem_only (s_pre s) &&
  (s_tbd s <? 4294967296) && kinds_ok [] (s_pre s ++ trace s) && valid_trace [] (s_pre s ++ trace s).
