(* C12 -- SEQUENCES of argument vectors handed to the static entry point CommandLineTestRunner::RunAllTests(ac, av) (the function
   behind RUN_ALL_TESTS / CPPUTEST_DEFAULT_MAIN; src/CppUTest/CommandLineTestRunner.cpp:35-60) in ONE process on the current
   registry.  What persists between two calls is state of the model: the plugin chain of the registry (the runner installs its
   MemoryLeakPlugin in RunAllTests and its SetPointerPlugin in runAllTestsMain, offers every -p<x> argument to the whole chain, and
   removes both by name afterwards) and the registry itself (order of the tests after -b, the sticky run-ignored / separate-process
   switches; registry of C12_Apply.v).  One call = install, install, parse with the chain as it is NOW, run on the registry as it
   is NOW, remove, remove.  Then the scenario / observation / run / spec of the property over both scenario kinds (one vector as
   before; a sequence).  No proofs in this file. *)
From Coq Require Import String Ascii.
From Coq Require Import NArith ZArith Bool List.
From CppUVerif Require Import gen.Gen_C12 lib.Str C12_Model C12_Apply.
Import ListNotations.
Local Open Scope N_scope.

(* ---------------------------------------------------------------- plugins and the chain *)
(* name: 0 "MemoryLeakPlugin" (DEF_PLUGIN_MEM_LEAK), 1 "SetPointerPlugin" (DEF_PLUGIN_SET_POINTER), other numbers: other names;
   kind: what parseArguments takes -- 1: arguments starting with -pok, 2: arguments starting with -px, else nothing;
   tag: identity seen by the observer -- 0 for an object of the runner, position + 1 for a plugin of the user *)
Record plugin := { pl_name : N; pl_kind : N; pl_tag : N }.
Definition NAME_MEM_LEAK : N := 0.
Definition NAME_SET_POINTER : N := 1.
Definition mem_leak_plugin : plugin := {| pl_name := NAME_MEM_LEAK; pl_kind := 0; pl_tag := 0 |}.
Definition set_pointer_plugin : plugin := {| pl_name := NAME_SET_POINTER; pl_kind := 0; pl_tag := 0 |}.
Definition kind_takes (k : N) (a : bytes) : bool :=
  if k =? 1 then is_prefix (B "-pok") a else if k =? 2 then is_prefix (B "-px") a else false.
Definition plugin_takes (p : plugin) (a : bytes) : bool := kind_takes (pl_kind p) a.
(* TestPlugin::parseAllArguments: if (parseArguments(..)) return true; if (next_) return next_->parseAllArguments(..); return false; *)
Definition chain_takes (ch : list plugin) (a : bytes) : bool := existsb (fun p => plugin_takes p a) ch.
(* TestRegistry::installPlugin: firstPlugin_ = plugin->addPlugin(firstPlugin_) *)
Definition install_plugin (p : plugin) (ch : list plugin) : list plugin := p :: ch.
(* TestRegistry::removePluginByName: every plugin of that name leaves the chain *)
Definition remove_plugin_by_name (n : N) (ch : list plugin) : list plugin := List.filter (fun p => negb (pl_name p =? n)) ch.

(* ---------------------------------------------------------------- parse() with the chain it is handed *)
(* the branch `else if (argument.startsWith("-p")) correctParameters = plugin->parseAllArguments(ac_, av_, i)` asks the chain;
   every other branch is C12_Model.action *)
Definition plugin_rule (a : bytes) : bool :=
  match first_match c12_dispatch a with Some (k, lit) => key k lit MPrefix (B "-p") | None => false end.
Definition handle_p (takes : bytes -> bool) (tm : N) (c : config) (a : bytes) (next : option bytes) : hres :=
  if plugin_rule a then (if takes a then HOk c false else HReject false) else handle tm c a next.
Fixpoint parse_args_p (takes : bytes -> bool) (tm : N) (c : config) (args : list bytes) : result :=
  match args with
  | [] => Accept c
  | a :: rest =>
    match handle_p takes tm c a (hd_error rest) with
    | HReject h => Reject h
    | HUnknown => Unknown
    | HOk c' false => parse_args_p takes tm c' rest
    | HOk c' true => match rest with [] => Accept c' | _ :: rest' => parse_args_p takes tm c' rest' end
    end
  end.
Definition parse_p (takes : bytes -> bool) (tm : N) (argv : list bytes) : result := parse_args_p takes tm default_config (tl argv).

(* ---------------------------------------------------------------- runAllTests on the registry as it is *)
(* C12_Apply.runner_run_all_tests with the registry a parameter and the registry it leaves behind a result *)
Definition run_on (c : config) (r0 : registry) : applied * registry :=
  let outs := initialize_outputs c (create_outputs c) in
  let r := initialize_registry c r0 in
  if c_listg c then (AApplied outs (list_group_names r) [], r)
  else if c_listn c then (AApplied outs (list_group_and_case_names r) [], r)
  else if c_listl c then (AApplied outs (list_locations r) [], r)
  else
    let r := if c_rev c then reverse_tests r else r in
    (AApplied outs [] (repeat_loop c (N.to_nat (c_repeat c)) r outs), r).
Definition reps_of (a : applied) : list rep_obs := match a with AApplied _ _ reps => reps | ASkipped => [] end.
Definition flat_ran (a : applied) : list N := concat (map r_ran (reps_of a)).
Definition srand_calls (a : applied) : N := N.of_nat (length (concat (map r_seeds (reps_of a)))).
(* the value runAllTests returns is non-zero: a failing test ran, or a repetition ran and ignored nothing (TestResult::isFailure) *)
Definition rep_failed (mask : N) (r : rep_obs) : bool := existsb (N.testbit mask) (r_ran r) || is_nil (r_started r).
Definition result_nonzero (mask : N) (a : applied) : bool := existsb (rep_failed mask) (reps_of a).

(* ---------------------------------------------------------------- one call of RunAllTests(ac, av) *)
Record sstate := { st_plugins : list plugin; st_reg : registry }.
(* what is seen of one call: what the console got of usage / help (PNothing: neither), how often srand was called, the probe tests
   whose body ran (in order, all repetitions), the tags of the plugin chain after the call returned.
   CBig: the vector asks for more than REP_CAP repetitions and is not handed to the runner (the harness parses it beforehand) *)
Inductive call_obs := CBig | CCall (p : printed) (seeds : N) (ran : list N) (tags : list N).
Definition too_big (tm : N) (st : sstate) (argv : list bytes) : bool :=
  match parse_p (chain_takes (st_plugins st)) tm argv with Accept c => REP_CAP <? c_repeat c | _ => false end.
(* int RunAllTests(ac, av) { MemoryLeakWarningPlugin memLeakWarn(DEF_PLUGIN_MEM_LEAK); current->installPlugin(&memLeakWarn);
     { CommandLineTestRunner runner(ac, av, current); result = runner.runAllTestsMain(); }
     if (result == 0) backupOutput << memLeakWarn.FinalReport(0);
     current->removePluginByName(DEF_PLUGIN_MEM_LEAK); return result; }
   int runAllTestsMain() { SetPointerPlugin pPlugin(DEF_PLUGIN_SET_POINTER); registry_->installPlugin(&pPlugin);
     if (parseArguments(registry_->getFirstPlugin())) testResult = runAllTests();
     registry_->removePluginByName(DEF_PLUGIN_SET_POINTER); return testResult; }
   early = true: the variant that returns before the last removePluginByName when the result is not 0 *)
Definition run_all_tests_static_gen (early : bool) (tm : N) (mask : N) (st : sstate) (argv : list bytes) : call_obs * sstate :=
  let ch1 := install_plugin mem_leak_plugin (st_plugins st) in
  let ch2 := install_plugin set_pointer_plugin ch1 in
  let res := parse_p (chain_takes ch2) tm argv in
  let '(p, seeds, ran, nonzero, reg') :=
    match res with
    | Reject h => (if h then PHelp else PUsage, 0, [], true, st_reg st)
    | Accept c => let (a, r') := run_on c (st_reg st) in (PNothing, srand_calls a, flat_ran a, result_nonzero mask a, r')
    | Unknown => (POther, 0, [], true, st_reg st)
    end in
  let ch3 := remove_plugin_by_name NAME_SET_POINTER ch2 in
  let ch4 := if early && nonzero then ch3 else remove_plugin_by_name NAME_MEM_LEAK ch3 in
  (CCall p seeds ran (map pl_tag ch4), {| st_plugins := ch4; st_reg := reg' |}).
Definition one_call_gen (early : bool) (tm mask : N) (st : sstate) (argv : list bytes) : call_obs * sstate :=
  if too_big tm st argv then (CBig, st) else run_all_tests_static_gen early tm mask st argv.
Definition one_call := one_call_gen false.
Fixpoint run_calls_gen (early : bool) (tm mask : N) (st : sstate) (vs : list (list bytes)) : list call_obs :=
  match vs with
  | [] => []
  | v :: r => let (o, st') := one_call_gen early tm mask st v in o :: run_calls_gen early tm mask st' r
  end.
Definition run_calls := run_calls_gen false.
Fixpoint end_state (tm mask : N) (st : sstate) (vs : list (list bytes)) : sstate :=
  match vs with [] => st | v :: r => end_state tm mask (snd (one_call tm mask st v)) r end.

(* the user's plugins, head of the chain first: (name, kind); tags 1, 2, ... *)
Fixpoint user_plugins_from (i : N) (ps : list (N * N)) : list plugin :=
  match ps with [] => [] | (n, k) :: r => {| pl_name := n; pl_kind := k; pl_tag := i |} :: user_plugins_from (i + 1) r end.
Definition user_plugins (ps : list (N * N)) : list plugin := user_plugins_from 1 ps.
Definition initial_state (ps : list (N * N)) : sstate := {| st_plugins := user_plugins ps; st_reg := registry0 |}.

(* ---------------------------------------------------------------- scenarios and observations of the property *)
Inductive scenario :=
| SVector (tm : N) (argv : list bytes) (opts : list doc_opt)
| SSequence (tm : N) (plugins : list (N * N)) (mask : N) (calls : list (list bytes * list doc_opt)).
Inductive finish := FEnd | FHang | FDied.         (* every call came back | one did not | the process died *)
Inductive yobs := YVector (x : xobs) | YSequence (calls : list call_obs) (fin : finish).
Definition yrun (s : scenario) : yobs :=
  match s with
  | SVector tm argv _ => YVector (xrun tm argv)
  | SSequence tm ps mask calls => YSequence (run_calls tm mask (initial_state ps) (map fst calls)) FEnd
  end.

(* ---------------------------------------------------------------- spec of a sequence (model-free: reads the scenario and the observation) *)
Definition runner_name (n : N) : bool := (n =? NAME_MEM_LEAK) || (n =? NAME_SET_POINTER).
(* a plugin of the user that carries one of the two names the runner removes by: not the runner's business to keep it *)
Definition name_clash (ps : list (N * N)) : bool := existsb (fun p => runner_name (fst p)) ps.
Fixpoint tags_from (i : N) (n : nat) : list N := match n with O => [] | S n' => i :: tags_from (i + 1) n' end.
Definition initial_tags (ps : list (N * N)) : list N := tags_from 1 (length ps).
(* the call left the registry as it found it: nothing of the runner is installed any more, the user's plugins are all there in their order *)
Definition registry_restored (ps : list (N * N)) (tags : list N) : bool :=
  forallb (fun t => negb (t =? 0)) tags && (name_clash ps || nlist_eqb tags (initial_tags ps)).
(* a rejected vector: exactly usage or help was printed, no test ran *)
Definition reject_clean (o : call_obs) : bool :=
  match o with
  | CBig => true
  | CCall PNothing _ _ _ => true
  | CCall POther _ _ _ => false
  | CCall _ seeds ran _ => (seeds =? 0) && is_nil ran
  end.
Fixpoint times {A} (n : nat) (l : list A) : list A := match n with O => [] | S n' => l ++ times n' l end.
Definition not_ignored (i : N) : bool := negb (ignored_id i).
(* the tests an accepted configuration asks for ran, as often as it asks; which of the IGNORE_TESTs run is only fixed when the
   vector itself says -ri (the registry's run-ignored switch stays on once set: not this property's business) *)
Definition ran_documented (c : config) (ran : list N) : bool :=
  if list_mode c then is_nil ran
  else is_perm (List.filter not_ignored ran) (times (N.to_nat (c_repeat c)) (List.filter not_ignored (natural c))) &&
       (negb (c_runign c) || is_perm ran (times (N.to_nat (c_repeat c)) (natural c))).
(* a vector that spells documented options is accepted / rejected as documented, whatever was called before *)
Definition call_documented (tm : N) (argv : list bytes) (opts : list doc_opt) (o : call_obs) : bool :=
  if spells argv opts then
    match sem tm opts with
    | Reject h => match o with CCall p _ _ _ => printed_eqb p (if h then PHelp else PUsage) | CBig => false end
    | Accept c =>
        if REP_CAP <? c_repeat c then match o with CBig => true | _ => false end
        else match o with CCall PNothing _ ran _ => ran_documented c ran | _ => false end
    | Unknown => false
    end
  else true.
(* a vector that is one plugin option -p<x>: accepted exactly when one of the user's plugins takes it *)
Definition plugin_option (argv : list bytes) : option bytes :=
  match argv with [_; a] => if is_prefix (B "-p") a && Nat.ltb 2 (length a) then Some a else None | _ => None end.
Definition call_plugin_option (ps : list (N * N)) (argv : list bytes) (o : call_obs) : bool :=
  match plugin_option argv with
  | Some a => name_clash ps ||
              match o with
              | CCall p _ _ _ => printed_eqb p (if existsb (fun q => kind_takes (snd q) a) ps then PNothing else PUsage)
              | CBig => false
              end
  | None => true
  end.
(* help is printed only for a vector that has the argument -h (whatever an earlier vector asked for) *)
Definition help_asked (argv : list bytes) (o : call_obs) : bool :=
  match o with CCall PHelp _ _ _ => existsb (bytes_eqb (B "-h")) (tl argv) | _ => true end.
Definition call_ok (tm : N) (ps : list (N * N)) (v : list bytes * list doc_opt) (o : call_obs) : bool :=
  reject_clean o && help_asked (fst v) o && call_documented tm (fst v) (snd v) o && call_plugin_option ps (fst v) o &&
  match o with CBig => true | CCall _ _ _ tags => registry_restored ps tags end.
(* the same vector later in the sequence: the same outcome *)
Definition same_outcome (a b : call_obs) : bool :=
  match a, b with
  | CBig, CBig => true
  | CCall p _ ran _, CCall p' _ ran' _ => printed_eqb p p' && is_perm (List.filter not_ignored ran) (List.filter not_ignored ran')
  | _, _ => false
  end.
Fixpoint consistent (l : list (list bytes * call_obs)) : bool :=
  match l with
  | [] => true
  | (v, o) :: r => forallb (fun w => negb (list_eqb bytes_eqb v (fst w)) || same_outcome o (snd w)) r && consistent r
  end.
Fixpoint zip {X Y} (a : list X) (b : list Y) : list (X * Y) :=
  match a, b with x :: a', y :: b' => (x, y) :: zip a' b' | _, _ => [] end.
Definition seq_spec (tm : N) (ps : list (N * N)) (calls : list (list bytes * list doc_opt)) (obs : list call_obs) (fin : finish) : bool :=
  match fin with FEnd => true | _ => false end &&                     (* every call terminated *)
  Nat.eqb (length obs) (length calls) &&
  forallb (fun vo => call_ok tm ps (fst vo) (snd vo)) (zip calls obs) &&
  (name_clash ps || consistent (zip (map fst calls) obs)).
Definition yspec (s : scenario) (o : yobs) : bool :=
  match s, o with
  | SVector tm argv opts, YVector x => xspec tm argv opts x
  | SSequence tm ps _ calls, YSequence obs fin => seq_spec tm ps calls obs fin
  | _, _ => false
  end.
Definition yvalid (s : scenario) : bool :=
  match s with
  | SVector tm argv _ => valid tm argv
  | SSequence tm ps mask calls => forallb (fun v => valid tm (fst v)) calls && (tm <? 18446744073709551616)
  end.
