(* C06 -- memory misuse is reported exactly.
   Executable mirror of the release paths of the leak detector:
     src/CppUTest/MemoryLeakDetector.cpp   deallocMemory, reallocMemory, checkForCorruption, matchingAllocation,
                                           validMemoryCorruptionInformation, addMemoryCorruptionInformation, invalidateMemory
     src/CppUTest/TestMemoryAllocator.cpp  actualAllocator, isOfEqualType (name compared with StrCmp)
     src/CppUTest/MemoryLeakWarningPlugin.cpp  operator delete / delete[] / free: invalidateMemory, then deallocMemory
   on top of the allocation table of C04 (hash buckets, head insertion, prev/cur unlink) and a byte memory.
   Then the model-free oracle `spec`, which is the property text over the observation.  No proofs in this file. *)
From Coq Require Import NArith List Bool Arith.
From CppUVerif Require Import gen.Gen_Common gen.Gen_C06 lib.Str C04_Model.
Import ListNotations.
Local Open Scope N_scope.

(* ------------------------------------------------------------------ constants (regenerated from the source on every run) *)
Definition G : nat := N.to_nat mem_corruption_buffer_size.            (* memory_corruption_buffer_size *)
Definition pat (i : nat) : N := nth (Nat.modulo i (length c06_guard_bytes)) c06_guard_bytes 0.   (* GuardBytes[i % sizeof(GuardBytes)] *)
Definition pattern : list N := map pat (seq 0 G).
Definition poison : N := c06_poison.

(* ------------------------------------------------------------------ memory: the writes made so far, latest first *)
Definition memory := list (N * list N).
Definition in_seg (b : N) (bs : list N) (a : N) : bool := (b <=? a) && (a <? b + N.of_nat (length bs)).
Fixpoint mread (m : memory) (a : N) : N :=
  match m with
  | [] => 0
  | (b, bs) :: r => if in_seg b bs a then nth (N.to_nat (a - b)) bs 0 else mread r a
  end.
Definition mwrite (m : memory) (b : N) (bs : list N) : memory := (b, bs) :: m.
Definition mrange (m : memory) (a : N) (n : nat) : list N := map (fun i => mread m (a + N.of_nat i)) (seq 0 n).

(* ------------------------------------------------------------------ allocator objects *)
(* object identity = index in the list.  APlain: a TestMemoryAllocator constructed with that name (actualAllocator() = this);
   AWrap false j: AccountingTestMemoryAllocator around object j; AWrap true j: MemoryLeakAllocator around object j
   (actualAllocator() = originalAllocator_->actualAllocator() for both) *)
Inductive adesc := APlain (name : list N) | AWrap (mla : bool) (inner : nat).

Fixpoint actual (ds : list adesc) (fuel : nat) (i : nat) : nat :=
  match fuel with
  | O => i
  | S f => match nth_error ds i with Some (AWrap _ j) => actual ds f j | _ => i end
  end.
Definition actual_of (ds : list adesc) (i : nat) : nat := actual ds (length ds) i.
Definition name_mla : list N := [77;101;109;111;114;121;76;101;97;107;65;108;108;111;99;97;116;111;114].   (* "MemoryLeakAllocator" *)
Definition name_generic : list N := [103;101;110;101;114;105;99].                                            (* "generic" *)
Definition name_of (ds : list adesc) (i : nat) : list N :=
  match nth_error ds i with
  | Some (APlain n) => n
  | Some (AWrap true _) => name_mla
  | Some (AWrap false _) => name_generic
  | None => []
  end.
(* free_allocator->isOfEqualType(alloc_allocator): StrCmp(this->name(), allocator->name()) == 0 *)
Definition equal_type (ds : list adesc) (f a : nat) : bool :=
  match str_cmp (name_of ds f) (name_of ds a) with Eq => true | _ => false end.

(* ------------------------------------------------------------------ detector *)
Inductive cat := CNone | CNonAlloc | CMismatch | CCorrupt.
Definition cat_eqb (x y : cat) : bool :=
  match x, y with CNone, CNone | CNonAlloc, CNonAlloc | CMismatch, CMismatch | CCorrupt, CCorrupt => true | _, _ => false end.
Definition cat_code (c : cat) : N := match c with CNone => 0 | CNonAlloc => 1 | CMismatch => 2 | CCorrupt => 3 end.

(* s_period = current_period_, s_stage = current_allocation_stage_: what the detector is in when an operation arrives.
   Neither is read on any release path; both are stamped into the record at allocation (node->period_, allocation_stage_). *)
Record dstate := mkD { s_tbl : table; s_tc : bool; s_mem : memory; s_period : stamp; s_stage : N }.
(* the constructor: type checking on, period disabled, stage 0 *)
Definition d_init : dstate := mkD empty_table true [] SDisabled 0.
Definition with_tbl (st : dstate) (t : table) : dstate := mkD t (s_tc st) (s_mem st) (s_period st) (s_stage st).
Definition with_mem (st : dstate) (m : memory) : dstate := mkD (s_tbl st) (s_tc st) m (s_period st) (s_stage st).
Definition with_tc (st : dstate) (b : bool) : dstate := mkD (s_tbl st) b (s_mem st) (s_period st) (s_stage st).
Definition with_period (st : dstate) (p : stamp) : dstate := mkD (s_tbl st) (s_tc st) (s_mem st) p (s_stage st).
Definition with_stage (st : dstate) (g : N) : dstate := mkD (s_tbl st) (s_tc st) (s_mem st) (s_period st) g.

(* enable / disable / startChecking / stopChecking: each one assigns current_period_ *)
Inductive pop := PDisable | PEnable | PStart | PStop.
Definition period_after (k : pop) : stamp :=
  match k with PDisable => SDisabled | PEnable => SEnabled | PStart => SChecking | PStop => SEnabled end.

(* n_kind holds the allocator object (index) the block was allocated with; period and stage are the detector's at that moment *)
Definition mk_node (a size : N) (al : nat) (per : stamp) (stg : N) : node := mkNode a size 0 0 0 (N.of_nat al) per stg.
Definition node_alloc (n : node) : nat := N.to_nat (n_kind n).

(* storeLeakInformation: node->init(.. current_period_, current_allocation_stage_ ..), addMemoryCorruptionInformation(memory + size),
   addNewNode *)
Definition d_store (st : dstate) (a size : N) (al : nat) : dstate :=
  with_mem (with_tbl st (t_add (mk_node a size al (s_period st) (s_stage st)) (s_tbl st))) (mwrite (s_mem st) (a + size) pattern).

(* validMemoryCorruptionInformation(memory): for i < size: if memory[i] != GuardBytes[i % 3] return false; return true *)
Definition valid_guard (m : memory) (p : N) : bool :=
  forallb (fun i => mread m (p + N.of_nat i) =? pat i) (seq 0 G).

(* matchingAllocation(alloc_allocator, free_allocator) *)
Definition matching (ds : list adesc) (tc : bool) (a f : nat) : bool :=
  if Nat.eqb a f then true else if negb tc then true else equal_type ds f a.

(* checkForCorruption: what is reported *)
Definition check (ds : list adesc) (st : dstate) (n : node) (al : nat) : cat :=
  if negb (matching ds (s_tc st) (actual_of ds (node_alloc n)) (actual_of ds al)) then CMismatch
  else if negb (valid_guard (s_mem st) (n_addr n + n_size n)) then CCorrupt
  else CNone.

(* invalidateMemory: retrieveNode, memset(memory, poison, node->size_) -- whatever the period or the stage *)
Definition d_invalidate (st : dstate) (p : option N) : dstate :=
  match p with
  | None => st
  | Some a => match t_retrieve a (s_tbl st) with
              | Some n => with_mem st (mwrite (s_mem st) a (repeat poison (N.to_nat (n_size n))))
              | None => st
              end
  end.

(* deallocMemory.  jump = the failure callback does not return (the plugin's reporter ends the test with a longjmp).
   Result: new state, reported category, blocks handed to allocator->free_memory as (address, size of the record). *)
Definition d_dealloc (ds : list adesc) (jump : bool) (st : dstate) (al : nat) (p : option N) : dstate * cat * list (N * N) :=
  match p with
  | None => (st, CNone, [])
  | Some a =>
      match t_remove a (s_tbl st) with
      | (None, _) => (st, CNonAlloc, [])
      | (Some n, t') =>
          let st' := with_tbl st t' in
          let c := check ds st' n al in
          match c with
          | CNone => (st', c, [(a, n_size n)])
          | _ => if jump then (st', c, []) else (st', c, [(a, n_size n)])
          end
      end
  end.

(* reallocMemory (the platform realloc succeeds and puts the block at na): new state, category, result non-NULL *)
Definition d_realloc (ds : list adesc) (jump : bool) (st : dstate) (al : nat) (p : option N) (na size : N) : dstate * cat * bool :=
  match p with
  | None => (d_store st na size al, CNone, true)
  | Some a =>
      match t_remove a (s_tbl st) with
      | (None, _) => (st, CNonAlloc, false)
      | (Some n, t') =>
          let st' := with_tbl st t' in
          let c := check ds st' n al in
          match c with
          | CNone => (d_store st' na size al, c, true)
          | _ => if jump then (st', c, false) else (d_store st' na size al, c, true)
          end
      end
  end.

(* ------------------------------------------------------------------ scenario *)
(* which library entry point: operator new/delete, operator new[]/delete[], cpputest_malloc/free/realloc,
   MemoryLeakAllocator::alloc_memory/free_memory called directly (the SimpleString path: no poisoning), or the detector's own
   allocMemory/deallocMemory called with an allocator object and the allocatNodesSeperately flag (record inline in the block or in a
   block of its own -- the flag only decides where the record lives and who frees it: no poisoning, nothing else) *)
Inductive entry := ENew | ENewArr | EMalloc | EString | EDirect (separate : bool).
(* operator delete, operator delete[] and free call invalidateMemory first; the other two do not *)
Definition poisons (e : entry) : bool := match e with ENew | ENewArr | EMalloc => true | _ => false end.

Inductive op :=
| OpAlloc (e : entry) (al : nat) (a size : N)          (* al = current allocator of that family / the MemoryLeakAllocator object *)
| OpFree (e : entry) (al : nat) (p : option N)         (* None = NULL *)
| OpRealloc (al : nat) (p : option N) (na size : N)    (* cpputest_realloc with current malloc allocator al *)
| OpWrite (a : N) (bytes : list N)                     (* the user program writes bytes at address a *)
| OpTypeCheck (on : bool)                              (* enable/disableAllocationTypeChecking *)
| OpPeriod (k : pop)                                   (* enable / disable / startChecking / stopChecking *)
| OpStage (up : bool)                                  (* increase/decreaseAllocationStage *)
| OpOverloads (threadsafe : bool).                     (* turnOn(ThreadSafe|DefaultNotThreadSafe)NewDeleteOverloads: same bodies behind the lock *)

Record scenario := mkS { sc_jump : bool; sc_allocs : list adesc; sc_ops : list op }.

(* the allocator object the detector is handed: MemoryLeakAllocator passes its originalAllocator_ *)
Definition det_alloc (ds : list adesc) (e : entry) (al : nat) : nat :=
  match e with
  | EString => match nth_error ds al with Some (AWrap true j) => j | _ => al end
  | _ => al
  end.

(* observation of one release: callbacks, category of the first, blocks returned to the allocator with the user bytes
   seen at that moment (None on the string path, where the property promises nothing), outstanding total afterwards,
   result non-NULL (realloc) *)
Record oitem := mkO { o_calls : N; o_cat : N; o_freed : list (N * option (list N)); o_total : N; o_res : bool }.

Definition seen (st : dstate) (hide : bool) (fr : list (N * N)) : list (N * option (list N)) :=
  map (fun x => (fst x, if hide then None else Some (mrange (s_mem st) (fst x) (N.to_nat (snd x))))) fr.
Definition calls_of (c : cat) : N := match c with CNone => 0 | _ => 1 end.
Definition total_of (st : dstate) : N := t_total PAll (s_tbl st).

Definition step (ds : list adesc) (jump : bool) (st : dstate) (o : op) : dstate * option oitem :=
  match o with
  | OpAlloc e al a size => (d_store st a size (det_alloc ds e al), None)
  | OpFree e al p =>
      let st1 := if poisons e then d_invalidate st p else st in
      let '(st2, c, fr) := d_dealloc ds jump st1 (det_alloc ds e al) p in
      (st2, Some (mkO (calls_of c) (cat_code c) (seen st2 (negb (poisons e)) fr) (total_of st2) false))
  | OpRealloc al p na size =>
      let '(st2, c, res) := d_realloc ds jump st al p na size in
      (st2, Some (mkO (calls_of c) (cat_code c) [] (total_of st2) res))
  | OpWrite a bs => (with_mem st (mwrite (s_mem st) a bs), None)
  | OpTypeCheck b => (with_tc st b, None)
  | OpPeriod k => (with_period st (period_after k), None)
  | OpStage up => (with_stage st (if up then stage_inc (s_stage st) else stage_dec (s_stage st)), None)
  | OpOverloads _ => (st, None)
  end.

Fixpoint run_from (ds : list adesc) (jump : bool) (st : dstate) (ops : list op) : list oitem :=
  match ops with
  | [] => []
  | o :: r => let (st', x) := step ds jump st o in
              match x with Some i => i :: run_from ds jump st' r | None => run_from ds jump st' r end
  end.
Definition run (s : scenario) : list oitem := run_from (sc_allocs s) (sc_jump s) d_init (sc_ops s).

(* ------------------------------------------------------------------ the property, over scenario and observation *)
(* what the property talks about: the outstanding tracked blocks, each with its family and the current guard bytes *)
Record sblk := mkB { b_addr : N; b_size : N; b_fam : list N; b_guard : list N }.

(* family of an allocator = name of the allocator it really is (wrappers are transparent) *)
Definition family (ds : list adesc) (e : entry) (al : nat) : list N := name_of ds (actual_of ds (det_alloc ds e al)).

Fixpoint find_blk (a : N) (l : list sblk) : option sblk :=
  match l with [] => None | b :: r => if b_addr b =? a then Some b else find_blk a r end.
Definition drop_blk (a : N) (l : list sblk) : list sblk := filter (fun b => negb (b_addr b =? a)) l.
(* a program write of bs at address w, seen from the guard bytes of block b *)
Definition upd_guard (w : N) (bs : list N) (b : sblk) : sblk :=
  mkB (b_addr b) (b_size b) (b_fam b)
      (map (fun ig => let pos := b_addr b + b_size b + N.of_nat (fst ig) in
                      if in_seg w bs pos then nth (N.to_nat (pos - w)) bs 0 else snd ig)
           (combine (seq 0 (length (b_guard b))) (b_guard b))).

Record sstate := mkSS { ss_blks : list sblk; ss_tc : bool }.
Definition ss_init : sstate := mkSS [] true.

(* the category the property demands for releasing p through family fam *)
Definition expect (ss : sstate) (fam : list N) (p : option N) : cat :=
  match p with
  | None => CNone
  | Some a => match find_blk a (ss_blks ss) with
              | None => CNonAlloc
              | Some b => if ss_tc ss && negb (bytes_eqb (b_fam b) fam) then CMismatch
                          else if negb (bytes_eqb (b_guard b) pattern) then CCorrupt
                          else CNone
              end
  end.
Definition release (ss : sstate) (p : option N) : sstate :=
  match p with None => ss | Some a => mkSS (drop_blk a (ss_blks ss)) (ss_tc ss) end.
Definition size_at (ss : sstate) (p : option N) : option N :=
  match p with None => None | Some a => option_map b_size (find_blk a (ss_blks ss)) end.

(* the poisoning clause: every returned block that is the released outstanding block shows only poison *)
Definition poison_ok (a : N) (size : N) (fr : list (N * option (list N))) : bool :=
  forallb (fun x => negb (fst x =? a) ||
                    match snd x with Some bs => bytes_eqb bs (repeat poison (N.to_nat size)) | None => false end) fr.

Definition check_release (ss : sstate) (fam : list N) (p : option N) (poisoning : bool) (x : oitem) (ss' : sstate) : bool :=
  let c := expect ss fam p in
  (o_cat x =? cat_code c) && (o_calls x =? calls_of c) &&
  (o_total x =? N.of_nat (length (ss_blks ss'))) &&
  match p, size_at ss p with
  | Some a, Some sz => if poisoning then poison_ok a sz (o_freed x) else true
  | _, _ => true
  end.

Fixpoint spec_from (ds : list adesc) (ss : sstate) (ops : list op) (obs : list oitem) : bool :=
  match ops with
  | [] => match obs with [] => true | _ => false end
  | OpAlloc e al a size :: r =>
      spec_from ds (mkSS (mkB a size (family ds e al) pattern :: ss_blks ss) (ss_tc ss)) r obs
  | OpWrite w bs :: r => spec_from ds (mkSS (map (upd_guard w bs) (ss_blks ss)) (ss_tc ss)) r obs
  | OpTypeCheck b :: r => spec_from ds (mkSS (ss_blks ss) b) r obs
  | OpPeriod _ :: r | OpStage _ :: r | OpOverloads _ :: r => spec_from ds ss r obs      (* the property knows no period and no stage *)
  | OpFree e al p :: r =>
      match obs with
      | [] => false
      | x :: obs' =>
          let ss' := release ss p in
          check_release ss (family ds e al) p (poisons e) x ss' && spec_from ds ss' r obs'
      end
  | OpRealloc al p na size :: r =>
      match obs with
      | [] => false
      | x :: obs' =>
          let ss1 := release ss p in
          let ss' := if o_res x then mkSS (mkB na size (family ds EMalloc al) pattern :: ss_blks ss1) (ss_tc ss1) else ss1 in
          check_release ss (family ds EMalloc al) p false x ss' && spec_from ds ss' r obs'
      end
  end.
Definition spec (s : scenario) (obs : list oitem) : bool := spec_from (sc_allocs s) ss_init (sc_ops s) obs.

(* ------------------------------------------------------------------ preconditions of a scenario *)
(* every block lives in its own slot of slot_size bytes (the contract of the underlying allocator: regions of live blocks
   are disjoint); the harness lays the slots out so that real address = model address modulo the hash prime *)
Definition slot_size : N := 4608.
Definition nslots : N := 64.
Definition max_size : N := 4400.
Definition foreign_count : N := 3.          (* addresses nslots*slot_size + k: a stack object, a static object, a foreign heap block *)

Definition byte_ok (b : N) : bool := b <? 256.
Definition name_ok (n : list N) : bool := forallb (fun b => byte_ok b && negb (b =? 0)) n.
Fixpoint descs_ok (ds : list adesc) (i : nat) : bool :=      (* ds = the objects from index i on *)
  match ds with
  | [] => true
  | APlain n :: r => name_ok n && descs_ok r (S i)
  | AWrap _ j :: r => Nat.ltb j i && descs_ok r (S i)
  end.
(* no MemoryLeakAllocator below an allocator the detector calls (it would track the block a second time) *)
Fixpoint no_mla (ds : list adesc) (fuel : nat) (i : nat) : bool :=
  match fuel with
  | O => true
  | S f => match nth_error ds i with
           | Some (AWrap true _) => false
           | Some (AWrap false j) => no_mla ds f j
           | Some (APlain _) => true
           | None => false
           end
  end.
Definition alloc_ok (ds : list adesc) (e : entry) (al : nat) : bool :=
  match e with
  | EString => match nth_error ds al with Some (AWrap true j) => no_mla ds (length ds) j | _ => false end
  | _ => no_mla ds (length ds) al
  end.
Definition addr_ok (a size : N) : bool := (a mod slot_size =? 0) && (a <? nslots * slot_size) && (size <=? max_size).
Definition ptr_ok (p : option N) : bool :=
  match p with None => true | Some a => a <? nslots * slot_size + foreign_count end.
Definition live (a : N) (l : list sblk) : bool := match find_blk a l with Some _ => true | None => false end.
(* a write stays inside one outstanding block: user bytes, guard bytes, or the first padding byte behind the guard *)
Definition write_ok (l : list sblk) (w : N) (bs : list N) : bool :=
  forallb byte_ok bs &&
  existsb (fun b => (b_addr b <=? w) && (w + N.of_nat (length bs) <=? b_addr b + b_size b + N.of_nat G + 1)) l.

(* the abstract course of a scenario (which blocks exist), used only to state the preconditions *)
Definition a_step (ds : list adesc) (jump : bool) (ss : sstate) (o : op) : sstate :=
  match o with
  | OpAlloc e al a size => mkSS (mkB a size (family ds e al) pattern :: ss_blks ss) (ss_tc ss)
  | OpWrite w bs => mkSS (map (upd_guard w bs) (ss_blks ss)) (ss_tc ss)
  | OpTypeCheck b => mkSS (ss_blks ss) b
  | OpPeriod _ | OpStage _ | OpOverloads _ => ss
  | OpFree _ _ p => release ss p
  | OpRealloc al p na size =>
      let c := expect ss (family ds EMalloc al) p in
      let ss1 := release ss p in
      let created := match c with CNone => true | CNonAlloc => false | _ => negb jump end in
      if created then mkSS (mkB na size (family ds EMalloc al) pattern :: ss_blks ss1) (ss_tc ss1) else ss1
  end.
Definition op_ok (ds : list adesc) (ss : sstate) (o : op) : bool :=
  match o with
  | OpAlloc e al a size => alloc_ok ds e al && addr_ok a size && negb (live a (ss_blks ss))
  | OpFree e al p => alloc_ok ds e al && ptr_ok p
  | OpRealloc al p na size => alloc_ok ds EMalloc al && ptr_ok p && addr_ok na size && negb (live na (ss_blks (release ss p)))
  | OpWrite w bs => write_ok (ss_blks ss) w bs
  | OpTypeCheck _ | OpPeriod _ | OpStage _ | OpOverloads _ => true
  end.
Fixpoint valid_from (ds : list adesc) (jump : bool) (ss : sstate) (ops : list op) : bool :=
  match ops with [] => true | o :: r => op_ok ds ss o && valid_from ds jump (a_step ds jump ss o) r end.
Definition valid (s : scenario) : bool :=
  descs_ok (sc_allocs s) 0 && valid_from (sc_allocs s) (sc_jump s) ss_init (sc_ops s).
