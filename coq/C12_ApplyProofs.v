(* C12 -- the runner applies a configuration as documented: lemmas about C12_Apply.v.
   (1) apply_documented: for EVERY configuration, what the recording output / probes see of the runner is the documented
       meaning of the configuration's fields (Prop level);  (2) apply_meets_spec: the executable oracle apply_ok accepts it;
   (3) flags of the documented configuration of an option vector = what the vector asks for, in any order and multiplicity;
   (4) vector_applied: (1) for every spelling of every sequence of documented options. *)
From Coq Require Import String Ascii.
From Coq Require Import NArith ZArith Bool List Lia ZifyBool Arith Permutation.
From CppUVerif Require Import gen.Gen_C12 lib.Str C12_Model C12_Proofs C12_Meaning C12_Select C12_Apply.
Import ListNotations.
Local Open Scope N_scope.

(* ================================================================ small list facts *)
Lemma filter_rev' {A} (f : A -> bool) (l : list A) : List.filter f (rev l) = rev (List.filter f l).
Proof.
  induction l as [|x l IH]; [reflexivity|]. cbn [rev List.filter]. rewrite filter_app, IH. cbn [List.filter].
  destruct (f x); cbn; [reflexivity | rewrite app_nil_r; reflexivity].
Qed.
Lemma nlist_eqb_refl l : nlist_eqb l l = true.
Proof. induction l as [|x l IH]; cbn; [reflexivity|]. rewrite N.eqb_refl, IH. reflexivity. Qed.
Lemma nlist_eqb_eq a : forall b, nlist_eqb a b = true -> a = b.
Proof.
  induction a as [|x a IH]; destruct b as [|y b]; cbn; intro H; try reflexivity; try discriminate H.
  apply andb_true_iff in H. destruct H as [H1 H2]. apply N.eqb_eq in H1. rewrite H1, (IH b H2). reflexivity.
Qed.
Lemma count_n_app x a b : count_n x (a ++ b) = (count_n x a + count_n x b)%nat.
Proof. induction a as [|y a IH]; cbn; [reflexivity|]. rewrite IH. lia. Qed.
Lemma count_n_rev x l : count_n x (rev l) = count_n x l.
Proof. induction l as [|y l IH]; cbn; [reflexivity|]. rewrite count_n_app, IH. cbn. lia. Qed.
Lemma is_perm_counts a b : (forall x, count_n x a = count_n x b) -> is_perm a b = true.
Proof. intro H. unfold is_perm. apply forallb_forall. intros x _. rewrite H. apply Nat.eqb_refl. Qed.
Lemma count_n_perm a b : Permutation a b -> forall x, count_n x a = count_n x b.
Proof. induction 1; intro z; cbn; try rewrite IHPermutation; try lia. rewrite IHPermutation1. apply IHPermutation2. Qed.
Lemma existsb_bytes_In x l : existsb (bytes_eqb x) l = true <-> In x l.
Proof.
  rewrite existsb_exists. split.
  - intros [y [I E]]. apply bytes_eqb_eq in E. subst y. exact I.
  - intro I. exists x. split; [exact I | apply bytes_eqb_refl].
Qed.
Lemma existsb_bytes_notIn x l : existsb (bytes_eqb x) l = false <-> ~ In x l.
Proof. rewrite <- existsb_bytes_In. destruct (existsb (bytes_eqb x) l); split; intro H; congruence. Qed.
Lemma nodup_b_NoDup l : NoDup l -> nodup_b l = true.
Proof.
  induction 1 as [|x l NI ND IH]; cbn; [reflexivity|]. rewrite IH, andb_true_r. apply negb_true_iff. apply existsb_bytes_notIn. exact NI.
Qed.
Lemma incl_b_incl a b : incl a b -> incl_b a b = true.
Proof. intro H. unfold incl_b. apply forallb_forall. intros x I. apply existsb_bytes_In. apply H. exact I. Qed.

(* ---------------------------------------------------------------- de-duplication *)
Lemma dedup_from_in seen l x : In x (dedup_from seen l) -> In x l /\ ~ In x seen.
Proof.
  revert seen. induction l as [|y l IH]; intros seen I; cbn in I; [destruct I|].
  destruct (existsb (bytes_eqb y) seen) eqn:E.
  - destruct (IH _ I) as [I1 I2]. split; [right; exact I1 | exact I2].
  - destruct I as [I|I].
    + subst y. split; [left; reflexivity | apply existsb_bytes_notIn; exact E].
    + destruct (IH _ I) as [I1 I2]. split; [right; exact I1 | intro K; apply I2; right; exact K].
Qed.
Lemma dedup_from_covers seen l x : In x l -> In x seen \/ In x (dedup_from seen l).
Proof.
  revert seen. induction l as [|y l IH]; intros seen I; [destruct I|]. cbn.
  destruct (existsb (bytes_eqb y) seen) eqn:E.
  - destruct I as [I|I]; [subst y; left; apply existsb_bytes_In; exact E | apply IH; exact I].
  - destruct I as [I|I]; [subst y; right; left; reflexivity|].
    destruct (IH (y :: seen) I) as [[K|K]|K]; [subst y; right; left; reflexivity | left; exact K | right; right; exact K].
Qed.
Lemma dedup_from_nodup seen l : NoDup (dedup_from seen l).
Proof.
  revert seen. induction l as [|y l IH]; intro seen; cbn; [constructor|].
  destruct (existsb (bytes_eqb y) seen); [apply IH|]. constructor; [|apply IH].
  intro K. apply dedup_from_in in K. destruct K as [_ K]. apply K. left. reflexivity.
Qed.
Lemma dedup_incl l : incl (dedup l) l.
Proof. intros x I. apply dedup_from_in in I. tauto. Qed.
Lemma dedup_covers l : incl l (dedup l).
Proof. intros x I. destruct (dedup_from_covers [] l x I) as [[]|K]; exact K. Qed.

(* ---------------------------------------------------------------- texts and their entries *)
Lemma split_on_plain d x : without d x = true -> split_on d x = [x].
Proof.
  induction x as [|ch x IH]; intro W; [reflexivity|]. cbn in W. apply andb_true_iff in W. destruct W as [W1 W2].
  cbn. destruct (ch =? d); [discriminate W1|]. rewrite (IH W2). reflexivity.
Qed.
Lemma split_on_app d x s : without d x = true -> split_on d (x ++ d :: s) = x :: split_on d s.
Proof.
  induction x as [|ch x IH]; intro W; cbn.
  - rewrite N.eqb_refl. reflexivity.
  - cbn in W. apply andb_true_iff in W. destruct W as [W1 W2]. destruct (ch =? d); [discriminate W1|]. rewrite (IH W2). reflexivity.
Qed.
Lemma split_on_join d l : l <> [] -> (forall x, In x l -> without d x = true) -> split_on d (join [d] l) = l.
Proof.
  induction l as [|x l IH]; intros NE W; [congruence|]. destruct l as [|y l].
  - cbn. apply split_on_plain. apply W. left. reflexivity.
  - change (join [d] (x :: y :: l)) with (x ++ [d] ++ join [d] (y :: l)). cbn [app].
    rewrite split_on_app by (apply W; left; reflexivity). f_equal. apply IH; [discriminate|]. intros z I. apply W. right. exact I.
Qed.
Lemma filter_all {A} (f : A -> bool) l : (forall x, In x l -> f x = true) -> List.filter f l = l.
Proof.
  induction l as [|x l IH]; intro H; cbn; [reflexivity|]. rewrite (H x (or_introl eq_refl)). f_equal. apply IH. intros y I. apply H. right. exact I.
Qed.
Lemma entries_join d l : (forall x, In x l -> without d x = true /\ nonempty x = true) -> entries d (join [d] l) = l.
Proof.
  intro H. unfold entries. destruct l as [|x l]; [reflexivity|].
  rewrite split_on_join; [| discriminate | intros y I; apply H; exact I]. apply filter_all. intros y I. apply H. exact I.
Qed.
Lemma split_on_terminated d l : (forall x, In x l -> without d x = true) ->
  split_on d (concat (map (fun e => e ++ [d]) l)) = l ++ [[]].
Proof.
  induction l as [|x l IH]; intro W; [reflexivity|]. cbn [map concat]. rewrite <- app_assoc. cbn [app].
  rewrite split_on_app by (apply W; left; reflexivity). cbn [app]. f_equal. apply IH. intros y I. apply W. right. exact I.
Qed.
Lemma entries_terminated d l : (forall x, In x l -> without d x = true /\ nonempty x = true) ->
  entries d (concat (map (fun e => e ++ [d]) l)) = l.
Proof.
  intro H. unfold entries. rewrite split_on_terminated by (intros y I; apply H; exact I).
  rewrite filter_app. cbn. rewrite app_nil_r. apply filter_all. intros y I. apply H. exact I.
Qed.
(* a de-duplicated sub-list of the entries of all tests that covers the entries of the selected ones is an acceptable listing *)
Lemma list_text_ok_intro d all sel es text :
  entries d text = es -> NoDup es -> incl es all -> incl sel es -> list_text_ok d all sel text = true.
Proof.
  intros E N I1 I2. unfold list_text_ok. rewrite E, (nodup_b_NoDup _ N), (incl_b_incl _ _ I1), (incl_b_incl _ _ I2). reflexivity.
Qed.

(* ================================================================ the registry the runner drives *)
Lemma should_run_doc c r p : g_gf r = c_gf c -> g_nf r = c_nf c -> should_run r p = doc_selected c (p_group p, p_name p).
Proof. intros G Nf. unfold should_run, doc_selected. rewrite G, Nf, !list_match_doc. reflexivity. Qed.
Lemma ignored_id_reg0 t : In t reg0 -> ignored_id (fst t) = p_ign (snd t).
Proof.
  assert (H : forallb (fun t => Bool.eqb (ignored_id (fst t)) (p_ign (snd t))) reg0 = true) by (vm_compute; reflexivity).
  intro I. rewrite forallb_forall in H. apply eqb_prop. apply H. exact I.
Qed.
Lemma ran_of_started ri l : (forall t, In t l -> In t reg0) ->
  map fst (List.filter (fun t : N * rprobe => negb (p_ign (snd t)) || ri) l) =
  List.filter (fun i => negb (ignored_id i) || ri) (map fst l).
Proof.
  induction l as [|t l IH]; intro H; [reflexivity|]. cbn [List.filter map].
  rewrite (ignored_id_reg0 t (H t (or_introl eq_refl))).
  destruct (negb (p_ign (snd t)) || ri); cbn [map]; rewrite IH by (intros y I; apply H; right; exact I); reflexivity.
Qed.
Lemma entry_shapes :
  forallb (fun p => without 32 (group_entry p) && nonempty (group_entry p) && without 32 (name_entry p) && nonempty (name_entry p) &&
                    without 10 (loc_entry p) && nonempty (loc_entry p)) (map snd reg0) = true.
Proof. vm_compute. reflexivity. Qed.
Lemma entry_shape p : In p (map snd reg0) ->
  (without 32 (group_entry p) = true /\ nonempty (group_entry p) = true) /\
  (without 32 (name_entry p) = true /\ nonempty (name_entry p) = true) /\
  (without 10 (loc_entry p) = true /\ nonempty (loc_entry p) = true).
Proof.
  intro I. pose proof entry_shapes as H. rewrite forallb_forall in H. specialize (H p I).
  repeat (apply andb_true_iff in H; destruct H as [H ?]). tauto.
Qed.
Lemma loc_entries_distinct : NoDup (map loc_entry (map snd reg0)).
Proof.
  assert (D : forall l : list bytes, nodup_b l = true -> NoDup l).
  { induction l as [|x l IH]; cbn; intro H; [constructor|]. apply andb_true_iff in H. destruct H as [H1 H2].
    constructor; [apply existsb_bytes_notIn; apply negb_true_iff; exact H1 | apply IH; exact H2]. }
  apply D. vm_compute. reflexivity.
Qed.

Global Opaque reg0.        (* from here on the registry is only known through the lemmas above *)

(* ================================================================ the outputs *)
Lemma outputs_documented c :
  exists o rest, initialize_outputs c (create_outputs c) = o :: rest /\
    o_kind o = c_out c /\ (c_out c = OJUnit -> o_pkg o = c_pkg c) /\
    forall x, In x (o :: rest) -> o_level x = doc_level c /\ o_color x = c_color c.
Proof.
  unfold initialize_outputs, create_outputs, doc_level.
  destruct (c_out c), (c_verbose c), (c_veryverbose c), (c_color c); cbn;
    eexists; eexists; (split; [reflexivity|]); (split; [reflexivity|]); (split; [intro K; first [reflexivity | discriminate K]|]);
    intros x I; cbn in I; repeat (destruct I as [I|I]; [subst x; split; reflexivity|]); destruct I.
Qed.
Lemma outs_ok_documented c : outs_ok c (initialize_outputs c (create_outputs c)) = true.
Proof.
  destruct (outputs_documented c) as [o [rest [E [K [P A]]]]]. rewrite E. unfold outs_ok. rewrite K.
  assert (F : forallb (fun o0 => (o_level o0 =? doc_level c) && Bool.eqb (o_color o0) (c_color c)) (o :: rest) = true).
  { apply forallb_forall. intros x I. destruct (A x I) as [A1 A2]. rewrite A1, A2, N.eqb_refl, eqb_reflx. reflexivity. }
  rewrite F, andb_true_r. destruct (c_out c) eqn:O; cbn; try reflexivity. rewrite (P eq_refl). apply bytes_eqb_refl.
Qed.

(* ================================================================ the repetitions *)
Lemma repeat_loop_const c r outs : forall n,
  repeat_loop c n r outs =
  repeat (run_registry r (fst (primary outs)) (snd (primary outs)) (if c_shuf c then [srand_arg (c_seed c)] else [])) n.
Proof.
  induction n as [|n IH]; [reflexivity|]. cbn [repeat_loop repeat]. unfold shuffle_tests.
  replace (if c_shuf c then r else r) with r by (destruct (c_shuf c); reflexivity). rewrite IH. reflexivity.
Qed.
Lemma started_tests c (rv : bool) :
  let r := initialize_registry c registry0 in
  let r' := if rv then reverse_tests r else r in
  List.filter (fun t => should_run r' (snd t)) (g_tests r') = (if rv then rev (doc_tests c) else doc_tests c).
Proof.
  cbn zeta. unfold doc_tests.
  assert (E : forall l, List.filter (fun t : N * rprobe => should_run (if rv then reverse_tests (initialize_registry c registry0) else initialize_registry c registry0) (snd t)) l
                        = List.filter (fun t => doc_selected c (p_group (snd t), p_name (snd t))) l).
  { intro l. apply filter_ext. intro t. apply should_run_doc; destruct rv; reflexivity. }
  rewrite E. destruct rv; cbn [g_tests reverse_tests with_tests initialize_registry registry0]; [apply filter_rev' | reflexivity].
Qed.
Lemma in_doc_tests0 c t : In t (doc_tests c) -> In t reg0.
Proof. unfold doc_tests. intro I. apply filter_In in I. exact (proj1 I). Qed.
Lemma in_doc_tests c (rv : bool) t : In t (if rv then rev (doc_tests c) else doc_tests c) -> In t reg0.
Proof.
  destruct rv; intro I; [apply (in_doc_tests0 c); apply (proj2 (in_rev (doc_tests c) t)); exact I | apply (in_doc_tests0 c); exact I].
Qed.
(* one repetition, as the recording output and probes see it *)
Lemma rep_documented c lvl col seeds :
  let r := initialize_registry c registry0 in
  let r' := if c_rev c then reverse_tests r else r in
  let rep := run_registry r' lvl col seeds in
  r_level rep = lvl /\ r_color rep = col /\ r_seeds rep = seeds /\
  r_started rep = (if c_rev c then rev (natural c) else natural c) /\
  r_ran rep = List.filter (fun i => negb (ignored_id i) || c_runign c) (r_started rep) /\
  r_sep rep = (if c_sep c then r_started rep else []).
Proof.
  cbn zeta. unfold run_registry. cbn [r_level r_color r_seeds r_started r_ran r_sep].
  rewrite (started_tests c (c_rev c)).
  assert (RI : forall p, will_run (if c_rev c then reverse_tests (initialize_registry c registry0) else initialize_registry c registry0) p
                         = negb (p_ign p) || c_runign c).
  { intro p. unfold will_run. destruct (c_rev c); cbn [g_ri reverse_tests with_tests initialize_registry registry0]; destruct (c_runign c); reflexivity. }
  assert (SP : g_sep (if c_rev c then reverse_tests (initialize_registry c registry0) else initialize_registry c registry0) = c_sep c).
  { destruct (c_rev c); cbn [g_sep reverse_tests with_tests initialize_registry registry0]; destruct (c_sep c); reflexivity. }
  rewrite SP. repeat split.
  - unfold natural. destruct (c_rev c); [apply map_rev | reflexivity].
  - rewrite (filter_ext _ _ (fun t => RI (snd t))). apply ran_of_started. intros t I. apply (in_doc_tests c (c_rev c) t I).
Qed.

(* ================================================================ (1) the documented meaning, for every configuration *)
Definition rep_documented_as (c : config) (r : rep_obs) : Prop :=
  r_level r = doc_level c /\ r_color r = c_color c /\
  (c_shuf c = false -> r_seeds r = [] /\ r_started r = (if c_rev c then rev (natural c) else natural c)) /\
  (c_shuf c = true -> r_seeds r = [c_seed c mod 4294967296] /\ Permutation (r_started r) (natural c)) /\
  r_ran r = List.filter (fun i => negb (ignored_id i) || c_runign c) (r_started r) /\
  r_sep r = (if c_sep c then r_started r else []).
Lemma sel_in_all c p : In p (map snd (doc_tests c)) -> In p (map snd reg0).
Proof.
  intro I. apply in_map_iff in I. destruct I as [t [Et I]]. apply in_map_iff. exists t. split; [exact Et | apply (in_doc_tests0 c t I)].
Qed.
Lemma list_groups_ok c :
  list_text_ok 32 (map group_entry (map snd reg0)) (map group_entry (map snd (doc_tests c))) (list_group_names (initialize_registry c registry0)) = true.
Proof.
  unfold list_group_names. cbn [g_tests initialize_registry registry0].
  replace (map (fun t : N * rprobe => group_entry (snd t)) reg0) with (map group_entry (map snd reg0)) by (rewrite map_map; reflexivity).
  apply (list_text_ok_intro 32 _ _ (dedup (map group_entry (map snd reg0)))).
  + apply entries_join. intros x I. apply dedup_incl in I. apply in_map_iff in I. destruct I as [p [Ep I]]. subst x. apply (entry_shape p I).
  + apply dedup_from_nodup.
  + apply dedup_incl.
  + intros x I. apply dedup_covers. apply in_map_iff in I. destruct I as [p [Ep I]]. apply in_map_iff. exists p. split; [exact Ep | apply (sel_in_all c); exact I].
Qed.
Lemma list_names_ok c :
  list_text_ok 32 (map name_entry (map snd reg0)) (map name_entry (map snd (doc_tests c))) (list_group_and_case_names (initialize_registry c registry0)) = true.
Proof.
  unfold list_group_and_case_names. pose proof (started_tests c false) as ST. cbn beta iota zeta in ST. rewrite ST.
  replace (map (fun t : N * rprobe => name_entry (snd t)) (doc_tests c)) with (map name_entry (map snd (doc_tests c))) by (rewrite map_map; reflexivity).
  apply (list_text_ok_intro 32 _ _ (dedup (map name_entry (map snd (doc_tests c))))).
  + apply entries_join. intros x I. apply dedup_incl in I. apply in_map_iff in I. destruct I as [p [Ep I]]. subst x. apply (entry_shape p (sel_in_all c p I)).
  + apply dedup_from_nodup.
  + intros x I. apply dedup_incl in I. apply in_map_iff in I. destruct I as [p [Ep I]]. apply in_map_iff. exists p. split; [exact Ep | apply (sel_in_all c); exact I].
  + apply dedup_covers.
Qed.
Lemma list_locs_ok c :
  list_text_ok 10 (map loc_entry (map snd reg0)) (map loc_entry (map snd (doc_tests c))) (list_locations (initialize_registry c registry0)) = true.
Proof.
  unfold list_locations. cbn [g_tests initialize_registry registry0].
  replace (map (fun t : N * rprobe => loc_entry (snd t) ++ [10]) reg0) with (map (fun e => e ++ [10]) (map loc_entry (map snd reg0)))
    by (rewrite !map_map; reflexivity).
  apply (list_text_ok_intro 10 _ _ (map loc_entry (map snd reg0))).
  + apply entries_terminated. intros x I. apply in_map_iff in I. destruct I as [p [Ep I]]. subst x. apply (entry_shape p I).
  + apply loc_entries_distinct.
  + apply incl_refl.
  + intros x I. apply in_map_iff in I. destruct I as [p [Ep I]]. apply in_map_iff. exists p. split; [exact Ep | apply (sel_in_all c); exact I].
Qed.
Lemma run_documented c o rest :
  (forall x, In x (o :: rest) -> o_level x = doc_level c /\ o_color x = c_color c) ->
  forall n r, In r (repeat_loop c n (if c_rev c then reverse_tests (initialize_registry c registry0) else initialize_registry c registry0) (o :: rest)) ->
    rep_documented_as c r.
Proof.
  intros A n r I. rewrite repeat_loop_const in I. apply repeat_spec in I. subst r.
  pose proof (rep_documented c (fst (primary (o :: rest))) (snd (primary (o :: rest)))
                (if c_shuf c then [srand_arg (c_seed c)] else [])) as D. cbn zeta in D.
  destruct D as [D1 [D2 [D3 [D4 [D5 D6]]]]]. destruct (A o (or_introl eq_refl)) as [A1 A2].
  unfold rep_documented_as. rewrite D1, D2, D3, D5, D6.
  split; [exact A1|]. split; [exact A2|]. split; [|split; [|split; reflexivity]].
  + intro S. split; [rewrite S; reflexivity | exact D4].
  + intro S. split; [rewrite S; reflexivity|]. rewrite D4. destruct (c_rev c); [symmetry; apply Permutation_rev | apply Permutation_refl].
Qed.
Lemma apply_documented c : c_repeat c <= REP_CAP ->
  exists outs text reps, apply c = AApplied outs text reps /\
    (exists o rest, outs = o :: rest /\ o_kind o = c_out c /\ (c_out c = OJUnit -> o_pkg o = c_pkg c)) /\
    (forall o, In o outs -> o_level o = doc_level c /\ o_color o = c_color c) /\
    (list_mode c = true -> reps = [] /\ doc_list_ok c text = true) /\
    (list_mode c = false -> length reps = N.to_nat (c_repeat c) /\ forall r, In r reps -> rep_documented_as c r).
Proof.
  intro R. unfold apply. apply N.leb_le in R. rewrite R. unfold runner_run_all_tests.
  destruct (outputs_documented c) as [o [rest [E [K [P A]]]]]. rewrite E.
  assert (OUT : exists o0 rest0, o :: rest = o0 :: rest0 /\ o_kind o0 = c_out c /\ (c_out c = OJUnit -> o_pkg o0 = c_pkg c)).
  { exists o, rest. auto. }
  unfold list_mode, doc_list_ok.
  destruct (c_listg c) eqn:LG; [|destruct (c_listn c) eqn:LN; [|destruct (c_listl c) eqn:LL]].
  - eexists; eexists; eexists; split; [reflexivity|]. split; [exact OUT|]. split; [exact A|]. split; [|intro H; discriminate H].
    intros _. split; [reflexivity|]. rewrite (list_groups_ok c). reflexivity.
  - eexists; eexists; eexists; split; [reflexivity|]. split; [exact OUT|]. split; [exact A|]. split; [|intro H; discriminate H].
    intros _. split; [reflexivity|]. rewrite (list_names_ok c). reflexivity.
  - eexists; eexists; eexists; split; [reflexivity|]. split; [exact OUT|]. split; [exact A|]. split; [|intro H; discriminate H].
    intros _. split; [reflexivity|]. rewrite (list_locs_ok c). reflexivity.
  - eexists; eexists; eexists; split; [reflexivity|]. split; [exact OUT|]. split; [exact A|]. split; [intro H; discriminate H|].
    intros _. split; [rewrite repeat_loop_const; apply repeat_length|]. apply (run_documented c o rest A).
Qed.

(* ================================================================ (2) the executable oracle accepts the model's observation *)
Lemma perm_ok c r : Permutation (r_started r) (natural c) -> is_perm (r_started r) (natural c) = true.
Proof. intros S2. apply is_perm_counts. apply count_n_perm. exact S2. Qed.
Lemma seeds_ok c r : r_seeds r = [c_seed c mod 4294967296] -> forallb (fun s : N => s =? c_seed c mod 4294967296) (r_seeds r) = true.
Proof. intros S1. rewrite S1. cbn [forallb]. rewrite N.eqb_refl. reflexivity. Qed.
Lemma order_ok c r : r_started r = (if c_rev c then rev (natural c) else natural c) -> nlist_eqb (r_started r) (doc_order c) = true.
Proof. intro S2. rewrite S2. apply nlist_eqb_refl. Qed.
Lemma rep_ok_documented c r : rep_documented_as c r -> rep_ok c r = true.
Proof.
  intros [L [C [NS [S [RN SP]]]]]. unfold rep_ok. rewrite L, C, N.eqb_refl, eqb_reflx, RN, SP, !nlist_eqb_refl, !andb_true_r.
  destruct (c_shuf c) eqn:SH.
  - destruct (S eq_refl) as [S1 S2]. rewrite (seeds_ok c r S1), (perm_ok c r S2). reflexivity.
  - destruct (NS eq_refl) as [S1 S2]. rewrite S1, (order_ok c r S2). reflexivity.
Qed.
Lemma apply_meets_spec c : apply_ok c (apply c) = true.
Proof.
  destruct (c_repeat c <=? REP_CAP) eqn:R.
  - apply N.leb_le in R. destruct (apply_documented c R) as [outs [text [reps [E [_ [_ [LM RUN]]]]]]].
    pose proof E as E2. unfold apply in E2. apply N.leb_le in R. rewrite R in E2. unfold runner_run_all_tests in E2.
    assert (OK : outs_ok c outs = true).
    { pose proof (outs_ok_documented c) as K.
      destruct (c_listg c); [inversion E2; subst; exact K|]. destruct (c_listn c); [inversion E2; subst; exact K|].
      destruct (c_listl c); inversion E2; subst; exact K. }
    rewrite E. unfold apply_ok. rewrite R, OK. cbn [andb]. destruct (list_mode c) eqn:M.
    + destruct (LM eq_refl) as [L1 L2]. rewrite L1, L2. reflexivity.
    + destruct (RUN eq_refl) as [L1 L2]. rewrite L1, N2Nat.id, N.eqb_refl. cbn [andb].
      assert (F : forallb (rep_ok c) reps = true).
      { apply forallb_forall. intros r I. apply rep_ok_documented. apply L2. exact I. }
      rewrite F. cbn [andb]. unfold first_seeded. destruct reps as [|r0 reps']; [reflexivity|].
      destruct (L2 r0 (or_introl eq_refl)) as [_ [_ [_ [S _]]]]. destruct (c_shuf c); [|reflexivity].
      destruct (S eq_refl) as [S1 _]. rewrite S1. reflexivity.
  - unfold apply. rewrite R. cbn. apply N.leb_gt in R. apply N.ltb_lt. exact R.
Qed.
Lemma xrun_meets_spec tm argv opts : valid tm argv = true -> xspec tm argv opts (xrun tm argv) = true.
Proof.
  intro V. unfold xspec, xrun. cbn [x_parse x_applied]. rewrite (run_meets_spec tm argv opts V). cbn [andb].
  destruct (run tm argv); try reflexivity. apply apply_meets_spec.
Qed.

(* ================================================================ (3) what an option vector asks for *)
Definition flags_rel (opts : list doc_opt) (c c' : config) : Prop :=
  c_verbose c' = c_verbose c || asks DVerbose opts /\ c_veryverbose c' = c_veryverbose c || asks DVeryVerbose opts /\
  c_color c' = c_color c || asks DColor opts /\ c_sep c' = c_sep c || asks DSepProcess opts /\
  c_listg c' = c_listg c || asks DListGroups opts /\ c_listn c' = c_listn c || asks DListNames opts /\
  c_listl c' = c_listl c || asks DListLocations opts /\ c_runign c' = c_runign c || asks DRunIgnored opts /\
  c_rev c' = c_rev c || asks DReverse opts /\ c_shuf c' = c_shuf c || asks_shuffle opts.
Lemma sem_opt_flags tm c o : flags_rel [o] c (sem_opt tm c o).
Proof.
  unfold flags_rel, asks, asks_shuffle.
  destruct o as [| | | | | | | | | | | | | n | s | k v | k v | k g n | i g n | o | v]; try destruct n; try destruct s; try destruct o;
    cbn; rewrite ?orb_false_r, ?orb_true_r; repeat split; reflexivity.
Qed.
Lemma sem_from_flags tm : forall opts c c', sem_from tm c opts = Accept c' -> flags_rel opts c c'.
Proof.
  induction opts as [|o r IH]; intros c c' H; cbn [sem_from] in H.
  - inversion H. subst c'. unfold flags_rel, asks, asks_shuffle. cbn. rewrite !orb_false_r. repeat split; reflexivity.
  - destruct (is_help o) eqn:HP; [discriminate H|]. specialize (IH _ _ H).
    pose proof (sem_opt_flags tm c o) as F. unfold flags_rel, asks, asks_shuffle in *. cbn [existsb] in *.
    rewrite !orb_false_r in F.
    destruct IH as [I1 [I2 [I3 [I4 [I5 [I6 [I7 [I8 [I9 I10]]]]]]]]]. destruct F as [F1 [F2 [F3 [F4 [F5 [F6 [F7 [F8 [F9 F10]]]]]]]]].
    rewrite I1, I2, I3, I4, I5, I6, I7, I8, I9, I10, F1, F2, F3, F4, F5, F6, F7, F8, F9, F10, !orb_assoc. repeat split; reflexivity.
Qed.
Lemma sem_flags tm opts c : sem tm opts = Accept c ->
  c_verbose c = asks DVerbose opts /\ c_veryverbose c = asks DVeryVerbose opts /\ c_color c = asks DColor opts /\
  c_sep c = asks DSepProcess opts /\ c_listg c = asks DListGroups opts /\ c_listn c = asks DListNames opts /\
  c_listl c = asks DListLocations opts /\ c_runign c = asks DRunIgnored opts /\ c_rev c = asks DReverse opts /\
  c_shuf c = asks_shuffle opts.
Proof. intro H. apply (sem_from_flags tm opts default_config c H). Qed.
(* the highest verbosity asked for, whatever the order and the multiplicity of -v and -vv *)
Lemma sem_level tm opts c : sem tm opts = Accept c -> doc_level c = asked_level opts.
Proof. intro H. destruct (sem_flags tm opts c H) as [V [VV _]]. unfold doc_level, asked_level. rewrite V, VV. reflexivity. Qed.
Lemma sem_no_help tm : forall opts c, existsb is_help opts = false -> exists c', sem_from tm c opts = Accept c'.
Proof.
  induction opts as [|o r IH]; intros c H; cbn [sem_from]; [exists c; reflexivity|].
  cbn in H. apply orb_false_iff in H. destruct H as [H1 H2]. rewrite H1. apply IH. exact H2.
Qed.

(* ================================================================ (4) every spelling of every sequence of documented options *)
Definition asks_list (opts : list doc_opt) : bool := asks DListGroups opts || asks DListNames opts || asks DListLocations opts.
Definition rep_as_asked (opts : list doc_opt) (c : config) (r : rep_obs) : Prop :=
  r_level r = asked_level opts /\ r_color r = asks DColor opts /\
  (asks_shuffle opts = false -> r_seeds r = [] /\ r_started r = (if asks DReverse opts then rev (natural c) else natural c)) /\
  (asks_shuffle opts = true -> r_seeds r = [c_seed c mod 4294967296] /\ Permutation (r_started r) (natural c)) /\
  r_ran r = List.filter (fun i => negb (ignored_id i) || asks DRunIgnored opts) (r_started r) /\
  r_sep r = (if asks DSepProcess opts then r_started r else []).
Lemma vector_applied tm prog opts argv :
  forallb opt_ok opts = true -> In argv (render opts) -> existsb is_help opts = false ->
  exists c, sem tm opts = Accept c /\
    x_parse (xrun tm (prog :: argv)) = OAccepted c (map (selected c) probes) /\
    (c_repeat c <= REP_CAP ->
     exists outs text reps, x_applied (xrun tm (prog :: argv)) = Some (AApplied outs text reps) /\
       (exists o rest, outs = o :: rest /\ o_kind o = c_out c /\ (c_out c = OJUnit -> o_pkg o = c_pkg c)) /\
       (forall o, In o outs -> o_level o = asked_level opts /\ o_color o = asks DColor opts) /\
       (asks_list opts = true -> reps = [] /\ doc_list_ok c text = true) /\
       (asks_list opts = false -> length reps = N.to_nat (c_repeat c) /\ forall r, In r reps -> rep_as_asked opts c r)).
Proof.
  intros OK I NH. destruct (sem_no_help tm opts default_config NH) as [c S]. exists c. split; [exact S|].
  pose proof (meaning tm prog opts argv OK I) as M. unfold sem in M. rewrite S in M.
  unfold xrun, run. cbn [x_parse x_applied]. rewrite M. split; [reflexivity|]. intro R.
  destruct (apply_documented c R) as [outs [text [reps [E [O1 [O2 [LM RUN]]]]]]].
  destruct (sem_flags tm opts c S) as [F1 [F2 [F3 [F4 [F5 [F6 [F7 [F8 [F9 F10]]]]]]]]]. pose proof (sem_level tm opts c S) as LV.
  exists outs, text, reps. split; [rewrite E; reflexivity|]. split; [exact O1|].
  assert (LMeq : list_mode c = asks_list opts) by (unfold list_mode, asks_list; rewrite F5, F6, F7; reflexivity).
  split; [|split].
  - intros o Io. destruct (O2 o Io) as [A1 A2]. rewrite A1, A2, LV, F3. split; reflexivity.
  - intro L. apply LM. rewrite LMeq. exact L.
  - intro L. rewrite <- LMeq in L. destruct (RUN L) as [R1 R2]. split; [exact R1|]. intros r Ir.
    destruct (R2 r Ir) as [D1 [D2 [D3 [D4 [D5 D6]]]]]. unfold rep_as_asked.
    rewrite <- LV, <- F3, <- F10, <- F9, <- F8, <- F4. repeat split; try assumption; try (apply D3; assumption); try (apply D4; assumption).
Qed.

(* ---------------------------------------------------------------- named consequences *)
(* -v together with -vv, in any order and multiplicity and with anything in between: very verbose, on every output created *)
Lemma verbosity_highest_wins tm prog opts argv c outs text reps :
  forallb opt_ok opts = true -> In argv (render opts) -> sem tm opts = Accept c ->
  x_applied (xrun tm (prog :: argv)) = Some (AApplied outs text reps) ->
  (forall o, In o outs -> o_level o = asked_level opts) /\ (forall r, In r reps -> r_level r = asked_level opts).
Proof.
  intros OK I S X. pose proof (meaning tm prog opts argv OK I) as M. rewrite S in M.
  unfold xrun, run in X. cbn [x_applied] in X. rewrite M in X. inversion X as [E]. clear X.
  assert (R : c_repeat c <= REP_CAP).
  { unfold apply in E. destruct (c_repeat c <=? REP_CAP) eqn:K; [apply N.leb_le; exact K | discriminate E]. }
  destruct (apply_documented c R) as [outs' [text' [reps' [E' [_ [O2 [LM RUN]]]]]]]. rewrite E in E'. inversion E'. subst outs' text' reps'.
  pose proof (sem_level tm opts c S) as LV. split.
  - intros o Io. rewrite <- LV. apply (O2 o Io).
  - intros r Ir. rewrite <- LV. destruct (list_mode c) eqn:L.
    + destruct (LM eq_refl) as [L1 _]. subst reps. destruct Ir.
    + destruct (RUN eq_refl) as [_ R2]. apply (R2 r Ir).
Qed.
(* -b (without shuffling): EVERY repetition runs the selected tests backwards; without -b every repetition runs them in the normal
   order; the repeat count gives that many repetitions, all alike *)
Lemma applied_inv c outs text reps : apply c = AApplied outs text reps -> c_repeat c <= REP_CAP.
Proof. unfold apply. destruct (c_repeat c <=? REP_CAP) eqn:K; [intros _; apply N.leb_le; exact K | discriminate]. Qed.
Lemma reverse_every_repetition c outs text reps : apply c = AApplied outs text reps -> list_mode c = false -> c_shuf c = false ->
  length reps = N.to_nat (c_repeat c) /\ forall r, In r reps -> r_started r = (if c_rev c then rev (natural c) else natural c).
Proof.
  intros E L S. destruct (apply_documented c (applied_inv _ _ _ _ E)) as [outs' [text' [reps' [E' [_ [_ [_ RUN]]]]]]].
  rewrite E in E'. inversion E'. subst outs' text' reps'. destruct (RUN L) as [R1 R2]. split; [exact R1|].
  intros r I. destruct (R2 r I) as [_ [_ [NS _]]]. apply (NS S).
Qed.
Lemma repetitions_alike c outs text reps : apply c = AApplied outs text reps -> forall r1 r2, In r1 reps -> In r2 reps -> r1 = r2.
Proof.
  unfold apply. destruct (c_repeat c <=? REP_CAP); [|discriminate]. unfold runner_run_all_tests.
  destruct (c_listg c); [intro E; inversion E; intros ? ? []|]. destruct (c_listn c); [intro E; inversion E; intros ? ? []|].
  destruct (c_listl c); [intro E; inversion E; intros ? ? []|]. rewrite repeat_loop_const. intro E. inversion E.
  intros r1 r2 I1 I2. apply repeat_spec in I1. apply repeat_spec in I2. congruence.
Qed.
(* -lg / -ln / -ll: the listing is printed and nothing runs, whatever else is on the command line *)
Lemma list_modes_run_nothing c outs text reps : apply c = AApplied outs text reps -> list_mode c = true ->
  reps = [] /\ doc_list_ok c text = true.
Proof.
  intros E L. destruct (apply_documented c (applied_inv _ _ _ _ E)) as [outs' [text' [reps' [E' [_ [_ [LM _]]]]]]].
  rewrite E in E'. inversion E'. subst outs' text' reps'. apply (LM L).
Qed.
(* the code before the red-team change C12-3 was tried: reversing inside the repeat loop alternates the order -- the statement
   "every repetition backwards" is false of that runner (kept as a refuted statement: the check's reason for looking at every repetition) *)
Fixpoint repeat_loop_rev_inside (c : config) (n : nat) (r : registry) (outs : list out_rec) : list rep_obs :=
  match n with
  | O => []
  | S n' => let r1 := if c_rev c then reverse_tests r else r in
            run_registry r1 (fst (primary outs)) (snd (primary outs)) [] :: repeat_loop_rev_inside c n' r1 outs
  end.
Definition rev_inside_stmt : Prop :=
  forall c n r, In r (repeat_loop_rev_inside c n (initialize_registry c registry0) []) ->
    r_started r = (if c_rev c then rev (natural c) else natural c).
Lemma rev_inside_refuted : ~ rev_inside_stmt.
Proof.
  intro H. specialize (H (set_rev default_config true) 2%nat).
  match type of H with forall r, In r ?l -> _ => specialize (H (nth 1 l (run_registry registry0 0 false []))) end.
  assert (I : forall A (l : list A) d, (1 < length l)%nat -> In (nth 1 l d) l) by (intros; apply nth_In; assumption).
  specialize (H ltac:(right; left; reflexivity)). vm_compute in H. discriminate H.
Qed.
