(* C16: how the object heap of the TRANSLATED JUnitTestOutput (gen/Gen_HeapC16.v, lib/CHeap.v) represents a state of the
   hand-written model (C16_Model.v: jstate), and how the ghost events of the translation (JFormat / JWrite / JOpen / JClose) are
   read as file contents.
   Two levels.  (1) A CONCRETE state `cstate` says what the cells hold: a text is an integer id, every number is a Z; the output
   object is a block [impl_], the JUnitTestOutputImpl is a block of 11 cells (results_ flattened: testCount_ failureCount_
   totalCheckCount_ startTime_ groupExecTime_ group_ head_ tail_; file_; package_; stdOutput_), the result nodes are a
   NULL-terminated chain of 8-cell blocks from head_ (oldest first) linked by next_, tail_ is the last block, a kept failure is a
   block of 7 cells (cjunit_at).  (2) `state_rel` reads a concrete state as a model jstate through txt : Z -> bytes (the text an id
   stands for): the model's nodes are newest first, the model's n_checks is per test while the code's checkCount_ is the
   cumulative counter of the TestResult -- checkCount_ of node i = totalCheckCount_ + sum of n_checks of nodes 0..i.
   A test that has started and not yet ended has checkCount_ = 0 (its constructor) and n_checks = 0 in the model: that does NOT
   fit the cumulative reading unless nothing has been counted so far, so the representation comes in two flavours,
   junit_at (= junit_at_o false: every node has been ended) and junit_at_o true (the newest node is open).
   Definitions and basic facts only; the theorems about the translated functions are in C16_HeapTie.v. *)
From Coq Require Import ZArith NArith Bool List Lia.
From Coq Require String Ascii.
From CppUVerif Require Import lib.Str C16_Events C16_Model.
From CppUVerif Require Import lib.CSem lib.CMem lib.CMemFacts lib.CHeap gen.Gen_HeapC16.
Import ListNotations.
Local Open Scope Z_scope.

Notation hev := Gen_HeapC16.jev.    (* the ghost events of the translation (C16_Model.jev is the model's own event type) *)

(* ------------------------------------------------------------------ layout *)
Lemma junit_layout_is_the_source :
  off_UtestShell_group_ = 0 /\ off_UtestShell_name_ = 1 /\ off_UtestShell_file_ = 2 /\ off_UtestShell_lineNumber_ = 3 /\
  off_UtestShell_next_ = 4 /\ off_UtestShell_isRunAsSeperateProcess_ = 5 /\ off_UtestShell_hasFailed_ = 6 /\ cells_UtestShell = 7 /\
  off_TestResult_output_ = 0 /\ off_TestResult_testCount_ = 1 /\ off_TestResult_runCount_ = 2 /\ off_TestResult_checkCount_ = 3 /\
  off_TestResult_failureCount_ = 4 /\ off_TestResult_filteredOutCount_ = 5 /\ off_TestResult_ignoredCount_ = 6 /\
  off_TestResult_totalExecutionTime_ = 7 /\ off_TestResult_timeStarted_ = 8 /\ off_TestResult_currentTestTimeStarted_ = 9 /\
  off_TestResult_currentTestTotalExecutionTime_ = 10 /\ off_TestResult_currentGroupTimeStarted_ = 11 /\
  off_TestResult_currentGroupTotalExecutionTime_ = 12 /\ cells_TestResult = 13 /\
  off_TestFailure_testName_ = 0 /\ off_TestFailure_testNameOnly_ = 1 /\ off_TestFailure_fileName_ = 2 /\
  off_TestFailure_lineNumber_ = 3 /\ off_TestFailure_testFileName_ = 4 /\ off_TestFailure_testLineNumber_ = 5 /\
  off_TestFailure_message_ = 6 /\ cells_TestFailure = 7 /\
  off_JUnitTestCaseResultNode_name_ = 0 /\ off_JUnitTestCaseResultNode_execTime_ = 1 /\ off_JUnitTestCaseResultNode_failure_ = 2 /\
  off_JUnitTestCaseResultNode_ignored_ = 3 /\ off_JUnitTestCaseResultNode_file_ = 4 /\ off_JUnitTestCaseResultNode_lineNumber_ = 5 /\
  off_JUnitTestCaseResultNode_checkCount_ = 6 /\ off_JUnitTestCaseResultNode_next_ = 7 /\ cells_JUnitTestCaseResultNode = 8 /\
  off_JUnitTestGroupResult_testCount_ = 0 /\ off_JUnitTestGroupResult_failureCount_ = 1 /\
  off_JUnitTestGroupResult_totalCheckCount_ = 2 /\ off_JUnitTestGroupResult_startTime_ = 3 /\
  off_JUnitTestGroupResult_groupExecTime_ = 4 /\ off_JUnitTestGroupResult_group_ = 5 /\ off_JUnitTestGroupResult_head_ = 6 /\
  off_JUnitTestGroupResult_tail_ = 7 /\ cells_JUnitTestGroupResult = 8 /\
  off_JUnitTestOutputImpl_results_ = 0 /\ off_JUnitTestOutputImpl_file_ = 8 /\ off_JUnitTestOutputImpl_package_ = 9 /\
  off_JUnitTestOutputImpl_stdOutput_ = 10 /\ cells_JUnitTestOutputImpl = 11 /\
  off_JUnitTestOutput_impl_ = 0 /\ cells_JUnitTestOutput = 1.
Proof. repeat split; reflexivity. Qed.

(* ------------------------------------------------------------------ concrete states: what the cells hold *)
(* a TestFailure: testName_ testNameOnly_ fileName_ lineNumber_ testFileName_ testLineNumber_ message_ (texts are ids) *)
Record cfail := { cf_tn : Z; cf_tno : Z; cf_file : Z; cf_line : Z; cf_tfile : Z; cf_tline : Z; cf_msg : Z }.
Definition fail_cells (f : cfail) : list val :=
  [VInt (cf_tn f); VInt (cf_tno f); VInt (cf_file f); VInt (cf_line f); VInt (cf_tfile f); VInt (cf_tline f); VInt (cf_msg f)].

(* a JUnitTestCaseResultNode; c_fail = the block of the kept failure and what it holds; c_cc = checkCount_ (cumulative) *)
Record cnode := { c_name : Z; c_exec : Z; c_fail : option (nat * cfail); c_ign : bool; c_file : Z; c_line : Z; c_cc : Z }.
Definition fptr (o : option (nat * cfail)) : hptr := match o with Some (fb, _) => HPtr fb 0 | None => HNull end.
Definition node_cells (c : cnode) (nxt : hptr) : list val :=
  [VInt (c_name c); VInt (c_exec c); VPtr (fptr (c_fail c)); VInt (b2z (c_ign c)); VInt (c_file c); VInt (c_line c);
   VInt (c_cc c); VPtr nxt].
Definition new_node_cells : list val := [VInt 0; VInt 0; VPtr HNull; VInt 0; VInt 0; VInt 0; VInt 0; VPtr HNull].
Definition cnode0 : cnode := {| c_name := 0; c_exec := 0; c_fail := None; c_ign := false; c_file := 0; c_line := 0; c_cc := 0 |}.

(* the JUnitTestOutputImpl; k_nodes oldest first (the order of the chain); k_filev = the file_ cell (never read) *)
Record cstate := { k_nodes : list cnode; k_tc : Z; k_fc : Z; k_total : Z; k_start : Z; k_gexec : Z; k_group : Z;
                   k_filev : val; k_pkg : Z; k_out : Z }.
Definition impl_cells (k : cstate) (hd tl : hptr) : list val :=
  [VInt (k_tc k); VInt (k_fc k); VInt (k_total k); VInt (k_start k); VInt (k_gexec k); VInt (k_group k); VPtr hd; VPtr tl;
   k_filev k; VInt (k_pkg k); VInt (k_out k)].

Lemma cells_lengths :
  (forall f, Z.of_nat (length (fail_cells f)) = cells_TestFailure) /\
  (forall c nxt, Z.of_nat (length (node_cells c nxt)) = cells_JUnitTestCaseResultNode) /\
  Z.of_nat (length new_node_cells) = cells_JUnitTestCaseResultNode /\ new_node_cells = node_cells cnode0 HNull /\
  (forall k hd tl, Z.of_nat (length (impl_cells k hd tl)) = cells_JUnitTestOutputImpl).
Proof. repeat split; reflexivity. Qed.

Definition fail_ok (h : heap) (c : cnode) : Prop :=
  match c_fail c with Some (fb, f) => hblock h fb = fail_cells f | None => True end.

(* jchain h p bs cs: from pointer p the blocks bs (in this order) hold the nodes cs, linked by next_, ending in NULL; the kept
   failure of each node is where the node says *)
Fixpoint jchain (h : heap) (p : hptr) (bs : list nat) (cs : list cnode) : Prop :=
  match cs, bs with
  | [], [] => p = HNull
  | c :: cs', b :: bs' => p = HPtr b 0 /\ fail_ok h c /\ exists nxt, hblock h b = node_cells c nxt /\ jchain h nxt bs' cs'
  | _, _ => False
  end.
Definition fblock (c : cnode) : list nat := match c_fail c with Some (fb, _) => [fb] | None => [] end.
Definition fblocks (cs : list cnode) : list nat := flat_map fblock cs.
Definition tail_ptr (bs : list nat) : hptr := match rev bs with b :: _ => HPtr b 0 | [] => HNull end.

(* every block of the structure: the output object, the impl, the nodes, the kept failures *)
Definition jblocks (ob ib : nat) (bs : list nat) (cs : list cnode) : list nat := ob :: ib :: bs ++ fblocks cs.

Definition cjunit_at (h : heap) (ob ib : nat) (bs : list nat) (k : cstate) : Prop :=
  hblock h ob = [VPtr (HPtr ib 0)] /\
  exists hd, hblock h ib = impl_cells k hd (tail_ptr bs) /\ jchain h hd bs (k_nodes k) /\
             NoDup (jblocks ob ib bs (k_nodes k)) /\ Forall (fun b => (b < length h)%nat) (jblocks ob ib bs (k_nodes k)).

(* the arguments of the callbacks: a UtestShell (group_ name_ file_ lineNumber_ next_ isRunAsSeperateProcess_ hasFailed_; the
   three texts are ids) and a TestResult (13 cells; checkCount_ at 3, currentTestTotalExecutionTime_ at 10,
   currentGroupTotalExecutionTime_ at 12) *)
Record cshell := { sh_group : Z; sh_name : Z; sh_file : Z; sh_line : Z; sh_next : val; sh_sep : val; sh_failed : val }.
Definition shell_cells (t : cshell) : list val :=
  [VInt (sh_group t); VInt (sh_name t); VInt (sh_file t); VInt (sh_line t); sh_next t; sh_sep t; sh_failed t].
Record ctr := { tr_out : val; tr_tests : Z; tr_runs : Z; tr_checks : Z; tr_fails : Z; tr_filtered : Z; tr_ignored : Z;
                tr_total_ms : Z; tr_started : Z; tr_test_started : Z; tr_test_ms : Z; tr_group_started : Z; tr_group_ms : Z }.
Definition tr_cells (r : ctr) : list val :=
  [tr_out r; VInt (tr_tests r); VInt (tr_runs r); VInt (tr_checks r); VInt (tr_fails r); VInt (tr_filtered r); VInt (tr_ignored r);
   VInt (tr_total_ms r); VInt (tr_started r); VInt (tr_test_started r); VInt (tr_test_ms r); VInt (tr_group_started r);
   VInt (tr_group_ms r)].
Lemma arg_cells_lengths :
  (forall t, Z.of_nat (length (shell_cells t)) = cells_UtestShell) /\ (forall r, Z.of_nat (length (tr_cells r)) = cells_TestResult) /\
  (forall t, nth_error (shell_cells t) (Z.to_nat off_UtestShell_group_) = Some (VInt (sh_group t)) /\
             nth_error (shell_cells t) (Z.to_nat off_UtestShell_name_) = Some (VInt (sh_name t)) /\
             nth_error (shell_cells t) (Z.to_nat off_UtestShell_file_) = Some (VInt (sh_file t)) /\
             nth_error (shell_cells t) (Z.to_nat off_UtestShell_lineNumber_) = Some (VInt (sh_line t))) /\
  (forall r, nth_error (tr_cells r) (Z.to_nat off_TestResult_checkCount_) = Some (VInt (tr_checks r)) /\
             nth_error (tr_cells r) (Z.to_nat off_TestResult_currentTestTotalExecutionTime_) = Some (VInt (tr_test_ms r)) /\
             nth_error (tr_cells r) (Z.to_nat off_TestResult_currentGroupTotalExecutionTime_) = Some (VInt (tr_group_ms r))).
Proof. repeat split; reflexivity. Qed.

(* updates of a concrete state / node (the members the translated functions never write keep their value) *)
Definition k_with (k : cstate) (nodes : list cnode) (tc fc total start gexec group : Z) : cstate :=
  {| k_nodes := nodes; k_tc := tc; k_fc := fc; k_total := total; k_start := start; k_gexec := gexec; k_group := group;
     k_filev := k_filev k; k_pkg := k_pkg k; k_out := k_out k |}.
Definition c_with (c : cnode) (ex : Z) (fl : option (nat * cfail)) (cc : Z) : cnode :=
  {| c_name := c_name c; c_exec := ex; c_fail := fl; c_ign := c_ign c; c_file := c_file c; c_line := c_line c; c_cc := cc |}.

(* ------------------------------------------------------------------ reading a concrete state as a model state *)
Section Abs.
  Variable txt : Z -> bytes.

  Definition fail_rel (o : option (nat * cfail)) (m : option (bytes * N * bytes)) : Prop :=
    match o, m with
    | None, None => True
    | Some (_, f), Some (file, line, msg) => txt (cf_file f) = file /\ cf_line f = Z.of_N line /\ txt (cf_msg f) = msg
    | _, _ => False
    end.
  Definition node_rel (c : cnode) (n : jnode) : Prop :=
    txt (c_name c) = n_name n /\ txt (c_file c) = n_file n /\ c_line c = Z.of_N (n_line n) /\ c_ign c = n_ignored n /\
    fail_rel (c_fail c) (n_failure n).
  (* both lists oldest first; acc = the cumulative check count before the first node *)
  Fixpoint nodes_rel (acc : Z) (cs : list cnode) (ns : list jnode) : Prop :=
    match cs, ns with
    | [], [] => True
    | c :: cs', n :: ns' => node_rel c n /\ c_cc c = acc + Z.of_N (n_checks n) /\ nodes_rel (c_cc c) cs' ns'
    | _, _ => False
    end.
  (* the cumulative count after the nodes *)
  Definition last_cc (acc : Z) (cs : list cnode) : Z := fold_left (fun _ c => c_cc c) cs acc.
  Definition sum_checks (ns : list jnode) : N := fold_right (fun n a => (n_checks n + a)%N) 0%N ns.

  (* o = true: the newest node has been started and not ended (checkCount_ = 0, n_checks = 0), the others are closed *)
  Definition state_rel (o : bool) (k : cstate) (st : jstate) (total : Z) : Prop :=
    k_tc k = Z.of_N (j_testCount st) /\ k_fc k = Z.of_N (j_failureCount st) /\ txt (k_group k) = j_group st /\
    k_total k = total /\ txt (k_pkg k) = j_pkg st /\ txt (k_out k) = j_stdout st /\
    if o then exists c n cs' ns', k_nodes k = cs' ++ [c] /\ j_nodes st = n :: ns' /\ nodes_rel total cs' (rev ns') /\
                                  node_rel c n /\ c_cc c = 0 /\ n_checks n = 0%N
    else nodes_rel total (k_nodes k) (rev (j_nodes st)).

  Definition junit_at_o (o : bool) (h : heap) (ob ib : nat) (bs : list nat) (st : jstate) (totalChecks : Z) : Prop :=
    exists k, cjunit_at h ob ib bs k /\ state_rel o k st totalChecks.
  Definition junit_at := junit_at_o false.
End Abs.

(* ------------------------------------------------------------------ basic facts *)
Lemma jchain_nil_inv h p bs : jchain h p bs [] -> p = HNull /\ bs = [].
Proof. destruct bs; cbn; [intro H; split; [exact H | reflexivity] | intros []]. Qed.
Lemma jchain_cons_inv h p bs c cs : jchain h p bs (c :: cs) ->
  exists b bs' nxt, bs = b :: bs' /\ p = HPtr b 0 /\ fail_ok h c /\ hblock h b = node_cells c nxt /\ jchain h nxt bs' cs.
Proof.
  destruct bs as [|b bs']; cbn; [intros []|]. intros [Hp [Hf [nxt [Hb Hc]]]]. exists b, bs', nxt. repeat split; assumption.
Qed.
Lemma jchain_length h : forall cs p bs, jchain h p bs cs -> length bs = length cs.
Proof.
  induction cs as [|c cs IH]; intros p bs H.
  - apply jchain_nil_inv in H. destruct H as [_ ->]. reflexivity.
  - apply jchain_cons_inv in H. destruct H as [b [bs' [nxt [-> [_ [_ [_ Hc]]]]]]]. cbn. f_equal. exact (IH _ _ Hc).
Qed.
Lemma fail_ok_frame h h' c : (forall b, In b (fblock c) -> hblock h' b = hblock h b) -> fail_ok h c -> fail_ok h' c.
Proof.
  unfold fail_ok, fblock. destruct (c_fail c) as [[fb f]|]; [|intros _ _; exact I].
  intros Hf H. rewrite Hf by (left; reflexivity). exact H.
Qed.
(* a chain only depends on the blocks it goes through and on the failure blocks of its nodes *)
Lemma jchain_frame h h' : forall cs p bs, (forall b, In b (bs ++ fblocks cs) -> hblock h' b = hblock h b) ->
  jchain h p bs cs -> jchain h' p bs cs.
Proof.
  induction cs as [|c cs IH]; intros p bs Hf H.
  - apply jchain_nil_inv in H. destruct H as [-> ->]. reflexivity.
  - apply jchain_cons_inv in H. destruct H as [b [bs' [nxt [-> [-> [Hfo [Hb Hc]]]]]]]. cbn [jchain]. split; [reflexivity|]. split.
    + apply (fail_ok_frame h); [|exact Hfo]. intros b' Hin. apply Hf. apply in_or_app. right. unfold fblocks. cbn [flat_map].
      apply in_or_app. left. exact Hin.
    + exists nxt. split.
      * rewrite Hf by (left; reflexivity). exact Hb.
      * apply IH; [|exact Hc]. intros b' Hin. apply Hf. apply in_app_or in Hin. destruct Hin as [Hin|Hin].
        -- right. apply in_or_app. left. exact Hin.
        -- apply in_or_app. right. unfold fblocks. cbn [flat_map]. apply in_or_app. right. exact Hin.
Qed.
Lemma fblocks_app a b : fblocks (a ++ b) = fblocks a ++ fblocks b.
Proof. unfold fblocks. apply flat_map_app. Qed.
Lemma tail_ptr_snoc bs b : tail_ptr (bs ++ [b]) = HPtr b 0.
Proof. unfold tail_ptr. rewrite rev_unit. reflexivity. Qed.
Lemma tail_ptr_nil : tail_ptr [] = HNull. Proof. reflexivity. Qed.

(* a chain whose last block is known: the nodes before it, then the last node with next_ = NULL *)
Lemma jchain_snoc_inv h : forall cs p bs c, jchain h p bs (cs ++ [c]) ->
  exists bs' b, bs = bs' ++ [b] /\ length bs' = length cs /\ hblock h b = node_cells c HNull /\ fail_ok h c.
Proof.
  induction cs as [|c0 cs IH]; intros p bs c H.
  - cbn [app] in H. apply jchain_cons_inv in H. destruct H as [b [bs' [nxt [-> [_ [Hf [Hb Hc]]]]]]].
    apply jchain_nil_inv in Hc. destruct Hc as [-> ->]. exists [], b. repeat split; assumption.
  - cbn [app] in H. apply jchain_cons_inv in H. destruct H as [b [bs' [nxt [-> [_ [_ [_ Hc]]]]]]].
    destruct (IH _ _ _ Hc) as [bs'' [b' [-> [Hl [Hb' Hf']]]]]. exists (b :: bs''), b'. cbn [app length]. repeat split; auto.
Qed.
(* replacing the last node (same block), or hanging a new block behind it *)
Lemma jchain_set_last h h' : forall cs p bs b c c',
  jchain h p (bs ++ [b]) (cs ++ [c]) -> length bs = length cs ->
  (forall x, In x (bs ++ fblocks cs) -> hblock h' x = hblock h x) ->
  hblock h' b = node_cells c' HNull -> fail_ok h' c' -> jchain h' p (bs ++ [b]) (cs ++ [c']).
Proof.
  induction cs as [|c0 cs IH]; intros p bs b c c' H Hl Hf Hb Hfo.
  - destruct bs; [|discriminate Hl]. cbn [app] in *. apply jchain_cons_inv in H.
    destruct H as [b0 [bs' [nxt [E [-> _]]]]]. inversion E; subst. cbn [jchain]. split; [reflexivity|]. split; [exact Hfo|].
    exists HNull. split; [exact Hb | reflexivity].
  - destruct bs as [|b0 bs]; [discriminate Hl|]. cbn [app length] in *. apply jchain_cons_inv in H.
    destruct H as [b1 [bs' [nxt [E [-> [Hfo0 [Hb0 Hc]]]]]]]. inversion E; subst. cbn [jchain]. split; [reflexivity|]. split.
    + apply (fail_ok_frame h); [|exact Hfo0]. intros x Hin. apply Hf. right. apply in_or_app. right. unfold fblocks. cbn [flat_map].
      apply in_or_app. left. exact Hin.
    + exists nxt. split.
      * rewrite Hf by (left; reflexivity). exact Hb0.
      * apply (IH _ _ _ c); [exact Hc | lia | | exact Hb | exact Hfo]. intros x Hin. apply Hf. apply in_app_or in Hin.
        destruct Hin as [Hin|Hin]; [right; apply in_or_app; left; exact Hin|]. right. apply in_or_app. right. unfold fblocks.
        cbn [flat_map]. apply in_or_app. right. exact Hin.
Qed.
Lemma jchain_append h h' : forall cs p bs b c bn cn,
  jchain h p (bs ++ [b]) (cs ++ [c]) -> length bs = length cs ->
  (forall x, In x (bs ++ fblocks (cs ++ [c])) -> hblock h' x = hblock h x) ->
  hblock h' b = node_cells c (HPtr bn 0) -> hblock h' bn = node_cells cn HNull -> fail_ok h' cn ->
  jchain h' p ((bs ++ [b]) ++ [bn]) ((cs ++ [c]) ++ [cn]).
Proof.
  induction cs as [|c0 cs IH]; intros p bs b c bn cn H Hl Hf Hb Hbn Hfo.
  - destruct bs; [|discriminate Hl]. cbn [app] in *. apply jchain_cons_inv in H.
    destruct H as [b0 [bs' [nxt [E [-> [Hfc _]]]]]]. inversion E; subst. cbn [jchain]. split; [reflexivity|]. split.
    + apply (fail_ok_frame h); [|exact Hfc]. intros x Hin. apply Hf. unfold fblocks. cbn [flat_map]. rewrite app_nil_r. exact Hin.
    + exists (HPtr bn 0). split; [exact Hb|]. split; [reflexivity|]. split; [exact Hfo|]. exists HNull. split; [exact Hbn | reflexivity].
  - destruct bs as [|b0 bs]; [discriminate Hl|]. cbn [app length] in *. apply jchain_cons_inv in H.
    destruct H as [b1 [bs' [nxt [E [-> [Hfo0 [Hb0 Hc]]]]]]]. inversion E; subst. cbn [jchain]. split; [reflexivity|]. split.
    + apply (fail_ok_frame h); [|exact Hfo0]. intros x Hin. apply Hf. right. apply in_or_app. right. unfold fblocks. cbn [flat_map].
      apply in_or_app. left. exact Hin.
    + exists nxt. split.
      * rewrite Hf by (left; reflexivity). exact Hb0.
      * apply (IH _ _ _ c); [exact Hc | lia | | exact Hb | exact Hbn | exact Hfo]. intros x Hin. apply Hf. apply in_app_or in Hin.
        destruct Hin as [Hin|Hin]; [right; apply in_or_app; left; exact Hin|]. right. apply in_or_app. right. unfold fblocks.
        cbn [flat_map]. apply in_or_app. right. exact Hin.
Qed.

Lemma nodes_rel_length txt : forall cs acc ns, nodes_rel txt acc cs ns -> length cs = length ns.
Proof.
  induction cs as [|c cs IH]; intros acc [|n ns] H; cbn in H; try contradiction; [reflexivity|].
  cbn. f_equal. destruct H as [_ [_ H]]. exact (IH _ _ H).
Qed.
Lemma nodes_rel_app txt : forall cs acc ns cs' ns', nodes_rel txt acc cs ns -> nodes_rel txt (last_cc acc cs) cs' ns' ->
  nodes_rel txt acc (cs ++ cs') (ns ++ ns').
Proof.
  induction cs as [|c cs IH]; intros acc [|n ns] cs' ns' H H'; cbn in H; try contradiction.
  - exact H'.
  - destruct H as [H1 [H2 H3]]. cbn [app nodes_rel]. split; [exact H1|]. split; [exact H2|]. apply IH; [exact H3|]. exact H'.
Qed.
Lemma nodes_rel_snoc_inv txt : forall cs acc c ns, nodes_rel txt acc (cs ++ [c]) ns ->
  exists ns' n, ns = ns' ++ [n] /\ nodes_rel txt acc cs ns' /\ node_rel txt c n /\ c_cc c = last_cc acc cs + Z.of_N (n_checks n).
Proof.
  induction cs as [|c0 cs IH]; intros acc c ns H.
  - destruct ns as [|n [|n' ns]]; cbn [app nodes_rel] in H; try contradiction; [|destruct H as [_ [_ []]]].
    destruct H as [H1 [H2 _]]. exists [], n. split; [reflexivity|]. split; [exact I|]. split; [exact H1 | exact H2].
  - destruct ns as [|n0 ns]; cbn [app nodes_rel] in H; [contradiction|]. destruct H as [H1 [H2 H3]].
    destruct (IH _ _ _ H3) as [ns' [n [-> [Ha [Hb Hc]]]]]. exists (n0 :: ns'), n. cbn [app nodes_rel last_cc fold_left].
    split; [reflexivity|]. split; [split; [exact H1 | split; [exact H2 | exact Ha]]|]. split; [exact Hb | exact Hc].
Qed.
Lemma last_cc_app acc a b : last_cc acc (a ++ b) = last_cc (last_cc acc a) b.
Proof. unfold last_cc. apply fold_left_app. Qed.
Lemma last_cc_sum txt : forall cs acc ns, nodes_rel txt acc cs ns -> last_cc acc cs = acc + Z.of_N (sum_checks ns).
Proof.
  induction cs as [|c cs IH]; intros acc [|n ns] H; cbn in H; try contradiction.
  - cbn. lia.
  - destruct H as [_ [H2 H3]]. cbn [last_cc fold_left]. change (fold_left (fun _ c => c_cc c) cs (c_cc c)) with (last_cc (c_cc c) cs).
    rewrite (IH _ _ H3). cbn [sum_checks fold_right]. fold (sum_checks ns). lia.
Qed.

(* ------------------------------------------------------------------ the events as file contents *)
(* %d of an int: a negative number (does not occur under the hypotheses of the theorems) is '-' and the digits *)
Definition sdec (z : Z) : bytes := if z <? 0 then 45%N :: dec (Z.to_N (- z)) else dec (Z.to_N z).
Definition pad0 (w : nat) (s : bytes) : bytes := repeat 48%N (w - length s) ++ s.
(* %03d: at least 3 characters, filled with zeros after the sign *)
Definition sdec03 (z : Z) : bytes := if z <? 0 then 45%N :: pad0 2 (dec (Z.to_N (- z))) else pad0 3 (dec (Z.to_N z)).

(* the printf subset that occurs: %s %d %03d (and %% for totality); anything else after '%' is copied *)
Inductive fpiece := FC (c : N) | FS | FD | FD03.
Fixpoint fmt_parse (f : bytes) (skip : nat) : list fpiece :=
  match f with
  | [] => []
  | c :: r =>
      match skip with
      | S k => fmt_parse r k
      | O =>
          if (c =? 37)%N then
            if is_prefix [115%N] r then FS :: fmt_parse r 1
            else if is_prefix [100%N] r then FD :: fmt_parse r 1
            else if is_prefix [48%N; 51%N; 100%N] r then FD03 :: fmt_parse r 3
            else if is_prefix [37%N] r then FC 37%N :: fmt_parse r 1
            else FC c :: fmt_parse r 0
          else FC c :: fmt_parse r 0
      end
  end.

Section Render.
  Variable txt : Z -> bytes.
  Definition lookup (id : Z) (defs : list (Z * bytes)) : bytes :=
    match find (fun d => fst d =? id) defs with Some d => snd d | None => [] end.
  (* an argument printed through %s (a number there is not C; it is printed as %d would) and through %d / %03d *)
  Definition arg_s (defs : list (Z * bytes)) (a : jarg) : bytes :=
    match a with JLit s => B s | JEnc id => encodeXmlText (txt id) | JNum n => sdec n | JTxt id => lookup id defs end.
  Definition arg_d (a : jarg) : bytes := match a with JNum n => sdec n | _ => [] end.
  Definition arg_d03 (a : jarg) : bytes := match a with JNum n => sdec03 n | _ => [] end.
  Fixpoint fmt_fill (defs : list (Z * bytes)) (ps : list fpiece) (args : list jarg) : bytes :=
    match ps with
    | [] => []
    | FC c :: r => c :: fmt_fill defs r args
    | FS :: r => match args with a :: args' => arg_s defs a ++ fmt_fill defs r args' | [] => fmt_fill defs r [] end
    | FD :: r => match args with a :: args' => arg_d a ++ fmt_fill defs r args' | [] => fmt_fill defs r [] end
    | FD03 :: r => match args with a :: args' => arg_d03 a ++ fmt_fill defs r args' | [] => fmt_fill defs r [] end
    end.
  Definition fmt_render (defs : list (Z * bytes)) (fmt : String.string) (args : list jarg) : bytes :=
    fmt_fill defs (fmt_parse (B fmt) 0) args.

  (* reading the events: the texts defined so far (newest first), the file being written (group id, content so far), the files
     closed so far (newest first).  A JWrite outside JOpen .. JClose is dropped (the real fputs would get a stale file). *)
  Record fstate := { f_defs : list (Z * bytes); f_cur : option (Z * bytes); f_done : list (Z * bytes) }.
  Definition fstep (s : fstate) (e : hev) : fstate :=
    match e with
    | JFormat id fmt args => {| f_defs := (id, fmt_render (f_defs s) fmt args) :: f_defs s; f_cur := f_cur s; f_done := f_done s |}
    | JWrite a =>
        match f_cur s with
        | Some (g, acc) => {| f_defs := f_defs s; f_cur := Some (g, acc ++ arg_s (f_defs s) a); f_done := f_done s |}
        | None => s
        end
    | JOpen g => {| f_defs := f_defs s; f_cur := Some (g, []); f_done := f_done s |}
    | JClose =>
        match f_cur s with
        | Some f => {| f_defs := f_defs s; f_cur := None; f_done := f :: f_done s |}
        | None => s
        end
    | JNew _ | JDelete _ => s
    end.
  Definition frun (s : fstate) (evs : list hev) : fstate := fold_left fstep evs s.
  Definition f0 : fstate := {| f_defs := []; f_cur := None; f_done := [] |}.
  (* (group id, content) of every file opened and closed, in the order they were closed *)
  Definition files_of (evs : list hev) : list (Z * bytes) := rev (f_done (frun f0 evs)).

  Lemma frun_app s a b : frun s (a ++ b) = frun (frun s a) b.
  Proof. unfold frun. apply fold_left_app. Qed.
End Render.

(* the time attribute "%d.%03d" of an execution time in ms, and the model's instance *)
Definition time_render (ms : Z) : bytes := sdec (ms / 1000) ++ [46%N] ++ sdec03 (ms mod 1000).
Lemma time_render_zero : time_render 0 = L_zero_time.
Proof. reflexivity. Qed.

Lemma sdec_of_N n : sdec (Z.of_N n) = dec n.
Proof.
  unfold sdec. replace (Z.of_N n <? 0) with false by (symmetry; apply Z.ltb_ge; lia). rewrite N2Z.id. reflexivity.
Qed.
