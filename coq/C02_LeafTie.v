(* C02: the filter semantics of the model (accept by substring, by exact match, or by the negation of either) is EQUAL to the
   definition tools/cxx2coq.py regenerates from /repo's TestFilter.cpp on every run (gen/Gen_LeafC02.v): TestFilter::match with
   `name == filter_` read as byte-string equality and `name.contains(filter_)` as the substring relation of lib/Str.v
   (the C13 theorems tie those two SimpleString operations to these textbook functions). *)
From Coq Require Import ZArith NArith Bool List.
From CppUVerif Require Import lib.CSem lib.Str gen.Gen_LeafC02 C02_Model.

Lemma C02_filter_match_is_the_source : forall f x,
  leaf_filter_match x (b2z (f_strict f)) (f_pat f) (b2z (f_invert f)) = b2z (accepts f x).
Proof.
  intros f x. unfold leaf_filter_match, accepts, c_lnot.
  destruct (f_strict f), (f_invert f); cbn [b2z z2b Z.eqb negb xorb];
    match goal with |- context [bytes_eqb ?a ?b] => destruct (bytes_eqb a b) | |- context [contains ?a ?b] => destruct (contains a b) end; reflexivity.
Qed.
