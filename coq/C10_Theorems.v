(* C10 -- the statements of Properties_C10.v as lemmas: reachable states, serialisation trace, refutations, examples. *)
From Coq Require Import NArith Arith Bool List Lia.
From CppUVerif Require Import C10_Wiring gen.Gen_C10 C10_Model C10_Steps C10_Lock C10_Data C10_Sched C10_Proofs C10_Main C10_Compose.
Import ListNotations.

(* the configuration of the code as it is: regenerated wiring, repaired reporter *)
Definition the_cfg (s : scenario) : cfg := cfg_of ts_table true s.
(* any state some schedule reaches from the start of a scenario *)
Definition reached (s : scenario) (sched : list nat) : state := exec (the_cfg s) sched (init_state s).

Lemma the_cfg_good : forall s, wiring_good (the_cfg s).
Proof. intros. apply wiring_ok_good. exact ts_wiring_ok. Qed.
Lemma the_cfg_lock : forall s, all_lock (the_cfg s).
Proof. intros. apply wiring_good_all_lock. apply the_cfg_good. Qed.

Lemma reached_lockinv : forall s sched, LockInv (reached s sched).
Proof. intros. apply lockinv_exec. apply the_cfg_lock. reflexivity. apply lockinv_init. Qed.

Lemma reached_datainv : forall s sched, valid s = true -> DataInv (sc_scripts s) (reached s sched).
Proof.
  intros s sched Hv.
  apply (both_exec (the_cfg s) (the_cfg_good s) eq_refl (sc_scripts s) sched (init_state s) (lockinv_init s) (datainv_init s (valid_first s Hv))).
Qed.

(* ---------------- mutual exclusion; what a thread has read is still the shared state when it writes *)
Lemma mutex : forall s sched t1 t2 th1 th2,
  nth_error (st_threads (reached s sched)) t1 = Some th1 -> nth_error (st_threads (reached s sched)) t2 = Some th2 ->
  in_cs (th_phase th1) = true -> in_cs (th_phase th2) = true -> t1 = t2.
Proof. intros. eapply mutex_of_inv; eauto. apply reached_lockinv. Qed.

Lemma read_is_current : forall s sched t th snap,
  nth_error (st_threads (reached s sched)) t = Some th -> th_phase th = PRead snap -> snap = st_sh (reached s sched).
Proof. intros. eapply li_snap; eauto. apply reached_lockinv. Qed.

(* ---------------- the lock is held only by a thread inside a wrapper *)
Lemma lock_released : forall s sched t th,
  nth_error (st_threads (reached s sched)) t = Some th -> in_cs (th_phase th) = false -> st_lock (reached s sched) <> LHeld t.
Proof.
  intros s sched t th Hn Hc E. destruct (li_held _ (reached_lockinv s sched) _ E) as (th' & Hn' & Hc'). congruence.
Qed.

Lemma lock_free_when_all_outside : forall s sched,
  (forall t th, nth_error (st_threads (reached s sched)) t = Some th -> in_cs (th_phase th) = false) ->
  st_lock (reached s sched) = LFree.
Proof. intros. apply lock_free_outside; auto. apply reached_lockinv. Qed.

(* ---------------- no deadlock; every schedule can be completed *)
Lemma no_deadlock : forall s sched, all_done (reached s sched) = false ->
  exists t, enabled (the_cfg s) (reached s sched) t = true /\ step (the_cfg s) t (reached s sched) <> reached s sched.
Proof.
  intros s sched H. destruct (no_deadlock_of_inv (the_cfg s) _ (reached_lockinv s sched) H) as (t & Hf).
  unfold first_enabled in Hf. apply find_some in Hf. destruct Hf as (_ & He). exists t. split; auto. apply enabled_step_moves; auto.
Qed.

Lemma completes : forall s sched, all_done (complete (the_cfg s) (reached s sched)) = true.
Proof. intros. apply (complete_done (the_cfg s) (the_cfg_lock s) eq_refl _ (reached_lockinv s sched)). Qed.

(* ---------------- occupancy of the locked region over a whole execution (the schedule, then the run to the end) *)
Lemma region_occupancy : forall s sched,
  occupancy (reached s sched) <= 1 /\ run_peak (the_cfg s) sched (init_state s) <= 1.
Proof.
  intros s sched. split.
  - apply occupancy_le_1. apply reached_lockinv.
  - apply run_peak_le_1. apply the_cfg_lock. reflexivity. apply lockinv_init.
Qed.

Definition incl_b (a b : list (nat * nat * N)) : bool := forallb (fun x => existsb (triple_eqb x) b) a.

Lemma triple_eqb_eq : forall a b, triple_eqb a b = true -> a = b.
Proof.
  intros [[t k] z] [[t' k'] z'] H. simpl in H. apply andb_true_iff in H. destruct H as (H & H3). apply andb_true_iff in H. destruct H as (H1 & H2).
  apply Nat.eqb_eq in H1. apply Nat.eqb_eq in H2. apply N.eqb_eq in H3. congruence.
Qed.
Lemma incl_b_incl : forall a b, incl_b a b = true -> incl a b.
Proof.
  intros a b H x Hx. unfold incl_b in H. rewrite forallb_forall in H. specialize (H x Hx). apply existsb_exists in H.
  destruct H as (y & Hy & E). apply triple_eqb_eq in E. congruence.
Qed.
Lemma list_bool_eqb_eq : forall a b, list_bool_eqb a b = true -> a = b.
Proof.
  induction a; destruct b; simpl; intros H; try discriminate; auto.
  apply andb_true_iff in H. destruct H as (H1 & H2). apply Bool.eqb_prop in H1. f_equal; auto.
Qed.

(* ---------------- sequence numbers *)
Lemma sequence_numbers : forall s sched, valid s = true ->
  let st := reached s sched in
  NoDup (map t_seq (sh_table (st_sh st)))
  /\ (forall x, In x (sh_table (st_sh st)) -> (1 <= t_seq x < sh_seq (st_sh st))%N)
  /\ (sh_seq (st_sh st) = 1 + st_outallocs st + sum_allocs (st_threads st))%N.
Proof.
  intros s sched Hv st. pose proof (reached_datainv s sched Hv) as D. pose proof (di_tbl _ _ D) as T.
  split; [apply (ti_seqs _ _ T)|]. split; [apply (ti_seq _ _ T)|apply (di_count _ _ D)].
Qed.

(* ---------------- serialisation: the shared state is the result of the critical sections one after another *)
Inductive event := EvOp (t : nat) (o : op) (L : local) | EvPrint.
Definition apply_event (c : cfg) (sh : shared) (e : event) : shared :=
  match e with
  | EvOp t o L => fst (detector c t o L sh)
  | EvPrint => {| sh_table := sh_table sh; sh_seq := N.succ (sh_seq sh) |}
  end.
(* the event on the shared state that thread t's next micro-step performs, if any *)
Definition step_event (c : cfg) (t : nat) (st : state) : option event :=
  match nth_error (st_threads st) t with
  | Some th =>
      match th_pc th, th_phase th with
      | o :: _, PRead _ => Some (EvOp t o (th_loc th))
      | _ :: _, PPrint => if cfg_outalloc c && lock_free (st_lock st) then Some EvPrint else None
      | _, _ => None
      end
  | None => None
  end.
Fixpoint trace (c : cfg) (sched : list nat) (st : state) : list event :=
  match sched with
  | [] => []
  | t :: r => (match step_event c t st with Some e => [e] | None => [] end) ++ trace c r (step c t st)
  end.

Lemma step_shared : forall c t st, LockInv st ->
  st_sh (step c t st) = match step_event c t st with Some e => apply_event c (st_sh st) e | None => st_sh st end.
Proof.
  intros c t st I. unfold step, step_event.
  destruct (nth_error (st_threads st) t) as [th|] eqn:Hn; auto.
  destruct (th_pc th) as [|o r] eqn:Hp; auto.
  destruct (th_phase th) eqn:Hph; simpl; auto.
  - destruct (th_skip th). destruct o; auto. destruct (op_entry o); auto. destruct (op_locks c o); auto. destruct (lock_free (st_lock st)); auto.
  - rewrite (li_snap _ I _ _ _ Hn Hph). destruct (detector c t o (th_loc th) (st_sh st)); auto.
  - destruct (cfg_outalloc c); simpl; auto. destruct (lock_free (st_lock st)); auto.
Qed.

Lemma serialisable_from : forall c, all_lock c -> cfg_reporter_unlocks c = true ->
  forall sched st, LockInv st -> st_sh (exec c sched st) = fold_left (apply_event c) (trace c sched st) (st_sh st).
Proof.
  intros c Hl Hu. unfold exec. induction sched as [|t r IH]; simpl; intros st I; auto.
  rewrite IH by (eapply lockinv_step; eauto; apply step_tstep).
  rewrite fold_left_app. rewrite (step_shared c t st I). destruct (step_event c t st); reflexivity.
Qed.

Lemma serialisable : forall s sched,
  st_sh (reached s sched) = fold_left (apply_event (the_cfg s)) (trace (the_cfg s) sched (init_state s)) sh0.
Proof. intros. apply (serialisable_from (the_cfg s) (the_cfg_lock s) eq_refl sched (init_state s) (lockinv_init s)). Qed.

(* ---------------- examples and refutations *)
(* thread 0: new[] 4 into slot 0, overrun it, delete[] it (misuse), an allocation that must be skipped, next test: malloc;
   thread 1: malloc 16, realloc to 64, new 8 *)
Definition ex_scenario : scenario :=
  {| sc_outalloc := true;
     sc_scripts := [ [OAlloc 0 4 ENewArr; OOverrun 0; OFree 0 EDeleteArr; OAlloc 1 4 ENew; OBoundary; OAlloc 2 8 EMalloc];
                     [OAlloc 0 16 EMalloc; ORealloc 0 64; OAlloc 1 8 ENew] ];
     sc_sched := [0; 1; 0; 1; 1; 0; 0; 1; 1; 0; 1; 0; 0; 1; 0; 1; 1; 1; 0; 0; 1];
     sc_more := [] |}.

Lemma ex_valid : valid ex_scenario = true.
Proof. vm_compute. reflexivity. Qed.
Lemma ex_run : o_done (run ex_scenario) = true /\ o_verdicts (run ex_scenario) = [true; false]
               /\ o_adv (run ex_scenario) = 5%N /\ length (o_entries (run ex_scenario)) = 3.
Proof. vm_compute. repeat split; reflexivity. Qed.
Lemma ex_in_cs : exists sched t th, nth_error (st_threads (reached ex_scenario sched)) t = Some th /\ in_cs (th_phase th) = true.
Proof. exists [0; 0], 0. eexists. split. vm_compute. reflexivity. reflexivity. Qed.
(* thread 0 has taken the lock and rests inside; thread 1 is given six turns and stays outside *)
Lemma ex_occupancy : occupancy (reached ex_scenario [0; 0; 1; 1; 1; 1; 1; 1]) = 1.
Proof. vm_compute. reflexivity. Qed.
Lemma ex_not_done : all_done (reached ex_scenario [0; 1; 0]) = false.
Proof. vm_compute. reflexivity. Qed.

(* D17, the reporter before the repair: the test is left with the lock held, the next allocation never returns *)
Definition lock_released_old_stmt : Prop := forall s, valid s = true -> o_done (run_old s) = true.
Lemma lock_released_old_refuted : ~ lock_released_old_stmt.
Proof. intros H. specialize (H ex_scenario ex_valid). vm_compute in H. discriminate. Qed.

(* what the lock is for: the same wiring with the lock taken out of ONE wrapper (malloc) loses an update *)
Definition unlock_one (e : entry) (tb : wtable) : wtable :=
  map (fun p => if entry_eqb (fst p) e then (fst p, {| w_locks := false; w_action := w_action (snd p) |}) else p) tb.
Definition race_scenario : scenario :=
  {| sc_outalloc := false;
     sc_scripts := [ [OAlloc 0 8 EMalloc]; [OAlloc 0 8 EMalloc] ];
     sc_sched := [0; 1; 0; 1];
     sc_more := [] |}.
Definition lock_not_needed_stmt : Prop :=
  forall e s, valid s = true -> spec s (run_with (unlock_one e ts_table) true s) = true.
Lemma lock_needed : ~ lock_not_needed_stmt.
Proof.
  intros H. specialize (H EMalloc race_scenario eq_refl). vm_compute in H. discriminate.
Qed.

(* ---------------- the order in which critical sections write is the order in which the lock was acquired *)
Definition step_acquires (c : cfg) (t : nat) (st : state) : bool :=
  match nth_error (st_threads st) t with
  | Some th =>
      match th_pc th, th_phase th with
      | o :: _, PIdle => negb (th_skip th) && (match op_entry o with Some _ => true | None => false end)
                         && op_locks c o && lock_free (st_lock st)
      | _, _ => false
      end
  | None => false
  end.
Definition step_commits (t : nat) (st : state) : bool :=
  match nth_error (st_threads st) t with
  | Some th => match th_pc th, th_phase th with _ :: _, PRead _ => true | _, _ => false end
  | None => false
  end.
Fixpoint acq_trace (c : cfg) (sched : list nat) (st : state) : list nat :=
  match sched with
  | [] => []
  | t :: r => (if step_acquires c t st then [t] else []) ++ acq_trace c r (step c t st)
  end.
Fixpoint commit_trace (c : cfg) (sched : list nat) (st : state) : list nat :=
  match sched with
  | [] => []
  | t :: r => (if step_commits t st then [t] else []) ++ commit_trace c r (step c t st)
  end.
(* the thread that has acquired the lock and not yet written *)
Definition pending (st : state) : list nat :=
  match st_lock st with
  | LHeld t => match nth_error (st_threads st) t with
               | Some th => match th_phase th with PLocked | PRead _ => [t] | _ => [] end
               | None => []
               end
  | LFree => []
  end.

Lemma pending_frame : forall st t th th' sh oa,
  nth_error (st_threads st) t = Some th -> st_lock st <> LHeld t ->
  pending (mk_state sh (st_lock st) (set_nth (st_threads st) t th') oa) = pending st.
Proof.
  intros st t th th' sh oa Hn Hl. unfold pending. simpl. destruct (st_lock st) as [|u]; auto.
  rewrite nth_error_set_nth_other; auto; congruence.
Qed.

Lemma acq_commit_step : forall c, all_lock c -> cfg_reporter_unlocks c = true -> forall t st, LockInv st ->
  pending st ++ (if step_acquires c t st then [t] else []) = (if step_commits t st then [t] else []) ++ pending (step c t st).
Proof.
  intros c Hl Hu t st I.
  assert (Hnot : forall th, nth_error (st_threads st) t = Some th -> in_cs (th_phase th) = false -> st_lock st <> LHeld t).
  { intros th Hn Hc E. destruct (li_held _ I _ E) as (th' & Hn' & Hc'). congruence. }
  pose proof (step_tstep c t st) as H. unfold step_acquires, step_commits.
  remember (step c t st) as st' eqn:Est.
  destruct H as [ | th o r Hn Hp Hph Hsk | th o r Hn Hp Hph Hsk He | th o r e Hn Hp Hph Hsk He Hlk Hfree | th o r e Hn Hp Hph Hsk He Hlk
                | th o r Hn Hp Hph | th o r snap sh' failed Hn Hp Hph Hd | th o r Hn Hp Hph | th o r Hn Hp Hph
                | th o r Hn Hp Hph Ho Hfree | th o r Hn Hp Hph Ho ].
  - (* no move: neither an acquisition nor a write *)
    destruct (nth_error (st_threads st) t) as [th|] eqn:Hn; [|rewrite app_nil_r; reflexivity].
    destruct (th_pc th) as [|o r] eqn:Hp; [rewrite app_nil_r; reflexivity|].
    destruct (th_phase th) eqn:Hph; try (rewrite app_nil_r; reflexivity).
    + (* idle: if it could acquire it would have moved *)
      destruct (negb (th_skip th) && match op_entry o with Some _ => true | None => false end && op_locks c o && lock_free (st_lock st)) eqn:E;
        [|rewrite app_nil_r; reflexivity].
      exfalso. apply andb_true_iff in E. destruct E as (E & E4).
      assert (He : enabled c st t = true). { unfold enabled. rewrite Hn, Hp, Hph. rewrite E4. rewrite !orb_true_r. reflexivity. }
      apply (enabled_step_moves c t st He). auto.
    + exfalso. assert (He : enabled c st t = true). { unfold enabled. rewrite Hn, Hp, Hph. reflexivity. }
      apply (enabled_step_moves c t st He). auto.
  - rewrite Hn, Hp, Hph, Hsk. simpl. rewrite app_nil_r.
    unfold upd_thread. erewrite pending_frame; eauto. apply (Hnot th); auto. rewrite Hph; reflexivity.
  - rewrite Hn, Hp, Hph, Hsk, He. simpl. rewrite app_nil_r.
    unfold upd_thread. erewrite pending_frame; eauto. apply (Hnot th); auto. rewrite Hph; reflexivity.
  - (* acquire *)
    rewrite Hn, Hp, Hph, Hsk, He, Hlk, Hfree. simpl.
    unfold pending at 1. rewrite Hfree. simpl. unfold pending. simpl.
    rewrite (nth_error_set_nth_same _ _ _ _ _ Hn). reflexivity.
  - rewrite (Hl _ _ He) in Hlk. discriminate.
  - (* read *)
    rewrite Hn, Hp, Hph. simpl. rewrite app_nil_r.
    assert (Hh : st_lock st = LHeld t) by (eapply li_holder; eauto; rewrite Hph; reflexivity).
    unfold pending. simpl. rewrite Hh. rewrite Hn, Hph. rewrite (nth_error_set_nth_same _ _ _ _ _ Hn). reflexivity.
  - (* commit *)
    rewrite Hn, Hp, Hph. simpl.
    assert (Hh : st_lock st = LHeld t) by (eapply li_holder; eauto; rewrite Hph; reflexivity).
    unfold pending. simpl. rewrite Hh. rewrite Hn, Hph. rewrite (nth_error_set_nth_same _ _ _ _ _ Hn). destruct failed; reflexivity.
  - (* exit *)
    rewrite Hn, Hp, Hph. simpl. rewrite app_nil_r.
    assert (Hh : st_lock st = LHeld t) by (eapply li_holder; eauto; rewrite Hph; reflexivity).
    destruct (li_shape _ I _ _ Hn) as (_ & o' & r' & e & Hp' & He). rewrite Hph; discriminate.
    rewrite Hp in Hp'. inversion Hp'; subst o' r'.
    unfold pending. simpl. rewrite Hh. rewrite Hn, Hph. rewrite (Hl _ _ He), held_by_refl. reflexivity.
  - (* failing *)
    rewrite Hn, Hp, Hph. simpl. rewrite app_nil_r.
    assert (Hh : st_lock st = LHeld t) by (eapply li_holder; eauto; rewrite Hph; reflexivity).
    unfold pending. simpl. rewrite Hh. rewrite Hn, Hph. rewrite Hu, held_by_refl. reflexivity.
  - rewrite Hn, Hp, Hph. simpl. rewrite app_nil_r.
    unfold pending. simpl. rewrite Hfree. reflexivity.
  - rewrite Hn, Hp, Hph. simpl. rewrite app_nil_r.
    unfold upd_thread. erewrite pending_frame; eauto. apply (Hnot th); auto. rewrite Hph; reflexivity.
Qed.

Lemma acq_commit_from : forall c, all_lock c -> cfg_reporter_unlocks c = true -> forall sched st, LockInv st ->
  pending st ++ acq_trace c sched st = commit_trace c sched st ++ pending (exec c sched st).
Proof.
  intros c Hl Hu. unfold exec. induction sched as [|t r IH]; simpl; intros st I.
  - rewrite app_nil_r. reflexivity.
  - rewrite app_assoc. rewrite (acq_commit_step c Hl Hu t st I). rewrite <- !app_assoc. f_equal.
    apply IH. eapply lockinv_step; eauto. apply step_tstep.
Qed.

(* from the start of a scenario: acquisitions = writes followed by the one thread (if any) that holds the lock and has not
   written yet; in particular the two orders are the same list once the lock is free *)
Lemma acquisition_order : forall s sched,
  acq_trace (the_cfg s) sched (init_state s) = commit_trace (the_cfg s) sched (init_state s) ++ pending (reached s sched).
Proof. intros. apply (acq_commit_from (the_cfg s) (the_cfg_lock s) eq_refl sched (init_state s) (lockinv_init s)). Qed.

(* the threads of the serialisation trace's critical sections, in order, are the writes counted by commit_trace *)
Definition ev_tids (l : list event) : list nat := flat_map (fun e => match e with EvOp t _ _ => [t] | EvPrint => [] end) l.
Lemma trace_tids : forall c sched st, ev_tids (trace c sched st) = commit_trace c sched st.
Proof.
  intros c. induction sched as [|t r IH]; simpl; intros st; auto.
  unfold ev_tids in *. rewrite flat_map_app. f_equal; auto.
  unfold step_event, step_commits. destruct (nth_error (st_threads st) t) as [th|]; auto.
  destruct (th_pc th); auto. destruct (th_phase th); auto.
  destruct (cfg_outalloc c && lock_free (st_lock st)); auto.
Qed.

Lemma serialisable_in_acquisition_order : forall s sched,
  st_sh (reached s sched) = fold_left (apply_event (the_cfg s)) (trace (the_cfg s) sched (init_state s)) sh0
  /\ acq_trace (the_cfg s) sched (init_state s) = ev_tids (trace (the_cfg s) sched (init_state s)) ++ pending (reached s sched).
Proof. intros. split. apply serialisable. rewrite trace_tids. apply acquisition_order. Qed.
