(* C08: CLOSING THE LOOP between the translated expectation LIST / ACTUAL CALL (gen/Gen_HeapC08L.v; C08_ListRep / ListTie / CallRep /
   CallTie.v) and the translated expectation OBJECT (gen/Gen_HeapC08E.v; C08_ExpRep.v).

   In the list / call theorems an expectation is an opaque identity, every question asked of it pops an ORACLE stream whose
   content the theorems assume to be `model_answers pred es` (the model's answers of the candidates, in list order), and everything
   it is told is a ghost event LTell / LTellArg whose effect on the expectation is taken from the model (reset_e, mark, mark_out,
   pass_obj, set_fin .. true, call_was_made).  Here: on a heap where every expectation of the master list es is REPRESENTED
   (master_at: exp_at + params_tied at every position, all blocks of all expectations pairwise distinct),
     answers_are_translated : the oracle stream model_answers pred es is, element by element, what the TRANSLATED question
                              function returns on the represented expectation of that position;
     tell_is_translated     : for every ghost tell event, the TRANSLATED tell function run on the represented expectation of the
                              position told turns the heap into one that represents the master list with the model's update at
                              that position (and nothing else changed);
     tells_are_translated   : a whole tell-loop of the list (every candidate told in list order) ~ for_pot f es.
   The tables `question` / `tell` say which translated function and which model function belong to which event name. *)
From Coq Require Import String.
From Coq Require Import ZArith NArith Bool List Lia.
From CppUVerif Require Import lib.CSem lib.CMem lib.CMemFacts lib.CHeap lib.CInt gen.Gen_HeapC08L gen.Gen_HeapC08E C08_Model C08_ListRep C08_ListTie C08_ExpRep.
Import ListNotations.
Local Open Scope Z_scope.

(* the blocks of one represented expectation *)
Record elay := { l_eb : nat; l_li : nat; l_lo : nat; l_in : list (nat * nat); l_out : list (nat * nat) }.
Definition lay_blocks (l : elay) : list nat := exp_blocks (l_eb l) (l_li l) (l_lo l) (l_in l) (l_out l).

Section Tie.
Variable nid : name -> Z.
Variable pn : hptr -> Z.
Variables peq pcomp : hptr -> hptr -> Z.
Variable stands : hptr -> name -> pv -> Prop.
Hypothesis nid_inj : forall a b, nid a = nid b -> a = b.

Definition rep1 (h : heap) (e : expn) (l : elay) : Prop :=
  exp_at nid h (l_eb l) (l_li l) (l_lo l) e (l_in l) (l_out l) /\ params_tied nid pn peq pcomp stands e (l_in l) (l_out l).
(* every expectation of the master list is represented, on pairwise distinct blocks *)
Definition master_at (h : heap) (es : list expn) (lay : list elay) : Prop :=
  Forall2 (rep1 h) es lay /\ NoDup (concat (map lay_blocks lay)).

(* ================================================================== 1. the questions *)
(* event name of the list world, translated function, model value *)
Inductive question : string -> (nat -> heap -> hptr -> fres Z) -> (expn -> Z) -> Prop :=
| Q_relatesTo f : question "relatesTo" (fun fuel h p => src_exp_relatesTo fuel h p (nid f)) (fun e => b2z (relates f e))
| Q_relatesToObject a : question "relatesToObject" (fun fuel h p => src_exp_relatesToObject fuel h p a) (fun e => b2z (relates_obj a e))
| Q_isFulfilled : question "isFulfilled" src_exp_isFulfilled (fun e => b2z (is_fulfilled e))
| Q_canMatchActualCalls : question "canMatchActualCalls" src_exp_canMatchActualCalls (fun e => b2z (can_match e))
| Q_areParametersMatchingActualCall :
    question "areParametersMatchingActualCall" src_exp_areParametersMatchingActualCall (fun e => b2z (params_matching e))
| Q_isMatchingActualCall : question "isMatchingActualCall" src_exp_isMatchingActualCall (fun e => b2z (is_matching e))
| Q_isMatchingActualCallAndFinalized :
    question "isMatchingActualCallAndFinalized" src_exp_isMatchingActualCallAndFinalized (fun e => b2z (is_matching_fin e))
| Q_hasInputParameterWithName n :
    question "hasInputParameterWithName" (fun fuel h p => src_exp_hasInputParameterWithName pn fuel h p (nid n)) (fun e => b2z (has_input_name n e))
| Q_hasOutputParameterWithName n :
    question "hasOutputParameterWithName" (fun fuel h p => src_exp_hasOutputParameterWithName pn fuel h p (nid n)) (fun e => b2z (has_output_name n e))
| Q_hasInputParameter a n v : stands a n v ->
    question "hasInputParameter" (fun fuel h p => src_exp_hasInputParameter pn peq fuel h p a) (fun e => b2z (has_input n v e))
| Q_hasOutputParameter a n v : stands a n v ->
    question "hasOutputParameter" (fun fuel h p => src_exp_hasOutputParameter pn pcomp fuel h p a) (fun e => b2z (has_output n e))
| Q_isOutOfOrder : question "isOutOfOrder" src_exp_isOutOfOrder (fun e => b2z (e_ooo e))
| Q_getActualCallsFulfilled : question "getActualCallsFulfilled" src_exp_getActualCallsFulfilled (fun e => Z.of_N (e_act e)).

(* one question on one represented expectation *)
Theorem question_is_translated q run val h e l fuel : question q run val -> rep1 h e l -> fuel_ok e fuel ->
  run fuel h (HPtr (l_eb l) 0) = FOk (val e).
Proof.
  intros Q [Hat Ht] F. pose proof F as [F1 F2]. destruct Q.
  - exact (relatesTo_model nid nid_inj h _ _ _ e _ _ Hat fuel f).
  - exact (relatesToObject_model nid h _ _ _ e _ _ Hat fuel a).
  - exact (isFulfilled_model nid h _ _ _ e _ _ Hat fuel).
  - exact (canMatchActualCalls_model nid h _ _ _ e _ _ Hat fuel).
  - exact (areParametersMatchingActualCall_model nid h _ _ _ e _ _ Hat fuel F).
  - exact (isMatchingActualCall_model nid h _ _ _ e _ _ Hat fuel F).
  - exact (isMatchingActualCallAndFinalized_model nid h _ _ _ e _ _ Hat fuel F).
  - exact (hasInputParameterWithName_model nid pn peq pcomp stands nid_inj h _ _ _ e _ _ Hat Ht fuel n F1).
  - exact (hasOutputParameterWithName_model nid pn peq pcomp stands nid_inj h _ _ _ e _ _ Hat Ht fuel n F2).
  - exact (hasInputParameter_model nid pn peq pcomp stands nid_inj h _ _ _ e _ _ Hat Ht fuel a n v H F1).
  - exact (hasOutputParameter_model nid pn peq pcomp stands nid_inj h _ _ _ e _ _ Hat Ht fuel a n v H F2).
  - exact (isOutOfOrder_model nid h _ _ _ e _ _ Hat fuel).
  - exact (getActualCallsFulfilled_model nid h _ _ _ e _ _ Hat fuel).
Qed.

(* the answers of the members (by mem) of the master list, against the positions pos_from mem 0 es the list asks (its nodes hold
   idof k for exactly these k, C08_ListTie.rep_of): the answer for position k is what the translated function returns on the
   expectation represented at position k *)
Definition answered (run : nat -> heap -> hptr -> fres Z) (fuel : nat) (h : heap) (lay : list elay) (a : Z) (k : nat) : Prop :=
  exists l, nth_error lay k = Some l /\ run fuel h (HPtr (l_eb l) 0) = FOk a.
Lemma answers_pos (mem : expn -> bool) (val : expn -> Z) run fuel h : forall es lay pre,
  Forall2 (fun e l => run fuel h (HPtr (l_eb l) 0) = FOk (val e)) es lay ->
  Forall2 (answered run fuel h (pre ++ lay)) (map val (filter mem es)) (pos_from mem (length pre) es).
Proof.
  intros es lay pre H. revert pre. induction H as [|e l es lay He H IH]; intro pre; [constructor|].
  cbn [filter pos_from]. specialize (IH (pre ++ [l])). rewrite <- app_assoc, app_length, Nat.add_1_r in IH. cbn [app] in IH.
  destruct (mem e); [|exact IH]. cbn [map]. constructor; [|exact IH].
  exists l. split; [|exact He]. rewrite nth_error_app2 by lia. rewrite Nat.sub_diag. reflexivity.
Qed.
Lemma master_forall2 h es lay (P : expn -> elay -> Prop) :
  master_at h es lay -> (forall e l, In e es -> rep1 h e l -> P e l) -> Forall2 P es lay.
Proof.
  intros [H _] HP. induction H as [|e l es lay He H IH]; constructor.
  - apply HP; [left; reflexivity | exact He].
  - apply IH. intros e' l' Hin. apply HP. right. exact Hin.
Qed.

(* THEOREM 4a.  answers_are_translated *)
Theorem answers_are_translated q run val mem fuel h es lay :
  question q run val -> master_at h es lay -> Forall (fun e => fuel_ok e fuel) es ->
  Forall2 (answered run fuel h lay) (map val (filter mem es)) (pos_from mem 0 es).
Proof.
  intros Q Hm Hf. apply (answers_pos mem val run fuel h es lay []).
  apply (master_forall2 h es lay _ Hm). intros e l Hin Hr. apply (question_is_translated q run val h e l fuel Q Hr).
  rewrite Forall_forall in Hf. exact (Hf e Hin).
Qed.
(* in the vocabulary of C08_ListTie / C08_CallTie: the oracle stream `model_answers pred es` of the candidates (e_pot), and
   `model_answers_of (fun _ => true) pred es` of the whole master list *)
Corollary model_answers_are_translated q run pred mem fuel h es lay :
  question q run (fun e => b2z (pred e)) -> master_at h es lay -> Forall (fun e => fuel_ok e fuel) es ->
  Forall2 (answered run fuel h lay) (model_answers_of mem pred es) (pos_from mem 0 es).
Proof. intros Q Hm Hf. exact (answers_are_translated q run _ mem fuel h es lay Q Hm Hf). Qed.
(* amountOfActualCallsFulfilledFor on the master list (C08_ListTie.ful_answers): relatesTo, then getActualCallsFulfilled of the ones
   that relate *)
Theorem ful_answers_are_translated f fuel h es lay : master_at h es lay -> Forall (fun e => fuel_ok e fuel) es ->
  Forall2 (fun e l => src_exp_relatesTo fuel h (HPtr (l_eb l) 0) (nid f) = FOk (b2z (relates f e)) /\
                      src_exp_getActualCallsFulfilled fuel h (HPtr (l_eb l) 0) = FOk (Z.of_N (e_act e))) es lay /\
  ful_answers f es = flat_map (fun e => if relates f e then [b2z (relates f e); Z.of_N (e_act e)] else [b2z (relates f e)]) es.
Proof.
  intros Hm Hf. split.
  - apply (master_forall2 h es lay _ Hm). intros e l Hin Hr. rewrite Forall_forall in Hf. split.
    + exact (question_is_translated _ _ _ h e l fuel (Q_relatesTo f) Hr (Hf e Hin)).
    + exact (question_is_translated _ _ _ h e l fuel Q_getActualCallsFulfilled Hr (Hf e Hin)).
  - unfold ful_answers. clear. induction es as [|e r IH]; [reflexivity|]. cbn [flat_map]. rewrite IH. destruct (relates f e); reflexivity.
Qed.

(* the block numbers give identities as the list theorems want them (non-zero, injective) *)
Definition idof_of (lay : list elay) (k : nat) : Z := Z.of_nat (l_eb (nth k lay {| l_eb := 0; l_li := 0; l_lo := 0; l_in := []; l_out := [] |})) + 1.
Lemma concat_disjoint {A} : forall (ls : list (list A)) i j a b, NoDup (concat ls) -> nth_error ls i = Some a -> nth_error ls j = Some b ->
  i <> j -> forall x, In x a -> ~ In x b.
Proof.
  induction ls as [|c ls IH]; intros i j a b Hnd Hi Hj Hne x Ha Hb; [destruct i; discriminate|].
  cbn [concat] in Hnd. apply NoDup_app_iff in Hnd. destruct Hnd as [_ [Hnd Hd]].
  destruct i as [|i], j as [|j]; cbn in Hi, Hj.
  - congruence.
  - inversion Hi; subst c. apply (Hd x Ha). apply in_concat. exists b. split; [exact (nth_error_In _ _ Hj) | exact Hb].
  - inversion Hj; subst c. apply (Hd x Hb). apply in_concat. exists a. split; [exact (nth_error_In _ _ Hi) | exact Ha].
  - exact (IH i j a b Hnd Hi Hj ltac:(congruence) x Ha Hb).
Qed.
Lemma Forall2_len {A B} (R : A -> B -> Prop) l m : Forall2 R l m -> length l = length m.
Proof. intro H. induction H; cbn; congruence. Qed.
Lemma idof_of_ok h es lay : master_at h es lay -> idof_ok (idof_of lay) (length es).
Proof.
  intros [H Hnd]. pose proof (Forall2_len _ _ _ H) as L. split; [intros i _; unfold idof_of; lia|].
  intros i j Li Lj E. unfold idof_of in E. destruct (Nat.eq_dec i j) as [|Hne]; [assumption|]. exfalso.
  set (d := {| l_eb := 0; l_li := 0; l_lo := 0; l_in := []; l_out := [] |}) in *.
  assert (Hi : nth_error (map lay_blocks lay) i = Some (lay_blocks (nth i lay d))) by (rewrite nth_error_map, (nth_error_nth' lay d) by lia; reflexivity).
  assert (Hj : nth_error (map lay_blocks lay) j = Some (lay_blocks (nth j lay d))) by (rewrite nth_error_map, (nth_error_nth' lay d) by lia; reflexivity).
  apply (concat_disjoint _ i j _ _ Hnd Hi Hj Hne (l_eb (nth i lay d))); [left; reflexivity|].
  replace (l_eb (nth i lay d)) with (l_eb (nth j lay d)) by lia. left. reflexivity.
Qed.

(* ================================================================== 2. the tells *)
(* ghost event (with the identity told), translated function, model function, what the model function needs *)
Inductive tell (id : Z) : lev -> (nat -> heap -> hptr -> fres (unit * heap)) -> (expn -> expn) -> (expn -> Prop) -> Prop :=
| T_reset : tell id (LTell "resetActualCallMatchingState" id) src_exp_resetActualCallMatchingState reset_e (fun _ => True)
| T_finalize : tell id (LTell "finalizeActualCallMatch" id) src_exp_finalizeActualCallMatch (fun e => set_fin e true) (fun _ => True)
| T_object : tell id (LTell "wasPassedToObject" id) src_exp_wasPassedToObject pass_obj (fun _ => True)
| T_input n : tell id (LTellArg "inputParameterWasPassed" id (nid n))
                   (fun fuel h p => src_exp_inputParameterWasPassed pn fuel h p (nid n)) (mark n) (fun _ => True)
| T_output n : tell id (LTellArg "outputParameterWasPassed" id (nid n))
                    (fun fuel h p => src_exp_outputParameterWasPassed pn fuel h p (nid n)) (mark_out n) (fun _ => True)
(* actualCalls_ is unsigned 32-bit, the model's counter is unbounded: see call_was_made_w / call_was_made_wraps of C08_ExpRep.v *)
| T_call order : tell id (LTellArg "callWasMade" id (Z.of_N order))
                      (fun fuel h p => src_exp_callWasMade fuel h p (Z.of_N order)) (call_was_made order)
                      (fun e => (e_act e + 1 < 4294967296)%N).

(* one tell on one represented expectation *)
Theorem tell_one id ev run f pre h e l fuel : tell id ev run f pre -> rep1 h e l -> fuel_ok e fuel -> pre e ->
  exists h', run fuel h (HPtr (l_eb l) 0) = FOk (tt, h') /\
             tell_post nid h h' (l_eb l) (l_li l) (l_lo l) (f e) (l_in l) (l_out l) /\ same_params e (f e).
Proof.
  intros T [Hat Ht] F Hpre. pose proof F as [F1 F2]. destruct T.
  - destruct (resetActualCallMatchingState_model nid fuel h _ _ _ e _ _ Hat F) as [h' [Hr Hp]]. exists h'. split; [exact Hr|]. split; [exact Hp | apply same_params_reset].
  - destruct (finalizeActualCallMatch_model nid fuel h _ _ _ e _ _ Hat) as [h' [Hr Hp]]. exists h'. split; [exact Hr|]. split; [exact Hp | repeat split].
  - destruct (wasPassedToObject_model nid fuel h _ _ _ e _ _ Hat) as [h' [Hr Hp]]. exists h'. split; [exact Hr|]. split; [exact Hp | repeat split].
  - destruct (inputParameterWasPassed_model nid pn peq pcomp stands nid_inj fuel h _ _ _ e _ _ n Hat Ht F1) as [h' [Hr Hp]].
    exists h'. split; [exact Hr|]. split; [exact Hp | apply same_params_mark].
  - destruct (outputParameterWasPassed_model nid pn peq pcomp stands nid_inj fuel h _ _ _ e _ _ n Hat Ht F2) as [h' [Hr Hp]].
    exists h'. split; [exact Hr|]. split; [exact Hp | apply same_params_mark_out].
  - destruct (callWasMade_model nid fuel h _ _ _ e _ _ order Hat F Hpre) as [h' [Hr Hp]].
    exists h'. split; [exact Hr|]. split; [exact Hp | apply same_params_call].
Qed.

Lemma Forall2_upd_frame {A B} (R R' : A -> B -> Prop) x : forall es lay i l,
  Forall2 R es lay -> nth_error lay i = Some l -> R' x l ->
  (forall j e' l', j <> i -> nth_error es j = Some e' -> nth_error lay j = Some l' -> R e' l' -> R' e' l') ->
  Forall2 R' (upd es i x) lay.
Proof.
  intros es lay i l H. revert i. induction H as [|e0 l0 es lay He H IH]; intros i Hl Hx Hfr; [destruct i; discriminate|].
  destruct i as [|i]; cbn [upd]; cbn in Hl.
  - inversion Hl; subst l0. constructor; [exact Hx|].
    clear IH. assert (K : forall j e' l', nth_error es j = Some e' -> nth_error lay j = Some l' -> R e' l' -> R' e' l')
      by (intros j e' l' H1 H2; exact (Hfr (S j) e' l' ltac:(discriminate) H1 H2)).
    clear Hfr. induction H as [|e1 l1 es lay He1 H IH]; constructor.
    + exact (K 0%nat e1 l1 eq_refl eq_refl He1).
    + apply IH. intros j e' l' H1 H2. exact (K (S j) e' l' H1 H2).
  - constructor.
    + exact (Hfr 0%nat e0 l0 ltac:(discriminate) eq_refl eq_refl He).
    + apply (IH i Hl Hx). intros j e' l' Hne H1 H2. exact (Hfr (S j) e' l' ltac:(congruence) H1 H2).
Qed.

(* THEOREM 4b.  tell_is_translated: the ghost event for the expectation at position i (identity idof i in the list world) is the
   translated function on the blocks of position i; afterwards the heap represents the master list with the model's update at i *)
Theorem tell_is_translated (idof : nat -> Z) ev run f pre fuel h es lay i e l :
  tell (idof i) ev run f pre -> master_at h es lay -> nth_error es i = Some e -> nth_error lay i = Some l -> fuel_ok e fuel -> pre e ->
  exists h', run fuel h (HPtr (l_eb l) 0) = FOk (tt, h') /\ master_at h' (upd es i (f e)) lay /\ length h' = length h /\
             (forall b, ~ In b (lay_blocks l) -> hblock h' b = hblock h b).
Proof.
  intros T [Hall Hnd] He Hl F Hpre.
  assert (Hr : rep1 h e l).
  { clear - Hall He Hl. revert i He Hl. induction Hall as [|e0 l0 es lay H0 H IH]; intros [|i] He Hl; cbn in He, Hl; try discriminate.
    - inversion He; inversion Hl; subst. exact H0.
    - exact (IH i He Hl). }
  destruct (tell_one _ ev run f pre h e l fuel T Hr F Hpre) as [h' [Hrun [[Hat' [Hlen Hfr]] Hsame]]].
  assert (Hfr' : forall b, ~ In b (lay_blocks l) -> hblock h' b = hblock h b).
  { intros b Hn. apply Hfr.
    - intros ->. apply Hn. left. reflexivity.
    - intro Hi. apply Hn. unfold lay_blocks. apply in_exp_blocks. auto 8.
    - intro Hi. apply Hn. unfold lay_blocks. apply in_exp_blocks. auto 8. }
  exists h'. split; [exact Hrun|]. split; [|split; [exact Hlen | exact Hfr']]. split; [|exact Hnd].
  apply (Forall2_upd_frame (rep1 h) (rep1 h') (f e) es lay i l Hall Hl).
  - split; [exact Hat' | exact (params_tied_same nid pn peq pcomp stands e (f e) _ _ Hsame (proj2 Hr))].
  - intros j e' l' Hne Hej Hlj [Hatj Htj]. split; [|exact Htj]. apply (exp_at_frame nid h h'); [|exact Hatj].
    intros b Hb. apply Hfr'. intro Hb'.
    apply (concat_disjoint (map lay_blocks lay) j i (lay_blocks l') (lay_blocks l) Hnd) with (x := b); try assumption.
    + rewrite nth_error_map, Hlj. reflexivity.
    + rewrite nth_error_map, Hl. reflexivity.
Qed.

(* ------------------------------------------------------------------ a whole tell-loop of the list *)
(* the members (by mem) of the master list are told in list order *)
Definition members (mem : expn -> bool) (es : list expn) (lay : list elay) : list elay :=
  map snd (filter (fun el => mem (fst el)) (combine es lay)).
Fixpoint run_tells (run : nat -> heap -> hptr -> fres (unit * heap)) (fuel : nat) (h : heap) (ls : list elay) : option heap :=
  match ls with
  | [] => Some h
  | l :: r => match run fuel h (HPtr (l_eb l) 0) with FOk (_, h') => run_tells run fuel h' r | _ => None end
  end.
Definition told (mem : expn -> bool) (f : expn -> expn) (es : list expn) : list expn := map (fun e => if mem e then f e else e) es.
Lemma told_pot f es : told e_pot f es = for_pot f es. Proof. reflexivity. Qed.

Lemma tells_from (idof : nat -> Z) (mk : Z -> lev) run f pre mem fuel : (forall id, tell id (mk id) run f pre) ->
  forall res rlay pes play h, master_at h (pes ++ res) (play ++ rlay) -> length pes = length play -> length res = length rlay ->
  Forall (fun e => fuel_ok e fuel /\ (mem e = true -> pre e)) res ->
  exists h', run_tells run fuel h (members mem res rlay) = Some h' /\ master_at h' (pes ++ told mem f res) (play ++ rlay) /\
             length h' = length h /\ (forall b, ~ In b (concat (map lay_blocks (play ++ rlay))) -> hblock h' b = hblock h b).
Proof.
  intros HT. induction res as [|e r IH]; intros rlay pes play h Hm Lp Lr Hf; (destruct rlay as [|l rl]; [|]); try discriminate Lr.
  - exists h. split; [reflexivity|]. split; [exact Hm|]. split; reflexivity.
  - inversion Hf as [|? ? [Fe Pe] Hf']; subst. unfold members, told. cbn [combine filter fst map].
    assert (Hnext : forall h1, master_at h1 ((pes ++ [if mem e then f e else e]) ++ r) ((play ++ [l]) ++ rl) ->
              exists h', run_tells run fuel h1 (members mem r rl) = Some h' /\
                         master_at h' (pes ++ (if mem e then f e else e) :: told mem f r) (play ++ l :: rl) /\ length h' = length h1 /\
                         (forall b, ~ In b (concat (map lay_blocks (play ++ l :: rl))) -> hblock h' b = hblock h1 b)).
    { intros h1 Hm1. destruct (IH rl (pes ++ [if mem e then f e else e]) (play ++ [l]) h1 Hm1) as [h' [R1 [R2 [R3 R4]]]].
      - rewrite !app_length. cbn. lia.
      - cbn in Lr. lia.
      - exact Hf'.
      - rewrite <- (app_assoc pes), <- (app_assoc play) in R2. rewrite <- (app_assoc play) in R4. exists h'. split; [exact R1|]. split; [exact R2|]. split; [exact R3 | exact R4]. }
    destruct (mem e) eqn:Em.
    + cbn [map snd run_tells].
      destruct (tell_is_translated idof (mk (idof (length pes))) run f pre fuel h (pes ++ e :: r) (play ++ l :: rl) (length pes) e l
                  (HT _) Hm (nth_error_app_mid pes e r) ltac:(rewrite Lp; apply nth_error_app_mid) Fe (Pe eq_refl))
        as [h1 [Hrun [Hm1 [Hlen1 Hfr1]]]].
      rewrite Hrun. rewrite upd_app_mid in Hm1.
      destruct (Hnext h1 ltac:(rewrite <- (app_assoc pes), <- (app_assoc play); exact Hm1)) as [h' [R1 [R2 [R3 R4]]]].
      exists h'. split; [exact R1|]. split; [exact R2|]. split; [congruence|].
      intros b Hb. rewrite R4 by exact Hb. apply Hfr1. intro Hi. apply Hb. apply in_concat. exists (lay_blocks l). split; [|exact Hi].
      apply in_map. apply in_app_iff. right. left. reflexivity.
    + destruct (Hnext h ltac:(rewrite <- (app_assoc pes), <- (app_assoc play); exact Hm)) as [h' [R1 [R2 [R3 R4]]]].
      exists h'. split; [exact R1|]. split; [exact R2|]. split; [exact R3 | exact R4].
Qed.

(* THEOREM 4c.  tells_are_translated: the list's tell-loops (every candidate, in list order, is told the same thing: the events
   map (fun k => mk (idof k)) (pos_from e_pot 0 es) of C08_ListTie) are, on the represented master list, the model's for_pot f *)
Theorem tells_are_translated (idof : nat -> Z) (mk : Z -> lev) run f pre mem fuel h es lay :
  (forall id, tell id (mk id) run f pre) -> master_at h es lay ->
  Forall (fun e => fuel_ok e fuel /\ (mem e = true -> pre e)) es ->
  exists h', run_tells run fuel h (members mem es lay) = Some h' /\ master_at h' (told mem f es) lay /\ length h' = length h /\
             (forall b, ~ In b (concat (map lay_blocks lay)) -> hblock h' b = hblock h b).
Proof.
  intros HT Hm Hf. apply (tells_from idof mk run f pre mem fuel HT es lay [] [] h Hm eq_refl); [|exact Hf].
  destruct Hm as [H _]. exact (Forall2_len _ _ _ H).
Qed.
End Tie.

(* ================================================================== 3. examples (vm_compute on a concrete heap) *)
(* one expectation  f3 .withParameter(p1, 5) .withParameter(p1, 7) .withOutputParameterReturning(p2, ..), call order window [2, 3],
   expected twice:
     block 0 the object, 1 / 2 the input / output list objects, 3 -> 4 and 5 -> 6 the input nodes -> objects, 7 -> 8 the output one;
   actual-parameter objects (not in the heap: only their name / value are asked for): 20 = (p1, 5 as long), 21 = (p1, 7),
   22 = (p2, a buffer), 23 = (p9, true) *)
Definition x_e : expn :=
  ({| e_name := 3; e_params := [ {| p_name := 1; p_val := PInt TInt 5%Z; p_flag := false |}; {| p_name := 1; p_val := PInt TInt 7%Z; p_flag := false |} ];
      e_outs := [ {| q_name := 2; q_bytes := [1; 2]; q_flag := false |} ]; e_ign := false; e_fin := false; e_lo := 2; e_hi := 3; e_ooo := false;
      e_ret := None; e_obj := None; e_pobj := true; e_act := 0; e_exp := 2; e_pot := true; e_cur := false |})%N.
Definition x_in : list (nat * nat) := [(3, 4); (5, 6)]%nat.
Definition x_out : list (nat * nat) := [(7, 8)]%nat.
Definition x_h : heap :=
  [ ecells Z.of_N x_e 1 2 (VInt 0) (VInt 0); [VPtr (HPtr 3 0)]; [VPtr (HPtr 7 0)];
    [VPtr (HPtr 4 0); VPtr (HPtr 5 0)]; [VInt 0]; [VPtr (HPtr 6 0); VPtr HNull]; [VInt 0]; [VPtr (HPtr 8 0); VPtr HNull]; [VInt 0] ].
Fixpoint x_assoc (t : list (nat * Z)) (b : nat) : Z := match t with [] => 0 | (k, v) :: r => if Nat.eqb k b then v else x_assoc r b end.
Definition x_blk (p : hptr) : nat := match p with HPtr b _ => b | HNull => 0%nat end.
Definition x_pn (p : hptr) : Z := x_assoc [(4%nat, 1); (6%nat, 1); (8%nat, 2); (20%nat, 1); (21%nat, 1); (22%nat, 2); (23%nat, 9)] (x_blk p).
Definition x_val (p : hptr) : Z := x_assoc [(4%nat, 5); (6%nat, 7); (20%nat, 5); (21%nat, 7); (23%nat, 1)] (x_blk p).
Definition x_kind (p : hptr) : Z := x_assoc [(23%nat, 1)] (x_blk p).     (* 0 integer, 1 bool *)
Definition x_peq (p a : hptr) : Z := b2z ((x_kind p =? x_kind a) && (x_val p =? x_val a)).
Definition x_pcomp (p a : hptr) : Z := 1.
Definition x_stands (a : hptr) (n : name) (v : pv) : Prop :=
  (a = HPtr 20 0 /\ n = 1%N /\ v = PInt TLong 5) \/ (a = HPtr 21 0 /\ n = 1%N /\ v = PInt TInt 7) \/
  (a = HPtr 22 0 /\ n = 2%N /\ v = PPtr 0) \/ (a = HPtr 23 0 /\ n = 9%N /\ v = PBool true).

(* the hypotheses of the theorems are satisfiable: the heap represents x_e and the three functions are tied to it *)
Example x_rep : exp_at Z.of_N x_h 0 1 2 x_e x_in x_out.
Proof.
  unfold exp_at. split; [exists (VInt 0), (VInt 0); split; [reflexivity | exact I]|].
  split; [exists (HPtr 3 0); split; [reflexivity|]; cbn [pchain x_in fst snd]; split; [reflexivity|]; exists (HPtr 5 0); split; [reflexivity|];
          split; [reflexivity|]; exists HNull; split; reflexivity|].
  split; [exists (HPtr 7 0); split; [reflexivity|]; cbn [pchain x_out fst snd]; split; [reflexivity|]; exists HNull; split; reflexivity|].
  split; [repeat constructor|]. split; [repeat constructor|].
  split; [|unfold u32; cbn; lia].
  unfold exp_blocks, x_in, x_out. cbn [map fst snd app]. repeat constructor; cbn [In]; intro H; repeat (destruct H as [H|H]; [discriminate H|]); exact H.
Qed.
Example x_tied : params_tied Z.of_N x_pn x_peq x_pcomp x_stands x_e x_in x_out.
Proof.
  constructor.
  - repeat constructor.
  - repeat constructor.
  - intros a n v [[-> [-> _]]|[[-> [-> _]]|[[-> [-> _]]|[-> [-> _]]]]]; reflexivity.
  - intros a n v [[-> [-> ->]]|[[-> [-> ->]]|[[-> [-> ->]]|[-> [-> ->]]]]]; repeat constructor.
  - intros a n v _. repeat constructor.
Qed.
Definition x_lay : elay := {| l_eb := 0; l_li := 1; l_lo := 2; l_in := x_in; l_out := x_out |}.
Example x_master : master_at Z.of_N x_pn x_peq x_pcomp x_stands x_h [x_e] [x_lay].
Proof.
  split; [constructor; [split; [exact x_rep | exact x_tied] | constructor]|].
  cbn [map concat]. rewrite app_nil_r. pose proof x_rep as [_ [_ [_ [_ [_ [H _]]]]]]. exact H.
Qed.

(* the parameter list: begin / next / item / getName, getValueByName (the FIRST node of that name; NULL) *)
Example x_begin : src_plist_begin 5 x_h (HPtr 1 0) = FOk (HPtr 3 0). Proof. vm_compute. reflexivity. Qed.
Example x_next : src_pnode_next 5 x_h (HPtr 3 0) = FOk (HPtr 5 0). Proof. vm_compute. reflexivity. Qed.
Example x_item : src_pnode_item 5 x_h (HPtr 5 0) = FOk (HPtr 6 0). Proof. vm_compute. reflexivity. Qed.
Example x_getName : src_pnode_getName x_pn 5 x_h (HPtr 7 0) = FOk 2. Proof. vm_compute. reflexivity. Qed.
Example x_byName_first : src_plist_getValueByName x_pn 5 x_h (HPtr 1 0) 1 = FOk (HPtr 4 0). Proof. vm_compute. reflexivity. Qed.
Example x_byName_none : src_plist_getValueByName x_pn 5 x_h (HPtr 1 0) 2 = FOk HNull. Proof. vm_compute. reflexivity. Qed.

(* the questions *)
Example x_relatesTo : src_exp_relatesTo 5 x_h (HPtr 0 0) 3 = FOk 1 /\ src_exp_relatesTo 5 x_h (HPtr 0 0) 4 = FOk 0.
Proof. split; vm_compute; reflexivity. Qed.
Example x_relatesToObject : src_exp_relatesToObject 5 x_h (HPtr 0 0) 77 = FOk 1. Proof. vm_compute. reflexivity. Qed.
Example x_isFulfilled : src_exp_isFulfilled 5 x_h (HPtr 0 0) = FOk 0 /\ src_exp_canMatchActualCalls 5 x_h (HPtr 0 0) = FOk 1.
Proof. split; vm_compute; reflexivity. Qed.
Example x_matching : src_exp_areParametersMatchingActualCall 5 x_h (HPtr 0 0) = FOk 0 /\ src_exp_isMatchingActualCall 5 x_h (HPtr 0 0) = FOk 0 /\
  src_exp_isMatchingActualCallAndFinalized 5 x_h (HPtr 0 0) = FOk 0.
Proof. repeat split; vm_compute; reflexivity. Qed.
Example x_withName : src_exp_hasInputParameterWithName x_pn 5 x_h (HPtr 0 0) 1 = FOk 1 /\ src_exp_hasInputParameterWithName x_pn 5 x_h (HPtr 0 0) 2 = FOk 0 /\
  src_exp_hasOutputParameterWithName x_pn 5 x_h (HPtr 0 0) 2 = FOk 1.
Proof. repeat split; vm_compute; reflexivity. Qed.
(* two input parameters named p1 (5, then 7): the actual (p1, 5) is accepted, the actual (p1, 7) is NOT -- the first decides; the
   model agrees *)
Example x_hasInput : src_exp_hasInputParameter x_pn x_peq 5 x_h (HPtr 0 0) (HPtr 20 0) = FOk 1 /\
  src_exp_hasInputParameter x_pn x_peq 5 x_h (HPtr 0 0) (HPtr 21 0) = FOk 0 /\
  src_exp_hasInputParameter x_pn x_peq 5 x_h (HPtr 0 0) (HPtr 23 0) = FOk 0 /\
  has_input 1%N (PInt TLong 5) x_e = true /\ has_input 1%N (PInt TInt 7) x_e = false /\ has_input 9%N (PBool true) x_e = false.
Proof. repeat split; vm_compute; reflexivity. Qed.
Example x_hasOutput : src_exp_hasOutputParameter x_pn x_pcomp 5 x_h (HPtr 0 0) (HPtr 22 0) = FOk 1 /\
  src_exp_hasOutputParameter x_pn x_pcomp 5 x_h (HPtr 0 0) (HPtr 23 0) = FOk 0.
Proof. split; vm_compute; reflexivity. Qed.
Example x_order : src_exp_isOutOfOrder 5 x_h (HPtr 0 0) = FOk 0 /\ src_exp_getActualCallsFulfilled 5 x_h (HPtr 0 0) = FOk 0.
Proof. split; vm_compute; reflexivity. Qed.

(* the tells *)
Definition heap_of (r : fres (unit * heap)) : heap := match r with FOk (_, h) => h | _ => [] end.
(* inputParameterWasPassed(p1): BOTH parameters named p1 are flagged, as mark 1 says *)
Definition x_h1 : heap := heap_of (src_exp_inputParameterWasPassed x_pn 5 x_h (HPtr 0 0) 1).
Example x_input_passed : src_exp_inputParameterWasPassed x_pn 5 x_h (HPtr 0 0) 1 = FOk (tt, upd (upd x_h 4 [VInt 1]) 6 [VInt 1]) /\
  map p_flag (e_params (mark 1%N x_e)) = [true; true].
Proof. split; vm_compute; reflexivity. Qed.
Definition x_h2 : heap := heap_of (src_exp_outputParameterWasPassed x_pn 5 x_h1 (HPtr 0 0) 2).
Example x_output_passed : src_exp_outputParameterWasPassed x_pn 5 x_h1 (HPtr 0 0) 2 = FOk (tt, upd x_h1 8 [VInt 1]) /\
  src_exp_areParametersMatchingActualCall 5 x_h1 (HPtr 0 0) = FOk 0 /\
  src_exp_areParametersMatchingActualCall 5 x_h2 (HPtr 0 0) = FOk 1 /\ src_exp_isMatchingActualCallAndFinalized 5 x_h2 (HPtr 0 0) = FOk 1.
Proof. repeat split; vm_compute; reflexivity. Qed.
Example x_finalize : src_exp_finalizeActualCallMatch 5 x_h (HPtr 0 0) = FOk (tt, upd x_h 0 (ecells Z.of_N (set_fin x_e true) 1 2 (VInt 0) (VInt 0))) /\
  src_exp_wasPassedToObject 5 x_h (HPtr 0 0) = FOk (tt, x_h).
Proof. split; vm_compute; reflexivity. Qed.
(* reset after the marks: the heap of the start *)
Example x_reset : src_exp_resetActualCallMatchingState 5 x_h2 (HPtr 0 0) = FOk (tt, x_h). Proof. vm_compute. reflexivity. Qed.
(* callWasMade(2): inside the window [2, 3]; then callWasMade(5): outside -> outOfOrder_; both reset the matching state *)
Definition x_h3 : heap := heap_of (src_exp_callWasMade 5 x_h2 (HPtr 0 0) 2).
Definition x_h4 : heap := heap_of (src_exp_callWasMade 5 x_h3 (HPtr 0 0) 5).
Example x_call_inside : src_exp_callWasMade 5 x_h2 (HPtr 0 0) 2 = FOk (tt, upd x_h 0 (ecells Z.of_N (call_was_made 2%N x_e) 1 2 (VInt 0) (VInt 0))) /\
  src_exp_isOutOfOrder 5 x_h3 (HPtr 0 0) = FOk 0 /\ src_exp_getActualCallsFulfilled 5 x_h3 (HPtr 0 0) = FOk 1 /\
  src_exp_areParametersMatchingActualCall 5 x_h3 (HPtr 0 0) = FOk 0.
Proof. repeat split; vm_compute; reflexivity. Qed.
Example x_call_outside :
  src_exp_callWasMade 5 x_h3 (HPtr 0 0) 5 = FOk (tt, upd x_h 0 (ecells Z.of_N (call_was_made 5%N (call_was_made 2%N x_e)) 1 2 (VInt 0) (VInt 0))) /\
  src_exp_isOutOfOrder 5 x_h4 (HPtr 0 0) = FOk 1 /\ src_exp_getActualCallsFulfilled 5 x_h4 (HPtr 0 0) = FOk 2 /\
  src_exp_isFulfilled 5 x_h4 (HPtr 0 0) = FOk 1.
Proof. repeat split; vm_compute; reflexivity. Qed.
(* the counter wraps at 2^32 where the model's does not *)
Definition x_full : expn := set_count x_e 4294967295%N false.
Definition x_hw : heap := upd x_h 0 (ecells Z.of_N x_full 1 2 (VInt 0) (VInt 0)).
Example x_call_wraps : src_exp_getActualCallsFulfilled 5 (heap_of (src_exp_callWasMade 5 x_hw (HPtr 0 0) 2)) (HPtr 0 0) = FOk 0 /\
  e_act (call_was_made 2%N x_full) = 4294967296%N /\ e_act (call_was_made_w 2%N x_full) = 0%N.
Proof. repeat split; vm_compute; reflexivity. Qed.
