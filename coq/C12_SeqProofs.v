(* C12 -- sequences of vectors through the static RunAllTests: lemmas about C12_Seq.v.
   (1) parse with a chain: it is C12_Model.parse except in the -p<x> branch; documented vectors never reach that branch, so they mean what
       C12_Meaning says whatever the chain;  (2) the plugin chain after a call is the chain before it without the runner's two names -- whatever
       the result;  (3) what runs on a registry whose tests are a permutation of the probe registry;  (4) the oracle accepts the model;
   (5) Prop-level statements: restored, independent of earlier calls, the early-return variant refuted. *)
From Coq Require Import String Ascii.
From Coq Require Import NArith ZArith Bool List Lia ZifyBool Arith Permutation.
From CppUVerif Require Import gen.Gen_C12 lib.Str C12_Model C12_Proofs C12_Meaning C12_Select C12_Apply C12_ApplyProofs C12_Seq.
Import ListNotations.
Local Open Scope N_scope.

(* ================================================================ (1) parse() with a chain *)
Lemma first_match_matches tbl a r : first_match tbl a = Some r -> rule_matches r a = true.
Proof.
  induction tbl as [|x t IH]; cbn; [discriminate|]. destruct (rule_matches x a) eqn:E.
  - intro H. inversion H. subst. exact E.
  - exact IH.
Qed.
Lemma key_inv k lit k' s : key k lit k' s = true -> match_eqb k k' = true /\ lit = s.
Proof.
  unfold key. intro H. apply andb_true_iff in H. destruct H as [H1 H2]. split; [exact H1|].
  apply bytes_eqb_eq. exact H2.
Qed.
Lemma plugin_rule_prefix a : plugin_rule a = true -> is_prefix (B "-p") a = true.
Proof.
  unfold plugin_rule. destruct (first_match c12_dispatch a) as [[k lit]|] eqn:E; [|discriminate].
  intro K. apply key_inv in K. destruct K as [K ->]. destruct k; [discriminate K|].
  apply first_match_matches in E. exact E.
Qed.
(* in that branch the model of C12_Model asks the fixed plugin of the one-vector harness *)
Lemma plugin_rule_handle tm c a nx : plugin_rule a = true ->
  handle tm c a nx = if plugin_accepts a then HOk c false else HReject false.
Proof.
  unfold plugin_rule, handle. destruct (first_match c12_dispatch a) as [[k lit]|] eqn:E; [|discriminate].
  intro K. apply key_inv in K. destruct K as [K ->]. destruct k; [discriminate K|]. reflexivity.
Qed.
Lemma handle_p_model tm c a nx : handle_p plugin_accepts tm c a nx = handle tm c a nx.
Proof. unfold handle_p. destruct (plugin_rule a) eqn:P; [|reflexivity]. rewrite (plugin_rule_handle tm c a nx P). reflexivity. Qed.
Lemma parse_args_p_model_n n : forall tm c args, (length args <= n)%nat -> parse_args_p plugin_accepts tm c args = parse_args tm c args.
Proof.
  induction n as [|n IH]; intros tm c args L.
  - destruct args; [reflexivity | cbn in L; lia].
  - destruct args as [|a rest]; [reflexivity|]. cbn [parse_args_p parse_args]. cbn in L. rewrite handle_p_model.
    destruct (handle tm c a (hd_error rest)) as [h|c' [|]|]; try reflexivity.
    + destruct rest as [|b rest']; [reflexivity|]. apply IH. cbn in L. lia.
    + apply IH. lia.
Qed.
Lemma parse_p_model tm argv : parse_p plugin_accepts tm argv = parse tm argv.
Proof. unfold parse_p, parse. apply (parse_args_p_model_n (length (tl argv))). apply le_n. Qed.

(* extensional in the chain's answer *)
Lemma handle_p_ext f g tm c a nx : (forall x, f x = g x) -> handle_p f tm c a nx = handle_p g tm c a nx.
Proof. intro E. unfold handle_p. rewrite E. reflexivity. Qed.
Lemma parse_args_p_ext_n f g (E : forall x, f x = g x) n : forall tm c args, (length args <= n)%nat ->
  parse_args_p f tm c args = parse_args_p g tm c args.
Proof.
  induction n as [|n IH]; intros tm c args L.
  - destruct args; [reflexivity | cbn in L; lia].
  - destruct args as [|a rest]; [reflexivity|]. cbn [parse_args_p]. cbn in L. rewrite (handle_p_ext f g tm c a _ E).
    destruct (handle_p g tm c a (hd_error rest)) as [h|c' [|]|]; try reflexivity.
    + destruct rest as [|b rest']; [reflexivity|]. apply IH. cbn in L. lia.
    + apply IH. lia.
Qed.
Lemma parse_p_ext f g tm argv : (forall x, f x = g x) -> parse_p f tm argv = parse_p g tm argv.
Proof. intro E. unfold parse_p. apply (parse_args_p_ext_n f g E (length (tl argv))). apply le_n. Qed.

(* never the "rule without action" value *)
Lemma handle_p_known f tm c a nx : handle_p f tm c a nx <> HUnknown.
Proof. unfold handle_p. destruct (plugin_rule a); [destruct (f a); discriminate | apply handle_known]. Qed.
Lemma parse_args_p_known_n f n : forall tm c args, (length args <= n)%nat -> parse_args_p f tm c args <> Unknown.
Proof.
  induction n as [|n IH]; intros tm c args L.
  - destruct args; [discriminate | cbn in L; lia].
  - destruct args as [|a rest]; [discriminate|]. cbn [parse_args_p]. cbn in L.
    pose proof (handle_p_known f tm c a (hd_error rest)) as K.
    destruct (handle_p f tm c a (hd_error rest)) as [h|c' [|]|]; [discriminate | | | congruence].
    + destruct rest as [|b rest']; [discriminate|]. apply IH. cbn in L. lia.
    + apply IH. lia.
Qed.
Lemma parse_p_total f tm argv : (exists h, parse_p f tm argv = Reject h) \/ (exists c, parse_p f tm argv = Accept c).
Proof.
  pose proof (parse_args_p_known_n f (length (tl argv)) tm default_config (tl argv) (le_n _)) as K. unfold parse_p.
  destruct (parse_args_p f tm default_config (tl argv)) as [h|c|] eqn:E; [| |congruence].
  - left. exists h. reflexivity.
  - right. exists c. reflexivity.
Qed.

(* a documented option never starts like a plugin option: its first argument is not handed to the chain *)
Lemma not_prefix_not_plugin a : is_prefix (B "-p") a = false -> plugin_rule a = false.
Proof. intro H. destruct (plugin_rule a) eqn:P; [|reflexivity]. apply plugin_rule_prefix in P. congruence. Qed.
Ltac no_plugin := eexists; eexists; (split; [reflexivity | first [reflexivity | apply not_prefix_not_plugin; reflexivity]]).
Lemma head_not_plugin o sp : In sp (render_opt o) -> exists a t, sp = a :: t /\ plugin_rule a = false.
Proof.
  destruct o; cbn [render_opt both In];
  try (intros [<-|[]]; no_plugin).
  - destruct n as [ds|]; cbn [both In]; intros [<-|[<-|[]]] || intros [<-|[]]; no_plugin.
  - destruct seed as [ds|]; cbn [both In]; intros [<-|[<-|[]]] || intros [<-|[]]; no_plugin.
  - destruct k; intros [<-|[<-|[]]]; no_plugin.
  - destruct k; intros [<-|[<-|[]]]; no_plugin.
  - destruct k; intros [<-|[<-|[]]]; no_plugin.
  - destruct ignored; intros [<-|[]]; no_plugin.
  - destruct o; intros [<-|[<-|[]]]; no_plugin.
  - intros [<-|[<-|[]]]; no_plugin.
Qed.

(* the step lemmas of C12_Meaning.v, for the parser with a chain *)
Lemma handle_p_plain f tm c a nx : plugin_rule a = false -> handle_p f tm c a nx = handle tm c a nx.
Proof. intro P. unfold handle_p. rewrite P. reflexivity. Qed.
Lemma parse_step_one_p f tm c a rest c' : plugin_rule a = false ->
  handle tm c a (hd_error rest) = HOk c' false -> parse_args_p f tm c (a :: rest) = parse_args_p f tm c' rest.
Proof. intros P H. cbn [parse_args_p]. rewrite (handle_p_plain f tm c a _ P), H. reflexivity. Qed.
Lemma parse_step_two_p f tm c a b rest c' : plugin_rule a = false ->
  handle tm c a (Some b) = HOk c' true -> parse_args_p f tm c (a :: b :: rest) = parse_args_p f tm c' rest.
Proof. intros P H. cbn [parse_args_p hd_error]. rewrite (handle_p_plain f tm c a _ P), H. reflexivity. Qed.
Ltac np := first [reflexivity | apply not_prefix_not_plugin; reflexivity].
Lemma step_opt_p f tm c o sp rest :
  opt_ok o = true -> is_help o = false -> In sp (render_opt o) -> head_ok rest = true ->
  parse_args_p f tm c (sp ++ rest) = parse_args_p f tm (sem_opt tm c o) rest.
Proof.
  intros OK NH I HR.
  destruct o; try discriminate NH; cbn [render_opt both In] in I; cbn [opt_ok] in OK.
  1-12: destruct I as [<-|[]]; reflexivity.
  - (* -r *) destruct n as [ds|]; cbn [both In] in I.
    + destruct I as [<-|[<-|[]]]; cbn [app sem_opt].
      * apply parse_step_one_p; [np|]. apply handle_repeat_attached. exact OK.
      * apply parse_step_two_p; [np|]. apply handle_repeat_separated. exact OK.
    + destruct I as [<-|[]]. cbn [app sem_opt]. apply parse_step_one_p; [np|]. apply handle_repeat_bare. exact HR.
  - (* -s *) destruct seed as [ds|]; cbn [both In] in I.
    + destruct I as [<-|[<-|[]]]; cbn [app sem_opt].
      * apply parse_step_one_p; [np|]. apply handle_shuffle_attached. exact OK.
      * apply parse_step_two_p; [np|]. apply handle_shuffle_separated. exact OK.
    + destruct I as [<-|[]]. cbn [app]. apply parse_step_one_p; [np|]. apply handle_shuffle_bare. exact HR.
  - (* group *) destruct I as [<-|[<-|[]]]; cbn [app sem_opt].
    + apply parse_step_one_p; [destruct k; np|]. apply handle_group_attached. exact OK.
    + apply parse_step_two_p; [destruct k; np|]. apply handle_group_separated.
  - (* name *) destruct I as [<-|[<-|[]]]; cbn [app sem_opt].
    + apply parse_step_one_p; [destruct k; np|]. apply handle_name_attached. exact OK.
    + apply parse_step_two_p; [destruct k; np|]. apply handle_name_separated.
  - (* group.name *) apply andb_true_iff in OK. destruct OK as [OK NE]. apply andb_true_iff in OK. destruct OK as [Wg Wn].
    destruct I as [<-|[<-|[]]]; cbn [app].
    + apply parse_step_one_p; [destruct k; np|]. apply handle_gdn_attached; assumption.
    + apply parse_step_two_p; [destruct k; np|]. apply handle_gdn_separated; assumption.
  - (* TEST *) apply andb_true_iff in OK. destruct OK as [Wg Wn]. destruct I as [<-|[]]. cbn [app sem_opt].
    apply parse_step_one_p; [destruct ignored; np|]. apply (handle_test tm c ignored g n _ Wg Wn).
  - (* -o *) destruct I as [<-|[<-|[]]]; cbn [app].
    + apply parse_step_one_p; [destruct o; np|]. apply handle_output_attached.
    + apply parse_step_two_p; [np|]. apply handle_output_separated.
  - (* -k *) destruct I as [<-|[<-|[]]]; cbn [app sem_opt].
    + apply parse_step_one_p; [np|]. apply handle_package_attached. exact OK.
    + apply parse_step_two_p; [np|]. apply handle_package_separated. exact OK.
Qed.
Lemma parse_render_p f tm : forall opts c argv, forallb opt_ok opts = true -> In argv (render opts) ->
  parse_args_p f tm c argv = sem_from tm c opts.
Proof.
  induction opts as [|o r IH]; intros c argv OK I.
  - cbn in I. destruct I as [<-|[]]. reflexivity.
  - cbn [forallb] in OK. apply andb_true_iff in OK. destruct OK as [Oo Or].
    apply in_render_cons in I. destruct I as [sp [rest [I1 [I2 ->]]]]. cbn [sem_from].
    destruct (is_help o) eqn:Hh.
    + destruct o; try discriminate Hh. cbn in I1. destruct I1 as [<-|[]]. reflexivity.
    + rewrite (step_opt_p f tm c o sp rest Oo Hh I1 (head_render r rest I2)). apply IH; assumption.
Qed.
(* every spelling of every sequence of documented options means what the help text says, whatever plugins are installed *)
Lemma meaning_p f tm prog opts argv : forallb opt_ok opts = true -> In argv (render opts) -> parse_p f tm (prog :: argv) = sem tm opts.
Proof. intros OK I. unfold parse_p, sem. cbn [tl]. apply parse_render_p; assumption. Qed.
Lemma spells_meaning f tm argv opts : spells argv opts = true -> parse_p f tm argv = sem tm opts.
Proof.
  intro S. unfold spells in S. apply andb_true_iff in S. destruct S as [S NE]. apply andb_true_iff in S. destruct S as [OK EX].
  apply existsb_exists in EX. destruct EX as [r [I E]]. apply list_eqb_bytes_eq in E.
  destruct argv as [|prog rest]; [discriminate NE|]. cbn [tl] in E. subst r. apply meaning_p; assumption.
Qed.

(* help is printed only for a vector that has the argument -h *)
Lemma set_repeat_count_no_help c a nx : set_repeat_count c a nx <> HReject true.
Proof. unfold set_repeat_count. destruct (Nat.ltb 2 (length a)); [discriminate|]. destruct nx; discriminate. Qed.
Lemma set_shuffle_no_help tm c a nx : set_shuffle tm c a nx <> HReject true.
Proof.
  unfold set_shuffle. destruct (Nat.ltb 2 (length a)).
  - destruct (atou (skipn 2 a) =? 0); discriminate.
  - destruct nx as [n|].
    + destruct (atou n =? 0); [|discriminate]. match goal with |- (if ?b then _ else _) <> _ => destruct b end; discriminate.
    + match goal with |- (if ?b then _ else _) <> _ => destruct b end; discriminate.
Qed.
Lemma add_filter_no_help g s i n c a nx : add_filter g s i n c a nx <> HReject true.
Proof. unfold add_filter. destruct (param_field n a nx). discriminate. Qed.
Lemma add_group_dot_name_no_help s i n c a nx : add_group_dot_name s i n c a nx <> HReject true.
Proof.
  unfold add_group_dot_name. destruct (param_field n a nx) as [v u].
  destruct (split_incl 46 v) as [|t0 [|t1 [|t2 r]]]; discriminate.
Qed.
Lemma add_verbose_test_no_help n c a nx : add_verbose_test n c a nx <> HReject true.
Proof. unfold add_verbose_test. destruct (param_field n a nx). discriminate. Qed.
Lemma set_output_type_no_help n c a nx : set_output_type n c a nx <> HReject true.
Proof.
  unfold set_output_type. destruct (param_field n a nx) as [v u]. destruct v; [discriminate|].
  destruct (lookup_output c12_outputs (n0 :: v)); discriminate.
Qed.
Lemma set_package_name_no_help n c a nx : set_package_name n c a nx <> HReject true.
Proof. unfold set_package_name. destruct (param_field n a nx). discriminate. Qed.
Lemma action_help r : In r c12_dispatch -> forall tm c a nx, action tm c (fst r) (snd r) a nx = HReject true -> r = (MExact, B "-h").
Proof.
  intros H tm c a nx. unfold c12_dispatch in H.
  repeat (destruct H as [H|H]; [subst r; cbn [fst snd]; intro E; try reflexivity; exfalso; revert E;
    first [ discriminate
          | apply set_repeat_count_no_help | apply set_shuffle_no_help | apply add_filter_no_help | apply add_group_dot_name_no_help
          | apply add_verbose_test_no_help | apply set_output_type_no_help | apply set_package_name_no_help
          | (cbv [action key match_eqb bytes_eqb N.eqb Pos.eqb andb]; destruct (plugin_accepts a); discriminate) ] |]).
  destruct H.
Qed.
Lemma handle_p_help f tm c a nx : handle_p f tm c a nx = HReject true -> a = B "-h".
Proof.
  unfold handle_p. destruct (plugin_rule a); [destruct (f a); discriminate|]. unfold handle.
  destruct (first_match c12_dispatch a) as [[k lit]|] eqn:E; [|discriminate]. intro H.
  pose proof (action_help (k, lit) (first_match_in _ _ _ E) tm c a nx H) as R. injection R as -> ->.
  apply first_match_matches in E. cbn [rule_matches fst snd] in E. apply bytes_eqb_eq in E. exact E.
Qed.
Lemma parse_args_p_help_n f n : forall tm c args, (length args <= n)%nat -> parse_args_p f tm c args = Reject true -> In (B "-h") args.
Proof.
  induction n as [|n IH]; intros tm c args L.
  - destruct args; [discriminate | cbn in L; lia].
  - destruct args as [|a rest]; [discriminate|]. cbn [parse_args_p]. cbn in L.
    destruct (handle_p f tm c a (hd_error rest)) as [h|c' [|]|] eqn:E; [| | | discriminate].
    + intro R. injection R as ->. left. apply (handle_p_help f tm c a _ E).
    + destruct rest as [|b rest']; [discriminate|]. intro R. right. right. apply (IH tm c' rest'); [cbn in L; lia | exact R].
    + intro R. right. apply (IH tm c' rest); [lia | exact R].
Qed.
Lemma parse_p_help f tm argv : parse_p f tm argv = Reject true -> In (B "-h") (tl argv).
Proof. unfold parse_p. apply (parse_args_p_help_n f (length (tl argv))). apply le_n. Qed.

(* ================================================================ (2) the plugin chain across a call *)
Definition not_runners (p : plugin) : bool := negb (runner_name (pl_name p)).
Definition without_runner_names (ch : list plugin) : list plugin := List.filter not_runners ch.
Lemma remove_both ch :
  remove_plugin_by_name NAME_MEM_LEAK (remove_plugin_by_name NAME_SET_POINTER (install_plugin set_pointer_plugin (install_plugin mem_leak_plugin ch)))
  = without_runner_names ch.
Proof.
  unfold install_plugin, remove_plugin_by_name, without_runner_names.
  change (List.filter (fun p => negb (pl_name p =? NAME_MEM_LEAK)) (List.filter (fun p => negb (pl_name p =? NAME_SET_POINTER)) ch)
          = List.filter not_runners ch).
  induction ch as [|p ch IH]; [reflexivity|]. cbn [List.filter]. unfold not_runners at 1, runner_name.
  destruct (pl_name p =? NAME_SET_POINTER) eqn:E1; cbn [negb].
  - rewrite orb_true_r. cbn [negb]. exact IH.
  - cbn [List.filter]. rewrite orb_false_r. destruct (pl_name p =? NAME_MEM_LEAK); cbn [negb]; rewrite IH; reflexivity.
Qed.
Lemma without_runner_names_idem ch : without_runner_names (without_runner_names ch) = without_runner_names ch.
Proof.
  unfold without_runner_names. induction ch as [|p ch IH]; [reflexivity|]. cbn [List.filter].
  destruct (not_runners p) eqn:E; [cbn [List.filter]; rewrite E, IH; reflexivity | exact IH].
Qed.
Lemma without_runner_names_id ch : forallb not_runners ch = true -> without_runner_names ch = ch.
Proof. intro H. apply filter_all. intros x I. rewrite forallb_forall in H. apply H. exact I. Qed.
(* the chain a call leaves behind: the one it found, without the two names the runner removes by -- accepted, rejected, failing, big *)
Lemma static_plugins tm mask st argv :
  st_plugins (snd (run_all_tests_static_gen false tm mask st argv)) = without_runner_names (st_plugins st).
Proof.
  unfold run_all_tests_static_gen.
  destruct (parse_p _ tm argv) as [h|c|]; [| destruct (run_on c (st_reg st)) as [a r'] |];
    cbn [snd st_plugins andb]; apply remove_both.
Qed.
Lemma static_tags tm mask st argv p seeds ran tags :
  fst (run_all_tests_static_gen false tm mask st argv) = CCall p seeds ran tags -> tags = map pl_tag (without_runner_names (st_plugins st)).
Proof.
  unfold run_all_tests_static_gen.
  destruct (parse_p _ tm argv) as [h|c|]; [| destruct (run_on c (st_reg st)) as [a r'] |];
    cbn [fst andb]; rewrite remove_both; intro H; injection H as _ _ _ <-; reflexivity.
Qed.
Lemma static_obs_shape tm mask st argv : exists p seeds ran tags, fst (run_all_tests_static_gen false tm mask st argv) = CCall p seeds ran tags.
Proof.
  unfold run_all_tests_static_gen.
  destruct (parse_p _ tm argv) as [h|c|]; [| destruct (run_on c (st_reg st)) as [a r'] |]; cbn [fst]; repeat eexists.
Qed.

(* the user's plugins *)
Lemma user_tags_from ps : forall i, map pl_tag (user_plugins_from i ps) = tags_from i (length ps).
Proof. induction ps as [|[n k] r IH]; intro i; [reflexivity|]. cbn. rewrite IH. reflexivity. Qed.
Lemma user_tags ps : map pl_tag (user_plugins ps) = initial_tags ps.
Proof. apply user_tags_from. Qed.
Lemma user_tags_positive ps : forall i, 0 < i -> forallb (fun p => negb (pl_tag p =? 0)) (user_plugins_from i ps) = true.
Proof.
  induction ps as [|[n k] r IH]; intros i L; [reflexivity|]. cbn [user_plugins_from forallb pl_tag].
  rewrite IH by lia. destruct (i =? 0) eqn:E; [lia | reflexivity].
Qed.
Lemma user_no_clash_from ps : name_clash ps = false -> forall i, forallb not_runners (user_plugins_from i ps) = true.
Proof.
  induction ps as [|[n k] r IH]; intros C i; [reflexivity|]. cbn [name_clash existsb fst] in C. apply orb_false_iff in C. destruct C as [C1 C2].
  cbn [user_plugins_from forallb]. unfold not_runners at 1. cbn [pl_name]. rewrite C1. cbn [negb andb]. apply IH. exact C2.
Qed.
Lemma user_takes_from a ps : forall i, chain_takes (user_plugins_from i ps) a = existsb (fun q => kind_takes (snd q) a) ps.
Proof.
  induction ps as [|[n k] r IH]; intro i; [reflexivity|]. cbn [user_plugins_from]. unfold chain_takes in *. cbn [existsb snd].
  rewrite IH. reflexivity.
Qed.
Lemma filter_forallb {A} (f g : A -> bool) l : forallb f l = true -> forallb f (List.filter g l) = true.
Proof.
  intro H. apply forallb_forall. intros x I. apply filter_In in I. rewrite forallb_forall in H. apply H. exact (proj1 I).
Qed.

(* ================================================================ (3) what runs on a registry that holds the probe tests in some order *)
Lemma perm_filter {A} (f : A -> bool) l l' : Permutation l l' -> Permutation (List.filter f l) (List.filter f l').
Proof.
  induction 1 as [|x l l' P IH|x y l|l l' l'' P1 IH1 P2 IH2]; cbn [List.filter].
  - constructor.
  - destruct (f x); [constructor; exact IH | exact IH].
  - destruct (f x), (f y); try apply Permutation_refl. apply perm_swap.
  - eapply Permutation_trans; eassumption.
Qed.
Lemma times_concat {A} (x : list A) n : concat (repeat x n) = times n x.
Proof. induction n as [|n IH]; [reflexivity|]. cbn. rewrite IH. reflexivity. Qed.
Lemma filter_times {A} (f : A -> bool) (x : list A) n : List.filter f (times n x) = times n (List.filter f x).
Proof. induction n as [|n IH]; [reflexivity|]. cbn [times]. rewrite filter_app, IH. reflexivity. Qed.
Lemma perm_times {A} (x y : list A) n : Permutation x y -> Permutation (times n x) (times n y).
Proof. intro P. induction n as [|n IH]; [constructor|]. cbn [times]. apply Permutation_app; assumption. Qed.
Lemma is_perm_of_perm a b : Permutation a b -> is_perm a b = true.
Proof. intro P. apply is_perm_counts. apply count_n_perm. exact P. Qed.

Definition tests_ok (r : registry) : Prop := Permutation (g_tests r) reg0.
Lemma tests_in r t : tests_ok r -> In t (g_tests r) -> In t reg0.
Proof. intros P I. eapply Permutation_in; eassumption. Qed.
(* the registry a run leaves behind still holds the probe tests *)
Lemma run_on_tests c r : tests_ok r -> tests_ok (snd (run_on c r)).
Proof.
  unfold tests_ok, run_on. intro P.
  destruct (c_listg c); [exact P|]. destruct (c_listn c); [exact P|]. destruct (c_listl c); [exact P|].
  cbn [snd]. destruct (c_rev c); cbn [g_tests reverse_tests with_tests initialize_registry]; [|exact P].
  eapply Permutation_trans; [apply Permutation_sym, Permutation_rev | exact P].
Qed.
Lemma not_ignored_reg0 l : (forall t, In t l -> In t reg0) ->
  List.filter not_ignored (map fst l) = map fst (List.filter (fun t : N * rprobe => negb (p_ign (snd t))) l).
Proof.
  induction l as [|t l IH]; intro H; [reflexivity|]. cbn [List.filter map]. unfold not_ignored at 1.
  rewrite (ignored_id_reg0 t (H t (or_introl eq_refl))).
  destruct (negb (p_ign (snd t))); cbn [map]; rewrite IH by (intros y I; apply H; right; exact I); reflexivity.
Qed.
Lemma filter_filter_impl {A} (f g : A -> bool) l : (forall x, f x = true -> g x = true) ->
  List.filter f (List.filter g l) = List.filter f l.
Proof.
  intro H. induction l as [|x l IH]; [reflexivity|]. cbn [List.filter]. destruct (g x) eqn:G; cbn [List.filter].
  - rewrite IH. reflexivity.
  - destruct (f x) eqn:F; [rewrite (H x F) in G; discriminate | exact IH].
Qed.
(* one repetition on a registry r' that carries the configuration's filters *)
Section OneRepetition.
  Variable c : config.
  Variable r' : registry.
  Hypothesis GF : g_gf r' = c_gf c.
  Hypothesis NF : g_nf r' = c_nf c.
  Hypothesis OK : tests_ok r'.
  Let sel (t : N * rprobe) : bool := doc_selected c (p_group (snd t), p_name (snd t)).
  Lemma started_perm lvl col seeds : Permutation (r_started (run_registry r' lvl col seeds)) (natural c).
  Proof.
    unfold run_registry, natural, doc_tests. cbn [r_started]. apply Permutation_map.
    rewrite (filter_ext (fun t => should_run r' (snd t)) sel) by (intro t; apply should_run_doc; assumption). apply perm_filter. exact OK.
  Qed.
  Lemma ran_not_ignored lvl col seeds :
    Permutation (List.filter not_ignored (r_ran (run_registry r' lvl col seeds))) (List.filter not_ignored (natural c)).
  Proof.
    unfold run_registry, natural, doc_tests. cbn [r_ran].
    rewrite not_ignored_reg0 by (intros t I; apply filter_In in I; destruct I as [I _]; apply filter_In in I; apply (tests_in r' t OK (proj1 I))).
    rewrite not_ignored_reg0 by (intros t I; apply filter_In in I; exact (proj1 I)).
    apply Permutation_map.
    rewrite filter_filter_impl by (intros t H; unfold will_run; rewrite H; reflexivity).
    rewrite (filter_ext (fun t => should_run r' (snd t)) sel) by (intro t; apply should_run_doc; assumption).
    apply perm_filter. apply perm_filter. exact OK.
  Qed.
  Lemma ran_all_when_ignored_run lvl col seeds : g_ri r' = true ->
    Permutation (r_ran (run_registry r' lvl col seeds)) (natural c).
  Proof.
    intro RI. unfold run_registry, natural, doc_tests. cbn [r_ran]. apply Permutation_map.
    rewrite filter_all by (intros t _; unfold will_run; rewrite RI; apply orb_true_r).
    rewrite (filter_ext (fun t => should_run r' (snd t)) sel) by (intro t; apply should_run_doc; assumption). apply perm_filter. exact OK.
  Qed.
End OneRepetition.
Lemma flat_ran_repeat outs text rep n : flat_ran (AApplied outs text (repeat rep n)) = times n (r_ran rep).
Proof.
  unfold flat_ran. cbn [reps_of]. induction n as [|n IH]; [reflexivity|]. cbn [repeat map concat times]. rewrite IH. reflexivity.
Qed.
Lemma run_on_ran c r : tests_ok r -> ran_documented c (flat_ran (fst (run_on c r))) = true.
Proof.
  intro OK. unfold ran_documented, list_mode, run_on.
  destruct (c_listg c); [reflexivity|]. destruct (c_listn c); [reflexivity|]. destruct (c_listl c); [reflexivity|].
  cbn [orb fst].
  set (r' := if c_rev c then reverse_tests (initialize_registry c r) else initialize_registry c r).
  assert (GF : g_gf r' = c_gf c) by (subst r'; destruct (c_rev c); reflexivity).
  assert (NF : g_nf r' = c_nf c) by (subst r'; destruct (c_rev c); reflexivity).
  assert (OK' : tests_ok r').
  { subst r'. unfold tests_ok in *. destruct (c_rev c); cbn [g_tests reverse_tests with_tests initialize_registry]; [|exact OK].
    eapply Permutation_trans; [apply Permutation_sym, Permutation_rev | exact OK]. }
  rewrite repeat_loop_const, flat_ran_repeat, filter_times.
  apply andb_true_iff. split.
  - apply is_perm_of_perm. apply perm_times. apply (ran_not_ignored c r' GF NF OK').
  - destruct (c_runign c) eqn:RI; [|reflexivity]. cbn [negb orb]. apply is_perm_of_perm. apply perm_times.
    apply (ran_all_when_ignored_run c r' GF NF OK').
    subst r'. destruct (c_rev c); cbn [g_ri reverse_tests with_tests initialize_registry]; rewrite RI; reflexivity.
Qed.
(* the same configuration on two registries: the same tests that are not IGNORE_TESTs, as often *)
Lemma run_on_same c r1 r2 : tests_ok r1 -> tests_ok r2 ->
  is_perm (List.filter not_ignored (flat_ran (fst (run_on c r1)))) (List.filter not_ignored (flat_ran (fst (run_on c r2)))) = true.
Proof.
  intros O1 O2. pose proof (run_on_ran c r1 O1) as H1. pose proof (run_on_ran c r2 O2) as H2. unfold ran_documented in *.
  destruct (list_mode c).
  - destruct (flat_ran (fst (run_on c r1))); [|discriminate H1]. destruct (flat_ran (fst (run_on c r2))); [|discriminate H2]. reflexivity.
  - apply andb_true_iff in H1. destruct H1 as [H1 _]. apply andb_true_iff in H2. destruct H2 as [H2 _].
    apply is_perm_counts. intro x. unfold is_perm in H1, H2. rewrite forallb_forall in H1, H2.
    set (a := List.filter not_ignored (flat_ran (fst (run_on c r1)))) in *.
    set (b := List.filter not_ignored (flat_ran (fst (run_on c r2)))) in *.
    set (m := times (N.to_nat (c_repeat c)) (List.filter not_ignored (natural c))) in *.
    assert (C : forall l, (forall y, In y (l ++ m) -> Nat.eqb (count_n y l) (count_n y m) = true) -> count_n x l = count_n x m).
    { intros l H. destruct (in_dec N.eq_dec x (l ++ m)) as [I|NI]; [apply Nat.eqb_eq, H, I|].
      assert (Z : forall k, ~ In x k -> count_n x k = O).
      { induction k as [|y k IHk]; intro NK; [reflexivity|]. cbn. destruct (y =? x) eqn:E.
        - apply N.eqb_eq in E. subst y. exfalso. apply NK. left. reflexivity.
        - apply IHk. intro I. apply NK. right. exact I. }
      rewrite (Z l), (Z m); [reflexivity | |]; intro I; apply NI; apply in_or_app; [right | left]; exact I. }
    rewrite (C a H1), (C b H2). reflexivity.
Qed.

(* ================================================================ (4) the oracle accepts the model *)
Lemma chain_takes_runner ch x : chain_takes (install_plugin set_pointer_plugin (install_plugin mem_leak_plugin ch)) x = chain_takes ch x.
Proof. reflexivity. Qed.
(* one call, seen from outside *)
Definition call_view (tm : N) (st : sstate) (v : list bytes) : call_obs :=
  let tags := map pl_tag (without_runner_names (st_plugins st)) in
  match parse_p (chain_takes (st_plugins st)) tm v with
  | Accept c => if REP_CAP <? c_repeat c then CBig
                else let a := fst (run_on c (st_reg st)) in CCall PNothing (srand_calls a) (flat_ran a) tags
  | Reject h => CCall (if h then PHelp else PUsage) 0 [] tags
  | Unknown => CCall POther 0 [] tags
  end.
Lemma one_call_view tm mask st v : fst (one_call tm mask st v) = call_view tm st v.
Proof.
  unfold one_call, one_call_gen, too_big, call_view, run_all_tests_static_gen.
  rewrite (parse_p_ext _ _ tm v (chain_takes_runner (st_plugins st))).
  destruct (parse_p (chain_takes (st_plugins st)) tm v) as [h|c|].
  - cbn [fst andb]. rewrite remove_both. reflexivity.
  - destruct (REP_CAP <? c_repeat c); [reflexivity|]. destruct (run_on c (st_reg st)) as [a r']. cbn [fst andb]. rewrite remove_both. reflexivity.
  - cbn [fst andb]. rewrite remove_both. reflexivity.
Qed.
Lemma one_call_state tm mask st v :
  snd (one_call tm mask st v) = st \/
  (st_plugins (snd (one_call tm mask st v)) = without_runner_names (st_plugins st) /\
   (st_reg (snd (one_call tm mask st v)) = st_reg st \/ exists c, st_reg (snd (one_call tm mask st v)) = snd (run_on c (st_reg st)))).
Proof.
  unfold one_call, one_call_gen. destruct (too_big tm st v); [left; reflexivity|]. right. split; [apply static_plugins|].
  unfold run_all_tests_static_gen. destruct (parse_p _ tm v) as [h|c|].
  - left. reflexivity.
  - right. exists c. destruct (run_on c (st_reg st)) as [a r']. reflexivity.
  - left. reflexivity.
Qed.

(* states a sequence can be in *)
Definition good (ps : list (N * N)) (st : sstate) : Prop :=
  (st_plugins st = user_plugins ps \/ st_plugins st = without_runner_names (user_plugins ps)) /\ tests_ok (st_reg st).
Lemma good_initial ps : good ps (initial_state ps).
Proof. split; [left; reflexivity | apply Permutation_refl]. Qed.
Lemma good_step ps tm mask st v : good ps st -> good ps (snd (one_call tm mask st v)).
Proof.
  intros [P T]. destruct (one_call_state tm mask st v) as [E|[E1 E2]]; [rewrite E; split; assumption|]. split.
  - right. rewrite E1. destruct P as [-> | ->]; [reflexivity | apply without_runner_names_idem].
  - destruct E2 as [-> | [c ->]]; [exact T | apply run_on_tests; exact T].
Qed.
Lemma good_no_clash ps st : name_clash ps = false -> good ps st -> st_plugins st = user_plugins ps.
Proof.
  intros C [[P|P] _]; [exact P|]. rewrite P. apply without_runner_names_id. apply user_no_clash_from. exact C.
Qed.
Lemma good_tags ps st : good ps st -> registry_restored ps (map pl_tag (without_runner_names (st_plugins st))) = true.
Proof.
  intros [P _]. assert (E : without_runner_names (st_plugins st) = without_runner_names (user_plugins ps)).
  { destruct P as [-> | ->]; [reflexivity | apply without_runner_names_idem]. }
  rewrite E. unfold registry_restored. apply andb_true_iff. split.
  - assert (M : forall l, forallb (fun t => negb (t =? 0)) (map pl_tag l) = forallb (fun p => negb (pl_tag p =? 0)) l).
    { induction l as [|x l IH]; [reflexivity|]. cbn. rewrite IH. reflexivity. }
    rewrite M. apply filter_forallb. apply user_tags_positive. lia.
  - destruct (name_clash ps) eqn:C; [reflexivity|]. cbn [orb].
    rewrite without_runner_names_id by (apply user_no_clash_from; exact C). rewrite user_tags. apply nlist_eqb_refl.
Qed.
(* an argument -p<x>, x not empty, is handed to the chain *)
Lemma plugin_rule_long a : is_prefix (B "-p") a = true -> Nat.ltb 2 (length a) = true -> plugin_rule a = true.
Proof.
  intros P L. apply is_prefix_spec in P. destruct P as [q ->]. destruct q as [|x q]; [discriminate L|]. reflexivity.
Qed.
Lemma view_reject_clean tm st v : reject_clean (call_view tm st v) = true.
Proof.
  unfold call_view. destruct (parse_p_total (chain_takes (st_plugins st)) tm v) as [[h E]|[c E]]; rewrite E.
  - destruct h; reflexivity.
  - destruct (REP_CAP <? c_repeat c); reflexivity.
Qed.
Lemma view_help_asked tm st v : help_asked v (call_view tm st v) = true.
Proof.
  unfold call_view, help_asked. destruct (parse_p (chain_takes (st_plugins st)) tm v) as [h|c|] eqn:E.
  - destruct h; [|reflexivity]. apply parse_p_help in E. apply existsb_exists. exists (B "-h"). split; [exact E | apply bytes_eqb_refl].
  - destruct (REP_CAP <? c_repeat c); reflexivity.
  - reflexivity.
Qed.
Lemma view_documented tm st v opts : tests_ok (st_reg st) -> call_documented tm v opts (call_view tm st v) = true.
Proof.
  intro T. unfold call_documented. destruct (spells v opts) eqn:S; [|reflexivity].
  unfold call_view. rewrite (spells_meaning _ tm v opts S).
  destruct (parse_p_total (chain_takes (st_plugins st)) tm v) as [[h E]|[c E]]; rewrite (spells_meaning _ tm v opts S) in E; rewrite E.
  - destruct h; reflexivity.
  - destruct (REP_CAP <? c_repeat c); [reflexivity|]. cbn zeta. apply run_on_ran. exact T.
Qed.
Lemma view_plugin_option tm ps st v : good ps st -> call_plugin_option ps v (call_view tm st v) = true.
Proof.
  intro G. unfold call_plugin_option. destruct (plugin_option v) as [a|] eqn:PO; [|reflexivity].
  destruct (name_clash ps) eqn:C; [reflexivity|]. cbn [orb].
  unfold plugin_option in PO. destruct v as [|x [|a' [|b r]]]; try discriminate PO.
  destruct (is_prefix (B "-p") a' && Nat.ltb 2 (length a')) eqn:Q; [|discriminate PO]. injection PO as <-.
  apply andb_true_iff in Q. destruct Q as [Q1 Q2].
  unfold call_view. rewrite (good_no_clash ps st C G).
  unfold parse_p. cbn [tl parse_args_p hd_error]. unfold handle_p. rewrite (plugin_rule_long a' Q1 Q2).
  unfold user_plugins. rewrite user_takes_from.
  destruct (existsb (fun q => kind_takes (snd q) a') ps); reflexivity.
Qed.
Lemma view_ok tm ps st v opts : good ps st -> call_ok tm ps (v, opts) (call_view tm st v) = true.
Proof.
  intro G. unfold call_ok. cbn [fst snd]. rewrite view_reject_clean, view_help_asked, (view_documented tm st v opts (proj2 G)), (view_plugin_option tm ps st v G).
  cbn [andb]. pose proof (good_tags ps st G) as R. unfold call_view.
  destruct (parse_p (chain_takes (st_plugins st)) tm v) as [h|c|]; [exact R | | exact R].
  destruct (REP_CAP <? c_repeat c); [reflexivity | exact R].
Qed.

(* the same vector from two states of one sequence: the same outcome *)
Lemma view_same tm ps st1 st2 v : name_clash ps = false -> good ps st1 -> good ps st2 ->
  same_outcome (call_view tm st1 v) (call_view tm st2 v) = true.
Proof.
  intros C G1 G2. unfold call_view. rewrite (good_no_clash ps st1 C G1), (good_no_clash ps st2 C G2).
  destruct (parse_p (chain_takes (user_plugins ps)) tm v) as [h|c|].
  - cbn [same_outcome]. destruct h; reflexivity.
  - destruct (REP_CAP <? c_repeat c); [reflexivity|]. cbn zeta. cbn [same_outcome printed_eqb andb].
    apply run_on_same; [exact (proj2 G1) | exact (proj2 G2)].
  - reflexivity.
Qed.

(* ---------------------------------------------------------------- whole sequences *)
Lemma run_calls_cons tm mask st v r :
  run_calls tm mask st (v :: r) = call_view tm st v :: run_calls tm mask (snd (one_call tm mask st v)) r.
Proof.
  unfold run_calls. cbn [run_calls_gen]. fold (one_call tm mask st v). rewrite <- (one_call_view tm mask st v).
  destruct (one_call tm mask st v) as [o st']. reflexivity.
Qed.
(* one observation per vector: every call returns *)
Lemma run_calls_length tm mask : forall vs st, length (run_calls tm mask st vs) = length vs.
Proof. induction vs as [|v r IH]; intro st; [reflexivity|]. rewrite run_calls_cons. cbn [length]. rewrite IH. reflexivity. Qed.
Lemma calls_ok_model tm ps mask : forall calls st, good ps st ->
  forallb (fun vo => call_ok tm ps (fst vo) (snd vo)) (zip calls (run_calls tm mask st (map fst calls))) = true.
Proof.
  induction calls as [|[v opts] r IH]; intros st G; [reflexivity|]. cbn [map fst]. rewrite run_calls_cons. cbn [zip forallb fst snd].
  rewrite (view_ok tm ps st v opts G). cbn [andb]. apply IH. apply good_step. exact G.
Qed.
Lemma run_calls_in tm ps mask w o : forall vs st, good ps st -> In (w, o) (zip vs (run_calls tm mask st vs)) ->
  exists st', good ps st' /\ o = call_view tm st' w.
Proof.
  induction vs as [|v r IH]; intros st G I; [destruct I|]. rewrite run_calls_cons in I. cbn [zip In] in I. destruct I as [E|I].
  - injection E as <- <-. exists st. split; [exact G | reflexivity].
  - apply (IH (snd (one_call tm mask st v))); [apply good_step; exact G | exact I].
Qed.
Lemma consistent_model tm ps mask : name_clash ps = false -> forall vs st, good ps st ->
  consistent (zip vs (run_calls tm mask st vs)) = true.
Proof.
  intro C. induction vs as [|v r IH]; intros st G; [reflexivity|]. rewrite run_calls_cons. cbn [zip consistent].
  apply andb_true_iff. split; [|apply IH; apply good_step; exact G].
  apply forallb_forall. intros [w o] I. cbn [fst snd].
  destruct (list_eqb bytes_eqb v w) eqn:E; [|reflexivity]. cbn [negb orb]. apply list_eqb_bytes_eq in E. subst w.
  destruct (run_calls_in tm ps mask v o r _ (good_step ps tm mask st v G) I) as [st' [G' ->]].
  apply (view_same tm ps st st' v C G G').
Qed.
Lemma seq_meets_spec tm ps mask calls :
  seq_spec tm ps calls (run_calls tm mask (initial_state ps) (map fst calls)) FEnd = true.
Proof.
  unfold seq_spec. rewrite run_calls_length, map_length, Nat.eqb_refl, (calls_ok_model tm ps mask calls _ (good_initial ps)). cbn [andb].
  destruct (name_clash ps) eqn:C; [reflexivity|]. cbn [orb]. apply (consistent_model tm ps mask C). apply good_initial.
Qed.
Lemma yrun_meets_spec s : yvalid s = true -> yspec s (yrun s) = true.
Proof.
  destruct s as [tm argv opts | tm ps mask calls]; cbn [yvalid yrun yspec]; intro V.
  - apply xrun_meets_spec. exact V.
  - apply seq_meets_spec.
Qed.

(* ================================================================ (5) Prop-level statements *)
(* what runs, for a configuration, on any registry that holds the probe tests: Prop level *)
Lemma run_on_ran_prop c r : tests_ok r ->
  let ran := flat_ran (fst (run_on c r)) in
  (list_mode c = true -> ran = []) /\
  (list_mode c = false ->
     Permutation (List.filter not_ignored ran) (times (N.to_nat (c_repeat c)) (List.filter not_ignored (natural c))) /\
     (c_runign c = true -> Permutation ran (times (N.to_nat (c_repeat c)) (natural c)))).
Proof.
  intro OK. cbn zeta. unfold list_mode, run_on.
  destruct (c_listg c); [split; [reflexivity | discriminate]|]. destruct (c_listn c); [split; [reflexivity | discriminate]|].
  destruct (c_listl c); [split; [reflexivity | discriminate]|]. cbn [orb fst]. split; [discriminate|]. intros _.
  set (r' := if c_rev c then reverse_tests (initialize_registry c r) else initialize_registry c r).
  assert (GF : g_gf r' = c_gf c) by (subst r'; destruct (c_rev c); reflexivity).
  assert (NF : g_nf r' = c_nf c) by (subst r'; destruct (c_rev c); reflexivity).
  assert (OK' : tests_ok r').
  { subst r'. unfold tests_ok in *. destruct (c_rev c); cbn [g_tests reverse_tests with_tests initialize_registry]; [|exact OK].
    eapply Permutation_trans; [apply Permutation_sym, Permutation_rev | exact OK]. }
  rewrite repeat_loop_const, flat_ran_repeat, filter_times. split.
  - apply perm_times. apply (ran_not_ignored c r' GF NF OK').
  - intro RI. apply perm_times. apply (ran_all_when_ignored_run c r' GF NF OK').
    subst r'. destruct (c_rev c); cbn [g_ri reverse_tests with_tests initialize_registry]; rewrite RI; reflexivity.
Qed.

(* a call gives the chain back as it found it -- accepted, rejected, tests failing, nothing run, too big: whatever the result *)
Lemma plugins_restored tm mask st v : forallb not_runners (st_plugins st) = true ->
  st_plugins (snd (one_call tm mask st v)) = st_plugins st.
Proof.
  intro H. destruct (one_call_state tm mask st v) as [E|[E _]]; [rewrite E; reflexivity|]. rewrite E. apply without_runner_names_id. exact H.
Qed.
(* in general: nothing is ever added, and nothing of the runner's two names stays *)
Lemma plugins_never_added tm mask st v :
  st_plugins (snd (one_call tm mask st v)) = st_plugins st \/
  st_plugins (snd (one_call tm mask st v)) = without_runner_names (st_plugins st).
Proof. destruct (one_call_state tm mask st v) as [E|[E _]]; [left; rewrite E; reflexivity | right; exact E]. Qed.
(* the observation says so: the tags after the call are the tags of the user's plugins *)
Lemma tags_restored tm mask ps st v p seeds ran tags : name_clash ps = false -> good ps st ->
  fst (one_call tm mask st v) = CCall p seeds ran tags -> tags = initial_tags ps /\ length tags = length ps.
Proof.
  intros C G E. rewrite one_call_view in E. unfold call_view in E. rewrite (good_no_clash ps st C G) in E.
  rewrite without_runner_names_id in E by (apply user_no_clash_from; exact C). rewrite user_tags in E.
  assert (T : tags = initial_tags ps).
  { destruct (parse_p _ tm v) as [h|c|]; [| destruct (REP_CAP <? c_repeat c); [discriminate E|] |]; injection E as _ _ _ <-; reflexivity. }
  split; [exact T|]. rewrite T. unfold initial_tags. generalize 1. induction (length ps) as [|n IH]; intro i; [reflexivity|]. cbn. rewrite IH. reflexivity.
Qed.

(* the state after any sequence of calls *)
Lemma end_state_good ps tm mask : forall vs st, good ps st -> good ps (end_state tm mask st vs).
Proof. induction vs as [|v r IH]; intros st G; [exact G|]. cbn [end_state]. apply IH. apply good_step. exact G. Qed.
Lemma plugins_after_any_sequence ps tm mask vs : name_clash ps = false ->
  st_plugins (end_state tm mask (initial_state ps) vs) = user_plugins ps.
Proof. intro C. apply (good_no_clash ps _ C). apply end_state_good. apply good_initial. Qed.

(* accept / reject / what runs does not depend on the calls made before *)
Definition same_outcome_prop (a b : call_obs) : Prop :=
  match a, b with
  | CBig, CBig => True
  | CCall p _ ran _, CCall p' _ ran' _ => p = p' /\ Permutation (List.filter not_ignored ran) (List.filter not_ignored ran')
  | _, _ => False
  end.
Lemma view_same_prop tm ps st1 st2 v : name_clash ps = false -> good ps st1 -> good ps st2 ->
  same_outcome_prop (call_view tm st1 v) (call_view tm st2 v).
Proof.
  intros C G1 G2. unfold call_view. rewrite (good_no_clash ps st1 C G1), (good_no_clash ps st2 C G2).
  destruct (parse_p (chain_takes (user_plugins ps)) tm v) as [h|c|].
  - split; [reflexivity | apply Permutation_refl].
  - destruct (REP_CAP <? c_repeat c); [exact I|]. cbn zeta. split; [reflexivity|].
    destruct (run_on_ran_prop c (st_reg st1) (proj2 G1)) as [L1 N1]. destruct (run_on_ran_prop c (st_reg st2) (proj2 G2)) as [L2 N2].
    destruct (list_mode c) eqn:LM.
    + rewrite (L1 eq_refl), (L2 eq_refl). apply Permutation_refl.
    + eapply Permutation_trans; [exact (proj1 (N1 eq_refl)) | apply Permutation_sym; exact (proj1 (N2 eq_refl))].
  - split; [reflexivity | apply Permutation_refl].
Qed.
Lemma independent_of_earlier_calls ps tm mask vs1 vs2 v : name_clash ps = false ->
  same_outcome_prop (fst (one_call tm mask (end_state tm mask (initial_state ps) vs1) v))
                    (fst (one_call tm mask (end_state tm mask (initial_state ps) vs2) v)).
Proof.
  intro C. rewrite !one_call_view. apply (view_same_prop tm ps _ _ v C); apply end_state_good; apply good_initial.
Qed.

(* a documented vector, after any calls, with any plugins of the user: rejected with help, or accepted and run as documented *)
Lemma documented_after_any_sequence ps tm mask vs v opts : spells v opts = true ->
  let o := fst (one_call tm mask (end_state tm mask (initial_state ps) vs) v) in
  match sem tm opts with
  | Reject h => exists tags, o = CCall (if h then PHelp else PUsage) 0 [] tags
  | Accept c => c_repeat c <= REP_CAP -> exists seeds ran tags, o = CCall PNothing seeds ran tags /\
                  (list_mode c = true -> ran = []) /\
                  (list_mode c = false ->
                     Permutation (List.filter not_ignored ran) (times (N.to_nat (c_repeat c)) (List.filter not_ignored (natural c))) /\
                     (c_runign c = true -> Permutation ran (times (N.to_nat (c_repeat c)) (natural c))))
  | Unknown => False
  end.
Proof.
  intro S. cbn zeta. rewrite one_call_view. unfold call_view.
  pose proof (end_state_good ps tm mask vs _ (good_initial ps)) as G. set (st := end_state tm mask (initial_state ps) vs) in *.
  rewrite (spells_meaning _ tm v opts S).
  destruct (parse_p_total (chain_takes (st_plugins st)) tm v) as [[h E]|[c E]]; rewrite (spells_meaning _ tm v opts S) in E; rewrite E.
  - eexists. reflexivity.
  - intro L. apply N.ltb_ge in L. rewrite L. cbn zeta. eexists. eexists. eexists. split; [reflexivity|].
    apply (run_on_ran_prop c (st_reg st) (proj2 G)).
Qed.

(* a vector that is one plugin option, after any calls: accepted exactly when a plugin of the user takes it *)
Definition lit_plugin_option : bytes := B "-p".
Lemma plugin_option_after_any_sequence ps tm mask vs x a : name_clash ps = false ->
  is_prefix (B "-p") a = true -> (2 < length a)%nat ->
  exists seeds ran tags, fst (one_call tm mask (end_state tm mask (initial_state ps) vs) [x; a]) =
    CCall (if existsb (fun q => kind_takes (snd q) a) ps then PNothing else PUsage) seeds ran tags.
Proof.
  intros C P L. rewrite one_call_view.
  pose proof (end_state_good ps tm mask vs _ (good_initial ps)) as G. set (st := end_state tm mask (initial_state ps) vs) in *.
  unfold call_view. rewrite (good_no_clash ps st C G).
  unfold parse_p. cbn [tl parse_args_p hd_error]. unfold handle_p. rewrite (plugin_rule_long a P (proj2 (Nat.ltb_lt _ _) L)).
  unfold user_plugins. rewrite user_takes_from.
  destruct (existsb (fun q => kind_takes (snd q) a) ps); repeat eexists.
Qed.

(* the variant that returns before removing its leak plugin when the result is not 0 (red team C12-2): refuted *)
Definition early_return_restores_stmt : Prop :=
  forall tm mask ps vs, name_clash ps = false ->
  forall o, In o (run_calls_gen true tm mask (initial_state ps) vs) ->
  match o with CCall _ _ _ tags => tags = initial_tags ps | CBig => True end.
Lemma early_return_refuted : ~ early_return_restores_stmt.
Proof.
  intro H. specialize (H 5 0 [] [[B "prog"; B "-zz"]] eq_refl). cbv beta in H.
  specialize (H (CCall PUsage 0 [] [0])). assert (I : In (CCall PUsage 0 [] [0]) (run_calls_gen true 5 0 (initial_state []) [[B "prog"; B "-zz"]])).
  { vm_compute. left. reflexivity. }
  specialize (H I). discriminate H.
Qed.
(* and the model as it is does restore in exactly those sequences *)
Lemma restores_in_every_call : forall tm mask ps vs, name_clash ps = false ->
  forall o, In o (run_calls tm mask (initial_state ps) vs) ->
  match o with CCall _ _ _ tags => tags = initial_tags ps | CBig => True end.
Proof.
  intros tm mask ps vs C. assert (K : forall st, good ps st -> forall o, In o (run_calls tm mask st vs) ->
    match o with CCall _ _ _ tags => tags = initial_tags ps | CBig => True end).
  { induction vs as [|v r IH]; intros st G o I; [destruct I|]. rewrite run_calls_cons in I. destruct I as [<-|I].
    - rewrite <- (one_call_view tm mask). destruct (fst (one_call tm mask st v)) as [|p seeds ran tags] eqn:E; [exact Logic.I|].
      apply (tags_restored tm mask ps st v p seeds ran tags C G E).
    - apply (IH (snd (one_call tm mask st v))); [apply good_step; exact G | exact I]. }
  apply K. apply good_initial.
Qed.

(* ties to the one-vector model *)
Lemma run_on_registry0 c : fst (run_on c registry0) = runner_run_all_tests c.
Proof.
  unfold run_on, runner_run_all_tests. destruct (c_listg c); [reflexivity|]. destruct (c_listn c); [reflexivity|].
  destruct (c_listl c); reflexivity.
Qed.
