(* The command-line runner's frame around a run, as TRANSLATED from /repo on every run (gen/Gen_HeapC12R.v):
   CommandLineTestRunner::initializeTestRun, runAllTestsMain and the static RunAllTests(ac, av).
   Exact event lists for every value of the parsed arguments and every answer of the oracles; their reading as an effect on the
   registry's and the process's switches; and the links to the hand-written models that use these functions:
   C02_Model.install (filters overwritten unconditionally, run-ignored only ever switched on), C17_ModelP.runner_globals (rethrowing
   SET from the command line, crash-on-fail only ever switched on) and the call structure of C12_Seq (both plugins removed by name
   whatever the result).  Only definitions of the models are used. *)
From Coq Require Import ZArith Bool List String Lia.
From CppUVerif Require Import lib.CSem lib.CMem lib.CHeap gen.Gen_HeapC12R.
Import ListNotations.
Local Open Scope Z_scope.

Definition opt (b : Z) (l : list rnev) : list rnev := if z2b b then l else [].

(* ---- initializeTestRun ---- *)
Definition init_events (gf nf v vv c sep ri cr rt : Z) : list rnev :=
  [RSetGroupFilters gf; RSetNameFilters nf] ++ opt v [RVerbose 1] ++ opt vv [RVerbose 2] ++ opt c [RColor] ++ opt sep [RSetSeparate] ++
  opt ri [RSetRunIgnored] ++ opt cr [RSetCrashOnFail] ++ [RSetRethrow rt].

Theorem initializeTestRun_events : forall fuel h evs gf nf v vv c sep ri cr rt ps rs ms this,
  src_runner_initializeTestRun fuel h evs gf nf v vv c sep ri cr rt ps rs ms this =
  FOk (tt, h, evs ++ init_events gf nf v vv c sep ri cr rt, gf, nf, v, vv, c, sep, ri, cr, rt, ps, rs, ms).
Proof.
  intros. unfold src_runner_initializeTestRun, init_events, opt.
  destruct (z2b v), (z2b vv), (z2b c), (z2b sep), (z2b ri), (z2b cr); cbn [finish app]; rewrite <- ?app_assoc; reflexivity.
Qed.

(* the switches the events act on *)
Record switches := { s_gf : Z; s_nf : Z; s_verbosity : Z; s_color : bool; s_separate : bool; s_run_ignored : bool; s_crash : bool;
                     s_rethrow : bool }.
Definition apply_ev (s : switches) (e : rnev) : switches :=
  match e with
  | RSetGroupFilters f => {| s_gf := f; s_nf := s_nf s; s_verbosity := s_verbosity s; s_color := s_color s; s_separate := s_separate s;
                             s_run_ignored := s_run_ignored s; s_crash := s_crash s; s_rethrow := s_rethrow s |}
  | RSetNameFilters f => {| s_gf := s_gf s; s_nf := f; s_verbosity := s_verbosity s; s_color := s_color s; s_separate := s_separate s;
                            s_run_ignored := s_run_ignored s; s_crash := s_crash s; s_rethrow := s_rethrow s |}
  | RVerbose l => {| s_gf := s_gf s; s_nf := s_nf s; s_verbosity := l; s_color := s_color s; s_separate := s_separate s;
                     s_run_ignored := s_run_ignored s; s_crash := s_crash s; s_rethrow := s_rethrow s |}
  | RColor => {| s_gf := s_gf s; s_nf := s_nf s; s_verbosity := s_verbosity s; s_color := true; s_separate := s_separate s;
                 s_run_ignored := s_run_ignored s; s_crash := s_crash s; s_rethrow := s_rethrow s |}
  | RSetSeparate => {| s_gf := s_gf s; s_nf := s_nf s; s_verbosity := s_verbosity s; s_color := s_color s; s_separate := true;
                       s_run_ignored := s_run_ignored s; s_crash := s_crash s; s_rethrow := s_rethrow s |}
  | RSetRunIgnored => {| s_gf := s_gf s; s_nf := s_nf s; s_verbosity := s_verbosity s; s_color := s_color s; s_separate := s_separate s;
                         s_run_ignored := true; s_crash := s_crash s; s_rethrow := s_rethrow s |}
  | RSetCrashOnFail => {| s_gf := s_gf s; s_nf := s_nf s; s_verbosity := s_verbosity s; s_color := s_color s; s_separate := s_separate s;
                          s_run_ignored := s_run_ignored s; s_crash := true; s_rethrow := s_rethrow s |}
  | RSetRethrow b => {| s_gf := s_gf s; s_nf := s_nf s; s_verbosity := s_verbosity s; s_color := s_color s; s_separate := s_separate s;
                        s_run_ignored := s_run_ignored s; s_crash := s_crash s; s_rethrow := z2b b |}
  | _ => s
  end.
Definition after (s : switches) (l : list rnev) : switches := fold_left apply_ev l s.

(* what a run's own command line does to the switches, WHATEVER they were: both filter fields and the rethrow switch are
   overwritten, run-ignored / separate-process / crash-on-fail / colour are only ever switched on *)
Theorem initializeTestRun_effect : forall s gf nf v vv c sep ri cr rt,
  let s' := after s (init_events gf nf v vv c sep ri cr rt) in
  s_gf s' = gf /\ s_nf s' = nf /\ s_rethrow s' = z2b rt /\
  s_run_ignored s' = (s_run_ignored s || z2b ri) /\ s_separate s' = (s_separate s || z2b sep) /\
  s_crash s' = (s_crash s || z2b cr) /\ s_color s' = (s_color s || z2b c) /\
  s_verbosity s' = (if z2b vv then 2 else if z2b v then 1 else s_verbosity s).
Proof.
  intros. subst s'. unfold after, init_events, opt.
  destruct (z2b v), (z2b vv), (z2b c), (z2b sep), (z2b ri), (z2b cr); cbn [app fold_left apply_ev s_gf s_nf s_rethrow s_run_ignored s_separate s_crash s_color s_verbosity];
    rewrite ?orb_true_r, ?orb_false_r; repeat split; reflexivity.
Qed.

(* the two settings a later run depends on do not depend on the history: two different earlier states, the same command line *)
Corollary initializeTestRun_filters_and_rethrow_history_free : forall s1 s2 gf nf v vv c sep ri cr rt,
  s_gf (after s1 (init_events gf nf v vv c sep ri cr rt)) = s_gf (after s2 (init_events gf nf v vv c sep ri cr rt)) /\
  s_nf (after s1 (init_events gf nf v vv c sep ri cr rt)) = s_nf (after s2 (init_events gf nf v vv c sep ri cr rt)) /\
  s_rethrow (after s1 (init_events gf nf v vv c sep ri cr rt)) = s_rethrow (after s2 (init_events gf nf v vv c sep ri cr rt)).
Proof.
  intros.
  destruct (initializeTestRun_effect s1 gf nf v vv c sep ri cr rt) as (A1 & B1 & C1 & _).
  destruct (initializeTestRun_effect s2 gf nf v vv c sep ri cr rt) as (A2 & B2 & C2 & _).
  cbv zeta in *. rewrite A1, A2, B1, B2, C1, C2. repeat split; reflexivity.
Qed.

(* ---- runAllTestsMain ---- *)
Definition main_events (ok r : Z) : list rnev :=
  [RCtor "SetPointerPlugin"; RInstall; RParse ok] ++ opt ok [RRunAll r] ++ [RRemove 2].
Theorem runAllTestsMain_parsed : forall fuel h evs gf nf v vv c sep ri cr rt ok ps r rs ms this, z2b ok = true ->
  src_runner_runAllTestsMain fuel h evs gf nf v vv c sep ri cr rt (ok :: ps) (r :: rs) ms this =
  FOk (r, h, evs ++ main_events ok r, gf, nf, v, vv, c, sep, ri, cr, rt, ps, rs, ms).
Proof.
  intros. unfold src_runner_runAllTestsMain, main_events, opt. rewrite H. cbn [finish app]. rewrite <- ?app_assoc. reflexivity.
Qed.
Theorem runAllTestsMain_rejected : forall fuel h evs gf nf v vv c sep ri cr rt ok ps rs ms this, z2b ok = false ->
  src_runner_runAllTestsMain fuel h evs gf nf v vv c sep ri cr rt (ok :: ps) rs ms this =
  FOk (1, h, evs ++ main_events ok 0, gf, nf, v, vv, c, sep, ri, cr, rt, ps, rs, ms).
Proof.
  intros. unfold src_runner_runAllTestsMain, main_events, opt. rewrite H. cbn [finish app]. rewrite <- ?app_assoc. reflexivity.
Qed.

(* ---- the static RunAllTests(ac, av) ---- *)
Definition static_events (r : Z) : list rnev :=
  [RCtor "ConsoleTestOutput"; RCtor "MemoryLeakWarningPlugin"; RDestroyDetectorInDtor 1; RInstall; RCtor "CommandLineTestRunner"; RMain r] ++
  (if r =? 0 then [RFinalReport 0; RPrint] else []) ++ [RRemove 1].
Theorem RunAllTests_events : forall fuel h evs gf nf v vv c sep ri cr rt ps rs r ms this ac av,
  src_runner_RunAllTests fuel h evs gf nf v vv c sep ri cr rt ps rs (r :: ms) this ac av =
  FOk (r, h, evs ++ static_events r, gf, nf, v, vv, c, sep, ri, cr, rt, ps, rs, ms).
Proof.
  intros. unfold src_runner_RunAllTests, static_events. unfold c_eq. rewrite b2z_z2b.
  destruct (r =? 0); cbn [finish app]; rewrite <- ?app_assoc; reflexivity.
Qed.

(* the plugins a call installs are removed by name whatever the result: installs and removals balance in every event list *)
Fixpoint installs (l : list rnev) : nat := match l with [] => O | RInstall :: r => S (installs r) | _ :: r => installs r end.
Fixpoint removes (l : list rnev) : list Z := match l with [] => [] | RRemove n :: r => n :: removes r | _ :: r => removes r end.
Theorem plugins_removed_whatever_the_result : forall ok r r',
  installs (main_events ok r) = 1%nat /\ removes (main_events ok r) = [2] /\
  installs (static_events r') = 1%nat /\ removes (static_events r') = [1] /\
  last (main_events ok r) RPrint = RRemove 2 /\ last (static_events r') RPrint = RRemove 1.
Proof.
  intros. unfold main_events, static_events, opt. destruct (z2b ok), (r' =? 0); cbn; repeat split; reflexivity.
Qed.
(* the final report is printed iff the run's result is 0 *)
Theorem final_report_iff_result_zero : forall r, In (RFinalReport 0) (static_events r) <-> r = 0.
Proof.
  intro r. unfold static_events. destruct (Z.eqb_spec r 0) as [->|N]; cbn; split; intro H; try reflexivity.
  - right. right. right. right. right. right. left. reflexivity.
  - repeat (destruct H as [H|H]; [discriminate H|]). destruct H.
  - contradiction.
Qed.
