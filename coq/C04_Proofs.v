(* C04 -- the iteration loops, refinement to the abstract accounting for every history, run meets spec *)
From Coq Require Import NArith List Bool Lia Permutation Arith.
From CppUVerif Require Import gen.Gen_Common C04_Model C04_Lists C04_Table.
Import ListNotations.
Local Open Scope nat_scope.

(* NoDup of keys: position of a node is determined by its key *)
Lemma nodup_mid_notin P n S : NoDup (addrs (P ++ n :: S)) -> ~ In (n_addr n) (addrs P) /\ ~ In (n_addr n) (addrs S).
Proof.
  rewrite addrs_app. cbn. intros H. apply NoDup_remove_2 in H. rewrite in_app_iff in H. tauto.
Qed.

(* ---------------- ConstructMemoryLeakReport: getFirstLeak / getNextLeak enumerate exactly the matching nodes *)
Lemma report_loop_spec p t : Inv t ->
  forall fuel P S, flat t = P ++ S -> length S < fuel ->
  report_loop fuel p t (l_leak_from (fun c => is_in_period c p) S) = Some (filter (fun c => is_in_period c p) S).
Proof.
  intros HI. induction fuel as [|k IH]; intros P S E Hf; [lia|]. cbn [report_loop].
  destruct (l_leak_from _ S) as [n|] eqn:Ef.
  - destruct (leak_from_some _ _ _ Ef) as (S1 & S2 & -> & Hn & H1).
    pose proof HI as (_ & _ & ND). rewrite E, app_assoc in ND. destruct (nodup_mid_notin _ _ _ ND) as [Hn1 _].
    rewrite next_flat; [|assumption|rewrite E, !addrs_app; cbn; rewrite !in_app_iff; cbn; tauto].
    rewrite E, app_assoc, after_here by auto.
    rewrite (IH ((P ++ S1) ++ [n]) S2).
    + rewrite filter_app, H1. cbn. rewrite Hn. reflexivity.
    + rewrite E, <- !app_assoc. reflexivity.
    + rewrite app_length in Hf. cbn in Hf. lia.
  - rewrite (leak_from_none _ _ Ef). reflexivity.
Qed.

Lemma report_spec p st : Inv (d_tbl st) ->
  d_report p st = Some (filter (applies p) (flat (d_tbl st))).
Proof.
  intros HI. unfold d_report, t_first. rewrite first_flat, t_count_flat.
  rewrite (report_loop_spec p _ HI _ [] (flat (d_tbl st))); [|reflexivity|lia].
  f_equal. apply filter_ext. intros; apply in_period_applies.
Qed.

(* ---------------- deallocAllMemoryInCurrentAllocationStage *)
Lemma dealloc_member st n P S : Inv (d_tbl st) -> flat (d_tbl st) = P ++ n :: S ->
  exists t', d_dealloc st (n_addr n) = (with_tbl st t', false) /\ flat t' = P ++ S /\ Inv t'.
Proof.
  intros HI E. pose proof HI as (_ & _ & ND). rewrite E in ND. destruct (nodup_mid_notin _ _ _ ND) as [Hn1 _].
  destruct (remove_flat (n_addr n) _ HI) as (R1 & R2 & R3).
  unfold d_dealloc. destruct (t_remove (n_addr n) (d_tbl st)) as [r t'] eqn:Er. cbn [fst snd] in *.
  rewrite E in R1, R2. rewrite rm_here in R2 by auto.
  rewrite retrieve_app, (retrieve_notin _ _ Hn1) in R1. cbn in R1. rewrite N.eqb_refl in R1. subst r.
  exists t'. auto.
Qed.

Lemma stage_loop_spec : forall fuel st P S fails, Inv (d_tbl st) ->
  flat (d_tbl st) = P ++ S -> length S < fuel ->
  exists t', stage_loop fuel (l_leak_from (fun c => is_in_stage c (d_stage st)) S) st fails = Some (with_tbl st t', fails) /\
             flat t' = P ++ filter (fun c => negb (is_in_stage c (d_stage st))) S /\ Inv t'.
Proof.
  induction fuel as [|k IH]; intros st P S fails HI E Hf; [lia|]. cbn [stage_loop].
  destruct (l_leak_from _ S) as [n|] eqn:Ef.
  - destruct (leak_from_some _ _ _ Ef) as (S1 & S2 & -> & Hn & H1).
    pose proof HI as (_ & _ & ND). rewrite E, app_assoc in ND. destruct (nodup_mid_notin _ _ _ ND) as [Hn1 _].
    rewrite next_flat; [|assumption|rewrite E, !addrs_app; cbn; rewrite !in_app_iff; cbn; tauto].
    rewrite E, app_assoc, after_here by auto.
    destruct (dealloc_member st n (P ++ S1) S2 HI) as (t' & Ed & Ft & It); [rewrite E, app_assoc; reflexivity|].
    rewrite Ed.
    destruct (IH (with_tbl st t') (P ++ S1) S2 fails It Ft) as (t'' & El & Fl & Il).
    { rewrite app_length in Hf. cbn in Hf. lia. }
    cbn [with_tbl d_stage d_tbl d_period d_seq] in *. exists t''. split; [exact El|]. split; [|exact Il].
    rewrite Fl, filter_app. cbn. rewrite Hn. cbn. rewrite (filter_nil_neg _ _ H1), app_assoc. reflexivity.
  - exists (d_tbl st). split; [destruct st; reflexivity|]. split; [|assumption].
    rewrite (filter_nil_neg _ _ (leak_from_none _ _ Ef)). assumption.
Qed.

Lemma stage_free_spec st : Inv (d_tbl st) ->
  exists t', d_stage_free st = Some (with_tbl st t', 0%N) /\
             flat t' = filter (fun c => negb (n_stage c =? d_stage st)%N) (flat (d_tbl st)) /\ Inv t'.
Proof.
  intros HI. unfold d_stage_free, t_first. rewrite first_flat, t_count_flat.
  destruct (stage_loop_spec (S (length (flat (d_tbl st)))) st [] (flat (d_tbl st)) 0%N HI eq_refl ltac:(lia)) as (t' & E & F & I').
  exists t'. auto.
Qed.

(* ---------------- markCheckingPeriodLeaksAsNonCheckingPeriod *)
Lemma dm_cons a c l : dm a (c :: l) = (if (n_addr c =? a)%N then demote c else c) :: dm a l.
Proof. reflexivity. Qed.
Lemma mark_loop_spec : forall fuel t P S, Inv t -> flat t = P ++ S -> length S < fuel ->
  exists t', mark_loop fuel (l_leak_from (fun c => is_in_period c PChecking) S) t = Some t' /\
             flat t' = P ++ map demote S /\ Inv t'.
Proof.
  induction fuel as [|k IH]; intros t P S HI E Hf; [lia|]. cbn [mark_loop].
  destruct (l_leak_from _ S) as [n|] eqn:Ef.
  - destruct (leak_from_some _ _ _ Ef) as (S1 & S2 & -> & Hn & H1).
    pose proof HI as (_ & _ & ND). rewrite E, app_assoc in ND. destruct (nodup_mid_notin _ _ _ ND) as [Hn1 Hn2].
    rewrite (in_period_checking _ Hn). cbn [stamp_eqb].
    destruct (demote_flat (n_addr n) t HI) as (Fd & Id).
    assert (Fd' : flat (t_demote (n_addr n) t) = (P ++ S1) ++ demote n :: S2).
    { rewrite Fd, E, app_assoc, dm_app, dm_cons, N.eqb_refl, (dm_notin _ _ Hn1), (dm_notin _ _ Hn2). reflexivity. }
    rewrite next_flat; [|assumption|rewrite Fd', !addrs_app; cbn; rewrite demote_addr, !in_app_iff; cbn; tauto].
    rewrite Fd'. rewrite after_here; [|apply demote_addr|assumption].
    destruct (IH (t_demote (n_addr n) t) ((P ++ S1) ++ [demote n]) S2 Id) as (t'' & El & Fl & Il).
    { rewrite Fd', <- !app_assoc. reflexivity. }
    { rewrite app_length in Hf. cbn in Hf. lia. }
    exists t''. split; [exact El|]. split; [|exact Il].
    rewrite Fl, map_app. cbn. rewrite (map_demote_id _ H1), <- !app_assoc. reflexivity.
  - exists t. split; [reflexivity|]. split; [|assumption].
    rewrite (map_demote_id _ (leak_from_none _ _ Ef)). assumption.
Qed.

Lemma mark_spec st : Inv (d_tbl st) ->
  exists t', d_mark st = Some (with_tbl st t') /\ flat t' = map demote (flat (d_tbl st)) /\ Inv t'.
Proof.
  intros HI. unfold d_mark, t_first. rewrite first_flat, t_count_flat.
  destruct (mark_loop_spec (S (length (flat (d_tbl st)))) (d_tbl st) [] (flat (d_tbl st)) HI eq_refl ltac:(lia)) as (t' & E & F & I').
  rewrite E. exists t'. auto.
Qed.

(* ---------------- refinement relation *)
Definition R (st : det) (a : astate) : Prop :=
  Inv (d_tbl st) /\ Permutation (flat (d_tbl st)) (a_recs a) /\
  d_period st = a_period a /\ d_stage st = a_stage a /\ d_seq st = a_seq a.

Lemma R_init : R d_init a_init.
Proof. unfold R. cbn. split; [apply inv_empty|]. split; [|auto]. unfold empty_table. induction nbuckets; cbn; auto. Qed.

Lemma R_nodup st a : R st a -> NoDup (addrs (a_recs a)).
Proof. intros ((_ & _ & ND) & P & _). eapply Permutation_NoDup; [apply perm_addrs; exact P|exact ND]. Qed.

Lemma store_refines st a x sz k f l : R st a -> live x (a_recs a) = false ->
  R (d_store st x sz k f l) (a_store a x sz k f l).
Proof.
  intros (HI & HP & E1 & E2 & E3) Hl. unfold d_store, a_store, R. cbn [d_tbl d_period d_stage d_seq a_recs a_period a_stage a_seq].
  rewrite E1, E2, E3. set (n := mkNode x sz (a_seq a) f l k (a_period a) (a_stage a)).
  destruct (add_flat n (d_tbl st) HI) as (In' & A & B & Ea & Eb).
  { cbn. apply live_false. rewrite (perm_live _ _ _ HP). assumption. }
  split; [assumption|]. split; [|auto].
  rewrite Eb. eapply perm_trans; [apply Permutation_sym, Permutation_middle|]. constructor. rewrite <- Ea. assumption.
Qed.

Lemma dealloc_cases st a x : R st a ->
  (live x (a_recs a) = false /\ d_dealloc st x = (st, true)) \/
  (live x (a_recs a) = true /\ exists st', d_dealloc st x = (st', false) /\ R st' (a_with_recs a (drop x (a_recs a)))).
Proof.
  intros (HI & HP & E1 & E2 & E3).
  destruct (remove_flat x _ HI) as (R1 & R2 & R3).
  unfold d_dealloc. destruct (t_remove x (d_tbl st)) as [r t'] eqn:Er. cbn [fst snd] in *.
  destruct r as [n|].
  - right. symmetry in R1. destruct (retrieve_some _ _ _ R1) as (A & B & EA & Hn & _ & _).
    split.
    + rewrite <- (perm_live _ _ _ HP). apply live_in. rewrite EA, addrs_app. cbn. rewrite in_app_iff. cbn. tauto.
    + eexists. split; [reflexivity|]. unfold R. cbn [with_tbl d_tbl d_period d_stage d_seq a_with_recs a_recs a_period a_stage a_seq].
      split; [assumption|]. split; [|auto].
      rewrite R2, rm_drop by (apply HI). apply perm_filter. assumption.
  - left. split; [|reflexivity]. rewrite <- (perm_live _ _ _ HP). apply live_false. apply retrieve_none. auto.
Qed.

(* a failed realloc: removeNode, then addNewNode of the very same record -- the table holds what it held before *)
Lemma readd_flat a t : Inv t ->
  match t_remove a t with
  | (None, _) => ~ In a (addrs (flat t))
  | (Some n, t') => n_addr n = a /\ In n (flat t) /\ Inv (t_add n t') /\ Permutation (flat (t_add n t')) (flat t)
  end.
Proof.
  intros HI. destruct (remove_flat a t HI) as (R1 & R2 & R3).
  destruct (t_remove a t) as [[n|] t']; cbn [fst snd] in *.
  - symmetry in R1. destruct (retrieve_some _ _ _ R1) as (A & B & EA & Hn & HA & Hr).
    pose proof HI as (_ & _ & ND). rewrite EA in ND. destruct (nodup_mid_notin _ _ _ ND) as [Hn1 Hn2].
    rewrite Hr in R2.
    destruct (add_flat n t' R3) as (In' & A' & B' & Ea & Eb).
    { rewrite R2. apply notin_app. tauto. }
    split; [assumption|]. split; [rewrite EA; apply in_elt|]. split; [assumption|].
    rewrite Eb, EA. eapply perm_trans; [apply Permutation_sym, Permutation_middle|].
    eapply perm_trans; [|apply Permutation_middle]. constructor. rewrite <- Ea, R2. apply Permutation_refl.
  - symmetry in R1. apply retrieve_none in R1. assumption.
Qed.

Lemma realloc_failed_cases st a x : R st a ->
  (live x (a_recs a) = false /\ d_realloc_failed st x = (st, true)) \/
  (live x (a_recs a) = true /\ exists t', d_realloc_failed st x = (with_tbl st t', false) /\ R (with_tbl st t') a /\
     Permutation (flat t') (flat (d_tbl st))).
Proof.
  intros (HI & HP & E1 & E2 & E3). pose proof (readd_flat x _ HI) as H.
  unfold d_realloc_failed. destruct (t_remove x (d_tbl st)) as [[n|] t'].
  - right. destruct H as (Hn & Hin & HI' & HP'). split.
    + rewrite <- (perm_live _ _ _ HP). apply live_in. rewrite <- Hn. apply in_map. assumption.
    + eexists. split; [reflexivity|]. split; [|assumption]. unfold R. cbn [with_tbl d_tbl d_period d_stage d_seq].
      split; [assumption|]. split; [|auto]. eapply perm_trans; eassumption.
  - left. split; [|reflexivity]. rewrite <- (perm_live _ _ _ HP). apply live_false. assumption.
Qed.

(* boolean set comparison of report entries *)
Lemma entry_eqb_refl e : entry_eqb e e = true.
Proof. unfold entry_eqb. rewrite !N.eqb_refl. reflexivity. Qed.
Lemma perm_subset x y : Permutation x y -> subset_e x y = true.
Proof.
  intros H. unfold subset_e, mem_e. apply forallb_forall. intros e He. apply existsb_exists.
  exists e. split; [eapply Permutation_in; eassumption|apply entry_eqb_refl].
Qed.
Lemma perm_nil_match {A} (x y : list A) : Permutation x y ->
  match x with [] => true | _ => false end = match y with [] => true | _ => false end.
Proof.
  intros H. destruct x, y; auto.
  - apply Permutation_nil in H. discriminate.
  - apply Permutation_sym, Permutation_nil in H. discriminate.
Qed.

Lemma perm_existsb {A} (f : A -> bool) x y : Permutation x y -> existsb f x = existsb f y.
Proof. induction 1; cbn; try congruence. destruct (f x), (f y); reflexivity. Qed.

Definition item_ok (x e : option oitem) : Prop :=
  match x, e with
  | None, None => True
  | Some xi, Some ei => check_item ei xi = true
  | _, _ => False
  end.

Lemma count_perm p t l : Permutation (flat t) l -> t_total p t = count p l.
Proof.
  intros H. rewrite total_flat. unfold count. f_equal.
  rewrite (filter_ext _ (applies p)) by (intros; apply in_period_applies).
  apply Permutation_length, perm_filter. assumption.
Qed.

Lemma step_refines st a o : R st a -> op_ok a o = true ->
  R (fst (c_step st o)) (fst (a_step a o)) /\ item_ok (snd (c_step st o)) (snd (a_step a o)).
Proof.
  intros HR Hok. pose proof HR as (HI & HP & E1 & E2 & E3).
  destruct o; cbn [c_step a_step op_ok] in *.
  - (* alloc *) split; [|exact I]. apply store_refines; [assumption|]. apply negb_true_iff. assumption.
  - (* free *) destruct a0 as [x|]; cbn [fst snd].
    + destruct (dealloc_cases st a x HR) as [(Hl & Ed)|(Hl & st' & Ed & HR')]; rewrite Ed, Hl; cbn [fst snd item_ok check_item]; split; auto.
      unfold R in *. cbn [a_with_recs a_recs a_period a_stage a_seq].
      rewrite drop_notin by (apply live_false; assumption). tauto.
    + split; [assumption|reflexivity].
  - (* realloc *) destruct a0 as [x|]; cbn [fst snd].
    + apply andb_true_iff in Hok. destruct Hok as [_ Hok].
      destruct (dealloc_cases st a x HR) as [(Hl & Ed)|(Hl & st' & Ed & HR')]; rewrite Ed, Hl; cbn [fst snd item_ok check_item]; split; auto.
      apply store_refines; [assumption|]. rewrite Hl in Hok. cbn in Hok. apply negb_true_iff in Hok. assumption.
    + split; [|reflexivity]. apply store_refines; [assumption|]. apply negb_true_iff. assumption.
  - split; [|exact I]. unfold R; cbn; tauto.
  - split; [|exact I]. unfold R; cbn; tauto.
  - split; [|exact I]. unfold R; cbn; tauto.
  - split; [|exact I]. unfold R; cbn; tauto.
  - split; [|exact I]. unfold R, stage_inc; cbn. rewrite E2. tauto.
  - split; [|exact I]. unfold R, stage_dec; cbn. rewrite E2. tauto.
  - (* stage release *) destruct (stage_free_spec st HI) as (t' & Es & Fs & Is). rewrite Es. cbn [fst snd item_ok check_item].
    split; [|reflexivity]. unfold R. cbn [with_tbl d_tbl d_period d_stage d_seq a_with_recs a_recs a_period a_stage a_seq].
    split; [assumption|]. split; [|auto]. rewrite Fs, E2. apply perm_filter. assumption.
  - (* demotion *) destruct (mark_spec st HI) as (t' & Es & Fs & Is). rewrite Es. cbn [fst snd item_ok].
    split; [|exact I]. unfold R. cbn [with_tbl d_tbl d_period d_stage d_seq a_with_recs a_recs a_period a_stage a_seq].
    split; [assumption|]. split; [|auto]. rewrite Fs. apply Permutation_map. assumption.
  - (* clear *) cbn [fst snd item_ok]. split; [|exact I]. unfold R. cbn [with_tbl d_tbl d_period d_stage d_seq a_with_recs a_recs a_period a_stage a_seq].
    split; [apply clear_inv; assumption|]. split; [|auto]. rewrite clear_flat.
    rewrite (filter_ext _ (fun n => negb (applies p n))) by (intros; rewrite in_period_applies; reflexivity).
    apply perm_filter. assumption.
  - (* totals *) cbn [fst snd item_ok check_item]. split; [assumption|].
    rewrite !(count_perm _ _ _ HP), !N.eqb_refl. reflexivity.
  - (* report *) rewrite (report_spec p st HI). cbn [fst snd item_ok check_item]. split; [assumption|].
    assert (HF : Permutation (filter (applies p) (flat (d_tbl st))) (filter (applies p) (a_recs a))) by (apply perm_filter; assumption).
    rewrite (perm_nil_match _ _ HF), eqb_reflx. rewrite (Permutation_length HF), N.eqb_refl.
    rewrite (perm_existsb _ _ _ HF), eqb_reflx. cbn [andb].
    assert (HE := Permutation_map entry_of HF).
    rewrite (perm_subset _ _ HE), (perm_subset _ _ (Permutation_sym HE)), (Permutation_length HE), Nat.eqb_refl. reflexivity.
  - (* allocation refused by the underlying allocator *) cbn [fst snd item_ok check_item]. split; [assumption|reflexivity].
  - (* reallocation refused by the underlying allocator *) destruct a0 as [x|]; cbn [fst snd].
    + destruct (realloc_failed_cases st a x HR) as [(Hl & Ed)|(Hl & t' & Ed & HR' & _)]; rewrite Ed, Hl; cbn [fst snd item_ok check_item]; split; auto.
    + split; [assumption|reflexivity].
Qed.

(* ---------------- all histories *)
Definition c_exec (st : det) (ops : list op) : det := fold_left (fun s o => fst (c_step s o)) ops st.
Definition a_exec (a : astate) (ops : list op) : astate := fold_left (fun s o => fst (a_step s o)) ops a.

Lemma refines_from : forall ops st a, R st a -> valid_from a ops = true -> R (c_exec st ops) (a_exec a ops).
Proof.
  induction ops as [|o r IH]; cbn; intros st a HR Hv; [assumption|].
  apply andb_true_iff in Hv. destruct Hv as [Hok Hv].
  apply IH; [|assumption]. apply step_refines; assumption.
Qed.
Lemma refines ops : valid ops = true -> R (c_exec d_init ops) (a_exec a_init ops).
Proof. apply refines_from. apply R_init. Qed.

Lemma run_meets_spec_from : forall ops st a, R st a -> valid_from a ops = true -> spec_from a ops (c_run st ops) = true.
Proof.
  induction ops as [|o r IH]; cbn; intros st a HR Hv; [reflexivity|].
  apply andb_true_iff in Hv. destruct Hv as [Hok Hv].
  destruct (step_refines st a o HR Hok) as [HR' Hi].
  destruct (c_step st o) as [st' x]. destruct (a_step a o) as [a' e]. cbn [fst snd] in *.
  destruct x as [xi|], e as [ei|]; cbn in Hi; try contradiction.
  - rewrite Hi. cbn. apply IH; assumption.
  - apply IH; assumption.
Qed.
Lemma run_meets_spec ops : valid ops = true -> spec ops (run ops) = true.
Proof. apply run_meets_spec_from. apply R_init. Qed.

(* ---------------- statements exported to Properties_C04.v *)
(* every reachable table satisfies the invariants and holds exactly the abstract map *)
Lemma reachable_inv ops : valid ops = true ->
  Inv (d_tbl (c_exec d_init ops)) /\ Permutation (flat (d_tbl (c_exec d_init ops))) (a_recs (a_exec a_init ops)).
Proof. intros H. destruct (refines ops H) as (HI & HP & _). auto. Qed.

(* report / total / no-leaks of a reachable state are those of the abstract outstanding set *)
Lemma outstanding_exact ops p : valid ops = true ->
  let st := c_exec d_init ops in let out := filter (applies p) (a_recs (a_exec a_init ops)) in
  exists l, d_report p st = Some l /\ Permutation l out /\ NoDup (addrs l) /\
            t_total p (d_tbl st) = N.of_nat (length out) /\ (l = [] <-> out = []).
Proof.
  intros H st out. destruct (refines ops H) as (HI & HP & _). fold st in HI, HP.
  exists (filter (applies p) (flat (d_tbl st))).
  assert (HF : Permutation (filter (applies p) (flat (d_tbl st))) out) by (apply perm_filter; assumption).
  split; [apply report_spec; assumption|]. split; [assumption|]. split; [apply nodup_filter; apply HI|].
  split; [apply (count_perm p _ _ HP)|].
  split; intros E; [rewrite E in HF; apply Permutation_nil in HF; assumption|].
  rewrite E in HF. apply Permutation_sym, Permutation_nil in HF. assumption.
Qed.

(* the report item of a reachable state: "no leaks", the footer total and the malloc note are those of the abstract outstanding
   set of the period, and the entries are that set *)
Lemma report_item_exact ops p : valid ops = true ->
  let st := c_exec d_init ops in let out := filter (applies p) (a_recs (a_exec a_init ops)) in
  exists l, Permutation l out /\
    snd (c_step st (OpReport p)) =
    Some (OR (match out with [] => true | _ => false end) false (N.of_nat (length out)) (map entry_of l) (existsb is_malloc out)).
Proof.
  intros H st out. destruct (refines ops H) as (HI & HP & _). fold st in HI, HP.
  assert (HF : Permutation (filter (applies p) (flat (d_tbl st))) out) by (apply perm_filter; assumption).
  exists (filter (applies p) (flat (d_tbl st))). split; [assumption|].
  cbn [c_step]. rewrite (report_spec p st HI). cbn [snd].
  rewrite (perm_nil_match _ _ HF), (Permutation_length HF), (perm_existsb _ _ _ HF). reflexivity.
Qed.

(* releasing a removes exactly the node with key a: every other node keeps its place *)
Lemma release_exact a t : Inv t ->
  match t_remove a t with
  | (None, t') => ~ In a (addrs (flat t)) /\ flat t' = flat t
  | (Some n, t') => n_addr n = a /\ exists A B, flat t = A ++ n :: B /\ flat t' = A ++ B /\ ~ In a (addrs (A ++ B))
  end /\ Inv (snd (t_remove a t)).
Proof.
  intros HI. destruct (remove_flat a t HI) as (R1 & R2 & R3). split; [|assumption].
  destruct (t_remove a t) as [[n|] t']; cbn [fst snd] in *.
  - symmetry in R1. destruct (retrieve_some _ _ _ R1) as (A & B & EA & Hn & HA & Hr). split; [assumption|].
    exists A, B. rewrite R2, Hr. split; [assumption|]. split; [reflexivity|].
    pose proof HI as (_ & _ & ND). rewrite EA in ND. destruct (nodup_mid_notin _ _ _ ND). rewrite Hn in *. apply notin_app. tauto.
  - symmetry in R1. apply retrieve_none in R1. split; [assumption|]. rewrite R2. apply rm_notin. assumption.
Qed.

Lemma clear_exact p t : Inv t ->
  flat (t_clear p t) = filter (fun n => negb (applies p n)) (flat t) /\ Inv (t_clear p t).
Proof.
  intros HI. split; [|apply clear_inv; assumption]. rewrite clear_flat. apply filter_ext. intros; rewrite in_period_applies; reflexivity.
Qed.

Lemma iteration_complete p st : Inv (d_tbl st) ->
  d_report p st = Some (filter (applies p) (flat (d_tbl st))).
Proof. apply report_spec. Qed.

(* a request whose underlying allocator call fails changes nothing: the abstract map is untouched and the table still holds
   exactly that map (same records, same counters), so every later total / report / release answers as before *)
Definition is_failed_request (o : op) : bool :=
  match o with OpAllocFail _ _ _ _ _ | OpReallocFail _ _ _ _ _ _ => true | _ => false end.
Lemma failed_request_changes_nothing st a o : R st a -> is_failed_request o = true ->
  let st' := fst (c_step st o) in
  fst (a_step a o) = a /\ R st' a /\ Permutation (flat (d_tbl st')) (flat (d_tbl st)) /\
  d_period st' = d_period st /\ d_stage st' = d_stage st /\ d_seq st' = d_seq st /\
  (forall p, t_total p (d_tbl st') = t_total p (d_tbl st)) /\
  (forall p, exists l l', d_report p st = Some l /\ d_report p st' = Some l' /\ Permutation l' l).
Proof.
  intros HR Hf st'.
  assert (H : fst (a_step a o) = a /\ R st' a /\ Permutation (flat (d_tbl st')) (flat (d_tbl st)) /\
              d_period st' = d_period st /\ d_stage st' = d_stage st /\ d_seq st' = d_seq st).
  { subst st'. destruct o; try discriminate; cbn [c_step a_step fst].
    - split; [reflexivity|]. split; [assumption|]. split; [apply Permutation_refl|]. auto.
    - destruct a0 as [x|]; cbn [fst]; [|split; [reflexivity|]; split; [assumption|]; split; [apply Permutation_refl|]; auto].
      destruct (realloc_failed_cases st a x HR) as [(Hl & Ed)|(Hl & t' & Ed & HR' & HP')]; rewrite Ed; cbn [fst].
      + split; [reflexivity|]. split; [assumption|]. split; [apply Permutation_refl|]. auto.
      + split; [reflexivity|]. split; [assumption|]. split; [assumption|]. auto. }
  destruct H as (H1 & H2 & H3 & H4 & H5 & H6).
  split; [assumption|]. split; [assumption|]. split; [assumption|]. split; [assumption|]. split; [assumption|]. split; [assumption|]. split.
  - intros p. pose proof HR as (_ & HP & _). pose proof H2 as (_ & HP2 & _).
    rewrite (count_perm p _ _ HP), (count_perm p _ _ HP2). reflexivity.
  - intros p. pose proof HR as (HI & _). pose proof H2 as (HI2 & _).
    exists (filter (applies p) (flat (d_tbl st))), (filter (applies p) (flat (d_tbl st'))).
    split; [apply report_spec; assumption|]. split; [apply report_spec; assumption|]. apply perm_filter. assumption.
Qed.

(* the code before 3db681c: after a failed realloc the table no longer holds the abstract map *)
Definition realloc_failed_old_keeps_stmt : Prop :=
  forall st a x, R st a -> R (fst (d_realloc_failed_old st x)) a.
Lemma realloc_failed_old_refuted : ~ realloc_failed_old_keeps_stmt.
Proof.
  intros H. pose (ops := [OpAlloc 5%N 1%N 2%N 0%N 0%N]).
  assert (HV : valid ops = true) by (vm_compute; reflexivity).
  pose proof (H _ _ 5%N (refines ops HV)) as (_ & HP & _).
  vm_compute in HP. apply Permutation_nil in HP. discriminate.
Qed.

Lemma walks_textbook a p b :
  l_remove a b = (l_retrieve a b, rm a b) /\ l_clear p b = filter (fun c => negb (applies p c)) b.
Proof.
  split; [apply l_remove_spec|]. rewrite l_clear_spec. apply filter_ext. intros; rewrite in_period_applies; reflexivity.
Qed.

(* the hypotheses are satisfiable by a non-trivial history: two buckets, a chain of three, middle removed, stage release, demotion *)
Local Open Scope N_scope.
Definition example_ops : list op :=
  [OpStart; OpAlloc 5 4 0 1 10; OpAlloc 78 4 1 1 11; OpAlloc 151 0 2 2 12; OpAlloc 6 1 0 0 1; OpFree (Some 78) 1; OpFree (Some 78) 1;
   OpInc; OpAlloc 78 2 2 0 3; OpRealloc (Some 5) 79 8 0 0 4;
   OpReallocFail (Some 78) 9 2 0 0 1; OpAllocFail 3 0 0 0 2; OpReallocFail None 3 0 0 0 1; OpReallocFail (Some 5) 3 0 0 0 1; OpTotals; OpReport PChecking; OpStageFree; OpMark; OpDisable; OpAlloc 7 0 0 0 0;
   OpClear PDisabled; OpTotals; OpReport PAll].
Example example_valid : valid example_ops = true.
Proof. vm_compute. reflexivity. Qed.
Example example_spec : spec example_ops (run example_ops) = true.
Proof. vm_compute. reflexivity. Qed.
Example example_failed : is_failed_request (OpReallocFail (Some 78) 9 2 0 0 1) = true /\
  run (firstn 9 example_ops ++ [OpTotals; OpReallocFail (Some 78) 9 2 0 0 1; OpTotals]) = [OF false false; OF true false; OT 4 0 4 4; OF false false; OT 4 0 4 4].
Proof. vm_compute. auto. Qed.
