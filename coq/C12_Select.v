(* C12 -- what the parsed filters select (against the sentences of help() re-read from the source), the runner on a
   rejected vector, and the oracle theorem. *)
From Coq Require Import String Ascii.
From Coq Require Import NArith ZArith Bool List Lia ZifyBool Arith.
From CppUVerif Require Import gen.Gen_C12 lib.Str C12_Model C12_Proofs C12_Meaning.
Import ListNotations.
Local Open Scope N_scope.

(* ---------------------------------------------------------------- TestFilter::match / UtestShell::shouldRun against the documented meaning *)
Lemma fmatch_doc f text : fmatch f text = doc_filter_accepts f text.
Proof. unfold fmatch, doc_filter_accepts. destruct (f_strict f), (f_invert f); reflexivity. Qed.
Lemma list_match_doc fs text : list_match fs text = doc_list_accepts fs text.
Proof.
  unfold list_match, doc_list_accepts. destruct fs as [|f r]; [reflexivity|].
  generalize (f :: r). intro l. induction l as [|x l IH]; cbn; [reflexivity|]. rewrite fmatch_doc, IH. reflexivity.
Qed.
Lemma selected_doc c t : selected c t = doc_selected c t.
Proof. unfold selected, doc_selected. rewrite !list_match_doc. reflexivity. Qed.

(* one filter of each kind accepts exactly: substring / equal / not substring / not equal *)
Lemma filter_kind_meaning k v text :
  doc_filter_accepts (mkf v (fk_strict k) (fk_invert k)) text = true <->
  match k with
  | FContains => exists p q, text = p ++ v ++ q
  | FStrict => text = v
  | FExclude => ~ exists p q, text = p ++ v ++ q
  | FExcludeStrict => text <> v
  end.
Proof.
  destruct k; unfold doc_filter_accepts; cbn.
  - apply contains_spec.
  - apply bytes_eqb_eq.
  - rewrite negb_true_iff. rewrite <- contains_spec. destruct (contains text v); split; intro H; congruence.
  - rewrite negb_true_iff. apply bytes_eqb_neq.
Qed.
(* the lists: a test runs when its group passes some group filter and its name some name filter; no filter = everything *)
Lemma selected_meaning c g n :
  selected c (g, n) = true <->
  (c_gf c = [] \/ exists f, In f (c_gf c) /\ doc_filter_accepts f g = true) /\
  (c_nf c = [] \/ exists f, In f (c_nf c) /\ doc_filter_accepts f n = true).
Proof.
  rewrite selected_doc. unfold doc_selected, doc_list_accepts. cbn [fst snd]. rewrite andb_true_iff.
  assert (L : forall fs text, (match fs with [] => true | _ => existsb (fun f => doc_filter_accepts f text) fs end) = true <->
              (fs = [] \/ exists f, In f fs /\ doc_filter_accepts f text = true)).
  { intros fs text. destruct fs as [|f r].
    - split; auto.
    - rewrite existsb_exists. split; [intro H; right; exact H | intros [H|H]; [discriminate | exact H]]. }
  rewrite !L. reflexivity.
Qed.

(* a vector that is one documented test-selection option, in any spelling, selects exactly the tests its help sentence names *)
Lemma single_option_says tm o f : doc_says o = Some f -> forall t, selected (sem_opt tm default_config o) t = f t.
Proof.
  unfold doc_says. destruct o; cbn [selection_opt]; try discriminate.
  - destruct k; cbn; intro E; inversion E; subst f; intro t; unfold selected, help_runs; cbn;
    rewrite ?orb_false_r, ?andb_true_r; reflexivity.
  - destruct k; cbn; intro E; inversion E; subst f; intro t; unfold selected, help_runs; cbn;
    rewrite ?orb_false_r, ?andb_true_r; reflexivity.
  - destruct k; cbn; intro E; inversion E; subst f; intro t; unfold selected, help_runs; cbn;
    rewrite ?orb_false_r, ?andb_true_r; try reflexivity;
    destruct (contains (fst t) g), (contains (snd t) n), (bytes_eqb (fst t) g), (bytes_eqb (snd t) n); reflexivity.
  - cbn; intro E; inversion E; subst f; intro t; unfold selected, help_runs; cbn;
    rewrite ?orb_false_r, ?andb_true_r; reflexivity.
Qed.
Lemma filters_select tm prog o f argv : opt_ok o = true -> doc_says o = Some f -> In argv (render [o]) ->
  exists c, parse tm (prog :: argv) = Accept c /\ forall t, selected c t = f t.
Proof.
  intros OK D I. exists (sem_opt tm default_config o). split.
  - rewrite (meaning tm prog [o] argv); [| cbn; rewrite OK; reflexivity | exact I].
    unfold sem. cbn [sem_from]. destruct o; try reflexivity. discriminate D.
  - intro t. apply (single_option_says tm o f D t).
Qed.
(* the sentences help() had for -xt / -xst before the repair of the text ("exclude tests whose group and name contain <grp> and
   <name>") describe another set of tests than the parser's two inverted filters select *)
Definition xt_help_old_stmt : Prop :=
  forall k g n t, fk_invert k = true ->
    selected (sem_opt 0 default_config (DGroupDotName k g n)) t = help_runs true (fk_strict k) SBothAnd g n t.
Lemma xt_help_old_refuted : ~ xt_help_old_stmt.
Proof. intro H. specialize (H FExclude (B "grp") (B "name") (B "grp", B "other") eq_refl). vm_compute in H. discriminate H. Qed.

(* ---------------------------------------------------------------- the runner on a rejected vector *)
Lemma reject_no_run h :
  run_all_tests_main (Reject h) = [if h then EPrintHelp else EPrintUsage] /\
  tests_run (run_all_tests_main (Reject h)) = 0 /\
  printed_of (run_all_tests_main (Reject h)) = (if h then PHelp else PUsage).
Proof. destruct h; repeat split. Qed.
Lemma accept_runs c : run_all_tests_main (Accept c) = [ERunAllTests].
Proof. reflexivity. Qed.
Lemma reject_no_run_parse tm argv h : parse tm argv = Reject h ->
  run tm argv = ORejected h 0 (if h then PHelp else PUsage) /\ ~ In ERunAllTests (run_all_tests_main (parse tm argv)).
Proof.
  intro E. unfold run. rewrite E. split.
  - destruct h; reflexivity.
  - destruct h; cbn; intros [H|[]]; discriminate H.
Qed.

(* ---------------------------------------------------------------- the oracle accepts every observation of the model *)
Lemma list_eqb_refl {A} (e : A -> A -> bool) : (forall x, e x x = true) -> forall l, list_eqb e l l = true.
Proof. intros R l. induction l as [|x l IH]; cbn; [reflexivity|]. rewrite R, IH. reflexivity. Qed.
Lemma list_eqb_bytes_eq a : forall b, list_eqb bytes_eqb a b = true -> a = b.
Proof.
  induction a as [|x a IH]; destruct b as [|y b]; cbn; intro H; try reflexivity; try discriminate H.
  apply andb_true_iff in H. destruct H as [H1 H2]. apply bytes_eqb_eq in H1. rewrite H1, (IH b H2). reflexivity.
Qed.
Lemma filter_eqb_refl f : filter_eqb f f = true.
Proof. unfold filter_eqb. rewrite bytes_eqb_refl, !eqb_reflx. reflexivity. Qed.
Lemma config_eqb_refl c : config_eqb c c = true.
Proof.
  unfold config_eqb. rewrite !eqb_reflx, !N.eqb_refl, bytes_eqb_refl, !(list_eqb_refl filter_eqb filter_eqb_refl).
  destruct (c_out c); reflexivity.
Qed.
Lemma sel_eqb c : list_eqb Bool.eqb (map (selected c) probes) (map (doc_selected c) probes) = true.
Proof.
  rewrite (map_ext _ _ (selected_doc c)). apply list_eqb_refl. apply eqb_reflx.
Qed.
Lemma sem_from_shape tm : forall opts c, sem_from tm c opts = Reject true \/ exists c', sem_from tm c opts = Accept c'.
Proof.
  induction opts as [|o r IH]; intro c; cbn [sem_from].
  - right. exists c. reflexivity.
  - destruct (is_help o); [left; reflexivity | apply IH].
Qed.
Lemma well_formed_run tm argv : well_formed (run tm argv) = true.
Proof.
  unfold run. destruct (parse_total tm argv) as [[h E]|[c E]]; rewrite E.
  - destruct h; reflexivity.
  - cbn [well_formed]. rewrite sel_eqb. apply (parse_seed tm argv c E).
Qed.
Lemma run_meets_spec_all tm argv opts : spec tm argv opts (run tm argv) = true.
Proof.
  unfold spec. rewrite well_formed_run. cbn [andb]. destruct (spells argv opts) eqn:S; [|reflexivity].
  unfold spells in S. apply andb_true_iff in S. destruct S as [S NE]. apply andb_true_iff in S. destruct S as [OK EX].
  apply existsb_exists in EX. destruct EX as [r [I E]]. apply list_eqb_bytes_eq in E.
  destruct argv as [|prog rest]; [discriminate NE|]. cbn [tl] in E. subst r.
  pose proof (meaning tm prog opts rest OK I) as M.
  apply andb_true_iff. split.
  - unfold run, expected. rewrite M. unfold sem. destruct (sem_from_shape tm opts default_config) as [R|[c R]]; rewrite R.
    + reflexivity.
    + cbn [obs_eqb]. rewrite config_eqb_refl, sel_eqb. reflexivity.
  - unfold single_says. destruct opts as [|d [|d2 r]]; try reflexivity.
    destruct (doc_says d) as [f|] eqn:D; [|reflexivity].
    cbn [forallb] in OK. rewrite andb_true_r in OK.
    destruct (filters_select tm prog d f rest OK D I) as [c [P Sel]]. unfold run. rewrite P.
    rewrite (map_ext _ _ Sel). apply list_eqb_refl. apply eqb_reflx.
Qed.
Lemma run_meets_spec tm argv opts : valid tm argv = true -> spec tm argv opts (run tm argv) = true.
Proof. intros _. apply run_meets_spec_all. Qed.
