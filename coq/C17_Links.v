(* C17 -- the plugin chain as the code holds it (objects with a next_ link, firstPlugin_) against the chain as a list:
   installPlugin overwrites the link of the object it is given, removal by name leaves the removed object's own link stale,
   and the chain read from firstPlugin_ is the list the chain level computes -- whatever stale links lie about *)
From Coq Require Import NArith Arith Bool List Lia.
From CppUVerif Require Import gen.Gen_Common C17_Model C17_Proofs.
Import ListNotations.

(* ================================================================= bindings *)
Lemma lookup_cons o os j : lookup_obj (o :: os) j = if Nat.eqb (o_id o) j then Some o else lookup_obj os j.
Proof. reflexivity. Qed.

Lemma nxt_set_same os i v : nxt (set_next os i v) i = v.
Proof. unfold nxt, set_next. rewrite lookup_cons. cbn [o_id]. rewrite Nat.eqb_refl. reflexivity. Qed.

Lemma nxt_set_other os i v j : j <> i -> nxt (set_next os i v) j = nxt os j.
Proof.
  intro H. unfold nxt, set_next. rewrite lookup_cons. cbn [o_id].
  destruct (Nat.eqb_spec i j) as [E|_]; [exfalso; apply H; symmetry; exact E|reflexivity].
Qed.

(* the name of an object never changes *)
Lemma oname_set os i v j : oname (set_next os i v) j = oname os j.
Proof.
  unfold oname at 1, set_next. rewrite lookup_cons. cbn [o_id].
  destruct (Nat.eqb_spec i j) as [E|_]; [cbn [o_name]; rewrite E; reflexivity|reflexivity].
Qed.

Lemma nxt_new_other os i n j : j <> i -> nxt ({| o_id := i; o_name := n; o_next := None |} :: os) j = nxt os j.
Proof.
  intro H. unfold nxt. rewrite lookup_cons. cbn [o_id].
  destruct (Nat.eqb_spec i j) as [E|_]; [exfalso; apply H; symmetry; exact E|reflexivity].
Qed.
Lemma oname_new_same os i n : oname ({| o_id := i; o_name := n; o_next := None |} :: os) i = n.
Proof. unfold oname. rewrite lookup_cons. cbn [o_id]. rewrite Nat.eqb_refl. reflexivity. Qed.
Lemma oname_new_other os i n j : j <> i -> oname ({| o_id := i; o_name := n; o_next := None |} :: os) j = oname os j.
Proof.
  intro H. unfold oname. rewrite lookup_cons. cbn [o_id].
  destruct (Nat.eqb_spec i j) as [E|_]; [exfalso; apply H; symmetry; exact E|reflexivity].
Qed.

(* ================================================================= the chain that starts at f *)
Fixpoint path (os : list obj) (f : ptr) (ids : list nat) : Prop :=
  match ids with
  | [] => f = None
  | i :: r => f = Some i /\ path os (nxt os i) r
  end.

(* only the links of the chain's own objects matter: every other object may carry any link whatsoever *)
Lemma path_ext os os' : forall ids f, (forall j, In j ids -> nxt os' j = nxt os j) -> path os f ids -> path os' f ids.
Proof.
  induction ids as [|i r IH]; intros f H P; cbn [path] in *; [exact P|]. destruct P as [E P]. split; [exact E|].
  rewrite (H i (or_introl eq_refl)). apply IH; [intros j Hj; apply H; right; exact Hj|exact P].
Qed.

(* installPlugin on an object that is not in the chain: whatever its own link was, it is overwritten, and the chain is the
   object followed by the chain as it was *)
Lemma path_install os f ids i : ~ In i ids -> path os f ids -> path (set_next os i f) (Some i) (i :: ids).
Proof.
  intros Hn P. cbn [path]. split; [reflexivity|]. rewrite nxt_set_same. apply (path_ext os); [|exact P].
  intros j Hj. apply nxt_set_other. intro E. subst j. contradiction.
Qed.

Lemma path_read os : forall ids f fuel, path os f ids -> length ids < fuel -> l_read fuel os f = Some ids.
Proof.
  induction ids as [|i r IH]; intros f fuel P Hl; (destruct fuel as [|k]; [cbn [length] in Hl; lia|]); cbn [path length] in *.
  - subst f. reflexivity.
  - destruct P as [-> P]. cbn [l_read]. rewrite (IH _ k P) by lia. reflexivity.
Qed.

(* a chain that is read to its end is a path *)
Lemma read_path os : forall fuel f ids, l_read fuel os f = Some ids -> path os f ids.
Proof.
  induction fuel as [|k IH]; intros f ids H; [discriminate H|]. cbn [l_read] in H. destruct f as [i|].
  - destruct (l_read k os (nxt os i)) as [r|] eqn:E; [|discriminate H]. inversion H; subst. cbn [path]. split; [reflexivity|apply IH; exact E].
  - inversion H; subst. reflexivity.
Qed.

(* the pre actions go down the links, the post actions come back up: enabled objects only, each as often as it is linked in *)
Lemma path_pre os on : forall ids f fuel, path os f ids -> length ids < fuel -> l_pre fuel os on f = Some (filter on ids).
Proof.
  induction ids as [|i r IH]; intros f fuel P Hl; (destruct fuel as [|k]; [cbn [length] in Hl; lia|]); cbn [path length] in *.
  - subst f. reflexivity.
  - destruct P as [-> P]. cbn [l_pre filter]. rewrite (IH _ k P) by lia. destruct (on i); reflexivity.
Qed.
Lemma path_post os on : forall ids f fuel, path os f ids -> length ids < fuel -> l_post fuel os on f = Some (rev (filter on ids)).
Proof.
  induction ids as [|i r IH]; intros f fuel P Hl; (destruct fuel as [|k]; [cbn [length] in Hl; lia|]); cbn [path length] in *.
  - subst f. reflexivity.
  - destruct P as [-> P]. cbn [l_post filter]. rewrite (IH _ k P) by lia. destruct (on i); [reflexivity|rewrite app_nil_r; reflexivity].
Qed.

(* ================================================================= removal by name over the links *)
Lemma drop_heads_suffix n : forall c, exists pre, c = pre ++ drop_heads n c.
Proof.
  induction c as [|p r [pre E]]; [exists []; reflexivity|]. cbn [drop_heads]. destruct (named n p).
  - exists (p :: pre). cbn [app]. rewrite <- E. reflexivity.
  - exists []. reflexivity.
Qed.

Lemma nodup_app_tail {A} (a b : list A) : NoDup (a ++ b) -> NoDup b.
Proof. induction a as [|x a IH]; cbn [app]; intro H; [exact H|]. inversion H; subst. apply IH. assumption. Qed.

Lemma drop_heads_links os n : forall c f fuel, path os f (map p_id c) ->
  (forall p, In p c -> oname os (p_id p) = p_name p) -> length c < fuel ->
  exists f', l_drop_heads fuel os n f = Some f' /\ path os f' (map p_id (drop_heads n c)).
Proof.
  induction c as [|p r IH]; intros f fuel P Hn Hl; (destruct fuel as [|k]; [cbn [length] in Hl; lia|]); cbn [map path length] in *.
  - subst f. exists None. split; reflexivity.
  - destruct P as [-> P]. cbn [l_drop_heads drop_heads]. rewrite (Hn p (or_introl eq_refl)). unfold named.
    destruct (N.eqb (p_name p) n).
    + apply IH; [exact P|intros q Hq; apply Hn; right; exact Hq|lia].
    + exists (Some (p_id p)). split; [reflexivity|]. cbn [map path]. split; [reflexivity|exact P].
Qed.

Lemma unlink_after_in n r x : In x (unlink_after n r) -> In x r.
Proof. rewrite unlink_after_without. unfold without. intro H. apply filter_In in H. apply H. Qed.

(* the second loop, standing on object p with the rest r of the chain behind it: the survivors of r are linked behind p, in
   order; no name changes; and NO LINK OTHER THAN A SURVIVOR'S IS WRITTEN -- in particular a removed object keeps the link
   it had (pointing into the chain it is no longer part of) *)
Lemma unlink_links n : forall r os p fuel, path os (nxt os p) (map p_id r) -> NoDup (p :: map p_id r) ->
  (forall q, In q r -> oname os (p_id q) = p_name q) -> length r < fuel ->
  exists os', l_unlink fuel n os p = Some os' /\ path os' (nxt os' p) (map p_id (unlink_after n r)) /\
    (forall j, oname os' j = oname os j) /\
    (forall j, ~ In j (p :: map p_id (unlink_after n r)) -> nxt os' j = nxt os j).
Proof.
  induction r as [|q r IH]; intros os p fuel P Hnd Hn Hl; (destruct fuel as [|k]; [cbn [length] in Hl; lia|]); cbn [map path length] in *.
  - exists os. cbn [l_unlink]. rewrite P. repeat split; reflexivity.
  - destruct P as [E P]. cbn [l_unlink unlink_after]. rewrite E, (Hn q (or_introl eq_refl)). unfold named.
    inversion Hnd as [|x xs Hp Hnd']; subst. inversion Hnd' as [|x xs Hq Hnd'']; subst.
    assert (Hp' : ~ In p (map p_id r)) by (intro H; apply Hp; right; exact H).
    destruct (N.eqb (p_name q) n).
    + (* q is unlinked: p's link now is q's; q's own link is not touched *)
      destruct (IH (set_next os p (nxt os (p_id q))) p k) as [os' [H1 [H2 [H3 H4]]]].
      * rewrite nxt_set_same. apply (path_ext os); [|exact P]. intros j Hj. apply nxt_set_other. intro Ej. subst j. contradiction.
      * constructor; assumption.
      * intros x Hx. rewrite oname_set. apply Hn. right. exact Hx.
      * lia.
      * exists os'. split; [exact H1|]. split; [exact H2|]. split.
        -- intro j. rewrite H3. apply oname_set.
        -- intros j Hj. rewrite (H4 j Hj). apply nxt_set_other. intro Ej. apply Hj. left. symmetry. exact Ej.
    + destruct (IH os (p_id q) k P Hnd') as [os' [H1 [H2 [H3 H4]]]]; [intros x Hx; apply Hn; right; exact Hx|lia|].
      exists os'. split; [exact H1|]. split; [|split; [exact H3|]].
      * cbn [map path]. assert (Ep : nxt os' p = nxt os p).
        { apply H4. intros [Ej|Hj]; [apply Hp; left; exact Ej|]. apply Hp'. apply in_map_iff in Hj. destruct Hj as [y [Ey Hy]].
          apply in_map_iff. exists y. split; [exact Ey|apply (unlink_after_in n r y Hy)]. }
        rewrite Ep, E. split; [reflexivity|exact H2].
      * intros j Hj. apply H4. intro H. apply Hj. right. exact H.
Qed.

(* TestRegistry::removePluginByName over the links of a chain c (every object once, names as the objects carry them): the
   loops end, the chain read from firstPlugin_ afterwards is the chain level's remove_by_name n c, no name changes, and the
   only links written are those of objects that stay in the chain *)
Lemma remove_links n c L fuel : path (l_objs L) (l_first L) (map p_id c) -> NoDup (map p_id c) ->
  (forall p, In p c -> oname (l_objs L) (p_id p) = p_name p) -> length c < fuel ->
  exists L', l_remove fuel n L = Some L' /\ path (l_objs L') (l_first L') (map p_id (remove_by_name n c)) /\
    (forall j, oname (l_objs L') j = oname (l_objs L) j) /\
    (forall j, ~ In j (map p_id (remove_by_name n c)) -> nxt (l_objs L') j = nxt (l_objs L) j).
Proof.
  intros P Hnd Hn Hl. destruct (drop_heads_links (l_objs L) n c (l_first L) fuel P Hn Hl) as [f' [D1 D2]].
  destruct (drop_heads_suffix n c) as [pre Epre]. unfold l_remove, remove_by_name. rewrite D1.
  destruct (drop_heads n c) as [|p r] eqn:Ed; cbn [map path] in D2.
  - subst f'. eexists. split; [reflexivity|]. cbn [l_objs l_first map path]. repeat split; reflexivity.
  - destruct D2 as [-> D2].
    assert (Hnd' : NoDup (p_id p :: map p_id r)).
    { rewrite Epre, map_app in Hnd. apply nodup_app_tail in Hnd. exact Hnd. }
    assert (Hin : forall q, In q r -> In q c) by (intros q Hq; rewrite Epre; apply in_or_app; right; right; exact Hq).
    assert (Hlen : length r < fuel).
    { assert (length c = length pre + S (length r)) by (rewrite Epre at 1; rewrite app_length; reflexivity). lia. }
    destruct (unlink_links n r (l_objs L) (p_id p) fuel D2 Hnd' (fun q Hq => Hn q (Hin q Hq)) Hlen) as [os' [U1 [U2 [U3 U4]]]].
    rewrite U1. eexists. split; [reflexivity|]. cbn [l_objs l_first map path]. split; [split; [reflexivity|exact U2]|]. split; assumption.
Qed.

(* ================================================================= non-vacuity, and what is NOT true *)
Definition ex_os (l : list (nat * N * ptr)) : list obj := map (fun e => {| o_id := fst (fst e); o_name := snd (fst e); o_next := snd e |}) l.

(* three objects 2 -> 1 -> 0 and a stray object 7 whose stale link points into the middle of the chain *)
Definition ex_L : links := {| l_first := Some 2; l_objs := ex_os [(2, 12%N, Some 1); (1, 11%N, Some 0); (0, 10%N, None); (7, 17%N, Some 1)] |}.
Example ex_path : path (l_objs ex_L) (l_first ex_L) [2; 1; 0].
Proof. cbn. repeat split. Qed.
(* installing the stray object: its stale link is overwritten, the chain is 7 -> 2 -> 1 -> 0 *)
Example ex_install_stale : l_read 9 (l_objs (l_install 7 ex_L)) (l_first (l_install 7 ex_L)) = Some [7; 2; 1; 0].
Proof. vm_compute. reflexivity. Qed.
(* removing the middle object by name: 2 -> 0, and the removed object 1 still points at 0 *)
Example ex_remove_middle :
  match l_remove 4 11%N ex_L with
  | Some L' => l_read 9 (l_objs L') (l_first L') = Some [2; 0] /\ nxt (l_objs L') 1 = Some 0
  | None => False
  end.
Proof. vm_compute. split; reflexivity. Qed.

(* installing an object that IS in the chain (here: the head once more) makes the chain circular: object 2 points at itself;
   reading the chain, the pre actions, the post actions and a removal by name of an absent name never come to an end *)
Definition ex_cyc : links := l_install 2 ex_L.
Lemma cyc_step : nxt (l_objs ex_cyc) 2 = Some 2.
Proof. reflexivity. Qed.
Lemma cyc_read : forall fuel, l_read fuel (l_objs ex_cyc) (Some 2) = None.
Proof. induction fuel as [|k IH]; [reflexivity|]. cbn [l_read]. rewrite cyc_step, IH. reflexivity. Qed.
Lemma cyc_pre on : forall fuel, l_pre fuel (l_objs ex_cyc) on (Some 2) = None.
Proof. induction fuel as [|k IH]; [reflexivity|]. cbn [l_pre]. rewrite cyc_step, IH. reflexivity. Qed.
Lemma cyc_post on : forall fuel, l_post fuel (l_objs ex_cyc) on (Some 2) = None.
Proof. induction fuel as [|k IH]; [reflexivity|]. cbn [l_post]. rewrite cyc_step, IH. reflexivity. Qed.
Lemma cyc_unlink : forall fuel, l_unlink fuel 99%N (l_objs ex_cyc) 2 = None.
Proof. induction fuel as [|k IH]; [reflexivity|]. cbn [l_unlink]. rewrite cyc_step. change (N.eqb (oname (l_objs ex_cyc) 2) 99%N) with false. exact IH. Qed.

(* "installPlugin always leaves a chain that can be read to its end" is false *)
Definition install_always_wellformed_stmt : Prop :=
  forall L ids i, path (l_objs L) (l_first L) ids -> exists ids', path (l_objs (l_install i L)) (l_first (l_install i L)) ids'.
Lemma install_always_wellformed_refuted : ~ install_always_wellformed_stmt.
Proof.
  intro H. destruct (H ex_L [2; 1; 0] 2 ex_path) as [ids' P].
  pose proof (path_read _ _ _ (S (length ids')) P (Nat.lt_succ_diag_r _)) as R. fold ex_cyc in R.
  change (l_first ex_cyc) with (Some 2) in R. rewrite cyc_read in R. discriminate R.
Qed.

(* the red team's guard ("an object that is the head or carries a link is installed already: leave it alone"): object 1,
   removed from the middle above, still carries its stale link, so the guarded install ignores it *)
Definition guarded_install_links_in_stmt : Prop :=
  forall L ids i, path (l_objs L) (l_first L) ids -> ~ In i ids ->
    path (l_objs (l_install_guarded i L)) (l_first (l_install_guarded i L)) (i :: ids).
Lemma guarded_install_refuted : ~ guarded_install_links_in_stmt.
Proof.
  intro H.
  assert (E : exists L', l_remove 4 11%N ex_L = Some L' /\ path (l_objs L') (l_first L') [2; 0] /\
                         l_first (l_install_guarded 1 L') = Some 2).
  { eexists. split; [vm_compute; reflexivity|]. split; [cbn; repeat split|vm_compute; reflexivity]. }
  destruct E as [L' [_ [P F]]].
  assert (Hn : ~ In 1 [2; 0]) by (intros [E|[E|[]]]; discriminate E).
  specialize (H L' [2; 0] 1 P Hn). cbn [path] in H. destruct H as [H _]. rewrite F in H. discriminate H.
Qed.
