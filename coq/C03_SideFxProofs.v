(* C03 -- proofs about operand expressions with side effects (model: C03_SideFx.v) *)
From Coq Require Import ZArith NArith Bool List Lia ZifyBool.
From CppUVerif Require Import lib.CInt lib.Dbl lib.Str C03_Model C03_Proofs C03_Main C03_SideFx.
Import ListNotations.
Local Open Scope Z_scope.

(* what the macro records is what it records for operands that keep the values of the FIRST comparison *)
Lemma se_res_first c : fst (se_run_check c) = run_check (first_check c).
Proof.
  destruct c as [t se sa | t sa | op t sf ss]; cbn [se_run_check first_check run_check].
  - unfold se_check_equal, run_k2, ev_e, ev_a, ev0. cbn [n_e n_a s_read s_values nth fst snd].
    destruct (negb (c_eq (promote t) (s_first se) (promote t) (s_first sa))); reflexivity.
  - unfold se_check_equal, run_equal_zero, run_k2, ev_e, ev_a, ev0, s_const. cbn [n_e n_a s_read s_values s_first nth fst snd].
    destruct (negb (c_eq (promote (OI TInt)) 0 (promote t) (s_first sa))); reflexivity.
  - unfold se_check_compare, run_compare, ev_e, ev_a, ev0. cbn [n_e n_a s_read s_values nth fst snd].
    destruct (negb (c_rel op (promote t) (s_first sf) (promote t) (s_first ss))); reflexivity.
Qed.

Lemma se_verdict_first c : xo (se_run c) = run (first_check c).
Proof.
  unfold se_run, run. rewrite <- se_res_first. destruct (se_run_check c) as [[f n] s]. reflexivity.
Qed.

Lemma se_later_reads_irrelevant c c' : first_check c = first_check c' -> xo (se_run c) = xo (se_run c').
Proof. intros H. rewrite !se_verdict_first, H. reflexivity. Qed.

Lemma script_ok_first t s : script_ok t s = true -> o_in_range t (s_first s) = true.
Proof. unfold script_ok, s_values. cbn [forallb]. intros H. apply andb_prop in H. tauto. Qed.

Lemma se_valid_first c : se_valid c = true -> valid (first_check c) = true.
Proof.
  destruct c as [t se sa | t sa | op t sf ss]; cbn [se_valid first_check valid]; intros H.
  - apply andb_prop in H. destruct H as [H1 H2]. rewrite (script_ok_first _ _ H1), (script_ok_first _ _ H2). reflexivity.
  - apply script_ok_first. exact H.
  - apply andb_prop in H. destruct H as [H1 H2]. rewrite (script_ok_first _ _ H1), (script_ok_first _ _ H2). reflexivity.
Qed.

Lemma x_run_meets_spec x : x_valid x = true -> x_spec x (x_run x) = true.
Proof.
  destruct x as [c | c]; cbn [x_valid x_spec x_run xo]; intros H.
  - apply run_meets_spec. exact H.
  - rewrite se_verdict_first. apply run_meets_spec. apply se_valid_first. exact H.
Qed.

(* same-type operands: the language's comparison converts nothing away *)
Lemma same_type_math t x y : math_compare_ok t x t y = true.
Proof. unfold math_compare_ok. rewrite Bool.eqb_reflx. reflexivity. Qed.

Lemma N_one_if (b : bool) : (if b then 1%N else 0%N) = 1%N <-> b = true.
Proof. destruct b; split; intros H; try reflexivity; discriminate. Qed.

(* CHECK_EQUAL on two operand expressions of one type: a failure is recorded (once, the test is left) iff the values of the
   first comparison differ -- whatever later evaluations give --, and the check is counted once *)
Lemma se_equal_fails_iff t se sa : se_valid (SeEqual t se sa) = true ->
  (o_failures (xo (se_run (SeEqual t se sa))) = 1%N <-> s_first se <> s_first sa) /\
  (o_failures (xo (se_run (SeEqual t se sa))) = 0%N <-> s_first se = s_first sa) /\
  o_checks (xo (se_run (SeEqual t se sa))) = 1%N /\
  (o_after (xo (se_run (SeEqual t se sa))) = true <-> s_first se = s_first sa).
Proof.
  intros H. rewrite se_verdict_first. cbn [first_check].
  cbn [se_valid] in H. apply andb_prop in H. destruct H as [H1 H2].
  apply script_ok_first in H1. apply script_ok_first in H2.
  unfold run. cbn [run_check]. rewrite (check_equal_math _ _ _ _ H1 H2 (same_type_math t _ _)).
  cbn [o_failures o_checks o_after].
  destruct (Z.eqb_spec (s_first se) (s_first sa)) as [E | E]; cbn [negb]; repeat split; intros; try tauto; try discriminate; try reflexivity.
Qed.

Lemma se_zero_fails_iff t sa : se_valid (SeZero t sa) = true ->
  (o_failures (xo (se_run (SeZero t sa))) = 1%N <-> s_first sa <> 0) /\
  (o_failures (xo (se_run (SeZero t sa))) = 0%N <-> s_first sa = 0) /\
  o_checks (xo (se_run (SeZero t sa))) = 1%N.
Proof.
  intros H. rewrite se_verdict_first. cbn [first_check].
  cbn [se_valid] in H. apply script_ok_first in H.
  unfold run. cbn [run_check]. rewrite (run_equal_zero_holds _ _ H).
  assert (L : lang_rel REq (OI TInt) 0 t (s_first sa) = (0 =? s_first sa)).
  { apply o_in_range_iff in H.
    destruct t as [ | | | | i]; try destruct i; unfold lang_rel, conv; cbn in *; try reflexivity;
      try (rewrite !Z.mod_small by lia; reflexivity). }
  rewrite L. cbn [o_failures o_checks].
  destruct (Z.eqb_spec 0 (s_first sa)) as [E | E]; cbn [negb]; repeat split; intros; try lia; try discriminate; try reflexivity.
Qed.

Lemma se_compare_fails_iff op t sf ss : se_valid (SeCompare op t sf ss) = true ->
  let o := xo (se_run (SeCompare op t sf ss)) in
  let r := rel op (s_first sf) (s_first ss) in
  o_failures o = (if r then 0%N else 1%N) /\ o_checks o = (if r then 0%N else 1%N) /\ o_after o = r.
Proof.
  intros H. cbv zeta. rewrite se_verdict_first. cbn [first_check].
  cbn [se_valid] in H. apply andb_prop in H. destruct H as [H1 H2].
  apply script_ok_first in H1. apply script_ok_first in H2.
  unfold run. cbn [run_check]. rewrite (check_compare_math _ _ _ _ _ H1 H2 (same_type_math t _ _)).
  destruct (rel op (s_first sf) (s_first ss)); repeat split; reflexivity.
Qed.

(* number of evaluations of each operand expression in the model of the unchanged macros (not part of the oracle) *)
Lemma se_evaluations c :
  let o := se_run c in
  let k := match c with SeCompare _ _ _ _ => 2%N | _ => 4%N end in
  xo_na o = (if o_after (xo o) then 1%N else k) /\
  xo_ne o = match c with SeZero _ _ => 0%N | _ => if o_after (xo o) then 1%N else k end.
Proof.
  destruct c as [t se sa | t sa | op t sf ss]; cbv zeta; unfold se_run; cbn [se_run_check].
  - unfold se_check_equal, ev_e, ev_a, ev0. cbn [n_e n_a fst snd].
    destruct (negb (c_eq _ _ _ _)); split; reflexivity.
  - unfold se_check_equal, ev_e, ev_a, ev0. cbn [n_e n_a fst snd].
    destruct (negb (c_eq _ _ _ _)); split; reflexivity.
  - unfold se_check_compare, ev_e, ev_a, ev0. cbn [n_e n_a fst snd].
    destruct (negb (c_rel _ _ _ _ _)); split; reflexivity.
Qed.

(* the red-team shape: verdict from a later evaluation.  Statement "it meets the spec" is false: CHECK_EQUAL(0, next())
   with next() giving 1, 0, 0, ... records nothing *)
Definition reread_meets_spec_stmt : Prop :=
  forall t se sa, se_valid (SeEqual t se sa) = true ->
    spec (first_check (SeEqual t se sa)) (obs_of (fst (se_check_equal_reread t t se sa))) = true.
Lemma reread_meets_spec_refuted : ~ reread_meets_spec_stmt.
Proof.
  intros H. specialize (H (OI TInt) (s_const 0) {| s_first := 1; s_later := [0] |} eq_refl). vm_compute in H. discriminate.
Qed.

(* satisfiability *)
Example ex_se_valid : se_valid (SeEqual (OI TInt) (s_const 0) {| s_first := 1; s_later := [0] |}) = true /\
  x_valid (XSe (SeCompare RLt OUChar {| s_first := 5; s_later := [1] |} {| s_first := 5; s_later := [9; 9] |})) = true /\
  se_valid (SeZero OSChar {| s_first := -1; s_later := [0; 0; 0] |}) = true.
Proof. repeat split; reflexivity. Qed.
Example ex_se_first_unequal_later_equal :
  se_run (SeEqual (OI TInt) (s_const 0) {| s_first := 1; s_later := [0] |}) =
  {| xo := {| o_failures := 1; o_checks := 1; o_after := false |}; xo_ne := 4; xo_na := 4 |}.
Proof. reflexivity. Qed.
Example ex_se_first_equal_later_unequal :
  se_run (SeEqual (OI TInt) (s_const 0) {| s_first := 0; s_later := [1] |}) =
  {| xo := {| o_failures := 0; o_checks := 1; o_after := true |}; xo_ne := 1; xo_na := 1 |}.
Proof. reflexivity. Qed.
Example ex_se_same_first :
  first_check (SeEqual (OI TInt) (s_const 0) {| s_first := 1; s_later := [0] |}) =
  first_check (SeEqual (OI TInt) {| s_first := 0; s_later := [7; 8] |} (s_const 1)).
Proof. reflexivity. Qed.
Example ex_se_compare :
  se_run (SeCompare RLt OUChar {| s_first := 5; s_later := [1] |} {| s_first := 5; s_later := [9; 9] |}) =
  {| xo := {| o_failures := 1; o_checks := 1; o_after := false |}; xo_ne := 2; xo_na := 2 |}.
Proof. reflexivity. Qed.
