(* C20: the five service-message writers of TeamCityTestOutput (printCurrentTestStarted, printCurrentTestEnded,
   printCurrentGroupStarted, printCurrentGroupEnded, printFailure) and TestFailure::isOutsideTestFile / isInHelperFunction, as
   TRANSLATED from /repo on every run into gen/Gen_HeapC20.v (tools/cxx2heap.py), write exactly the messages of the hand-written
   model C20_Model.v (tc_step Esc true dur: the writer after the repair of D15) and keep its state.

   What the translation abstracts (header of Gen_HeapC20.v): print("literal") is the ghost event TText "literal", print(number)
   is TNum n, printEscaped(text) is TEsc id where id is the integer in the ONE cell standing for a text (SimpleString members, the
   char* names of a shell); test.willRun() pops the ghost stream willruns.  printEscaped itself is translated and proved in
   C20_SrcTie.v (src_printEscaped_spec: it emits tc_escape of the C string), so below TEsc id is read as tc_escape (txt id):
   `render txt` turns a list of ghost events into the bytes handed to printBuffer, for an interpretation txt of the text ids.

   Representation (all blocks in the declaration order of the classes, checked by teamcity_layout_is_the_source):
     shell_rep   a UtestShell block (7 cells): cell 0 = id of the group text, cell 1 = id of the name text;
     result_rep  a TestResult block (13 cells): cell 10 (currentTestTotalExecutionTime_) = the duration;
     fail_rep    a TestFailure block (7 cells): testNameOnly_, fileName_, lineNumber_, testFileName_, testLineNumber_, message_;
     out_rep     the TeamCityTestOutput block (3 cells): currtest_ (NULL or the pointer to a shell block of c_test),
                 currGroup_ (id of c_group), groupOpen_ (b2z c_open).
   One hypothesis is ADDED to what the task's sketch says, inside fail_rep, and it is necessary (ex_ids_not_canonical_differs):
   isOutsideTestFile compares the two text cells testFileName_ / fileName_, i.e. (after the abstraction) two ids, where the C++
   compares the texts; the ids of these two cells must be equal when their texts are (txt tfid = txt fid -> tfid = fid).

   EPrint events (TestOutput::print of a test body's text, which goes to the base class and not through a translated writer) are
   outside every statement here: arg_ok has no call for them. *)
From Coq Require Import ZArith NArith Bool List Lia.
From Coq Require String Ascii.
Import String.StringSyntax.
Delimit Scope string_scope with string.
From CppUVerif Require Import lib.CSem lib.CMem lib.CMemFacts lib.CHeap lib.Str gen.Gen_HeapC20 C16_Events C20_Model.
Import ListNotations.
Local Open Scope Z_scope.

(* ------------------------------------------------------------------ the bytes a list of ghost events stands for *)
Definition render1 (txt : Z -> bytes) (e : tev) : bytes :=
  match e with
  | TText s => B s
  | TNum n => dec (Z.to_N n)
  | TEsc id => tc_escape (txt id)
  end.
Definition render (txt : Z -> bytes) (l : list tev) : bytes := flat_map (render1 txt) l.

Lemma render_app txt a b : render txt (a ++ b) = render txt a ++ render txt b.
Proof. apply flat_map_app. Qed.

(* ------------------------------------------------------------------ layouts: the cell numbers used below are those of the classes now *)
Lemma teamcity_layout_is_the_source :
  off_UtestShell_group_ = 0 /\ off_UtestShell_name_ = 1 /\ cells_UtestShell = 7 /\
  off_TestResult_currentTestTotalExecutionTime_ = 10 /\ cells_TestResult = 13 /\
  off_TestFailure_testName_ = 0 /\ off_TestFailure_testNameOnly_ = 1 /\ off_TestFailure_fileName_ = 2 /\
  off_TestFailure_lineNumber_ = 3 /\ off_TestFailure_testFileName_ = 4 /\ off_TestFailure_testLineNumber_ = 5 /\
  off_TestFailure_message_ = 6 /\ cells_TestFailure = 7 /\
  off_TeamCityTestOutput_currtest_ = 0 /\ off_TeamCityTestOutput_currGroup_ = 1 /\ off_TeamCityTestOutput_groupOpen_ = 2 /\
  cells_TeamCityTestOutput = 3.
Proof. repeat split; reflexivity. Qed.

(* ------------------------------------------------------------------ the literals of the source, byte for byte, are the model's *)
Definition s_end : String.string := String.append "']"%string (String.String (Ascii.ascii_of_nat 10) String.EmptyString).

Lemma lit_testStarted : B "##teamcity[testStarted name='"%string = L_marker ++ L_testStarted ++ [32%N] ++ L_name ++ [61%N; 39%N].
Proof. vm_compute. reflexivity. Qed.
Lemma lit_testIgnored : B "##teamcity[testIgnored name='"%string = L_marker ++ L_testIgnored ++ [32%N] ++ L_name ++ [61%N; 39%N].
Proof. vm_compute. reflexivity. Qed.
Lemma lit_testFinished : B "##teamcity[testFinished name='"%string = L_marker ++ L_testFinished ++ [32%N] ++ L_name ++ [61%N; 39%N].
Proof. vm_compute. reflexivity. Qed.
Lemma lit_testSuiteStarted :
  B "##teamcity[testSuiteStarted name='"%string = L_marker ++ L_testSuiteStarted ++ [32%N] ++ L_name ++ [61%N; 39%N].
Proof. vm_compute. reflexivity. Qed.
Lemma lit_testSuiteFinished :
  B "##teamcity[testSuiteFinished name='"%string = L_marker ++ L_testSuiteFinished ++ [32%N] ++ L_name ++ [61%N; 39%N].
Proof. vm_compute. reflexivity. Qed.
Lemma lit_testFailed : B "##teamcity[testFailed name='"%string = L_marker ++ L_testFailed ++ [32%N] ++ L_name ++ [61%N; 39%N].
Proof. vm_compute. reflexivity. Qed.
Lemma lit_end : B s_end = [39%N] ++ [93%N; 10%N].
Proof. vm_compute. reflexivity. Qed.
Lemma lit_duration : B "' duration='"%string = [39%N] ++ [32%N] ++ L_duration ++ [61%N; 39%N].
Proof. vm_compute. reflexivity. Qed.
Lemma lit_message : B "' message='"%string = [39%N] ++ [32%N] ++ L_message ++ [61%N; 39%N].
Proof. vm_compute. reflexivity. Qed.
Lemma lit_details : B "' details='"%string = [39%N] ++ [32%N] ++ L_details ++ [61%N; 39%N].
Proof. vm_compute. reflexivity. Qed.
Lemma lit_TEST_failed : B "TEST failed ("%string = L_TEST_failed.
Proof. vm_compute. reflexivity. Qed.
Lemma lit_colon : B ":"%string = [58%N].
Proof. vm_compute. reflexivity. Qed.
Lemma lit_close_colon : B "): "%string = L_close_colon.
Proof. vm_compute. reflexivity. Qed.

(* what the model prints for its messages, flattened *)
Lemma named_print kind nm :
  msg_print (named kind nm) = L_marker ++ kind ++ [32%N] ++ L_name ++ [61%N; 39%N] ++ tc_escape nm ++ [39%N] ++ [93%N; 10%N].
Proof.
  unfold msg_print, named, attr_print, segs_print. cbn [pm_name pm_attrs flat_map fst snd seg_print].
  rewrite <- ?app_assoc. rewrite ?app_nil_r. reflexivity.
Qed.

Lemma finished_print nm d :
  msg_print {| pm_name := L_testFinished; pm_attrs := [(L_name, [Esc nm]); (L_duration, [Raw (dec d)])] |} =
  L_marker ++ L_testFinished ++ [32%N] ++ L_name ++ [61%N; 39%N] ++ tc_escape nm ++ [39%N] ++ [32%N] ++ L_duration ++ [61%N; 39%N] ++
  dec d ++ [39%N] ++ [93%N; 10%N].
Proof.
  unfold msg_print, attr_print, segs_print. cbn [pm_name pm_attrs flat_map fst snd seg_print].
  rewrite <- ?app_assoc. rewrite ?app_nil_r. reflexivity.
Qed.

Lemma failure_print t file line msg :
  msg_print (failure_pmsg Esc t file line msg) =
  L_marker ++ L_testFailed ++ [32%N] ++ L_name ++ [61%N; 39%N] ++ tc_escape (t_name t) ++ [39%N] ++ [32%N] ++ L_message ++ [61%N; 39%N] ++
  (if negb (bytes_eqb (t_file t) file) || (line <? t_line t)%N
   then L_TEST_failed ++ tc_escape (t_file t) ++ [58%N] ++ dec (t_line t) ++ L_close_colon else []) ++
  tc_escape file ++ [58%N] ++ dec line ++ [39%N] ++ [32%N] ++ L_details ++ [61%N; 39%N] ++ tc_escape msg ++ [39%N] ++ [93%N; 10%N].
Proof.
  unfold msg_print, failure_pmsg, attr_print, segs_print.
  destruct (negb (bytes_eqb (t_file t) file) || (line <? t_line t)%N);
    cbn [pm_name pm_attrs flat_map fst snd seg_print app]; repeat (progress (rewrite <- ?app_assoc; cbn [app]));
    rewrite ?app_nil_r; reflexivity.
Qed.

(* ------------------------------------------------------------------ cell access *)
Definition only_block (ob : nat) (h h' : heap) : Prop := length h' = length h /\ forall b, b <> ob -> hblock h' b = hblock h b.
Lemma only_block_refl ob h : only_block ob h h.
Proof. split; [reflexivity | intros; reflexivity]. Qed.
Lemma only_block_trans ob h1 h2 h3 : only_block ob h1 h2 -> only_block ob h2 h3 -> only_block ob h1 h3.
Proof. intros [A B] [C D]. split; [congruence | intros b Hb; rewrite (D b Hb); apply B; exact Hb]. Qed.

Lemma blk_in_heap (h : heap) b : (0 < length (hblock h b))%nat -> (b < length h)%nat.
Proof.
  unfold hblock. intro H. destruct (Nat.lt_ge_cases b (length h)) as [L|L]; [exact L|].
  rewrite nth_overflow in H by exact L. cbn in H. lia.
Qed.

Lemma q_padd h b k : 0 <= k <= Z.of_nat (length (hblock h b)) -> hpadd h (HPtr b 0) k = Some (HPtr b k).
Proof.
  intro H. cbn [hpadd]. rewrite Z.add_0_l. replace (0 <=? k) with true by (symmetry; apply Z.leb_le; lia).
  replace (k <=? Z.of_nat (length (hblock h b))) with true by (symmetry; apply Z.leb_le; lia). reflexivity.
Qed.
Lemma q_load h b k v : 0 <= k -> nth_error (hblock h b) (Z.to_nat k) = Some v -> hload h (HPtr b k) = Some v.
Proof. intros Hk H. cbn [hload]. replace (0 <=? k) with true by (symmetry; apply Z.leb_le; lia). exact H. Qed.
Lemma q_load_int h b k z : 0 <= k -> nth_error (hblock h b) (Z.to_nat k) = Some (VInt z) -> hload_int h (HPtr b k) = Some z.
Proof. intros Hk H. unfold hload_int. rewrite (q_load h b k _ Hk H). reflexivity. Qed.
Lemma q_load_ptr h b k p : 0 <= k -> nth_error (hblock h b) (Z.to_nat k) = Some (VPtr p) -> hload_ptr h (HPtr b k) = Some p.
Proof. intros Hk H. unfold hload_ptr. rewrite (q_load h b k _ Hk H). reflexivity. Qed.
Lemma q_store h b k v l : hblock h b = l -> 0 <= k < Z.of_nat (length l) ->
  hstore h (HPtr b k) v = Some (upd h b (upd l (Z.to_nat k) v)) /\
  hblock (upd h b (upd l (Z.to_nat k) v)) b = upd l (Z.to_nat k) v /\
  only_block b h (upd h b (upd l (Z.to_nat k) v)).
Proof.
  intros Hb Hk. assert (L : (b < length h)%nat) by (apply blk_in_heap; rewrite Hb; lia). split; [|split].
  - cbn [hstore]. rewrite Hb. replace (0 <=? k) with true by (symmetry; apply Z.leb_le; lia).
    replace (k <? Z.of_nat (length l)) with true by (symmetry; apply Z.ltb_lt; lia).
    replace (Nat.ltb b (length h)) with true by (symmetry; apply Nat.ltb_lt; exact L). reflexivity.
  - apply hblock_upd_same. exact L.
  - split; [apply heap_upd_length|]. intros b' Hne. apply hblock_upd_other. congruence.
Qed.

Ltac norm_upd H :=
  change (Z.to_nat 0) with 0%nat in H; change (Z.to_nat 1) with 1%nat in H; change (Z.to_nat 2) with 2%nat in H; cbn [upd] in H.

(* ------------------------------------------------------------------ representation *)
Definition shell_rep (txt : Z -> bytes) (h : heap) (sb : nat) (t : test) : Prop :=
  exists g n rest, hblock h sb = VInt g :: VInt n :: rest /\ length rest = 5%nat /\ txt g = t_group t /\ txt n = t_name t.

Definition result_rep (h : heap) (rb : nat) (d : N) : Prop :=
  length (hblock h rb) = 13%nat /\ nth_error (hblock h rb) 10 = Some (VInt (Z.of_N d)).

Definition fail_rep (txt : Z -> bytes) (h : heap) (fb : nat) (t : test) (file : bytes) (line : N) (msg : bytes) : Prop :=
  exists c0 nm fid tfid mid,
    hblock h fb = [c0; VInt nm; VInt fid; VInt (Z.of_N line); VInt tfid; VInt (Z.of_N (t_line t)); VInt mid] /\
    txt nm = t_name t /\ txt fid = file /\ txt tfid = t_file t /\ txt mid = msg /\
    (txt tfid = txt fid -> tfid = fid).     (* the ids of the two texts isOutsideTestFile compares are canonical *)

Definition cur_rep (txt : Z -> bytes) (h : heap) (p : hptr) (c : option test) : Prop :=
  match c with
  | None => p = HNull
  | Some t => exists sb, p = HPtr sb 0 /\ shell_rep txt h sb t
  end.

Definition out_rep (txt : Z -> bytes) (h : heap) (ob : nat) (st : tcst) : Prop :=
  exists p gid, hblock h ob = [VPtr p; VInt gid; VInt (b2z (c_open st))] /\ txt gid = c_group st /\ cur_rep txt h p (c_test st).

Lemma shell_rep_frame txt ob h h' sb t : only_block ob h h' -> sb <> ob -> shell_rep txt h sb t -> shell_rep txt h' sb t.
Proof. intros [_ F] Hne [g [n [rest H]]]. exists g, n, rest. rewrite (F sb Hne). exact H. Qed.
Lemma result_rep_frame ob h h' rb d : only_block ob h h' -> rb <> ob -> result_rep h rb d -> result_rep h' rb d.
Proof. intros [_ F] Hne H. unfold result_rep. rewrite (F rb Hne). exact H. Qed.
Lemma fail_rep_frame txt ob h h' fb t f l m : only_block ob h h' -> fb <> ob -> fail_rep txt h fb t f l m -> fail_rep txt h' fb t f l m.
Proof. intros [_ F] Hne [c0 [nm [fid [tfid [mid H]]]]]. exists c0, nm, fid, tfid, mid. rewrite (F fb Hne). exact H. Qed.

(* a shell block is not the output block: 7 cells against 3 *)
Lemma shell_ne_block txt h sb t ob (l : list val) : shell_rep txt h sb t -> hblock h ob = l -> length l = 3%nat -> sb <> ob.
Proof.
  intros [g [n [rest [Hsb [Hlen _]]]]] Hob Hl E. subst sb. rewrite Hsb in Hob. subst l. cbn [length] in Hl. lia.
Qed.
Lemma shell_ne_out txt h sb t ob st : shell_rep txt h sb t -> out_rep txt h ob st -> sb <> ob.
Proof. intros Hs [p [gid [Hob _]]]. exact (shell_ne_block txt h sb t ob _ Hs Hob eq_refl). Qed.

Lemma cur_rep_frame txt ob h h' p c (l : list val) :
  hblock h ob = l -> length l = 3%nat -> only_block ob h h' -> cur_rep txt h p c -> cur_rep txt h' p c.
Proof.
  intros Hob Hl F H. destruct c as [t|]; [|exact H]. destruct H as [sb [-> Hs]]. exists sb. split; [reflexivity|].
  apply (shell_rep_frame txt ob h h' sb t F); [|exact Hs]. exact (shell_ne_block txt h sb t ob l Hs Hob Hl).
Qed.

(* the state a fresh TeamCityTestOutput is in: currtest_(NULLPTR), currGroup_(), groupOpen_(false) *)
Lemma out_rep_init txt h ob g0 : hblock h ob = [VPtr HNull; VInt g0; VInt 0] -> txt g0 = [] -> out_rep txt h ob tc_init.
Proof. intros Hob Hg. exists HNull, g0. split; [exact Hob|]. split; [exact Hg|]. reflexivity. Qed.

Ltac render_tac :=
  cbn [render flat_map render1 item_print];
  rewrite ?named_print, ?finished_print, ?failure_print;
  fold s_end;
  rewrite ?lit_testStarted, ?lit_testIgnored, ?lit_testFinished, ?lit_testSuiteStarted, ?lit_testSuiteFinished, ?lit_testFailed,
          ?lit_end, ?lit_duration, ?lit_message, ?lit_details, ?lit_TEST_failed, ?lit_colon, ?lit_close_colon;
  rewrite ?N2Z.id; rewrite <- ?app_assoc; rewrite ?app_nil_r.

(* ------------------------------------------------------------------ TestFailure::isOutsideTestFile / isInHelperFunction *)
Theorem failure_isOutsideTestFile_spec txt fuel h evs wr fb t file line msg : fail_rep txt h fb t file line msg ->
  src_failure_isOutsideTestFile fuel h evs wr (HPtr fb 0) = FOk (b2z (negb (bytes_eqb (t_file t) file)), h, evs, wr).
Proof.
  intros [c0 [nm [fid [tfid [mid [Hfb [Hnm [Hf [Htf [Hm Hcan]]]]]]]]]]. unfold src_failure_isOutsideTestFile.
  rewrite (q_padd h fb 4) by (rewrite Hfb; cbn; lia).
  rewrite (q_load_int h fb 4 tfid) by (try lia; rewrite Hfb; reflexivity).
  rewrite (q_padd h fb 2) by (rewrite Hfb; cbn; lia).
  rewrite (q_load_int h fb 2 fid) by (try lia; rewrite Hfb; reflexivity).
  cbn [finish]. unfold c_ne. replace (tfid =? fid) with (bytes_eqb (t_file t) file); [reflexivity|]. rewrite <- Htf, <- Hf.
  destruct (Z.eqb_spec tfid fid) as [E|N].
  - subst. apply bytes_eqb_refl.
  - apply bytes_eqb_neq. intro E. apply N. exact (Hcan E).
Qed.

Lemma N_ltb_Z a b : (Z.of_N a <? Z.of_N b) = (a <? b)%N.
Proof. destruct (Z.ltb_spec (Z.of_N a) (Z.of_N b)), (N.ltb_spec a b); try reflexivity; lia. Qed.

(* lineNumber_ < testLineNumber_ on unsigned long: the numbers are cell values Z.of_N _, compared as they are *)
Theorem failure_isInHelperFunction_spec txt fuel h evs wr fb t file line msg : fail_rep txt h fb t file line msg ->
  src_failure_isInHelperFunction fuel h evs wr (HPtr fb 0) = FOk (b2z (line <? t_line t)%N, h, evs, wr).
Proof.
  intros [c0 [nm [fid [tfid [mid [Hfb _]]]]]]. unfold src_failure_isInHelperFunction.
  rewrite (q_padd h fb 3) by (rewrite Hfb; cbn; lia).
  rewrite (q_load_int h fb 3 (Z.of_N line)) by (try lia; rewrite Hfb; reflexivity).
  rewrite (q_padd h fb 5) by (rewrite Hfb; cbn; lia).
  rewrite (q_load_int h fb 5 (Z.of_N (t_line t))) by (try lia; rewrite Hfb; reflexivity).
  cbn [finish]. unfold c_lt. rewrite N_ltb_Z. reflexivity.
Qed.

(* ------------------------------------------------------------------ the five writers *)
Section Writers.
Variable txt : Z -> bytes.
Variable dur : N.
Notation step := (tc_step Esc true dur).

Theorem teamcity_printCurrentGroupStarted_spec fuel h evs wr ob sb st t :
  out_rep txt h ob st -> shell_rep txt h sb t ->
  exists h' new,
    src_teamcity_printCurrentGroupStarted fuel h evs wr (HPtr ob 0) (HPtr sb 0) = FOk (tt, h', evs ++ new, wr) /\
    render txt new = flat_map item_print (snd (step st (EGroupStart t))) /\
    out_rep txt h' ob (fst (step st (EGroupStart t))) /\ only_block ob h h'.
Proof.
  intros Hout Hsh. destruct Hout as [p [gid [Hob [Hg Hcur]]]].
  pose proof (cur_rep_frame txt ob h) as Fr. specialize (fun h' => Fr h' p (c_test st) _ Hob eq_refl).
  destruct Hsh as [g [n [rest [Hsb [Hlen [Htg Htn]]]]]].
  unfold src_teamcity_printCurrentGroupStarted.
  rewrite (q_padd h ob 1) by (rewrite Hob; cbn; lia).
  rewrite (q_load_int h sb 0 g) by (try lia; rewrite Hsb; reflexivity).
  destruct (q_store h ob 1 (VInt g) _ Hob) as [E1 [Hob1 F1]]; [cbn; lia|]. rewrite E1. norm_upd Hob1. norm_upd F1.
  set (h1 := upd h ob _) in *.
  rewrite (q_padd h1 ob 2) by (rewrite Hob1; cbn; lia).
  destruct (q_store h1 ob 2 (VInt 1) _ Hob1) as [E2 [Hob2 F2]]; [cbn; lia|]. rewrite E2. norm_upd Hob2. norm_upd F2.
  set (h2 := upd h1 ob _) in *.
  cbv beta iota zeta.
  rewrite (q_padd h2 ob 1) by (rewrite Hob2; cbn; lia).
  rewrite (q_load_int h2 ob 1 g) by (try lia; rewrite Hob2; reflexivity).
  cbn [finish]. exists h2. eexists. split; [rewrite <- !app_assoc; cbn [app]; reflexivity|].
  pose proof (only_block_trans _ _ _ _ F1 F2) as F. split; [|split; [|exact F]].
  - cbn [tc_step snd]. render_tac. rewrite Htg. reflexivity.
  - cbn [tc_step fst]. exists p, g. cbn [c_open c_group c_test]. split; [exact Hob2|]. split; [exact Htg|]. exact (Fr h2 F Hcur).
Qed.

Theorem teamcity_printCurrentGroupEnded_spec fuel h evs wr ob st :
  out_rep txt h ob st ->
  exists h' new,
    src_teamcity_printCurrentGroupEnded fuel h evs wr (HPtr ob 0) = FOk (tt, h', evs ++ new, wr) /\
    render txt new = flat_map item_print (snd (step st EGroupEnd)) /\
    out_rep txt h' ob (fst (step st EGroupEnd)) /\ only_block ob h h'.
Proof.
  intros Hout. pose proof Hout as Hout0. destruct Hout as [p [gid [Hob [Hg Hcur]]]].
  pose proof (cur_rep_frame txt ob h) as Fr. specialize (fun h' => Fr h' p (c_test st) _ Hob eq_refl).
  unfold src_teamcity_printCurrentGroupEnded.
  rewrite (q_padd h ob 2) by (rewrite Hob; cbn; lia).
  rewrite (q_load_int h ob 2 (b2z (c_open st))) by (try lia; rewrite Hob; reflexivity).
  cbn [tc_step]. destruct (c_open st) eqn:Eo.
  - change (z2b (c_lnot (b2z true))) with false. cbv beta iota zeta.
    rewrite (q_padd h ob 1) by (rewrite Hob; cbn; lia).
    rewrite (q_load_int h ob 1 gid) by (try lia; rewrite Hob; reflexivity).
    destruct (q_store h ob 2 (VInt 0) _ Hob) as [E1 [Hob1 F1]]; [cbn; lia|]. rewrite E1. norm_upd Hob1. norm_upd F1.
    set (h1 := upd h ob _) in *. cbn [finish negb]. cbv iota.
    exists h1. eexists. split; [rewrite <- !app_assoc; cbn [app]; reflexivity|]. split; [|split; [|exact F1]].
    + cbn [snd]. render_tac. rewrite Hg. reflexivity.
    + cbn [fst]. exists p, gid. cbn [c_open c_group c_test]. split; [exact Hob1|]. split; [exact Hg|]. exact (Fr h1 F1 Hcur).
  - change (z2b (c_lnot (b2z false))) with true. cbv beta iota zeta. cbn [finish negb].
    exists h, []. rewrite app_nil_r. split; [reflexivity|]. split; [reflexivity|]. split; [exact Hout0 | apply only_block_refl].
Qed.

(* willRun() of the shell is negb (t_ignored t): the next value of the stream *)
Theorem teamcity_printCurrentTestStarted_spec fuel h evs rest ob sb st t :
  out_rep txt h ob st -> shell_rep txt h sb t ->
  exists h' new,
    src_teamcity_printCurrentTestStarted fuel h evs (b2z (negb (t_ignored t)) :: rest) (HPtr ob 0) (HPtr sb 0) =
      FOk (tt, h', evs ++ new, rest) /\
    render txt new = flat_map item_print (snd (step st (ETestStart t))) /\
    out_rep txt h' ob (fst (step st (ETestStart t))) /\ only_block ob h h'.
Proof.
  intros Hout Hsh. pose proof Hsh as Hsh0. pose proof (shell_ne_out _ _ _ _ _ _ Hsh Hout) as Hne.
  destruct Hout as [p [gid [Hob [Hg Hcur]]]]. destruct Hsh as [g [n [rs [Hsb [Hlen [Htg Htn]]]]]].
  unfold src_teamcity_printCurrentTestStarted. cbv beta iota zeta.
  rewrite (q_padd h sb 1) by (rewrite Hsb; cbn; lia). cbv beta iota.
  rewrite (q_load_int h sb 1 n) by (try lia; rewrite Hsb; reflexivity). cbv beta iota.
  destruct (q_store h ob 0 (VPtr (HPtr sb 0)) _ Hob) as [E1 [Hob1 F1]]; [cbn; lia|]. norm_upd E1. norm_upd Hob1. norm_upd F1.
  assert (Hrep : out_rep txt (upd h ob [VPtr (HPtr sb 0); VInt gid; VInt (b2z (c_open st))]) ob (fst (step st (ETestStart t)))).
  { cbn [tc_step fst]. exists (HPtr sb 0), gid. cbn [c_open c_group c_test]. split; [exact Hob1|]. split; [exact Hg|].
    exists sb. split; [reflexivity|]. exact (shell_rep_frame txt ob _ _ sb t F1 Hne Hsh0). }
  cbn [tc_step snd]. destruct (t_ignored t).
  - change (z2b (c_lnot (b2z (negb true)))) with true. cbv beta iota. rewrite E1. cbn [finish].
    eexists. eexists. split; [rewrite <- !app_assoc; cbn [app]; reflexivity|]. split; [|split; [exact Hrep | exact F1]].
    render_tac. rewrite Htn. reflexivity.
  - change (z2b (c_lnot (b2z (negb false)))) with false. cbv beta iota. rewrite E1. cbn [finish].
    eexists. eexists. split; [rewrite <- !app_assoc; cbn [app]; reflexivity|]. split; [|split; [exact Hrep | exact F1]].
    render_tac. rewrite Htn. reflexivity.
Qed.

(* the duration printed is the result's currentTestTotalExecutionTime_; the model prints 0 for an ignored test and dur otherwise *)
Definition time_ok (st : tcst) (d : N) : Prop :=
  match c_test st with Some t => d = (if t_ignored t then 0 else dur)%N | None => True end.

Theorem teamcity_printCurrentTestEnded_spec fuel h evs wr ob rb st d checks :
  out_rep txt h ob st -> result_rep h rb d -> time_ok st d ->
  exists new,
    src_teamcity_printCurrentTestEnded fuel h evs wr (HPtr ob 0) (HPtr rb 0) = FOk (tt, h, evs ++ new, wr) /\
    render txt new = flat_map item_print (snd (step st (ETestEnd checks))) /\
    fst (step st (ETestEnd checks)) = st.
Proof.
  intros Hout [Hrl Hrd] Htime. destruct Hout as [p [gid [Hob [Hg Hcur]]]].
  unfold src_teamcity_printCurrentTestEnded.
  rewrite (q_load_ptr h ob 0 p) by (try lia; rewrite Hob; reflexivity). cbv beta iota zeta.
  unfold time_ok in Htime. unfold cur_rep in Hcur. cbn [tc_step]. destruct (c_test st) as [t|].
  - destruct Hcur as [sb [-> [g [n [rs [Hsb [Hlen [Htg Htn]]]]]]]].
    change (z2b (c_lnot (hp_bool (HPtr sb 0)))) with false. cbv beta iota.
    rewrite (q_padd h sb 1) by (rewrite Hsb; cbn; lia).
    rewrite (q_load_int h sb 1 n) by (try lia; rewrite Hsb; reflexivity).
    rewrite (q_padd h rb 10) by (rewrite Hrl; cbn; lia).
    rewrite (q_load_int h rb 10 (Z.of_N d)) by (try lia; exact Hrd).
    cbn [finish]. eexists. split; [rewrite <- !app_assoc; cbn [app]; reflexivity|]. split; [|reflexivity].
    cbn [snd]. render_tac. rewrite Htn, <- Htime. reflexivity.
  - subst p. change (z2b (c_lnot (hp_bool HNull))) with true. cbv beta iota. cbn [finish].
    exists []. rewrite app_nil_r. split; [reflexivity|]. split; reflexivity.
Qed.

Theorem teamcity_printFailure_spec fuel h evs wr ob fb st t file line msg :
  fail_rep txt h fb t file line msg ->
  exists new,
    src_teamcity_printFailure fuel h evs wr (HPtr ob 0) (HPtr fb 0) = FOk (tt, h, evs ++ new, wr) /\
    render txt new = flat_map item_print (snd (step st (EFailure t file line msg))) /\
    fst (step st (EFailure t file line msg)) = st.
Proof.
  intros Hfail. pose proof (failure_isOutsideTestFile_spec txt fuel h) as Out. specialize (fun e w => Out e w _ _ _ _ _ Hfail).
  pose proof (failure_isInHelperFunction_spec txt fuel h) as Hlp. specialize (fun e w => Hlp e w _ _ _ _ _ Hfail).
  destruct Hfail as [c0 [nm [fid [tfid [mid [Hfb [Hnm [Hf [Htf [Hm Hcan]]]]]]]]]].
  unfold src_teamcity_printFailure. cbv beta iota zeta.
  rewrite (q_padd h fb 1) by (rewrite Hfb; cbn; lia). cbv beta iota.
  rewrite (q_load_int h fb 1 nm) by (try lia; rewrite Hfb; reflexivity). cbv beta iota.
  rewrite Out. cbv beta iota. rewrite b2z_z2b.
  assert (P2 : hpadd h (HPtr fb 0) 2 = Some (HPtr fb 2)) by (apply q_padd; rewrite Hfb; cbn; lia).
  assert (P3 : hpadd h (HPtr fb 0) 3 = Some (HPtr fb 3)) by (apply q_padd; rewrite Hfb; cbn; lia).
  assert (P4 : hpadd h (HPtr fb 0) 4 = Some (HPtr fb 4)) by (apply q_padd; rewrite Hfb; cbn; lia).
  assert (P5 : hpadd h (HPtr fb 0) 5 = Some (HPtr fb 5)) by (apply q_padd; rewrite Hfb; cbn; lia).
  assert (P6 : hpadd h (HPtr fb 0) 6 = Some (HPtr fb 6)) by (apply q_padd; rewrite Hfb; cbn; lia).
  assert (L2 : hload_int h (HPtr fb 2) = Some fid) by (apply q_load_int; [lia | rewrite Hfb; reflexivity]).
  assert (L3 : hload_int h (HPtr fb 3) = Some (Z.of_N line)) by (apply q_load_int; [lia | rewrite Hfb; reflexivity]).
  assert (L4 : hload_int h (HPtr fb 4) = Some tfid) by (apply q_load_int; [lia | rewrite Hfb; reflexivity]).
  assert (L5 : hload_int h (HPtr fb 5) = Some (Z.of_N (t_line t))) by (apply q_load_int; [lia | rewrite Hfb; reflexivity]).
  assert (L6 : hload_int h (HPtr fb 6) = Some mid) by (apply q_load_int; [lia | rewrite Hfb; reflexivity]).
  cbn [tc_step snd fst].
  destruct (negb (bytes_eqb (t_file t) file)) eqn:Eo.
  - cbv beta iota. rewrite ?P2, ?P3, ?P4, ?P5, ?P6, ?L2, ?L3, ?L4, ?L5, ?L6. cbv beta iota. rewrite ?P2, ?P3, ?P6, ?L2, ?L3, ?L6.
    cbn [finish]. eexists. split; [rewrite <- !app_assoc; cbn [app]; reflexivity|]. split; [|reflexivity].
    render_tac. rewrite Eo. cbn [orb]. rewrite <- ?app_assoc. rewrite Hnm, Htf, Hf, Hm. reflexivity.
  - cbv beta iota. rewrite Hlp. cbv beta iota. rewrite b2z_z2b. destruct (line <? t_line t)%N eqn:Eh.
    + cbv beta iota. rewrite ?P2, ?P3, ?P4, ?P5, ?P6, ?L2, ?L3, ?L4, ?L5, ?L6. cbv beta iota. rewrite ?P2, ?P3, ?P6, ?L2, ?L3, ?L6.
      cbn [finish]. eexists. split; [rewrite <- !app_assoc; cbn [app]; reflexivity|]. split; [|reflexivity].
      render_tac. rewrite Eo, Eh. cbn [orb]. rewrite <- ?app_assoc. rewrite Hnm, Htf, Hf, Hm. reflexivity.
    + cbv beta iota. rewrite ?P2, ?P3, ?P6, ?L2, ?L3, ?L6.
      cbn [finish]. eexists. split; [rewrite <- !app_assoc; cbn [app]; reflexivity|]. split; [|reflexivity].
      render_tac. rewrite Eo, Eh. cbn [orb app]. rewrite Hnm, Hf, Hm. reflexivity.
Qed.

(* ------------------------------------------------------------------ the writers in sequence *)
(* one call on the output object; the pointer arguments are those of the C++ call (printCurrentGroupEnded does not use its result) *)
Inductive call := CGroupStart (test : hptr) | CGroupEnd | CTestStart (test : hptr) | CTestEnd (res : hptr) | CFailure (failure : hptr).

Definition run_call (fuel : nat) (h : heap) (evs : list tev) (wr : list Z) (ob : nat) (c : call) : fres (unit * heap * list tev * list Z) :=
  match c with
  | CGroupStart p => src_teamcity_printCurrentGroupStarted fuel h evs wr (HPtr ob 0) p
  | CGroupEnd => src_teamcity_printCurrentGroupEnded fuel h evs wr (HPtr ob 0)
  | CTestStart p => src_teamcity_printCurrentTestStarted fuel h evs wr (HPtr ob 0) p
  | CTestEnd p => src_teamcity_printCurrentTestEnded fuel h evs wr (HPtr ob 0) p
  | CFailure p => src_teamcity_printFailure fuel h evs wr (HPtr ob 0) p
  end.

(* the arguments of call c, in heap h, are those of event e (for the writer in state st); EPrint has no call *)
Definition arg_ok (h : heap) (st : tcst) (e : ev) (c : call) : Prop :=
  match e, c with
  | EGroupStart t, CGroupStart p => exists sb, p = HPtr sb 0 /\ shell_rep txt h sb t
  | EGroupEnd, CGroupEnd => True
  | ETestStart t, CTestStart p => exists sb, p = HPtr sb 0 /\ shell_rep txt h sb t
  | ETestEnd _, CTestEnd p => exists rb d, p = HPtr rb 0 /\ result_rep h rb d /\ time_ok st d
  | EFailure t f l m, CFailure p => exists fb, p = HPtr fb 0 /\ fail_rep txt h fb t f l m
  | _, _ => False
  end.

(* what willRun() answers during the events: one value per ETestStart *)
Definition wr_of (es : list ev) : list Z :=
  flat_map (fun e => match e with ETestStart t => [b2z (negb (t_ignored t))] | _ => [] end) es.

(* forward simulation, one step *)
Theorem step_sim fuel h evs rest ob st e c :
  out_rep txt h ob st -> arg_ok h st e c ->
  exists h' new,
    run_call fuel h evs (wr_of [e] ++ rest) ob c = FOk (tt, h', evs ++ new, rest) /\
    render txt new = flat_map item_print (snd (step st e)) /\
    out_rep txt h' ob (fst (step st e)) /\ only_block ob h h'.
Proof.
  intros Hout Harg. destruct e as [t|t|s|t f l m|checks|], c as [p| |p|p|p]; cbn [arg_ok] in Harg; try contradiction;
    cbn [wr_of flat_map app run_call].
  - destruct Harg as [sb [-> Hs]]. exact (teamcity_printCurrentGroupStarted_spec fuel h evs rest ob sb st t Hout Hs).
  - destruct Harg as [sb [-> Hs]]. exact (teamcity_printCurrentTestStarted_spec fuel h evs rest ob sb st t Hout Hs).
  - destruct Harg as [fb [-> Hf]].
    destruct (teamcity_printFailure_spec fuel h evs rest ob fb st t f l m Hf) as [new [E [R S]]].
    exists h, new. split; [exact E|]. split; [exact R|]. rewrite S. split; [exact Hout | apply only_block_refl].
  - destruct Harg as [rb [d [-> [Hr Ht]]]].
    destruct (teamcity_printCurrentTestEnded_spec fuel h evs rest ob rb st d checks Hout Hr Ht) as [new [E [R S]]].
    exists h, new. split; [exact E|]. split; [exact R|]. rewrite S. split; [exact Hout | apply only_block_refl].
  - exact (teamcity_printCurrentGroupEnded_spec fuel h evs rest ob st Hout).
Qed.

(* a run of the output object: before every call the rest of the program (TestResult, the registry, the failure's constructor)
   may change the heap (env); then the writer is called *)
Definition script := list ((heap -> heap) * call).
Fixpoint run_script (fuel : nat) (ob : nat) (h : heap) (evs : list tev) (wr : list Z) (sc : script) : fres (heap * list tev * list Z) :=
  match sc with
  | [] => FOk (h, evs, wr)
  | (env, c) :: r =>
      match run_call fuel (env h) evs wr ob c with
      | FOk (_, h', evs', wr') => run_script fuel ob h' evs' wr' r
      | FOob => FOob
      | FNoFuel => FNoFuel
      end
  end.

Fixpoint tc_final (st : tcst) (es : list ev) : tcst :=
  match es with [] => st | e :: r => tc_final (fst (step st e)) r end.

(* the hypotheses at each step: the rest of the program keeps the output object representing the writer's state (it does not
   write into it, nor into the shell currtest_ points to) and hands the writer arguments that are those of the event.  The
   representation itself is NOT assumed after the first step: the writers re-establish it (step_sim). *)
Fixpoint script_ok (fuel : nat) (ob : nat) (st : tcst) (h : heap) (evs : list tev) (wr : list Z) (es : list ev) (sc : script) : Prop :=
  match es, sc with
  | [], [] => True
  | e :: es', (env, c) :: sc' =>
      (out_rep txt h ob st -> out_rep txt (env h) ob st) /\ arg_ok (env h) st e c /\
      (forall h' evs' wr', run_call fuel (env h) evs wr ob c = FOk (tt, h', evs', wr') ->
                           script_ok fuel ob (fst (step st e)) h' evs' wr' es' sc')
  | _, _ => False
  end.

Theorem teamcity_run_sim : forall es sc fuel ob st h evs rest,
  out_rep txt h ob st -> script_ok fuel ob st h evs (wr_of es ++ rest) es sc ->
  exists h' new,
    run_script fuel ob h evs (wr_of es ++ rest) sc = FOk (h', evs ++ new, rest) /\
    render txt new = flat_map item_print (tc_items Esc true dur st es) /\
    out_rep txt h' ob (tc_final st es).
Proof.
  induction es as [|e es IH]; intros sc fuel ob st h evs rest Hout Hok.
  - destruct sc as [|[env c] sc]; [|contradiction]. cbn [wr_of flat_map app run_script tc_items tc_final].
    exists h, []. rewrite app_nil_r. split; [reflexivity|]. split; [reflexivity | exact Hout].
  - destruct sc as [|[env c] sc]; [contradiction|]. cbn [script_ok] in Hok. destruct Hok as [Henv [Harg Hnext]].
    assert (W : wr_of (e :: es) ++ rest = wr_of [e] ++ (wr_of es ++ rest)).
    { unfold wr_of. cbn [flat_map]. rewrite app_nil_r, app_assoc. reflexivity. }
    rewrite W in *.
    destruct (step_sim fuel (env h) evs (wr_of es ++ rest) ob st e c (Henv Hout) Harg) as [h1 [new1 [E [R [Hout1 _]]]]].
    specialize (Hnext _ _ _ E).
    destruct (IH sc fuel ob _ h1 (evs ++ new1) rest Hout1 Hnext) as [h2 [new2 [E2 [R2 Hout2]]]].
    exists h2, (new1 ++ new2). cbn [run_script]. rewrite E. split; [rewrite E2, app_assoc; reflexivity|].
    cbn [tc_items tc_final]. destruct (step st e) as [st' out] eqn:Es. cbn [fst snd] in *.
    rewrite render_app, flat_map_app, R, R2. split; [reflexivity | exact Hout2].
Qed.

(* from a freshly constructed output object *)
Corollary teamcity_run_from_init es sc fuel ob h g0 evs rest :
  hblock h ob = [VPtr HNull; VInt g0; VInt 0] -> txt g0 = [] ->
  script_ok fuel ob tc_init h evs (wr_of es ++ rest) es sc ->
  exists h' new,
    run_script fuel ob h evs (wr_of es ++ rest) sc = FOk (h', evs ++ new, rest) /\
    render txt new = flat_map item_print (tc_items Esc true dur tc_init es) /\
    out_rep txt h' ob (tc_final tc_init es).
Proof. intros Hob Hg. apply teamcity_run_sim. exact (out_rep_init txt h ob g0 Hob Hg). Qed.

(* the events of a whole run of the registry (C20_Model.passes_events), when none of them is an EPrint (script_ok has no call for
   one): what the translated writers hand to printBuffer is the model's stream render_tc *)
Corollary teamcity_run_render_tc ri passes fs ts sc fuel ob h g0 evs rest :
  hblock h ob = [VPtr HNull; VInt g0; VInt 0] -> txt g0 = [] ->
  script_ok fuel ob tc_init h evs (wr_of (passes_events ri fs passes ts) ++ rest) (passes_events ri fs passes ts) sc ->
  exists h' new,
    run_script fuel ob h evs (wr_of (passes_events ri fs passes ts) ++ rest) sc = FOk (h', evs ++ new, rest) /\
    render txt new = render_tc dur ri passes fs ts.
Proof.
  intros Hob Hg Hok. destruct (teamcity_run_from_init _ sc fuel ob h g0 evs rest Hob Hg Hok) as [h' [new [E [R _]]]].
  exists h', new. split; [exact E | exact R].
Qed.

End Writers.

(* ------------------------------------------------------------------ non-vacuity: concrete heaps *)
(* texts by id *)
Definition ex_txt (id : Z) : bytes :=
  match id with
  | 10 => B "grp"%string | 11 => B "na'me"%string | 12 => B "test.cpp"%string | 13 => B "test.cpp"%string | 14 => B "run"%string
  | 21 => B "other.cpp"%string | 22 => B "msg[1]"%string | _ => []
  end.
(* an IGNORE_TEST and a test whose body reports one failure from another file *)
Definition ex_t : test :=
  {| t_group := B "grp"%string; t_name := B "na'me"%string; t_file := B "test.cpp"%string; t_line := 9; t_ignored := true; t_body := [] |}.
Definition ex_t2 : test :=
  {| t_group := B "grp"%string; t_name := B "run"%string; t_file := B "test.cpp"%string; t_line := 9; t_ignored := false;
     t_body := [SFail (B "other.cpp"%string) 5 (B "msg[1]"%string)] |}.
(* block 0: the output object as constructed; 1: the shell of ex_t; 2: the TestResult; 3: a TestFailure of ex_t2 in other.cpp:5;
   4: the shell of ex_t2 *)
Definition ex_heap : heap :=
  [ [VPtr HNull; VInt 0; VInt 0];
    [VInt 10; VInt 11; VInt 12; VInt 9; VPtr (HPtr 4 0); VInt 0; VInt 0];
    [VInt 0; VInt 2; VInt 0; VInt 0; VInt 0; VInt 0; VInt 0; VInt 0; VInt 0; VInt 0; VInt 0; VInt 0; VInt 0];
    [VInt 30; VInt 14; VInt 21; VInt 5; VInt 12; VInt 9; VInt 22];
    [VInt 10; VInt 14; VInt 12; VInt 9; VPtr HNull; VInt 0; VInt 0] ].

Example ex_reps :
  out_rep ex_txt ex_heap 0 tc_init /\ shell_rep ex_txt ex_heap 1 ex_t /\ shell_rep ex_txt ex_heap 4 ex_t2 /\
  result_rep ex_heap 2 0 /\ fail_rep ex_txt ex_heap 3 ex_t2 (B "other.cpp"%string) 5 (B "msg[1]"%string).
Proof.
  split; [apply (out_rep_init ex_txt ex_heap 0%nat 0); reflexivity|].
  split; [exists 10, 11, [VInt 12; VInt 9; VPtr (HPtr 4 0); VInt 0; VInt 0]; repeat split; reflexivity|].
  split; [exists 10, 14, [VInt 12; VInt 9; VPtr HNull; VInt 0; VInt 0]; repeat split; reflexivity|].
  split; [split; reflexivity|].
  exists (VInt 30), 14, 21, 12, 22. repeat split; try reflexivity. intro H. vm_compute in H. discriminate H.
Qed.

(* printCurrentTestStarted on the ignored test: both messages, the name escaped, currtest_ set, the willRun() value consumed *)
Example ex_testStarted_ignored :
  src_teamcity_printCurrentTestStarted 0 ex_heap [] [0; 7] (HPtr 0 0) (HPtr 1 0) =
    FOk (tt, upd ex_heap 0 [VPtr (HPtr 1 0); VInt 0; VInt 0],
         [TText "##teamcity[testStarted name='"%string; TEsc 11; TText s_end;
          TText "##teamcity[testIgnored name='"%string; TEsc 11; TText s_end], [7]).
Proof. vm_compute. reflexivity. Qed.
Example ex_testStarted_ignored_bytes :
  render ex_txt [TText "##teamcity[testStarted name='"%string; TEsc 11; TText s_end;
                 TText "##teamcity[testIgnored name='"%string; TEsc 11; TText s_end] =
  B "##teamcity[testStarted name='na|'me']
##teamcity[testIgnored name='na|'me']
"%string /\
  flat_map item_print (snd (tc_step Esc true 3 tc_init (ETestStart ex_t))) =
  B "##teamcity[testStarted name='na|'me']
##teamcity[testIgnored name='na|'me']
"%string.
Proof. split; vm_compute; reflexivity. Qed.

(* printFailure outside the test file: the location of the test, then the location of the failure; nothing stored *)
Example ex_printFailure_outside :
  src_teamcity_printFailure 0 ex_heap [] [] (HPtr 0 0) (HPtr 3 0) =
    FOk (tt, ex_heap,
         [TText "##teamcity[testFailed name='"%string; TEsc 14; TText "' message='"%string;
          TText "TEST failed ("%string; TEsc 12; TText ":"%string; TNum 9; TText "): "%string;
          TEsc 21; TText ":"%string; TNum 5; TText "' details='"%string; TEsc 22; TText s_end], []).
Proof. vm_compute. reflexivity. Qed.
Example ex_printFailure_outside_bytes :
  match src_teamcity_printFailure 0 ex_heap [] [] (HPtr 0 0) (HPtr 3 0) with
  | FOk (_, _, evs, _) => Some (render ex_txt evs)
  | _ => None
  end = Some (B "##teamcity[testFailed name='run' message='TEST failed (test.cpp:9): other.cpp:5' details='msg|[1|]']
"%string) /\
  flat_map item_print (snd (tc_step Esc true 3 tc_init (EFailure ex_t2 (B "other.cpp"%string) 5 (B "msg[1]"%string)))) =
  B "##teamcity[testFailed name='run' message='TEST failed (test.cpp:9): other.cpp:5' details='msg|[1|]']
"%string.
Proof. split; vm_compute; reflexivity. Qed.
Example ex_predicates :
  src_failure_isOutsideTestFile 0 ex_heap [] [] (HPtr 3 0) = FOk (1, ex_heap, [], []) /\
  src_failure_isInHelperFunction 0 ex_heap [] [] (HPtr 3 0) = FOk (1, ex_heap, [], []).
Proof. split; vm_compute; reflexivity. Qed.

(* the added hypothesis is needed: a failure block whose fileName_ cell holds ANOTHER id (13) of the same text "test.cpp" as
   testFileName_ (12), failure on the test's own line.  Everything in fail_rep holds but the last conjunct; the translated
   isOutsideTestFile answers true (the ids differ) and the writer prints the "TEST failed (" part, the model (which compares
   the texts, as the C++ operator!= of SimpleString does) does not. *)
Definition ex_heap_ids : heap :=
  [ [VPtr HNull; VInt 0; VInt 0]; []; []; [VInt 30; VInt 14; VInt 13; VInt 9; VInt 12; VInt 9; VInt 22] ].
Example ex_ids_not_canonical_differs :
  ex_txt 12 = ex_txt 13 /\
  exists new,
    src_teamcity_printFailure 0 ex_heap_ids [] [] (HPtr 0 0) (HPtr 3 0) = FOk (tt, ex_heap_ids, new, []) /\
    render ex_txt new <>
    flat_map item_print (snd (tc_step Esc true 3 tc_init (EFailure ex_t2 (B "test.cpp"%string) 9 (B "msg[1]"%string)))).
Proof.
  split; [reflexivity|]. eexists. split; [vm_compute; reflexivity|]. vm_compute. intro H. discriminate H.
Qed.

(* a whole run: one group with the ignored test and the failing test; the clock seam advances 3 ms in a test body, so
   TestResult sets currentTestTotalExecutionTime_ to 3 before the second printCurrentTestEnded *)
Definition ex_es : list ev :=
  [EGroupStart ex_t; ETestStart ex_t; ETestEnd 0; ETestStart ex_t2; EFailure ex_t2 (B "other.cpp"%string) 5 (B "msg[1]"%string);
   ETestEnd 0; EGroupEnd].
Definition ex_set_time (d : Z) (h : heap) : heap := upd h 2 (upd (hblock h 2) 10 (VInt d)).
Definition ex_sc : script :=
  [(fun h => h, CGroupStart (HPtr 1 0)); (fun h => h, CTestStart (HPtr 1 0)); (fun h => h, CTestEnd (HPtr 2 0));
   (fun h => h, CTestStart (HPtr 4 0)); (fun h => h, CFailure (HPtr 3 0)); (ex_set_time 3, CTestEnd (HPtr 2 0));
   (fun h => h, CGroupEnd)].

Example ex_events_are_the_registry's : events_of [ex_t; ex_t2] = ex_es.
Proof. vm_compute. reflexivity. Qed.

Example ex_run :
  match run_script 0 0 ex_heap [] [0; 1] ex_sc with
  | FOk (h', evs, wr) => Some (hblock h' 0, render ex_txt evs, wr)
  | _ => None
  end =
  Some ([VPtr (HPtr 4 0); VInt 10; VInt 0],
        B "##teamcity[testSuiteStarted name='grp']
##teamcity[testStarted name='na|'me']
##teamcity[testIgnored name='na|'me']
##teamcity[testFinished name='na|'me' duration='0']
##teamcity[testStarted name='run']
##teamcity[testFailed name='run' message='TEST failed (test.cpp:9): other.cpp:5' details='msg|[1|]']
##teamcity[testFinished name='run' duration='3']
##teamcity[testSuiteFinished name='grp']
"%string, []) /\
  flat_map item_print (tc_items Esc true 3 tc_init ex_es) =
        B "##teamcity[testSuiteStarted name='grp']
##teamcity[testStarted name='na|'me']
##teamcity[testIgnored name='na|'me']
##teamcity[testFinished name='na|'me' duration='0']
##teamcity[testStarted name='run']
##teamcity[testFailed name='run' message='TEST failed (test.cpp:9): other.cpp:5' details='msg|[1|]']
##teamcity[testFinished name='run' duration='3']
##teamcity[testSuiteFinished name='grp']
"%string.
Proof. split; vm_compute; reflexivity. Qed.

(* the hypotheses of teamcity_run_sim hold of this run, so its conclusion is about something *)
Ltac ex_shell b g n := exists b; split; [reflexivity|]; exists g, n; eexists; repeat split; reflexivity.
Ltac ex_next E := vm_compute in E; injection E as <- <- <-.
Example ex_script_ok : script_ok ex_txt 3 0 0 tc_init ex_heap [] (wr_of ex_es ++ []) ex_es ex_sc.
Proof.
  unfold ex_es, ex_sc. cbn [script_ok].
  split; [exact (fun H => H)|]. split; [ex_shell 1%nat 10 11|]. intros h1 evs1 wr1 E. ex_next E.
  split; [exact (fun H => H)|]. split; [ex_shell 1%nat 10 11|]. intros h2 evs2 wr2 E. ex_next E.
  split; [exact (fun H => H)|]. split.
  { exists 2%nat, 0%N. split; [reflexivity|]. split; [split; reflexivity|]. vm_compute. reflexivity. }
  intros h3 evs3 wr3 E. ex_next E.
  split; [exact (fun H => H)|]. split; [ex_shell 4%nat 10 14|]. intros h4 evs4 wr4 E. ex_next E.
  split; [exact (fun H => H)|]. split.
  { exists 3%nat. split; [reflexivity|]. exists (VInt 30), 14, 21, 12, 22. repeat split; try reflexivity.
    intro H. vm_compute in H. discriminate H. }
  intros h5 evs5 wr5 E. ex_next E.
  split.
  { intros _. exists (HPtr 4 0), 10. split; [reflexivity|]. split; [reflexivity|]. cbn [cur_rep tc_step fst c_test].
    ex_shell 4%nat 10 14. }
  split.
  { exists 2%nat, 3%N. split; [reflexivity|]. split; [split; reflexivity|]. vm_compute. reflexivity. }
  intros h6 evs6 wr6 E. ex_next E.
  split; [exact (fun H => H)|]. split; [exact I|]. intros h7 evs7 wr7 E. exact I.
Qed.

Example ex_run_sim :
  exists h' new,
    run_script 0 0 ex_heap [] (wr_of ex_es ++ []) ex_sc = FOk (h', [] ++ new, []) /\
    render ex_txt new = flat_map item_print (tc_items Esc true 3 tc_init ex_es) /\
    out_rep ex_txt h' 0 (tc_final 3 tc_init ex_es).
Proof. exact (teamcity_run_from_init ex_txt 3 ex_es ex_sc 0 0 ex_heap 0 [] [] eq_refl eq_refl ex_script_ok). Qed.
