(* C08 -- proofs, part 2: run-level refinement.  On every judged scenario the low-level model L and the reference semantics M
   produce the same failing operation, the same diagnosis and the same returned values. *)
From Coq Require Import ZArith NArith Bool List Lia.
From CppUVerif Require Import lib.CInt lib.Str C08_Model C08_Proofs.
Import ListNotations.
Local Open Scope N_scope.

Definition proj (o : obs) : option (N * option dkind) * list (option pv) :=
  (match o_fail o with Some (i, fl) => Some (i, dkind_of (f_kind fl)) | None => None end, o_rets o).
Definition lift (r : option (N * dkind) * list (option pv)) : option (N * option dkind) * list (option pv) :=
  (match fst r with Some (i, d) => Some (i, Some d) | None => None end, snd r).

Definition call_op (c : scall) : op := OCall (sc_f c) (sc_ps c) (sc_want c).
Definition last_ok (m : mock) : bool :=
  match m_last m with None => true | Some c => match c_state c with Succeeded => true | _ => false end end.
Definition fnames (xs : list mexp) : list name := map (fun x => sx_f (x_e x)) xs.

(* simulation relation between the L state and the M state (capacities, pending diagnosis) *)
Definition R (ign : bool) (nm : list name) (m : mock) (xs : list mexp) (order : N) (pending : option dkind) : Prop :=
  m_ignore m = ign /\ m_aorder m = order /\
  match finish_last m with
  | inl m' => pending = None /\ map abs (m_exps m') = xs /\ Forall wfE (m_exps m') /\ last_ok m' = true /\ fnames xs = nm /\
              m_ignore m' = ign /\ m_aorder m' = order
  | inr fl => exists d, pending = Some d /\ dkind_of (f_kind fl) = Some d
  end.

Lemma wf_no_ign es : Forall wfE es -> no_ign es.
Proof. intros H e He. rewrite Forall_forall in H. apply (H e He). Qed.
Lemma wf_stat es es' : map stat es = map stat es' -> Forall wfE es -> Forall wfE es'.
Proof.
  revert es'. induction es as [|e r IH]; destruct es' as [|e' r']; cbn; intros H W; try discriminate; [constructor|].
  destruct (cons_eq_inv _ _ _ _ H) as [H1 H2]. inversion W as [|? ? W1 W2]; subst. constructor; [|apply IH; assumption].
  destruct W1 as [A B]. destruct (stat_cnt _ _ H1) as [C D]. split; [rewrite <- (stat_ign _ _ H1); exact A|lia].
Qed.
Lemma relates_names f es : existsb (relates f) es = existsb (fun n => n =? f) (fnames (map abs es)).
Proof. unfold fnames. rewrite map_map, existsb_map. reflexivity. Qed.
Lemma consume_names f P o xs xs' v : consume f P o xs = Some (xs', v) -> fnames xs' = fnames xs.
Proof.
  revert xs'. induction xs as [|x r IH]; cbn; intros xs' H; [discriminate|].
  destruct (x_open x && matches (x_e x) f P).
  - inversion H; subst. reflexivity.
  - destruct (consume f P o r) as [[r' w]|] eqn:E; [|discriminate]. inversion H; subst. unfold fnames in *. cbn [map]. rewrite (IH r' eq_refl). reflexivity.
Qed.
Lemma fulfilled_for_abs f es :
  fulfilled_for f es = fold_right (fun x a => if sx_f (x_e x) =? f then x_done x + a else a) 0 (map abs es).
Proof. unfold fulfilled_for. induction es as [|e r IH]; cbn; [reflexivity|]. rewrite IH. reflexivity. Qed.
Lemma open_exists_abs f es : existsb (fun x => x_open x && (sx_f (x_e x) =? f)) (map abs es) = existsb (fun e => can_match e && relates f e) es.
Proof. rewrite existsb_map. apply existsb_ext'. intros e _. rewrite open_abs. reflexivity. Qed.
Lemma name_test_abs f p es :
  existsb (fun x => (sx_f (x_e x) =? f) && existsb (fun q => fst q =? p) (sx_ps (x_e x))) (map abs es) =
  existsb (fun e => relates f e && has_input_name p e) es.
Proof. rewrite existsb_map. apply existsb_ext'. intros e _. rewrite has_input_name_pl. reflexivity. Qed.

(* when M finds a parameter after which no candidate is left, no expectation is exactly the call *)
Lemma agrees_upto_app e P Q : agrees_upto e (P ++ Q) = agrees_upto e P && agrees_upto e Q.
Proof. unfold agrees_upto. apply forallb_app. Qed.
Lemma first_dead_some f xs : forall rest seen p,
  first_dead f xs seen rest = Some p ->
  forall x, In x xs -> x_open x && (sx_f (x_e x) =? f) && agrees_upto (x_e x) (seen ++ rest) = false.
Proof.
  induction rest as [|q r IH]; intros seen p H x Hx; [discriminate|]. cbn in H.
  destruct (existsb (fun x => x_open x && (sx_f (x_e x) =? f) && agrees_upto (x_e x) (seen ++ [q])) xs) eqn:E.
  - specialize (IH _ _ H x Hx). rewrite <- app_assoc in IH. exact IH.
  - rewrite existsb_false in E. specialize (E x Hx). change (q :: r) with ([q] ++ r). rewrite app_assoc, agrees_upto_app, andb_assoc, E. reflexivity.
Qed.
Lemma matches_agrees e f P : matches e f P = (sx_f e =? f) && agrees_upto e P && forallb (fun q => existsb (fun x => fst x =? fst q) P) (sx_ps e).
Proof. reflexivity. Qed.
Lemma no_candidate_no_consume f P o xs :
  (forall x, In x xs -> x_open x && (sx_f (x_e x) =? f) && agrees_upto (x_e x) P = false) -> consume f P o xs = None.
Proof.
  intro H. apply consume_none. intros x Hx. specialize (H x Hx). rewrite matches_agrees.
  destruct (x_open x); [|reflexivity]. destruct (sx_f (x_e x) =? f); [|reflexivity]. cbn in *. rewrite H. reflexivity.
Qed.

Definition known (nm : list name) (f : name) : bool := existsb (fun n => n =? f) nm.

Lemma R_idle ign nm m xs order :
  m_ignore m = ign -> m_aorder m = order -> m_last m = None -> map abs (m_exps m) = xs -> Forall wfE (m_exps m) -> fnames xs = nm ->
  R ign nm m xs order None.
Proof.
  intros A B C D E F. unfold R, finish_last. rewrite C. repeat split; try assumption. unfold last_ok. rewrite C. reflexivity.
Qed.

(* one actual call, L against M *)
Lemma sim_call ign nm m xs order f ps want :
  R ign nm m xs order None -> nodup_names (map fst ps) = true ->
  match actual_call true m f ps want with
  | inr fl => ign && negb (known nm f) = false /\ consume f ps (order + 1) xs = None /\
              snd (deviation f ps xs) && negb want = false /\ dkind_of (f_kind fl) = Some (fst (deviation f ps xs))
  | inl (m', rv) =>
      (ign && negb (known nm f) = true /\ R ign nm m' xs order None /\ rv = (if want then Some None else None))
      \/ (ign && negb (known nm f) = false /\
          ((exists xs' v, consume f ps (order + 1) xs = Some (xs', v) /\ R ign nm m' xs' (order + 1) None /\ rv = (if want then Some v else None))
           \/ (consume f ps (order + 1) xs = None /\ want = false /\ rv = None /\
               exists d, deviation f ps xs = (d, true) /\ R ign nm m' xs (order + 1) (Some d))))
  end.
Proof.
  intros [Hig [Hao HR]] Hnd. unfold actual_call. destruct (finish_last m) as [m1|fl0] eqn:FL.
  2: { destruct HR as [d [X _]]. discriminate X. }
  destruct HR as [_ [Habs [Hwf [Hlo [Hnm [Hig1 Hao1]]]]]].
  change (m_ignore (with_exps m1 (m_exps m1) None)) with (m_ignore m1).
  change (m_exps (with_exps m1 (m_exps m1) None)) with (m_exps m1).
  change (m_aorder (with_exps m1 (m_exps m1) None)) with (m_aorder m1).
  rewrite Hig1, relates_names, Habs, Hnm. fold (known nm f).
  destruct (ign && negb (known nm f)) eqn:IG.
  - left. split; [reflexivity|]. split; [|reflexivity]. apply R_idle; try assumption; reflexivity.
  - rewrite Hao1.
    set (c0 := {| c_name := f; c_order := order + 1; c_state := Succeeded; c_checked := false |}).
    pose proof (with_name_inv f (m_exps m1) c0 (wf_no_ign _ Hwf) eq_refl eq_refl) as WN.
    cbn [m_exps].
    destruct (with_name (create true (m_exps m1)) c0) as [[es1 c1]|fl].
    + destruct WN as [I1 [S1 [O1 [e0 [He0 Hl0]]]]].
      pose proof (with_params_inv f ps [] es1 c1 I1 Hnd (fun x _ => eq_refl)) as WP.
      rewrite (map_abs_stat _ _ S1), Habs in WP.
      assert (OP : existsb (fun x => x_open x && (sx_f (x_e x) =? f)) xs = true).
      { rewrite <- Habs, open_exists_abs. apply existsb_exists. eauto. }
      destruct (with_params ps es1 c1) as [[es2 c2]|fl].
      * destruct WP as [FD [I2 [S2 O2]]]. cbn [app] in I2.
        assert (W2 : Forall wfE es2). { apply (wf_stat (m_exps m1)); [|exact Hwf]. rewrite S2, S1. reflexivity. }
        pose proof (finish_inv f ps es2 c2 I2 W2) as FI.
        assert (A2 : map abs es2 = xs). { rewrite <- Habs. apply map_abs_stat. rewrite S2, S1. reflexivity. }
        rewrite A2, O2, O1 in FI. cbn [c_order c0] in FI.
        assert (DV : consume f ps (order + 1) xs = None -> deviation f ps xs = (DParamMissing f, true)).
        { intros _. unfold deviation. rewrite OP. cbn [negb]. rewrite FD. reflexivity. }
        destruct want.
        -- unfold finish_last. cbn [m_last with_exps m_exps].
           destruct (check_call es2 c2) as [[es3 c3]|fl].
           ++ destruct FI as [v [CS [CR [ST [CK W3]]]]]. right. split; [reflexivity|]. left. exists (map abs es3), v.
              split; [exact CS|]. split; [|cbn [m_exps with_exps]; rewrite CR; reflexivity].
              unfold R. cbn [m_ignore m_aorder with_exps]. split; [first [exact Hig1|reflexivity]|]. split; [reflexivity|].
              unfold finish_last. cbn [m_last with_exps m_exps]. unfold check_call. rewrite CK.
              cbn [m_exps with_exps m_ignore m_aorder]. repeat split; try assumption.
              ** unfold last_ok. cbn. rewrite ST. reflexivity.
              ** rewrite (consume_names _ _ _ _ _ _ CS). exact Hnm.
           ++ destruct FI as [CN [K _]]. split; [reflexivity|]. split; [exact CN|].
              rewrite (DV CN). cbn. split; [reflexivity|]. rewrite K. reflexivity.
        -- right. split; [reflexivity|].
           destruct (check_call es2 c2) as [[es3 c3]|fl] eqn:CC.
           ++ destruct FI as [v [CS [CR [ST [CK W3]]]]]. left. exists (map abs es3), v. split; [exact CS|]. split; [|reflexivity].
              unfold R. cbn [m_ignore m_aorder with_exps]. split; [first [exact Hig1|reflexivity]|]. split; [reflexivity|].
              unfold finish_last. cbn [m_last with_exps m_exps]. rewrite CC.
              cbn [m_exps with_exps m_ignore m_aorder]. repeat split; try assumption.
              ** unfold last_ok. cbn. rewrite ST. reflexivity.
              ** rewrite (consume_names _ _ _ _ _ _ CS). exact Hnm.
           ++ destruct FI as [CN [K _]]. right. split; [exact CN|]. split; [reflexivity|]. split; [reflexivity|].
              exists (DParamMissing f). split; [exact (DV CN)|].
              unfold R. cbn [m_ignore m_aorder with_exps]. split; [first [exact Hig1|reflexivity]|]. split; [reflexivity|].
              unfold finish_last. cbn [m_last with_exps m_exps]. rewrite CC. exists (DParamMissing f). split; [reflexivity|]. rewrite K. reflexivity.
      * destruct WP as [p [FD K]]. split; [reflexivity|].
        assert (CN : consume f ps (order + 1) xs = None).
        { apply no_candidate_no_consume. apply (first_dead_some f xs ps [] p FD). }
        split; [exact CN|].
        assert (DV : deviation f ps xs = (if existsb (fun x => (sx_f (x_e x) =? f) && existsb (fun q => fst q =? p) (sx_ps (x_e x))) xs
                                          then DParamValue f p else DParamName f p, false)).
        { unfold deviation. rewrite OP. cbn [negb]. rewrite FD. reflexivity. }
        rewrite DV. cbn [snd fst]. split; [reflexivity|]. rewrite K.
        rewrite <- Habs, <- (map_abs_stat _ _ S1), name_test_abs.
        destruct (existsb (fun e => relates f e && has_input_name p e) es1); reflexivity.
    + destruct WN as [NO K]. split; [reflexivity|].
      assert (OP : existsb (fun x => x_open x && (sx_f (x_e x) =? f)) xs = false).
      { rewrite <- Habs, open_exists_abs. apply existsb_false. exact NO. }
      assert (CN : consume f ps (order + 1) xs = None).
      { apply consume_none. intros x Hx. rewrite existsb_false in OP. specialize (OP x Hx). rewrite matches_agrees.
        destruct (x_open x); [|reflexivity]. cbn in *. rewrite OP. reflexivity. }
      split; [exact CN|].
      assert (DV : deviation f ps xs = (let n := fold_right (fun x a => if sx_f (x_e x) =? f then x_done x + a else a) 0 xs in
                                        if 0 <? n then DAdditional f (n + 1) else DUnexpected f, false)).
      { unfold deviation. rewrite OP. reflexivity. }
      rewrite DV. cbn [snd fst]. split; [reflexivity|]. rewrite K.
      rewrite fulfilled_for_abs, Habs. cbn zeta.
      destruct (0 <? fold_right (fun x a => if sx_f (x_e x) =? f then x_done x + a else a) 0 xs); reflexivity.
Qed.

Lemma unfulfilled_abs es : Forall wfE es -> existsb (fun e => negb (is_fulfilled e)) es = existsb x_open (map abs es).
Proof.
  intro W. rewrite existsb_map. apply existsb_ext'. intros e He. rewrite Forall_forall in W. destruct (W e He) as [_ L].
  rewrite open_abs. unfold is_fulfilled, can_match. destruct (e_act e =? e_exp e) eqn:E; cbn.
  - apply N.eqb_eq in E. symmetry. apply N.ltb_ge. lia.
  - apply N.eqb_neq in E. symmetry. apply N.ltb_lt. lia.
Qed.
Lemma ooo_abs es : existsb e_ooo es = existsb x_ooo (map abs es).
Proof. rewrite existsb_map. reflexivity. Qed.

Lemma sim_calls ign nm : forall cs m xs order i pending rets,
  R ign nm m xs order pending -> forallb (fun c => nodup_names (map fst (sc_ps c))) cs = true ->
  proj (run_from true m i (map call_op cs ++ [OCheck]) rets) = lift (m_calls ign (known nm) xs order i pending cs rets).
Proof.
  induction cs as [|c r IH]; intros m xs order i pending rets HR Hnd.
  - cbn [map app run_from step]. unfold check_expectations. destruct HR as [Hig [Hao HR]].
    destruct (finish_last m) as [m1|fl].
    + destruct HR as [Hp [Habs [Hwf [Hlo [Hnm _]]]]]. subst pending. unfold last_ok in Hlo. rewrite Hlo. cbn [andb m_calls].
      rewrite (unfulfilled_abs _ Hwf), Habs. destruct (existsb x_open xs); [reflexivity|].
      rewrite ooo_abs, Habs. destruct (existsb x_ooo xs); reflexivity.
    + destruct HR as [d [Hp Hd]]. subst pending. cbn. unfold proj, lift. cbn. rewrite Hd. reflexivity.
  - cbn in Hnd. apply andb_true_iff in Hnd. destruct Hnd as [Hn1 Hn2].
    destruct c as [[f ps] want]. cbn [map app run_from step call_op sc_f sc_ps sc_want fst snd]. cbn [sc_ps fst snd] in Hn1.
    destruct pending as [d|].
    + destruct HR as [Hig [Hao HR]]. unfold actual_call. destruct (finish_last m) as [m1|fl].
      * destruct HR as [X _]. discriminate X.
      * destruct HR as [d' [Hp Hd]]. inversion Hp; subst d'. cbn. unfold proj, lift. cbn. rewrite Hd. reflexivity.
    + pose proof (sim_call ign nm m xs order f ps want HR Hn1) as SC. cbn [m_calls sc_f sc_ps sc_want fst snd].
      destruct (actual_call true m f ps want) as [[m' rv]|fl].
      * destruct SC as [[IG [HR' Hrv]]|[IG [[xs' [v [CS [HR' Hrv]]]]|[CN [Hw [Hrv [d [DV HR']]]]]]]]; rewrite IG.
        -- rewrite (IH m' xs order (i + 1) None _ HR' Hn2). subst rv. destruct want; reflexivity.
        -- rewrite CS. rewrite (IH m' xs' (order + 1) (i + 1) None _ HR' Hn2). subst rv. destruct want; reflexivity.
        -- rewrite CN, DV. subst want rv. cbn [andb negb]. apply (IH m' xs (order + 1) (i + 1) (Some d) _ HR' Hn2).
      * destruct SC as [IG [CN [DF K]]]. rewrite IG, CN. destruct (deviation f ps xs) as [d df]. cbn [fst snd] in *. rewrite DF.
        unfold proj, lift. cbn. rewrite K. reflexivity.
Qed.

(* ------------------------------------------------------------------ the prefix of a judged scenario *)
Definition exp_op (e : sexp) : op := OExpect (sx_n e) (sx_f e) (sx_ps e) (sx_ret e) false.
Definition canon_ops (k : canon) : list op :=
  (if k_strict k then [OStrict] else []) ++ (if k_ignore k then [OIgnoreOtherCalls] else []) ++
  map exp_op (k_exps k) ++ map call_op (k_calls k) ++ [OCheck].

Lemma parse_calls_inv : forall ops cs, parse_calls ops = Some cs -> ops = map call_op cs ++ [OCheck].
Proof.
  induction ops as [|o r IH]; intros cs H; [discriminate|]. destruct o; cbn in H.
  - discriminate.
  - destruct (parse_calls r) as [l|] eqn:E; [|discriminate]. inversion H; subst. cbn. rewrite (IH l eq_refl). reflexivity.
  - destruct r; [|discriminate]. inversion H; subst. reflexivity.
  - discriminate.
  - discriminate.
  - discriminate.
Qed.
Lemma parse_exps_inv : forall ops es cs, parse_exps ops = Some (es, cs) -> ops = map exp_op es ++ map call_op cs ++ [OCheck].
Proof.
  induction ops as [|o r IH]; intros es cs H; [discriminate|].
  destruct o as [n f ps ret ign| | | | |];
    try (match type of H with parse_exps (?o :: r) = _ =>
           change (match parse_calls (o :: r) with Some cs0 => Some ([], cs0) | None => None end = Some (es, cs)) in H end;
         destruct (parse_calls _) as [l|] eqn:E in H; [|discriminate]; inversion H; subst; cbn [map app]; apply (parse_calls_inv _ _ E)).
  destruct ign.
  - change (match parse_calls (OExpect n f ps ret true :: r) with Some cs0 => Some ([], cs0) | None => None end = Some (es, cs)) in H.
    cbn in H. discriminate.
  - cbn in H. destruct (parse_exps r) as [[es' cs']|] eqn:E; [|discriminate]. inversion H; subst. cbn. rewrite (IH es' cs eq_refl). reflexivity.
Qed.
Definition parse3 (st ig : bool) (ops : list op) : option canon :=
  match parse_exps ops with
  | Some (es, cs) => Some {| k_strict := st; k_ignore := ig; k_exps := es; k_calls := cs |}
  | None => None
  end.
Definition parse2 (st : bool) (ops : list op) : option canon :=
  match ops with OIgnoreOtherCalls :: r => parse3 st true r | _ => parse3 st false ops end.
Lemma parse_eq ops : parse ops = match ops with OStrict :: r => parse2 true r | _ => parse2 false ops end.
Proof. destruct ops as [|[] r]; try reflexivity; destruct r as [|[] r']; reflexivity. Qed.
Lemma parse3_inv st ig ops k : parse3 st ig ops = Some k ->
  k_strict k = st /\ k_ignore k = ig /\ ops = map exp_op (k_exps k) ++ map call_op (k_calls k) ++ [OCheck].
Proof.
  unfold parse3. destruct (parse_exps ops) as [[es cs]|] eqn:E; [|discriminate]. intro H. inversion H; subst. cbn.
  split; [reflexivity|]. split; [reflexivity|]. apply (parse_exps_inv _ _ _ E).
Qed.
Lemma parse2_inv st ops k : parse2 st ops = Some k ->
  k_strict k = st /\ ops = (if k_ignore k then [OIgnoreOtherCalls] else []) ++ map exp_op (k_exps k) ++ map call_op (k_calls k) ++ [OCheck].
Proof.
  unfold parse2. intro H.
  destruct ops as [|o r]; [destruct (parse3_inv _ _ _ _ H) as [A [B C]]; rewrite B; auto|].
  destruct o; try (destruct (parse3_inv _ _ _ _ H) as [A [B C]]; rewrite B; auto).
  cbn [app]. rewrite <- C. auto.
Qed.
Lemma parse_inv ops k : parse ops = Some k -> ops = canon_ops k.
Proof.
  rewrite parse_eq. unfold canon_ops. intro H.
  destruct ops as [|o r]; [destruct (parse2_inv _ _ _ H) as [A B]; rewrite A; exact B|].
  destruct o; try (destruct (parse2_inv _ _ _ H) as [A B]; rewrite A; exact B).
  destruct (parse2_inv _ _ _ H) as [A B]. rewrite A. cbn [app]. rewrite <- B. reflexivity.
Qed.

Definition expect_s (m : mock) (e : sexp) : mock := expect m (sx_n e) (sx_f e) (sx_ps e) (sx_ret e) false.
Lemma run_expects : forall es m i rest rets,
  run_from true m i (map exp_op es ++ rest) rets = run_from true (fold_left expect_s es m) (i + N.of_nat (length es)) rest rets.
Proof.
  induction es as [|e r IH]; intros m i rest rets.
  - cbn. rewrite N.add_0_r. reflexivity.
  - cbn [map app run_from step exp_op]. rewrite IH. cbn [fold_left length]. f_equal. lia.
Qed.
Lemma pl_mk ps : map (fun p => (p_name p, p_val p)) (map (fun q : name * pv => {| p_name := fst q; p_val := snd q; p_flag := false |}) ps) = ps.
Proof. rewrite map_map. cbn. induction ps as [|[a b] r IH]; cbn; [reflexivity|]. rewrite IH. reflexivity. Qed.
Lemma expects_state : forall es m from,
  (m_strict m = true -> from = m_eorder m) -> Forall wfE (m_exps m) ->
  let m' := fold_left expect_s es m in
  map abs (m_exps m') = map abs (m_exps m) ++ init_m (m_strict m) from es /\ Forall wfE (m_exps m') /\
  m_last m' = m_last m /\ m_ignore m' = m_ignore m /\ m_aorder m' = m_aorder m.
Proof.
  induction es as [|e r IH]; intros m from Hf Hw; cbn zeta.
  - cbn. rewrite app_nil_r. auto.
  - cbn [fold_left]. specialize (IH (expect_s m e) (from + sx_n e)).
    assert (S1 : m_strict (expect_s m e) = m_strict m) by reflexivity.
    destruct IH as [A [B [C [D E]]]].
    + rewrite S1. intro Hs. cbn. rewrite Hs. rewrite (Hf Hs). reflexivity.
    + cbn. apply Forall_app. split; [exact Hw|]. constructor; [|constructor]. split; [reflexivity|]. cbn. lia.
    + rewrite A. split; [|auto]. rewrite S1. cbn [expect_s expect m_exps]. rewrite map_app, <- app_assoc. f_equal. cbn [map app init_m]. f_equal.
      unfold abs. cbn. unfold pl. cbn. rewrite pl_mk. rewrite N.sub_0_r.
      destruct e as [[[n f] ps] ret]. cbn. destruct (m_strict m) eqn:Hs; [rewrite (Hf eq_refl)|]; reflexivity.
Qed.
Lemma fnames_init st from es : fnames (init_m st from es) = map sx_f es.
Proof. revert from. induction es as [|e r IH]; intro from; cbn; [reflexivity|]. unfold fnames in *. rewrite IH. reflexivity. Qed.

Lemma m_calls_ext ign k1 k2 : (forall f, k1 f = k2 f) -> forall cs xs order i pending rets,
  m_calls ign k1 xs order i pending cs rets = m_calls ign k2 xs order i pending cs rets.
Proof.
  intro H. induction cs as [|c r IH]; intros xs order i pending rets; destruct pending; cbn; try reflexivity.
  rewrite H. destruct (ign && negb (k2 (sc_f c))); [apply IH|]. destruct (consume _ _ _ _) as [[xs' v]|]; [apply IH|].
  destruct (deviation _ _ _) as [d df]. destruct (df && negb (sc_want c)); [apply IH|reflexivity].
Qed.

(* L refines M on every judged scenario: same failing operation, same diagnosis, same returned values *)
Theorem L_refines_M ops k :
  parse ops = Some k -> judged k = true -> proj (run ops) = lift (expected k).
Proof.
  intros Hp Hj. rewrite (parse_inv _ _ Hp). unfold run, run_gen, canon_ops, expected.
  set (m1 := if k_strict k then {| m_exps := []; m_aorder := 0; m_eorder := 0; m_strict := true; m_ignore := false; m_last := None |} else mock0).
  set (m2 := if k_ignore k then {| m_exps := m_exps m1; m_aorder := m_aorder m1; m_eorder := m_eorder m1; m_strict := m_strict m1;
                                    m_ignore := true; m_last := m_last m1 |} else m1).
  set (i0 := (if k_strict k then 1 else 0) + (if k_ignore k then 1 else 0)).
  assert (E1 : forall rest, run_from true mock0 0 ((if k_strict k then [OStrict] else []) ++ (if k_ignore k then [OIgnoreOtherCalls] else []) ++ rest) []
                            = run_from true m2 i0 rest []).
  { intro rest. unfold m2, m1, i0. destruct (k_strict k), (k_ignore k); reflexivity. }
  rewrite E1, run_expects.
  assert (M2 : m_exps m2 = [] /\ m_strict m2 = k_strict k /\ m_ignore m2 = k_ignore k /\ m_aorder m2 = 0 /\ m_eorder m2 = 0 /\ m_last m2 = None).
  { unfold m2, m1. destruct (k_strict k), (k_ignore k); cbn; auto 10. }
  destruct M2 as [X1 [X2 [X3 [X4 [X5 X6]]]]].
  destruct (expects_state (k_exps k) m2 0) as [A [B [C [D E]]]].
  { intros _. symmetry. exact X5. }
  { rewrite X1. constructor. }
  rewrite X1, X2 in A. cbn [map app] in A.
  rewrite (m_calls_ext (k_ignore k) _ (known (map sx_f (k_exps k)))).
  2: { intro f. unfold known. rewrite existsb_map. reflexivity. }
  replace ((if k_strict k then 1 else 0) + (if k_ignore k then 1 else 0) + N.of_nat (length (k_exps k))) with (i0 + N.of_nat (length (k_exps k))) by reflexivity.
  apply sim_calls; [|exact Hj].
  apply R_idle; try congruence. rewrite fnames_init. reflexivity.
Qed.
