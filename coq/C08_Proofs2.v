(* C08 -- proofs, part 2: run-level refinement on one mock.  On every judged scenario the low-level model L and the reference
   semantics M produce the same failing operation, the same diagnosis, the same returned values, and L's output buffers begin
   with the bytes M demands. *)
From Coq Require Import ZArith NArith Bool List Lia.
From CppUVerif Require Import lib.CInt lib.Str C08_Model C08_Proofs.
Import ListNotations.
Local Open Scope N_scope.

Definition proj (o : obs) : option (N * option dkind) * list (option pv) :=
  (match o_fail o with Some (i, fl) => Some (i, dkind_of (f_kind fl)) | None => None end, o_rets o).
Definition lift (r : option (N * dkind) * list (option pv)) : option (N * option dkind) * list (option pv) :=
  (match fst r with Some (i, d) => Some (i, Some d) | None => None end, snd r).

Definition mk_call (f : name) (its : list item) (want : bool) : scall := {| sc_f := f; sc_items := its; sc_want := want |}.
Definition call_op (c : scall) : op := OCall (sc_f c) (sc_items c) (sc_want c).
Definition fnames (xs : list mexp) : list name := map (fun x => sx_f (x_e x)) xs.
Definition known (nm : list name) (f : name) : bool := existsb (fun n => n =? f) nm.
Definition is_some {A} (o : option A) : bool := match o with Some _ => true | None => false end.
(* per function either every expectation names an object or none does *)
Definition unifM (xs : list mexp) : Prop :=
  forall x y, In x xs -> In y xs -> sx_f (x_e x) = sx_f (x_e y) -> is_some (sx_obj (x_e x)) = is_some (sx_obj (x_e y)).

(* simulation relation between the L state of one mock and its M state (capacities, pending diagnosis) *)
Definition R (ign : bool) (nm : list name) (m : mock) (st : mst) : Prop :=
  m_ignore m = ign /\ m_aorder m = s_order st /\ m_enabled m = true /\
  match finish_last m with
  | inl m' => s_pend st = None /\ map abs (m_exps m') = s_xs st /\ Forall wfE (m_exps m') /\ last_ok m' = true /\ fnames (s_xs st) = nm /\
              m_ignore m' = ign /\ m_aorder m' = s_order st /\ m_enabled m' = true
  | inr fl => exists d, s_pend st = Some d /\ dkind_of (f_kind fl) = Some d /\
                        existsb e_ooo (m_exps m) = existsb x_ooo (s_xs st)   (* the out-of-order marks stay related while a deviation waits *)
  end.

Lemma wf_no_ign es : Forall wfE es -> no_ign es.
Proof. intros H e He. rewrite Forall_forall in H. apply (H e He). Qed.
Lemma wf_stat es es' : map stat es = map stat es' -> Forall wfE es -> Forall wfE es'.
Proof.
  revert es'. induction es as [|e r IH]; destruct es' as [|e' r']; cbn; intros H W; try discriminate; [constructor|].
  destruct (cons_eq_inv _ _ _ _ H) as [H1 H2]. inversion W as [|? ? W1 W2]; subst. constructor; [|apply IH; assumption].
  destruct W1 as [A B]. destruct (stat_cnt _ _ H1) as [C D]. split; [rewrite <- (stat_ign _ _ H1); exact A|lia].
Qed.
Lemma relates_names f es : existsb (relates f) es = known (fnames (map abs es)) f.
Proof. unfold known, fnames. rewrite map_map, existsb_map. reflexivity. Qed.
Lemma consume_xe f P o xs xs' v : consume f P o xs = Some (xs', v) -> map x_e xs' = map x_e xs.
Proof.
  revert xs'. induction xs as [|x r IH]; cbn; intros xs' H; [discriminate|].
  destruct (x_open x && matches (x_e x) f P).
  - inversion H; subst. reflexivity.
  - destruct (consume f P o r) as [[r' w]|] eqn:E; [|discriminate]. inversion H; subst. cbn [map]. rewrite (IH r' eq_refl). reflexivity.
Qed.
Lemma consume_names f P o xs xs' v : consume f P o xs = Some (xs', v) -> fnames xs' = fnames xs.
Proof.
  intro H. apply consume_xe in H. unfold fnames. rewrite <- (map_map x_e sx_f), <- (map_map x_e sx_f xs), H. reflexivity.
Qed.
Lemma unifM_xe xs xs' : map x_e xs' = map x_e xs -> unifM xs -> unifM xs'.
Proof.
  intros H U x y Hx Hy. assert (G : forall z, In z xs' -> exists z0, In z0 xs /\ x_e z0 = x_e z).
  { intros z Hz. apply (in_map x_e) in Hz. rewrite H in Hz. apply in_map_iff in Hz. destruct Hz as [z0 [A B]]. exists z0. auto. }
  destruct (G x Hx) as [x0 [Hx0 Ex]]. destruct (G y Hy) as [y0 [Hy0 Ey]]. rewrite <- Ex, <- Ey. apply U; assumption.
Qed.
Lemma unifM_abs es : unifM (map abs es) -> forall f, unif f es.
Proof.
  intros U f e e' He He' R1 R2. specialize (U (abs e) (abs e') (in_map abs _ _ He) (in_map abs _ _ He')).
  unfold relates in R1, R2. apply N.eqb_eq in R1. apply N.eqb_eq in R2. assert (X : sx_f (x_e (abs e)) = sx_f (x_e (abs e'))) by (cbn; congruence).
  specialize (U X). unfold specific. exact U.
Qed.
Lemma fulfilled_for_abs f es :
  fulfilled_for f es = fold_right (fun x a => if sx_f (x_e x) =? f then x_done x + a else a) 0 (map abs es).
Proof. unfold fulfilled_for. induction es as [|e r IH]; cbn; [reflexivity|]. rewrite IH. reflexivity. Qed.
Lemma open_exists_abs f es : existsb (fun x => x_open x && (sx_f (x_e x) =? f)) (map abs es) = existsb (fun e => can_match e && relates f e) es.
Proof. rewrite existsb_map. apply existsb_ext'. intros e _. rewrite open_abs. reflexivity. Qed.
Lemma name_test_abs f p es :
  existsb (fun x => (sx_f (x_e x) =? f) && has_name p (sx_ps (x_e x))) (map abs es) =
  existsb (fun e => relates f e && has_input_name p e) es.
Proof. rewrite existsb_map. apply existsb_ext'. intros e _. rewrite has_input_name_pl. reflexivity. Qed.
Lemma oname_test_abs f p es :
  existsb (fun x => (sx_f (x_e x) =? f) && has_name p (sx_outs (x_e x))) (map abs es) =
  existsb (fun e => relates f e && has_output_name p e) es.
Proof. rewrite existsb_map. apply existsb_ext'. intros e _. rewrite has_output_name_ol. reflexivity. Qed.
Lemma missing_test_abs f P es : no_ign es ->
  existsb (fun x => x_open x && (sx_f (x_e x) =? f) && agrees_upto (x_e x) P && negb (params_covered (x_e x) P)) (map abs es) =
  existsb (fun e => liveL f P e && negb (pcoveredL P e)) es.
Proof. intro N. rewrite existsb_map. apply existsb_ext'. intros e He. rewrite (live_abs f P e (N e He)). reflexivity. Qed.

(* when M finds an item after which no candidate is left, no expectation is exactly the call *)
Lemma agrees_upto_app e P Q : agrees_upto e (P ++ Q) = agrees_upto e P && agrees_upto e Q.
Proof. unfold agrees_upto. apply forallb_app. Qed.
Lemma first_dead_some f xs : forall rest seen p,
  first_dead f xs seen rest = Some p ->
  forall x, In x xs -> x_open x && (sx_f (x_e x) =? f) && agrees_upto (x_e x) (seen ++ rest) = false.
Proof.
  induction rest as [|q r IH]; intros seen p H x Hx; [discriminate|]. cbn in H.
  destruct (existsb (fun x => x_open x && (sx_f (x_e x) =? f) && agrees_upto (x_e x) (seen ++ [q])) xs) eqn:E.
  - specialize (IH _ _ H x Hx). rewrite <- app_assoc in IH. exact IH.
  - rewrite existsb_false in E. specialize (E x Hx). change (q :: r) with ([q] ++ r). rewrite app_assoc, agrees_upto_app, andb_assoc, E. reflexivity.
Qed.
Lemma no_candidate_no_consume f P o xs :
  (forall x, In x xs -> x_open x && (sx_f (x_e x) =? f) && agrees_upto (x_e x) P = false) -> consume f P o xs = None.
Proof.
  intro H. apply consume_none. intros x Hx. specialize (H x Hx). unfold matches.
  destruct (x_open x); [|reflexivity]. destruct (sx_f (x_e x) =? f); [|reflexivity]. cbn in *. rewrite H. reflexivity.
Qed.

Lemma R_idle ign nm m st :
  m_ignore m = ign -> m_aorder m = s_order st -> m_enabled m = true -> m_last m = None -> s_pend st = None ->
  map abs (m_exps m) = s_xs st -> Forall wfE (m_exps m) -> fnames (s_xs st) = nm -> R ign nm m st.
Proof.
  intros A B B' C P D E F. unfold R, finish_last. rewrite C. repeat split; try assumption. unfold last_ok. rewrite C. reflexivity.
Qed.

Lemma bufs_of_length its : length (bufs_of its) = length (out_names its).
Proof.
  induction its as [|[n v|n b|a] r IH]; [reflexivity|exact IH| |exact IH].
  change (S (length (bufs_of r)) = S (length (out_names r))). rewrite IH. reflexivity.
Qed.

(* one actual call, L against M *)
Lemma sim_call ign nm m st f its want :
  R ign nm m st -> fresh_list [] its = true -> unifM (s_xs st) ->
  match actual_call true m f its want with
  | inr fl => exists d, m_call ign (known nm) st (mk_call f its want) = inr d /\ dkind_of (f_kind fl) = Some d
  | inl (m', r) => exists st' rv, m_call ign (known nm) st (mk_call f its want) = inl (st', rv) /\ R ign nm m' st' /\ unifM (s_xs st') /\
                                  r_ret r = fst rv /\ outs_ok (snd rv) (r_outs r) = true /\ r_left r = None
  end.
Proof.
  intros [Hig [Hao [Hen HR]]] Hnd HU. unfold actual_call, m_call. cbn [sc_f sc_items sc_want mk_call].
  destruct (finish_last m) as [m1|fl0] eqn:FL.
  2: { destruct HR as [d [X [Y _]]]. rewrite X. exists d. auto. }
  destruct HR as [Hpe [Habs [Hwf [Hlo [Hnm [Hig1 [Hao1 Hen1]]]]]]]. rewrite Hpe.
  change (m_ignore (with_exps m1 (m_exps m1) None)) with (m_ignore m1).
  change (m_enabled (with_exps m1 (m_exps m1) None)) with (m_enabled m1).
  change (m_exps (with_exps m1 (m_exps m1) None)) with (m_exps m1).
  change (m_aorder (with_exps m1 (m_exps m1) None)) with (m_aorder m1).
  rewrite Hen1. cbn [negb]. rewrite Hig1, relates_names, Habs, Hnm.
  destruct (ign && negb (known nm f)) eqn:IG.
  - eexists _, _. split; [reflexivity|]. split; [|split; [exact HU|split; [reflexivity|split; [|reflexivity]]]].
    + apply R_idle; try assumption; reflexivity.
    + cbn. apply nothing_outs_ok. symmetry. apply bufs_of_length.
  - rewrite Hao1.
    set (c0 := {| c_name := f; c_order := s_order st + 1; c_state := Succeeded; c_checked := false; c_outs := [] |}).
    pose proof (with_name_inv f (m_exps m1) c0 (wf_no_ign _ Hwf) eq_refl eq_refl eq_refl) as WN.
    cbn [m_exps].
    destruct (with_name (create true (m_exps m1)) c0) as [[es1 c1]|fl].
    + destruct WN as [I1 [S1 [O1 [e0 [He0 Hl0]]]]].
      assert (U1 : unif f es1).
      { apply (unif_stat f (m_exps m1) es1); [symmetry; exact S1|]. apply unifM_abs. rewrite Habs. exact HU. }
      pose proof (with_items_inv f its [] es1 c1 I1 Hnd U1) as WP.
      rewrite (map_abs_stat _ _ S1), Habs in WP.
      assert (OP : existsb (fun x => x_open x && (sx_f (x_e x) =? f)) (s_xs st) = true).
      { rewrite <- Habs, open_exists_abs. apply existsb_exists. eauto. }
      destruct (with_items its es1 c1) as [[es2 c2]|fl].
      * destruct WP as [FD [I2 [S2 O2]]]. cbn [app] in I2.
        assert (SS : map stat es2 = map stat (m_exps m1)) by (rewrite S2, S1; reflexivity).
        assert (W2 : Forall wfE es2). { exact (wf_stat (m_exps m1) es2 (eq_sym SS) Hwf). }
        pose proof (finish_inv f its es2 c2 I2 W2) as FI.
        assert (A2 : map abs es2 = s_xs st). { rewrite <- Habs. apply map_abs_stat. exact SS. }
        rewrite A2, O2, O1 in FI. cbn [c_order c0] in FI.
        assert (LEN : length (out_names its) = length (map snd (c_outs c2))).
        { destruct I2 as [_ [_ [_ [X _]]]]. rewrite <- X, !map_length. reflexivity. }
        assert (DV : consume f its (s_order st + 1) (s_xs st) = None ->
                     deviation f its (s_xs st) = (if existsb (fun e => liveL f its e && negb (pcoveredL its e)) es2 then DParamMissing f else DObjectMissing f, true)).
        { intros _. unfold deviation. rewrite OP. cbn [negb]. rewrite FD. rewrite <- A2, (missing_test_abs f its es2 (wf_no_ign _ W2)). reflexivity. }
        destruct want.
        -- unfold finish_last. cbn [m_last with_exps m_exps].
           destruct (check_call es2 c2) as [[es3 c3]|fl] eqn:CC.
           ++ destruct FI as [e [CS [CR [OU [ST [CK W3]]]]]]. rewrite CS.
              eexists _, _. split; [reflexivity|]. cbn [s_xs s_order s_pend fst snd r_ret r_outs r_left].
              split; [|split; [apply (unifM_xe (s_xs st)); [apply (consume_xe _ _ _ _ _ _ CS)|exact HU]|split; [cbn [m_exps with_exps]; rewrite CR; reflexivity|split; [|reflexivity]]]].
              ** unfold R. cbn [m_ignore m_aorder m_enabled with_exps s_order s_xs s_pend]. split; [first [exact Hig1|reflexivity]|]. split; [reflexivity|]. split; [first [exact Hen1|reflexivity]|].
                 unfold finish_last. cbn [m_last with_exps m_exps]. unfold check_call. rewrite CK.
                 cbn [m_exps with_exps m_ignore m_aorder m_enabled]. repeat split; try assumption.
                 --- unfold last_ok. cbn. rewrite ST. reflexivity.
                 --- rewrite (consume_names _ _ _ _ _ _ CS). exact Hnm.
              ** unfold last_outs. cbn [m_last with_exps]. exact OU.
           ++ destruct FI as [CN [K _]]. rewrite CN, (DV CN). cbn [andb negb].
              eexists. split; [reflexivity|]. rewrite K. destruct (existsb _ es2); reflexivity.
        -- destruct (check_call es2 c2) as [[es3 c3]|fl] eqn:CC.
           ++ destruct FI as [e [CS [CR [OU [ST [CK W3]]]]]]. rewrite CS.
              eexists _, _. split; [reflexivity|]. cbn [s_xs s_order s_pend fst snd r_ret r_outs r_left].
              split; [|split; [apply (unifM_xe (s_xs st)); [apply (consume_xe _ _ _ _ _ _ CS)|exact HU]|split; [reflexivity|split; [|reflexivity]]]].
              ** unfold R. cbn [m_ignore m_aorder m_enabled with_exps s_order s_xs s_pend]. split; [first [exact Hig1|reflexivity]|]. split; [reflexivity|]. split; [first [exact Hen1|reflexivity]|].
                 unfold finish_last. cbn [m_last with_exps m_exps]. rewrite CC.
                 cbn [m_exps with_exps m_ignore m_aorder m_enabled]. repeat split; try assumption.
                 --- unfold last_ok. cbn. rewrite ST. reflexivity.
                 --- rewrite (consume_names _ _ _ _ _ _ CS). exact Hnm.
              ** unfold last_outs. cbn [m_last with_exps].
                 assert (CO : c_outs c3 = c_outs c2).
                 { unfold check_call in CC. destruct (c_checked c2); [inversion CC; reflexivity|].
                   destruct (c_state (set_checked c2)); [| inversion CC; reflexivity | inversion CC; reflexivity].
                   destruct (existsb _ es2); [discriminate|]. destruct (take_first _ _ es2); [inversion CC; reflexivity|].
                   destruct (existsb _ es2); discriminate. }
                 rewrite <- CO. exact OU.
           ++ destruct FI as [CN [K _]]. rewrite CN, (DV CN). cbn [andb negb].
              eexists _, _. split; [reflexivity|]. cbn [s_xs s_order s_pend fst snd r_ret r_outs r_left].
              split; [|split; [exact HU|split; [reflexivity|split; [|reflexivity]]]].
              ** unfold R. cbn [m_ignore m_aorder m_enabled with_exps s_order s_xs s_pend]. split; [first [exact Hig1|reflexivity]|]. split; [reflexivity|]. split; [first [exact Hen1|reflexivity]|].
                 unfold finish_last. cbn [m_last with_exps m_exps]. rewrite CC. eexists. split; [reflexivity|]. rewrite K.
                 split; [destruct (existsb _ es2); reflexivity|]. rewrite <- A2, existsb_map. reflexivity.
              ** unfold last_outs. cbn [m_last with_exps]. apply nothing_outs_ok. exact LEN.
      * destruct WP as [p [FD K]].
        assert (CN : consume f its (s_order st + 1) (s_xs st) = None).
        { apply no_candidate_no_consume. apply (first_dead_some f (s_xs st) its [] p FD). }
        rewrite CN. unfold deviation. rewrite OP. cbn [negb]. rewrite FD.
        destruct p as [n v|n buf|a]; cbn [andb]; eexists; (split; [reflexivity|]); rewrite K; cbn [fail_kind].
        -- rewrite <- Habs, <- (map_abs_stat _ _ S1), name_test_abs.
           destruct (existsb (fun e => relates f e && has_input_name n e) es1); reflexivity.
        -- rewrite <- Habs, <- (map_abs_stat _ _ S1), oname_test_abs.
           destruct (existsb (fun e => relates f e && has_output_name n e) es1); reflexivity.
        -- reflexivity.
    + destruct WN as [NO K].
      assert (OP : existsb (fun x => x_open x && (sx_f (x_e x) =? f)) (s_xs st) = false).
      { rewrite <- Habs, open_exists_abs. apply existsb_false. exact NO. }
      assert (CN : consume f its (s_order st + 1) (s_xs st) = None).
      { apply consume_none. intros x Hx. rewrite existsb_false in OP. specialize (OP x Hx). unfold matches.
        destruct (x_open x); [|reflexivity]. cbn in *. rewrite OP. reflexivity. }
      rewrite CN. unfold deviation. rewrite OP. cbn [negb andb]. eexists. split; [reflexivity|]. rewrite K.
      rewrite fulfilled_for_abs, Habs. cbn zeta.
      destruct (0 <? fold_right (fun x a => if sx_f (x_e x) =? f then x_done x + a else a) 0 (s_xs st)); reflexivity.
Qed.

(* ------------------------------------------------------------------ accumulated results *)
Definition pre2 : list (list N) -> list (list N) -> Prop := Forall2 (fun w g => is_prefix w g = true).
Lemma outs_ok_pre2 w g : outs_ok w g = true <-> pre2 w g.
Proof.
  unfold outs_ok, pre2. revert g. induction w as [|a r IH]; destruct g as [|b s]; cbn; split; intro H; try discriminate; try constructor;
    try (inversion H; fail).
  - apply andb_true_iff in H. apply H.
  - apply IH. apply andb_true_iff in H. apply H.
  - inversion H; subst. apply andb_true_iff. split; [assumption|]. apply IH. assumption.
Qed.
Lemma pre2_rev w g : pre2 w g -> pre2 (rev w) (rev g).
Proof. unfold pre2. induction 1; cbn; [constructor|]. apply Forall2_app; [assumption|]. constructor; [assumption|constructor]. Qed.
Definition acc_rel (a : acc) (ma : macc) : Prop := a_rets a = ma_rets ma /\ pre2 (ma_outs ma) (a_outs a).
Lemma acc_rel_add a ma r rv : acc_rel a ma -> r_ret r = fst rv -> outs_ok (snd rv) (r_outs r) = true -> acc_rel (add_effect a r) (macc_add ma rv).
Proof.
  intros [A B] C D. split; cbn.
  - rewrite C, A. reflexivity.
  - apply Forall2_app; [|exact B]. apply pre2_rev. apply outs_ok_pre2. exact D.
Qed.
Lemma acc_rel_obs a ma fl fm :
  acc_rel a ma -> o_rets (mk_obs fl a) = mr_rets (mk_mres fm ma) /\ outs_ok (mr_outs (mk_mres fm ma)) (o_outs (mk_obs fl a)) = true.
Proof. intros [A B]. cbn. rewrite A. split; [reflexivity|]. apply outs_ok_pre2. apply pre2_rev. exact B. Qed.
Lemma left_add a r : r_left r = None -> a_left (add_effect a r) = a_left a.
Proof. intro H. cbn. rewrite H. reflexivity. Qed.

Lemma unfulfilled_abs es : Forall wfE es -> unfulfilled es = existsb x_open (map abs es).
Proof.
  intro W. unfold unfulfilled. rewrite existsb_map. apply existsb_ext'. intros e He. rewrite Forall_forall in W. destruct (W e He) as [_ L].
  rewrite open_abs. unfold is_fulfilled, can_match. destruct (e_act e =? e_exp e) eqn:E; cbn.
  - apply N.eqb_eq in E. symmetry. apply N.ltb_ge. lia.
  - apply N.eqb_neq in E. symmetry. apply N.ltb_lt. lia.
Qed.
Lemma ooo_abs es : existsb e_ooo es = existsb x_ooo (map abs es).
Proof. rewrite existsb_map. reflexivity. Qed.

Definition call_fresh (c : scall) : bool := fresh_list [] (sc_items c).

(* the calls of a judged scenario followed by the final check, L against M *)
Lemma sim_calls ign nm : forall cs m st i a ma,
  R ign nm m st -> unifM (s_xs st) -> forallb call_fresh cs = true -> acc_rel a ma ->
  let o := run_from true m i (map call_op cs ++ [OCheck]) a in
  let r := m_calls ign (known nm) st i cs ma in
  proj o = lift (mr_fail r, mr_rets r) /\ outs_ok (mr_outs r) (o_outs o) = true.
Proof.
  induction cs as [|c r IH]; intros m st i a ma HR HU Hnd HA; cbn zeta.
  - cbn [map app run_from step m_calls]. unfold check_expectations. destruct HR as [Hig [Hao [Hen HR]]].
    unfold m_final. cbn [flat_map map].
    destruct (finish_last m) as [m1|fl].
    + destruct HR as [Hp [Habs [Hwf [Hlo _]]]]. rewrite Hp. cbn [app]. rewrite Hlo. cbn [andb existsb]. rewrite !orb_false_r.
      rewrite (unfulfilled_abs _ Hwf), Habs. destruct (existsb x_open (s_xs st)).
      * destruct (acc_rel_obs a ma (Some (i, history (m_exps m1) FNotFulfilled)) (Some (i, DNotFulfilled)) HA) as [X Y].
        split; [|exact Y]. unfold proj, lift. rewrite X. reflexivity.
      * rewrite ooo_abs, Habs. destruct (existsb x_ooo (s_xs st)).
        -- destruct (acc_rel_obs a ma (Some (i, history (filter e_ooo (m_exps m1)) FOutOfOrder)) (Some (i, DOutOfOrder)) HA) as [X Y].
           split; [|exact Y]. unfold proj, lift. rewrite X. reflexivity.
        -- cbn [run_from]. destruct (acc_rel_obs (add_effect a no_effect) ma None None) as [X Y].
           { destruct HA as [A B]. split; [exact A|exact B]. }
           split; [|exact Y]. unfold proj, lift. rewrite X. reflexivity.
    + destruct HR as [d [Hp [Hd _]]]. rewrite Hp. cbn [app].
      destruct (acc_rel_obs a ma (Some (i, fl)) (Some (i, d)) HA) as [X Y]. split; [|exact Y].
      unfold proj, lift. rewrite X. cbn. rewrite Hd. reflexivity.
  - cbn in Hnd. apply andb_true_iff in Hnd. destruct Hnd as [Hn1 Hn2].
    destruct c as [f its want]. cbn [map app run_from step call_op sc_f sc_items sc_want m_calls]. unfold call_fresh in Hn1. cbn [sc_items] in Hn1.
    pose proof (sim_call ign nm m st f its want HR Hn1 HU) as SC. unfold mk_call in SC.
    destruct (actual_call true m f its want) as [[m' rv]|fl].
    + destruct SC as [st' [mrv [MC [HR' [HU' [Hr [Ho Hl]]]]]]]. rewrite MC.
      apply (IH m' st' (i + 1) (add_effect a rv) (macc_add ma mrv) HR' HU' Hn2). apply acc_rel_add; assumption.
    + destruct SC as [d [MC Hd]]. rewrite MC.
      destruct (acc_rel_obs a ma (Some (i, fl)) (Some (i, d)) HA) as [X Y]. split; [|exact Y].
      unfold proj, lift. rewrite X. cbn. rewrite Hd. reflexivity.
Qed.

(* a call that passes no name twice and at most one object passes fresh items only *)
Lemma fresh_list_ok : forall its P,
  nodup_names (in_names its) = true -> nodup_names (out_names its) = true -> (length (objs_of P ++ objs_of its) <=? 1)%nat = true ->
  (forall n, In n (in_names its) -> passed_in P n = false) -> (forall n, In n (out_names its) -> passed_out P n = false) ->
  fresh_list P its = true.
Proof.
  induction its as [|it r IH]; intros P Hi Ho Hb Fi Fo; [reflexivity|]. cbn [fresh_list]. apply andb_true_iff.
  destruct it as [n v|n buf|a].
  - cbn in Hi. apply andb_true_iff in Hi. destruct Hi as [Hi1 Hi2]. split.
    + cbn. rewrite (Fi n (or_introl eq_refl)). reflexivity.
    + apply IH; try assumption.
      * rewrite objs_of_app. cbn. rewrite app_nil_r. exact Hb.
      * intros m Hm. rewrite passed_in_app, (Fi m (or_intror Hm)). unfold passed_in. cbn. rewrite orb_false_r.
        apply negb_true_iff in Hi1. rewrite existsb_false in Hi1. rewrite N.eqb_sym. apply Hi1. exact Hm.
      * intros m Hm. rewrite passed_out_app, (Fo m Hm). reflexivity.
  - cbn in Ho. apply andb_true_iff in Ho. destruct Ho as [Ho1 Ho2]. split.
    + cbn. rewrite (Fo n (or_introl eq_refl)). reflexivity.
    + apply IH; try assumption.
      * rewrite objs_of_app. cbn. rewrite app_nil_r. exact Hb.
      * intros m Hm. rewrite passed_in_app, (Fi m Hm). reflexivity.
      * intros m Hm. rewrite passed_out_app, (Fo m (or_intror Hm)). unfold passed_out. cbn. rewrite orb_false_r.
        apply negb_true_iff in Ho1. rewrite existsb_false in Ho1. rewrite N.eqb_sym. apply Ho1. exact Hm.
  - split.
    + cbn. unfold passed_obj. destruct (objs_of P); [reflexivity|]. cbn in Hb. rewrite app_length in Hb. cbn in Hb.
      apply Nat.leb_le in Hb. lia.
    + apply IH; try assumption.
      * rewrite objs_of_app, <- app_assoc. exact Hb.
      * intros m Hm. rewrite passed_in_app, (Fi m Hm). reflexivity.
      * intros m Hm. rewrite passed_out_app, (Fo m Hm). reflexivity.
Qed.
Lemma call_ok_fresh c : call_ok c = true -> call_fresh c = true.
Proof.
  unfold call_ok, call_fresh. intro H. apply andb_true_iff in H. destruct H as [H H3]. apply andb_true_iff in H. destruct H as [H1 H2].
  apply fresh_list_ok; try assumption; reflexivity.
Qed.

(* ------------------------------------------------------------------ the prefix of a judged scenario *)
Definition exp_op (e : sexp) : op := OExpect (sx_n e) (sx_f e) (sx_ps e) (sx_outs e) (sx_obj e) (sx_ret e) false.
Definition canon_ops (k : canon) : list op :=
  (if k_strict k then [OStrict] else []) ++ (if k_ignore k then [OIgnoreOtherCalls] else []) ++
  map exp_op (k_exps k) ++ map call_op (k_calls k) ++ [OCheck].

Lemma parse_calls_inv : forall ops cs, parse_calls ops = Some cs -> ops = map call_op cs ++ [OCheck].
Proof.
  induction ops as [|o r IH]; intros cs H; [discriminate|]. destruct o; cbn in H; try discriminate.
  - destruct (parse_calls r) as [l|] eqn:E; [|discriminate]. inversion H; subst. cbn. rewrite (IH l eq_refl). reflexivity.
  - destruct r; [|discriminate]. inversion H; subst. reflexivity.
Qed.
Lemma parse_exps_inv : forall ops es cs, parse_exps ops = Some (es, cs) -> ops = map exp_op es ++ map call_op cs ++ [OCheck].
Proof.
  induction ops as [|o r IH]; intros es cs H; [discriminate|].
  destruct o as [n f ps outs obj ret ign| | | | | | | | |];
    try (match type of H with parse_exps (?o :: r) = _ =>
           change (match parse_calls (o :: r) with Some cs0 => Some ([], cs0) | None => None end = Some (es, cs)) in H end;
         destruct (parse_calls _) as [l|] eqn:E in H; [|discriminate]; inversion H; subst; cbn [map app]; apply (parse_calls_inv _ _ E)).
  destruct ign.
  - change (match parse_calls (OExpect n f ps outs obj ret true :: r) with Some cs0 => Some ([], cs0) | None => None end = Some (es, cs)) in H.
    cbn in H. discriminate.
  - cbn in H. destruct (parse_exps r) as [[es' cs']|] eqn:E; [|discriminate]. inversion H; subst. cbn. rewrite (IH es' cs eq_refl). reflexivity.
Qed.
Definition parse3 (st ig : bool) (ops : list op) : option canon :=
  match parse_exps ops with
  | Some (es, cs) => Some {| k_strict := st; k_ignore := ig; k_exps := es; k_calls := cs |}
  | None => None
  end.
Definition parse2 (st : bool) (ops : list op) : option canon :=
  match ops with OIgnoreOtherCalls :: r => parse3 st true r | _ => parse3 st false ops end.
Lemma parse_eq ops : parse ops = match ops with OStrict :: r => parse2 true r | _ => parse2 false ops end.
Proof. destruct ops as [|[] r]; try reflexivity; destruct r as [|[] r']; reflexivity. Qed.
Lemma parse3_inv st ig ops k : parse3 st ig ops = Some k ->
  k_strict k = st /\ k_ignore k = ig /\ ops = map exp_op (k_exps k) ++ map call_op (k_calls k) ++ [OCheck].
Proof.
  unfold parse3. destruct (parse_exps ops) as [[es cs]|] eqn:E; [|discriminate]. intro H. inversion H; subst. cbn.
  split; [reflexivity|]. split; [reflexivity|]. apply (parse_exps_inv _ _ _ E).
Qed.
Lemma parse2_inv st ops k : parse2 st ops = Some k ->
  k_strict k = st /\ ops = (if k_ignore k then [OIgnoreOtherCalls] else []) ++ map exp_op (k_exps k) ++ map call_op (k_calls k) ++ [OCheck].
Proof.
  unfold parse2. intro H.
  destruct ops as [|o r]; [destruct (parse3_inv _ _ _ _ H) as [A [B C]]; rewrite B; auto|].
  destruct o; try (destruct (parse3_inv _ _ _ _ H) as [A [B C]]; rewrite B; auto).
  cbn [app]. rewrite <- C. auto.
Qed.
Lemma parse_inv ops k : parse ops = Some k -> ops = canon_ops k.
Proof.
  rewrite parse_eq. unfold canon_ops. intro H.
  destruct ops as [|o r]; [destruct (parse2_inv _ _ _ H) as [A B]; rewrite A; exact B|].
  destruct o; try (destruct (parse2_inv _ _ _ H) as [A B]; rewrite A; exact B).
  destruct (parse2_inv _ _ _ H) as [A B]. rewrite A. cbn [app]. rewrite <- B. reflexivity.
Qed.

Definition expect_s (m : mock) (e : sexp) : mock := expect m (sx_n e) (sx_f e) (sx_ps e) (sx_outs e) (sx_obj e) (sx_ret e) false.
Lemma run_expects : forall es m i rest a,
  run_from true m i (map exp_op es ++ rest) a = run_from true (fold_left expect_s es m) (i + N.of_nat (length es)) rest a.
Proof.
  induction es as [|e r IH]; intros m i rest a.
  - cbn. rewrite N.add_0_r. reflexivity.
  - cbn [map app run_from step exp_op]. rewrite IH. cbn [fold_left length]. f_equal; [lia|]. destruct a; reflexivity.
Qed.
Lemma pl_mk ps : map (fun p => (p_name p, p_val p)) (map (fun q : name * pv => {| p_name := fst q; p_val := snd q; p_flag := false |}) ps) = ps.
Proof. rewrite map_map. cbn. induction ps as [|[a b] r IH]; cbn; [reflexivity|]. rewrite IH. reflexivity. Qed.
Lemma ol_mk os : map (fun p => (q_name p, q_bytes p)) (map (fun q : name * list N => {| q_name := fst q; q_bytes := snd q; q_flag := false |}) os) = os.
Proof. rewrite map_map. cbn. induction os as [|[a b] r IH]; cbn; [reflexivity|]. rewrite IH. reflexivity. Qed.
Lemma abs_mk e lo hi : abs (mk_exp (sx_n e) (sx_f e) (sx_ps e) (sx_outs e) (sx_obj e) (sx_ret e) false lo hi) =
  {| x_e := e; x_left := sx_n e; x_done := 0; x_lo := lo; x_hi := hi; x_ooo := false |}.
Proof.
  unfold abs, sx_of, mk_exp, pl, ol. cbn. rewrite pl_mk, ol_mk, N.sub_0_r. destruct e; reflexivity.
Qed.
Lemma expects_state : forall es m from,
  m_enabled m = true -> (m_strict m = true -> from = m_eorder m) -> Forall wfE (m_exps m) ->
  let m' := fold_left expect_s es m in
  map abs (m_exps m') = map abs (m_exps m) ++ init_m (m_strict m) from es /\ Forall wfE (m_exps m') /\
  m_last m' = m_last m /\ m_ignore m' = m_ignore m /\ m_aorder m' = m_aorder m /\ m_enabled m' = true /\ m_strict m' = m_strict m /\
  (m_strict m = true -> m_eorder m' = fold_left (fun a e => a + sx_n e) es from).
Proof.
  induction es as [|e r IH]; intros m from Hen Hf Hw; cbn zeta.
  - cbn. rewrite app_nil_r. repeat split; auto. intro H. symmetry. apply Hf. exact H.
  - cbn [fold_left]. specialize (IH (expect_s m e) (from + sx_n e)).
    assert (EX : expect_s m e = {| m_exps := m_exps m ++ [mk_exp (sx_n e) (sx_f e) (sx_ps e) (sx_outs e) (sx_obj e) (sx_ret e) false
                                     (if m_strict m then m_eorder m + 1 else 0) (if m_strict m then m_eorder m + sx_n e else 0)];
                                   m_aorder := m_aorder m; m_eorder := if m_strict m then m_eorder m + sx_n e else m_eorder m;
                                   m_strict := m_strict m; m_ignore := m_ignore m; m_enabled := m_enabled m; m_last := m_last m |}).
    { unfold expect_s, expect. rewrite Hen. reflexivity. }
    assert (S1 : m_strict (expect_s m e) = m_strict m) by (rewrite EX; reflexivity).
    destruct IH as [A [B [C [D [E [F [G H]]]]]]].
    + rewrite EX. exact Hen.
    + rewrite S1. intro Hs. rewrite EX. cbn. rewrite Hs. rewrite (Hf Hs). reflexivity.
    + rewrite EX. cbn. apply Forall_app. split; [exact Hw|]. constructor; [|constructor]. split; [reflexivity|]. cbn. lia.
    + rewrite A. split.
      * rewrite S1. rewrite EX. cbn [m_exps]. rewrite map_app, <- app_assoc. f_equal. cbn [map app init_m]. f_equal.
        rewrite abs_mk. destruct (m_strict m) eqn:Hs; [rewrite (Hf eq_refl)|]; reflexivity.
      * split; [exact B|]. split; [rewrite C, EX; reflexivity|]. split; [rewrite D, EX; reflexivity|]. split; [rewrite E, EX; reflexivity|].
        split; [exact F|]. split; [rewrite G; exact S1|]. intro Hs. rewrite S1 in H. apply (H Hs).
Qed.
Lemma fnames_init st from es : fnames (init_m st from es) = map sx_f es.
Proof. revert from. induction es as [|e r IH]; intro from; cbn; [reflexivity|]. unfold fnames in *. rewrite IH. reflexivity. Qed.
Lemma xe_init st from es : map x_e (init_m st from es) = es.
Proof. revert from. induction es as [|e r IH]; intro from; cbn; [reflexivity|]. rewrite IH. reflexivity. Qed.

Lemma m_calls_ext ign k1 k2 : (forall f, k1 f = k2 f) -> forall cs st i a,
  m_calls ign k1 st i cs a = m_calls ign k2 st i cs a.
Proof.
  intro H. induction cs as [|c r IH]; intros st i a; cbn; [reflexivity|].
  unfold m_call. rewrite H. destruct (s_pend st); [reflexivity|]. destruct (ign && negb (k2 (sc_f c))); [apply IH|].
  destruct (consume _ _ _ _) as [[xs' v]|]; [apply IH|].
  destruct (deviation _ _ _) as [d df]. destruct (df && negb (sc_want c)); [apply IH|reflexivity].
Qed.

(* obj_uniform of the scenario: per function every expectation names an object or none does *)
Lemma obj_uniform_unifM st from es cs : obj_uniform es cs = true -> unifM (init_m st from es).
Proof.
  intros H x y Hx Hy Hf.
  assert (G : forall z, In z (init_m st from es) -> In (x_e z) es).
  { intros z Hz. apply (in_map x_e) in Hz. rewrite xe_init in Hz. exact Hz. }
  pose proof (G x Hx) as Ex. pose proof (G y Hy) as Ey. unfold obj_uniform in H. rewrite forallb_forall in H.
  destruct (sx_obj (x_e x)) eqn:Ox; destruct (sx_obj (x_e y)) eqn:Oy; try reflexivity; exfalso.
  - specialize (H (x_e x) Ex). rewrite Ox in H. rewrite forallb_forall in H. specialize (H (x_e y) Ey).
    rewrite Oy, <- Hf, N.eqb_refl in H. discriminate H.
  - specialize (H (x_e y) Ey). rewrite Oy in H. rewrite forallb_forall in H. specialize (H (x_e x) Ex).
    rewrite Ox, Hf, N.eqb_refl in H. discriminate H.
Qed.

(* L refines M on every judged scenario: same failing operation, same diagnosis, same returned values, output buffers begin
   with the bytes of the consumed expectation *)
Theorem L_refines_M ops k :
  parse ops = Some k -> judged k = true ->
  proj (run ops) = lift (expected k) /\ outs_ok (expected_outs k) (o_outs (run ops)) = true.
Proof.
  intros Hp Hj. rewrite (parse_inv _ _ Hp). unfold run, run_gen, canon_ops, expected, expected_outs, expected_res.
  set (m1 := if k_strict k then set_strict mock0 else mock0).
  set (m2 := if k_ignore k then set_ignore m1 else m1).
  set (i0 := (if k_strict k then 1 else 0) + (if k_ignore k then 1 else 0)).
  assert (E1 : forall rest, run_from true mock0 0 ((if k_strict k then [OStrict] else []) ++ (if k_ignore k then [OIgnoreOtherCalls] else []) ++ rest) acc0
                            = run_from true m2 i0 rest acc0).
  { intro rest. unfold m2, m1, i0. destruct (k_strict k), (k_ignore k); reflexivity. }
  rewrite E1, run_expects.
  assert (M2 : m_exps m2 = [] /\ m_strict m2 = k_strict k /\ m_ignore m2 = k_ignore k /\ m_aorder m2 = 0 /\ m_eorder m2 = 0 /\ m_last m2 = None /\ m_enabled m2 = true).
  { unfold m2, m1. destruct (k_strict k), (k_ignore k); cbn; auto 10. }
  destruct M2 as [X1 [X2 [X3 [X4 [X5 [X6 X7]]]]]].
  destruct (expects_state (k_exps k) m2 0 X7) as [A [B [C [D [E [F _]]]]]].
  { intros _. symmetry. exact X5. }
  { rewrite X1. constructor. }
  rewrite X1, X2 in A. cbn [map app] in A.
  rewrite (m_calls_ext (k_ignore k) _ (known (map sx_f (k_exps k)))).
  2: { intro f. unfold known, knows. rewrite existsb_map. reflexivity. }
  replace ((if k_strict k then 1 else 0) + (if k_ignore k then 1 else 0) + N.of_nat (length (k_exps k))) with (i0 + N.of_nat (length (k_exps k))) by reflexivity.
  unfold judged in Hj. apply andb_true_iff in Hj. destruct Hj as [Hj1 Hj2].
  apply (sim_calls (k_ignore k) (map sx_f (k_exps k)) (k_calls k) _ (mst0 (k_strict k) (k_exps k))).
  - apply R_idle; cbn [mst0 s_order s_pend s_xs]; try congruence. apply fnames_init.
  - apply (obj_uniform_unifM _ _ _ _ Hj2).
  - apply forallb_forall. intros c Hc. apply call_ok_fresh. rewrite forallb_forall in Hj1. apply Hj1. exact Hc.
  - split; [reflexivity|constructor].
Qed.
