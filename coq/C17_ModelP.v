(* C17, the process level -- SEVERAL runner invocations and registry runs in ONE process.  What a run leaves behind in
   process-wide switches is state carried from run to run:
     UtestShell::rethrowExceptions_        (CommandLineTestRunner::initializeTestRun SETS it to "not -e" on every run;
                                            UtestShell::setRethrowExceptions(b) is the direct API)
     UtestShell::currentTestTerminator_    (-f: UtestShell::setCrashOnFail(), only ever switched on by the runner;
                                            restoreDefaultTestTerminator() is the direct API)
     UtestShell::currentTest_ / testResult_ (saved and put back around every test by runOneTestInCurrentProcess -- unless an
                                            exception leaves the test)
   and, per registry, TestRegistry::runInSeperateProcess_ (-p: only ever switched on).
   A scripted test may now THROW (std::exception or an int), which is not the same as failing: Utest::run catches what setup /
   body / teardown throw, records a failure and -- if rethrowExceptions_ is set -- throws it on; runOneTestInCurrentProcess
   then destroys the test object and lets the exception go: no post actions, the statics stay, the exception leaves
   TestRegistry::runAllTests and CommandLineTestRunner::runAllTestsMain.
   The registry / chain / pointer-table level is C17_Model.v, used unchanged.  No proofs in this file. *)
From Coq Require Import NArith Arith Bool List.
From CppUVerif Require Import gen.Gen_Common C17_Model.
Import ListNotations.

(* ---------------------------------------------------------------- tests whose statements may throw *)
Inductive ystmt :=
| YX (x : xstmt)                 (* a pointer statement or an action on the registry, as before *)
| YThrow (std : bool).           (* throw std::runtime_error(..) (true) / throw 42 (false) *)
Record ytest := { y_setup : list ystmt; y_body : list ystmt; y_teardown : list ystmt }.

(* what the test is when exceptions are caught (not rethrown): the throw is a statement that leaves its phase and fails the test *)
Definition lower_stmt (y : ystmt) : xstmt := match y with YX x => x | YThrow _ => XS SAbort end.
Definition lower (t : ytest) : xtest :=
  {| x_setup := map lower_stmt (y_setup t); x_body := map lower_stmt (y_body t); x_teardown := map lower_stmt (y_teardown t) |}.
Definition is_throw (y : ystmt) : bool := match y with YThrow _ => true | YX _ => false end.
Definition y_all (t : ytest) : list ystmt := y_setup t ++ y_body t ++ y_teardown t.
Definition has_throw (t : ytest) : bool := existsb is_throw (y_all t).
Definition is_yact (y : ystmt) : bool := match y with YX (XA _) => true | _ => false end.
Definition has_acts (t : ytest) : bool := existsb is_yact (y_all t).

Inductive outcome := Done | LeftPhase | Thrown.
Definition is_done (o : outcome) : bool := match o with Done => true | _ => false end.
Definition is_thrown (o : outcome) : bool := match o with Thrown => true | _ => false end.

(* one phase: like xexec, but a throw is told apart from a failure *)
Fixpoint yexec (st : state) (ss : list ystmt) : state * outcome :=
  match ss with
  | [] => (st, Done)
  | YX (XS s) :: r => match exec_stmt (s_mem st) (s_tbl st) s with
                      | (m1, tb1, true) => yexec (set_mt st m1 tb1) r
                      | (m1, tb1, false) => (set_mt st m1 tb1, LeftPhase)
                      end
  | YX (XA a) :: r => yexec (do_act st a) r
  | YThrow _ :: r => (st, Thrown)
  end.

(* Utest::run with rethrowExceptions_ = rt: an exception out of setup or body is caught, a failure is recorded, and with rt it is
   thrown on at once -- teardown is not run; the same for teardown.  -> (state, failed, the exception left Utest::run) *)
Definition yexec_test (rt : bool) (st : state) (t : ytest) : state * bool * bool :=
  match yexec st (y_setup t) with
  | (st2, o1) =>
    if rt && is_thrown o1 then (st2, true, true) else
    match (if is_done o1 then yexec st2 (y_body t) else (st2, Done)) with
    | (st3, o2) =>
      if rt && is_thrown o2 then (st3, true, true) else
      match yexec st3 (y_teardown t) with
      | (st4, o3) => (st4, negb (is_done o1 && is_done o2 && is_done o3), rt && is_thrown o3)
      end
    end
  end.

(* UtestShell::runOneTestInCurrentProcess: pre actions; test; [catch (...) { destroyTest; throw; }]; post actions.
   -> (state, what the harness sees of that test, the exception left the function).  If it did, the post walk has not happened:
   nothing is restored, no plugin has seen its post action. *)
Definition run_ytest (rt : bool) (st0 : state) (t : ytest) : state * item * bool :=
  let st := {| s_mem := s_mem st0; s_tbl := s_tbl st0; s_reg := s_reg st0; s_T := [] |} in
  let sn := s_chain st in
  match walk false sn st [] with
  | (st1, pre) =>
    match yexec_test rt st1 t with
    | (st4, failed, true) => (st4, ITest true (filter (unnamed (s_T st4)) pre) [] (s_mem st4), true)
    | (st4, failed, false) =>
      match walk true (rev sn) st4 [] with
      | (st5, post) =>
        (st5, ITest failed (filter (unnamed (s_T st5)) pre) (filter (unnamed (s_T st5)) post) (s_mem st5), false)
      end
    end
  end.

(* PlatformSpecificRunTestInASeperateProcess: fork; the child does runOneTestInCurrentProcess and _exit(failed); the parent waits
   and records a failure if the child failed or was killed (an exception that leaves the test in the child ends the child).
   The parent keeps ITS registry and ITS pointer table; the harness's pool of pointers and its event log live in memory shared
   with the child, so what the child's test and plugins did to them is seen. *)
Definition parent_view (st st1 : state) : state :=
  {| s_mem := s_mem st1; s_tbl := s_tbl st; s_reg := s_reg st; s_T := s_T st1 |}.
Definition run_ytest_sep (rt : bool) (st : state) (t : ytest) : state * item * bool :=
  match run_ytest rt st t with
  | (st1, it, _) => (parent_view st st1, it, false)
  end.

(* TestRegistry::runAllTests.  An exception that leaves a test leaves the loop: the remaining tests are not run *)
Fixpoint run_ytests (rt sep : bool) (st : state) (ts : list ytest) : state * list item * bool :=
  match ts with
  | [] => (st, [], false)
  | t :: r =>
    match (if sep then run_ytest_sep rt st t else run_ytest rt st t) with
    | (st1, it, true) => (st1, [], true)
    | (st1, it, false) => match run_ytests rt sep st1 r with (st2, its, e) => (st2, it :: its, e) end
    end
  end.

(* ---------------------------------------------------------------- the process *)
Record globals := { g_rethrow : bool;      (* UtestShell::rethrowExceptions_ *)
                    g_crash : bool;        (* the current test terminators are the crashing ones *)
                    g_stale : bool }.      (* currentTest_ / testResult_ were left pointing at a test that is over *)
Definition init_globals : globals := {| g_rethrow := false; g_crash := false; g_stale := false |}.

(* the command line of one runner invocation: -e, -f, -p, -v / -vv (0 | 1 | 2), -c, -r<rep> *)
Record cmdline := { cl_e : bool; cl_f : bool; cl_p : bool; cl_v : nat; cl_c : bool; cl_rep : nat }.

Record pstate := { p_g : globals;
                   p_sep : bool;           (* TestRegistry::runInSeperateProcess_ of the session's registry *)
                   p_st : state;
                   p_dead : bool }.        (* an exception has left a run: the session is over (the harness stops there) *)

Inductive pitem :=
| PI (i : item)
| PEscaped.                      (* an exception left runAllTests / runAllTestsMain *)

Inductive pop :=
| PReg (o : op)                            (* install / acting plugin / enable / disable / remove / reset / reinstall, as before *)
| PTest (t : ytest)                        (* one test run through the registry: TestRegistry::runAllTests *)
| PRun (ts : list ytest)                   (* one TestRegistry::runAllTests over several tests, then the chain is read *)
| PRunner (cl : cmdline) (ts : list ytest) (* CommandLineTestRunner::runAllTestsMain with that command line, then the chain is read *)
| PRethrow (b : bool)                      (* UtestShell::setRethrowExceptions(b) *)
| PCrashOnFail (b : bool).                 (* UtestShell::setCrashOnFail() / UtestShell::restoreDefaultTestTerminator() *)

Definition yreps (rep : nat) (ts : list ytest) : list ytest := concat (repeat ts rep).

(* CommandLineTestRunner::initializeTestRun:
     if (arguments_->runTestsInSeperateProcess()) registry_->setRunTestsInSeperateProcess();
     if (arguments_->isCrashingOnFail()) UtestShell::setCrashOnFail();
     UtestShell::setRethrowExceptions( arguments_->isRethrowingExceptions() );        -- SET, to "not -e", whatever it was *)
Definition runner_globals (cl : cmdline) (g : globals) : globals :=
  {| g_rethrow := negb (cl_e cl); g_crash := g_crash g || cl_f cl; g_stale := g_stale g |}.
(* the variant a red team proposed (written like the neighbouring `if (flag) set` lines): only ever switched ON *)
Definition runner_globals_only_on (cl : cmdline) (g : globals) : globals :=
  {| g_rethrow := g_rethrow g || negb (cl_e cl); g_crash := g_crash g || cl_f cl; g_stale := g_stale g |}.

Definition escaped_globals (g : globals) : globals := {| g_rethrow := g_rethrow g; g_crash := g_crash g; g_stale := true |}.
Definition mkP (g : globals) (sep : bool) (st : state) (dead : bool) : pstate := {| p_g := g; p_sep := sep; p_st := st; p_dead := dead |}.

(* `rg` = what the runner does to the process-wide switches (runner_globals in the model of the code) *)
Definition pstep_with (rg : cmdline -> globals -> globals) (P : pstate) (o : pop) : pstate * list pitem :=
  if p_dead P then (P, []) else
  let g := p_g P in let st := p_st P in
  match o with
  | PReg o' => match step st o' with (st1, its) => (mkP g (p_sep P) st1 false, map PI its) end
  | PTest t =>
      match run_ytests (g_rethrow g) (p_sep P) st [t] with
      | (st1, its, true) => (mkP (escaped_globals g) (p_sep P) st1 true, map PI its ++ [PEscaped])
      | (st1, its, false) => (mkP g (p_sep P) st1 false, map PI its)
      end
  | PRun ts =>
      match run_ytests (g_rethrow g) (p_sep P) st ts with
      | (st1, its, true) => (mkP (escaped_globals g) (p_sep P) st1 true, map PI its ++ [PEscaped])
      | (st1, its, false) => (mkP g (p_sep P) st1 false, map PI (its ++ [IChain (read_chain (s_reg st1))]))
      end
  | PRunner cl ts =>
      (* SetPointerPlugin pPlugin(DEF_PLUGIN_SET_POINTER); installPlugin; parse; initializeTestRun; the repetitions;
         removePluginByName -- which an exception skips (and the plugin object on the runner's stack is gone) *)
      let g1 := rg cl g in
      let sep1 := p_sep P || cl_p cl in
      match run_ytests (g_rethrow g1) sep1 (install st (runner_plugin (s_next st))) (yreps (cl_rep cl) ts) with
      | (st1, its, true) => (mkP (escaped_globals g1) sep1 st1 true, map PI its ++ [PEscaped])
      | (st1, its, false) =>
          let st2 := do_act st1 (ARemove runner_name) in
          (mkP g1 sep1 st2 false, map PI (its ++ [IChain (read_chain (s_reg st2))]))
      end
  | PRethrow b => (mkP {| g_rethrow := b; g_crash := g_crash g; g_stale := g_stale g |} (p_sep P) st false, [])
  | PCrashOnFail b => (mkP {| g_rethrow := g_rethrow g; g_crash := b; g_stale := g_stale g |} (p_sep P) st false, [])
  end.
Definition pstep := pstep_with runner_globals.

Fixpoint prun_from_with (rg : cmdline -> globals -> globals) (P : pstate) (s : list pop) : list pitem :=
  match s with
  | [] => []
  | o :: r => snd (pstep_with rg P o) ++ prun_from_with rg (fst (pstep_with rg P o)) r
  end.
Fixpoint pexec_with (rg : cmdline -> globals -> globals) (P : pstate) (s : list pop) : pstate :=
  match s with
  | [] => P
  | o :: r => pexec_with rg (fst (pstep_with rg P o)) r
  end.
Definition prun_from := prun_from_with runner_globals.
Definition pexec := pexec_with runner_globals.
Definition init_pstate : pstate := mkP init_globals false init_state false.
Definition prun (s : list pop) : list pitem := prun_from init_pstate s.
Definition prun_only_on (s : list pop) : list pitem := prun_from_with runner_globals_only_on init_pstate s.

(* ---------------------------------------------------------------- spec (model-free) *)
(* The property speaks about every test of every run, whatever the command line of that run and whatever ran before it in the
   process: the session is judged as the session of the same registry operations, tests and runs with the command lines,
   the switch calls and the difference between throwing and failing ERASED (C17_Model.spec: per test the verdict, the pre log =
   enabled plugins head first, the post log = the exact reverse, every redirected pointer at its value before the test's first
   redirection; the chain after each run).  An exception that leaves a run is never what the property allows. *)
Definition lower_op (o : pop) : list op :=
  match o with
  | PReg o' => [o']
  | PTest t => [OTest (lower t)]
  | PRun ts => [ORun (map lower ts)]
  | PRunner cl ts => [ORunner (cl_rep cl) (map lower ts)]
  | PRethrow _ | PCrashOnFail _ => []
  end.
Definition lower_session (s : list pop) : list op := flat_map lower_op s.
Fixpoint plain_items (l : list pitem) : option (list item) :=
  match l with
  | [] => Some []
  | PI i :: r => match plain_items r with Some r' => Some (i :: r') | None => None end
  | PEscaped :: _ => None
  end.
Definition pspec (s : list pop) (o : list pitem) : bool :=
  match plain_items o with
  | Some l => spec (lower_session s) l
  | None => false
  end.

(* ---------------------------------------------------------------- valid scenarios *)
(* (1) the erased session is a valid one (C17_Model.valid).
   (2) PReg carries registry operations only (tests and runs have their own constructors here).
   (3) a test with a throw statement runs only where exceptions are certainly not rethrown: under a runner whose OWN command
       line has -e; in a registry run only if every switch event since the last setRethrowExceptions(false) (or since the
       start of the process) was a runner invocation with -e.  With rethrowing on, the exception is meant to leave the run.
   (4) in a session that uses -p anywhere, tests do not touch the registry and there are no acting plugins (what a forked
       test does to its copy of the registry is lost; the property does not say what the next test should see). *)
Definition reg_op (o : op) : bool := match o with OTest _ | ORun _ | ORunner _ _ => false | _ => true end.
Definition shape_ok (o : pop) : bool := match o with PReg o' => reg_op o' | _ => true end.
Fixpoint throws_ok (coff : bool) (s : list pop) : bool :=
  match s with
  | [] => true
  | PReg _ :: r => throws_ok coff r
  | PTest t :: r => (coff || negb (has_throw t)) && throws_ok coff r
  | PRun ts :: r => (coff || negb (existsb has_throw ts)) && throws_ok coff r
  | PRunner cl ts :: r => (cl_e cl || negb (existsb has_throw ts)) && throws_ok (coff && cl_e cl) r
  | PRethrow b :: r => throws_ok (negb b) r
  | PCrashOnFail _ :: r => throws_ok coff r
  end.
Definition uses_sep (o : pop) : bool := match o with PRunner cl _ => cl_p cl | _ => false end.
Definition quiet_op (o : pop) : bool :=
  match o with
  | PReg (OActor _ _ _) => false
  | PTest t => negb (has_acts t)
  | PRun ts | PRunner _ ts => negb (existsb has_acts ts)
  | _ => true
  end.
Definition sep_ok (s : list pop) : bool := negb (existsb uses_sep s) || forallb quiet_op s.
Definition pvalid (s : list pop) : bool :=
  valid (lower_session s) && forallb shape_ok s && throws_ok true s && sep_ok s.
