From Coq Require Import NArith Bool List.
From CppUVerif Require Import C05_Model.
Theorem C05_placeholder : True. Proof. exact I. Qed.
Print Assumptions C05_placeholder.
