(* C05 -- Tracked allocations return sound blocks for every size, or fail cleanly.
   Only statements; every proof is `exact <lemma>` into C05_Proofs.v / C05_History.v / C05_Theorems.v.
   Model (C05_Model.v): allocMemory / reallocMemory / deallocMemory with the size arithmetic modulo W = 2^64, guard bytes G c
   (3, or 0 in the build without them), records inline or in their own region, cpputest_calloc/strdup/strndup, operator new
   variants; the underlying allocator is an oracle (a list of failing call indices; every successful call yields a fresh
   region named by its call index).  `fixed` = the code as repaired (D2 D3 D4 D5 D20).
   inv c idx s = no out-of-bounds access happened, ids unique and below idx, the table tracks exactly the live blocks, all
   regions of live blocks (blocks and separate records) distinct and older than the call counter, every block laid out
   soundly with as many content bytes as its size.
   Scenarios with memory accounting on ([sc_wrap], C05_Wrapper.v): the AccountingTestMemoryAllocator wrappers are transparent
   (same pointer, same size) and fail cleanly, so [run] is that of the scenario without wrappers; [spec] demands the same of the
   observation except for the sizes of the underlying calls; a refused request for a statistics node of the accountant does not
   have to fail the allocation, and statistics nodes may outlive a failed request.  [run] does not predict the wrappers' own
   underlying requests, so with fault indices AND wrappers the oracle judges the implementation's observation alone. *)
From Coq Require Import NArith List Bool Permutation.
From CppUVerif Require Import gen.Gen_Common gen.Gen_C05 lib.Str C05_Model C05_Proofs C05_History C05_Theorems C05_Wrapper.
From CppUVerif Require C05_LeafTie.
Import ListNotations.
Local Open Scope N_scope.

(* every valid scenario (any sizes below 2^64, any fault points, both builds, with or without the accounting wrappers): the
   model's observation passes the oracle; nothing is left allocated at the end *)
Theorem C05_run_meets_spec : forall sc, valid sc = true -> spec sc (run sc) = true.
Proof. exact run_meets_spec. Qed.
Print Assumptions C05_run_meets_spec.

(* sizes with n + G + 8 + record < 2^64: the request does not wrap; the record offset is the next multiple of 8 strictly above
   n + G; user bytes [0,n), guard [n,n+G), record [node,node+record) lie in this order inside [0,request); usable >= n *)
Theorem C05_layout_sound : forall c sep n,
  valid_cfg c = true -> n + G c + 8 + node_size c < W -> (sep = false -> guard_on c = true) ->
  let req := request c sep n in let node := with_guard c n in
  req < W /\ (if sep then req = node else req = node + node_size c) /\
  (guard_on c = true -> node = n + G c + (8 - (n + G c) mod 8) /\ node mod 8 = 0) /\ (guard_on c = false -> node = n) /\
  n + G c <= node /\ node <= n + G c + 8 /\ n + G c <= req /\ n <= req /\ (sep = false -> node + node_size c <= req) /\
  layout_fine c sep n req = true.
Proof. exact layout_sound. Qed.
Print Assumptions C05_layout_sound.

(* all histories: no out-of-bounds access ever happens and every live block has a sound layout: region below 2^64, user bytes
   and guard before the (8-aligned) inline record, record inside the region, as many content bytes as requested *)
Theorem C05_blocks_sound : forall c f ops, valid_cfg c = true -> forallb valid_op ops = true ->
  let s := fst (steps fixed c f st0 0 ops) in
  s_err s = false /\
  Forall (fun b => block_layout_ok c b /\ N.of_nat (length (b_data b)) = b_size b /\ b_size b <= b_req b) (s_blocks s).
Proof. exact blocks_sound. Qed.
Print Assumptions C05_blocks_sound.

(* sizes that would wrap once the bookkeeping is added, and calloc products >= 2^64: NULL, state untouched, no underlying call *)
Theorem C05_overflow_rejected : forall c f s idx, valid_cfg c = true ->
  (forall fam ws n data, W <= n + G c + 8 + node_size c -> alloc_mem fixed c f s idx fam ws n data = (ANull, s, [])) /\
  (forall ob n, W <= n + G c + 8 + node_size c -> realloc_mem fixed c f s idx ob n = (ANull, s, [])) /\
  (forall num size, W <= num * size -> calloc_mem fixed c f s idx num size = (ANull, s, [])) /\
  (forall num size, W <= num * size + G c + 8 + node_size c -> calloc_mem fixed c f s idx num size = (ANull, s, [])).
Proof. exact overflow_rejected. Qed.
Print Assumptions C05_overflow_rejected.

(* the same at the entry points: NULL (bad_alloc for the throwing operator new), no call, nothing changed *)
Theorem C05_overflow_rejected_op : forall c f s idx o thr n, valid_cfg c = true -> op_request o = Some (thr, n) ->
  W <= n + G c + 8 + node_size c ->
  step fixed c f s idx o = (s, mk_oobs (if thr then K_BAD else K_NULL) [] 0 0 0 [] (total s) 0).
Proof. exact overflow_rejected_op. Qed.
Print Assumptions C05_overflow_rejected_op.

(* an underlying call refuses, at any point of any history, in any entry point (malloc, realloc, calloc, strdup, strndup, new,
   new[], nothrow): NULL -- bad_alloc exactly for the throwing new --, the same blocks, the same table up to order (every
   block, the one being reallocated included, still tracked), every region obtained meanwhile given back, invariant kept *)
Theorem C05_oom_clean : forall c f s idx o, valid_cfg c = true -> valid_op o = true -> inv c idx s ->
  let s' := fst (step fixed c f s idx o) in let ob := snd (step fixed c f s idx o) in
  any_failed (o_calls ob) = true ->
  o_kind ob = (if throws o then K_BAD else K_NULL) /\ s_blocks s' = s_blocks s /\ Permutation (s_table s') (s_table s) /\
  (forall b, In b (s_blocks s) -> In (b_id b) (s_table s')) /\
  balanced (o_calls ob) = true /\ o_total ob = total s /\ s_err s' = false /\ inv c (idx + 1) s'.
Proof. exact oom_clean. Qed.
Print Assumptions C05_oom_clean.

(* ... and NULL / bad_alloc never comes without such a cause *)
Theorem C05_null_has_cause : forall c f s idx o, valid_cfg c = true -> valid_op o = true -> inv c idx s ->
  let ob := snd (step fixed c f s idx o) in
  o_kind ob = K_NULL \/ o_kind ob = K_BAD ->
  any_failed (o_calls ob) = true \/ W <= op_size o + G c + 8 + node_size c.
Proof. exact null_has_cause. Qed.
Print Assumptions C05_null_has_cause.

(* the invariant holds after every history *)
Theorem C05_history_inv : forall c f ops, valid_cfg c = true -> forallb valid_op ops = true ->
  inv c (N.of_nat (length ops)) (fst (steps fixed c f st0 0 ops)).
Proof. exact history_inv. Qed.
Print Assumptions C05_history_inv.

(* all histories (fold over the operation list): if the regions the oracle handed out for the live blocks do not overlap at
   their addresses [base], then user areas (with guard bytes) of different live blocks are apart, records of different live
   blocks are apart, and every user area is apart from every record, its own included *)
Theorem C05_live_disjoint : forall base c f ops, valid_cfg c = true -> forallb valid_op ops = true ->
  let s := fst (fold_left (fun (a : st * N) o => (fst (step fixed c f (fst a) (snd a) o), snd a + 1)) ops (st0, 0)) in
  oracle_disjoint base c (s_blocks s) ->
  (forall b1 b2, In b1 (s_blocks s) -> In b2 (s_blocks s) -> b_id b1 <> b_id b2 ->
     apart (user_start base b1) (b_size b1 + G c) (user_start base b2) (b_size b2 + G c) /\
     apart (record_start base b1) (node_size c) (record_start base b2) (node_size c)) /\
  (forall b1 b2, In b1 (s_blocks s) -> In b2 (s_blocks s) ->
     apart (user_start base b1) (b_size b1 + G c) (record_start base b2) (node_size c)).
Proof. exact live_disjoint. Qed.
Print Assumptions C05_live_disjoint.

(* that fold reaches the state [run] works with *)
Theorem C05_fold_is_steps : forall c f ops s idx,
  fst (fold_left (fun (a : st * N) o => (fst (step fixed c f (fst a) (snd a) o), snd a + 1)) ops (s, idx)) = fst (steps fixed c f s idx ops).
Proof. exact fold_is_steps. Qed.
Print Assumptions C05_fold_is_steps.

(* realloc: the new block has n bytes and its first min(old,n) bytes are the old block's *)
Theorem C05_realloc_prefix : forall c f s idx b0 n b s' cs, valid_cfg c = true -> n < W -> N.of_nat (length (b_data b0)) = b_size b0 ->
  realloc_mem fixed c f s idx (Some b0) n = (ABlock b, s', cs) ->
  b_size b = n /\ N.of_nat (length (b_data b)) = n /\
  firstn (N.to_nat (N.min (b_size b0) n)) (b_data b) = firstn (N.to_nat (N.min (b_size b0) n)) (b_data b0).
Proof. exact realloc_prefix. Qed.
Print Assumptions C05_realloc_prefix.

(* calloc: a block is returned only for a product below 2^64, has exactly that many bytes, all zero *)
Theorem C05_calloc_zero : forall c f s idx num size b s' cs, valid_cfg c = true ->
  calloc_mem fixed c f s idx num size = (ABlock b, s', cs) ->
  num * size < W /\ b_size b = num * size /\ b_data b = repeat 0 (N.to_nat (num * size)) /\ num * size + G c <= b_req b.
Proof. exact calloc_zero. Qed.
Print Assumptions C05_calloc_zero.

(* strdup: exactly the bytes of the C string and its terminator, len + 1 bytes *)
Theorem C05_strdup_exact : forall c f s idx str b s' cs, valid_cfg c = true -> N.of_nat (length str) < 4294967296 ->
  strdup_mem fixed c f s idx str = (ABlock b, s', cs) ->
  b_data b = cut_nul str ++ [0] /\ b_size b = N.of_nat (length (cut_nul str)) + 1.
Proof. exact strdup_exact. Qed.
Print Assumptions C05_strdup_exact.

(* strndup: the first min(len,k) bytes of the string, terminated, exactly min(len,k) + 1 bytes *)
Theorem C05_strndup_exact : forall c f s idx str k b s' cs, valid_cfg c = true -> N.of_nat (length str) < 4294967296 ->
  strndup_mem fixed c f s idx str k = (ABlock b, s', cs) ->
  let m := N.min (N.of_nat (length (cut_nul str))) k in
  b_data b = firstn (N.to_nat m) (cut_nul str) ++ [0] /\ b_size b = m + 1.
Proof. exact strndup_exact. Qed.
Print Assumptions C05_strndup_exact.

(* the code as it was before the repairs (D2 wrapped request, D3 calloc product, D4 failed realloc drops the record, D5 strdup
   into NULL, D20 NULL record): each variant violates the oracle on a computed witness (corpus/C05/defects.scn) *)
Theorem C05_old_refuted :
  (valid witness_D2 = true /\ spec witness_D2 (run_v old_D2 witness_D2) = false) /\
  (valid witness_D3 = true /\ spec witness_D3 (run_v old_D3 witness_D3) = false) /\
  (valid witness_D4 = true /\ spec witness_D4 (run_v old_D4 witness_D4) = false) /\
  (valid witness_D5 = true /\ spec witness_D5 (run_v old_D5 witness_D5) = false) /\
  (valid witness_D20 = true /\ spec witness_D20 (run_v old_D20 witness_D20) = false).
Proof. exact old_refuted. Qed.
Print Assumptions C05_old_refuted.

(* the size arithmetic of the model IS the source (default build, guard bytes on): aligned / with_guard / fits equal the
   functions tools/cxx2coq.py regenerates from clang's AST of MemoryLeakDetector.cpp on every run (gen/Gen_Leaf.v) *)
Theorem C05_size_arithmetic_is_the_source : C05_LeafTie.C05_size_arithmetic_is_the_source_stmt.
Proof. exact C05_LeafTie.C05_size_arithmetic_is_the_source. Qed.
Print Assumptions C05_size_arithmetic_is_the_source.

(* ---- memory accounting on: AccountingTestMemoryAllocator between the entry points and the underlying allocator ---- *)
(* the wrapper (mirror of the repaired alloc_memory, its tracking list and the accountant's node requests) is transparent: a
   pointer it returns is the pointer the wrapped allocator returned for exactly the requested size -- same address, same
   alignment --, it asks for its node separately and pushes it, and whatever else it asks for is a statistics node *)
Theorem C05_wrapper_transparent : forall node_sz und k cl l size,
  let r := w_alloc node_sz und k cl l size in
  r_ptr r <> 0 ->
  r_ptr r = und k size /\ r_ptr r mod 16 = und k size mod 16 /\ und (k + 1) node_sz <> 0 /\
  r_list r = {| wn_addr := und (k + 1) node_sz; wn_mem := r_ptr r; wn_size := size |} :: l /\
  exists cs, r_calls r = [UAlloc size (r_ptr r); UAlloc node_sz (und (k + 1) node_sz)] ++ cs /\ Forall stat_request cs.
Proof. exact wrapper_transparent. Qed.
Print Assumptions C05_wrapper_transparent.

(* the wrapped allocator refuses the block or the tracking node: alloc_memory returns NULL, tracking list and statistics are
   unchanged, and no block of the wrapped allocator stays allocated (the block is given back when only the node was refused) *)
Theorem C05_wrapper_alloc_fails_cleanly : forall node_sz und k cl l size,
  und k size = 0 \/ und (k + 1) node_sz = 0 ->
  let r := w_alloc node_sz und k cl l size in
  r_ptr r = 0 /\ r_list r = l /\ r_cl r = cl /\ held (r_calls r) [] = [].
Proof. exact wrapper_alloc_fails_cleanly. Qed.
Print Assumptions C05_wrapper_alloc_fails_cleanly.

(* it refuses only the accountant's statistics node: the caller gets the block, the size just has no statistics *)
Theorem C05_wrapper_stat_refused : forall node_sz und k cl l size,
  und k size <> 0 -> und (k + 1) node_sz <> 0 -> mem size cl = false -> und (k + 2) STAT = 0 ->
  let r := w_alloc node_sz und k cl l size in
  r_ptr r = und k size /\ r_cl r = cl /\ r_list r = {| wn_addr := und (k + 1) node_sz; wn_mem := und k size; wn_size := size |} :: l.
Proof. exact wrapper_stat_refused. Qed.
Print Assumptions C05_wrapper_stat_refused.

(* the code as it was (statistics first, neither node tested, a NULL block recorded): "whichever of the three underlying requests
   of alloc_memory(24) is refused, NULL comes back, nothing is recorded, nothing stays allocated" is false; witness: the third
   request refused = `1 40 1 2 :wrap :m 10`, where the unrepaired code writes to the NULL tracking node *)
Theorem C05_wrapper_fault_old_refuted : ~ wrapper_fault_old_stmt.
Proof. exact wrapper_fault_old_refuted. Qed.
Print Assumptions C05_wrapper_fault_old_refuted.

(* free_memory after alloc_memory: the tracking list is as before, exactly the two pointers obtained are given back, the block as
   the pointer the caller holds; in between at most a statistics node is asked for *)
Theorem C05_wrapper_alloc_free : forall node_sz und k cl l size,
  let r := w_alloc node_sz und k cl l size in
  r_ptr r <> 0 ->
  exists k' cl' cs, w_free und (r_k r) (r_cl r) (r_list r) (r_ptr r) = (k', cl', l, UFree (und (k + 1) node_sz) size :: cs ++ [UFree (r_ptr r) size]) /\
                    Forall stat_request cs.
Proof. exact wrapper_alloc_free. Qed.
Print Assumptions C05_wrapper_alloc_free.

(* the variant with the 24-byte node in front of the block (one request of 24 + size, returns block + 24): wherever the wrapped
   allocator returns 16-aligned memory, the block is 8 mod 16 -- not suitably aligned *)
Theorem C05_wrapper_prefix_refuted : forall und k l size,
  und k (NODE + size) <> 0 -> und k (NODE + size) mod 16 = 0 ->
  fst (fst (w_alloc_prefix NODE und k l size)) mod 16 = 8.
Proof. exact wrapper_prefix_refuted. Qed.
Print Assumptions C05_wrapper_prefix_refuted.

(* the model's observation of a scenario does not depend on the wrappers being installed (it only echoes the flag) *)
Theorem C05_run_wrap_independent : forall v b sc, run_v v (set_wrap b sc) = obs_set_wrap b (run_v v sc).
Proof. exact run_wrap_independent. Qed.
Print Assumptions C05_run_wrap_independent.

(* the oracle with wrappers demands nothing it does not demand without them ... *)
Theorem C05_spec_wrap_monotone : forall sc o, sc_wrap sc = false -> spec sc o = true -> spec (set_wrap true sc) (obs_set_wrap true o) = true.
Proof. exact spec_wrap_monotone. Qed.
Print Assumptions C05_spec_wrap_monotone.

(* ... of the underlying call logs it reads only whether a call other than a request for a statistics node failed, whether such a
   request failed, and whether everything but statistics nodes was given back ([canon]: the projection applied to both
   observations of a wrapper scenario before they are compared) ... *)
Theorem C05_spec_wrap_reads_failure_only : forall sc o, sc_wrap sc = true -> spec sc (canon o) = spec sc o.
Proof. exact spec_wrap_reads_failure_only. Qed.
Print Assumptions C05_spec_wrap_reads_failure_only.

(* ... and, wrappers or not, an accepted observation has every returned pointer 0 mod 16, overlapping no other live block or
   record, user bytes + guard and record laid out inside the region(s) for some size below 2^64, no report, no failed call (with
   the wrappers: none but requests for statistics nodes); every NULL / bad_alloc without a report and with everything obtained given
   back (statistics nodes apart with the wrappers); the flag echoed; at the end nothing tracked, no report, and nothing left
   allocated (with the wrappers: at most one region per reallocation of a live block, the moved block's stale tracking node) *)
Theorem C05_spec_demands : forall sc o, spec sc o = true ->
  ob_wrap o = sc_wrap sc /\ Forall (fun ob => ptr_sound (sc_wrap sc) (sc_cfg sc) ob /\ null_clean (sc_wrap sc) ob) (ob_ops o) /\
  ob_end_total o = 0 /\ ob_end_rep o = 0 /\ (sc_wrap sc = false -> ob_end_leak o = 0) /\ ob_end_leak o <= moved (sc_ops sc) (ob_ops o).
Proof. exact spec_demands. Qed.
Print Assumptions C05_spec_demands.

(* --------------------------------------------------------------------------------------------------------------
   SOURCE TIE (C wrappers): cpputest_calloc_location / cpputest_strdup_location / cpputest_strndup_location of src/CppUTest/TestHarness_c.cpp as translated on every run into gen/Gen_LoopC15.v -- the overflow test of calloc is the model's, a refused product asks nothing of the allocator, strdup / strndup copy exactly the string; the link_ lemmas state that C05_Model's calloc_mem / strlen / strdup bytes are the translated functions' results
   -------------------------------------------------------------------------------------------------------------- *)
From CppUVerif Require gen.Gen_LoopC15 C15_CTie.
Local Open Scope Z_scope.
Theorem C05_link_C05_calloc_guard :
  forall num size : N,
  negb (size =? 0) && ((W - 1) / size <? num) =
  C15_CTie.t_calloc_overflows (BinInt.Z.of_N num) (BinInt.Z.of_N size).
Proof. exact C15_CTie.link_C05_calloc_guard. Qed.
Print Assumptions C05_link_C05_calloc_guard.

Theorem C05_link_C05_calloc_refuses :
  forall (c : cfg) (f : list N) (s : st) (idx num size : N),
  C15_CTie.t_calloc_overflows (BinInt.Z.of_N num) (BinInt.Z.of_N size) = true ->
  calloc_mem fixed c f s idx num size = (ANull, s, []).
Proof. exact C15_CTie.link_C05_calloc_refuses. Qed.
Print Assumptions C05_link_C05_calloc_refuses.

Theorem C05_link_C05_calloc_asks :
  forall (c : cfg) (f : list N) (s : st) (idx num size : N),
  C15_CTie.t_calloc_overflows (BinInt.Z.of_N num) (BinInt.Z.of_N size) = false ->
  calloc_mem fixed c f s idx num size =
  alloc_mem fixed c f s idx 0 true (wrap (num * size)) (fun _ : unit => repeat 0 (N.to_nat (wrap (num * size)))).
Proof. exact C15_CTie.link_C05_calloc_asks. Qed.
Print Assumptions C05_link_C05_calloc_asks.

Theorem C05_link_C05_strlen :
  forall s r : list N, C15_CTie.NN s -> strlen (s ++ 0 :: r) = N.of_nat (length s).
Proof. exact C15_CTie.link_C05_strlen. Qed.
Print Assumptions C05_link_C05_strlen.

Theorem C05_link_C05_strdup_bytes :
  forall (s r : list N) (k : nat),
  C15_CTie.NN s ->
  (k <= length s)%nat -> set_last (firstn (S k) (cut_nul (s ++ 0 :: r) ++ [0])) 0 = firstn k s ++ [0].
Proof. exact C15_CTie.link_C05_strdup_bytes. Qed.
Print Assumptions C05_link_C05_strdup_bytes.

Theorem C05_calloc_overflows_iff :
  forall num size : Z,
  BinInt.Z.le Z0 num ->
  BinInt.Z.le Z0 size ->
  C15_CTie.t_calloc_overflows num size = true <-> BinInt.Z.le C15_CTie.M64 (BinInt.Z.mul num size).
Proof. exact C15_CTie.calloc_overflows_iff. Qed.
Print Assumptions C05_calloc_overflows_iff.

Theorem C05_calloc_overflow_refused :
  forall (fuel : nat) (mem : CMem.memory) (c mc : Z) (evs : list Gen_LoopC15.hcev)
  (blocks : list (option (list N))) (num size : Z) (file : CMem.ptr) (line : Z),
  BinInt.Z.le Z0 num ->
  BinInt.Z.le Z0 size /\ BinInt.Z.lt size C15_CTie.M64 ->
  BinInt.Z.le C15_CTie.M64 (BinInt.Z.mul num size) ->
  Gen_LoopC15.src_c_cpputest_calloc_location fuel mem c mc evs blocks num size file line =
  CMem.FOk (CMem.Null, mem, c, mc, evs, blocks).
Proof. exact C15_CTie.calloc_overflow_refused. Qed.
Print Assumptions C05_calloc_overflow_refused.

Theorem C05_calloc_spec :
  forall (fuel : nat) (mem : CMem.memory) (c mc : Z) (evs : list Gen_LoopC15.hcev) (o : option (list N))
  (bl : list (option (list N))) (num size : Z) (file : CMem.ptr) (line : Z),
  BinInt.Z.lt c C15_CTie.I31 ->
  BinInt.Z.le Z0 num ->
  BinInt.Z.le Z0 size /\ BinInt.Z.lt size C15_CTie.M64 ->
  BinInt.Z.lt (BinInt.Z.mul num size) C15_CTie.M64 ->
  C15_CTie.wf_ans (BinInt.Z.mul num size) o ->
  Gen_LoopC15.src_c_cpputest_calloc_location fuel mem c mc evs (o :: bl) num size file line =
  CMem.FOk
  (C15_CTie.t_ptr mem o,
  match o with
  | Some _ => mem ++ [repeat 0 (BinInt.Z.to_nat (BinInt.Z.mul num size))]
  | None => mem
  end, C15_CTie.t_tick c, CSem.cw (Zpos 32) true (BinInt.Z.add mc (Zpos 1)),
  (evs ++ C15_CTie.t_tick_evs c) ++ [Gen_LoopC15.CMalloc (BinInt.Z.mul num size) (C15_CTie.t_ans o)], bl).
Proof. exact C15_CTie.calloc_spec. Qed.
Print Assumptions C05_calloc_spec.

Theorem C05_strdup_refused :
  forall (fuel : nat) (mem : CMem.memory) (c mc : Z) (evs : list Gen_LoopC15.hcev) (bl : list (option (list N)))
  (p : CMem.ptr) (s r : list N) (file : CMem.ptr) (line : Z),
  CMemFacts.mem_ok mem ->
  BinInt.Z.lt c C15_CTie.I31 ->
  CMem.view mem p = s ++ 0 :: r ->
  C15_CTie.NN s ->
  (length s < fuel)%nat ->
  BinInt.Z.lt (BinInt.Z.of_nat (length (s ++ 0 :: r))) C15_CTie.M64 ->
  Gen_LoopC15.src_c_cpputest_strdup_location fuel mem c mc evs (None :: bl) p file line =
  CMem.FOk
  (CMem.Null, mem, C15_CTie.t_tick c, CSem.cw (Zpos 32) true (BinInt.Z.add mc (Zpos 1)),
  (evs ++ C15_CTie.t_tick_evs c) ++
  [Gen_LoopC15.CMalloc (BinInt.Z.add (BinInt.Z.of_nat (length s)) (Zpos 1)) Z0], bl).
Proof. exact C15_CTie.strdup_refused. Qed.
Print Assumptions C05_strdup_refused.

Theorem C05_strdup_copies_exactly_the_string :
  forall (fuel : nat) (mem : CMem.memory) (c mc : Z) (evs : list Gen_LoopC15.hcev) (b3 : list N)
  (bl : list (option (list N))) (p : CMem.ptr) (s r : list N) (file : CMem.ptr) (line : Z),
  CMemFacts.mem_ok mem ->
  BinInt.Z.lt c C15_CTie.I31 ->
  CMem.view mem p = s ++ 0 :: r ->
  C15_CTie.NN s ->
  (length s < fuel)%nat ->
  BinInt.Z.lt (BinInt.Z.of_nat (length (s ++ 0 :: r))) C15_CTie.M64 ->
  length b3 = S (length s) ->
  Gen_LoopC15.src_c_cpputest_strdup_location fuel mem c mc evs (Some b3 :: bl) p file line =
  CMem.FOk
  (CMem.Ptr (length mem) Z0, mem ++ [s ++ [0]], C15_CTie.t_tick c,
  CSem.cw (Zpos 32) true (BinInt.Z.add mc (Zpos 1)),
  (evs ++ C15_CTie.t_tick_evs c) ++
  [Gen_LoopC15.CMalloc (BinInt.Z.add (BinInt.Z.of_nat (length s)) (Zpos 1)) (Zpos 1)], bl).
Proof. exact C15_CTie.strdup_copies_exactly_the_string. Qed.
Print Assumptions C05_strdup_copies_exactly_the_string.

Theorem C05_strndup_refused :
  forall (fuel : nat) (mem : CMem.memory) (c mc : Z) (evs : list Gen_LoopC15.hcev) (bl : list (option (list N)))
  (p : CMem.ptr) (s r : list N) (n : Z) (file : CMem.ptr) (line : Z),
  CMemFacts.mem_ok mem ->
  BinInt.Z.lt c C15_CTie.I31 ->
  CMem.view mem p = s ++ 0 :: r ->
  C15_CTie.NN s ->
  (length s < fuel)%nat ->
  BinInt.Z.lt (BinInt.Z.of_nat (length (s ++ 0 :: r))) C15_CTie.M64 ->
  BinInt.Z.le Z0 n /\ BinInt.Z.lt n C15_CTie.M64 ->
  Gen_LoopC15.src_c_cpputest_strndup_location fuel mem c mc evs (None :: bl) p n file line =
  CMem.FOk
  (CMem.Null, mem, C15_CTie.t_tick c, CSem.cw (Zpos 32) true (BinInt.Z.add mc (Zpos 1)),
  (evs ++ C15_CTie.t_tick_evs c) ++
  [Gen_LoopC15.CMalloc
  (BinInt.Z.add (BinInt.Z.of_nat (PeanoNat.Nat.min (length s) (BinInt.Z.to_nat n))) (Zpos 1)) Z0], bl).
Proof. exact C15_CTie.strndup_refused. Qed.
Print Assumptions C05_strndup_refused.

Theorem C05_strndup_spec :
  forall (fuel : nat) (mem : CMem.memory) (c mc : Z) (evs : list Gen_LoopC15.hcev) (b3 : list N)
  (bl : list (option (list N))) (p : CMem.ptr) (s r : list N) (n : Z) (file : CMem.ptr)
  (line : Z),
  CMemFacts.mem_ok mem ->
  BinInt.Z.lt c C15_CTie.I31 ->
  CMem.view mem p = s ++ 0 :: r ->
  C15_CTie.NN s ->
  (length s < fuel)%nat ->
  BinInt.Z.lt (BinInt.Z.of_nat (length (s ++ 0 :: r))) C15_CTie.M64 ->
  BinInt.Z.le Z0 n /\ BinInt.Z.lt n C15_CTie.M64 ->
  length b3 = S (PeanoNat.Nat.min (length s) (BinInt.Z.to_nat n)) ->
  Gen_LoopC15.src_c_cpputest_strndup_location fuel mem c mc evs (Some b3 :: bl) p n file line =
  CMem.FOk
  (CMem.Ptr (length mem) Z0, mem ++ [firstn (PeanoNat.Nat.min (length s) (BinInt.Z.to_nat n)) s ++ [0]],
  C15_CTie.t_tick c, CSem.cw (Zpos 32) true (BinInt.Z.add mc (Zpos 1)),
  (evs ++ C15_CTie.t_tick_evs c) ++
  [Gen_LoopC15.CMalloc
  (BinInt.Z.add (BinInt.Z.of_nat (PeanoNat.Nat.min (length s) (BinInt.Z.to_nat n))) (Zpos 1))
  (Zpos 1)], bl).
Proof. exact C15_CTie.strndup_spec. Qed.
Print Assumptions C05_strndup_spec.

(* --------------------------------------------------------------------------------------------------------------
   SOURCE TIE (detector paths): MemoryLeakDetector::allocMemory / reallocMemory as translated on every run into gen/Gen_HeapC04D.v -- a request too large for the bookkeeping is refused before the allocator is asked, a refusing allocator / a refused separate record / a refusing realloc yield NULL with the block handed back and every existing record in place (the old block of a refused realloc is registered again); the link_ lemmas state that C05_Model's size arithmetic (fits / with_guard / request) is the arithmetic of the translated functions for the configuration they are translated in (guard bytes on, sizeof(MemoryLeakDetectorNode) = 64)
   -------------------------------------------------------------------------------------------------------------- *)
From CppUVerif Require gen.Gen_HeapC04D C04_DetTie C05_DetLink.
Local Open Scope Z_scope.
Theorem C05_real_cfg_valid :
  valid_cfg C05_DetLink.real_cfg = true.
Proof. exact C05_DetLink.real_cfg_valid. Qed.
Print Assumptions C05_real_cfg_valid.

Theorem C05_link_fits :
  forall n : N, fits C05_DetLink.real_cfg n = BinInt.Z.leb (BinInt.Z.of_N n) C04_DetTie.max_user_size.
Proof. exact C05_DetLink.link_fits. Qed.
Print Assumptions C05_link_fits.

Theorem C05_link_with_guard :
  forall n : N,
  BinInt.Z.le (BinInt.Z.of_N n) C04_DetTie.max_user_size ->
  BinInt.Z.of_N (with_guard C05_DetLink.real_cfg n) = C04_DetTie.size_with_guard (BinInt.Z.of_N n).
Proof. exact C05_DetLink.link_with_guard. Qed.
Print Assumptions C05_link_with_guard.

Theorem C05_link_request :
  forall (sep : bool) (n : N),
  BinInt.Z.le (BinInt.Z.of_N n) C04_DetTie.max_user_size ->
  BinInt.Z.of_N (request C05_DetLink.real_cfg sep n) =
  C04_DetTie.alloc_request (if sep then Zpos 1 else Z0) (BinInt.Z.of_N n).
Proof. exact C05_DetLink.link_request. Qed.
Print Assumptions C05_link_request.

Theorem C05_link_oversize :
  forall n : N, fits C05_DetLink.real_cfg n = false <-> BinInt.Z.lt C04_DetTie.max_user_size (BinInt.Z.of_N n).
Proof. exact C05_DetLink.link_oversize. Qed.
Print Assumptions C05_link_oversize.

Theorem C05_size_with_guard_bounds :
  forall s : Z,
  (BinInt.Z.lt (BinInt.Z.add s (Zpos 3)) (C04_DetTie.size_with_guard s) /\
  BinInt.Z.le (C04_DetTie.size_with_guard s) (BinInt.Z.add s (Zpos 11))) /\
  BinInt.Z.modulo (C04_DetTie.size_with_guard s) (Zpos 8) = Z0.
Proof. exact C04_DetTie.size_with_guard_bounds. Qed.
Print Assumptions C05_size_with_guard_bounds.

Theorem C05_src_det_sizeOfMemoryWithCorruptionInfo_spec :
  forall (fuel : nat) (h : CHeap.heap) (evs : list Gen_HeapC04D.dev) (al nf : list Z)
  (il : list CHeap.hptr) (rl gs : list Z) (this : CHeap.hptr) (size : Z),
  BinInt.Z.le Z0 size /\ BinInt.Z.le size C04_DetTie.max_user_size ->
  Gen_HeapC04D.src_det_sizeOfMemoryWithCorruptionInfo fuel h evs al nf il rl gs this size =
  CMem.FOk (C04_DetTie.size_with_guard size, h, evs, al, nf, il, rl, gs).
Proof. exact C04_DetTie.src_det_sizeOfMemoryWithCorruptionInfo_spec. Qed.
Print Assumptions C05_src_det_sizeOfMemoryWithCorruptionInfo_spec.

Theorem C05_src_det_sizeLeavesRoomForAccountingInformation_spec :
  forall (fuel : nat) (h : CHeap.heap) (evs : list Gen_HeapC04D.dev) (al nf : list Z)
  (il : list CHeap.hptr) (rl gs : list Z) (size : Z),
  Gen_HeapC04D.src_det_sizeLeavesRoomForAccountingInformation fuel h evs al nf il rl gs size =
  CMem.FOk (CSem.b2z (BinInt.Z.leb size C04_DetTie.max_user_size), h, evs, al, nf, il, rl, gs).
Proof. exact C04_DetTie.src_det_sizeLeavesRoomForAccountingInformation_spec. Qed.
Print Assumptions C05_src_det_sizeLeavesRoomForAccountingInformation_spec.

Theorem C05_src_det_allocMemory_oversize :
  forall (fuel : nat) (h : CHeap.heap) (evs : list Gen_HeapC04D.dev) (al nf : list Z)
  (il : list CHeap.hptr) (rl gs : list Z) (this : CHeap.hptr) (allocator size file line sep : Z),
  BinInt.Z.lt C04_DetTie.max_user_size size ->
  Gen_HeapC04D.src_det_allocMemory fuel h evs al nf il rl gs this allocator size file line sep =
  CMem.FOk (Z0, h, evs, al, nf, il, rl, gs).
Proof. exact C04_DetTie.src_det_allocMemory_oversize. Qed.
Print Assumptions C05_src_det_allocMemory_oversize.

Theorem C05_src_det_allocMemory_refused :
  forall (fuel : nat) (h : CHeap.heap) (evs : list Gen_HeapC04D.dev) (al nf : list Z)
  (il : list CHeap.hptr) (rl gs : list Z) (this : CHeap.hptr) (allocator size file line sep : Z),
  BinInt.Z.le Z0 size /\ BinInt.Z.le size C04_DetTie.max_user_size ->
  Gen_HeapC04D.src_det_allocMemory fuel h evs (Z0 :: al) nf il rl gs this allocator size file line sep =
  CMem.FOk
  (Z0, h, evs ++ [Gen_HeapC04D.DAllocCall allocator (C04_DetTie.alloc_request sep size) Z0], al, nf, il, rl,
  gs).
Proof. exact C04_DetTie.src_det_allocMemory_refused. Qed.
Print Assumptions C05_src_det_allocMemory_refused.

Theorem C05_src_det_allocMemory_node_refused :
  forall (fuel : nat) (h : CHeap.heap) (evs : list Gen_HeapC04D.dev) (o : Z) (al : list Z)
  (r : Z) (nf : list Z) (il : list CHeap.hptr) (rl gs : list Z) (this : CHeap.hptr)
  (allocator size file line sep : Z),
  BinInt.Z.le Z0 size /\ BinInt.Z.le size C04_DetTie.max_user_size ->
  o <> Z0 ->
  CSem.z2b sep = true ->
  r <> Z0 ->
  Gen_HeapC04D.src_det_allocMemory fuel h evs (o :: al) (r :: nf) il rl gs this allocator size file line sep =
  CMem.FOk
  (Z0, h,
  evs ++
  [Gen_HeapC04D.DAllocCall allocator (C04_DetTie.size_with_guard size) o;
  Gen_HeapC04D.DNodeRefused allocator; Gen_HeapC04D.DFreeCall allocator o size], al, nf, il, rl, gs).
Proof. exact C04_DetTie.src_det_allocMemory_node_refused. Qed.
Print Assumptions C05_src_det_allocMemory_node_refused.

Theorem C05_src_det_reallocMemory_oversize :
  forall (actual : Z -> Z) (equal_type : Z -> Z -> Z) (fuel : nat) (h : CHeap.heap)
  (evs : list Gen_HeapC04D.dev) (al nf : list Z) (il : list CHeap.hptr) (rl gs : list Z)
  (this : CHeap.hptr) (allocator memory size file line sep : Z),
  BinInt.Z.lt C04_DetTie.max_user_size size ->
  Gen_HeapC04D.src_det_reallocMemory actual equal_type fuel h evs al nf il rl gs this allocator memory size file
  line sep = CMem.FOk (Z0, h, evs, al, nf, il, rl, gs).
Proof. exact C04_DetTie.src_det_reallocMemory_oversize. Qed.
Print Assumptions C05_src_det_reallocMemory_oversize.

Theorem C05_src_det_reallocMemory_node_refused :
  forall (actual : Z -> Z) (equal_type : Z -> Z -> Z) (fuel : nat) (h : CHeap.heap)
  (evs : list Gen_HeapC04D.dev) (al : list Z) (r : Z) (nf : list Z) (il : list CHeap.hptr)
  (rl gs : list Z) (dt : nat) (bss : list (list nat)) (d : C04_Model.det) (tc : bool)
  (a : N) (n : C04_Model.node) (allocator size file line sep g : Z) (gs' : list Z),
  C04_DetRep.detector_at h dt bss d tc ->
  a < 2 ^ 64 ->
  a <> 0 ->
  (length (nth (C04_Model.hashN a) (C04_Model.d_tbl d) []) < fuel)%nat ->
  BinInt.Z.le size C04_DetTie.max_user_size ->
  fst (C04_Model.t_remove a (C04_Model.d_tbl d)) = Some n ->
  (C04_DetTie.d_matching equal_type tc (actual (BinInt.Z.of_N (C04_Model.n_kind n))) (actual allocator) = true ->
  gs = g :: gs') ->
  CSem.z2b sep = true ->
  r <> Z0 ->
  exists (h3 : CHeap.heap) (bss3 : list (list nat)),
  Gen_HeapC04D.src_det_reallocMemory actual equal_type fuel h evs al (r :: nf) il rl gs
  (CHeap.HPtr dt Z0) allocator (BinInt.Z.of_N a) size file line sep =
  CMem.FOk
  (Z0, h3,
  evs ++
  C04_DetTie.corr_events actual equal_type tc
  (C04_HeapRep.ptr_of a (nth (C04_Model.hashN a) bss []) (nth (C04_Model.hashN a) (C04_Model.d_tbl d) []))
  n allocator Z0 g ++ [Gen_HeapC04D.DNodeRefused allocator], al, nf, il, rl,
  C04_DetTie.corr_guards actual equal_type tc n allocator gs) /\
  C04_DetRep.detector_at h3 dt bss3 (fst (C04_Model.d_realloc_failed d a)) tc /\
  snd (C04_Model.d_realloc_failed d a) = false /\
  length h3 = length h /\
  (forall b' : nat, b' <> dt -> ~ In b' (concat bss) -> CHeap.hblock h3 b' = CHeap.hblock h b').
Proof. exact C04_DetTie.src_det_reallocMemory_node_refused. Qed.
Print Assumptions C05_src_det_reallocMemory_node_refused.

Theorem C05_src_det_reallocMemory_failed_separate :
  forall (actual : Z -> Z) (equal_type : Z -> Z -> Z) (fuel : nat) (h : CHeap.heap)
  (evs : list Gen_HeapC04D.dev) (al nf : list Z) (il : list CHeap.hptr) (rl gs : list Z)
  (dt : nat) (bss : list (list nat)) (d : C04_Model.det) (tc : bool) (a : N) (n : C04_Model.node)
  (allocator size file line sep g : Z) (gs' : list Z),
  C04_DetRep.detector_at h dt bss d tc ->
  a < 2 ^ 64 ->
  a <> 0 ->
  (length (nth (C04_Model.hashN a) (C04_Model.d_tbl d) []) < fuel)%nat ->
  BinInt.Z.le Z0 size /\ BinInt.Z.le size C04_DetTie.max_user_size ->
  fst (C04_Model.t_remove a (C04_Model.d_tbl d)) = Some n ->
  (C04_DetTie.d_matching equal_type tc (actual (BinInt.Z.of_N (C04_Model.n_kind n))) (actual allocator) = true ->
  gs = g :: gs') ->
  CSem.z2b sep = true ->
  exists (h3 : CHeap.heap) (bss3 : list (list nat)),
  Gen_HeapC04D.src_det_reallocMemory actual equal_type fuel h evs al (Z0 :: nf) il
  (Z0 :: rl) gs (CHeap.HPtr dt Z0) allocator (BinInt.Z.of_N a) size file line sep =
  CMem.FOk
  (Z0, h3,
  evs ++
  C04_DetTie.corr_events actual equal_type tc
  (C04_HeapRep.ptr_of a (nth (C04_Model.hashN a) bss []) (nth (C04_Model.hashN a) (C04_Model.d_tbl d) []))
  n allocator Z0 g ++
  [Gen_HeapC04D.DNodeAlloc allocator (CHeap.HPtr (length h) Z0);
  Gen_HeapC04D.DRealloc (BinInt.Z.of_N a) (C04_DetTie.size_with_guard size) Z0;
  Gen_HeapC04D.DNodeFree allocator (CHeap.HPtr (length h) Z0)], al, nf, il, rl,
  C04_DetTie.corr_guards actual equal_type tc n allocator gs) /\
  C04_DetRep.detector_at h3 dt bss3 (fst (C04_Model.d_realloc_failed d a)) tc /\
  snd (C04_Model.d_realloc_failed d a) = false /\
  length h3 = S (length h) /\
  (forall b' : nat,
  (b' < length h)%nat -> b' <> dt -> ~ In b' (concat bss) -> CHeap.hblock h3 b' = CHeap.hblock h b').
Proof. exact C04_DetTie.src_det_reallocMemory_failed_separate. Qed.
Print Assumptions C05_src_det_reallocMemory_failed_separate.

Theorem C05_src_det_reallocMemory_failed_inline :
  forall (actual : Z -> Z) (equal_type : Z -> Z -> Z) (fuel : nat) (h : CHeap.heap)
  (evs : list Gen_HeapC04D.dev) (al nf : list Z) (il : list CHeap.hptr) (rl gs : list Z)
  (dt : nat) (bss : list (list nat)) (d : C04_Model.det) (tc : bool) (a : N) (n : C04_Model.node)
  (allocator size file line sep g : Z) (gs' : list Z),
  C04_DetRep.detector_at h dt bss d tc ->
  a < 2 ^ 64 ->
  a <> 0 ->
  (length (nth (C04_Model.hashN a) (C04_Model.d_tbl d) []) < fuel)%nat ->
  BinInt.Z.le Z0 size /\ BinInt.Z.le size C04_DetTie.max_user_size ->
  fst (C04_Model.t_remove a (C04_Model.d_tbl d)) = Some n ->
  (C04_DetTie.d_matching equal_type tc (actual (BinInt.Z.of_N (C04_Model.n_kind n))) (actual allocator) = true ->
  gs = g :: gs') ->
  CSem.z2b sep = false ->
  exists (h3 : CHeap.heap) (bss3 : list (list nat)),
  Gen_HeapC04D.src_det_reallocMemory actual equal_type fuel h evs al nf il (Z0 :: rl) gs
  (CHeap.HPtr dt Z0) allocator (BinInt.Z.of_N a) size file line sep =
  CMem.FOk
  (Z0, h3,
  evs ++
  C04_DetTie.corr_events actual equal_type tc
  (C04_HeapRep.ptr_of a (nth (C04_Model.hashN a) bss []) (nth (C04_Model.hashN a) (C04_Model.d_tbl d) []))
  n allocator Z0 g ++
  [Gen_HeapC04D.DRealloc (BinInt.Z.of_N a) (BinInt.Z.add (C04_DetTie.size_with_guard size) (Zpos 64)) Z0],
  al, nf, il, rl, C04_DetTie.corr_guards actual equal_type tc n allocator gs) /\
  C04_DetRep.detector_at h3 dt bss3 (fst (C04_Model.d_realloc_failed d a)) tc /\
  snd (C04_Model.d_realloc_failed d a) = false /\
  length h3 = length h /\
  (forall b' : nat, b' <> dt -> ~ In b' (concat bss) -> CHeap.hblock h3 b' = CHeap.hblock h b').
Proof. exact C04_DetTie.src_det_reallocMemory_failed_inline. Qed.
Print Assumptions C05_src_det_reallocMemory_failed_inline.
