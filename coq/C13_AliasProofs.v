(* C13 -- proofs for the aliasing scenarios of C13_Alias.v: every valid history of statements whose argument points into the object's own
   buffer is executed without reading a released or foreign cell and leaves the textbook value; the direct-overload variant is refuted. *)
From Coq Require Import NArith ZArith Bool List Lia ZifyBool.
From CppUVerif Require Import lib.Str C13_Text C13_Alloc C13_Model C13_Proofs C13_Main C13_Concat C13_Pool C13_PoolProofs C13_Life C13_LifeProofs
                              C13_LifeProofs2 C13_LifeSplit C13_Loose C13_Chain C13_Coll C13_LifeMain C13_Alias.
Import ListNotations.
Local Open Scope N_scope.

(* the object's buffer is the live block sid and holds exactly the C string of s *)
Definition AI (st : heap * nat) (s : list N) : Prop := h_get (fst st) (snd st) = Some (cs s) /\ (snd st < h_next (fst st))%nat.

Lemma view_own h sid s k : AI (h, sid) s -> (k <= length s)%nat -> view h sid k = Ok (cs (skipn k s)).
Proof. intros [G _] L. cbn [fst snd] in G. unfold view. rewrite G. unfold cs. rewrite adv_cs by exact L. reflexivity. Qed.
Lemma leb_le k n : Nat.leb k n = true -> (k <= n)%nat.
Proof. apply Nat.leb_le. Qed.
Lemma neq_eqb a b : (a < b)%nat -> Nat.eqb b a = false /\ Nat.eqb a b = false.
Proof. intro L. split; apply Nat.eqb_neq; lia. Qed.

Lemma assign_cstr_ok h sid s k : AI (h, sid) s -> OKS s -> (k <= length s)%nat ->
  exists st', assign_cstr h sid k = Ok st' /\ AI st' (skipn k s).
Proof.
  intros I K L. pose proof (OKS_skipn k s K) as Kk. destruct I as [G B]. cbn [fst snd] in G, B.
  destruct (neq_eqb _ _ B) as [E1 E2].
  unfold assign_cstr, ctor_from. rewrite (view_own h sid s k) by (try split; assumption). cbn [bind].
  unfold cs. rewrite (newFrom_ok (skipn k s) []) by apply Kk. cbn [bind fst snd].
  unfold assign_obj, view. cbn [release halloc h_get h_next]. rewrite E1, Nat.eqb_refl. cbn [adv Nat.leb skipn bind].
  rewrite (newFrom_ok (skipn k s) []) by apply Kk. cbn [bind fst snd].
  eexists. split; [reflexivity|]. split; cbn [fst snd release halloc h_get h_next].
  - rewrite Nat.eqb_refl. destruct (Nat.eqb (S (h_next h)) (h_next h)) eqn:Q; [apply Nat.eqb_eq in Q; lia | reflexivity].
  - lia.
Qed.
Lemma append_ptr_ok h sid s k : AI (h, sid) s -> OKS s -> (k <= length s)%nat ->
  exists st', append_ptr h sid k = Ok st' /\ AI st' (s ++ skipn k s).
Proof.
  intros I K L. pose proof (OKS_skipn k s K) as Kk. pose proof I as [G B]. cbn [fst snd] in G, B. destruct (neq_eqb _ _ B) as [E1 E2].
  unfold append_ptr. rewrite (view_own h sid s 0 I) by lia. cbn [bind skipn]. rewrite (view_own h sid s k I L). cbn [bind].
  unfold cs. rewrite append_ok by (try apply K; apply Kk). cbn [bind].
  eexists. split; [reflexivity|]. split; cbn [fst snd release halloc h_get h_next].
  - rewrite E1, Nat.eqb_refl. unfold cs. rewrite <- app_assoc. reflexivity.
  - lia.
Qed.
Lemma replace_ptr_ok h sid s k1 k2 : AI (h, sid) s -> OKS s -> (k1 <= length s)%nat -> (k2 <= length s)%nat ->
  exists st', replace_ptr h sid k1 k2 = Ok st' /\ AI st' (t_replace s (skipn k1 s) (skipn k2 s)).
Proof.
  intros I K L1 L2. pose proof (OKS_skipn k1 s K) as K1. pose proof (OKS_skipn k2 s K) as K2.
  pose proof I as [G B]. cbn [fst snd] in G, B. destruct (neq_eqb _ _ B) as [E1 E2].
  unfold replace_ptr. rewrite (view_own h sid s 0 I) by lia. cbn [bind skipn]. rewrite (view_own h sid s k1 I L1), (view_own h sid s k2 I L2). cbn [bind].
  rewrite replaceStr_exact by (try apply K; try apply K1; apply K2). cbn [bind].
  eexists. split; [reflexivity|]. split; cbn [fst snd release halloc h_get h_next].
  - rewrite E1, Nat.eqb_refl. reflexivity.
  - lia.
Qed.

Lemma astep_ok st s q : AI st s -> OKS s -> valid_aop s q = true ->
  exists st', astep st q = Ok st' /\ AI st' (t_astep s q) /\ OKS (t_astep s q).
Proof.
  intros I K V. destruct st as [h sid]. destruct q; cbn [valid_aop] in V; split_valid V; cbn [astep t_astep];
    repeat match goal with H : Nat.leb _ _ = true |- _ => apply leb_le in H end.
  - destruct (assign_cstr_ok h sid s k I K V) as [st' [E I']]. exists st'. split; [exact E|]. split; [exact I'|]. apply OKS_skipn; exact K.
  - exists (h, sid). split; [reflexivity|]. split; assumption.
  - destruct (assign_cstr_ok h sid s k I K V) as [st' [E I']]. exists st'. split; [exact E|]. split; [exact I'|]. apply OKS_skipn; exact K.
  - destruct (append_ptr_ok h sid s k I K V) as [st' [E I']]. exists st'. split; [exact E|]. split; [exact I'|]. apply OKS_app; [exact K | apply OKS_skipn; exact K].
  - destruct (append_ptr_ok h sid s 0 I K ltac:(lia)) as [st' [E I']]. exists st'. split; [exact E|]. split; [exact I'|]. apply OKS_app; exact K.
  - destruct (replace_ptr_ok h sid s k1 k2 I K V V0) as [st' [E I']]. exists st'. split; [exact E|]. split; [exact I'|].
    apply OKS_replace; [exact K | apply OKS_skipn; exact K].
  - exists (h, sid). split; [reflexivity|]. split; assumption.
  - exists (h, sid). split; [reflexivity|]. split; assumption.
  - exists (h, sid). split; [reflexivity|]. split; assumption.
  - exists (h, sid). split; [reflexivity|]. split; assumption.
Qed.

Lemma cmp_entry_ok x y : OKS x -> OKS y -> cmp_entry (cs x) (cs y) = Ok (t_cmp_entry x y).
Proof.
  intros [X _] [Y _]. unfold cmp_entry, cs. rewrite equal_ok by assumption. cbn [bind]. rewrite contains_ok by assumption. cbn [bind].
  rewrite startsWith_ok by assumption. cbn [bind]. rewrite endsWith_ok by assumption. cbn [bind]. rewrite count_ok by assumption. reflexivity.
Qed.
Lemma sgn_byte_sgn d e : Z.sgn d = e -> sgn_byte d = sgn_byte e.
Proof. intro H. unfold sgn_byte. rewrite <- H, Z.sgn_sgn. reflexivity. Qed.
Lemma aobs_ok st s q : AI st s -> OKS s -> valid_aop s q = true -> aobs st q = Ok (t_aobs s q).
Proof.
  intros I K V. destruct st as [h sid]. pose proof I as [G B]. cbn [fst snd] in G, B. destruct (neq_eqb _ _ B) as [E1 E2].
  destruct q; try reflexivity; cbn [valid_aop] in V; split_valid V; cbn [aobs t_aobs];
    repeat match goal with H : Nat.leb _ _ = true |- _ => apply leb_le in H end.
  - pose proof (OKS_skipn k s K) as Kk. unfold ctor_from. rewrite (view_own h sid s k I V). cbn [bind].
    unfold cs at 1. rewrite (newFrom_ok (skipn k s) []) by apply Kk. cbn [bind fst snd].
    unfold view. cbn [halloc h_get h_next]. rewrite E2, G, Nat.eqb_refl. cbn [adv Nat.leb skipn bind].
    apply cmp_entry_ok; assumption.
  - rewrite (view_own h sid s 0 I) by lia. cbn [bind skipn]. apply cmp_entry_ok; assumption.
  - pose proof (OKS_skipn k1 s K) as K1. pose proof (OKS_skipn k2 s K) as K2.
    rewrite (view_own h sid s k1 I V), (view_own h sid s k2 I V0). cbn [bind]. unfold cs. rewrite StrStr_ok by (try apply K1; apply K2). reflexivity.
  - pose proof (OKS_skipn k1 s K) as K1. pose proof (OKS_skipn k2 s K) as K2.
    rewrite (view_own h sid s k1 I V), (view_own h sid s k2 I V0). cbn [bind]. unfold cs.
    destruct (StrCmp_ok (skipn k1 s) (skipn k2 s) [] [] (proj1 K1) (proj1 K2)) as [d [E S]]. rewrite E. cbn [bind].
    rewrite (sgn_byte_sgn _ _ S). reflexivity.
Qed.

Lemma arun_ok ops : forall st s, AI st s -> OKS s -> valid_aops s ops = true ->
  exists st' s', arun st ops = Ok (st', tl (t_arun s ops)) /\ AI st' s' /\ OKS s' /\ hd [] (t_arun s ops) = s'.
Proof.
  induction ops as [|q ops IH]; intros st s I K V.
  - exists st, s. split; [reflexivity|]. split; [exact I|]. split; [exact K | reflexivity].
  - cbn [valid_aops] in V. apply andb_true_iff in V. destruct V as [Vq Vr]. cbn [arun t_arun].
    rewrite (aobs_ok st s q I K Vq). cbn [bind]. destruct (astep_ok st s q I K Vq) as [st1 [E [I1 K1]]]. rewrite E. cbn [bind].
    destruct (IH st1 _ I1 K1 Vr) as [st' [s' [R [I' [K' H]]]]]. rewrite R. cbn [bind fst snd hd tl]. exists st', s'. split; [reflexivity|]. split; [exact I'|]. split; [exact K' | exact H].
Qed.
Lemma t_arun_cons s ops : t_arun s ops = hd [] (t_arun s ops) :: tl (t_arun s ops).
Proof. destruct ops; reflexivity. Qed.
Lemma ainit_ok a : OKS a -> exists st, ainit a = Ok st /\ AI st a.
Proof.
  intro K. unfold ainit, ctor_from, view. cbn [halloc h0 h_get h_next Nat.eqb]. unfold cs. cbn [adv Nat.leb skipn bind].
  rewrite (newFrom_ok a []) by apply K. cbn [bind fst snd]. eexists. split; [reflexivity|]. split; cbn; [reflexivity | lia].
Qed.
Lemma eval_alias a ops : valid_x (XAlias a ops) = true -> valias a ops = VL (t_arun a ops).
Proof.
  cbn [valid_x]. intro V. apply andb_true_iff in V. destruct V as [Va Vo]. pose proof (OKS_nonul a Va) as K.
  destruct (ainit_ok a K) as [st [E I]]. destruct (arun_ok ops st a I K Vo) as [st' [s' [R [I' [K' H]]]]].
  unfold valias. rewrite E. cbn [bind]. rewrite R. cbn [bind fst snd]. destruct st' as [h' sid'].
  cbn [fst snd]. rewrite (view_own h' sid' s' 0 I') by lia. cbn [bind skipn]. unfold cs. rewrite cstr_of_cs by apply K'.
  rewrite (t_arun_cons a ops), H. reflexivity.
Qed.

Lemma x_meets_spec x : valid_x x = true -> spec_x x (run_x x) = true.
Proof.
  destruct x as [s | a ops]; intro V.
  - apply scn_meets_spec. exact V.
  - cbn [spec_x run_x o_val o_ref o_paired expected_x]. rewrite (eval_alias a ops V). rewrite oval_eqb_refl by discriminate. reflexivity.
Qed.
Lemma x_safe x : valid_x x = true -> o_val (run_x x) <> VErr.
Proof.
  destruct x as [s | a ops]; intro V; [apply scn_safe; exact V|]. cbn [run_x o_val]. rewrite (eval_alias a ops V). discriminate.
Qed.

(* the direct overload: the argument is read after the object's buffer went back -- for EVERY offset into the own buffer; with an
   argument in another live block it is the same function as construct-then-assign (what every existing test uses) *)
Lemma assign_direct_own_refuted h sid k : assign_cstr_direct h sid sid k = Oob.
Proof. unfold assign_cstr_direct, view. cbn [release h_get]. rewrite Nat.eqb_refl. reflexivity. Qed.
Lemma assign_direct_foreign_same_value h sid ob s a k : AI (h, sid) s -> ob <> sid -> h_get h ob = Some (cs a) -> OKS a -> (k <= length a)%nat ->
  exists st', assign_cstr_direct h sid ob k = Ok st' /\ AI st' (skipn k a).
Proof.
  intros [G B] Ne Go K L. cbn [fst snd] in G, B. pose proof (OKS_skipn k a K) as Kk.
  unfold assign_cstr_direct, view. cbn [release h_get h_next]. destruct (Nat.eqb ob sid) eqn:Q; [apply Nat.eqb_eq in Q; contradiction|].
  rewrite Go. unfold cs. rewrite adv_cs by exact L. cbn [bind]. rewrite (newFrom_ok (skipn k a) []) by apply Kk. cbn [bind].
  eexists. split; [reflexivity|]. split; cbn [fst snd halloc release h_get h_next]; [rewrite Nat.eqb_refl; reflexivity | lia].
Qed.

Example ex_alias_drop_prefix :
  valid_x (XAlias [112;114;101;58;120;121] [AAsgP 4; ACmpP 1; AAppS; AStrStr 0 2]) = true /\
  run_x (XAlias [112;114;101;58;120;121] [AAsgP 4; ACmpP 1; AAppS; AStrStr 0 2]) =
    {| o_val := VL [[120;121;120;121]; [0;1;0;1;1;0;0;0;0;0;0;0]; [0;0;0;0;0;0;0;0]]; o_ref := true; o_paired := true |}.
Proof. split; vm_compute; reflexivity. Qed.
Example ex_alias_replace : o_val (run_x (XAlias [97;98;97;98] [ARepl 2 3])) = VL [[98;98]].
Proof. vm_compute. reflexivity. Qed.
Example ex_assign_direct_refuted : assign_cstr_direct (halloc h0 (cs [97;98])) 0 0 1 = Oob /\
  exists st, assign_cstr (halloc h0 (cs [97;98])) 0 1 = Ok st /\ h_get (fst st) (snd st) = Some (cs [98]).
Proof. split; [reflexivity|]. eexists. split; vm_compute; reflexivity. Qed.
