(* C07 -- proofs, part 1: the control flow of a test equals running its executed statements; the table follows the abstract
   accounting of C04; the abstract accounting of a statement list is given by the program text. *)
From Coq Require Import NArith List Bool Lia Permutation Arith.
From CppUVerif Require Import gen.Gen_Common C04_Model C04_Lists C04_Table C04_Proofs C07_Model.
Import ListNotations.
Local Open Scope N_scope.

(* ------------------------------------------------------------------ small facts *)
Lemma len_cons {A} (x : A) l : len (x :: l) = len l + 1.
Proof. unfold len. cbn [length]. lia. Qed.
Lemma len_app {A} (x y : list A) : len (x ++ y) = len x + len y.
Proof. unfold len. rewrite app_length. lia. Qed.
Lemma len_nil {A} : len (@nil A) = 0.
Proof. reflexivity. Qed.
Lemma len_rev {A} (l : list A) : len (rev l) = len l.
Proof. unfold len. rewrite rev_length. reflexivity. Qed.
Lemma len_map {A B} (f : A -> B) l : len (map f l) = len l.
Proof. unfold len. rewrite map_length. reflexivity. Qed.
Lemma is_nil_len {A} (l : list A) : is_nil l = (len l =? 0).
Proof. destruct l; [reflexivity|]. rewrite len_cons. cbn [is_nil]. symmetry. apply N.eqb_neq. lia. Qed.
Lemma filter_rev {A} (f : A -> bool) l : filter f (rev l) = rev (filter f l).
Proof.
  induction l as [|x l IH]; [reflexivity|]. cbn. rewrite filter_app, IH. cbn. destruct (f x); cbn; [reflexivity|apply app_nil_r].
Qed.
Lemma filter_all {A} (f : A -> bool) l : (forall x, In x l -> f x = true) -> filter f l = l.
Proof. induction l as [|x l IH]; intros H; [reflexivity|]. cbn. rewrite (H x) by (left; reflexivity). f_equal. apply IH. intros; apply H; right; assumption. Qed.
Lemma filter_none {A} (f : A -> bool) l : (forall x, In x l -> f x = false) -> filter f l = [].
Proof. induction l as [|x l IH]; intros H; [reflexivity|]. cbn. rewrite (H x) by (left; reflexivity). apply IH. intros; apply H; right; assumption. Qed.

(* ------------------------------------------------------------------ 1. Utest::run = the executed statements, one after the other *)
Lemma run_phase_spec : forall l w,
  run_phase w l = (fold_left step (fst (upto_fail l)) w, negb (snd (upto_fail l))).
Proof.
  induction l as [|s r IH]; intros w; [reflexivity|].
  destruct s; cbn [run_phase upto_fail]; try reflexivity;
    rewrite IH; destruct (upto_fail r) as [e f]; reflexivity.
Qed.

Lemma run_body_spec w t : run_body w t = fold_left step (phase_text t) w.
Proof.
  unfold run_body, phase_text. rewrite run_phase_spec.
  destruct (upto_fail (t_setup t)) as [a fa]. cbn [fst snd].
  destruct fa; cbn [negb]; rewrite !run_phase_spec; cbn [fst]; rewrite !fold_left_app; reflexivity.
Qed.

(* inner plugin's pre-action, the test, inner plugin's post-action *)
Lemma inside_spec w t : fold_left step (t_ipost t) (run_body (fold_left step (t_ipre t) w) t) = fold_left step (executed t) w.
Proof. unfold executed. rewrite !fold_left_app, run_body_spec. reflexivity. Qed.

Lemma control_flow w t :
  run_body w t = fold_left step (phase_text t) w /\
  fold_left step (t_ipost t) (run_body (fold_left step (t_ipre t) w) t) = fold_left step (executed t) w.
Proof. split; [apply run_body_spec|apply inside_spec]. Qed.

(* what a statement list does to the plugin's members and to the failure count *)
Definition declare (e : N) (ex : list stmt) : N := fold_left (fun e s => match s with SExpect n => n | _ => e end) ex e.

Lemma steps_scalars : forall ex w,
  let w' := fold_left step ex w in
  w_failures w' = w_failures w + own_failures ex /\
  w_ignore w' = (w_ignore w || asked_ignore ex) /\
  w_expected w' = declare (w_expected w) ex /\
  w_fc0 w' = w_fc0 w /\ w_err w' = w_err w /\
  w_det w' = fold_left mem_stmt ex (w_det w).
Proof.
  induction ex as [|s r IH]; intros w; cbn zeta.
  - unfold own_failures, asked_ignore, declare. cbn. rewrite N.add_0_r, orb_false_r. repeat split; reflexivity.
  - cbn [fold_left]. destruct (IH (step w s)) as (F & I & E & C & X & D). rewrite F, I, E, C, X, D. clear IH F I E C X D.
    unfold own_failures, asked_ignore, declare.
    destruct s; cbn [step exec_stmt add_failure with_det w_failures w_ignore w_expected w_fc0 w_err w_det
                     filter is_fail existsb is_ignore fold_left mem_stmt];
      rewrite ?len_cons, ?orb_false_l, ?orb_true_r, ?orb_true_l; repeat split; try reflexivity; try lia.
Qed.

(* ------------------------------------------------------------------ 2. the table follows the abstract accounting *)
Definition astep (a : astate) (s : stmt) : astate :=
  match s with
  | SAlloc id sz k => a_store a id sz k 0 0
  | SFree id => a_with_recs a (drop id (a_recs a))
  | SRealloc id sz => a_store (a_with_recs a (drop id (a_recs a))) id sz 2 0 0
  | _ => a
  end.

Lemma live_addrs x l : live x l = existsb (N.eqb x) (addrs l).
Proof. unfold live, addrs. induction l as [|n l IH]; [reflexivity|]. cbn [existsb map]. rewrite IH. unfold has_addr. rewrite (N.eqb_sym x). reflexivity. Qed.
Lemma addrs_drop x l : addrs (drop x l) = filter (fun j => negb (j =? x)) (addrs l).
Proof.
  unfold drop, addrs. induction l as [|n l IH]; [reflexivity|]. cbn [filter map]. unfold has_addr at 1.
  destruct (n_addr n =? x); cbn [negb map filter]; rewrite IH; reflexivity.
Qed.
Lemma a_with_same a : a_with_recs a (a_recs a) = a.
Proof. destruct a; reflexivity. Qed.

Lemma mem_refines : forall A B d a, R d a -> valid_trace (addrs (a_recs a)) (A ++ B) = true ->
  R (fold_left mem_stmt A d) (fold_left astep A a) /\ valid_trace (addrs (a_recs (fold_left astep A a))) B = true.
Proof.
  induction A as [|s r IH]; intros B d a HR HV; [split; assumption|].
  cbn [fold_left app]. destruct s; cbn [valid_trace app] in HV.
  - repeat (apply andb_true_iff in HV; destruct HV as [HV ?]). apply IH.
    + apply store_refines; [assumption|]. rewrite live_addrs. apply negb_true_iff. assumption.
    + assumption.
  - cbn [mem_stmt astep].
    destruct (dealloc_cases d a id HR) as [(Hl & Ed)|(Hl & st' & Ed & HR')]; rewrite Ed; cbn [fst].
    + apply IH.
      * rewrite drop_notin by (apply live_false; assumption). rewrite a_with_same. assumption.
      * cbn [a_with_recs a_recs]. rewrite addrs_drop. assumption.
    + apply IH; [assumption|]. cbn [a_with_recs a_recs]. rewrite addrs_drop. assumption.
  - cbn [mem_stmt astep]. repeat (apply andb_true_iff in HV; destruct HV as [HV ?]).
    assert (Hnl : live id (drop id (a_recs a)) = false).
    { rewrite live_addrs, addrs_drop. apply not_true_iff_false. intros E. apply existsb_exists in E. destruct E as (j & Hj & Ej).
      apply filter_In in Hj. destruct Hj as [_ Hj]. apply N.eqb_eq in Ej. subst j. rewrite N.eqb_refl in Hj. discriminate. }
    destruct (dealloc_cases d a id HR) as [(Hl & Ed)|(Hl & st' & Ed & HR')]; rewrite Ed; cbn [fst].
    + apply IH.
      * apply store_refines; [|exact Hnl]. rewrite drop_notin by (apply live_false; assumption). rewrite a_with_same. assumption.
      * cbn [a_store a_with_recs a_recs addrs map n_addr]. fold (addrs (drop id (a_recs a))). rewrite addrs_drop. assumption.
    + apply IH.
      * apply store_refines; [assumption|exact Hnl].
      * cbn [a_store a_with_recs a_recs addrs map n_addr]. fold (addrs (drop id (a_recs a))). rewrite addrs_drop. assumption.
  - apply IH; assumption.
  - apply andb_true_iff in HV. destruct HV as [_ HV]. apply IH; assumption.
  - apply IH; assumption.
Qed.

(* ------------------------------------------------------------------ 3. the abstract accounting of a statement list, from the text *)
(* the records of the blocks allocated in l and not released later in l (same recursion as `leaked`) *)
Fixpoint nodes (p : stamp) (stg seq : N) (l : list stmt) : list node :=
  match l with
  | [] => []
  | SAlloc id sz k :: r =>
      if existsb (frees id) r then nodes p stg (seq + 1) r else mkNode id sz seq 0 0 k p stg :: nodes p stg (seq + 1) r
  | SRealloc id sz :: r =>
      if existsb (frees id) r then nodes p stg (seq + 1) r else mkNode id sz seq 0 0 2 p stg :: nodes p stg (seq + 1) r
  | _ :: r => nodes p stg seq r
  end.
Definition notfreed (T : list stmt) (n : node) : bool := negb (existsb (frees (n_addr n)) T).

Lemma nodes_leaked p stg : forall l seq, map ent (nodes p stg seq l) = leaked seq l.
Proof.
  induction l as [|s r IH]; intros seq; [reflexivity|].
  destruct s; cbn [nodes leaked]; try apply IH; destruct (existsb (frees id) r); cbn [map]; rewrite IH; reflexivity.
Qed.
Lemma nodes_period p stg : forall l seq n, In n (nodes p stg seq l) -> n_period n = p.
Proof.
  induction l as [|s r IH]; intros seq n H; [destruct H|].
  destruct s; cbn [nodes] in H; try (eapply IH; eassumption);
    (destruct (existsb (frees id) r); [eapply IH; eassumption|]; destruct H as [<-|H]; [reflexivity|eapply IH; eassumption]).
Qed.
Lemma nodes_demote stg : forall l seq, map demote (nodes SChecking stg seq l) = nodes SEnabled stg seq l.
Proof.
  induction l as [|s r IH]; intros seq; [reflexivity|].
  destruct s; cbn [nodes]; try apply IH; destruct (existsb (frees id) r); cbn [map]; rewrite IH; reflexivity.
Qed.

Lemma filter_notfreed_free id r recs :
  filter (notfreed (SFree id :: r)) recs = filter (notfreed r) (drop id recs).
Proof.
  induction recs as [|n l IH]; [reflexivity|]. unfold drop in *. cbn [filter]. rewrite IH.
  unfold notfreed at 1. cbn [existsb frees]. unfold has_addr. rewrite (N.eqb_sym id).
  destruct (n_addr n =? id); cbn [orb negb filter]; [reflexivity|]. unfold notfreed. reflexivity.
Qed.

Lemma filter_notfreed_realloc id sz r recs :
  filter (notfreed (SRealloc id sz :: r)) recs = filter (notfreed r) (drop id recs).
Proof.
  induction recs as [|n l IH]; [reflexivity|]. unfold drop in *. cbn [filter]. rewrite IH.
  unfold notfreed at 1. cbn [existsb frees]. unfold has_addr. rewrite (N.eqb_sym id).
  destruct (n_addr n =? id); cbn [orb negb filter]; [reflexivity|]. unfold notfreed. reflexivity.
Qed.

Lemma aexec_formula : forall T a,
  let a' := fold_left astep T a in
  a_recs a' = rev (nodes (a_period a) (a_stage a) (a_seq a) T) ++ filter (notfreed T) (a_recs a) /\
  a_seq a' = a_seq a + allocs T /\ a_period a' = a_period a /\ a_stage a' = a_stage a.
Proof.
  induction T as [|s r IH]; intros a; cbn zeta.
  - cbn. rewrite N.add_0_r. repeat split; try reflexivity. symmetry. apply filter_all. intros; reflexivity.
  - cbn [fold_left]. destruct (IH (astep a s)) as (E1 & E2 & E3 & E4). rewrite E1, E2, E3, E4. clear IH E1 E2 E3 E4.
    destruct s; cbn [astep a_store a_with_recs a_recs a_seq a_period a_stage nodes]; unfold allocs; cbn [filter is_alloc].
    + rewrite len_cons. repeat split; try reflexivity; try lia.
      cbn [filter]. unfold notfreed at 1. cbn [n_addr].
      replace (filter (notfreed (SAlloc id size kind :: r)) (a_recs a)) with (filter (notfreed r) (a_recs a))
        by (apply filter_ext; intros n; unfold notfreed; reflexivity).
      destruct (existsb (frees id) r); cbn [negb]; [reflexivity|]. cbn [rev]. rewrite <- app_assoc. reflexivity.
    + repeat split; try reflexivity. rewrite filter_notfreed_free. reflexivity.
    + rewrite len_cons. repeat split; try reflexivity; try lia.
      cbn [filter]. unfold notfreed at 1. cbn [n_addr]. rewrite filter_notfreed_realloc.
      destruct (existsb (frees id) r); cbn [negb]; [reflexivity|]. cbn [rev]. rewrite <- app_assoc. reflexivity.
    + repeat split; reflexivity.
    + repeat split; reflexivity.
    + repeat split; reflexivity.
Qed.

(* composition: the records of T0 ++ T *)
Lemma allocs_app x y : allocs (x ++ y) = allocs x + allocs y.
Proof. unfold allocs. rewrite filter_app. apply len_app. Qed.

Lemma nodes_app p stg : forall T0 T seq,
  nodes p stg seq (T0 ++ T) = filter (notfreed T) (nodes p stg seq T0) ++ nodes p stg (seq + allocs T0) T.
Proof.
  induction T0 as [|s r IH]; intros T seq.
  - cbn. unfold allocs. cbn. rewrite N.add_0_r. reflexivity.
  - destruct s; cbn [app nodes]; unfold allocs; cbn [filter is_alloc]; fold (allocs r); try apply IH;
      (rewrite len_cons; fold (allocs r); rewrite existsb_app;
       replace (seq + (allocs r + 1)) with (seq + 1 + allocs r) by lia;
       destruct (existsb (frees id) r) eqn:E1; cbn [orb];
       [apply IH|cbn [filter]; unfold notfreed at 1; cbn [n_addr]; destruct (existsb (frees id) T); cbn [negb app]; rewrite IH; reflexivity]).
Qed.
