(* C09 -- by-content values at the edges of their representation: the address-level run (partial memory, nothing at address 0,
   the loops of MemCmp and of SimpleString(const char* )) never reads outside an object and answers by the contents alone. *)
From Coq Require Import ZArith NArith Bool List Lia.
From CppUVerif Require Import lib.CInt lib.Dbl lib.Str C09_Model C09_Proofs C09_AliasProofs C09_Access C09_Reuse C09_ReuseProofs C09_Edge.
Import ListNotations.
Local Open Scope Z_scope.

Lemma arena_base_pos : 0 < arena_base.
Proof. unfold arena_base, heap_base. lia. Qed.

Lemma mem_at_off ar o : (o < length ar)%nat -> mem_at ar (arena_base + Z.of_nat o) = Some (nth o ar 0%N).
Proof.
  intro H. unfold mem_at.
  assert (E1 : (arena_base <=? arena_base + Z.of_nat o) = true) by (apply Z.leb_le; lia).
  assert (E2 : (arena_base + Z.of_nat o <? arena_base + Z.of_nat (length ar)) = true) by (apply Z.ltb_lt; lia).
  rewrite E1, E2. cbn [andb].
  replace (arena_base + Z.of_nat o - arena_base) with (Z.of_nat o) by lia.
  rewrite Nat2Z.id. reflexivity.
Qed.

Lemma mem_at_null ar : mem_at ar 0 = None.
Proof.
  unfold mem_at. assert (E : (arena_base <=? 0) = false) by (apply Z.leb_gt; apply arena_base_pos).
  rewrite E. reflexivity.
Qed.

Lemma ref_addr_off_nonzero o : (ref_addr (ROff o) =? 0) = false.
Proof. apply Z.eqb_neq. cbn [ref_addr]. pose proof arena_base_pos. lia. Qed.

(* MemCmp over n bytes at two addresses inside the arena = equality of the two windows; no read outside the arena *)
Lemma memcmp_z_arena ar : forall n oa ob,
  (oa + n <= length ar)%nat -> (ob + n <= length ar)%nat ->
  memcmp_z (mem_at ar) (arena_base + Z.of_nat oa) (arena_base + Z.of_nat ob) n = Some (bytes_eqb (slice oa n ar) (slice ob n ar)).
Proof.
  induction n as [|n IH]; intros oa ob Ha Hb.
  - reflexivity.
  - cbn [memcmp_z]. rewrite (mem_at_off ar oa) by lia. rewrite (mem_at_off ar ob) by lia.
    rewrite (slice_S ar oa n) by lia. rewrite (slice_S ar ob n) by lia. cbn [bytes_eqb].
    destruct (N.eqb (nth oa ar 0%N) (nth ob ar 0%N)); cbn [andb]; [|reflexivity].
    replace (arena_base + Z.of_nat oa + 1) with (arena_base + Z.of_nat (S oa)) by lia.
    replace (arena_base + Z.of_nat ob + 1) with (arena_base + Z.of_nat (S ob)) by lia.
    apply IH; lia.
Qed.

Lemma ref_bytes_length ar r l : ref_ok ar r l = true -> length (ref_bytes ar r l) = l.
Proof.
  destruct r as [|o]; cbn [ref_ok ref_bytes]; intro H.
  - apply Nat.eqb_eq in H. subst. reflexivity.
  - apply Nat.leb_le in H. apply slice_length. assumption.
Qed.

Lemma ref_bytes_zero ar r : ref_bytes ar r 0 = [].
Proof. destruct r; reflexivity. Qed.

(* the buffer branch of equals at addresses (NULL included) = equals on the contents *)
Lemma buf_equals_content ar ra la rb lb :
  ref_ok ar ra la = true -> ref_ok ar rb lb = true ->
  buf_equals memcmp_z (mem_at ar) (ref_addr ra) la (ref_addr rb) lb = Some (equals (VMem (ref_bytes ar ra la)) (VMem (ref_bytes ar rb lb))).
Proof.
  intros Ha Hb. unfold buf_equals. cbn [equals].
  rewrite (ref_bytes_length ar ra la Ha), (ref_bytes_length ar rb lb Hb).
  destruct (Nat.eqb_spec la lb) as [E|E]; cbn [negb].
  - subst lb. rewrite Z.eqb_refl. cbn [andb].
    destruct la as [|n].
    + rewrite !ref_bytes_zero. reflexivity.
    + destruct ra as [|oa]; [discriminate Ha|]. destruct rb as [|ob]; [discriminate Hb|].
      cbn [ref_ok] in Ha, Hb. apply Nat.leb_le in Ha. apply Nat.leb_le in Hb.
      cbn [ref_addr ref_bytes]. apply memcmp_z_arena; assumption.
  - assert (Z : (Z.of_nat la =? Z.of_nat lb) = false) by (apply Z.eqb_neq; lia).
    rewrite Z. reflexivity.
Qed.

(* the C string read from an address of a memory that has a NUL at or after it *)
Lemma cstr_z_list (m : list N) : forall fuel o,
  In 0%N (skipn o m) -> (length m - o <= fuel)%nat ->
  cstr_z (mem_at m) (arena_base + Z.of_nat o) fuel = Some (cut_nul (skipn o m)).
Proof.
  induction fuel as [|f IH]; intros o Hin Hf.
  - exfalso. assert (Hl : (length m <= o)%nat) by lia. rewrite (skipn_all2 m Hl) in Hin. exact Hin.
  - assert (Ho : (o < length m)%nat).
    { destruct (Nat.lt_ge_cases o (length m)) as [L|L]; [exact L|]. rewrite (skipn_all2 m L) in Hin. destruct Hin. }
    cbn [cstr_z]. rewrite (mem_at_off m o Ho). rewrite (skipn_cons_nth m o Ho) in *. cbn [cut_nul].
    destruct (N.eqb_spec (nth o m 0%N) 0) as [E|E]; [reflexivity|].
    replace (arena_base + Z.of_nat o + 1) with (arena_base + Z.of_nat (S o)) by lia.
    rewrite IH; [reflexivity | | lia].
    destruct Hin as [Hin|Hin]; [congruence | exact Hin].
Qed.

Lemma sstring_z_content ar r :
  ref_ok ar r 0 = true -> sstring_z (mem_at (ar ++ [0%N])) (ref_addr r) (S (length ar)) = Some (sstr (ref_string ar r)).
Proof.
  destruct r as [|o]; cbn [ref_ok ref_string]; intro H.
  - reflexivity.
  - apply Nat.leb_le in H. rewrite Nat.add_0_r in H.
    unfold sstring_z. rewrite ref_addr_off_nonzero. cbn [ref_addr].
    rewrite cstr_z_list.
    + rewrite skipn_app_le by assumption. cbn [sstr]. rewrite cut_nul_app_nul. reflexivity.
    + rewrite skipn_app_le by assumption. apply in_or_app. right. left. reflexivity.
    + rewrite app_length. cbn [length]. lia.
Qed.

Lemma str_equals_content ar ra rb :
  ref_ok ar ra 0 = true -> ref_ok ar rb 0 = true ->
  str_equals_z (mem_at (ar ++ [0%N])) (ref_addr ra) (ref_addr rb) (S (length ar)) = Some (equals (VStr (ref_string ar ra)) (VStr (ref_string ar rb))).
Proof. intros Ha Hb. unfold str_equals_z. rewrite !sstring_z_content by assumption. reflexivity. Qed.

(* the address-level run = the comparison of the contents, both ways; never a read outside an object *)
Lemma e_run_content s : e_valid s = true -> e_run s = Some (equals (fst (e_values s)) (snd (e_values s)), equals (snd (e_values s)) (fst (e_values s))).
Proof.
  destruct s as [i ar ra la rb lb|i ar ra rb|i a b]; cbn [e_valid e_values fst snd]; intro H.
  - apply andb_true_iff in H. destruct H as [Ha Hb]. unfold e_run, e_run_with.
    rewrite (buf_equals_content ar ra la rb lb Ha Hb), (buf_equals_content ar rb lb ra la Hb Ha). reflexivity.
  - apply andb_true_iff in H. destruct H as [Ha Hb]. unfold e_run, e_run_with.
    rewrite (str_equals_content ar ra rb Ha Hb), (str_equals_content ar rb ra Hb Ha). reflexivity.
  - reflexivity.
Qed.

Lemma e_values_valid s : e_valid s = true -> valid (fst (e_values s)) = true /\ valid (snd (e_values s)) = true.
Proof.
  destruct s; cbn [e_valid e_values fst snd valid]; intro H; [split; reflexivity | split; reflexivity | apply andb_true_iff in H; exact H].
Qed.

Lemma eq_ok_equals a b : valid a = true -> valid b = true -> eq_ok (math_equal a b) (equals a b) = true.
Proof.
  intros Ha Hb. unfold eq_ok. destruct (math_equal a b) as [e|] eqn:E; [|reflexivity].
  rewrite (equals_math a b e Ha Hb E). apply eqb_reflx.
Qed.

Lemma e_run_meets_spec s : e_valid s = true -> e_spec s (e_run s) = true.
Proof.
  intro H. rewrite (e_run_content s H). destruct (e_values_valid s H) as [Ha Hb].
  unfold e_spec. destruct (e_values s) as [v w]. cbn [fst snd] in *.
  rewrite (eq_ok_equals v w Ha Hb), (eq_ok_equals w v Hb Ha). reflexivity.
Qed.

Lemma w_run_meets_spec s : w_valid s = true -> w_spec s (w_run s) = true.
Proof.
  destruct s as [s|e]; cbn [w_valid w_run w_spec]; intro H.
  - exact (z_run_meets_spec s H).
  - exact (e_run_meets_spec e H).
Qed.

(* ---- the statements about the edges ---- *)

Lemma edge_no_fault s : e_valid s = true -> e_run s <> None.
Proof. intro H. rewrite (e_run_content s H). discriminate. Qed.

(* two buffers of size 0 are equal, in both directions, through every interface, whatever the two addresses are:
   NULL on either side, on both, anywhere in an object, one past its end *)
Lemma edge_empty_buffers_equal i ar ra rb :
  ref_ok ar ra 0 = true -> ref_ok ar rb 0 = true -> e_run (EMem i ar ra 0 rb 0) = Some (true, true).
Proof. intros Ha Hb. reflexivity. Qed.

Lemma edge_mem_equal_iff i ar ra la rb lb :
  ref_ok ar ra la = true -> ref_ok ar rb lb = true ->
  option_map fst (e_run (EMem i ar ra la rb lb)) = Some true <-> (la = lb /\ ref_bytes ar ra la = ref_bytes ar rb lb).
Proof.
  intros Ha Hb. rewrite e_run_content by (cbn [e_valid]; rewrite Ha, Hb; reflexivity).
  cbn [e_values fst snd option_map equals].
  rewrite (ref_bytes_length ar ra la Ha), (ref_bytes_length ar rb lb Hb).
  split.
  - intro H. injection H as H. apply andb_true_iff in H. destruct H as [H1 H2].
    apply Z.eqb_eq in H1. apply bytes_eqb_eq in H2. split; [lia | exact H2].
  - intros [H1 H2]. subst lb. rewrite H2, Z.eqb_refl, bytes_eqb_refl. reflexivity.
Qed.

(* the verdict does not depend on the side: memory buffers, strings and every non-double value *)
Definition edge_no_double (s : escenario) : bool :=
  match s with EVal _ a b => negb (is_double a) && negb (is_double b) | _ => true end.
Lemma edge_symmetric s : e_valid s = true -> edge_no_double s = true -> exists b, e_run s = Some (b, b).
Proof.
  intros H Hd. rewrite (e_run_content s H). destruct (e_values_valid s H) as [Ha Hb].
  exists (equals (fst (e_values s)) (snd (e_values s))).
  assert (Hw : is_double (snd (e_values s)) = false).
  { destruct s as [i ar ra la rb lb|i ar ra rb|i a b]; cbn [e_values snd is_double edge_no_double] in *; try reflexivity.
    apply andb_true_iff in Hd. destruct Hd as [_ Hd]. apply negb_true_iff in Hd. exact Hd. }
  rewrite (equals_sym (snd (e_values s)) (fst (e_values s)) Hb Ha Hw). reflexivity.
Qed.

(* the three interfaces answer alike *)
Lemma edge_interface_irrelevant i s : e_run (with_iface i s) = e_run s.
Proof. destruct s; reflexivity. Qed.

(* two scenarios that denote the same contents -- whatever the arenas, the offsets, NULL or not, the interface -- are answered alike *)
Lemma edge_placement_irrelevant s1 s2 :
  e_valid s1 = true -> e_valid s2 = true -> e_values s1 = e_values s2 -> e_run s1 = e_run s2.
Proof. intros H1 H2 E. rewrite (e_run_content s1 H1), (e_run_content s2 H2), E. reflexivity. Qed.

(* buffers that differ in the last byte only / in the length only *)
Lemma bytes_eqb_app_last x : forall a b, bytes_eqb (x ++ [a]) (x ++ [b]) = N.eqb a b.
Proof.
  induction x as [|c r IH]; intros a b; cbn [app bytes_eqb].
  - apply andb_true_r.
  - rewrite N.eqb_refl. cbn [andb]. apply IH.
Qed.
Lemma edge_last_byte_differs x a b : a <> b -> equals (VMem (x ++ [a])) (VMem (x ++ [b])) = false.
Proof.
  intro H. cbn [equals]. rewrite bytes_eqb_app_last. apply N.eqb_neq in H. rewrite H. apply andb_false_r.
Qed.
Lemma edge_length_differs x y : y <> [] -> equals (VMem x) (VMem (x ++ y)) = false /\ equals (VMem (x ++ y)) (VMem x) = false.
Proof.
  intro H. cbn [equals]. rewrite app_length.
  assert (L : (0 < length y)%nat) by (destruct y; [contradiction | cbn; lia]).
  assert (E1 : (Z.of_nat (length x) =? Z.of_nat (length x + length y)) = false) by (apply Z.eqb_neq; lia).
  assert (E2 : (Z.of_nat (length x + length y) =? Z.of_nat (length x)) = false) by (apply Z.eqb_neq; lia).
  rewrite E1, E2. split; reflexivity.
Qed.

(* what the code does with a NULL char pointer (the property does not speak of it; e_spec leaves it open): it is never read
   through, and compares as the empty string does *)
Lemma edge_null_string_as_empty i ar r :
  ref_ok ar r 0 = true ->
  e_run (EStr i ar RNull r) = Some (bytes_eqb [] (sstr (ref_string ar r)), bytes_eqb (sstr (ref_string ar r)) []).
Proof.
  intro H. rewrite e_run_content by (cbn [e_valid ref_ok Nat.eqb andb]; exact H). reflexivity.
Qed.

(* ---- variants of MemCmp ---- *)

(* looking at the length first changes no answer *)
Lemma len_first_harmless s : e_run_with memcmp_len_first s = e_run s.
Proof.
  destruct s as [i ar ra la rb lb|i ar ra rb|i a b]; try reflexivity.
  unfold e_run, e_run_with, buf_equals, memcmp_len_first.
  destruct la, lb; reflexivity.
Qed.

(* red-team change C09-2 of round 5.  Exact whenever both addresses are NULL or both are not -- every test that does not mix a
   NULL with a non-null empty buffer passes -- and refuted by (NULL, 0) against (non-null, 0) *)
Lemma nullguard_exact_unless_one_null i ar ra la rb lb :
  ref_ok ar ra la = true -> ref_ok ar rb lb = true -> (ra = RNull <-> rb = RNull) ->
  e_run_with memcmp_nullguard (EMem i ar ra la rb lb) = e_run (EMem i ar ra la rb lb).
Proof.
  intros Ha Hb Hn. unfold e_run, e_run_with, buf_equals, memcmp_nullguard.
  destruct ra as [|oa], rb as [|ob].
  - cbn [ref_ok] in Ha, Hb. apply Nat.eqb_eq in Ha. apply Nat.eqb_eq in Hb. subst. reflexivity.
  - exfalso. assert (E : ROff ob = RNull) by (apply Hn; reflexivity). discriminate E.
  - exfalso. assert (E : ROff oa = RNull) by (apply Hn; reflexivity). discriminate E.
  - rewrite !ref_addr_off_nonzero. reflexivity.
Qed.

Definition nullguard_stmt : Prop := forall s, e_valid s = true -> e_spec s (e_run_with memcmp_nullguard s) = true.
Lemma nullguard_refuted : ~ nullguard_stmt.
Proof.
  intro H. specialize (H (EMem IEquals [] RNull 0 (ROff 0) 0) eq_refl). discriminate H.
Qed.

(* ---- non-vacuity ---- *)
Example ex_edge_null_vs_nonnull_empty :
  e_valid (EMem IMockCpp [1;2;3;4]%N RNull 0 (ROff 0) 0) = true
  /\ e_run (EMem IMockCpp [1;2;3;4]%N RNull 0 (ROff 0) 0) = Some (true, true)
  /\ e_run (EMem IMockC [1;2;3;4]%N (ROff 4) 0 RNull 0) = Some (true, true)
  /\ e_run (EMem IEquals [] RNull 0 RNull 0) = Some (true, true)
  /\ e_run_with memcmp_nullguard (EMem IMockCpp [1;2;3;4]%N RNull 0 (ROff 0) 0) = Some (false, false).
Proof. repeat split; reflexivity. Qed.
(* a NULL address with a size that is not 0 is no buffer: outside the valid scenarios, and the code reads through it *)
Example ex_edge_null_with_size_faults :
  e_valid (EMem IEquals [1;2]%N RNull 1 RNull 1) = false /\ e_run (EMem IEquals [1;2]%N RNull 1 RNull 1) = None.
Proof. split; reflexivity. Qed.
Example ex_edge_same_object_and_last_byte :
  e_run (EMem IEquals [1;2;3;4]%N (ROff 0) 4 (ROff 0) 4) = Some (true, true)
  /\ e_run (EMem IEquals [1;2;3;4;1;2;3;5]%N (ROff 0) 4 (ROff 4) 4) = Some (false, false)
  /\ e_run (EMem IEquals [1;2;3;4;1;2;3;5]%N (ROff 0) 3 (ROff 4) 3) = Some (true, true)
  /\ e_run (EMem IEquals [1;2;3;4;1;2;3;5]%N (ROff 0) 3 (ROff 4) 4) = Some (false, false).
Proof. repeat split; reflexivity. Qed.
Example ex_edge_strings :
  e_run (EStr IMockCpp [97;0;98]%N RNull (ROff 1)) = Some (true, true)
  /\ e_run (EStr IMockCpp [97;0;98]%N RNull (ROff 0)) = Some (false, false)
  /\ e_run (EStr IEquals [97;0;97]%N (ROff 0) (ROff 2)) = Some (true, true)
  /\ e_spec (EStr IMockCpp [97;0;98]%N RNull (ROff 0)) (Some (true, false)) = true.
Proof. repeat split; reflexivity. Qed.
Example ex_edge_values :
  e_valid (EVal IMockC (VInt TInt (-1)) (VInt TULLong 18446744073709551615)) = true
  /\ e_run (EVal IMockC (VInt TInt (-1)) (VInt TULLong 18446744073709551615)) = Some (false, false)
  /\ e_run (EVal IMockCpp (VInt TInt 7) (VInt TULLong 7)) = Some (true, true)
  /\ e_run (EVal IMockCpp (VMem []) (VStr (Some []))) = Some (false, false)
  /\ edge_no_double (EVal IMockCpp (VMem []) (VStr (Some []))) = true.
Proof. repeat split; reflexivity. Qed.
Example ex_edge_last_byte : equals (VMem ([1;2;3] ++ [4]))%N (VMem ([1;2;3] ++ [5]))%N = false
  /\ equals (VMem [1;2;3]%N) (VMem ([1;2;3] ++ [4])%N) = false.
Proof. split; reflexivity. Qed.
Example ex_w_scenario : w_valid (WEdge (EMem IMockCpp [] RNull 0 (ROff 0) 0)) = true
  /\ w_spec (WEdge (EMem IMockCpp [] RNull 0 (ROff 0) 0)) (QEdge (Some (false, false))) = false
  /\ w_spec (WEdge (EMem IMockCpp [] RNull 0 (ROff 0) 0)) (QEdge None) = false.
Proof. repeat split; reflexivity. Qed.
