(* C09 -- Mock parameter values compare by mathematical value, symmetrically.
   Only statements; every proof is `exact <lemma>` into C09_Proofs.v. *)
From Coq Require Import ZArith Bool List.
From CppUVerif Require Import lib.CInt lib.Dbl lib.Str C09_Model C09_Proofs.
Local Open Scope Z_scope.

(* two integer values of any of the 6x6 type pairs are equal iff they denote the same integer *)
Theorem C09_int_equal_iff : forall t1 t2 z1 z2,
  in_range t1 z1 = true -> in_range t2 z2 = true ->
  equals (VInt t1 z1) (VInt t2 z2) = (z1 =? z2).
Proof. exact int_equals_math. Qed.
Print Assumptions C09_int_equal_iff.

(* the answer does not depend on which side is the expectation (all non-double values) *)
Theorem C09_symmetric : forall a b,
  valid a = true -> valid b = true -> is_double a = false -> equals a b = equals b a.
Proof. exact equals_sym. Qed.
Print Assumptions C09_symmetric.

(* values of different kinds never compare equal *)
Theorem C09_cross_type_false : forall a b, same_kind a b = false -> equals a b = false.
Proof. exact cross_type_false. Qed.
Print Assumptions C09_cross_type_false.

(* bool/pointer/function pointer by identity, strings by content, buffers by length and content, NaN equals nothing *)
Theorem C09_equals_math : forall a b e,
  valid a = true -> valid b = true -> math_equal a b = Some e -> equals a b = e.
Proof. exact equals_math. Qed.
Print Assumptions C09_equals_math.

(* a getter returns exactly the stored integer or fails the test -- never a different number *)
Theorem C09_getter_exact : forall g t z z',
  in_range t z = true -> get g (VInt t z) = Some z' -> z' = z.
Proof. exact getter_exact. Qed.
Print Assumptions C09_getter_exact.

Theorem C09_getter_total_on_fit : forall g t z,
  in_range t z = true -> accepts g t = true -> in_range (gty g) z = true -> get g (VInt t z) = Some z.
Proof. exact getter_total_on_fit. Qed.
Print Assumptions C09_getter_total_on_fit.

Theorem C09_getter_rejects_unfit : forall g t z,
  in_range t z = true -> in_range (gty g) z = false -> get g (VInt t z) = None.
Proof. exact getter_rejects_unfit. Qed.
Print Assumptions C09_getter_rejects_unfit.

(* the code as it was before the `fix:` commit for D18 violated getter exactness *)
Theorem C09_getter_exact_old_refuted :
  ~ (forall t z z', in_range t z = true -> get_llong_old (VInt t z) = Some z' -> z' = z).
Proof. exact getter_exact_old_refuted. Qed.
Print Assumptions C09_getter_exact_old_refuted.

(* the executable oracle used on the implementation's observations accepts every model observation *)
Theorem C09_run_meets_spec : forall a b, valid a = true -> valid b = true -> spec a b (run a b) = true.
Proof. exact run_meets_spec. Qed.
Print Assumptions C09_run_meets_spec.
