(* C01 -- lemmas about the buffered stream and the console observations (C01_Console.v). *)
From Coq Require Import NArith ZArith Bool List Lia ZifyBool.
From CppUVerif Require Import gen.Gen_Common lib.CInt C01_Model C01_Proofs C01_Console.
Import ListNotations.
Local Open Scope Z_scope.

(* ================================================================== the stream *)
Lemma puts_app a b : puts (a ++ b) = puts a ++ puts b.
Proof. induction a as [|x a IH]; [reflexivity|]. destruct x; cbn; rewrite IH; reflexivity. Qed.

(* ---- the code's discipline: a flush after every fputs.  Every buffer is empty between two prints: fork copies an empty buffer,
   _exit drops an empty buffer, whatever the capacity. *)
Definition clean (s : stdio) : Prop := io_parent s = [] /\ (io_child s = None \/ io_child s = Some []).
Lemma io_step_flush_each d cap o s : d_flush_each d = true -> clean s ->
  clean (io_step d cap o s) /\ io_file (io_step d cap o s) = io_file s ++ puts [o].
Proof.
  intros FE [P C]. destruct s as [pb cb f]. cbn [io_parent io_child io_file] in *. subst pb.
  destruct o as [c| |]; cbn [io_step io_parent io_child io_file puts]; unfold wr; rewrite ?FE; cbn [orb].
  - destruct C as [-> | ->]; cbn [io_parent io_child io_file app]; (split; [split; [reflexivity | auto] | reflexivity]).
  - destruct (d_fork_flushes d); cbn [io_parent io_child io_file]; rewrite ?app_nil_r; (split; [split; [reflexivity | auto] | reflexivity]).
  - destruct C as [-> | ->]; cbn [io_parent io_child io_file]; [rewrite app_nil_r; split; [split; auto | reflexivity]|].
    destruct (d_exit_flushes d); rewrite ?app_nil_r; (split; [split; auto | reflexivity]).
Qed.
Lemma io_run_flush_each d cap : d_flush_each d = true -> forall ops s, clean s ->
  clean (io_run d cap ops s) /\ io_file (io_run d cap ops s) = io_file s ++ puts ops.
Proof.
  intro FE. induction ops as [|o ops IH]; intros s C.
  - cbn. rewrite app_nil_r. auto.
  - cbn [io_run fold_left]. destruct (io_step_flush_each d cap o s FE C) as [C1 F1].
    destruct (IH _ C1) as [C2 F2]. split; [exact C2|]. unfold io_run in F2. rewrite F2, F1, <- app_assoc.
    change (o :: ops) with ([o] ++ ops). rewrite puts_app. reflexivity.
Qed.
Theorem stdio_flush_each d cap ops : d_flush_each d = true -> stdio_run d cap ops = puts ops.
Proof.
  intro FE. unfold stdio_run. destruct (io_run_flush_each d cap FE ops io0) as [[P _] F]; [split; [reflexivity | left; reflexivity]|].
  rewrite P, F, app_nil_r. reflexivity.
Qed.

(* ---- another discipline that is also right: no flush per print, but the stream is flushed before fork and the child writes its
   buffer out when it leaves.  Needs the shape of the operations: forks are not nested, only a living child leaves, and the child
   has left when the runner ends (the runner waits for it). *)
Fixpoint wf (alive : bool) (ops : list op) : bool :=
  match ops with
  | [] => negb alive
  | OPut _ :: r => wf alive r
  | OFork :: r => negb alive && wf true r
  | OChildExit :: r => alive && wf false r
  end.
Definition holds_so_far (alive : bool) (s : stdio) (acc : list chunk) : Prop :=
  if alive then exists cb, io_child s = Some cb /\ io_parent s = [] /\ io_file s ++ cb = acc
  else io_child s = None /\ io_file s ++ io_parent s = acc.
Lemma io_run_fork_exit d cap : d_fork_flushes d = true -> d_exit_flushes d = true ->
  forall ops alive s acc, wf alive ops = true -> holds_so_far alive s acc ->
  let s' := io_run d cap ops s in io_child s' = None /\ io_file s' ++ io_parent s' = acc ++ puts ops.
Proof.
  intros FF EF. induction ops as [|o ops IH]; intros alive s acc W H.
  - cbn in W. destruct alive; [discriminate W|]. cbn. rewrite app_nil_r. exact H.
  - cbn [io_run fold_left]. destruct o as [c| |]; cbn [wf] in W.
    + change (puts (OPut c :: ops)) with ([c] ++ puts ops). rewrite app_assoc.
      apply (IH alive); [exact W|]. destruct s as [pb cb f]. destruct alive; cbn [holds_so_far io_step io_child io_parent io_file] in *.
      * destruct H as [cb0 [-> [-> H]]]. unfold wr. destruct (d_flush_each d || (cap <? length (cb0 ++ [c]))%nat);
          cbn [io_child io_parent io_file]; eexists; (split; [reflexivity|]); (split; [reflexivity|]); rewrite <- H, ?app_nil_r, <- ?app_assoc; reflexivity.
      * destruct H as [-> H]. unfold wr. destruct (d_flush_each d || (cap <? length (pb ++ [c]))%nat);
          cbn [io_child io_parent io_file]; (split; [reflexivity|]); rewrite <- H, ?app_nil_r, <- ?app_assoc; reflexivity.
    + apply andb_true_iff in W. destruct W as [A W]. destruct alive; [discriminate A|]. cbn [puts].
      apply (IH true); [exact W|]. destruct H as [_ H]. cbn [io_step]. rewrite FF. cbn [holds_so_far io_child io_parent io_file].
      exists []. rewrite app_nil_r. auto.
    + apply andb_true_iff in W. destruct W as [A W]. destruct alive; [|discriminate A]. cbn [puts].
      apply (IH false); [exact W|]. destruct H as [cb [C [P H]]]. cbn [io_step]. rewrite C, EF. cbn [holds_so_far io_child io_parent io_file].
      rewrite P, app_nil_r. auto.
Qed.
Theorem stdio_fork_exit d cap ops : d_fork_flushes d = true -> d_exit_flushes d = true -> wf false ops = true ->
  stdio_run d cap ops = puts ops.
Proof.
  intros FF EF W. unfold stdio_run.
  destruct (io_run_fork_exit d cap FF EF ops false io0 [] W) as [_ H]; [split; reflexivity|]. exact H.
Qed.

(* ---- which disciplines put every chunk into the file exactly once, in order: exactly those two *)
Definition once_stmt (d : disc) : Prop := forall cap ops, wf false ops = true -> stdio_run d cap ops = puts ops.
Definition right_disc (d : disc) : bool := d_flush_each d || (d_fork_flushes d && d_exit_flushes d).
Definition rA : frec := mkF 0 0 100 1.
Definition rB : frec := mkF 1 1 110 0.
(* the child's record is lost: nothing flushes it before _exit *)
Definition ops_lost : list op := [OFork; OPut (KRec rB); OChildExit].
(* the runner's record is written twice: the child inherits it and writes it out (full buffer, or flush on leaving) and so does the runner *)
Definition ops_dup : list op := [OPut (KRec rA); OFork; OPut (KRec rB); OChildExit].
Theorem once_iff d : once_stmt d <-> right_disc d = true.
Proof.
  split.
  - intro H. destruct d as [fe ff ef]. unfold right_disc. cbn [d_flush_each d_fork_flushes d_exit_flushes].
    destruct fe; [reflexivity|]. destruct ff, ef; cbn [orb andb]; try reflexivity; exfalso.
    + specialize (H 10%nat ops_lost eq_refl). vm_compute in H. discriminate H.
    + specialize (H 10%nat ops_dup eq_refl). vm_compute in H. discriminate H.
    + specialize (H 10%nat ops_lost eq_refl). vm_compute in H. discriminate H.
  - intros R cap ops W. unfold right_disc in R. apply orb_true_iff in R. destruct R as [R|R].
    + apply stdio_flush_each; exact R.
    + apply andb_true_iff in R. destruct R. apply stdio_fork_exit; assumption.
Qed.
(* the seeded change (printBuffer without flush, everything else as in /repo): a record printed by the child appears zero times;
   with a full buffer in the child a record printed by the runner before the fork appears twice *)
Definition noflush_disc : disc := mkDisc false false false.
Definition count_rec (f : frec) (l : list chunk) : nat :=
  length (filter (fun c => match c with KRec g => frec_eqb f g | _ => false end) l).
Lemma noflush_loses : count_rec rB (puts ops_lost) = 1%nat /\ count_rec rB (stdio_run noflush_disc 10 ops_lost) = 0%nat.
Proof. split; vm_compute; reflexivity. Qed.
Lemma noflush_duplicates : count_rec rA (puts ops_dup) = 1%nat /\ count_rec rA (stdio_run noflush_disc 1 ops_dup) = 2%nat.
Proof. split; vm_compute; reflexivity. Qed.
Theorem noflush_refuted : ~ once_stmt noflush_disc.
Proof. intro H. apply once_iff in H. discriminate H. Qed.

(* ================================================================== the console observations: closed forms *)
Lemma items_of_app a b : items_of (a ++ b) = items_of a ++ items_of b.
Proof. unfold items_of. apply flat_map_app. Qed.
Lemma puts_put_recs l : puts (put_recs l) = map KRec l.
Proof. unfold put_recs. induction l as [|x l IH]; cbn; [reflexivity|]. rewrite IH. reflexivity. Qed.
Lemma items_of_recs l : items_of (map KRec l) = map FRec l.
Proof. induction l as [|x l IH]; cbn; [reflexivity|]. unfold items_of in IH. rewrite IH. reflexivity. Qed.

(* the file as a sequence of repetitions: the records of each, then its summary *)
Definition file_items (segs : list (list frec * summary)) : list fitem :=
  flat_map (fun sg => map FRec (fst sg) ++ [FSum (snd sg)]) segs.
Lemma split_sums_recs a : forall l acc, split_sums (map FRec a ++ l) acc = split_sums l (acc ++ a).
Proof.
  induction a as [|x a IH]; intros l acc; cbn [map app split_sums]; [rewrite app_nil_r; reflexivity|].
  rewrite IH, <- app_assoc. reflexivity.
Qed.
Lemma split_sums_file segs : split_sums (file_items segs) [] = (segs, []).
Proof.
  induction segs as [|[a m] segs IH]; [reflexivity|]. unfold file_items in *. cbn [flat_map fst snd]. rewrite <- app_assoc, split_sums_recs.
  cbn [app split_sums]. rewrite IH. reflexivity.
Qed.

(* ---- one process *)
Definition seg_in (cfg : config) (tests : list test) : list frec * summary :=
  (rep_fails cfg (number 0%N tests), mk_summary (rep_counts cfg (number 0%N tests))).
Lemma rep_ops_model multi cfg tests j :
  items_of (puts (rep_ops multi j (rep_model cfg tests))) = map FRec (fst (seg_in cfg tests)) ++ [FSum (snd (seg_in cfg tests))].
Proof.
  unfold rep_ops, rep_model, rep_obs_of, rep_state, seg_in. cbn [r_fails r_summary out cn is_normal fst snd].
  rewrite tests_fails, !puts_app, puts_put_recs, !items_of_app, items_of_recs. destruct multi; reflexivity.
Qed.
Lemma reps_ops_model multi cfg tests : forall n loop,
  items_of (puts (reps_ops multi loop (map (fun j => rep_model cfg (prog_at j tests)) (idx_from loop n)))) =
  file_items (map (fun j => seg_in cfg (prog_at j tests)) (idx_from loop n)).
Proof.
  induction n as [|n IH]; intro loop; [reflexivity|]. cbn [idx_from map reps_ops]. rewrite puts_app, items_of_app, rep_ops_model, IH. reflexivity.
Qed.

(* ---- every test in a forked child *)
Definition sep_failed_test (i : N) (t : test) : bool := negb (is_nil (want_fails i t)).
Definition sep_test_cnt (i : N) (t : test) : cnt := cadd one_run (if sep_failed_test i t then one_fail else czero).
Definition sep_test_ops (i : N) (t : test) : list op :=
  [OFork] ++ put_recs (want_fails i t) ++ [OChildExit] ++ (if sep_failed_test i t then [OPut (KRec (sep_record i t))] else []).

Lemma k_fail_cadd a b : k_fail (cadd a b) = (k_fail a + k_fail b)%N. Proof. reflexivity. Qed.
Lemma is_nil_length {A} (l : list A) : is_nil l = (N.of_nat (length l) =? 0)%N.
Proof. destruct l; cbn [is_nil length]; [reflexivity|]. symmetry. apply N.eqb_neq. lia. Qed.

Lemma sep_child_closed exc r i t s : ok_test exc r t = true ->
  sep_child exc r i t s = (want_fails i t, sep_failed_test i t).
Proof.
  intro V. unfold sep_child. rewrite (run_in_process_closed exc r i t _ V). cbn [upd out cn depth app is_normal negb orb].
  rewrite test_fails. f_equal. rewrite k_fail_cadd.
  pose proof (test_cnt_eq i t) as E. unfold test_cnt in E. apply (f_equal k_fail) in E. rewrite k_fail_cadd in E. cbn [k_fail one_run] in E.
  rewrite N.add_0_l in E. rewrite E. unfold sep_failed_test. rewrite is_nil_length.
  destruct (N.eqb_spec (N.of_nat (length (want_fails i t))) 0) as [Z|Z]; cbn [negb]; [rewrite Z; apply N.ltb_ge; lia | apply N.ltb_lt; lia].
Qed.
Lemma run_one_test_sep_closed exc r i t s : ok_test exc r t = true ->
  exists s', run_one_test_sep exc r i t s = (s', sep_test_ops i t) /\
             cn s' = cadd (cn s) (sep_test_cnt i t) /\ depth s' = depth s /\ cur s' = cur s.
Proof.
  intro V. unfold run_one_test_sep. rewrite (sep_child_closed exc r i t _ V).
  unfold setjmp_call, sep_parent, sep_test_ops, sep_test_cnt. destruct (sep_failed_test i t); eexists; (split; [reflexivity|]); norm;
    cbn [cn depth cur upd]; rewrite ?cadd_zero_l, ?cadd_zero_r; (split; [reflexivity|]); split; try reflexivity; lia.
Qed.

Definition sep_step_ops (cfg : config) (v : bool) (i : N) (t : test) : list op :=
  if selected cfg t then (if v then [OPut (KText i)] else []) ++ (if runs cfg t then sep_test_ops i t else []) ++ [OPut (KText i)] else [].
Definition sep_step_cnt (cfg : config) (i : N) (t : test) : cnt :=
  cadd one_test (if selected cfg t then (if runs cfg t then sep_test_cnt i t else one_ign) else one_filt).
Fixpoint sep_ops_closed (cfg : config) (v : bool) (i : N) (l : list test) : list op :=
  match l with [] => [] | t :: r => sep_step_ops cfg v i t ++ sep_ops_closed cfg v (i + 1)%N r end.
Fixpoint sep_cnt_closed (cfg : config) (i : N) (l : list test) : cnt :=
  match l with [] => czero | t :: r => cadd (sep_step_cnt cfg i t) (sep_cnt_closed cfg (i + 1)%N r) end.

Lemma sep_tests_closed exc cfg v : forall l i s, throws_ok exc cfg l = true ->
  exists s', sep_tests exc cfg v i l s = (s', sep_ops_closed cfg v i l) /\ cn s' = cadd (cn s) (sep_cnt_closed cfg i l).
Proof.
  induction l as [|t r IH]; intros i s V.
  - exists s. cbn. rewrite cadd_zero_r. auto.
  - apply throws_ok_cons in V. destruct V as [Vt Vr]. cbn [sep_tests sep_ops_closed sep_cnt_closed].
    unfold sep_step_ops, sep_step_cnt, runs. destruct (selected cfg t).
    + destruct (t_ignored t && negb (c_runign cfg)) eqn:IG.
      * assert (R : negb (t_ignored t) || c_runign cfg = false) by (destruct (t_ignored t), (c_runign cfg); cbn in *; congruence).
        rewrite R. destruct (IH (i + 1)%N (count one_ign (count one_test s)) Vr) as [s' [E C]]. rewrite E. exists s'. split.
        -- rewrite <- !app_assoc. reflexivity.
        -- rewrite C. cbn [count cn]. rewrite !cadd_assoc. reflexivity.
      * assert (R : negb (t_ignored t) || c_runign cfg = true) by (destruct (t_ignored t), (c_runign cfg); cbn in *; congruence).
        rewrite R. destruct (run_one_test_sep_closed exc (c_rethrow cfg) i t (count one_test s) Vt) as [s2 [E2 [C2 _]]]. rewrite E2.
        destruct (IH (i + 1)%N s2 Vr) as [s' [E C]]. rewrite E. exists s'. split.
        -- rewrite <- !app_assoc. reflexivity.
        -- rewrite C, C2. cbn [count cn]. rewrite !cadd_assoc. reflexivity.
    + destruct (IH (i + 1)%N (count one_filt (count one_test s)) Vr) as [s' [E C]]. rewrite E. exists s'. split; [reflexivity|].
      rewrite C. cbn [count cn]. rewrite !cadd_assoc. reflexivity.
Qed.

Definition sep_cnt_at (cfg : config) (tests : list rtest) (j : N) : cnt := sep_cnt_closed cfg 0%N (prog_at j tests).
Fixpoint sep_loop_ops (cfg : config) (v multi : bool) (tests : list rtest) (L : list N) : list op :=
  match L with
  | [] => []
  | j :: L' => (if multi then [OPut (KText j)] else []) ++ sep_ops_closed cfg v 0%N (prog_at j tests)
               ++ [OPut (KSum (mk_summary (sep_cnt_at cfg tests j)))] ++ sep_loop_ops cfg v multi tests L'
  end.
Lemma sep_loop_closed exc cfg v multi tests : (forall j, throws_ok exc cfg (prog_at j tests) = true) ->
  forall n loop s ft fe,
  sep_loop exc cfg v multi tests n loop s ft fe =
  (sep_loop_ops cfg v multi tests (idx_from loop n),
   (ft + sum_fail (sep_cnt_at cfg tests) (idx_from loop n))%N, (fe + n_failed (sep_cnt_at cfg tests) (idx_from loop n))%N).
Proof.
  intro V. induction n as [|n IH]; intros loop s ft fe.
  - cbn [sep_loop idx_from sep_loop_ops]. unfold sum_fail, n_failed. cbn. rewrite !N.add_0_r. reflexivity.
  - cbn [sep_loop]. destruct (sep_tests_closed exc cfg v (prog_at loop tests) 0%N (fresh s) (V loop)) as [s1 [E C]]. rewrite E.
    cbn [fresh cn] in C. rewrite cadd_zero_l in C. fold (sep_cnt_at cfg tests loop) in C. rewrite IH, C. cbn [idx_from sep_loop_ops].
    unfold sum_fail, n_failed. cbn [fold_right filter]. fold (sum_fail (sep_cnt_at cfg tests) (idx_from (loop + 1) n)).
    destruct (is_failure (sep_cnt_at cfg tests loop)); cbn [length];
      (apply f_equal2; [apply f_equal2; [reflexivity | lia] | lia]).
Qed.

(* ---- the -p closed form in the vocabulary of the spec *)
Definition sep_counts (cfg : config) (ts : list (N * test)) : cnt :=
  let c := rep_counts cfg ts in
  mkCnt (k_tests c) (k_run c) 0 (nb (fun it => sep_failed_test (fst it) (snd it)) (filter (started cfg) ts)) (k_filt c) (k_ign c).
Lemma sep_cnt_closed_eq cfg : forall l i, sep_cnt_closed cfg i l = sep_counts cfg (number i l).
Proof.
  induction l as [|t r IH]; intro i; [reflexivity|].
  cbn [sep_cnt_closed]. rewrite (IH (i + 1)%N), number_cons. unfold sep_counts, rep_counts, rep_fails, nb, sep_step_cnt, sep_test_cnt, started.
  cbn [filter fst snd length fold_right flat_map k_tests k_run k_filt k_ign].
  destruct (selected cfg t); cbn [andb negb filter length fold_right flat_map fst snd].
  - destruct (runs cfg t); cbn [andb negb filter length fold_right flat_map fst snd].
    + destruct (sep_failed_test i t); cbn [length]; cnt_eq.
    + cnt_eq.
  - cnt_eq.
Qed.
Lemma sep_test_ops_items i t : items_of (puts (sep_test_ops i t)) = map FRec (sep_test_fails i t).
Proof.
  unfold sep_test_ops, sep_test_fails, sep_failed_test. cbn [app puts]. rewrite puts_app, puts_put_recs, items_of_app, items_of_recs, map_app.
  destruct (is_nil (want_fails i t)); reflexivity.
Qed.
Lemma sep_ops_items cfg v : forall l i, items_of (puts (sep_ops_closed cfg v i l)) = map FRec (sep_fails cfg (number i l)).
Proof.
  induction l as [|t r IH]; intro i; [reflexivity|].
  cbn [sep_ops_closed]. rewrite number_cons. unfold sep_fails in *. cbn [filter]. unfold started at 1. cbn [fst snd].
  rewrite puts_app, items_of_app, IH. unfold sep_step_ops. destruct (selected cfg t); cbn [andb]; [|reflexivity].
  destruct (runs cfg t); cbn [flat_map fst snd]; rewrite !puts_app, !items_of_app.
  - rewrite sep_test_ops_items, map_app. destruct v; cbn [puts items_of flat_map app]; rewrite ?app_nil_r; reflexivity.
  - destruct v; reflexivity.
Qed.

Section FailCount.
  Variable A : Type.
  Variable f : A -> list frec.
  Lemma failed_zero L : (nb (fun x => negb (is_nil (f x))) L =? 0)%N = (N.of_nat (length (flat_map f L)) =? 0)%N.
  Proof.
    induction L as [|x L IH]; [reflexivity|]. rewrite nb_cons. cbn [flat_map]. rewrite app_length.
    destruct (f x) as [|y w]; cbn [is_nil negb length].
    - rewrite N.add_0_l. exact IH.
    - transitivity false; [apply N.eqb_neq; lia | symmetry; apply N.eqb_neq; lia].
  Qed.
  Lemma failed_le L : (nb (fun x => negb (is_nil (f x))) L <= N.of_nat (length (flat_map f L)))%N.
  Proof.
    induction L as [|x L IH]; [cbn; lia|]. rewrite nb_cons. cbn [flat_map]. rewrite app_length.
    destruct (f x) as [|y w]; cbn [is_nil negb length]; lia.
  Qed.
End FailCount.
Lemma sep_fail_zero cfg ts : (k_fail (sep_counts cfg ts) =? 0)%N = (k_fail (rep_counts cfg ts) =? 0)%N.
Proof. unfold sep_counts, rep_counts, rep_fails, sep_failed_test. cbn [k_fail]. apply (failed_zero _ (fun it => want_fails (fst it) (snd it))). Qed.
Lemma sep_fail_le cfg ts : (k_fail (sep_counts cfg ts) <= k_fail (rep_counts cfg ts))%N.
Proof. unfold sep_counts, rep_counts, rep_fails, sep_failed_test. cbn [k_fail]. apply (failed_le _ (fun it => want_fails (fst it) (snd it))). Qed.
Lemma sep_is_ok cfg ts : rep_is_ok (sep_counts cfg ts) = rep_is_ok (rep_counts cfg ts).
Proof. unfold rep_is_ok. rewrite sep_fail_zero. reflexivity. Qed.

Definition seg_sep (cfg : config) (tests : list test) : list frec * summary :=
  (sep_fails cfg (number 0%N tests), mk_summary (sep_counts cfg (number 0%N tests))).
Lemma seg_ok_sep cfg tests : seg_ok true cfg (number 0%N tests) (seg_sep cfg tests) = true.
Proof.
  unfold seg_ok, seg_sep. cbn [fst snd]. rewrite (list_eqb_refl _ frec_eqb_refl). cbn [andb].
  set (ts := number 0%N tests). unfold mk_summary. cbn [m_ok m_nfail m_tests m_run m_ign m_filt].
  rewrite (is_failure_not_ok (sep_counts cfg ts)), sep_is_ok, negb_involutive, eqb_reflx. cbn [andb].
  assert (T : (k_tests (sep_counts cfg ts) =? k_tests (rep_counts cfg ts))%N = true) by apply N.eqb_refl.
  assert (R : (k_run (sep_counts cfg ts) =? k_run (rep_counts cfg ts))%N = true) by apply N.eqb_refl.
  assert (I : (k_ign (sep_counts cfg ts) =? k_ign (rep_counts cfg ts))%N = true) by apply N.eqb_refl.
  assert (F : (k_filt (sep_counts cfg ts) =? k_filt (rep_counts cfg ts))%N = true) by apply N.eqb_refl.
  rewrite T, R, I, F. cbn [andb]. rewrite andb_true_r.
  pose proof (sep_fail_zero cfg ts) as Z. unfold rep_is_ok.
  destruct (N.eqb_spec (k_fail (rep_counts cfg ts)) 0) as [E|E]; apply N.eqb_eq in Z || apply N.eqb_neq in Z.
  - rewrite Z, E. cbn [N.ltb N.compare]. destruct (negb _); reflexivity.
  - cbn [andb negb]. destruct (N.ltb_spec 0 (k_fail (sep_counts cfg ts))); [|lia]. destruct (N.ltb_spec 0 (k_fail (rep_counts cfg ts))); [reflexivity | lia].
Qed.
Lemma seg_ok_in cfg tests : seg_ok false cfg (number 0%N tests) (seg_in cfg tests) = true.
Proof. unfold seg_ok, seg_in. cbn [fst snd]. rewrite (list_eqb_refl _ frec_eqb_refl), summary_ok_mk. reflexivity. Qed.
Lemma segs_ok_in scn : forall n loop,
  segs_ok false scn loop (map (fun j => seg_in (s_cfg scn) (prog_at j (s_tests scn))) (idx_from loop n)) = true.
Proof. induction n as [|n IH]; intro loop; [reflexivity|]. cbn [idx_from map segs_ok]. rewrite IH, andb_true_r. apply seg_ok_in. Qed.
Lemma segs_ok_sep scn : forall n loop,
  segs_ok true scn loop (map (fun j => seg_sep (s_cfg scn) (prog_at j (s_tests scn))) (idx_from loop n)) = true.
Proof. induction n as [|n IH]; intro loop; [reflexivity|]. cbn [idx_from map segs_ok]. rewrite IH, andb_true_r. apply seg_ok_sep. Qed.

Lemma sep_cnt_at_eq cfg tests j : sep_cnt_at cfg tests j = sep_counts cfg (number 0%N (prog_at j tests)).
Proof. apply sep_cnt_closed_eq. Qed.
Lemma sep_loop_items cfg v multi tests : forall L,
  items_of (puts (sep_loop_ops cfg v multi tests L)) = file_items (map (fun j => seg_sep cfg (prog_at j tests)) L).
Proof.
  induction L as [|j L IH]; [reflexivity|]. cbn [sep_loop_ops map]. unfold file_items in *. cbn [flat_map].
  rewrite !puts_app, !items_of_app, sep_ops_items, IH, sep_cnt_at_eq. unfold seg_sep. cbn [fst snd puts]. rewrite <- app_assoc.
  destruct multi; reflexivity.
Qed.

(* ---- the closed form of a console run under any discipline that flushes after every print *)
Definition console_closed (scn : scenario) (io : ioc) : cobs :=
  let cfg := s_cfg scn in
  let L := idx_from 0%N (N.to_nat (eff_repeat (c_repeat cfg))) in
  if i_sep io
  then mkCObs false (Some (exit_value (sum_fail (sep_cnt_at cfg (s_tests scn)) L) (n_failed (sep_cnt_at cfg (s_tests scn)) L)))
              (file_items (map (fun j => seg_sep cfg (prog_at j (s_tests scn))) L))
  else mkCObs false (Some (exit_value (sum_fail (cnt_at cfg (s_tests scn)) L) (n_failed (cnt_at cfg (s_tests scn)) L)))
              (file_items (map (fun j => seg_in cfg (prog_at j (s_tests scn))) L)).
Lemma console_run_closed d exc scn io :
  d_flush_each d = true -> c_cli (s_cfg scn) = true -> (forall j, throws_ok exc (s_cfg scn) (prog_at j (s_tests scn)) = true) ->
  console_run d exc scn io = console_closed scn io.
Proof.
  intros FE CLI TO. unfold console_run, console_ops, console_closed. destruct (i_sep io).
  - rewrite (sep_loop_closed exc (s_cfg scn) (i_verbose io) _ (s_tests scn) TO). rewrite (stdio_flush_each d _ _ FE), sep_loop_items, !N.add_0_l.
    reflexivity.
  - rewrite (run_closed exc scn TO). unfold run_closed_form. rewrite CLI. cbn [o_reps o_escaped o_ret].
    rewrite (stdio_flush_each d _ _ FE), reps_ops_model. reflexivity.
Qed.

Lemma sum_fail_le f g L : (forall j, (k_fail (f j) <= k_fail (g j))%N) -> (sum_fail f L <= sum_fail g L)%N.
Proof. intro H. unfold sum_fail. induction L as [|j L IH]; cbn [fold_right]; [lia|]. specialize (H j). lia. Qed.
Lemma forallb_ext' {A} (p q : A -> bool) L : (forall x, p x = q x) -> forallb p L = forallb q L.
Proof. intro H. induction L as [|x L IH]; cbn; [reflexivity|]. rewrite H, IH. reflexivity. Qed.

Lemma valid_x_parts exc xs io : valid_x exc xs = true -> x_io xs = Some io ->
  valid exc (x_scn xs) = true /\ c_cli (s_cfg (x_scn xs)) = true.
Proof.
  unfold valid_x. intros V E. rewrite E in V. rewrite !andb_true_iff in V. tauto.
Qed.

Lemma spec_console_closed exc scn io : valid exc scn = true -> spec_console scn io (console_closed scn io) = true.
Proof.
  intro V. destruct (valid_parts exc scn V) as [RT [Vf Vn]].
  unfold spec_console. rewrite RT. unfold console_closed.
  rewrite total_failures_sum in Vf. apply eff_repeat_small in Vn.
  set (L := idx_from 0%N (N.to_nat (eff_repeat (c_repeat (s_cfg scn))))) in *.
  assert (HL : Z.of_nat (length L) < 2 ^ 31) by (unfold L; rewrite idx_from_length; lia).
  assert (LL : (N.of_nat (length L) =? eff_repeat (c_repeat (s_cfg scn)))%N = true)
    by (unfold L; rewrite idx_from_length, N2Nat.id; apply N.eqb_refl).
  rewrite every_rep_ok_idx. fold L.
  destruct (i_sep io); cbn [co_escaped co_items co_ret negb andb]; rewrite split_sums_file; cbn [is_nil andb]; rewrite map_length, LL; cbn [andb].
  - unfold L at 1. rewrite segs_ok_sep. cbn [andb].
    assert (LE : (sum_fail (sep_cnt_at (s_cfg scn) (s_tests scn)) L <= sum_fail (cnt_at (s_cfg scn) (s_tests scn)) L)%N).
    { apply sum_fail_le. intro j. rewrite sep_cnt_at_eq. apply sep_fail_le. }
    assert (Vs : Z.of_N (sum_fail (sep_cnt_at (s_cfg scn) (s_tests scn)) L) < 2 ^ 31) by lia.
    pose proof (exit_value_zero_iff (sep_cnt_at (s_cfg scn) (s_tests scn)) L Vs HL) as EV.
    rewrite (forallb_ext' (fun j => rep_is_ok (sep_cnt_at (s_cfg scn) (s_tests scn) j)) (fun j => rep_is_ok (cnt_at (s_cfg scn) (s_tests scn) j)) L) in EV
      by (intro j; rewrite sep_cnt_at_eq; apply sep_is_ok).
    apply eqb_true_iff. destruct (forallb _ L).
    + apply Z.eqb_eq. apply EV. reflexivity.
    + apply Z.eqb_neq. intro H. apply EV in H. discriminate H.
  - unfold L at 1. rewrite segs_ok_in. cbn [andb].
    pose proof (exit_value_zero_iff (cnt_at (s_cfg scn) (s_tests scn)) L Vf HL) as EV.
    apply eqb_true_iff. destruct (forallb _ L).
    + apply Z.eqb_eq. apply EV. reflexivity.
    + apply Z.eqb_neq. intro H. apply EV in H. discriminate H.
Qed.

(* ================================================================== the extended language *)
Theorem run_x_meets_spec exc xs : valid_x exc xs = true -> spec_x xs (run_x exc xs) = true.
Proof.
  intro V. unfold spec_x, run_x, run_x_with. destruct (x_io xs) as [io|] eqn:E.
  - destruct (valid_x_parts exc xs io V E) as [V1 CLI].
    rewrite (console_run_closed code_disc exc (x_scn xs) io eq_refl CLI (throws_ok_of_valid exc _ V1)).
    apply (spec_console_closed exc); exact V1.
  - unfold valid_x in V. rewrite E, andb_true_r in V. apply run_meets_spec; exact V.
Qed.

(* ================================================================== what the closed form says, in the words of the property *)
Definition recs_of (l : list fitem) : list frec := flat_map (fun x => match x with FRec f => [f] | FSum _ => [] end) l.
Definition sums_of (l : list fitem) : list summary := flat_map (fun x => match x with FSum m => [m] | FRec _ => [] end) l.
Definition occ (f : frec) (l : list frec) : nat := length (filter (frec_eqb f) l).
(* the failure records repetition j must put on standard output: one process -- every failure of every started test, once, where it
   happened; -p -- the same (printed by the children), each failed test followed by the runner's own record at the TEST's location *)
Definition want_seg (sep : bool) (scn : scenario) (j : N) : list frec :=
  if sep then sep_fails (s_cfg scn) (rep_tests scn j) else rep_fails (s_cfg scn) (rep_tests scn j).

Lemma recs_of_app a b : recs_of (a ++ b) = recs_of a ++ recs_of b. Proof. apply flat_map_app. Qed.
Lemma sums_of_app a b : sums_of (a ++ b) = sums_of a ++ sums_of b. Proof. apply flat_map_app. Qed.
Lemma recs_of_recs l : recs_of (map FRec l) = l.
Proof. induction l as [|x l IH]; [reflexivity|]. cbn. unfold recs_of in IH. rewrite IH. reflexivity. Qed.
Lemma sums_of_recs l : sums_of (map FRec l) = [].
Proof. induction l as [|x l IH]; [reflexivity|]. cbn. exact IH. Qed.
Lemma recs_file segs : recs_of (file_items segs) = flat_map fst segs.
Proof.
  induction segs as [|[a m] segs IH]; [reflexivity|]. unfold file_items in *. cbn [flat_map fst snd].
  rewrite !recs_of_app, recs_of_recs, IH. cbn. rewrite app_nil_r. reflexivity.
Qed.
Lemma sums_file segs : sums_of (file_items segs) = map snd segs.
Proof.
  induction segs as [|[a m] segs IH]; [reflexivity|]. unfold file_items in *. cbn [flat_map fst snd map].
  rewrite !sums_of_app, sums_of_recs, IH. reflexivity.
Qed.
Lemma flat_map_map {A B C} (g : A -> B) (f : B -> list C) L : flat_map f (map g L) = flat_map (fun x => f (g x)) L.
Proof. induction L as [|x L IH]; cbn; [reflexivity|]. rewrite IH. reflexivity. Qed.

Definition console_seg (sep : bool) (cfg : config) (tests : list test) : list frec * summary :=
  if sep then seg_sep cfg tests else seg_in cfg tests.
Lemma console_closed_items scn io :
  co_items (console_closed scn io) =
  file_items (map (fun j => console_seg (i_sep io) (s_cfg scn) (prog_at j (s_tests scn))) (idx_from 0%N (N.to_nat (eff_repeat (c_repeat (s_cfg scn)))))).
Proof. unfold console_closed, console_seg. destruct (i_sep io); reflexivity. Qed.

Lemma run_x_console exc xs io : valid_x exc xs = true -> x_io xs = Some io ->
  run_x exc xs = XConsole (console_closed (x_scn xs) io).
Proof.
  intros V E. destruct (valid_x_parts exc xs io V E) as [V1 CLI]. unfold run_x, run_x_with. rewrite E.
  rewrite (console_run_closed code_disc exc (x_scn xs) io eq_refl CLI (throws_ok_of_valid exc _ V1)). reflexivity.
Qed.

(* every failed check, escaped exception and plugin-reported error stands on standard output exactly as often as it happened -- in the
   bytes that reach descriptor 1, whatever it is attached to, whatever the buffer holds, in one process or with every test in a child *)
Theorem console_records_once exc xs io : valid_x exc xs = true -> x_io xs = Some io ->
  exists c, run_x exc xs = XConsole c /\ co_escaped c = false /\
    let want := flat_map (want_seg (i_sep io) (x_scn xs)) (rep_index (eff_repeat (c_repeat (s_cfg (x_scn xs))))) in
    recs_of (co_items c) = want /\ forall f, occ f (recs_of (co_items c)) = occ f want.
Proof.
  intros V E. exists (console_closed (x_scn xs) io). split; [exact (run_x_console exc xs io V E)|].
  split; [unfold console_closed; destruct (i_sep io); reflexivity|].
  assert (H : recs_of (co_items (console_closed (x_scn xs) io)) =
              flat_map (want_seg (i_sep io) (x_scn xs)) (rep_index (eff_repeat (c_repeat (s_cfg (x_scn xs)))))).
  { rewrite console_closed_items, recs_file, flat_map_map, rep_index_idx. apply flat_map_ext. intro j.
    unfold console_seg, want_seg, seg_sep, seg_in, rep_tests. destruct (i_sep io); reflexivity. }
  cbv zeta. split; [exact H|]. intro f. rewrite H. reflexivity.
Qed.

Lemma optN_eqb_eq a b : optN_eqb a b = true -> a = b.
Proof. destruct a, b; cbn; intro H; try discriminate H; [apply N.eqb_eq in H; subst|]; reflexivity. Qed.

(* one summary per repetition, in order; summary number j is that of repetition j: verdict, and the figures the runner's process knows *)
Theorem console_summaries_true exc xs io : valid_x exc xs = true -> x_io xs = Some io ->
  exists c, run_x exc xs = XConsole c /\
    let n := eff_repeat (c_repeat (s_cfg (x_scn xs))) in
    length (sums_of (co_items c)) = N.to_nat n /\
    forall j m, nth_error (sums_of (co_items c)) j = Some m ->
      let k := rep_want (x_scn xs) (N.of_nat j) in
      m_ok m = rep_is_ok k /\ is_some (m_nfail m) = (0 <? k_fail k)%N /\
      m_tests m = k_tests k /\ m_run m = k_run k /\ m_ign m = k_ign k /\ m_filt m = k_filt k /\
      (i_sep io = false -> m_checks m = k_checks k /\ m_nfail m = if (0 <? k_fail k)%N then Some (k_fail k) else None).
Proof.
  intros V E. exists (console_closed (x_scn xs) io). split; [exact (run_x_console exc xs io V E)|]. cbv zeta.
  rewrite console_closed_items, sums_file, !map_map. split; [rewrite map_length, idx_from_length; reflexivity|].
  intros j m H.
  destruct (nth_error (idx_from 0%N (N.to_nat (eff_repeat (c_repeat (s_cfg (x_scn xs)))))) j) as [x|] eqn:EJ.
  2: { apply nth_error_None in EJ. assert (NE : nth_error (map (fun x => snd (console_seg (i_sep io) (s_cfg (x_scn xs)) (prog_at x (s_tests (x_scn xs)))))
                                                     (idx_from 0%N (N.to_nat (eff_repeat (c_repeat (s_cfg (x_scn xs))))))) j <> None) by congruence.
       apply nth_error_Some in NE. rewrite map_length in NE. lia. }
  rewrite (map_nth_error _ _ _ EJ) in H. inversion H; subst m; clear H. apply idx_from_nth in EJ. rewrite N.add_0_l in EJ. subst x.
  unfold rep_want, rep_tests. set (ts := number 0%N (prog_at (N.of_nat j) (s_tests (x_scn xs)))). set (cfg := s_cfg (x_scn xs)).
  unfold console_seg. destruct (i_sep io).
  - pose proof (seg_ok_sep cfg (prog_at (N.of_nat j) (s_tests (x_scn xs)))) as S. fold ts in S. unfold seg_ok, seg_sep in *. fold ts in S |- *.
    cbn [fst snd] in *. rewrite !andb_true_iff in S. destruct S as [[[_ S1] S2] [[[S3 S4] S5] S6]].
    apply eqb_prop in S1, S2. apply N.eqb_eq in S3, S4, S5, S6. repeat split; try assumption; discriminate.
  - pose proof (seg_ok_in cfg (prog_at (N.of_nat j) (s_tests (x_scn xs)))) as S. fold ts in S. unfold seg_ok, seg_in in *. fold ts in S |- *.
    cbn [fst snd] in *. apply andb_true_iff in S. destruct S as [_ S]. unfold summary_ok in S. rewrite !andb_true_iff in S.
    destruct S as [[S1 S2] [[[[S3 S4] S5] S6] S7]]. apply eqb_prop in S1. apply optN_eqb_eq in S2. apply N.eqb_eq in S3, S4, S5, S6, S7.
    repeat split; try assumption. rewrite S2. destruct (0 <? k_fail (rep_counts cfg ts))%N; reflexivity.
Qed.

(* a failing check fails the run, also when it failed in a child: the returned value is zero iff every repetition is OK *)
Theorem console_exit_value exc xs io : valid_x exc xs = true -> x_io xs = Some io ->
  exists c z, run_x exc xs = XConsole c /\ co_ret c = Some z /\
    let n := eff_repeat (c_repeat (s_cfg (x_scn xs))) in
    (z = 0 <-> forall j, (j < n)%N -> rep_is_ok (rep_want (x_scn xs) j) = true).
Proof.
  intros V E. destruct (valid_x_parts exc xs io V E) as [V1 CLI].
  pose proof (spec_console_closed exc (x_scn xs) io V1) as S. destruct (valid_parts exc _ V1) as [RT _].
  unfold spec_console in S. rewrite RT in S. rewrite !andb_true_iff in S. destruct S as [_ S].
  destruct (co_ret (console_closed (x_scn xs) io)) as [z|] eqn:RET; [|discriminate S].
  exists (console_closed (x_scn xs) io), z. split; [exact (run_x_console exc xs io V E)|]. split; [exact RET|]. cbv zeta.
  apply eqb_prop in S. rewrite <- Z.eqb_eq, S. unfold every_rep_ok. rewrite forallb_forall. unfold rep_index. split.
  - intros H j Hj. apply H. apply in_map_iff. exists (N.to_nat j). split; [apply N2Nat.id | apply in_seq; lia].
  - intros H j Hj. apply in_map_iff in Hj. destruct Hj as [k [<- Hk]]. apply in_seq in Hk. apply H. lia.
Qed.

(* what descriptor 1 is attached to, -v, -c and the capacity of the buffer do not matter; nor does any other discipline that flushes
   after every print *)
Theorem console_independent exc xs xs' io io' d : valid_x exc xs = true -> x_io xs = Some io -> x_io xs' = Some io' ->
  x_scn xs' = x_scn xs -> i_sep io' = i_sep io -> d_flush_each d = true -> run_x_with d exc xs' = run_x exc xs.
Proof.
  intros V E E' S P FE. destruct (valid_x_parts exc xs io V E) as [V1 CLI]. rewrite (run_x_console exc xs io V E).
  unfold run_x_with. rewrite E', S. rewrite (console_run_closed d exc (x_scn xs) io' FE CLI (throws_ok_of_valid exc _ V1)).
  unfold console_closed. rewrite P. reflexivity.
Qed.

Theorem run_x_build_independent xs : existsb rhas_throw (s_tests (x_scn xs)) = false -> run_x true xs = run_x false xs.
Proof.
  intro NT.
  assert (forall exc j, throws_ok exc (s_cfg (x_scn xs)) (prog_at j (s_tests (x_scn xs))) = true) as TO.
  { intros exc j. apply prog_at_ok; rewrite NT; [apply orb_true_r | apply andb_false_r]. }
  unfold run_x, run_x_with. destruct (x_io xs) as [io|].
  - unfold console_run, console_ops. destruct (i_sep io).
    + rewrite !(sep_loop_closed _ (s_cfg (x_scn xs)) (i_verbose io) _ (s_tests (x_scn xs)) (TO _)). reflexivity.
    + rewrite (build_independent _ NT). reflexivity.
  - rewrite (build_independent _ NT). reflexivity.
Qed.

(* ================================================================== the seeded change, at the level of whole runs *)
(* one failing check, -p, stdout a file: without the flush in printBuffer the child's record never reaches the file *)
Definition ex_sep_tests : list rtest := [mkRTest false true 100 [] [RS SCheck; RS (SFailX 0 105); RS SCheck] [RS SCheck] [] []].
Definition ex_sep : xscenario := mkX (mkScn (mkCfg true false false false 1) ex_sep_tests) (Some (mkIoc 2 true false false 4096)).
Definition console_noflush_stmt : Prop := forall exc xs, valid_x exc xs = true -> spec_x xs (run_x_with noflush_disc exc xs) = true.
Theorem console_noflush_refuted : ~ console_noflush_stmt.
Proof. intro H. specialize (H true ex_sep eq_refl). vm_compute in H. discriminate H. Qed.
Definition items_under (d : disc) (xs : xscenario) : list fitem :=
  match run_x_with d true xs with XConsole c => co_items c | XPlain _ => [] end.
Example ex_sep_valid : valid_x true ex_sep = true /\ valid_x false ex_sep = true. Proof. split; vm_compute; reflexivity. Qed.
Example ex_sep_code : recs_of (items_under code_disc ex_sep) = [mkF 0 0 105 0; mkF 0 0 100 1] /\ spec_x ex_sep (run_x true ex_sep) = true.
Proof. split; vm_compute; reflexivity. Qed.
Example ex_sep_noflush_lost : occ (mkF 0 0 105 0) (recs_of (items_under noflush_disc ex_sep)) = 0%nat /\
                              occ (mkF 0 0 100 1) (recs_of (items_under noflush_disc ex_sep)) = 1%nat.
Proof. split; vm_compute; reflexivity. Qed.
(* two failing tests and a small buffer: the runner's record of the first test is still in the runner's buffer when the second child is
   forked; the child's full buffer writes it out, and later so does the runner *)
Definition ex_sep2 : xscenario :=
  mkX (mkScn (mkCfg true false false false 1) (ex_sep_tests ++ ex_sep_tests)) (Some (mkIoc 1 true false false 2)).
Example ex_sep2_noflush_twice : occ (mkF 0 0 100 1) (recs_of (items_under noflush_disc ex_sep2)) = 2%nat /\
                                occ (mkF 0 0 100 1) (recs_of (items_under code_disc ex_sep2)) = 1%nat /\
                                spec_x ex_sep2 (run_x_with noflush_disc true ex_sep2) = false.
Proof. split; [|split]; vm_compute; reflexivity. Qed.
(* the other right discipline (flush before fork, flush when the child leaves) on the same runs *)
Example ex_sep_fork_exit : spec_x ex_sep (run_x_with (mkDisc false true true) true ex_sep) = true /\
                           spec_x ex_sep2 (run_x_with (mkDisc false true true) true ex_sep2) = true.
Proof. split; vm_compute; reflexivity. Qed.
(* a run in one process loses nothing without the flush: exit writes the buffer out *)
Definition ex_inproc : xscenario := mkX (mkScn (mkCfg true false false false 2) (ex_sep_tests ++ ex_sep_tests)) (Some (mkIoc 2 false true true 64)).
Example ex_inproc_any : valid_x true ex_inproc = true /\ spec_x ex_inproc (run_x true ex_inproc) = true /\
                        run_x_with noflush_disc true ex_inproc = run_x true ex_inproc.
Proof. split; [|split]; vm_compute; reflexivity. Qed.
Example ex_once_right : right_disc code_disc = true /\ right_disc (mkDisc false true true) = true /\ right_disc noflush_disc = false.
Proof. repeat split. Qed.
Example ex_wf : wf false ops_lost = true /\ wf false ops_dup = true. Proof. split; reflexivity. Qed.

Theorem stdio_flush_each_inv d cap ops : d_flush_each d = true ->
  let s := io_run d cap ops io0 in
  io_parent s = [] /\ (io_child s = None \/ io_child s = Some []) /\ io_file s = puts ops /\ stdio_run d cap ops = puts ops.
Proof.
  intros FE s. destruct (io_run_flush_each d cap FE ops io0) as [[P C] F]; [split; [reflexivity | left; reflexivity]|].
  fold s in P, C, F. repeat split; try assumption. apply stdio_flush_each; exact FE.
Qed.
Lemma noflush_loses_and_duplicates :
  count_rec rB (puts ops_lost) = 1%nat /\ count_rec rB (stdio_run noflush_disc 10 ops_lost) = 0%nat /\
  count_rec rA (puts ops_dup) = 1%nat /\ count_rec rA (stdio_run noflush_disc 1 ops_dup) = 2%nat.
Proof. split; [|split; [|split]]; vm_compute; reflexivity. Qed.
