(* C13: the hand-written string primitives of C13_Model.v are EQUAL to the functions that tools/cxx2gal.py translates from
   /repo's SimpleString.cpp on every run (gen/Gen_LoopC13.v: loops as Fixpoints on fuel over the byte memory of lib/CMem.v),
   for every memory of bytes, every pointer and every sufficient fuel -- including the cases where the source reads outside
   a block (both sides say Oob).  With the specification theorems of the model (C13_Proofs.v) this gives the textbook meaning,
   memory safety (no access outside the blocks involved) and termination (a fuel linear in the string length suffices) of the
   TRANSLATED SOURCE.  A change to one of these functions changes Gen_LoopC13.v and these lemmas are re-checked against it. *)
From Coq Require Import ZArith NArith Bool List Lia.
From CppUVerif Require Import lib.CSem lib.CMem lib.CMemFacts lib.Str gen.Gen_LeafC13 gen.Gen_LoopC13 C13_Model C13_LeafTie.
Import ListNotations.
Local Open Scope Z_scope.

(* model result -> result of a translated function *)
Definition lift {A R} (f : A -> R) (r : C13_Model.res A) : fres R :=
  match r with C13_Model.Ok a => FOk (f a) | _ => FOob end.   (* the primitives of the model never say NoFuel; Ub is excluded by the statements *)

Definition M64 : Z := 2 ^ 64.

(* ------------------------------------------------------------------ StrLen *)
Lemma StrLen_loop_tie : forall l fuel0 fuel m b o n, bytes_ok l -> view m (Ptr b o) = l -> (length l < fuel)%nat ->
  src_StrLen_loop1 fuel0 fuel m (Ptr b o) n =
    match StrLen l with
    | C13_Model.Ok k => Go (Ptr b (o + Z.of_nat k + 1), cw 64 false (n + Z.of_nat k + 1))
    | _ => CMem.Oob
    end.
Proof.
  induction l as [|c r IH]; intros fuel0 fuel m b o n Hb Hv Hf.
  - destruct fuel as [|fuel]; [cbn in Hf; lia|]. cbn [src_StrLen_loop1 StrLen].
    rewrite (view_nil_load _ _ Hv). destruct (padd m (Ptr b o) 1); reflexivity.
  - destruct fuel as [|fuel]; [cbn in Hf; lia|]. cbn [src_StrLen_loop1].
    destruct (view_padd1 _ _ _ _ _ Hv) as [Hp Hv']. rewrite Hp. rewrite (view_cons_load _ _ _ _ _ Hv).
    pose proof (Forall_inv Hb) as Hc. pose proof (Forall_inv_tail Hb) as Hr. cbn beta in Hc.
    unfold c_ne. rewrite (schar_zero c Hc). cbn [StrLen].
    destruct (N.eqb_spec c 0) as [->|Hn]; cbn [negb b2z z2b Z.eqb].
    + cbn [Z.of_nat]. f_equal. f_equal; [f_equal; lia | f_equal; lia].
    + rewrite (IH fuel0 fuel m b (o + 1) (cw 64 false (n + 1)) Hr Hv') by (cbn in Hf; lia).
      destruct (StrLen r) as [k| | |]; cbn [bind]; try reflexivity.
      f_equal. f_equal; [f_equal; lia|]. rewrite <- Z.add_assoc, cw_u_add_l by lia. f_equal. lia.
Qed.

Lemma src_StrLen_tie : forall fuel m b o, mem_ok m -> (length (view m (Ptr b o)) < fuel)%nat ->
  Z.of_nat (length (view m (Ptr b o))) < M64 ->
  src_StrLen fuel m (Ptr b o) = lift Z.of_nat (StrLen (view m (Ptr b o))).
Proof.
  intros fuel m b o Hm Hf Hl. unfold src_StrLen.
  rewrite (StrLen_loop_tie (view m (Ptr b o)) fuel fuel m b o _ (view_ok _ _ Hm) eq_refl Hf).
  assert (Hk : forall k, StrLen (view m (Ptr b o)) = C13_Model.Ok k -> (k <= length (view m (Ptr b o)))%nat).
  { generalize (view m (Ptr b o)). intro l. induction l as [|c r IH]; intros k H; cbn in H; [discriminate|].
    destruct (c =? 0)%N; [inversion H; cbn; lia|]. destruct (StrLen r) as [k'| | |]; cbn in H; try discriminate.
    inversion H; subst. specialize (IH k' eq_refl). cbn. lia. }
  destruct (StrLen (view m (Ptr b o))) as [k| | |]; cbn [finish lift]; try reflexivity.
  specialize (Hk k eq_refl). f_equal.
  change (cw 64 false (cw 32 true (- 1))) with (M64 - 1). rewrite cw_u. unfold M64 in *.
  replace (2 ^ 64 - 1 + Z.of_nat k + 1) with (Z.of_nat k + 1 * 2 ^ 64) by lia. rewrite Z_mod_plus_full.
  apply Z.mod_small. lia.
Qed.
