(* C14 -- lemmas, part (b): first-difference scans and failure messages. *)
From Coq Require Import NArith ZArith Bool List Lia ZifyBool.
From CppUVerif Require Import lib.CInt lib.Str gen.Gen_Common gen.Gen_C14 C14_Model C14_Proofs.
Import ListNotations.
Local Open Scope N_scope.

Definition nz (s : list N) : Prop := Forall (fun c => c <> 0) s.

Lemma rd_prefix pre s : rd (pre ++ s) (length pre) = Some (match s with [] => 0 | x :: _ => x end).
Proof.
  unfold rd. rewrite <- app_assoc. rewrite nth_error_app2 by lia. rewrite Nat.sub_diag.
  destruct s; reflexivity.
Qed.

Lemma first_diff_le a : forall e, (first_diff a e <= length a)%nat /\ (first_diff a e <= length e)%nat.
Proof.
  induction a as [|x a IH]; intros [|y e]; cbn; try lia.
  destruct (x =? y); [specialize (IH e)|]; lia.
Qed.

(* the repaired loop: stops at the first differing position or at the terminator, never outside the operands *)
Section Scan.
  Variable norm : N -> N.
  Hypothesis norm_nz : forall x, x <> 0 -> norm x <> norm 0.

  Lemma scan_found a : forall e pa pe fuel,
    nz a -> nz e -> length pa = length pe -> (length a < fuel)%nat ->
    scan norm true fuel (length pa) (pa ++ a) (pe ++ e) = Found (length pa + first_diff (map norm a) (map norm e)).
  Proof.
    induction a as [|x a IH]; intros e pa pe fuel Na Ne Hl Hf; (destruct fuel as [|fuel]; [cbn in Hf; lia|]);
      cbn [scan]; rewrite rd_prefix; rewrite Hl at 1; rewrite rd_prefix.
    - rewrite N.eqb_refl, andb_false_r. cbn. f_equal. lia.
    - inversion Na as [|? ? Hx Na']; subst.
      destruct (N.eqb_spec x 0) as [|_]; [contradiction|]. cbn [negb orb]. rewrite andb_true_r.
      destruct e as [|y e].
      + destruct (N.eqb_spec (norm x) (norm 0)) as [E|_]; [exfalso; exact (norm_nz x Hx E)|]. cbn. f_equal. lia.
      + inversion Ne as [|? ? Hy Ne']; subst. cbn [map first_diff].
        destruct (N.eqb_spec (norm x) (norm y)) as [E|E].
        * replace (pa ++ x :: a) with ((pa ++ [x]) ++ a) by (rewrite <- app_assoc; reflexivity).
          replace (pe ++ y :: e) with ((pe ++ [y]) ++ e) by (rewrite <- app_assoc; reflexivity).
          replace (S (length pa)) with (length (pa ++ [x])) by (rewrite app_length; cbn; lia).
          rewrite IH; try assumption.
          -- rewrite app_length. cbn. f_equal. lia.
          -- rewrite !app_length. cbn. lia.
          -- cbn in Hf. lia.
        * f_equal. lia.
  Qed.

  Theorem scan_exact a e : nz a -> nz e ->
    scan norm true (scan_fuel a e) 0 a e = Found (first_diff (map norm a) (map norm e)).
  Proof.
    intros Na Ne. apply (scan_found a e [] [] (scan_fuel a e) Na Ne eq_refl). unfold scan_fuel. lia.
  Qed.
End Scan.

Lemma idn_nz : forall x, x <> 0 -> idn x <> idn 0.
Proof. unfold idn. auto. Qed.
Lemma lower_nz : forall x, x <> 0 -> to_lower x <> to_lower 0.
Proof. intros x H. unfold to_lower. cbn. destruct ((65 <=? x) && (x <=? 90)); lia. Qed.
Lemma map_idn s : map idn s = s.
Proof. induction s; cbn; [reflexivity|]. unfold idn at 1. f_equal. assumption. Qed.

(* the reported position is the least index at which the (terminated) operands differ *)
Theorem first_diff_least a : forall e, nz a -> nz e -> a <> e ->
  let p := first_diff a e in
  rd a p <> rd e p /\ (forall i, (i < p)%nat -> rd a i = rd e i) /\ (p <= length a)%nat /\ (p <= length e)%nat.
Proof.
  induction a as [|x a IH]; intros [|y e] Na Ne D; cbn [first_diff].
  - contradiction.
  - inversion Ne; subst. unfold rd; cbn. repeat split; try lia. congruence.
  - inversion Na; subst. unfold rd; cbn. repeat split; try lia. congruence.
  - inversion Na; inversion Ne; subst.
    destruct (N.eqb_spec x y) as [->|E].
    + assert (D' : a <> e) by congruence.
      destruct (IH e H2 H6 D') as (A & B & C1 & C2). unfold rd in *. cbn. repeat split; try lia; try assumption.
      intros [|i] Hi; cbn; [reflexivity|]. apply B. lia.
    + unfold rd; cbn. repeat split; try lia. congruence.
Qed.

(* printable text never contains a NUL *)
Lemma hexd_nz d : hexd d <> 0.
Proof. unfold hexd. destruct (d <? 10); lia. Qed.
Lemma esc_byte_nz c : c <> 0 -> nz (esc_byte c).
Proof.
  intros H. unfold esc_byte, nz.
  destruct ((7 <=? c) && (c <=? 13)) eqn:E1.
  - assert (c = 7 \/ c = 8 \/ c = 9 \/ c = 10 \/ c = 11 \/ c = 12 \/ c = 13) as K by lia.
    destruct K as [->|[->|[->|[->|[->|[->| ->]]]]]]; vm_compute; repeat (apply Forall_cons; [intro; discriminate|]); apply Forall_nil.
  - destruct ((c <? 32) || (c =? 127) || (128 <=? c)).
    + repeat (apply Forall_cons; [first [apply hexd_nz | intro; discriminate]|]); apply Forall_nil.
    + apply Forall_cons; [exact H | apply Forall_nil].
Qed.
Lemma printable_nz s : nz s -> nz (printable s).
Proof.
  unfold printable, nz. induction 1 as [|c s Hc Hs IH]; cbn; [constructor|].
  apply Forall_app. split; [apply esc_byte_nz, Hc | exact IH].
Qed.
Lemma ok_nz s : forallb byte_ok s = true -> nz s.
Proof.
  unfold nz. rewrite forallb_forall, Forall_forall. intros H c Hc. specialize (H c Hc). unfold byte_ok in H. lia.
Qed.
Lemma lower_is_map s : lower s = map to_lower s.
Proof. reflexivity. Qed.

(* the old loops (no test for the terminator) leave the operands when these do not differ (D12) *)
Lemma scan_old_refuted :
  ~ (forall a e, nz a -> nz e -> exists p, scan idn false (scan_fuel a e) 0 a e = Found p).
Proof.
  intros H. destruct (H [49] [49]) as [p Hp]; try (repeat constructor; lia). vm_compute in Hp. discriminate Hp.
Qed.
Lemma printable_scan_old_refuted :      (* "a\n" against "a\\n": the operands differ, their printable forms do not *)
  run_fail_old (FStr KStringEqual (Some [97; 10]) (Some [97; 92; 110]) []) = FBad.
Proof. vm_compute. reflexivity. Qed.

(* the binary scan *)
Lemma scan_bin_found a : forall e pa pe fuel,
  length a = length e -> length pa = length pe -> (length a < fuel)%nat ->
  scan_bin true fuel (length pa) (length pa + length a) (pa ++ a) (pe ++ e) = Found (length pa + first_diff a e).
Proof.
  induction a as [|x a IH]; intros e pa pe fuel Hl Hp Hf; (destruct fuel as [|fuel]; [cbn in Hf; lia|]); cbn [scan_bin].
  - cbn [length]. rewrite Nat.add_0_r, Nat.leb_refl. cbn. f_equal. lia.
  - destruct e as [|y e]; [discriminate Hl|]. cbn [length] in *.
    destruct (Nat.leb_spec (length pa + S (length a)) (length pa)); [lia|]. cbn [andb].
    rewrite (nth_error_app2 pa) by lia. rewrite (nth_error_app2 pe) by lia. rewrite <- Hp, Nat.sub_diag.
    cbn [nth_error first_diff]. destruct (N.eqb_spec x y) as [E|E]; [|f_equal; lia].
    replace (pa ++ x :: a) with ((pa ++ [x]) ++ a) by (rewrite <- app_assoc; reflexivity).
    replace (pe ++ y :: e) with ((pe ++ [y]) ++ e) by (rewrite <- app_assoc; reflexivity).
    replace (S (length pa)) with (length (pa ++ [x])) by (rewrite app_length; cbn; lia).
    replace (length pa + S (length a))%nat with (length (pa ++ [x]) + length a)%nat by (rewrite app_length; cbn; lia).
    rewrite IH; try lia.
    + rewrite app_length. cbn. f_equal. lia.
    + rewrite !app_length. cbn. lia.
Qed.
Theorem scan_bin_exact a e size : length a = size -> length e = size ->
  scan_bin true (S (S size)) 0 size a e = Found (first_diff a e).
Proof.
  intros Ha He. pose proof (scan_bin_found a e [] [] (S (S size))) as H. cbn [length app Nat.add] in H.
  rewrite Ha in H. apply H; lia.
Qed.
Lemma scan_bin_old_refuted : scan_bin false 4 0 2 [1; 2] [1; 2] = OutOfBounds 2.
Proof. reflexivity. Qed.

(* the marker window: the offset found by a safe scan never makes subString fall off the padded text *)
Theorem window_in_bounds actual offset : (offset <= length actual)%nat ->
  length (sub_string (spaces half_window ++ actual ++ spaces half_window) offset (N.to_nat diff_window)) = N.to_nat diff_window.
Proof.
  intros H. unfold sub_string, spaces.
  assert (W : (2 * half_window = N.to_nat diff_window)%nat) by reflexivity.
  assert (W1 : (1 <= half_window)%nat) by (apply Nat.leb_le; reflexivity).
  rewrite !app_length, !repeat_length.
  destruct (Nat.ltb_spec (half_window + (length actual + half_window) - 1) offset); [lia|].
  rewrite firstn_length, skipn_length, !app_length, !repeat_length. lia.
Qed.

(* ------------------------------------------------------------------ both operands are shown *)
Lemma contains_mid p t q : contains (p ++ t ++ q) t = true.
Proof. apply contains_spec. exists p, q. reflexivity. Qed.
Lemma shows_but_was_e u e a r : shows (u ++ but_was e a ++ r) e = true.
Proof.
  unfold shows, but_was. apply contains_spec.
  exists (u ++ [101;120;112;101;99;116;101;100;32]), ([10;9;98;117;116;32;119;97;115;32;32;60] ++ a ++ [gt] ++ r).
  unfold s_expected, s_butwas, lt, gt. rewrite <- !app_assoc. cbn. rewrite <- !app_assoc. reflexivity.
Qed.
Lemma shows_but_was_a u e a r : shows (u ++ but_was e a ++ r) a = true.
Proof.
  unfold shows, but_was. apply contains_spec.
  exists (u ++ s_expected ++ e ++ [62;10;9;98;117;116;32;119;97;115;32;32]), r.
  unfold s_butwas, lt, gt. rewrite <- !app_assoc. cbn. rewrite <- !app_assoc. reflexivity.
Qed.
Lemma shows_but_was_e0 u e a : shows (u ++ but_was e a) e = true.
Proof. rewrite <- (app_nil_r (but_was e a)). apply shows_but_was_e. Qed.
Lemma shows_but_was_a0 u e a : shows (u ++ but_was e a) a = true.
Proof. rewrite <- (app_nil_r (but_was e a)). apply shows_but_was_a. Qed.

Lemma pos_is_refl p : pos_is (Some (N.of_nat p)) p = true.
Proof. cbn. apply N.eqb_refl. Qed.

Lemma str_case (norm : N -> N) e a t :
  (forall x, x <> 0 -> norm x <> norm 0) ->
  forallb byte_ok e = true -> forallb byte_ok a = true ->
  with_scans norm true e a (fun p pp =>
     FMsg (Some (N.of_nat p)) (user_text t ++ but_was (printable e) (printable a) ++ diff_at (printable a) pp p))
  = FMsg (Some (N.of_nat (first_diff (map norm a) (map norm e))))
         (user_text t ++ but_was (printable e) (printable a)
          ++ diff_at (printable a) (first_diff (map norm (printable a)) (map norm (printable e))) (first_diff (map norm a) (map norm e))).
Proof.
  intros Hn He Ha. unfold with_scans.
  rewrite (scan_exact norm Hn a e (ok_nz _ Ha) (ok_nz _ He)).
  rewrite (scan_exact norm Hn (printable a) (printable e) (printable_nz _ (ok_nz _ Ha)) (printable_nz _ (ok_nz _ He))).
  reflexivity.
Qed.

Theorem run_fail_meets_spec : forall s, valid_fail s = true -> spec_fail s (run_fail s) = true.
Proof.
  intros [k e a t | e a size t | e a t | t] V; unfold run_fail; cbn [run_fail_gen valid_fail] in *.
  - (* string operands *)
    apply andb_true_iff in V. destruct V as [V Vk]. apply andb_true_iff in V. destruct V as [V Vt].
    apply andb_true_iff in V. destruct V as [Ve Va].
    destruct k; destruct e as [e|]; destruct a as [a|]; cbn [str_ok is_some andb] in *; try discriminate Vk;
      try (rewrite (str_case idn) by (auto using idn_nz)); try (rewrite (str_case to_lower) by (auto using lower_nz));
      cbn [spec_fail printable_or_null or_null];
      rewrite ?shows_but_was_e, ?shows_but_was_a, ?shows_but_was_e0, ?shows_but_was_a0; cbn [andb];
      rewrite ?map_idn, <- ?lower_is_map;
      try (destruct (bytes_eqb _ _); [reflexivity | apply pos_is_refl]); try reflexivity.
    + (* contains: actual first *)
      unfold shows. apply andb_true_iff. split; apply contains_spec.
      * exists (user_text t ++ [97;99;116;117;97;108;32;60] ++ a ++ [62;10;9;100;105;100;32;110;111;116;32;99;111;110;116;97;105;110;32;32]), [].
        unfold lt, gt. rewrite <- !app_assoc. cbn. rewrite <- !app_assoc. reflexivity.
      * exists (user_text t ++ [97;99;116;117;97;108;32]), ([10;9;100;105;100;32;110;111;116;32;99;111;110;116;97;105;110;32;32;60] ++ e ++ [gt]).
        unfold lt, gt. rewrite <- !app_assoc. cbn. rewrite <- !app_assoc. reflexivity.
  - (* binary *)
    apply andb_true_iff in V. destruct V as [V Vt]. apply andb_true_iff in V. destruct V as [Ve Va].
    destruct e as [e|]; destruct a as [a|]; cbn [spec_fail];
      try (rewrite ?shows_but_was_e0, ?shows_but_was_a0; reflexivity).
    apply andb_true_iff in Ve, Va. destruct Ve as [Le _], Va as [La _]. apply Nat.eqb_eq in Le, La.
    rewrite (scan_bin_exact a e size La Le). cbn [spec_fail].
    rewrite shows_but_was_e, shows_but_was_a. cbn [andb].
    destruct (bytes_eqb e a); [reflexivity | apply pos_is_refl].
  - (* integers *)
    cbn [spec_fail]. unfold but_was, pad_left. apply andb_true_iff. split; apply contains_spec.
    + eexists (user_text t ++ s_expected ++ spaces _), _. rewrite <- !app_assoc. reflexivity.
    + eexists (user_text t ++ s_expected ++ (spaces _ ++ dec_z e) ++ s_butwas ++ spaces _), _. rewrite <- !app_assoc. reflexivity.
  - reflexivity.
Qed.

Example run_fail_example :
  run_fail (FStr KStringEqual (Some [97; 10]) (Some [97; 92; 110]) []) <> FBad /\
  spec_fail (FStr KCheckEqual (Some [49]) (Some [49]) []) (run_fail (FStr KCheckEqual (Some [49]) (Some [49]) [])) = true.
Proof. split; [vm_compute; discriminate | vm_compute; reflexivity]. Qed.

(* ------------------------------------------------------------------ both families *)
Theorem run_meets_spec : forall s, valid s = true -> spec s (run s) = true.
Proof.
  intros [plen ops | f] V; cbn [valid run spec] in *; [apply run_buf_meets_spec | apply run_fail_meets_spec]; exact V.
Qed.
Lemma scan_safe_both (norm : N -> N) : (forall x, x <> 0 -> norm x <> norm 0) -> forall a e, nz a -> nz e ->
  exists p, scan norm true (scan_fuel a e) 0 a e = Found p /\ (p <= length a)%nat /\ (p <= length e)%nat /\ p = first_diff (map norm a) (map norm e).
Proof.
  intros Hn a e Na Ne. exists (first_diff (map norm a) (map norm e)). split; [apply scan_exact; assumption|].
  pose proof (first_diff_le (map norm a) (map norm e)) as [A B]. rewrite !map_length in *. auto.
Qed.
Lemma printable_scan_safe (norm : N -> N) : (forall x, x <> 0 -> norm x <> norm 0) -> forall a e, nz a -> nz e ->
  exists p, scan norm true (scan_fuel (printable a) (printable e)) 0 (printable a) (printable e) = Found p
            /\ (p <= length (printable a))%nat /\ (p <= length (printable e))%nat.
Proof.
  intros Hn a e Na Ne. destruct (scan_safe_both norm Hn _ _ (printable_nz _ Na) (printable_nz _ Ne)) as (p & A & B & C & _).
  exists p. auto.
Qed.
Lemma footer_states_total : forall plen s leaks,
  inv (sb s) -> filled (sb s) = 0 ->
  let n := N.of_nat (length leaks) in
  0 < n -> n <= int_max ->
  match snd (do_report add plen s leaks) with
  | ORep len c tot notice complete _ _ =>
      bounded_obs len c = true /\ tot = Some (Z.of_N n) /\ (complete < n -> notice = true)
  | _ => False
  end.
Proof. exact do_report_cleared. Qed.
Example footer_example :
  match snd (do_report add 10 st_init (repeat big_leak 64)) with
  | ORep _ _ tot notice complete _ _ => tot = Some 64%Z /\ notice = true /\ complete < 64
  | _ => False end.
Proof. vm_compute. auto. Qed.
