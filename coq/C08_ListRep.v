(* C08: the expectation list of the mocking engine, MockExpectedCallsList, as TRANSLATED from /repo on every run
   (gen/Gen_HeapC08L.v, 30 member functions of src/CppUTestExt/MockExpectedCallsList.cpp), on a heap that REPRESENTS a list of
   expectation identities.  This file: the representation (mchain / mlist0_at / mlist_at), the layout lemma, and one theorem per
   translated function saying which list the heap represents afterwards, which ghost events were recorded (questions asked with
   their answers, things told, nodes allocated / deleted), how many oracle answers were consumed, and that nothing else in the
   heap changed.  All statements are for ALL heaps, lists and answer streams.  The composition with the hand-written model of
   property C08 (C08_Model.v: the candidate list as the flag e_pot on the master list) is in C08_ListTie.v.

   What the translation abstracts: an expectation object is an opaque non-zero integer (cell 0 of a node; 0 = NULL); every
   question the list asks an expectation pops the oracle stream `answers` and is recorded as LAsk q id ans / LAskArg q id arg ans;
   what it tells one is LTell / LTellArg; new / delete of a 2-cell node are LNew / LDelete (the block of a deleted node stays in
   the heap, unreachable); `delete expectation` is LDeleteCall id. *)
From Coq Require Import String.
From Coq Require Import ZArith NArith Bool List Lia.
From CppUVerif Require Import lib.CSem lib.CMem lib.CMemFacts lib.CHeap gen.Gen_HeapC08L.
Import ListNotations.
Local Open Scope Z_scope.

(* ================================================================== 0. representation *)
(* the two cells of a MockExpectedCallsListNode: expectedCall_ (the identity of the expectation, 0 = NULL), next_ *)
Definition mnode (id : Z) (nxt : hptr) : list val := [VInt id; VPtr nxt].

(* the order above is the order of the class definitions as clang reports them now *)
Lemma mlist_layout_is_the_source :
  off_MockExpectedCallsListNode_expectedCall_ = 0 /\ off_MockExpectedCallsListNode_next_ = 1 /\
  cells_MockExpectedCallsListNode = 2 /\ off_MockExpectedCallsList_head_ = 0 /\ cells_MockExpectedCallsList = 1.
Proof. repeat split; reflexivity. Qed.

(* mchain h p bs ids: from pointer p the blocks bs (in this order) are nodes holding ids, linked by next_, ending in NULL *)
Fixpoint mchain (h : heap) (p : hptr) (bs : list nat) (ids : list Z) : Prop :=
  match ids, bs with
  | [], [] => p = HNull
  | id :: ids', b :: bs' => p = HPtr b 0 /\ exists nxt, hblock h b = mnode id nxt /\ mchain h nxt bs' ids'
  | _, _ => False
  end.

(* a MockExpectedCallsList object: the 1-cell block lb holds head_; cells 0 of the nodes may be 0 (a node emptied by an
   onlyKeep... pass and not yet pruned) *)
Definition mlist0_at (h : heap) (lb : nat) (ids : list Z) (nodes : list nat) : Prop :=
  exists hd, hblock h lb = [VPtr hd] /\ mchain h hd nodes ids /\ NoDup nodes /\ ~ In lb nodes.
(* the list between two member functions: every node holds an expectation *)
Definition mlist_at (h : heap) (lb : nat) (ids : list Z) (nodes : list nat) : Prop :=
  mlist0_at h lb ids nodes /\ Forall (fun z => z <> 0) ids.

(* ------------------------------------------------------------------ basic facts *)
Lemma hblock_lt (h : heap) b : hblock h b <> [] -> (b < length h)%nat.
Proof.
  intro H. destruct (Nat.lt_ge_cases b (length h)) as [L|L]; [exact L|]. exfalso. apply H. unfold hblock. apply nth_overflow. exact L.
Qed.
Lemma hblock_app_l (h : heap) x b : (b < length h)%nat -> hblock (h ++ x) b = hblock h b.
Proof. intro L. unfold hblock. apply app_nth1. exact L. Qed.
Lemma hblock_app_new (h : heap) d : hblock (h ++ [d]) (length h) = d.
Proof. unfold hblock. rewrite app_nth2 by lia. rewrite Nat.sub_diag. reflexivity. Qed.
Lemma upd_same_id {A} : forall (l : list A) i v, nth_error l i = Some v -> upd l i v = l.
Proof. induction l as [|x l IH]; intros [|i] v H; cbn in *; try discriminate; [congruence|]. f_equal. apply IH. exact H. Qed.

Lemma mchain_nil_inv h p bs : mchain h p bs [] -> p = HNull /\ bs = [].
Proof. destruct bs; cbn; [intro H; split; [exact H | reflexivity] | intros []]. Qed.
Lemma mchain_cons_inv h p bs id ids : mchain h p bs (id :: ids) ->
  exists b bs' nxt, bs = b :: bs' /\ p = HPtr b 0 /\ hblock h b = mnode id nxt /\ mchain h nxt bs' ids.
Proof.
  destruct bs as [|b bs']; cbn; [intros []|]. intros [Hp [nxt [Hb Hc]]]. exists b, bs', nxt. repeat split; assumption.
Qed.
Lemma mchain_length h : forall ids p bs, mchain h p bs ids -> length bs = length ids.
Proof.
  induction ids as [|id ids IH]; intros p bs H.
  - apply mchain_nil_inv in H. destruct H as [_ ->]. reflexivity.
  - apply mchain_cons_inv in H. destruct H as [b [bs' [nxt [-> [_ [_ Hc]]]]]]. cbn. f_equal. exact (IH _ _ Hc).
Qed.
(* a chain only depends on the blocks it goes through *)
Lemma mchain_frame h h' : forall ids p bs, (forall b, In b bs -> hblock h' b = hblock h b) -> mchain h p bs ids -> mchain h' p bs ids.
Proof.
  induction ids as [|id ids IH]; intros p bs Hf H.
  - apply mchain_nil_inv in H. destruct H as [-> ->]. reflexivity.
  - apply mchain_cons_inv in H. destruct H as [b [bs' [nxt [-> [-> [Hb Hc]]]]]]. cbn. split; [reflexivity|]. exists nxt. split.
    + rewrite Hf by (left; reflexivity). exact Hb.
    + apply IH; [|exact Hc]. intros b' Hin. apply Hf. right. exact Hin.
Qed.
(* every block of a chain is a block of the heap *)
Lemma mchain_lt h : forall ids p bs, mchain h p bs ids -> Forall (fun b => (b < length h)%nat) bs.
Proof.
  induction ids as [|id ids IH]; intros p bs H.
  - apply mchain_nil_inv in H. destruct H as [_ ->]. constructor.
  - apply mchain_cons_inv in H. destruct H as [b [bs' [nxt [-> [_ [Hb Hc]]]]]]. constructor; [|exact (IH _ _ Hc)].
    apply hblock_lt. rewrite Hb. discriminate.
Qed.
Lemma mchain_in_lt h ids p bs b : mchain h p bs ids -> In b bs -> (b < length h)%nat.
Proof. intros Hc Hin. pose proof (mchain_lt h ids p bs Hc) as F. rewrite Forall_forall in F. exact (F b Hin). Qed.
Lemma mlist0_lb_lt h lb ids nodes : mlist0_at h lb ids nodes -> (lb < length h)%nat.
Proof. intros [hd [Hl _]]. apply hblock_lt. rewrite Hl. discriminate. Qed.

(* the cells of one node *)
Lemma z2b_true_ptr b i : z2b (hp_bool (HPtr b i)) = true. Proof. reflexivity. Qed.
Lemma z2b_false_null : z2b (hp_bool HNull) = false. Proof. reflexivity. Qed.
Lemma mnode_id h b id nxt : hblock h b = mnode id nxt -> hload_int h (HPtr b 0) = Some id.
Proof. intro Hb. unfold hload_int, hload. rewrite Hb. reflexivity. Qed.
Lemma mnode_padd h b id nxt : hblock h b = mnode id nxt -> hpadd h (HPtr b 0) 1 = Some (HPtr b 1).
Proof. intro Hb. unfold hpadd. rewrite Hb. reflexivity. Qed.
Lemma mnode_next h b id nxt : hblock h b = mnode id nxt -> hload_ptr h (HPtr b 1) = Some nxt.
Proof. intro Hb. unfold hload_ptr, hload. rewrite Hb. reflexivity. Qed.
Lemma hstore_at h b (k : nat) v l : hblock h b = l -> (k < length l)%nat ->
  hstore h (HPtr b (Z.of_nat k)) v = Some (upd h b (upd l k v)).
Proof.
  intros Hb Hk. rewrite hstore_cell, Hb.
  assert (L : (b < length h)%nat) by (apply hblock_lt; rewrite Hb; destruct l; [cbn in Hk; lia | discriminate]).
  rewrite (proj2 (Nat.ltb_lt _ _) Hk), (proj2 (Nat.ltb_lt _ _) L). reflexivity.
Qed.
Lemma hstore_at0 h b v l : hblock h b = l -> (0 < length l)%nat -> hstore h (HPtr b 0) v = Some (upd h b (upd l 0 v)).
Proof. exact (hstore_at h b 0%nat v l). Qed.
Lemma hstore_at1 h b v l : hblock h b = l -> (1 < length l)%nat -> hstore h (HPtr b 1) v = Some (upd h b (upd l 1 v)).
Proof. exact (hstore_at h b 1%nat v l). Qed.
Lemma mnode_set_id h b id nxt v : hblock h b = mnode id nxt -> hstore h (HPtr b 0) (VInt v) = Some (upd h b (mnode v nxt)).
Proof. intro Hb. exact (hstore_at h b 0%nat (VInt v) (mnode id nxt) Hb (Nat.lt_0_succ 1)). Qed.
Lemma mnode_set_next h b id nxt q : hblock h b = mnode id nxt -> hstore h (HPtr b 1) (VPtr q) = Some (upd h b (mnode id q)).
Proof. intro Hb. exact (hstore_at h b 1%nat (VPtr q) (mnode id nxt) Hb (Nat.lt_succ_diag_r 1)). Qed.
Lemma mhead_load h lb hd : hblock h lb = [VPtr hd] -> hload_ptr h (HPtr lb 0) = Some hd.
Proof. intro Hb. unfold hload_ptr, hload. rewrite Hb. reflexivity. Qed.
Lemma mhead_store h lb hd q : hblock h lb = [VPtr hd] -> hstore h (HPtr lb 0) (VPtr q) = Some (upd h lb [VPtr q]).
Proof. intro Hb. exact (hstore_at h lb 0%nat (VPtr q) [VPtr hd] Hb (Nat.lt_0_succ 0)). Qed.

Lemma z2b_lnot a : z2b (c_lnot a) = negb (z2b a).
Proof. unfold c_lnot. apply b2z_z2b. Qed.
Lemma z2b_ceq0 v : z2b (c_eq v 0) = (v =? 0).
Proof. unfold c_eq. apply b2z_z2b. Qed.

(* ================================================================== 1. list vocabulary of the statements *)
(* f over two lists in step, as far as the shorter goes *)
Fixpoint zipw {A B C} (f : A -> B -> C) (l : list A) (m : list B) : list C :=
  match l, m with x :: l', y :: m' => f x y :: zipw f l' m' | _, _ => [] end.
Lemma zipw_nil_r {A B C} (f : A -> B -> C) l : zipw f l [] = [].
Proof. destruct l; reflexivity. Qed.
Lemma zipw_combine {A B C} (f : A -> B -> C) : forall l m, zipw f l m = map (fun p => f (fst p) (snd p)) (combine l m).
Proof. induction l as [|x l IH]; intros [|y m]; cbn; try reflexivity. f_equal. apply IH. Qed.
Lemma zipw_length {A B C} (f : A -> B -> C) : forall l m, (length l <= length m)%nat -> length (zipw f l m) = length l.
Proof. induction l as [|x l IH]; intros [|y m] H; cbn in *; try lia. f_equal. apply IH. lia. Qed.

(* the elements whose drop flag is false / true; elements beyond the flags are kept *)
Fixpoint keep_by {A} (xs : list A) (drops : list bool) : list A :=
  match xs with
  | [] => []
  | x :: xs' => match drops with [] => xs | d :: ds => if d then keep_by xs' ds else x :: keep_by xs' ds end
  end.
Fixpoint drop_by {A} (xs : list A) (drops : list bool) : list A :=
  match xs, drops with
  | x :: xs', d :: ds => if d then x :: drop_by xs' ds else drop_by xs' ds
  | _, _ => []
  end.
Lemma keep_by_nil_r {A} (xs : list A) : keep_by xs [] = xs. Proof. destruct xs; reflexivity. Qed.
Lemma drop_by_nil_r {A} (xs : list A) : drop_by xs [] = []. Proof. destruct xs; reflexivity. Qed.
Lemma keep_by_in {A} : forall (xs : list A) ds x, In x (keep_by xs ds) -> In x xs.
Proof.
  induction xs as [|y xs IH]; intros [|d ds] x H; cbn in *; try assumption.
  destruct d; [right; exact (IH _ _ H)|]. destruct H as [H|H]; [left; exact H | right; exact (IH _ _ H)].
Qed.
Lemma drop_by_in {A} : forall (xs : list A) ds x, In x (drop_by xs ds) -> In x xs.
Proof.
  induction xs as [|y xs IH]; intros [|d ds] x H; cbn in *; try contradiction.
  destruct d; [|right; exact (IH _ _ H)]. destruct H as [H|H]; [left; exact H | right; exact (IH _ _ H)].
Qed.
Lemma keep_by_NoDup {A} : forall (xs : list A) ds, NoDup xs -> NoDup (keep_by xs ds).
Proof.
  induction xs as [|y xs IH]; intros [|d ds] H; cbn; try assumption. inversion H as [|? ? Hn Hd]; subst.
  destruct d; [exact (IH ds Hd)|]. constructor; [|exact (IH ds Hd)]. intro Hin. apply Hn. exact (keep_by_in _ _ _ Hin).
Qed.
Lemma keep_by_Forall {A} (P : A -> Prop) : forall xs ds, Forall P xs -> Forall P (keep_by xs ds).
Proof.
  induction xs as [|y xs IH]; intros [|d ds] H; cbn; try assumption. inversion H; subst.
  destruct d; [apply IH; assumption|]. constructor; [assumption | apply IH; assumption].
Qed.
(* as a filter over the pairs (element, flag), when there is a flag for every element *)
Lemma keep_by_filter {A} : forall (xs : list A) ds, (length xs <= length ds)%nat ->
  keep_by xs ds = map fst (filter (fun p => negb (snd p)) (combine xs ds)).
Proof.
  induction xs as [|y xs IH]; intros [|d ds] H; cbn in *; try reflexivity; try lia. rewrite IH by lia. destruct d; reflexivity.
Qed.
Lemma drop_by_filter {A} : forall (xs : list A) ds, drop_by xs ds = map fst (filter (fun p => snd p) (combine xs ds)).
Proof. induction xs as [|y xs IH]; intros [|d ds]; cbn; try reflexivity. rewrite IH. destruct d; reflexivity. Qed.
Lemma keep_by_map {A B} (f : A -> B) : forall xs ds, keep_by (map f xs) ds = map f (keep_by xs ds).
Proof. induction xs as [|y xs IH]; intros [|d ds]; cbn; try reflexivity. rewrite IH. destruct d; reflexivity. Qed.
Lemma drop_by_map {A B} (f : A -> B) : forall xs ds, drop_by (map f xs) ds = map f (drop_by xs ds).
Proof. induction xs as [|y xs IH]; intros [|d ds]; cbn; try reflexivity. rewrite IH. destruct d; reflexivity. Qed.

(* the elements whose answer is non-zero (the answers in step with the elements) *)
Fixpoint sel {A} (xs : list A) (answers : list Z) : list A :=
  match xs, answers with x :: xs', a :: r => if z2b a then x :: sel xs' r else sel xs' r | _, _ => [] end.
Lemma sel_keep_by {A} : forall (xs : list A) answers, (length xs <= length answers)%nat ->
  sel xs answers = keep_by xs (map (fun a => negb (z2b a)) answers).
Proof.
  induction xs as [|x xs IH]; intros [|a r] H; cbn in *; try reflexivity; try lia. rewrite IH by lia. destruct (z2b a); reflexivity.
Qed.
Lemma sel_map {A B} (f : A -> B) : forall xs answers, sel (map f xs) answers = map f (sel xs answers).
Proof. induction xs as [|y xs IH]; intros [|a r]; cbn; try reflexivity. rewrite IH. destruct (z2b a); reflexivity. Qed.
Lemma sel_Forall {A} (P : A -> Prop) : forall xs answers, Forall P xs -> Forall P (sel xs answers).
Proof.
  induction xs as [|y xs IH]; intros [|a r] H; cbn; try constructor. inversion H; subst.
  destruct (z2b a); [constructor; [assumption|]|]; apply IH; assumption.
Qed.
Lemma sel_length {A} : forall (xs : list A) answers, (length (sel xs answers) <= length xs)%nat.
Proof. induction xs as [|y xs IH]; intros [|a r]; cbn; try lia. specialize (IH r). destruct (z2b a); cbn; lia. Qed.

(* the answers a search loop asks for: up to and including the first answer satisfying t, at most one per element *)
Fixpoint asked (t : Z -> bool) (ids answers : list Z) : list Z :=
  match ids, answers with
  | _ :: ids', a :: r => if t a then [a] else a :: asked t ids' r
  | _, _ => []
  end.
Fixpoint upto_first (t : Z -> bool) (answers : list Z) : list Z :=
  match answers with [] => [] | a :: r => if t a then [a] else a :: upto_first t r end.
Lemma asked_upto_first t : forall ids answers, asked t ids answers = upto_first t (firstn (length ids) answers).
Proof. induction ids as [|i ids IH]; intros [|a r]; cbn; try reflexivity. rewrite IH. reflexivity. Qed.
Lemma asked_prefix t : forall ids answers, firstn (length (asked t ids answers)) answers = asked t ids answers.
Proof. induction ids as [|i ids IH]; intros [|a r]; cbn; try reflexivity. destruct (t a); cbn; [reflexivity|]. rewrite IH. reflexivity. Qed.
Lemma asked_length t : forall ids answers, (length (asked t ids answers) <= length ids)%nat.
Proof. induction ids as [|i ids IH]; intros [|a r]; cbn; try lia. specialize (IH r). destruct (t a); cbn; lia. Qed.
(* only the last answer asked can be positive: the expectations after the first positive one are not asked *)
Lemma asked_early_exit t : forall ids answers pre a post, asked t ids answers = pre ++ a :: post -> post <> [] -> t a = false.
Proof.
  induction ids as [|i ids IH]; intros [|x r] pre a post H Hp; cbn in H; try (destruct pre; discriminate H).
  destruct (t x) eqn:E.
  - destruct pre as [|y pre]; cbn in H; inversion H; subst; [congruence|]. destruct pre; discriminate.
  - destruct pre as [|y pre]; cbn in H; inversion H; subst; [exact E|]. eapply IH; eassumption.
Qed.
(* the identity the search returns (0 = NULL: none) and the flags "this is the node found" *)
Fixpoint first_id (t : Z -> bool) (ids answers : list Z) : Z :=
  match ids, answers with id :: ids', a :: r => if t a then id else first_id t ids' r | _, _ => 0 end.
Fixpoint first_flag (t : Z -> bool) (answers : list Z) : list bool :=
  match answers with [] => [] | a :: r => if t a then [true] else false :: first_flag t r end.
Lemma existsb_asked t : forall ids answers, existsb t (asked t ids answers) = existsb t (firstn (length ids) answers).
Proof.
  induction ids as [|i ids IH]; intros [|a r]; cbn; try reflexivity. destruct (t a) eqn:E; cbn; rewrite E; [reflexivity|]. apply IH.
Qed.
Lemma first_id_find t : forall ids answers, first_id t ids answers =
  match find (fun p => t (snd p)) (combine ids answers) with Some p => fst p | None => 0 end.
Proof. induction ids as [|i ids IH]; intros [|a r]; cbn; try reflexivity. destruct (t a); [reflexivity | apply IH]. Qed.

(* the nodes a pruning pass keeps / deletes and the identities left *)
Fixpoint live_nodes (ids : list Z) (bs : list nat) : list nat :=
  match ids, bs with id :: ids', b :: bs' => if id =? 0 then live_nodes ids' bs' else b :: live_nodes ids' bs' | _, _ => [] end.
Fixpoint dead_nodes (ids : list Z) (bs : list nat) : list nat :=
  match ids, bs with id :: ids', b :: bs' => if id =? 0 then b :: dead_nodes ids' bs' else dead_nodes ids' bs' | _, _ => [] end.
Definition live_ids (ids : list Z) : list Z := filter (fun z => negb (z =? 0)) ids.
Lemma live_nodes_in : forall ids bs b, In b (live_nodes ids bs) -> In b bs.
Proof.
  induction ids as [|id ids IH]; intros [|b0 bs] b H; cbn in *; try contradiction.
  destruct (id =? 0); [right; exact (IH _ _ H)|]. destruct H as [H|H]; [left; exact H | right; exact (IH _ _ H)].
Qed.
Lemma live_nodes_NoDup : forall ids bs, NoDup bs -> NoDup (live_nodes ids bs).
Proof.
  induction ids as [|id ids IH]; intros [|b0 bs] H; cbn; try constructor. inversion H as [|? ? Hn Hd]; subst.
  destruct (id =? 0); [exact (IH _ Hd)|]. constructor; [|exact (IH _ Hd)]. intro Hin. apply Hn. exact (live_nodes_in _ _ _ Hin).
Qed.
Lemma live_ids_nonzero ids : Forall (fun z => z <> 0) (live_ids ids).
Proof.
  unfold live_ids. apply Forall_forall. intros z Hz. apply filter_In in Hz. destruct Hz as [_ Hz]. intro E. subst z. discriminate Hz.
Qed.
(* the split is by position: as filters over the pairs (identity, node) *)
Lemma live_nodes_filter : forall ids bs, live_nodes ids bs = map snd (filter (fun p => negb (fst p =? 0)) (combine ids bs)).
Proof. induction ids as [|id ids IH]; intros [|b bs]; cbn; try reflexivity. rewrite IH. destruct (id =? 0); reflexivity. Qed.
Lemma dead_nodes_filter : forall ids bs, dead_nodes ids bs = map snd (filter (fun p => fst p =? 0) (combine ids bs)).
Proof. induction ids as [|id ids IH]; intros [|b bs]; cbn; try reflexivity. rewrite IH. destruct (id =? 0); reflexivity. Qed.

(* ================================================================== 2. pruneEmptyNodeFromList *)
(* the cell that points to `current`: head_ of the list object while previous = NULL, next_ of the node `previous` afterwards *)
Definition link_ok (h : heap) (lb : nat) (prev : hptr) (lkb lki : nat) : Prop :=
  (prev = HNull /\ lkb = lb /\ lki = 0%nat /\ length (hblock h lkb) = 1%nat) \/
  (prev = HPtr lkb 0 /\ lki = 1%nat /\ length (hblock h lkb) = 2%nat).

Lemma prune_loop_spec fuel0 lb answers : forall ids bs h p prev lkb lki evs tbd fuel,
  mchain h p bs ids -> NoDup bs -> ~ In lkb bs -> link_ok h lb prev lkb lki ->
  nth_error (hblock h lkb) lki = Some (VPtr p) -> (length ids < fuel)%nat ->
  exists h' p' prev' tbd',
    src_mlist_pruneEmptyNodeFromList_loop1 fuel0 fuel (HPtr lb 0) h evs answers p prev tbd =
      Go (h', evs ++ map (fun b => LDelete (HPtr b 0)) (dead_nodes ids bs), answers, HNull, prev', tbd') /\
    mchain h' p' (live_nodes ids bs) (live_ids ids) /\
    hblock h' lkb = upd (hblock h lkb) lki (VPtr p') /\
    (forall b, b <> lkb -> ~ In b (live_nodes ids bs) -> hblock h' b = hblock h b) /\
    (forall b, In b bs -> nth_error (hblock h' b) 0 = nth_error (hblock h b) 0) /\
    length h' = length h.
Proof.
  induction ids as [|id ids IH]; intros bs h p prev lkb lki evs tbd fuel Hc Hnd Hlk Hok Hcell Hf.
  - apply mchain_nil_inv in Hc. destruct Hc as [-> ->]. destruct fuel as [|fuel]; [cbn [length] in Hf; lia|].
    cbn [src_mlist_pruneEmptyNodeFromList_loop1]. rewrite z2b_false_null.
    exists h, HNull, prev, tbd. cbn [dead_nodes live_nodes live_ids filter map]. rewrite app_nil_r.
    split; [reflexivity|]. split; [reflexivity|]. split; [symmetry; apply upd_same_id; exact Hcell|].
    split; [intros; reflexivity|]. split; [intros b []|reflexivity].
  - apply mchain_cons_inv in Hc. destruct Hc as [b [bs' [nxt [-> [-> [Hb Hc]]]]]].
    destruct fuel as [|fuel]; [cbn [length] in Hf; lia|]. cbn [length] in Hf.
    inversion Hnd as [|? ? Hnb Hnd']; subst.
    assert (Hlb : lkb <> b) by (intro E; apply Hlk; left; symmetry; exact E).
    assert (Hlk' : ~ In lkb bs') by (intro E; apply Hlk; right; exact E).
    cbn [src_mlist_pruneEmptyNodeFromList_loop1]. rewrite z2b_true_ptr, (mnode_id h b id nxt Hb), z2b_ceq0.
    cbn [dead_nodes live_nodes live_ids filter].
    destruct (id =? 0) eqn:Ez; cbn [negb].
    + (* an emptied node: unlink it *)
      cbv zeta. rewrite (mnode_padd h b id nxt Hb), (mnode_next h b id nxt Hb).
      assert (Hlen : (lki < length (hblock h lkb))%nat) by (apply nth_error_Some; rewrite Hcell; discriminate).
      assert (Hlt : (lkb < length h)%nat) by (apply hblock_lt; intro E; rewrite E in Hlen; cbn in Hlen; lia).
      set (h1 := upd h lkb (upd (hblock h lkb) lki (VPtr nxt))).
      assert (Hst : (if z2b (hp_eq prev HNull)
                     then match hstore h (HPtr lb 0) (VPtr nxt) with None => Oob | Some mem => Go (mem, nxt) end
                     else match hpadd h prev 1 with None => Oob | Some q7 =>
                          match hstore h q7 (VPtr nxt) with None => Oob | Some mem => Go (mem, nxt) end end)
                    = (Go (h1, nxt) : cres (unit * heap * list lev * list Z) (heap * hptr))).
      { destruct Hok as [[-> [-> [-> Hl1]]] | [-> [-> Hl2]]].
        - change (z2b (hp_eq HNull HNull)) with true. cbv iota.
          rewrite (hstore_at0 h lb (VPtr nxt) (hblock h lb) eq_refl Hlen). reflexivity.
        - change (z2b (hp_eq (HPtr lkb 0) HNull)) with false. cbv iota.
          assert (Hpa : hpadd h (HPtr lkb 0) 1 = Some (HPtr lkb 1)).
          { unfold hpadd. rewrite Hl2. reflexivity. }
          rewrite Hpa. rewrite (hstore_at1 h lkb (VPtr nxt) (hblock h lkb) eq_refl Hlen). reflexivity. }
      assert (Hb1 : forall b', b' <> lkb -> hblock h1 b' = hblock h b').
      { intros b' Hne. unfold h1. apply hblock_upd_other. intro E. apply Hne. symmetry. exact E. }
      assert (Hl1 : hblock h1 lkb = upd (hblock h lkb) lki (VPtr nxt)) by (unfold h1; apply hblock_upd_same; exact Hlt).
      assert (Hc1 : mchain h1 nxt bs' ids).
      { apply (mchain_frame h h1); [|exact Hc]. intros b' Hin. apply Hb1. intro E. subst b'. contradiction. }
      assert (Hok1 : link_ok h1 lb prev lkb lki).
      { destruct Hok as [[Hp [Hq [Hr Hl]]] | [Hp [Hr Hl]]]; [left | right]; repeat split; try assumption;
          rewrite Hl1, upd_length; exact Hl. }
      assert (Hcell1 : nth_error (hblock h1 lkb) lki = Some (VPtr nxt)).
      { rewrite Hl1. apply nth_error_upd_same. exact Hlen. }
      destruct (IH bs' h1 nxt prev lkb lki (evs ++ [LDelete (HPtr b 0)]) (HPtr b 0) fuel Hc1 Hnd' Hlk' Hok1 Hcell1 ltac:(lia))
        as [h' [p' [prev' [tbd' [Hrun [Hc' [Hl' [Hfr [Hc0 Hlen']]]]]]]]].
      exists h', p', prev', tbd'.
      split.
      { destruct Hok as [[-> [-> [-> Hl1']]] | [-> [-> Hl2]]].
        - change (z2b (hp_eq HNull HNull)) with true in Hst |- *. cbv iota in Hst |- *.
          destruct (hstore h (HPtr lb 0) (VPtr nxt)) as [m|]; [|discriminate Hst]. inversion Hst; subst m.
          rewrite Hrun. cbn [map]. rewrite <- app_assoc. reflexivity.
        - change (z2b (hp_eq (HPtr lkb 0) HNull)) with false in Hst |- *. cbv iota in Hst |- *.
          destruct (hpadd h (HPtr lkb 0) 1) as [q7|]; [|discriminate Hst].
          destruct (hstore h q7 (VPtr nxt)) as [m|]; [|discriminate Hst]. inversion Hst; subst m.
          rewrite Hrun. cbn [map]. rewrite <- app_assoc. reflexivity. }
      split; [exact Hc'|].
      split; [rewrite Hl', Hl1; apply upd_upd|].
      split; [intros b' Hne Hnin; rewrite (Hfr b' Hne Hnin); apply Hb1; exact Hne|].
      split.
      { intros b' [<-|Hin].
        - rewrite (Hfr b); [rewrite Hb1; [reflexivity|] |  |].
          + intro E; apply Hlb; symmetry; exact E.
          + intro E; apply Hlb; symmetry; exact E.
          + intro Hin. apply Hnb. exact (live_nodes_in _ _ _ Hin).
        - rewrite (Hc0 b' Hin). rewrite Hb1; [reflexivity|]. intro E. subst b'. contradiction. }
      rewrite Hlen'. unfold h1. apply heap_upd_length.
    + (* a node that holds an expectation: it becomes `previous` *)
      cbv zeta. rewrite (mnode_padd h b id nxt Hb), (mnode_next h b id nxt Hb).
      assert (Hokb : link_ok h lb (HPtr b 0) b 1%nat) by (right; repeat split; rewrite Hb; reflexivity).
      assert (Hcellb : nth_error (hblock h b) 1 = Some (VPtr nxt)) by (rewrite Hb; reflexivity).
      destruct (IH bs' h nxt (HPtr b 0) b 1%nat evs tbd fuel Hc Hnd' Hnb Hokb Hcellb ltac:(lia))
        as [h' [p' [prev' [tbd' [Hrun [Hc' [Hl' [Hfr [Hc0 Hlen']]]]]]]]].
      exists h', (HPtr b 0), prev', tbd'.
      split; [exact Hrun|].
      split.
      { cbn [mchain]. split; [reflexivity|]. exists p'. split; [rewrite Hl', Hb; reflexivity | exact Hc']. }
      split.
      { rewrite (Hfr lkb Hlb); [symmetry; apply upd_same_id; exact Hcell|].
        intro Hin. apply Hlk'. exact (live_nodes_in _ _ _ Hin). }
      split.
      { intros b' Hne Hnin. apply Hfr.
        - intro E. apply Hnin. left. symmetry. exact E.
        - intro Hin. apply Hnin. right. exact Hin. }
      split; [|exact Hlen'].
      intros b' [<-|Hin]; [rewrite Hl', Hb; reflexivity | exact (Hc0 b' Hin)].
Qed.

(* THEOREM 1.  On a list whose nodes may be empty, pruneEmptyNodeFromList leaves exactly the nodes that hold an expectation, in
   their order; it deletes exactly the empty nodes, each once, in list order; no block outside the list object and the surviving
   nodes changes (the deleted nodes' blocks are left as they were), every node keeps its cell 0, no answer is consumed. *)
Theorem pruneEmptyNodeFromList_spec : forall fuel h lb ids nodes evs answers,
  mlist0_at h lb ids nodes -> (length ids < fuel)%nat ->
  exists h',
    src_mlist_pruneEmptyNodeFromList fuel h evs answers (HPtr lb 0) =
      FOk (tt, h', evs ++ map (fun b => LDelete (HPtr b 0)) (dead_nodes ids nodes), answers) /\
    mlist_at h' lb (live_ids ids) (live_nodes ids nodes) /\
    length h' = length h /\
    (forall b, b <> lb -> ~ In b (live_nodes ids nodes) -> hblock h' b = hblock h b) /\
    (forall b, In b nodes -> nth_error (hblock h' b) 0 = nth_error (hblock h b) 0).
Proof.
  intros fuel h lb ids nodes evs answers [hd [Hl [Hc [Hnd Hnin]]]] Hf.
  assert (Hok : link_ok h lb HNull lb 0%nat) by (left; repeat split; rewrite Hl; reflexivity).
  assert (Hcell : nth_error (hblock h lb) 0 = Some (VPtr hd)) by (rewrite Hl; reflexivity).
  destruct (prune_loop_spec fuel lb answers ids nodes h hd HNull lb 0%nat evs HNull fuel Hc Hnd Hnin Hok Hcell Hf)
    as [h' [p' [prev' [tbd' [Hrun [Hc' [Hl' [Hfr [Hc0 Hlen']]]]]]]]].
  exists h'. split.
  { unfold src_mlist_pruneEmptyNodeFromList. rewrite (mhead_load h lb hd Hl). cbv zeta. rewrite Hrun. reflexivity. }
  split.
  { split; [|apply live_ids_nonzero]. exists p'. split; [rewrite Hl', Hl; reflexivity|]. split; [exact Hc'|].
    split; [apply live_nodes_NoDup; exact Hnd|]. intro Hin. apply Hnin. exact (live_nodes_in _ _ _ Hin). }
  split; [exact Hlen'|]. split; [exact Hfr | exact Hc0].
Qed.

(* ================================================================== 3. emptying nodes, then pruning *)
(* cell 0 of node b := v *)
Definition set0 (h : heap) (b : nat) (v : Z) : heap := upd h b (upd (hblock h b) 0 (VInt v)).
(* the heap after a pass that emptied (expectedCall_ = NULL) the nodes whose flag is set *)
Fixpoint zero_marks (h : heap) (bs : list nat) (drops : list bool) {struct drops} : heap :=
  match drops, bs with
  | d :: ds, b :: bs' => zero_marks (if d then set0 h b 0 else h) bs' ds
  | _, _ => h
  end.
Fixpoint zeroed (ids : list Z) (drops : list bool) {struct drops} : list Z :=
  match drops, ids with
  | d :: ds, id :: ids' => (if d then 0 else id) :: zeroed ids' ds
  | _, _ => ids
  end.
Lemma zero_marks_nil_l h drops : zero_marks h [] drops = h. Proof. destruct drops; reflexivity. Qed.
Lemma zeroed_length : forall drops ids, length (zeroed ids drops) = length ids.
Proof. induction drops as [|d ds IH]; intros [|id ids]; cbn; try reflexivity. f_equal. apply IH. Qed.

Lemma zero_marks_spec : forall drops ids bs h p, mchain h p bs ids -> NoDup bs ->
  mchain (zero_marks h bs drops) p bs (zeroed ids drops) /\
  (forall b, ~ In b bs -> hblock (zero_marks h bs drops) b = hblock h b) /\
  length (zero_marks h bs drops) = length h.
Proof.
  induction drops as [|d ds IH]; intros ids bs h p Hc Hnd.
  - cbn. destruct ids; (split; [exact Hc|]; split; [intros; reflexivity | reflexivity]).
  - destruct ids as [|id ids].
    + apply mchain_nil_inv in Hc. destruct Hc as [-> ->]. cbn. split; [reflexivity|]. split; [intros; reflexivity | reflexivity].
    + apply mchain_cons_inv in Hc. destruct Hc as [b [bs' [nxt [-> [-> [Hb Hc]]]]]]. inversion Hnd as [|? ? Hnb Hnd']; subst.
      cbn [zero_marks zeroed].
      set (h1 := if d then set0 h b 0 else h).
      assert (Hlt : (b < length h)%nat) by (apply hblock_lt; rewrite Hb; discriminate).
      assert (Hb1 : forall b', b' <> b -> hblock h1 b' = hblock h b').
      { intros b' Hne. unfold h1. destruct d; [|reflexivity]. unfold set0. apply hblock_upd_other. intro E. apply Hne. symmetry. exact E. }
      assert (Hbb : hblock h1 b = mnode (if d then 0 else id) nxt).
      { unfold h1. destruct d; [|exact Hb]. unfold set0. rewrite hblock_upd_same by exact Hlt. rewrite Hb. reflexivity. }
      assert (Hlen1 : length h1 = length h) by (unfold h1; destruct d; [apply heap_upd_length | reflexivity]).
      assert (Hc1 : mchain h1 nxt bs' ids).
      { apply (mchain_frame h h1); [|exact Hc]. intros b' Hin. apply Hb1. intro E. subst b'. contradiction. }
      destruct (IH ids bs' h1 nxt Hc1 Hnd') as [Hc' [Hfr Hlen']].
      split.
      { cbn [mchain]. split; [reflexivity|]. exists nxt. split; [rewrite (Hfr b Hnb); exact Hbb | exact Hc']. }
      split; [|rewrite Hlen'; exact Hlen1].
      intros b' Hnin. rewrite Hfr by (intro Hin; apply Hnin; right; exact Hin). apply Hb1. intro E. apply Hnin. left. symmetry. exact E.
Qed.

(* what pruning finds after such a pass, when every node held an expectation before it *)
Lemma live_ids_zeroed : forall drops ids, Forall (fun z => z <> 0) ids -> live_ids (zeroed ids drops) = keep_by ids drops.
Proof.
  induction drops as [|d ds IH]; intros ids Hnz.
  - rewrite keep_by_nil_r. replace (zeroed ids []) with ids by (destruct ids; reflexivity).
    induction Hnz as [|id ids Hid Hnz IHn]; [reflexivity|]. unfold live_ids in *. cbn [filter]. apply Z.eqb_neq in Hid. rewrite Hid.
    cbn [negb]. f_equal. exact IHn.
  - destruct ids as [|id ids]; [reflexivity|]. inversion Hnz as [|? ? Hid Hnz']; subst. cbn [zeroed keep_by]. unfold live_ids in *.
    cbn [filter]. destruct d.
    + cbn. apply IH. exact Hnz'.
    + apply Z.eqb_neq in Hid. rewrite Hid. cbn [negb]. f_equal. apply IH. exact Hnz'.
Qed.
Lemma live_nodes_zeroed : forall drops ids bs, Forall (fun z => z <> 0) ids -> length bs = length ids ->
  live_nodes (zeroed ids drops) bs = keep_by bs drops /\ dead_nodes (zeroed ids drops) bs = drop_by bs drops.
Proof.
  induction drops as [|d ds IH]; intros ids bs Hnz Hl.
  - rewrite keep_by_nil_r, drop_by_nil_r. replace (zeroed ids []) with ids by (destruct ids; reflexivity).
    revert bs Hl. induction Hnz as [|id ids Hid Hnz IHn]; intros [|b bs] Hl; try discriminate Hl; [split; reflexivity|].
    cbn [live_nodes dead_nodes]. apply Z.eqb_neq in Hid. rewrite Hid. cbn [length] in Hl. destruct (IHn bs) as [E1 E2]; [lia|].
    rewrite E1, E2. split; reflexivity.
  - destruct ids as [|id ids]; destruct bs as [|b bs]; try discriminate Hl; [split; reflexivity|].
    inversion Hnz as [|? ? Hid Hnz']; subst. cbn [length] in Hl. destruct (IH ids bs Hnz') as [E1 E2]; [lia|].
    cbn [zeroed live_nodes dead_nodes keep_by drop_by]. destruct d.
    + cbn. rewrite E1, E2. split; reflexivity.
    + apply Z.eqb_neq in Hid. rewrite Hid, E1, E2. split; reflexivity.
Qed.

(* emptying the flagged nodes of a list and pruning it: the list of the unflagged ones; the flagged nodes are deleted *)
Lemma mark_prune : forall fuel h lb ids nodes drops evs answers, mlist_at h lb ids nodes -> (length ids < fuel)%nat ->
  exists h',
    src_mlist_pruneEmptyNodeFromList fuel (zero_marks h nodes drops) evs answers (HPtr lb 0) =
      FOk (tt, h', evs ++ map (fun b => LDelete (HPtr b 0)) (drop_by nodes drops), answers) /\
    mlist_at h' lb (keep_by ids drops) (keep_by nodes drops) /\ length h' = length h /\
    (forall b, b <> lb -> ~ In b nodes -> hblock h' b = hblock h b).
Proof.
  intros fuel h lb ids nodes drops evs answers [[hd [Hl [Hc [Hnd Hnin]]]] Hnz] Hf.
  destruct (zero_marks_spec drops ids nodes h hd Hc Hnd) as [Hc1 [Hfr1 Hlen1]].
  assert (H0 : mlist0_at (zero_marks h nodes drops) lb (zeroed ids drops) nodes).
  { exists hd. split; [rewrite (Hfr1 lb Hnin); exact Hl|]. split; [exact Hc1|]. split; assumption. }
  destruct (pruneEmptyNodeFromList_spec fuel _ lb _ nodes evs answers H0) as [h' [Hrun [Hrep [Hlen [Hfr _]]]]].
  { rewrite zeroed_length. exact Hf. }
  destruct (live_nodes_zeroed drops ids nodes Hnz (mchain_length _ _ _ _ Hc)) as [E1 E2].
  rewrite (live_ids_zeroed drops ids Hnz), E1 in Hrep. rewrite E2 in Hrun. rewrite E1 in Hfr.
  exists h'. split; [exact Hrun|]. split; [exact Hrep|]. split; [rewrite Hlen; exact Hlen1|].
  intros b Hne Hnb. rewrite Hfr; [apply Hfr1; exact Hnb | exact Hne|]. intro Hin. apply Hnb. exact (keep_by_in _ _ _ Hin).
Qed.

(* ================================================================== 4. the onlyKeep... functions *)
(* the loop shared by the seven onlyKeep... functions that ask one question and empty the nodes answering 0 (the translated
   loops are this term with the question filled in: keep_loop_eq_* below, by computation) *)
Fixpoint Gkeep (mk : Z -> Z -> lev) (fuel : nat) (mem : heap) (evs : list lev) (answers : list Z) (p : hptr) {struct fuel}
  : cres (unit * heap * list lev * list Z) (heap * list lev * list Z * hptr) :=
  match fuel with O => NoFuel | S fuel =>
    if z2b (hp_bool p) then
      match hload_int mem p with None => Oob | Some id =>
        match answers with nil => Oob | cons a answers => let evs := evs ++ [mk id a] in
          if z2b (c_lnot a) then
            match hstore mem p (VInt 0) with None => Oob | Some mem =>
              match hpadd mem p 1 with None => Oob | Some q =>
                match hload_ptr mem q with None => Oob | Some nx => Gkeep mk fuel mem evs answers nx end end end
          else
            match hpadd mem p 1 with None => Oob | Some q =>
              match hload_ptr mem q with None => Oob | Some nx => Gkeep mk fuel mem evs answers nx end end
        end end
    else Go (mem, evs, answers, p)
  end.

Lemma set0_node h b id nxt : hblock h b = mnode id nxt -> upd h b (mnode 0 nxt) = set0 h b 0.
Proof. intro Hb. unfold set0. rewrite Hb. reflexivity. Qed.
Lemma set0_block h b id nxt : hblock h b = mnode id nxt -> hblock (set0 h b 0) b = mnode 0 nxt.
Proof.
  intro Hb. unfold set0. rewrite hblock_upd_same by (apply hblock_lt; rewrite Hb; discriminate). rewrite Hb. reflexivity.
Qed.
Lemma set0_other h b b' v : b' <> b -> hblock (set0 h b v) b' = hblock h b'.
Proof. intro Hne. unfold set0. apply hblock_upd_other. intro E. apply Hne. symmetry. exact E. Qed.

Lemma Gkeep_spec mk : forall ids bs h p evs answers fuel, mchain h p bs ids -> NoDup bs -> (length ids < fuel)%nat ->
  Gkeep mk fuel h evs answers p =
  if (length ids <=? length answers)%nat
  then Go (zero_marks h bs (map (fun a => negb (z2b a)) answers), evs ++ zipw mk ids answers, skipn (length ids) answers, HNull)
  else Oob.
Proof.
  induction ids as [|id ids IH]; intros bs h p evs answers fuel Hc Hnd Hf.
  - apply mchain_nil_inv in Hc. destruct Hc as [-> ->]. destruct fuel as [|fuel]; [cbn [length] in Hf; lia|].
    cbn [Gkeep]. rewrite z2b_false_null. cbn [length Nat.leb zipw skipn]. rewrite zero_marks_nil_l, app_nil_r. reflexivity.
  - apply mchain_cons_inv in Hc. destruct Hc as [b [bs' [nxt [-> [-> [Hb Hc]]]]]]. inversion Hnd as [|? ? Hnb Hnd']; subst.
    destruct fuel as [|fuel]; [cbn [length] in Hf; lia|]. cbn [length] in Hf.
    cbn [Gkeep]. rewrite z2b_true_ptr, (mnode_id h b id nxt Hb).
    destruct answers as [|a r]; [reflexivity|]. cbv zeta. rewrite z2b_lnot.
    cbn [length Nat.leb map zero_marks zipw skipn].
    destruct (z2b a); cbn [negb].
    + rewrite (mnode_padd h b id nxt Hb), (mnode_next h b id nxt Hb). rewrite (IH bs' h nxt _ r fuel Hc Hnd') by lia.
      destruct (length ids <=? length r)%nat; [|reflexivity]. rewrite <- app_assoc. reflexivity.
    + rewrite (mnode_set_id h b id nxt 0 Hb), (set0_node h b id nxt Hb).
      pose proof (set0_block h b id nxt Hb) as Hb0.
      rewrite (mnode_padd _ b 0 nxt Hb0), (mnode_next _ b 0 nxt Hb0).
      assert (Hc0 : mchain (set0 h b 0) nxt bs' ids).
      { apply (mchain_frame h); [|exact Hc]. intros b' Hin. apply set0_other. intro E. subst b'. contradiction. }
      rewrite (IH bs' _ nxt _ r fuel Hc0 Hnd') by lia.
      destruct (length ids <=? length r)%nat; [|reflexivity]. rewrite <- app_assoc. reflexivity.
Qed.

(* what an onlyKeep... function does, as a property of a translated function `run` (its extra argument, if any, applied),
   of the events `ask ids answers` its loop records and of the answers `dropf` that make it drop an expectation:
   with an answer for every expectation it asks each exactly once, in list order, consumes exactly that many answers, leaves the
   list of the expectations it does not drop (order kept) and deletes exactly the other nodes, in list order; nothing outside
   the list changes; with fewer answers it is Oob (the oracle stream is exhausted) -- and only then. *)
Definition only_keep_ok (run : nat -> heap -> list lev -> list Z -> hptr -> fres (unit * heap * list lev * list Z))
                        (ask : list Z -> list Z -> list lev) (dropf : Z -> bool) : Prop :=
  forall fuel h lb ids nodes evs answers, mlist_at h lb ids nodes -> (length ids < fuel)%nat ->
  ((length ids <= length answers)%nat ->
   exists h',
     run fuel h evs answers (HPtr lb 0) =
       FOk (tt, h', evs ++ ask ids answers ++ map (fun b => LDelete (HPtr b 0)) (drop_by nodes (map dropf answers)),
            skipn (length ids) answers) /\
     mlist_at h' lb (keep_by ids (map dropf answers)) (keep_by nodes (map dropf answers)) /\
     length h' = length h /\
     (forall b, b <> lb -> ~ In b nodes -> hblock h' b = hblock h b)) /\
  ((length answers < length ids)%nat -> run fuel h evs answers (HPtr lb 0) = FOob).
(* Oob iff the answers run out *)
Lemma only_keep_ok_oob run ask dropf : only_keep_ok run ask dropf ->
  forall fuel h lb ids nodes evs answers, mlist_at h lb ids nodes -> (length ids < fuel)%nat ->
  (run fuel h evs answers (HPtr lb 0) = FOob <-> (length answers < length ids)%nat).
Proof.
  intros Hok fuel h lb ids nodes evs answers Hrep Hf. destruct (Hok fuel h lb ids nodes evs answers Hrep Hf) as [H1 H2].
  split; [|exact H2]. intro E. destruct (Nat.lt_ge_cases (length answers) (length ids)) as [L|L]; [exact L|].
  destruct (H1 L) as [h' [Hrun _]]. rewrite Hrun in E. discriminate E.
Qed.

(* the function around the loop, for the seven *)
Definition GkeepF (mk : Z -> Z -> lev) (fuel0 : nat) (mem : heap) (evs : list lev) (answers : list Z) (this_ : hptr)
  : fres (unit * heap * list lev * list Z) :=
  finish (R := (unit * heap * list lev * list Z)) (A := unit)
    (match hload_ptr mem this_ with None => Oob | Some v1 =>
     (match Gkeep mk fuel0 mem evs answers v1 with Go (mem, evs, answers, p) =>
       (match src_mlist_pruneEmptyNodeFromList fuel0 mem evs answers this_ with FOk (r8, mem, evs, answers) => (Done (tt, mem, evs, answers)) | FOob => Oob | FNoFuel => NoFuel end) | Done r => Done r | Oob => Oob | NoFuel => NoFuel end) end).

Lemma GkeepF_ok mk : only_keep_ok (GkeepF mk) (zipw mk) (fun a => negb (z2b a)).
Proof.
  intros fuel h lb ids nodes evs answers Hrep Hf. pose proof Hrep as [[hd [Hl [Hc [Hnd Hnin]]]] Hnz].
  unfold GkeepF. rewrite (mhead_load h lb hd Hl), (Gkeep_spec mk ids nodes h hd evs answers fuel Hc Hnd Hf). split.
  - intro L. rewrite (proj2 (Nat.leb_le _ _) L).
    destruct (mark_prune fuel h lb ids nodes (map (fun a => negb (z2b a)) answers) (evs ++ zipw mk ids answers)
                (skipn (length ids) answers) Hrep Hf) as [h' [Hrun [Hrep' [Hlen Hfr]]]].
    exists h'. rewrite Hrun. split; [rewrite <- app_assoc; reflexivity|]. split; [exact Hrep'|]. split; [exact Hlen | exact Hfr].
  - intro L. rewrite (proj2 (Nat.leb_gt _ _) L). reflexivity.
Qed.

(* the seven translated loops are that loop *)
Lemma keep_loop_eq_RelatedTo fuel0 : forall fuel, src_mlist_onlyKeepExpectationsRelatedTo_loop1 fuel0 fuel =
  fun name => Gkeep (fun id a => LAskArg "relatesTo" id name a) fuel.
Proof. induction fuel as [|fuel IH]; [reflexivity|]. cbn [src_mlist_onlyKeepExpectationsRelatedTo_loop1 Gkeep]. rewrite IH. reflexivity. Qed.
Lemma keep_loop_eq_OutOfOrder fuel0 : forall fuel, src_mlist_onlyKeepOutOfOrderExpectations_loop1 fuel0 fuel =
  Gkeep (LAsk "isOutOfOrder") fuel.
Proof. induction fuel as [|fuel IH]; [reflexivity|]. cbn [src_mlist_onlyKeepOutOfOrderExpectations_loop1 Gkeep]. rewrite IH. reflexivity. Qed.
Lemma keep_loop_eq_InputParameterName fuel0 : forall fuel, src_mlist_onlyKeepExpectationsWithInputParameterName_loop1 fuel0 fuel =
  fun name => Gkeep (fun id a => LAskArg "hasInputParameterWithName" id name a) fuel.
Proof. induction fuel as [|fuel IH]; [reflexivity|]. cbn [src_mlist_onlyKeepExpectationsWithInputParameterName_loop1 Gkeep]. rewrite IH. reflexivity. Qed.
Lemma keep_loop_eq_OutputParameterName fuel0 : forall fuel, src_mlist_onlyKeepExpectationsWithOutputParameterName_loop1 fuel0 fuel =
  fun name => Gkeep (fun id a => LAskArg "hasOutputParameterWithName" id name a) fuel.
Proof. induction fuel as [|fuel IH]; [reflexivity|]. cbn [src_mlist_onlyKeepExpectationsWithOutputParameterName_loop1 Gkeep]. rewrite IH. reflexivity. Qed.
Lemma keep_loop_eq_InputParameter fuel0 : forall fuel, src_mlist_onlyKeepExpectationsWithInputParameter_loop1 fuel0 fuel =
  fun parameter => Gkeep (fun id a => LAskArg "hasInputParameter" id parameter a) fuel.
Proof. induction fuel as [|fuel IH]; [reflexivity|]. cbn [src_mlist_onlyKeepExpectationsWithInputParameter_loop1 Gkeep]. rewrite IH. reflexivity. Qed.
Lemma keep_loop_eq_OutputParameter fuel0 : forall fuel, src_mlist_onlyKeepExpectationsWithOutputParameter_loop1 fuel0 fuel =
  fun parameter => Gkeep (fun id a => LAskArg "hasOutputParameter" id parameter a) fuel.
Proof. induction fuel as [|fuel IH]; [reflexivity|]. cbn [src_mlist_onlyKeepExpectationsWithOutputParameter_loop1 Gkeep]. rewrite IH. reflexivity. Qed.
Lemma keep_loop_eq_OnObject fuel0 : forall fuel, src_mlist_onlyKeepExpectationsOnObject_loop1 fuel0 fuel =
  fun objectPtr => Gkeep (fun id a => LAskArg "relatesToObject" id objectPtr a) fuel.
Proof. induction fuel as [|fuel IH]; [reflexivity|]. cbn [src_mlist_onlyKeepExpectationsOnObject_loop1 Gkeep]. rewrite IH. reflexivity. Qed.

(* THEOREM 2 (seven of the eight).  keeps = the expectations answering non-zero *)
Definition drops_zero (a : Z) : bool := negb (z2b a).   (* the drop flag of an answer: answer 0 = "no" = the expectation is dropped *)
Theorem onlyKeepExpectationsRelatedTo_spec name :
  only_keep_ok (fun fuel h evs answers this_ => src_mlist_onlyKeepExpectationsRelatedTo fuel h evs answers this_ name)
               (zipw (fun id a => LAskArg "relatesTo" id name a)) drops_zero.
Proof.
  intros fuel h lb ids nodes evs answers. unfold src_mlist_onlyKeepExpectationsRelatedTo. rewrite keep_loop_eq_RelatedTo.
  exact (GkeepF_ok _ fuel h lb ids nodes evs answers).
Qed.
Theorem onlyKeepOutOfOrderExpectations_spec :
  only_keep_ok src_mlist_onlyKeepOutOfOrderExpectations (zipw (LAsk "isOutOfOrder")) drops_zero.
Proof.
  intros fuel h lb ids nodes evs answers. unfold src_mlist_onlyKeepOutOfOrderExpectations. rewrite keep_loop_eq_OutOfOrder.
  exact (GkeepF_ok _ fuel h lb ids nodes evs answers).
Qed.
Theorem onlyKeepExpectationsWithInputParameterName_spec name :
  only_keep_ok (fun fuel h evs answers this_ => src_mlist_onlyKeepExpectationsWithInputParameterName fuel h evs answers this_ name)
               (zipw (fun id a => LAskArg "hasInputParameterWithName" id name a)) drops_zero.
Proof.
  intros fuel h lb ids nodes evs answers. unfold src_mlist_onlyKeepExpectationsWithInputParameterName.
  rewrite keep_loop_eq_InputParameterName. exact (GkeepF_ok _ fuel h lb ids nodes evs answers).
Qed.
Theorem onlyKeepExpectationsWithOutputParameterName_spec name :
  only_keep_ok (fun fuel h evs answers this_ => src_mlist_onlyKeepExpectationsWithOutputParameterName fuel h evs answers this_ name)
               (zipw (fun id a => LAskArg "hasOutputParameterWithName" id name a)) drops_zero.
Proof.
  intros fuel h lb ids nodes evs answers. unfold src_mlist_onlyKeepExpectationsWithOutputParameterName.
  rewrite keep_loop_eq_OutputParameterName. exact (GkeepF_ok _ fuel h lb ids nodes evs answers).
Qed.
Theorem onlyKeepExpectationsWithInputParameter_spec parameter :
  only_keep_ok (fun fuel h evs answers this_ => src_mlist_onlyKeepExpectationsWithInputParameter fuel h evs answers this_ parameter)
               (zipw (fun id a => LAskArg "hasInputParameter" id parameter a)) drops_zero.
Proof.
  intros fuel h lb ids nodes evs answers. unfold src_mlist_onlyKeepExpectationsWithInputParameter.
  rewrite keep_loop_eq_InputParameter. exact (GkeepF_ok _ fuel h lb ids nodes evs answers).
Qed.
Theorem onlyKeepExpectationsWithOutputParameter_spec parameter :
  only_keep_ok (fun fuel h evs answers this_ => src_mlist_onlyKeepExpectationsWithOutputParameter fuel h evs answers this_ parameter)
               (zipw (fun id a => LAskArg "hasOutputParameter" id parameter a)) drops_zero.
Proof.
  intros fuel h lb ids nodes evs answers. unfold src_mlist_onlyKeepExpectationsWithOutputParameter.
  rewrite keep_loop_eq_OutputParameter. exact (GkeepF_ok _ fuel h lb ids nodes evs answers).
Qed.
Theorem onlyKeepExpectationsOnObject_spec objectPtr :
  only_keep_ok (fun fuel h evs answers this_ => src_mlist_onlyKeepExpectationsOnObject fuel h evs answers this_ objectPtr)
               (zipw (fun id a => LAskArg "relatesToObject" id objectPtr a)) drops_zero.
Proof.
  intros fuel h lb ids nodes evs answers. unfold src_mlist_onlyKeepExpectationsOnObject.
  rewrite keep_loop_eq_OnObject. exact (GkeepF_ok _ fuel h lb ids nodes evs answers).
Qed.

(* onlyKeepUnmatchingExpectations: the negation -- it keeps the expectations answering 0 to isMatchingActualCallAndFinalized, and
   tells each one it removes resetActualCallMatchingState right after that expectation's answer *)
Fixpoint unm_events (ids answers : list Z) : list lev :=
  match ids, answers with
  | id :: ids', a :: r =>
      LAsk "isMatchingActualCallAndFinalized" id a ::
      (if z2b a then LTell "resetActualCallMatchingState" id :: unm_events ids' r else unm_events ids' r)
  | _, _ => []
  end.
Lemma unmatching_loop_spec fuel0 : forall ids bs h p evs answers fuel, mchain h p bs ids -> NoDup bs -> (length ids < fuel)%nat ->
  src_mlist_onlyKeepUnmatchingExpectations_loop1 fuel0 fuel h evs answers p =
  if (length ids <=? length answers)%nat
  then Go (zero_marks h bs (map z2b answers), evs ++ unm_events ids answers, skipn (length ids) answers, HNull)
  else Oob.
Proof.
  induction ids as [|id ids IH]; intros bs h p evs answers fuel Hc Hnd Hf.
  - apply mchain_nil_inv in Hc. destruct Hc as [-> ->]. destruct fuel as [|fuel]; [cbn [length] in Hf; lia|].
    cbn [src_mlist_onlyKeepUnmatchingExpectations_loop1]. rewrite z2b_false_null.
    cbn [length Nat.leb unm_events skipn]. rewrite zero_marks_nil_l, app_nil_r. reflexivity.
  - apply mchain_cons_inv in Hc. destruct Hc as [b [bs' [nxt [-> [-> [Hb Hc]]]]]]. inversion Hnd as [|? ? Hnb Hnd']; subst.
    destruct fuel as [|fuel]; [cbn [length] in Hf; lia|]. cbn [length] in Hf.
    cbn [src_mlist_onlyKeepUnmatchingExpectations_loop1]. rewrite z2b_true_ptr, (mnode_id h b id nxt Hb).
    destruct answers as [|a r]; [reflexivity|]. cbv zeta.
    cbn [length Nat.leb map zero_marks unm_events skipn].
    destruct (z2b a).
    + rewrite (mnode_set_id h b id nxt 0 Hb), (set0_node h b id nxt Hb).
      pose proof (set0_block h b id nxt Hb) as Hb0.
      rewrite (mnode_padd _ b 0 nxt Hb0), (mnode_next _ b 0 nxt Hb0).
      assert (Hc0 : mchain (set0 h b 0) nxt bs' ids).
      { apply (mchain_frame h); [|exact Hc]. intros b' Hin. apply set0_other. intro E. subst b'. contradiction. }
      rewrite (IH bs' _ nxt _ r fuel Hc0 Hnd') by lia.
      destruct (length ids <=? length r)%nat; [|reflexivity]. rewrite <- !app_assoc. reflexivity.
    + rewrite (mnode_padd h b id nxt Hb), (mnode_next h b id nxt Hb). rewrite (IH bs' h nxt _ r fuel Hc Hnd') by lia.
      destruct (length ids <=? length r)%nat; [|reflexivity]. rewrite <- app_assoc. reflexivity.
Qed.
Theorem onlyKeepUnmatchingExpectations_spec : only_keep_ok src_mlist_onlyKeepUnmatchingExpectations unm_events z2b.
Proof.
  intros fuel h lb ids nodes evs answers Hrep Hf. pose proof Hrep as [[hd [Hl [Hc [Hnd Hnin]]]] Hnz].
  unfold src_mlist_onlyKeepUnmatchingExpectations.
  rewrite (mhead_load h lb hd Hl). cbv zeta. rewrite (unmatching_loop_spec fuel ids nodes h hd evs answers fuel Hc Hnd Hf). split.
  - intro L. rewrite (proj2 (Nat.leb_le _ _) L).
    destruct (mark_prune fuel h lb ids nodes (map z2b answers) (evs ++ unm_events ids answers)
                (skipn (length ids) answers) Hrep Hf) as [h' [Hrun [Hrep' [Hlen Hfr]]]].
    exists h'. rewrite Hrun. split; [rewrite <- app_assoc; reflexivity|]. split; [exact Hrep'|]. split; [exact Hlen | exact Hfr].
  - intro L. rewrite (proj2 (Nat.leb_gt _ _) L). reflexivity.
Qed.
(* the events of that pass, read back: every expectation is asked once, in order, and the ones told to reset are the removed ones *)
Definition is_ask (e : lev) : bool := match e with LAsk _ _ _ | LAskArg _ _ _ _ => true | _ => false end.
Definition is_tell (e : lev) : bool := match e with LTell _ _ | LTellArg _ _ _ => true | _ => false end.
Lemma unm_events_asks : forall ids answers,
  filter is_ask (unm_events ids answers) = zipw (LAsk "isMatchingActualCallAndFinalized") ids answers.
Proof. induction ids as [|id ids IH]; intros [|a r]; cbn; try reflexivity. destruct (z2b a); cbn; rewrite IH; reflexivity. Qed.
Lemma unm_events_tells : forall ids answers,
  filter is_tell (unm_events ids answers) = map (LTell "resetActualCallMatchingState") (drop_by ids (map z2b answers)).
Proof. induction ids as [|id ids IH]; intros [|a r]; cbn; try reflexivity. destruct (z2b a); cbn; rewrite IH; reflexivity. Qed.

(* ================================================================== 5. the questions with early exit *)
(* the loop shared by hasCallsOutOfOrder, hasFinalizedMatchingExpectations, hasExpectationWithName (test = the answer) and
   hasUnfulfilledExpectations, hasUnmatchingExpectationsBecauseOfMissingParameters (test = !answer) *)
Fixpoint Ghas (mk : Z -> Z -> lev) (test : Z -> Z) (fuel : nat) (mem : heap) (evs : list lev) (answers : list Z) (p : hptr)
  {struct fuel} : cres (Z * heap * list lev * list Z) (list lev * list Z * hptr) :=
  match fuel with O => NoFuel | S fuel =>
    if z2b (hp_bool p) then
      match hload_int mem p with None => Oob | Some id =>
        match answers with nil => Oob | cons a answers => let evs := evs ++ [mk id a] in
          if z2b (test a) then Done (1, mem, evs, answers) else
            match hpadd mem p 1 with None => Oob | Some q =>
              match hload_ptr mem q with None => Oob | Some nx => Ghas mk test fuel mem evs answers nx end end end end
    else Go (evs, answers, p)
  end.

Lemma Ghas_spec mk test : forall ids bs h p evs answers fuel, mchain h p bs ids -> (length ids < fuel)%nat ->
  Ghas mk test fuel h evs answers p =
  if existsb (fun a => z2b (test a)) (asked (fun a => z2b (test a)) ids answers)
  then Done (1, h, evs ++ zipw mk ids (asked (fun a => z2b (test a)) ids answers),
             skipn (length (asked (fun a => z2b (test a)) ids answers)) answers)
  else if (length ids <=? length answers)%nat
       then Go (evs ++ zipw mk ids (asked (fun a => z2b (test a)) ids answers),
                skipn (length (asked (fun a => z2b (test a)) ids answers)) answers, HNull)
       else Oob.
Proof.
  induction ids as [|id ids IH]; intros bs h p evs answers fuel Hc Hf.
  - apply mchain_nil_inv in Hc. destruct Hc as [-> ->]. destruct fuel as [|fuel]; [cbn [length] in Hf; lia|].
    cbn [Ghas]. rewrite z2b_false_null. cbn [asked existsb length Nat.leb zipw skipn]. rewrite app_nil_r. reflexivity.
  - apply mchain_cons_inv in Hc. destruct Hc as [b [bs' [nxt [-> [-> [Hb Hc]]]]]].
    destruct fuel as [|fuel]; [cbn [length] in Hf; lia|]. cbn [length] in Hf.
    cbn [Ghas]. rewrite z2b_true_ptr, (mnode_id h b id nxt Hb).
    destruct answers as [|a r]; [reflexivity|]. cbv zeta. cbn [asked].
    destruct (z2b (test a)) eqn:E.
    + cbn [existsb]. rewrite E. cbn [orb length skipn zipw]. rewrite zipw_nil_r. reflexivity.
    + cbn [existsb]. rewrite E. cbn [orb length Nat.leb skipn zipw].
      rewrite (mnode_padd h b id nxt Hb), (mnode_next h b id nxt Hb). rewrite (IH bs' h nxt _ r fuel Hc) by lia.
      rewrite <- !app_assoc. reflexivity.
Qed.

Definition GhasF (mk : Z -> Z -> lev) (test : Z -> Z) (fuel0 : nat) (mem : heap) (evs : list lev) (answers : list Z) (this_ : hptr)
  : fres (Z * heap * list lev * list Z) :=
  finish (R := (Z * heap * list lev * list Z)) (A := unit)
    (match hload_ptr mem this_ with None => Oob | Some v1 =>
      (match Ghas mk test fuel0 mem evs answers v1 with Go (evs, answers, p) => (Done (0, mem, evs, answers)) | Done r => Done r | Oob => Oob | NoFuel => NoFuel end) end).

(* what a has... question does: it asks the expectations in list order UNTIL the first answer satisfying t (the expectations
   after that one are not asked: the events and the number of answers consumed show it) and returns whether there was one; the
   heap is not touched.  Oob iff the answers run out before a positive one. *)
Definition has_ok (run : nat -> heap -> list lev -> list Z -> hptr -> fres (Z * heap * list lev * list Z))
                  (mk : Z -> Z -> lev) (t : Z -> bool) : Prop :=
  forall fuel h lb ids nodes evs answers, mlist0_at h lb ids nodes -> (length ids < fuel)%nat ->
  let asks := asked t ids answers in
  (existsb t asks = true \/ (length ids <= length answers)%nat ->
   run fuel h evs answers (HPtr lb 0) = FOk (b2z (existsb t asks), h, evs ++ zipw mk ids asks, skipn (length asks) answers)) /\
  (existsb t asks = false -> (length answers < length ids)%nat -> run fuel h evs answers (HPtr lb 0) = FOob).

Lemma GhasF_ok mk test : has_ok (GhasF mk test) mk (fun a => z2b (test a)).
Proof.
  intros fuel h lb ids nodes evs answers [hd [Hl [Hc _]]] Hf asks. unfold GhasF.
  rewrite (mhead_load h lb hd Hl), (Ghas_spec mk test ids nodes h hd evs answers fuel Hc Hf). fold asks. split.
  - intros [E|L].
    + rewrite E. reflexivity.
    + destruct (existsb _ asks); [reflexivity|]. rewrite (proj2 (Nat.leb_le _ _) L). reflexivity.
  - intros E L. rewrite E, (proj2 (Nat.leb_gt _ _) L). reflexivity.
Qed.

Lemma has_loop_eq_OutOfOrder fuel0 : forall fuel, src_mlist_hasCallsOutOfOrder_loop1 fuel0 fuel = Ghas (LAsk "isOutOfOrder") (fun a => a) fuel.
Proof. induction fuel as [|fuel IH]; [reflexivity|]. cbn [src_mlist_hasCallsOutOfOrder_loop1 Ghas]. rewrite IH. reflexivity. Qed.
Lemma has_loop_eq_Finalized fuel0 : forall fuel, src_mlist_hasFinalizedMatchingExpectations_loop1 fuel0 fuel =
  Ghas (LAsk "isMatchingActualCallAndFinalized") (fun a => a) fuel.
Proof. induction fuel as [|fuel IH]; [reflexivity|]. cbn [src_mlist_hasFinalizedMatchingExpectations_loop1 Ghas]. rewrite IH. reflexivity. Qed.
Lemma has_loop_eq_Unfulfilled fuel0 : forall fuel, src_mlist_hasUnfulfilledExpectations_loop1 fuel0 fuel =
  Ghas (LAsk "isFulfilled") c_lnot fuel.
Proof. induction fuel as [|fuel IH]; [reflexivity|]. cbn [src_mlist_hasUnfulfilledExpectations_loop1 Ghas]. rewrite IH. reflexivity. Qed.
Lemma has_loop_eq_WithName fuel0 : forall fuel, src_mlist_hasExpectationWithName_loop1 fuel0 fuel =
  fun mem name => Ghas (fun id a => LAskArg "relatesTo" id name a) (fun a => a) fuel mem.
Proof. induction fuel as [|fuel IH]; [reflexivity|]. cbn [src_mlist_hasExpectationWithName_loop1 Ghas]. rewrite IH. reflexivity. Qed.
Lemma has_loop_eq_MissingParameters fuel0 : forall fuel, src_mlist_hasUnmatchingExpectationsBecauseOfMissingParameters_loop1 fuel0 fuel =
  Ghas (LAsk "areParametersMatchingActualCall") c_lnot fuel.
Proof.
  induction fuel as [|fuel IH]; [reflexivity|]. cbn [src_mlist_hasUnmatchingExpectationsBecauseOfMissingParameters_loop1 Ghas].
  rewrite IH. reflexivity.
Qed.

(* THEOREM 4 (has...).  a positive answer is a non-zero one; for the two negated questions a zero one *)
Definition yes (a : Z) : bool := z2b a.
Definition no (a : Z) : bool := z2b (c_lnot a).
Lemma no_negb a : no a = negb (z2b a). Proof. apply z2b_lnot. Qed.
Theorem hasCallsOutOfOrder_spec : has_ok src_mlist_hasCallsOutOfOrder (LAsk "isOutOfOrder") yes.
Proof.
  intros fuel h lb ids nodes evs answers. unfold src_mlist_hasCallsOutOfOrder. rewrite has_loop_eq_OutOfOrder.
  exact (GhasF_ok _ _ fuel h lb ids nodes evs answers).
Qed.
Theorem hasFinalizedMatchingExpectations_spec :
  has_ok src_mlist_hasFinalizedMatchingExpectations (LAsk "isMatchingActualCallAndFinalized") yes.
Proof.
  intros fuel h lb ids nodes evs answers. unfold src_mlist_hasFinalizedMatchingExpectations. rewrite has_loop_eq_Finalized.
  exact (GhasF_ok _ _ fuel h lb ids nodes evs answers).
Qed.
Theorem hasUnfulfilledExpectations_spec : has_ok src_mlist_hasUnfulfilledExpectations (LAsk "isFulfilled") no.
Proof.
  intros fuel h lb ids nodes evs answers. unfold src_mlist_hasUnfulfilledExpectations. rewrite has_loop_eq_Unfulfilled.
  exact (GhasF_ok _ _ fuel h lb ids nodes evs answers).
Qed.
Theorem hasExpectationWithName_spec name :
  has_ok (fun fuel h evs answers this_ => src_mlist_hasExpectationWithName fuel h evs answers this_ name)
         (fun id a => LAskArg "relatesTo" id name a) yes.
Proof.
  intros fuel h lb ids nodes evs answers. unfold src_mlist_hasExpectationWithName. rewrite has_loop_eq_WithName.
  exact (GhasF_ok _ _ fuel h lb ids nodes evs answers).
Qed.
Theorem hasUnmatchingExpectationsBecauseOfMissingParameters_spec :
  has_ok src_mlist_hasUnmatchingExpectationsBecauseOfMissingParameters (LAsk "areParametersMatchingActualCall") no.
Proof.
  intros fuel h lb ids nodes evs answers. unfold src_mlist_hasUnmatchingExpectationsBecauseOfMissingParameters.
  rewrite has_loop_eq_MissingParameters. exact (GhasF_ok _ _ fuel h lb ids nodes evs answers).
Qed.

(* getFirstMatchingExpectation: the same walk, returning the identity of the first expectation answering yes (0 = NULL) *)
Lemma getFirst_loop_spec fuel0 : forall ids bs h p evs answers fuel, mchain h p bs ids -> (length ids < fuel)%nat ->
  src_mlist_getFirstMatchingExpectation_loop1 fuel0 fuel h evs answers p =
  if existsb z2b (asked z2b ids answers)
  then Done (first_id z2b ids answers, h, evs ++ zipw (LAsk "isMatchingActualCall") ids (asked z2b ids answers),
             skipn (length (asked z2b ids answers)) answers)
  else if (length ids <=? length answers)%nat
       then Go (evs ++ zipw (LAsk "isMatchingActualCall") ids (asked z2b ids answers),
                skipn (length (asked z2b ids answers)) answers, HNull)
       else Oob.
Proof.
  induction ids as [|id ids IH]; intros bs h p evs answers fuel Hc Hf.
  - apply mchain_nil_inv in Hc. destruct Hc as [-> ->]. destruct fuel as [|fuel]; [cbn [length] in Hf; lia|].
    cbn [src_mlist_getFirstMatchingExpectation_loop1]. rewrite z2b_false_null.
    cbn [asked existsb length Nat.leb zipw skipn]. rewrite app_nil_r. reflexivity.
  - apply mchain_cons_inv in Hc. destruct Hc as [b [bs' [nxt [-> [-> [Hb Hc]]]]]].
    destruct fuel as [|fuel]; [cbn [length] in Hf; lia|]. cbn [length] in Hf.
    cbn [src_mlist_getFirstMatchingExpectation_loop1]. rewrite z2b_true_ptr, (mnode_id h b id nxt Hb).
    destruct answers as [|a r]; [reflexivity|]. cbv zeta. cbn [asked first_id].
    destruct (z2b a) eqn:E.
    + cbn [existsb]. rewrite E. cbn [orb length skipn zipw]. rewrite zipw_nil_r. reflexivity.
    + cbn [existsb]. rewrite E. cbn [orb length Nat.leb skipn zipw].
      rewrite (mnode_padd h b id nxt Hb), (mnode_next h b id nxt Hb). rewrite (IH bs' h nxt _ r fuel Hc) by lia.
      rewrite <- !app_assoc. reflexivity.
Qed.
Theorem getFirstMatchingExpectation_spec : forall fuel h lb ids nodes evs answers,
  mlist0_at h lb ids nodes -> (length ids < fuel)%nat ->
  let asks := asked yes ids answers in
  (existsb yes asks = true \/ (length ids <= length answers)%nat ->
   src_mlist_getFirstMatchingExpectation fuel h evs answers (HPtr lb 0) =
     FOk (first_id yes ids answers, h, evs ++ zipw (LAsk "isMatchingActualCall") ids asks, skipn (length asks) answers)) /\
  (existsb yes asks = false -> (length answers < length ids)%nat ->
   src_mlist_getFirstMatchingExpectation fuel h evs answers (HPtr lb 0) = FOob).
Proof.
  intros fuel h lb ids nodes evs answers [hd [Hl [Hc _]]] Hf asks. unfold src_mlist_getFirstMatchingExpectation.
  rewrite (mhead_load h lb hd Hl). cbv zeta. rewrite (getFirst_loop_spec fuel ids nodes h hd evs answers fuel Hc Hf).
  change (asked z2b ids answers) with asks. change (existsb z2b asks) with (existsb yes asks). change (first_id z2b) with (first_id yes). split.
  - intros [E|L].
    + rewrite E. reflexivity.
    + destruct (existsb yes asks) eqn:E; [reflexivity|]. rewrite (proj2 (Nat.leb_le _ _) L).
      replace (first_id yes ids answers) with 0; [reflexivity|].
      clear - E. subst asks. revert answers E. induction ids as [|id ids IH]; intros [|a r] E; cbn in *; try reflexivity.
      destruct (yes a) eqn:Ea; cbn in E; rewrite Ea in E; [discriminate E|]. apply IH. exact E.
  - intros E L. rewrite E, (proj2 (Nat.leb_gt _ _) L). reflexivity.
Qed.

(* ================================================================== 6. removeFirst...MatchingExpectation *)
Fixpoint Gremove (q : string) (fuel0 fuel : nat) (this_ : hptr) (mem : heap) (evs : list lev) (answers : list Z) (p : hptr)
  {struct fuel} : cres (Z * heap * list lev * list Z) (heap * list lev * list Z * hptr) :=
  match fuel with O => NoFuel | S fuel =>
    if z2b (hp_bool p) then
      match hload_int mem p with None => Oob | Some id =>
        match answers with nil => Oob | cons a answers => let evs := evs ++ [LAsk q id a] in
          if z2b a then
            match hload_int mem p with None => Oob | Some v4 =>
              match hstore mem p (VInt 0) with None => Oob | Some mem =>
                match src_mlist_pruneEmptyNodeFromList fuel0 mem evs answers this_ with FOk (r5, mem, evs, answers) => (Done (v4, mem, evs, answers)) | FOob => Oob | FNoFuel => NoFuel end end end
          else
            match hpadd mem p 1 with None => Oob | Some q6 =>
              match hload_ptr mem q6 with None => Oob | Some nx => Gremove q fuel0 fuel this_ mem evs answers nx end end
        end end
    else Go (mem, evs, answers, p)
  end.

(* the loop up to the call of pruneEmptyNodeFromList, which is left as it stands: on the heap where the node found is emptied *)
Lemma Gremove_spec q fuel0 this_ : forall ids bs h p evs answers fuel, mchain h p bs ids -> (length ids < fuel)%nat ->
  Gremove q fuel0 fuel this_ h evs answers p =
  if existsb z2b (asked z2b ids answers)
  then match src_mlist_pruneEmptyNodeFromList fuel0 (zero_marks h bs (first_flag z2b answers))
               (evs ++ zipw (LAsk q) ids (asked z2b ids answers)) (skipn (length (asked z2b ids answers)) answers) this_
       with FOk (r5, mem', evs', answers') => Done (first_id z2b ids answers, mem', evs', answers') | FOob => Oob | FNoFuel => NoFuel end
  else if (length ids <=? length answers)%nat
       then Go (h, evs ++ zipw (LAsk q) ids (asked z2b ids answers), skipn (length (asked z2b ids answers)) answers, HNull)
       else Oob.
Proof.
  induction ids as [|id ids IH]; intros bs h p evs answers fuel Hc Hf.
  - apply mchain_nil_inv in Hc. destruct Hc as [-> ->]. destruct fuel as [|fuel]; [cbn [length] in Hf; lia|].
    cbn [Gremove]. rewrite z2b_false_null. cbn [asked existsb length Nat.leb zipw skipn]. rewrite app_nil_r. reflexivity.
  - apply mchain_cons_inv in Hc. destruct Hc as [b [bs' [nxt [-> [-> [Hb Hc]]]]]].
    destruct fuel as [|fuel]; [cbn [length] in Hf; lia|]. cbn [length] in Hf.
    cbn [Gremove]. rewrite z2b_true_ptr, (mnode_id h b id nxt Hb).
    destruct answers as [|a r]; [reflexivity|]. cbv zeta. cbn [asked first_id first_flag].
    destruct (z2b a) eqn:E.
    + cbn [existsb]. rewrite E. cbn [orb length skipn zipw zero_marks]. rewrite zipw_nil_r.
      rewrite (mnode_set_id h b id nxt 0 Hb), (set0_node h b id nxt Hb). reflexivity.
    + cbn [existsb]. rewrite E. cbn [orb length Nat.leb skipn zipw zero_marks].
      rewrite (mnode_padd h b id nxt Hb), (mnode_next h b id nxt Hb). rewrite (IH bs' h nxt _ r fuel Hc) by lia.
      rewrite <- !app_assoc. reflexivity.
Qed.

Definition GremoveF (q : string) (fuel0 : nat) (mem : heap) (evs : list lev) (answers : list Z) (this_ : hptr)
  : fres (Z * heap * list lev * list Z) :=
  finish (R := (Z * heap * list lev * list Z)) (A := unit)
    (match hload_ptr mem this_ with None => Oob | Some v1 =>
      (match Gremove q fuel0 fuel0 this_ mem evs answers v1 with Go (mem, evs, answers, p) => (Done (0, mem, evs, answers)) | Done r => Done r | Oob => Oob | NoFuel => NoFuel end) end).

Lemma first_flag_none : forall ids answers, existsb z2b (asked z2b ids answers) = false -> (length ids <= length answers)%nat ->
  first_id z2b ids answers = 0 /\ keep_by ids (first_flag z2b answers) = ids /\
  forall (nodes : list nat), length nodes = length ids -> keep_by nodes (first_flag z2b answers) = nodes.
Proof.
  induction ids as [|id ids IH]; intros answers E L.
  - split; [destruct answers; reflexivity|]. split; [reflexivity|]. intros [|? ?] Hl; [reflexivity | discriminate Hl].
  - destruct answers as [|a r]; [cbn in L; lia|]. cbn [asked first_id first_flag] in *. destruct (z2b a) eqn:Ea.
    + cbn in E. rewrite Ea in E. discriminate E.
    + cbn [existsb] in E. rewrite Ea in E. cbn [orb length] in E, L. destruct (IH r E ltac:(lia)) as [H1 [H2 H3]].
      split; [exact H1|]. split; [cbn [keep_by]; rewrite H2; reflexivity|].
      intros [|n nodes] Hl; [discriminate Hl|]. cbn [keep_by]. rewrite H3; [reflexivity|]. cbn [length] in Hl. lia.
Qed.

(* what a removeFirst... function does: it asks in list order until the first yes; that expectation is returned and its node --
   only that one -- is emptied and pruned (one LDelete), the later expectations are not asked; without a yes: 0 (NULL), the list
   and the heap as they were.  Oob iff the answers run out before a yes. *)
Definition remove_first_ok (run : nat -> heap -> list lev -> list Z -> hptr -> fres (Z * heap * list lev * list Z)) (q : string) : Prop :=
  forall fuel h lb ids nodes evs answers, mlist_at h lb ids nodes -> (length ids < fuel)%nat ->
  let asks := asked yes ids answers in
  (existsb yes asks = true ->
   exists h',
     run fuel h evs answers (HPtr lb 0) =
       FOk (first_id yes ids answers, h',
            evs ++ zipw (LAsk q) ids asks ++ map (fun b => LDelete (HPtr b 0)) (drop_by nodes (first_flag yes answers)),
            skipn (length asks) answers) /\
     mlist_at h' lb (keep_by ids (first_flag yes answers)) (keep_by nodes (first_flag yes answers)) /\
     length h' = length h /\ (forall b, b <> lb -> ~ In b nodes -> hblock h' b = hblock h b)) /\
  (existsb yes asks = false -> (length ids <= length answers)%nat ->
   run fuel h evs answers (HPtr lb 0) = FOk (0, h, evs ++ zipw (LAsk q) ids asks, skipn (length asks) answers)) /\
  (existsb yes asks = false -> (length answers < length ids)%nat -> run fuel h evs answers (HPtr lb 0) = FOob).

Lemma GremoveF_ok q : remove_first_ok (GremoveF q) q.
Proof.
  intros fuel h lb ids nodes evs answers Hrep Hf asks. pose proof Hrep as [[hd [Hl [Hc [Hnd Hnin]]]] Hnz].
  unfold GremoveF. rewrite (mhead_load h lb hd Hl), (Gremove_spec q fuel (HPtr lb 0) ids nodes h hd evs answers fuel Hc Hf).
  change (asked z2b ids answers) with asks. change z2b with yes. split; [|split].
  - intro E. rewrite E.
    destruct (mark_prune fuel h lb ids nodes (first_flag yes answers) (evs ++ zipw (LAsk q) ids asks)
                (skipn (length asks) answers) Hrep Hf) as [h' [Hrun [Hrep' [Hlen Hfr]]]].
    exists h'. rewrite Hrun. split; [rewrite <- app_assoc; reflexivity|]. split; [exact Hrep'|]. split; [exact Hlen | exact Hfr].
  - intros E L. rewrite E, (proj2 (Nat.leb_le _ _) L). reflexivity.
  - intros E L. rewrite E, (proj2 (Nat.leb_gt _ _) L). reflexivity.
Qed.

Lemma remove_loop_eq_Finalized fuel0 : forall fuel, src_mlist_removeFirstFinalizedMatchingExpectation_loop1 fuel0 fuel =
  Gremove "isMatchingActualCallAndFinalized" fuel0 fuel.
Proof.
  induction fuel as [|fuel IH]; [reflexivity|]. cbn [src_mlist_removeFirstFinalizedMatchingExpectation_loop1 Gremove]. rewrite IH. reflexivity.
Qed.
Lemma remove_loop_eq_Matching fuel0 : forall fuel, src_mlist_removeFirstMatchingExpectation_loop1 fuel0 fuel =
  Gremove "isMatchingActualCall" fuel0 fuel.
Proof.
  induction fuel as [|fuel IH]; [reflexivity|]. cbn [src_mlist_removeFirstMatchingExpectation_loop1 Gremove]. rewrite IH. reflexivity.
Qed.
Theorem removeFirstFinalizedMatchingExpectation_spec :
  remove_first_ok src_mlist_removeFirstFinalizedMatchingExpectation "isMatchingActualCallAndFinalized".
Proof.
  intros fuel h lb ids nodes evs answers. unfold src_mlist_removeFirstFinalizedMatchingExpectation. rewrite remove_loop_eq_Finalized.
  exact (GremoveF_ok _ fuel h lb ids nodes evs answers).
Qed.
Theorem removeFirstMatchingExpectation_spec : remove_first_ok src_mlist_removeFirstMatchingExpectation "isMatchingActualCall".
Proof.
  intros fuel h lb ids nodes evs answers. unfold src_mlist_removeFirstMatchingExpectation. rewrite remove_loop_eq_Matching.
  exact (GremoveF_ok _ fuel h lb ids nodes evs answers).
Qed.
(* with a yes exactly one node goes: the one at the position of the first yes *)
Lemma first_flag_one : forall (A : Type) (xs : list A) ids answers, length xs = length ids ->
  existsb yes (asked yes ids answers) = true ->
  exists pre x post, xs = pre ++ x :: post /\ length pre = (length (asked yes ids answers) - 1)%nat /\
    keep_by xs (first_flag yes answers) = pre ++ post /\ drop_by xs (first_flag yes answers) = [x].
Proof.
  intros A xs ids. revert xs. induction ids as [|id ids IH]; intros xs answers Hl E; [destruct answers; discriminate E|].
  destruct xs as [|x xs]; [discriminate Hl|]. destruct answers as [|a r]; [discriminate E|]. cbn [asked first_flag] in *.
  destruct (yes a) eqn:Ea.
  - exists [], x, xs. cbn. rewrite keep_by_nil_r, drop_by_nil_r. repeat split; reflexivity.
  - cbn [existsb] in E. rewrite Ea in E. cbn [orb length] in E, Hl. destruct (IH xs r ltac:(lia) E) as [pre [y [post [-> [Hp [Hk Hd]]]]]].
    exists (x :: pre), y, post. cbn [keep_by drop_by length app]. rewrite Hk, Hd. repeat split; try reflexivity.
    rewrite Hp. destruct (asked yes ids r) eqn:Ek; [discriminate E|]. cbn [length]. lia.
Qed.

(* ================================================================== 7. the counters (unsigned int: modulo 2^32) *)
Lemma cw32_range x : 0 <= cw 32 false x < 2 ^ 32.
Proof. rewrite cw_u. apply Z.mod_pos_bound. reflexivity. Qed.

Lemma size_loop_spec fuel0 : forall ids bs h p count fuel, mchain h p bs ids -> (length ids < fuel)%nat -> 0 <= count < 2 ^ 32 ->
  src_mlist_size_loop1 fuel0 fuel h count p = Go (cw 32 false (count + Z.of_nat (length ids)), HNull).
Proof.
  induction ids as [|id ids IH]; intros bs h p count fuel Hc Hf Hr.
  - apply mchain_nil_inv in Hc. destruct Hc as [-> ->]. destruct fuel as [|fuel]; [cbn [length] in Hf; lia|].
    cbn [src_mlist_size_loop1]. rewrite z2b_false_null. cbn [length]. change (Z.of_nat 0) with 0. rewrite Z.add_0_r.
    rewrite cw_u_small by exact Hr. reflexivity.
  - apply mchain_cons_inv in Hc. destruct Hc as [b [bs' [nxt [-> [-> [Hb Hc]]]]]].
    destruct fuel as [|fuel]; [cbn [length] in Hf; lia|]. cbn [length] in Hf.
    cbn [src_mlist_size_loop1]. rewrite z2b_true_ptr. cbv zeta.
    rewrite (mnode_padd h b id nxt Hb), (mnode_next h b id nxt Hb).
    rewrite (IH bs' h nxt _ fuel Hc) by (try lia; apply cw32_range). rewrite cw_u_add_l by lia.
    f_equal. f_equal. f_equal. cbn [length]. lia.
Qed.
(* THEOREM 4 (size): the number of nodes modulo 2^32 -- for every list *)
Theorem size_spec : forall fuel h lb ids nodes evs answers, mlist0_at h lb ids nodes -> (length ids < fuel)%nat ->
  src_mlist_size fuel h evs answers (HPtr lb 0) = FOk (Z.of_nat (length ids) mod 2 ^ 32, h, evs, answers).
Proof.
  intros fuel h lb ids nodes evs answers [hd [Hl [Hc _]]] Hf. unfold src_mlist_size. cbv zeta. rewrite (mhead_load h lb hd Hl).
  rewrite (size_loop_spec fuel ids nodes h hd 0 fuel Hc Hf) by (split; [lia | reflexivity]). rewrite Z.add_0_l, cw_u. reflexivity.
Qed.
Corollary size_small : forall fuel h lb ids nodes evs answers, mlist0_at h lb ids nodes -> (length ids < fuel)%nat ->
  Z.of_nat (length ids) < 2 ^ 32 -> src_mlist_size fuel h evs answers (HPtr lb 0) = FOk (Z.of_nat (length ids), h, evs, answers).
Proof. intros. rewrite (size_spec fuel h lb ids nodes) by assumption. rewrite Z.mod_small by lia. reflexivity. Qed.
(* the wrap: a list of k * 2^32 + r nodes reports r *)
Corollary size_wraps : forall fuel h lb ids nodes evs answers k r, mlist0_at h lb ids nodes -> (length ids < fuel)%nat ->
  Z.of_nat (length ids) = k * 2 ^ 32 + r -> 0 <= r < 2 ^ 32 ->
  src_mlist_size fuel h evs answers (HPtr lb 0) = FOk (r, h, evs, answers).
Proof.
  intros fuel h lb ids nodes evs answers k r Hrep Hf E Hr. rewrite (size_spec fuel h lb ids nodes) by assumption. rewrite E.
  rewrite Z.add_comm, Z_mod_plus_full, Z.mod_small by exact Hr. reflexivity.
Qed.
(* isEmpty *)
Theorem isEmpty_spec : forall fuel h lb ids nodes evs answers, mlist0_at h lb ids nodes ->
  src_mlist_isEmpty fuel h evs answers (HPtr lb 0) = FOk (b2z (match ids with [] => true | _ => false end), h, evs, answers).
Proof.
  intros fuel h lb ids nodes evs answers [hd [Hl [Hc _]]]. unfold src_mlist_isEmpty. rewrite (mhead_load h lb hd Hl).
  destruct ids as [|id ids].
  - apply mchain_nil_inv in Hc. destruct Hc as [-> _]. reflexivity.
  - apply mchain_cons_inv in Hc. destruct Hc as [b [bs' [nxt [_ [-> _]]]]]. reflexivity.
Qed.

(* the number of answers satisfying t among the answers given to ids *)
Fixpoint cnt (t : Z -> bool) (ids answers : list Z) : nat :=
  match ids, answers with _ :: ids', a :: r => if t a then S (cnt t ids' r) else cnt t ids' r | _, _ => O end.
Lemma cnt_filter t : forall ids answers, cnt t ids answers = length (filter t (firstn (length ids) answers)).
Proof. induction ids as [|i ids IH]; intros [|a r]; cbn; try reflexivity. rewrite IH. destruct (t a); reflexivity. Qed.

Lemma unfulfilled_loop_spec fuel0 : forall ids bs h p evs answers count fuel, mchain h p bs ids -> (length ids < fuel)%nat ->
  0 <= count < 2 ^ 32 ->
  src_mlist_amountOfUnfulfilledExpectations_loop1 fuel0 fuel h evs answers count p =
  if (length ids <=? length answers)%nat
  then Go (evs ++ zipw (LAsk "isFulfilled") ids answers, skipn (length ids) answers,
           cw 32 false (count + Z.of_nat (cnt no ids answers)), HNull)
  else Oob.
Proof.
  induction ids as [|id ids IH]; intros bs h p evs answers count fuel Hc Hf Hr.
  - apply mchain_nil_inv in Hc. destruct Hc as [-> ->]. destruct fuel as [|fuel]; [cbn [length] in Hf; lia|].
    cbn [src_mlist_amountOfUnfulfilledExpectations_loop1]. rewrite z2b_false_null. cbn [length Nat.leb zipw skipn cnt].
    change (Z.of_nat 0) with 0. rewrite Z.add_0_r, app_nil_r, cw_u_small by exact Hr. reflexivity.
  - apply mchain_cons_inv in Hc. destruct Hc as [b [bs' [nxt [-> [-> [Hb Hc]]]]]].
    destruct fuel as [|fuel]; [cbn [length] in Hf; lia|]. cbn [length] in Hf.
    cbn [src_mlist_amountOfUnfulfilledExpectations_loop1]. rewrite z2b_true_ptr, (mnode_id h b id nxt Hb).
    destruct answers as [|a r]; [reflexivity|]. cbv zeta. cbn [length Nat.leb zipw skipn cnt]. fold (no a).
    rewrite (mnode_padd h b id nxt Hb), (mnode_next h b id nxt Hb).
    destruct (no a).
    + rewrite (IH bs' h nxt _ r _ fuel Hc) by (try lia; apply cw32_range).
      destruct (length ids <=? length r)%nat; [|reflexivity]. rewrite cw_u_add_l by lia. rewrite <- app_assoc.
      f_equal. f_equal. f_equal. f_equal. lia.
    + rewrite (IH bs' h nxt _ r _ fuel Hc) by (try lia; exact Hr).
      destruct (length ids <=? length r)%nat; [|reflexivity]. rewrite <- app_assoc. reflexivity.
Qed.
(* THEOREM 4 (amountOfUnfulfilledExpectations): every expectation is asked isFulfilled, the count of the answers 0 modulo 2^32 *)
Theorem amountOfUnfulfilledExpectations_spec : forall fuel h lb ids nodes evs answers,
  mlist0_at h lb ids nodes -> (length ids < fuel)%nat ->
  ((length ids <= length answers)%nat ->
   src_mlist_amountOfUnfulfilledExpectations fuel h evs answers (HPtr lb 0) =
     FOk (Z.of_nat (cnt no ids answers) mod 2 ^ 32, h, evs ++ zipw (LAsk "isFulfilled") ids answers, skipn (length ids) answers)) /\
  ((length answers < length ids)%nat -> src_mlist_amountOfUnfulfilledExpectations fuel h evs answers (HPtr lb 0) = FOob).
Proof.
  intros fuel h lb ids nodes evs answers [hd [Hl [Hc _]]] Hf. unfold src_mlist_amountOfUnfulfilledExpectations. cbv zeta.
  rewrite (mhead_load h lb hd Hl).
  rewrite (unfulfilled_loop_spec fuel ids nodes h hd evs answers 0 fuel Hc Hf) by (split; [lia | reflexivity]). split; intro L.
  - rewrite (proj2 (Nat.leb_le _ _) L). rewrite Z.add_0_l, cw_u. reflexivity.
  - rewrite (proj2 (Nat.leb_gt _ _) L). reflexivity.
Qed.

(* amountOfActualCallsFulfilledFor(name): every expectation is asked relatesTo(name); the ones answering yes are asked
   getActualCallsFulfilled (a second answer) -- the pure run over the answer stream: events, sum, answers left *)
Fixpoint ful_run (name : Z) (ids answers : list Z) : option (list lev * Z * list Z) :=
  match ids with
  | [] => Some ([], 0, answers)
  | id :: ids' =>
      match answers with
      | [] => None
      | r :: a1 =>
          if z2b r then
            match a1 with
            | [] => None
            | n :: a2 => match ful_run name ids' a2 with
                         | Some (ev, s, rest) =>
                             Some (LAskArg "relatesTo" id name r :: LAsk "getActualCallsFulfilled" id n :: ev, n + s, rest)
                         | None => None
                         end
            end
          else match ful_run name ids' a1 with
               | Some (ev, s, rest) => Some (LAskArg "relatesTo" id name r :: ev, s, rest)
               | None => None
               end
      end
  end.
Lemma fulfilledFor_loop_spec fuel0 name : forall ids bs h p evs answers count fuel, mchain h p bs ids -> (length ids < fuel)%nat ->
  0 <= count < 2 ^ 32 ->
  src_mlist_amountOfActualCallsFulfilledFor_loop1 fuel0 fuel h name evs answers count p =
  match ful_run name ids answers with
  | Some (ev, s, rest) => Go (evs ++ ev, rest, cw 32 false (count + s), HNull)
  | None => Oob
  end.
Proof.
  induction ids as [|id ids IH]; intros bs h p evs answers count fuel Hc Hf Hr.
  - apply mchain_nil_inv in Hc. destruct Hc as [-> ->]. destruct fuel as [|fuel]; [cbn [length] in Hf; lia|].
    cbn [src_mlist_amountOfActualCallsFulfilledFor_loop1]. rewrite z2b_false_null. cbn [ful_run].
    rewrite Z.add_0_r, app_nil_r, cw_u_small by exact Hr. reflexivity.
  - apply mchain_cons_inv in Hc. destruct Hc as [b [bs' [nxt [-> [-> [Hb Hc]]]]]].
    destruct fuel as [|fuel]; [cbn [length] in Hf; lia|]. cbn [length] in Hf.
    cbn [src_mlist_amountOfActualCallsFulfilledFor_loop1]. rewrite z2b_true_ptr, (mnode_id h b id nxt Hb).
    destruct answers as [|r a1]; [reflexivity|]. cbv zeta. cbn [ful_run].
    destruct (z2b r).
    + destruct a1 as [|n a2]; [reflexivity|]. rewrite (mnode_padd h b id nxt Hb), (mnode_next h b id nxt Hb).
      rewrite (IH bs' h nxt _ a2 _ fuel Hc) by (try lia; apply cw32_range).
      destruct (ful_run name ids a2) as [[[ev s] rest]|]; [|reflexivity].
      rewrite !cw_u_add_l by lia. rewrite <- !app_assoc, Z.add_assoc. reflexivity.
    + rewrite (mnode_padd h b id nxt Hb), (mnode_next h b id nxt Hb).
      rewrite (IH bs' h nxt _ a1 _ fuel Hc) by (try lia; exact Hr).
      destruct (ful_run name ids a1) as [[[ev s] rest]|]; [|reflexivity]. rewrite <- app_assoc. reflexivity.
Qed.
(* THEOREM 4 (amountOfActualCallsFulfilledFor): the sum modulo 2^32 of the second answers of the expectations answering yes *)
Theorem amountOfActualCallsFulfilledFor_spec : forall fuel h lb ids nodes evs answers name,
  mlist0_at h lb ids nodes -> (length ids < fuel)%nat ->
  src_mlist_amountOfActualCallsFulfilledFor fuel h evs answers (HPtr lb 0) name =
  match ful_run name ids answers with
  | Some (ev, s, rest) => FOk (s mod 2 ^ 32, h, evs ++ ev, rest)
  | None => FOob
  end.
Proof.
  intros fuel h lb ids nodes evs answers name [hd [Hl [Hc _]]] Hf. unfold src_mlist_amountOfActualCallsFulfilledFor. cbv zeta.
  rewrite (mhead_load h lb hd Hl).
  rewrite (fulfilledFor_loop_spec fuel name ids nodes h hd evs answers 0 fuel Hc Hf) by (split; [lia | reflexivity]).
  destruct (ful_run name ids answers) as [[[ev s] rest]|]; [|reflexivity]. rewrite Z.add_0_l, cw_u. reflexivity.
Qed.

(* ================================================================== 8. addExpectedCall and the three add... functions *)
Fixpoint lastb (b : nat) (bs : list nat) : nat := match bs with [] => b | b' :: bs' => lastb b' bs' end.
Lemma lastb_in : forall bs b, In (lastb b bs) (b :: bs).
Proof. induction bs as [|b' bs IH]; intro b; [left; reflexivity|]. right. exact (IH b'). Qed.
(* the block whose cell addExpectedCall overwrites: the list object when the list is empty, its last node otherwise *)
Definition tail_block (lb : nat) (nodes : list nat) : nat := match nodes with [] => lb | n :: ns => lastb n ns end.
Lemma tail_block_in lb nodes : In (tail_block lb nodes) (lb :: nodes).
Proof. destruct nodes as [|n ns]; [left; reflexivity|]. right. exact (lastb_in ns n). Qed.
Lemma NoDup_snoc {A} : forall (l : list A) x, NoDup l -> ~ In x l -> NoDup (l ++ [x]).
Proof.
  induction l as [|y l IH]; intros x Hnd Hn; cbn; [constructor; [intros []|constructor]|].
  inversion Hnd as [|? ? Hy Hnd']; subst. constructor.
  - intro Hin. apply in_app_or in Hin. destruct Hin as [Hin|[<-|[]]]; [exact (Hy Hin)|]. apply Hn. left. reflexivity.
  - apply IH; [exact Hnd'|]. intro Hin. apply Hn. right. exact Hin.
Qed.

Lemma addcall_loop_spec fuel0 : forall ids bs id b h fuel, mchain h (HPtr b 0) (b :: bs) (id :: ids) -> (length ids < fuel)%nat ->
  src_mlist_addExpectedCall_loop1 fuel0 fuel h (HPtr b 0) = Go (HPtr (lastb b bs) 0).
Proof.
  induction ids as [|id2 ids IH]; intros bs id b h fuel Hc Hf.
  - destruct Hc as [_ [nxt [Hb Hc]]]. apply mchain_nil_inv in Hc. destruct Hc as [-> ->].
    destruct fuel as [|fuel]; [cbn [length] in Hf; lia|]. cbn [src_mlist_addExpectedCall_loop1].
    rewrite (mnode_padd h b id HNull Hb), (mnode_next h b id HNull Hb), z2b_false_null. reflexivity.
  - destruct Hc as [_ [nxt [Hb Hc]]]. pose proof Hc as Hc2. apply mchain_cons_inv in Hc2.
    destruct Hc2 as [b2 [bs' [nxt2 [-> [-> _]]]]].
    destruct fuel as [|fuel]; [cbn [length] in Hf; lia|]. cbn [length] in Hf. cbn [src_mlist_addExpectedCall_loop1].
    rewrite (mnode_padd h b id _ Hb), (mnode_next h b id _ Hb), z2b_true_ptr. cbv zeta.
    rewrite (IH bs' id2 b2 h fuel Hc) by lia. reflexivity.
Qed.
(* linking a fresh node n (holding c, next_ = NULL) behind the last node of a non-empty chain *)
Lemma mchain_snoc n c : forall ids bs id b h, mchain h (HPtr b 0) (b :: bs) (id :: ids) -> NoDup (b :: bs) -> ~ In n (b :: bs) ->
  hblock h n = mnode c HNull ->
  exists idl nx, hblock h (lastb b bs) = mnode idl nx /\
    mchain (upd h (lastb b bs) (mnode idl (HPtr n 0))) (HPtr b 0) ((b :: bs) ++ [n]) ((id :: ids) ++ [c]).
Proof.
  induction ids as [|id2 ids IH]; intros bs id b h Hc Hnd Hn Hnew.
  - destruct Hc as [_ [nxt [Hb Hc]]]. apply mchain_nil_inv in Hc. destruct Hc as [-> ->]. cbn [lastb].
    assert (Hlt : (b < length h)%nat) by (apply hblock_lt; rewrite Hb; discriminate).
    assert (Hne : n <> b) by (intro E; apply Hn; left; symmetry; exact E).
    exists id, HNull. split; [exact Hb|]. cbn [app mchain]. split; [reflexivity|]. exists (HPtr n 0).
    split; [apply hblock_upd_same; exact Hlt|]. split; [reflexivity|]. exists HNull.
    split; [|reflexivity]. rewrite hblock_upd_other by (intro E; apply Hne; symmetry; exact E). exact Hnew.
  - destruct Hc as [_ [nxt [Hb Hc]]]. pose proof Hc as Hc2. apply mchain_cons_inv in Hc2.
    destruct Hc2 as [b2 [bs' [nxt2 [-> [-> _]]]]]. inversion Hnd as [|? ? Hnb Hnd']; subst.
    destruct (IH bs' id2 b2 h Hc Hnd') as [idl [nx [Hl Hc']]]; [intro Hin; apply Hn; right; exact Hin | exact Hnew |].
    cbn [lastb]. exists idl, nx. split; [exact Hl|].
    change ((b :: b2 :: bs') ++ [n]) with (b :: ((b2 :: bs') ++ [n])). change ((id :: id2 :: ids) ++ [c]) with (id :: ((id2 :: ids) ++ [c])).
    cbn [mchain]. split; [reflexivity|]. exists (HPtr b2 0). split; [|exact Hc'].
    rewrite hblock_upd_other; [exact Hb|]. intro E. apply Hnb. rewrite <- E. exact (lastb_in bs' b2).
Qed.

(* THEOREM 3 (addExpectedCall): one node is allocated (the next block of the heap), it holds `call` and is linked at the END of
   the list (order of the expectations = order of insertion); the only cell overwritten is head_ of an empty list / next_ of
   the last node *)
Theorem addExpectedCall_spec_le : forall fuel h lb ids nodes evs answers call, mlist0_at h lb ids nodes -> (length ids <= fuel)%nat ->
  exists h',
    src_mlist_addExpectedCall fuel h evs answers (HPtr lb 0) call = FOk (tt, h', evs ++ [LNew (HPtr (length h) 0)], answers) /\
    mlist0_at h' lb (ids ++ [call]) (nodes ++ [length h]) /\
    length h' = S (length h) /\
    (forall b, (b < length h)%nat -> b <> tail_block lb nodes -> hblock h' b = hblock h b).
Proof.
  intros fuel h lb ids nodes evs answers call Hrep Hf. pose proof (mlist0_lb_lt h lb ids nodes Hrep) as Hlb.
  destruct Hrep as [hd [Hl [Hc [Hnd Hnin]]]].
  set (n := length h). set (h1 := h ++ [[VInt call; VPtr HNull]]).
  assert (H1 : forall b, (b < length h)%nat -> hblock h1 b = hblock h b) by (intros b L; apply hblock_app_l; exact L).
  assert (Hn1 : hblock h1 n = mnode call HNull) by apply (hblock_app_new h (mnode call HNull)).
  assert (Hlen1 : length h1 = S n) by (unfold h1; rewrite app_length; cbn; lia).
  assert (Hlt : forall b, In b nodes -> (b < n)%nat) by (intros b Hin; exact (mchain_in_lt h ids hd nodes b Hc Hin)).
  assert (Hc1 : mchain h1 hd nodes ids) by (apply (mchain_frame h); [intros b Hin; apply H1; exact (Hlt b Hin) | exact Hc]).
  assert (Hl1 : hblock h1 lb = [VPtr hd]) by (rewrite H1 by exact Hlb; exact Hl).
  assert (Hnn : ~ In n nodes) by (intro Hin; specialize (Hlt n Hin); lia).
  unfold src_mlist_addExpectedCall. cbv zeta. fold n. fold h1. rewrite (mhead_load h1 lb hd Hl1).
  destruct ids as [|id ids].
  - apply mchain_nil_inv in Hc. destruct Hc as [-> ->]. change (z2b (hp_eq HNull HNull)) with true. cbv iota.
    rewrite (mhead_store h1 lb HNull (HPtr n 0) Hl1).
    assert (Hlb1 : (lb < length h1)%nat) by lia.
    exists (upd h1 lb [VPtr (HPtr n 0)]). split; [reflexivity|]. split.
    { exists (HPtr n 0). split; [apply hblock_upd_same; exact Hlb1|]. split.
      - cbn [app mchain]. split; [reflexivity|]. exists HNull. split; [|reflexivity].
        rewrite hblock_upd_other by (intro E; lia). exact Hn1.
      - split; [constructor; [intros []|constructor]|]. intros [E|[]]. lia. }
    split; [rewrite heap_upd_length; exact Hlen1|].
    intros b L Hne. cbn [tail_block] in Hne. rewrite hblock_upd_other by (intro E; apply Hne; symmetry; exact E). apply H1. exact L.
  - pose proof Hc1 as Hc2. apply mchain_cons_inv in Hc2. destruct Hc2 as [b [bs [nxt [-> [-> [Hb _]]]]]].
    change (z2b (hp_eq (HPtr b 0) HNull)) with false. cbv iota. cbv zeta.
    rewrite (addcall_loop_spec fuel ids bs id b h1 fuel Hc1) by (cbn [length] in Hf; lia).
    destruct (mchain_snoc n call ids bs id b h1 Hc1 Hnd Hnn Hn1) as [idl [nx [Hlast Hc']]].
    rewrite (mnode_padd h1 _ idl nx Hlast), (mnode_set_next h1 _ idl nx (HPtr n 0) Hlast).
    pose proof (lastb_in bs b) as Hin_last.
    assert (Hlast_ne : lastb b bs <> lb) by (intro E; apply Hnin; rewrite <- E; exact Hin_last).
    exists (upd h1 (lastb b bs) (mnode idl (HPtr n 0))). split; [reflexivity|]. split.
    { exists (HPtr b 0). split; [rewrite hblock_upd_other by exact Hlast_ne; exact Hl1|]. split; [exact Hc'|].
      split; [apply NoDup_snoc; assumption|]. intro Hin. apply in_app_or in Hin. destruct Hin as [Hin|[E|[]]]; [exact (Hnin Hin)|]. lia. }
    split; [rewrite heap_upd_length; exact Hlen1|].
    intros b' L Hne. cbn [tail_block] in Hne. rewrite hblock_upd_other by (intro E; apply Hne; symmetry; exact E). apply H1. exact L.
Qed.
Corollary addExpectedCall_spec : forall fuel h lb ids nodes evs answers call, mlist0_at h lb ids nodes -> (length ids < fuel)%nat ->
  exists h',
    src_mlist_addExpectedCall fuel h evs answers (HPtr lb 0) call = FOk (tt, h', evs ++ [LNew (HPtr (length h) 0)], answers) /\
    mlist0_at h' lb (ids ++ [call]) (nodes ++ [length h]) /\
    length h' = S (length h) /\
    (forall b, (b < length h)%nat -> b <> tail_block lb nodes -> hblock h' b = hblock h b).
Proof. intros fuel h lb ids nodes evs answers call Hrep Hf. apply addExpectedCall_spec_le; [exact Hrep | lia]. Qed.
Corollary addExpectedCall_spec_nz : forall fuel h lb ids nodes evs answers call, mlist_at h lb ids nodes -> call <> 0 ->
  (length ids < fuel)%nat ->
  exists h',
    src_mlist_addExpectedCall fuel h evs answers (HPtr lb 0) call = FOk (tt, h', evs ++ [LNew (HPtr (length h) 0)], answers) /\
    mlist_at h' lb (ids ++ [call]) (nodes ++ [length h]) /\
    length h' = S (length h) /\
    (forall b, (b < length h)%nat -> b <> lb -> ~ In b nodes -> hblock h' b = hblock h b).
Proof.
  intros fuel h lb ids nodes evs answers call [Hrep Hnz] Hcall Hf.
  destruct (addExpectedCall_spec fuel h lb ids nodes evs answers call Hrep Hf) as [h' [Hrun [Hrep' [Hlen Hfr]]]].
  exists h'. split; [exact Hrun|]. split; [split; [exact Hrep'|]; apply Forall_app; split; [exact Hnz | constructor; [exact Hcall | constructor]]|].
  split; [exact Hlen|]. intros b L Hne Hnb. apply Hfr; [exact L|]. intro E. subst b.
  destruct (tail_block_in lb nodes) as [E|Hin]; [apply Hne; symmetry; exact E | exact (Hnb Hin)].
Qed.

(* one step of the add... loops: the expectation of node ob of the OTHER list is appended to this list *)
Lemma add_step : forall fuel0 h lb ids nodes ob obs oid oids onxt evs answers,
  mlist_at h lb ids nodes -> hblock h ob = mnode oid onxt -> mchain h onxt obs oids -> oid <> 0 ->
  ob <> lb -> ~ In lb obs -> ~ In ob nodes -> (forall b, In b obs -> ~ In b nodes) -> (length ids < fuel0)%nat ->
  exists h1,
    src_mlist_addExpectedCall fuel0 h evs answers (HPtr lb 0) oid = FOk (tt, h1, evs ++ [LNew (HPtr (length h) 0)], answers) /\
    mlist_at h1 lb (ids ++ [oid]) (nodes ++ [length h]) /\ length h1 = S (length h) /\
    hblock h1 ob = mnode oid onxt /\ mchain h1 onxt obs oids /\ (forall b, In b obs -> ~ In b (nodes ++ [length h])) /\
    (forall b, (b < length h)%nat -> b <> lb -> ~ In b nodes -> hblock h1 b = hblock h b).
Proof.
  intros fuel0 h lb ids nodes ob obs oid oids onxt evs answers Hrep Hob Hoc Hoid Hne Hlo Hon Hdis Hf.
  destruct (addExpectedCall_spec_nz fuel0 h lb ids nodes evs answers oid Hrep Hoid Hf) as [h1 [Hrun [Hrep1 [Hlen1 Hfr1]]]].
  assert (Hoblt : (ob < length h)%nat) by (apply hblock_lt; rewrite Hob; discriminate).
  assert (Hobslt : forall b, In b obs -> (b < length h)%nat) by (intros b Hin; exact (mchain_in_lt h oids onxt obs b Hoc Hin)).
  exists h1. split; [exact Hrun|]. split; [exact Hrep1|]. split; [exact Hlen1|].
  split; [rewrite Hfr1; assumption|]. split.
  { apply (mchain_frame h); [|exact Hoc]. intros b Hin. apply Hfr1; [exact (Hobslt b Hin) | | exact (Hdis b Hin)].
    intro E. subst b. exact (Hlo Hin). }
  split; [|exact Hfr1].
  intros b Hin Hin2. apply in_app_or in Hin2. destruct Hin2 as [Hin2|[E|[]]]; [exact (Hdis b Hin Hin2)|].
  specialize (Hobslt b Hin). lia.
Qed.

(* the loop of addPotentiallyMatchingExpectations / addExpectationsRelatedTo: ask, append the ones answering yes *)
Fixpoint Gaddf (mk : Z -> Z -> lev) (fuel0 fuel : nat) (this_ : hptr) (mem : heap) (evs : list lev) (answers : list Z) (p : hptr)
  {struct fuel} : cres (unit * heap * list lev * list Z) (heap * list lev * list Z * hptr) :=
  match fuel with O => NoFuel | S fuel =>
    if z2b (hp_bool p) then
      match hload_int mem p with None => Oob | Some id =>
        match answers with nil => Oob | cons a answers => let evs := evs ++ [mk id a] in
          if z2b a then
            match hload_int mem p with None => Oob | Some v4 =>
              match src_mlist_addExpectedCall fuel0 mem evs answers this_ v4 with FOk (r5, mem, evs, answers) =>
                match hpadd mem p 1 with None => Oob | Some q6 =>
                  match hload_ptr mem q6 with None => Oob | Some nx => Gaddf mk fuel0 fuel this_ mem evs answers nx end end
              | FOob => Oob | FNoFuel => NoFuel end end
          else
            match hpadd mem p 1 with None => Oob | Some q8 =>
              match hload_ptr mem q8 with None => Oob | Some nx => Gaddf mk fuel0 fuel this_ mem evs answers nx end end
        end end
    else Go (mem, evs, answers, p)
  end.
(* the events of such a pass: every expectation of the other list is asked once, in order; right after a yes the node
   allocated for it (the blocks n, n+1, ... of the heap) *)
Fixpoint add_events (mk : Z -> Z -> lev) (n : nat) (ids answers : list Z) : list lev :=
  match ids, answers with
  | id :: ids', a :: r => mk id a :: (if z2b a then LNew (HPtr n 0) :: add_events mk (S n) ids' r else add_events mk n ids' r)
  | _, _ => []
  end.

Lemma Gaddf_spec mk fuel0 lb : forall oids obs h op ids nodes evs answers fuel,
  mlist_at h lb ids nodes -> mchain h op obs oids -> Forall (fun z => z <> 0) oids -> ~ In lb obs ->
  (forall b, In b obs -> ~ In b nodes) -> (length oids < fuel)%nat -> (length ids + length oids < fuel0)%nat ->
  if (length oids <=? length answers)%nat
  then exists h',
         Gaddf mk fuel0 fuel (HPtr lb 0) h evs answers op =
           Go (h', evs ++ add_events mk (length h) oids answers, skipn (length oids) answers, HNull) /\
         mlist_at h' lb (ids ++ sel oids answers) (nodes ++ seq (length h) (length (sel oids answers))) /\
         length h' = (length h + length (sel oids answers))%nat /\
         (forall b, (b < length h)%nat -> b <> lb -> ~ In b nodes -> hblock h' b = hblock h b)
  else Gaddf mk fuel0 fuel (HPtr lb 0) h evs answers op = Oob.
Proof.
  induction oids as [|oid oids IH]; intros obs h op ids nodes evs answers fuel Hrep Hoc Hnz Hlo Hdis Hf Hf0.
  - apply mchain_nil_inv in Hoc. destruct Hoc as [-> ->]. destruct fuel as [|fuel]; [cbn [length] in Hf; lia|].
    cbn [length Nat.leb]. exists h. cbn [Gaddf]. rewrite z2b_false_null. cbn [add_events sel length seq skipn].
    rewrite !app_nil_r, Nat.add_0_r. split; [reflexivity|]. split; [exact Hrep|]. split; [reflexivity | intros; reflexivity].
  - apply mchain_cons_inv in Hoc. destruct Hoc as [ob [obs' [onxt [-> [-> [Hob Hoc]]]]]].
    inversion Hnz as [|? ? Hoid Hnz']; subst.
    destruct fuel as [|fuel]; [cbn [length] in Hf; lia|]. cbn [length] in Hf, Hf0.
    destruct answers as [|a r].
    { cbn [length Nat.leb Gaddf]. rewrite z2b_true_ptr, (mnode_id h ob oid onxt Hob). reflexivity. }
    cbn [length Nat.leb]. cbn [Gaddf]. rewrite z2b_true_ptr, (mnode_id h ob oid onxt Hob). cbv zeta.
    cbn [add_events sel skipn]. destruct (z2b a).
    + assert (Hne : ob <> lb) by (intro E; apply Hlo; left; exact E).
      destruct (add_step fuel0 h lb ids nodes ob obs' oid oids onxt (evs ++ [mk oid a]) r Hrep Hob Hoc Hoid Hne
                  ltac:(intro Hin; apply Hlo; right; exact Hin) (Hdis ob (or_introl eq_refl))
                  ltac:(intros b Hin; apply Hdis; right; exact Hin) ltac:(lia))
        as [h1 [Hrun [Hrep1 [Hlen1 [Hob1 [Hoc1 [Hdis1 Hfr1]]]]]]].
      rewrite Hrun. cbv iota beta. rewrite (mnode_padd h1 ob oid onxt Hob1), (mnode_next h1 ob oid onxt Hob1).
      assert (Hf1 : (length (ids ++ [oid]) + length oids < fuel0)%nat) by (rewrite app_length; cbn [length]; lia).
      pose proof (IH obs' h1 onxt (ids ++ [oid]) (nodes ++ [length h]) ((evs ++ [mk oid a]) ++ [LNew (HPtr (length h) 0)]) r fuel
                    Hrep1 Hoc1 Hnz' ltac:(intro Hin; apply Hlo; right; exact Hin) Hdis1 ltac:(lia) Hf1) as IH1.
      destruct (length oids <=? length r)%nat; [|exact IH1].
      destruct IH1 as [h' [Hrun' [Hrep' [Hlen' Hfr']]]]. exists h'. rewrite Hlen1 in *.
      split; [rewrite Hrun'; rewrite <- !app_assoc; reflexivity|].
      split; [rewrite <- !app_assoc in Hrep'; exact Hrep'|].
      split; [rewrite Hlen'; cbn [length]; lia|].
      intros b L Hb Hnb. rewrite Hfr'; [apply Hfr1; assumption | lia | exact Hb |].
      intro Hin. apply in_app_or in Hin. destruct Hin as [Hin|[E|[]]]; [exact (Hnb Hin) | lia].
    + rewrite (mnode_padd h ob oid onxt Hob), (mnode_next h ob oid onxt Hob).
      pose proof (IH obs' h onxt ids nodes (evs ++ [mk oid a]) r fuel Hrep Hoc Hnz' ltac:(intro Hin; apply Hlo; right; exact Hin)
                    ltac:(intros b Hin; apply Hdis; right; exact Hin) ltac:(lia) ltac:(lia)) as IH1.
      destruct (length oids <=? length r)%nat; [|exact IH1].
      destruct IH1 as [h' [Hrun' [Hrep' [Hlen' Hfr']]]]. exists h'.
      split; [rewrite Hrun'; rewrite <- !app_assoc; reflexivity|]. split; [exact Hrep'|]. split; [exact Hlen' | exact Hfr'].
Qed.

(* two different list objects with disjoint nodes (they may share expectations: a node only holds the identity) *)
Definition two_lists (h : heap) (lb : nat) (ids : list Z) (nodes : list nat) (olb : nat) (oids : list Z) (onodes : list nat) : Prop :=
  mlist_at h lb ids nodes /\ mlist_at h olb oids onodes /\ lb <> olb /\ ~ In lb onodes /\ ~ In olb nodes /\
  (forall b, In b onodes -> ~ In b nodes).

Definition GaddfF (mk : Z -> Z -> lev) (fuel0 : nat) (mem : heap) (evs : list lev) (answers : list Z) (this_ list_ : hptr)
  : fres (unit * heap * list lev * list Z) :=
  finish (R := (unit * heap * list lev * list Z)) (A := unit)
    (match hload_ptr mem list_ with None => Oob | Some v1 =>
      (match Gaddf mk fuel0 fuel0 this_ mem evs answers v1 with Go (mem, evs, answers, p) => (Done (tt, mem, evs, answers)) | Done r => Done r | Oob => Oob | NoFuel => NoFuel end) end).

(* what the two filtering add... functions do: every expectation of the other list is asked once, in order; the ones answering
   yes are appended to this list, in order, each in a node allocated at the end of the heap; the other list is unchanged.
   Oob iff the answers run out. *)
Definition add_filtered_ok (run : nat -> heap -> list lev -> list Z -> hptr -> hptr -> fres (unit * heap * list lev * list Z))
                           (mk : Z -> Z -> lev) : Prop :=
  forall fuel h lb ids nodes olb oids onodes evs answers, two_lists h lb ids nodes olb oids onodes ->
  (length ids + length oids < fuel)%nat ->
  ((length oids <= length answers)%nat ->
   exists h',
     run fuel h evs answers (HPtr lb 0) (HPtr olb 0) =
       FOk (tt, h', evs ++ add_events mk (length h) oids answers, skipn (length oids) answers) /\
     mlist_at h' lb (ids ++ sel oids answers) (nodes ++ seq (length h) (length (sel oids answers))) /\
     mlist_at h' olb oids onodes /\
     length h' = (length h + length (sel oids answers))%nat /\
     (forall b, (b < length h)%nat -> b <> lb -> ~ In b nodes -> hblock h' b = hblock h b)) /\
  ((length answers < length oids)%nat -> run fuel h evs answers (HPtr lb 0) (HPtr olb 0) = FOob).

Lemma other_list_kept h h' lb nodes olb oids onodes : mlist_at h olb oids onodes -> lb <> olb -> ~ In lb onodes -> ~ In olb nodes ->
  (forall b, In b onodes -> ~ In b nodes) ->
  (forall b, (b < length h)%nat -> b <> lb -> ~ In b nodes -> hblock h' b = hblock h b) -> mlist_at h' olb oids onodes.
Proof.
  intros [Hrep Hnz] Hne Hlo Hol Hdis Hfr. pose proof (mlist0_lb_lt h olb oids onodes Hrep) as Holt.
  destruct Hrep as [ohd [Hol' [Hoc [Hond Honin]]]]. split; [|exact Hnz]. exists ohd.
  split; [rewrite Hfr; [exact Hol' | exact Holt | intro E; apply Hne; symmetry; exact E | exact Hol]|].
  split; [|split; assumption]. apply (mchain_frame h); [|exact Hoc]. intros b Hin.
  apply Hfr; [exact (mchain_in_lt h oids ohd onodes b Hoc Hin) | intro E; subst b; exact (Hlo Hin) | exact (Hdis b Hin)].
Qed.

Lemma GaddfF_ok mk : add_filtered_ok (GaddfF mk) mk.
Proof.
  intros fuel h lb ids nodes olb oids onodes evs answers [Hrep [Horep [Hne [Hlo [Hol Hdis]]]]] Hf.
  pose proof Horep as [[ohd [Hol' [Hoc [Hond Honin]]]] Honz].
  unfold GaddfF. rewrite (mhead_load h olb ohd Hol').
  pose proof (Gaddf_spec mk fuel lb oids onodes h ohd ids nodes evs answers fuel Hrep Hoc Honz Hlo Hdis ltac:(lia) Hf) as Hloop.
  split; intro L.
  - rewrite (proj2 (Nat.leb_le _ _) L) in Hloop. destruct Hloop as [h' [Hrun [Hrep' [Hlen Hfr]]]].
    exists h'. rewrite Hrun. split; [reflexivity|]. split; [exact Hrep'|].
    split; [exact (other_list_kept h h' lb nodes olb oids onodes Horep Hne Hlo Hol Hdis Hfr)|]. split; [exact Hlen | exact Hfr].
  - rewrite (proj2 (Nat.leb_gt _ _) L) in Hloop. rewrite Hloop. reflexivity.
Qed.

Lemma add_loop_eq_Potentially fuel0 : forall fuel, src_mlist_addPotentiallyMatchingExpectations_loop1 fuel0 fuel =
  Gaddf (LAsk "canMatchActualCalls") fuel0 fuel.
Proof.
  induction fuel as [|fuel IH]; [reflexivity|]. cbn [src_mlist_addPotentiallyMatchingExpectations_loop1 Gaddf]. rewrite IH. reflexivity.
Qed.
Lemma add_loop_eq_RelatedTo fuel0 : forall fuel, src_mlist_addExpectationsRelatedTo_loop1 fuel0 fuel =
  fun this_ name => Gaddf (fun id a => LAskArg "relatesTo" id name a) fuel0 fuel this_.
Proof.
  induction fuel as [|fuel IH]; [reflexivity|]. cbn [src_mlist_addExpectationsRelatedTo_loop1 Gaddf]. rewrite IH. reflexivity.
Qed.
(* THEOREM 3 (the two filtering add... functions) *)
Theorem addPotentiallyMatchingExpectations_spec :
  add_filtered_ok src_mlist_addPotentiallyMatchingExpectations (LAsk "canMatchActualCalls").
Proof.
  intros fuel h lb ids nodes olb oids onodes evs answers. unfold src_mlist_addPotentiallyMatchingExpectations.
  rewrite add_loop_eq_Potentially. exact (GaddfF_ok _ fuel h lb ids nodes olb oids onodes evs answers).
Qed.
Theorem addExpectationsRelatedTo_spec name :
  add_filtered_ok (fun fuel h evs answers this_ list_ => src_mlist_addExpectationsRelatedTo fuel h evs answers this_ name list_)
                  (fun id a => LAskArg "relatesTo" id name a).
Proof.
  intros fuel h lb ids nodes olb oids onodes evs answers. unfold src_mlist_addExpectationsRelatedTo.
  rewrite add_loop_eq_RelatedTo. exact (GaddfF_ok _ fuel h lb ids nodes olb oids onodes evs answers).
Qed.

(* addExpectations: every expectation of the other list, no question asked *)
Lemma addall_loop_spec fuel0 lb : forall oids obs h op ids nodes evs answers fuel,
  mlist_at h lb ids nodes -> mchain h op obs oids -> Forall (fun z => z <> 0) oids -> ~ In lb obs ->
  (forall b, In b obs -> ~ In b nodes) -> (length oids < fuel)%nat -> (length ids + length oids < fuel0)%nat ->
  exists h',
    src_mlist_addExpectations_loop1 fuel0 fuel (HPtr lb 0) h evs answers op =
      Go (h', evs ++ map (fun n => LNew (HPtr n 0)) (seq (length h) (length oids)), answers, HNull) /\
    mlist_at h' lb (ids ++ oids) (nodes ++ seq (length h) (length oids)) /\
    length h' = (length h + length oids)%nat /\
    (forall b, (b < length h)%nat -> b <> lb -> ~ In b nodes -> hblock h' b = hblock h b).
Proof.
  induction oids as [|oid oids IH]; intros obs h op ids nodes evs answers fuel Hrep Hoc Hnz Hlo Hdis Hf Hf0.
  - apply mchain_nil_inv in Hoc. destruct Hoc as [-> ->]. destruct fuel as [|fuel]; [cbn [length] in Hf; lia|].
    exists h. cbn [src_mlist_addExpectations_loop1]. rewrite z2b_false_null. cbn [length seq map].
    rewrite !app_nil_r, Nat.add_0_r. split; [reflexivity|]. split; [exact Hrep|]. split; [reflexivity | intros; reflexivity].
  - apply mchain_cons_inv in Hoc. destruct Hoc as [ob [obs' [onxt [-> [-> [Hob Hoc]]]]]].
    inversion Hnz as [|? ? Hoid Hnz']; subst.
    destruct fuel as [|fuel]; [cbn [length] in Hf; lia|]. cbn [length] in Hf, Hf0.
    cbn [src_mlist_addExpectations_loop1]. rewrite z2b_true_ptr, (mnode_id h ob oid onxt Hob).
    assert (Hne : ob <> lb) by (intro E; apply Hlo; left; exact E).
    destruct (add_step fuel0 h lb ids nodes ob obs' oid oids onxt evs answers Hrep Hob Hoc Hoid Hne
                ltac:(intro Hin; apply Hlo; right; exact Hin) (Hdis ob (or_introl eq_refl))
                ltac:(intros b Hin; apply Hdis; right; exact Hin) ltac:(lia))
      as [h1 [Hrun [Hrep1 [Hlen1 [Hob1 [Hoc1 [Hdis1 Hfr1]]]]]]].
    rewrite Hrun. cbv iota beta. rewrite (mnode_padd h1 ob oid onxt Hob1), (mnode_next h1 ob oid onxt Hob1). cbv zeta.
    assert (Hf1 : (length (ids ++ [oid]) + length oids < fuel0)%nat) by (rewrite app_length; cbn [length]; lia).
    destruct (IH obs' h1 onxt (ids ++ [oid]) (nodes ++ [length h]) (evs ++ [LNew (HPtr (length h) 0)]) answers fuel
                Hrep1 Hoc1 Hnz' ltac:(intro Hin; apply Hlo; right; exact Hin) Hdis1 ltac:(lia) Hf1)
      as [h' [Hrun' [Hrep' [Hlen' Hfr']]]].
    exists h'. rewrite Hlen1 in *. cbn [length seq map].
    split; [rewrite Hrun'; rewrite <- !app_assoc; reflexivity|].
    split; [rewrite <- !app_assoc in Hrep'; exact Hrep'|].
    split; [rewrite Hlen'; lia|].
    intros b L Hb Hnb. rewrite Hfr'; [apply Hfr1; assumption | lia | exact Hb |].
    intro Hin. apply in_app_or in Hin. destruct Hin as [Hin|[E|[]]]; [exact (Hnb Hin) | lia].
Qed.
(* THEOREM 3 (addExpectations) *)
Theorem addExpectations_spec : forall fuel h lb ids nodes olb oids onodes evs answers,
  two_lists h lb ids nodes olb oids onodes -> (length ids + length oids < fuel)%nat ->
  exists h',
    src_mlist_addExpectations fuel h evs answers (HPtr lb 0) (HPtr olb 0) =
      FOk (tt, h', evs ++ map (fun n => LNew (HPtr n 0)) (seq (length h) (length oids)), answers) /\
    mlist_at h' lb (ids ++ oids) (nodes ++ seq (length h) (length oids)) /\
    mlist_at h' olb oids onodes /\
    length h' = (length h + length oids)%nat /\
    (forall b, (b < length h)%nat -> b <> lb -> ~ In b nodes -> hblock h' b = hblock h b).
Proof.
  intros fuel h lb ids nodes olb oids onodes evs answers [Hrep [Horep [Hne [Hlo [Hol Hdis]]]]] Hf.
  pose proof Horep as [[ohd [Hol' [Hoc [Hond Honin]]]] Honz].
  unfold src_mlist_addExpectations. rewrite (mhead_load h olb ohd Hol'). cbv zeta.
  destruct (addall_loop_spec fuel lb oids onodes h ohd ids nodes evs answers fuel Hrep Hoc Honz Hlo Hdis ltac:(lia) Hf)
    as [h' [Hrun [Hrep' [Hlen Hfr]]]].
  exists h'. rewrite Hrun. split; [reflexivity|]. split; [exact Hrep'|].
  split; [exact (other_list_kept h h' lb nodes olb oids onodes Horep Hne Hlo Hol Hdis Hfr)|]. split; [exact Hlen | exact Hfr].
Qed.

(* ================================================================== 9. deleteAllExpectationsAndClearList and the four tell-loops *)
Fixpoint del_events (ids : list Z) (bs : list nat) : list lev :=
  match ids, bs with id :: ids', b :: bs' => LDeleteCall id :: LDelete (HPtr b 0) :: del_events ids' bs' | _, _ => [] end.
Lemma deleteAll_loop_spec fuel0 lb answers : forall ids bs h hd evs fuel, hblock h lb = [VPtr hd] -> mchain h hd bs ids ->
  ~ In lb bs -> (length ids < fuel)%nat ->
  src_mlist_deleteAllExpectationsAndClearList_loop1 fuel0 fuel (HPtr lb 0) h evs answers =
  Go (match ids with [] => h | _ => upd h lb [VPtr HNull] end, evs ++ del_events ids bs, answers).
Proof.
  induction ids as [|id ids IH]; intros bs h hd evs fuel Hl Hc Hnin Hf.
  - apply mchain_nil_inv in Hc. destruct Hc as [-> ->]. destruct fuel as [|fuel]; [cbn [length] in Hf; lia|].
    cbn [src_mlist_deleteAllExpectationsAndClearList_loop1]. rewrite (mhead_load h lb HNull Hl), z2b_false_null.
    cbn [del_events]. rewrite app_nil_r. reflexivity.
  - apply mchain_cons_inv in Hc. destruct Hc as [b [bs' [nxt [-> [-> [Hb Hc]]]]]].
    destruct fuel as [|fuel]; [cbn [length] in Hf; lia|]. cbn [length] in Hf.
    cbn [src_mlist_deleteAllExpectationsAndClearList_loop1]. rewrite (mhead_load h lb _ Hl), z2b_true_ptr.
    rewrite (mnode_padd h b id nxt Hb), (mnode_next h b id nxt Hb). cbv zeta. rewrite (mnode_id h b id nxt Hb).
    rewrite (mhead_store h lb _ nxt Hl).
    assert (Hlt : (lb < length h)%nat) by (apply hblock_lt; rewrite Hl; discriminate).
    assert (Hl1 : hblock (upd h lb [VPtr nxt]) lb = [VPtr nxt]) by (apply hblock_upd_same; exact Hlt).
    assert (Hc1 : mchain (upd h lb [VPtr nxt]) nxt bs' ids).
    { apply (mchain_frame h); [|exact Hc]. intros b' Hin. apply hblock_upd_other. intro E. subst b'. apply Hnin. right. exact Hin. }
    rewrite (IH bs' _ nxt _ fuel Hl1 Hc1) by (try lia; intro Hin; apply Hnin; right; exact Hin).
    cbn [del_events]. rewrite <- !app_assoc. cbn [app]. f_equal. f_equal. f_equal.
    destruct ids as [|id2 ids]; [|apply upd_upd]. apply mchain_nil_inv in Hc. destruct Hc as [-> _]. reflexivity.
Qed.
(* THEOREM 5 (deleteAllExpectationsAndClearList): for each node in order the expectation is deleted, then the node; head_ = NULL
   afterwards; no other block changes *)
Theorem deleteAllExpectationsAndClearList_spec : forall fuel h lb ids nodes evs answers,
  mlist0_at h lb ids nodes -> (length ids < fuel)%nat ->
  exists h',
    src_mlist_deleteAllExpectationsAndClearList fuel h evs answers (HPtr lb 0) = FOk (tt, h', evs ++ del_events ids nodes, answers) /\
    mlist_at h' lb [] [] /\ length h' = length h /\ (forall b, b <> lb -> hblock h' b = hblock h b).
Proof.
  intros fuel h lb ids nodes evs answers [hd [Hl [Hc [Hnd Hnin]]]] Hf. unfold src_mlist_deleteAllExpectationsAndClearList.
  rewrite (deleteAll_loop_spec fuel lb answers ids nodes h hd evs fuel Hl Hc Hnin Hf).
  assert (Hlt : (lb < length h)%nat) by (apply hblock_lt; rewrite Hl; discriminate).
  exists (match ids with [] => h | _ => upd h lb [VPtr HNull] end). split; [reflexivity|].
  destruct ids as [|id ids].
  - apply mchain_nil_inv in Hc. destruct Hc as [-> ->].
    split; [split; [exists HNull; repeat split; [exact Hl | constructor | intros []] | constructor]|]. split; [reflexivity | intros; reflexivity].
  - split; [split; [exists HNull; repeat split; [apply hblock_upd_same; exact Hlt | constructor | intros []] | constructor]|].
    split; [apply heap_upd_length|]. intros b Hne. apply hblock_upd_other. intro E. apply Hne. symmetry. exact E.
Qed.

(* the loop shared by resetActualCallMatchingState, wasPassedToObject, parameterWasPassed, outputParameterWasPassed *)
Fixpoint Gtell (mk : Z -> lev) (fuel : nat) (mem : heap) (evs : list lev) (answers : list Z) (p : hptr) {struct fuel}
  : cres (unit * heap * list lev * list Z) (list lev * list Z * hptr) :=
  match fuel with O => NoFuel | S fuel =>
    if z2b (hp_bool p) then
      match hload_int mem p with None => Oob | Some id => let evs := evs ++ [mk id] in
        match hpadd mem p 1 with None => Oob | Some q3 =>
          match hload_ptr mem q3 with None => Oob | Some nx => Gtell mk fuel mem evs answers nx end end end
    else Go (evs, answers, p)
  end.
Lemma Gtell_spec mk : forall ids bs h p evs answers fuel, mchain h p bs ids -> (length ids < fuel)%nat ->
  Gtell mk fuel h evs answers p = Go (evs ++ map mk ids, answers, HNull).
Proof.
  induction ids as [|id ids IH]; intros bs h p evs answers fuel Hc Hf.
  - apply mchain_nil_inv in Hc. destruct Hc as [-> ->]. destruct fuel as [|fuel]; [cbn [length] in Hf; lia|].
    cbn [Gtell]. rewrite z2b_false_null. cbn [map]. rewrite app_nil_r. reflexivity.
  - apply mchain_cons_inv in Hc. destruct Hc as [b [bs' [nxt [-> [-> [Hb Hc]]]]]].
    destruct fuel as [|fuel]; [cbn [length] in Hf; lia|]. cbn [length] in Hf.
    cbn [Gtell]. rewrite z2b_true_ptr, (mnode_id h b id nxt Hb). cbv zeta.
    rewrite (mnode_padd h b id nxt Hb), (mnode_next h b id nxt Hb). rewrite (IH bs' h nxt _ answers fuel Hc) by lia.
    cbn [map]. rewrite <- app_assoc. reflexivity.
Qed.
Definition GtellF (mk : Z -> lev) (fuel0 : nat) (mem : heap) (evs : list lev) (answers : list Z) (this_ : hptr)
  : fres (unit * heap * list lev * list Z) :=
  finish (R := (unit * heap * list lev * list Z)) (A := unit)
    (match hload_ptr mem this_ with None => Oob | Some v1 =>
      (match Gtell mk fuel0 mem evs answers v1 with Go (evs, answers, p) => (Done (tt, mem, evs, answers)) | Done r => Done r | Oob => Oob | NoFuel => NoFuel end) end).
(* what a tell-loop does: every expectation is told, once, in list order; heap and answers untouched *)
Definition tell_ok (run : nat -> heap -> list lev -> list Z -> hptr -> fres (unit * heap * list lev * list Z)) (mk : Z -> lev) : Prop :=
  forall fuel h lb ids nodes evs answers, mlist0_at h lb ids nodes -> (length ids < fuel)%nat ->
  run fuel h evs answers (HPtr lb 0) = FOk (tt, h, evs ++ map mk ids, answers).
Lemma GtellF_ok mk : tell_ok (GtellF mk) mk.
Proof.
  intros fuel h lb ids nodes evs answers [hd [Hl [Hc _]]] Hf. unfold GtellF.
  rewrite (mhead_load h lb hd Hl), (Gtell_spec mk ids nodes h hd evs answers fuel Hc Hf). reflexivity.
Qed.
Lemma tell_loop_eq_reset fuel0 : forall fuel, src_mlist_resetActualCallMatchingState_loop1 fuel0 fuel =
  Gtell (LTell "resetActualCallMatchingState") fuel.
Proof. induction fuel as [|fuel IH]; [reflexivity|]. cbn [src_mlist_resetActualCallMatchingState_loop1 Gtell]. rewrite IH. reflexivity. Qed.
Lemma tell_loop_eq_object fuel0 : forall fuel, src_mlist_wasPassedToObject_loop1 fuel0 fuel = Gtell (LTell "wasPassedToObject") fuel.
Proof. induction fuel as [|fuel IH]; [reflexivity|]. cbn [src_mlist_wasPassedToObject_loop1 Gtell]. rewrite IH. reflexivity. Qed.
Lemma tell_loop_eq_param fuel0 : forall fuel, src_mlist_parameterWasPassed_loop1 fuel0 fuel =
  fun mem parameterName => Gtell (fun id => LTellArg "inputParameterWasPassed" id parameterName) fuel mem.
Proof. induction fuel as [|fuel IH]; [reflexivity|]. cbn [src_mlist_parameterWasPassed_loop1 Gtell]. rewrite IH. reflexivity. Qed.
Lemma tell_loop_eq_outparam fuel0 : forall fuel, src_mlist_outputParameterWasPassed_loop1 fuel0 fuel =
  fun mem parameterName => Gtell (fun id => LTellArg "outputParameterWasPassed" id parameterName) fuel mem.
Proof. induction fuel as [|fuel IH]; [reflexivity|]. cbn [src_mlist_outputParameterWasPassed_loop1 Gtell]. rewrite IH. reflexivity. Qed.
(* THEOREM 5 (the four tell-loops) *)
Theorem resetActualCallMatchingState_spec : tell_ok src_mlist_resetActualCallMatchingState (LTell "resetActualCallMatchingState").
Proof.
  intros fuel h lb ids nodes evs answers. unfold src_mlist_resetActualCallMatchingState. rewrite tell_loop_eq_reset.
  exact (GtellF_ok _ fuel h lb ids nodes evs answers).
Qed.
Theorem wasPassedToObject_spec : tell_ok src_mlist_wasPassedToObject (LTell "wasPassedToObject").
Proof.
  intros fuel h lb ids nodes evs answers. unfold src_mlist_wasPassedToObject. rewrite tell_loop_eq_object.
  exact (GtellF_ok _ fuel h lb ids nodes evs answers).
Qed.
Theorem parameterWasPassed_spec name :
  tell_ok (fun fuel h evs answers this_ => src_mlist_parameterWasPassed fuel h evs answers this_ name)
          (fun id => LTellArg "inputParameterWasPassed" id name).
Proof.
  intros fuel h lb ids nodes evs answers. unfold src_mlist_parameterWasPassed. rewrite tell_loop_eq_param.
  exact (GtellF_ok _ fuel h lb ids nodes evs answers).
Qed.
Theorem outputParameterWasPassed_spec name :
  tell_ok (fun fuel h evs answers this_ => src_mlist_outputParameterWasPassed fuel h evs answers this_ name)
          (fun id => LTellArg "outputParameterWasPassed" id name).
Proof.
  intros fuel h lb ids nodes evs answers. unfold src_mlist_outputParameterWasPassed. rewrite tell_loop_eq_outparam.
  exact (GtellF_ok _ fuel h lb ids nodes evs answers).
Qed.

(* ================================================================== 10. the add... functions with list == this *)
(* The hypothesis "two different list objects" of the add... theorems is needed.  addExpectations(this list itself) on a non-empty list
   appends a copy of the expectation under the cursor and steps to the next node -- which now always exists: the loop chases the
   tail it grows and ends in no state; in the translation it runs out of every fuel.  (On an empty list it does nothing.)
   The two filtering functions do the same as long as the answers are yes; they come to an end when the answers let them
   (examples in C08_ListTie.v). *)
Lemma mchain_nth h : forall ids p bs k, mchain h p bs ids -> (k < length bs)%nat ->
  exists nxt, hblock h (nth k bs 0%nat) = mnode (nth k ids 0) nxt /\ ((S k < length bs)%nat -> nxt = HPtr (nth (S k) bs 0%nat) 0).
Proof.
  induction ids as [|id ids IH]; intros p bs k Hc Hk.
  - apply mchain_nil_inv in Hc. destruct Hc as [_ ->]. cbn in Hk. lia.
  - apply mchain_cons_inv in Hc. destruct Hc as [b [bs' [nxt [-> [-> [Hb Hc]]]]]]. destruct k as [|k].
    + exists nxt. split; [exact Hb|]. intro L. cbn [length] in L. destruct ids as [|id2 ids].
      * apply mchain_nil_inv in Hc. destruct Hc as [_ ->]. cbn in L. lia.
      * apply mchain_cons_inv in Hc. destruct Hc as [b2 [bs2 [nxt2 [-> [-> _]]]]]. reflexivity.
    + cbn [length] in Hk. destruct (IH nxt bs' k Hc ltac:(lia)) as [nx [H1 H2]]. exists nx. split; [exact H1|].
      intro L. cbn [length] in L. apply H2. lia.
Qed.
Lemma addcall_loop_nofuel fuel0 : forall ids bs id b h fuel, mchain h (HPtr b 0) (b :: bs) (id :: ids) -> (fuel <= length ids)%nat ->
  src_mlist_addExpectedCall_loop1 fuel0 fuel h (HPtr b 0) = NoFuel.
Proof.
  induction ids as [|id2 ids IH]; intros bs id b h fuel Hc Hf.
  - cbn [length] in Hf. replace fuel with 0%nat by lia. reflexivity.
  - destruct fuel as [|fuel]; [reflexivity|]. cbn [length] in Hf.
    destruct Hc as [_ [nxt [Hb Hc]]]. pose proof Hc as Hc2. apply mchain_cons_inv in Hc2.
    destruct Hc2 as [b2 [bs' [nxt2 [-> [-> _]]]]]. cbn [src_mlist_addExpectedCall_loop1].
    rewrite (mnode_padd h b id _ Hb), (mnode_next h b id _ Hb), z2b_true_ptr. cbv zeta. apply (IH bs' id2 b2 h fuel Hc). lia.
Qed.
Lemma addExpectedCall_nofuel : forall fuel h lb ids nodes evs answers call, mlist0_at h lb ids nodes -> (fuel < length ids)%nat ->
  src_mlist_addExpectedCall fuel h evs answers (HPtr lb 0) call = FNoFuel.
Proof.
  intros fuel h lb ids nodes evs answers call Hrep Hf. pose proof (mlist0_lb_lt h lb ids nodes Hrep) as Hlb.
  destruct Hrep as [hd [Hl [Hc [Hnd Hnin]]]]. destruct ids as [|id ids]; [cbn in Hf; lia|]. cbn [length] in Hf.
  set (h1 := h ++ [[VInt call; VPtr HNull]]).
  assert (H1 : forall b, (b < length h)%nat -> hblock h1 b = hblock h b) by (intros b L; apply hblock_app_l; exact L).
  assert (Hc1 : mchain h1 hd nodes (id :: ids)).
  { apply (mchain_frame h); [|exact Hc]. intros b Hin. apply H1. exact (mchain_in_lt h _ hd nodes b Hc Hin). }
  assert (Hl1 : hblock h1 lb = [VPtr hd]) by (rewrite H1 by exact Hlb; exact Hl).
  unfold src_mlist_addExpectedCall. cbv zeta. fold h1. rewrite (mhead_load h1 lb hd Hl1).
  pose proof Hc1 as Hc2. apply mchain_cons_inv in Hc2. destruct Hc2 as [b [bs [nxt [-> [-> [Hb _]]]]]].
  change (z2b (hp_eq (HPtr b 0) HNull)) with false. cbv iota.
  rewrite (addcall_loop_nofuel fuel ids bs id b h1 fuel Hc1) by lia. reflexivity.
Qed.

Lemma addExpectations_self_loop fuel0 lb answers : forall fuel h ids nodes k evs, mlist_at h lb ids nodes -> (k < length nodes)%nat ->
  src_mlist_addExpectations_loop1 fuel0 fuel (HPtr lb 0) h evs answers (HPtr (nth k nodes 0%nat) 0) = NoFuel.
Proof.
  induction fuel as [|fuel IH]; intros h ids nodes k evs Hrep Hk; [reflexivity|].
  pose proof Hrep as [[hd [Hl [Hc [Hnd Hnin]]]] Hnz].
  destruct (mchain_nth h ids hd nodes k Hc Hk) as [nxt [Hb _]].
  cbn [src_mlist_addExpectations_loop1]. rewrite z2b_true_ptr, (mnode_id h _ _ nxt Hb).
  pose proof (mchain_length _ _ _ _ Hc) as Hlen.
  assert (Hidk : nth k ids 0 <> 0).
  { rewrite Forall_forall in Hnz. apply Hnz. apply nth_In. lia. }
  destruct (Nat.le_gt_cases (length ids) fuel0) as [L|L].
  - destruct Hrep as [Hrep0 _].
    destruct (addExpectedCall_spec_le fuel0 h lb ids nodes evs answers (nth k ids 0) Hrep0 L) as [h1 [Hrun [Hrep1 [Hlen1 _]]]].
    rewrite Hrun. cbv iota beta.
    assert (Hrep1' : mlist_at h1 lb (ids ++ [nth k ids 0]) (nodes ++ [length h])).
    { split; [exact Hrep1|]. apply Forall_app. split; [exact Hnz | constructor; [exact Hidk | constructor]]. }
    destruct Hrep1 as [hd1 [_ [Hc1 _]]].
    assert (Hk1 : (S k < length (nodes ++ [length h]))%nat) by (rewrite app_length; cbn [length]; lia).
    destruct (mchain_nth h1 _ hd1 _ k Hc1 ltac:(lia)) as [nxt1 [Hb1 Hn1]]. specialize (Hn1 Hk1).
    rewrite app_nth1 in Hb1 by exact Hk. rewrite (mnode_padd h1 _ _ nxt1 Hb1), (mnode_next h1 _ _ nxt1 Hb1). cbv zeta. subst nxt1.
    apply (IH h1 _ _ (S k) _ Hrep1' Hk1).
  - destruct Hrep as [Hrep0 _]. rewrite (addExpectedCall_nofuel fuel0 h lb ids nodes evs answers _ Hrep0 L). reflexivity.
Qed.
(* THEOREM 3 (list == this).  addExpectations(this list itself): on a non-empty list no amount of fuel is enough; nothing on an
   empty list *)
Theorem addExpectations_self : forall fuel h lb ids nodes evs answers, mlist_at h lb ids nodes -> ids <> [] ->
  src_mlist_addExpectations fuel h evs answers (HPtr lb 0) (HPtr lb 0) = FNoFuel.
Proof.
  intros fuel h lb ids nodes evs answers Hrep Hne. pose proof Hrep as [[hd [Hl [Hc [Hnd Hnin]]]] Hnz].
  unfold src_mlist_addExpectations. rewrite (mhead_load h lb hd Hl). cbv zeta. destruct ids as [|id ids]; [congruence|].
  pose proof Hc as Hc2. apply mchain_cons_inv in Hc2. destruct Hc2 as [b [bs [nxt [-> [-> _]]]]].
  pose proof (addExpectations_self_loop fuel lb answers fuel h (id :: ids) (b :: bs) 0%nat evs Hrep ltac:(cbn [length]; lia)) as H.
  cbn [nth] in H. rewrite H. reflexivity.
Qed.
Theorem addExpectations_self_empty : forall fuel h lb evs answers, mlist_at h lb [] [] -> (0 < fuel)%nat ->
  src_mlist_addExpectations fuel h evs answers (HPtr lb 0) (HPtr lb 0) = FOk (tt, h, evs, answers).
Proof.
  intros fuel h lb evs answers [[hd [Hl [Hc _]]] _] Hf. apply mchain_nil_inv in Hc. destruct Hc as [-> _].
  unfold src_mlist_addExpectations. rewrite (mhead_load h lb HNull Hl). destruct fuel as [|fuel]; [lia|]. reflexivity.
Qed.
