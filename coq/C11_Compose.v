(* C11 -- counting form of exactness, transparency of tolerated EINTRs, independence of tests, texts, examples *)
From Coq Require Import NArith ZArith List Bool Arith Lia ZifyBool.
From CppUVerif Require Import gen.Gen_C11 lib.Str C11_Model C11_Words C11_Proofs C11_Loop.
Import ListNotations.
Local Open Scope N_scope.

(* ---- once per event: the count ---- *)
Definition bad_end (o : sout) : bool :=
  match o with SErr _ => true | SEv (EvKill _ _) => true | SEv (EvExit k) => negb (k =? 0) | _ => false end.
Lemma length_flat_fail_of : forall l,
  length (flat_map fail_of l) = (length (filter is_stop l) + length (filter bad_end l))%nat.
Proof.
  induction l as [|o tl IH]; [reflexivity|]. simpl. rewrite app_length, IH.
  destruct o as [| |[k|s c|s|]]; simpl; try lia. destruct (k =? 0); simpl; lia.
Qed.
Lemma failure_count : forall ws r, forallb sout_ok ws = true ->
  length (lr_fails (parent_loop r (map conc ws))) =
  (length (filter is_stop (seen r ws)) + length (filter bad_end (seen r ws)) +
   match lr_end (parent_loop r (map conc ws)) with EndGaveUp => 1 | _ => 0 end)%nat.
Proof.
  intros ws r H. destruct (fails_exact ws r H) as [-> _]. rewrite app_length, length_flat_fail_of.
  destruct (lr_end _); simpl; lia.
Qed.

(* ---- interrupted waits within the budget change nothing ---- *)
Definition not_eintr (o : wout) : bool := negb (is_eintr o).
Lemma loop_no_eintr : forall ws r r', forallb not_eintr ws = true -> parent_loop r ws = parent_loop r' ws.
Proof.
  induction ws as [|o tl IH]; intros r r' H; [reflexivity|].
  simpl in H. apply andb_prop in H. destruct H as [Ho Htl].
  destruct o as [| |w]; simpl; try discriminate; try reflexivity.
  rewrite (IH r r' Htl). reflexivity.
Qed.
Lemma filter_not_eintr ws : forallb not_eintr (filter not_eintr ws) = true.
Proof. apply forallb_forall. intros x Hx. apply filter_In in Hx. tauto. Qed.

Lemma eintr_transparent : forall ws r, (count_eintr ws <= budget_of r)%nat ->
  let a := parent_loop r ws in let b := parent_loop r (filter not_eintr ws) in
  lr_fails a = lr_fails b /\ lr_conts a = lr_conts b /\ lr_end a = lr_end b.
Proof.
  induction ws as [|o tl IH]; intros r H; [repeat split|].
  destruct o as [| |w]; cbn [filter not_eintr is_eintr negb].
  - cbn [parent_loop]. rewrite gives_up_budget. unfold count_eintr in H. simpl in H.
    destruct (budget_of r) as [|b] eqn:B; [lia|]. cbn [Nat.eqb].
    assert (H' : (count_eintr tl <= budget_of (r + 1))%nat) by (rewrite (budget_succ _ _ B); unfold count_eintr; lia).
    destruct (IH (r + 1) H') as [I1 [I2 I3]]. cbv zeta in *.
    rewrite (loop_no_eintr _ r (r + 1) (filter_not_eintr tl)). simpl. repeat split; assumption.
  - repeat split.
  - cbn [parent_loop]. destruct (wifexited w || wifsignaled w); [repeat split|].
    assert (H' : (count_eintr tl <= budget_of r)%nat) by (unfold count_eintr in *; simpl in H; exact H).
    destruct (IH r H') as [I1 [I2 I3]]. cbv zeta in *. simpl. rewrite I1, I2, I3. repeat split.
Qed.

(* ---- every test is recorded as it would be alone: nothing that happened before changes it ---- *)
Lemma run_real_count c1 c2 p inject : run_real c1 p inject = run_real c2 p inject.
Proof. unfold run_real. rewrite <- (real_stream_merge c1), <- (real_stream_merge c2). reflexivity. Qed.
Lemma run_env_count c1 c2 e p inject : run_env c1 e p inject = run_env c2 e p inject.
Proof. rewrite (run_env_stream c1), (run_env_stream c2). reflexivity. Qed.
Lemma run_test_count all_sep c1 c2 t : run_test all_sep c1 t = run_test all_sep c2 t.
Proof.
  destruct t as [f|ok ws|p i|e p i]; simpl;
    [destruct all_sep; [apply run_real_count|reflexivity] | reflexivity | apply run_real_count | apply run_env_count].
Qed.

Lemma run_case_count all_sep run_ign c1 c2 tc : run_case all_sep run_ign c1 tc = run_case all_sep run_ign c2 tc.
Proof. unfold run_case. destruct (c_ign tc), run_ign; try reflexivity; apply run_test_count. Qed.
Lemma verdict_independent :
  (forall all_sep c1 c2 t, run_test all_sep c1 t = run_test all_sep c2 t) /\
  (forall all_sep run_ign c1 c2 tc, run_case all_sep run_ign c1 tc = run_case all_sep run_ign c2 tc).
Proof. split; [exact run_test_count|exact run_case_count]. Qed.

Lemma run_tests_independent all_sep run_ign : forall ts c,
  fst (run_tests all_sep run_ign c ts) = map (run_case all_sep run_ign 0) ts /\
  snd (run_tests all_sep run_ign c ts) = c + total_fails (map (run_case all_sep run_ign 0) ts).
Proof.
  induction ts as [|t tl IH]; intro c.
  - simpl. unfold total_fails. simpl. split; [reflexivity|lia].
  - simpl. specialize (IH (c + N.of_nat (length (i_fails (run_case all_sep run_ign c t))))).
    destruct (run_tests all_sep run_ign _ tl) as [its c']. simpl in *. destruct IH as [-> ->].
    rewrite (run_case_count all_sep run_ign c 0 t). split; [reflexivity|]. unfold total_fails. simpl. lia.
Qed.

Lemma parent_continues : forall s,
  o_items (run s) = map (run_case (s_all_sep s) (s_run_ign s) 0) (s_tests s) /\
  length (o_items (run s)) = length (s_tests s) /\
  o_total (run s) = total_fails (o_items (run s)) /\
  o_run (run s) + o_ign (run s) = N.of_nat (length (s_tests s)) /\
  (s_tests s <> [] -> (o_failed (run s) = true <-> exists it, In it (o_items (run s)) /\ i_fails it <> [])).
Proof.
  intro s. unfold run. destruct (run_tests_independent (s_all_sep s) (s_run_ign s) (s_tests s) 0) as [E1 E2].
  destruct (run_tests (s_all_sep s) (s_run_ign s) 0 (s_tests s)) as [its total]. rewrite count_cases_spec. simpl in *.
  subst its. subst total.
  pose proof (filter_partition_length (skipped (s_run_ign s)) (s_tests s)) as P.
  split; [reflexivity|]. split; [apply map_length|]. split; [reflexivity|]. split; [lia|].
  intro NE.
  assert (Z : (N.of_nat (length (filter (fun tc => negb (skipped (s_run_ign s) tc)) (s_tests s))) +
               N.of_nat (length (filter (skipped (s_run_ign s)) (s_tests s))) =? 0) = false).
  { apply N.eqb_neq. destruct (s_tests s); [congruence|]. change (length (t :: l)) with (S (length l)) in P. lia. }
  rewrite Z, orb_false_r. change (0 + ?x) with x. rewrite negb_true_iff, N.eqb_neq.
  generalize (map (run_case (s_all_sep s) (s_run_ign s) 0) (s_tests s)) as its. clear. unfold total_fails.
  induction its as [|it tl IH]; simpl.
  - split; [congruence|]. intros [it [[] _]].
  - split.
    + intro H. destruct (i_fails it) as [|f fs] eqn:F.
      * simpl in H. destruct (proj1 IH H) as [x [Hx Nx]]. exists x. split; [right; exact Hx|exact Nx].
      * exists it. split; [left; reflexivity|]. rewrite F. discriminate.
    + intros [x [[<-|Hx] Nx]].
      * destruct (i_fails it); [congruence|]. simpl. lia.
      * assert (N.of_nat (fold_right (fun it0 a => (length (i_fails it0) + a)%nat) 0%nat tl) <> 0)
          by (apply IH; exists x; tauto). lia.
Qed.

(* ---- ignored tests over the whole run ---- *)
Definition unmark (tc : tcase) : tcase := {| c_ign := false; c_test := c_test tc |}.
Lemma run_case_unmark all_sep count tc : run_case all_sep true count tc = run_case all_sep true count (unmark tc).
Proof. unfold run_case, unmark. destruct (c_ign tc); reflexivity. Qed.
Lemma run_tests_unmark all_sep : forall ts count, run_tests all_sep true count ts = run_tests all_sep true count (map unmark ts).
Proof.
  induction ts as [|t tl IH]; intro count; [reflexivity|]. simpl. rewrite <- (run_case_unmark all_sep count t), IH. reflexivity.
Qed.
Lemma count_cases_unmark : forall ts a b, count_cases true a b ts = count_cases true a b (map unmark ts).
Proof.
  induction ts as [|t tl IH]; intros a b; [reflexivity|]. simpl. unfold skipped. simpl. rewrite !andb_false_r. apply IH.
Qed.
Lemma run_ignored_whole_run all_sep ts :
  run {| s_all_sep := all_sep; s_run_ign := true; s_tests := ts |} =
  run {| s_all_sep := all_sep; s_run_ign := true; s_tests := map unmark ts |}.
Proof. unfold run. simpl. rewrite <- run_tests_unmark, <- count_cases_unmark. reflexivity. Qed.

(* every valid case, ignored or not, run or not, is accounted for as the property asks *)
Lemma every_case_accounted all_sep run_ign count tc : case_ok tc = true ->
  case_item_ok all_sep run_ign tc (run_case all_sep run_ign count tc) = true.
Proof. apply case_item_ok_run. Qed.

(* ---- the signal number is in the record and in the text ---- *)
Lemma signal_named s c : (1 <=? s) && (s <=? 126) = true ->
  set_failure_by_status (encode (EvKill s c)) = [FKilled s] /\ categorise (render (FKilled s)) = FKilled s.
Proof.
  intro H. split; [apply (set_failure_encode (EvKill s c) H)|].
  assert (A : forallb (fun s => match categorise (render (FKilled s)) with FKilled x => x =? s | _ => false end) (nrange 127) = true)
    by (vm_compute; reflexivity).
  apply andb_prop in H. destruct H as [_ H]. apply N.leb_le in H.
  pose proof (proj1 (forallb_forall _ _) A s (in_nrange 127 s ltac:(lia))) as B. cbv beta in B.
  destruct (categorise (render (FKilled s))); try discriminate. apply N.eqb_eq in B. congruence.
Qed.

(* the canonicaliser of the harness reads today's six texts as the six categories *)
Lemma texts_classified :
  categorise (render FExit) = FExit /\ categorise (render FStopped) = FStopped /\ categorise (render FFork) = FFork /\
  categorise (render FEintr) = FEintr /\ categorise (render FWait) = FWait /\ categorise (render FCheck) = FCheck.
Proof. vm_compute. repeat split. Qed.

(* ---- examples: the hypotheses are satisfiable and the definitions say what they should ---- *)
Definition ex_prog : prog := {| p_pre := [ARaise 19]; p_setup := [AFail]; p_body := [ARaise 11]; p_teardown := [ARaise 20; ARaise 17]; p_post := [] |}.
Definition tst (t : test) : tcase := {| c_ign := false; c_test := t |}.
Definition ign (t : test) : tcase := {| c_ign := true; c_test := t |}.
Definition ex_scn : scenario :=
  {| s_all_sep := false; s_run_ign := false;
     s_tests := map tst [TPlain true; TScripted true [SEv (EvStop 19); SEintr; SEv (EvKill 11 true)]; TReal ex_prog [IEintr; IReal; IEintr];
                 TScripted false []; TReal (plain_prog false) []] |}.
Example ex_valid : valid ex_scn = true. Proof. reflexivity. Qed.
Example ex_run : map (fun it => (i_fails it, i_calls it, i_lost it)) (o_items (run ex_scn)) =
  [([FCheck], 0%nat, false); ([FStopped; FKilled 11], 3%nat, false); ([FStopped; FStopped; FExit], 5%nat, false);
   ([FFork], 0%nat, false); ([], 1%nat, false)] /\ o_total (run ex_scn) = 7 /\ o_failed (run ex_scn) = true.
Proof. vm_compute. repeat split. Qed.
Example ex_partition : word_partition_ok 0x137f = true /\ decode 0x137f = WcStopped 19 /\ decode 0x008b = WcSignaled 11 /\ decode 0xffff = WcNone.
Proof. vm_compute. repeat split. Qed.
Example ex_eintr_overrun :
  let lr := parent_loop 0 (repeat WEintr (S tolerated) ++ [WStat 0]) in lr_fails lr = [FEintr] /\ lr_calls lr = S tolerated /\ lr_end lr = EndGaveUp.
Proof. vm_compute. repeat split. Qed.
Example ex_eintr_within :
  let lr := parent_loop 0 (repeat WEintr tolerated ++ [WStat 0]) in lr_fails lr = [] /\ lr_calls lr = S tolerated /\ lr_end lr = EndReaped.
Proof. vm_compute. repeat split. Qed.
Example ex_stream : ends_loop ((fun n => if (n =? 3)%nat then WStat 9 else WStat 0x137f) 3%nat) = true. Proof. reflexivity. Qed.
Example ex_no_failure : seen 0 [SEintr; SEv EvCont; SEv (EvExit 0); SErr 5] = [SEintr; SEv EvCont] ++ [SEv (EvExit 0)]. Proof. reflexivity. Qed.
(* the oracle is not vacuous: it rejects a killed child recorded as passing, a stop counted twice, a later test not run *)
Definition ex_killed : scenario :=
  {| s_all_sep := false; s_run_ign := false; s_tests := map tst [TScripted true [SEv (EvKill 9 false)]; TPlain false] |}.
Definition mk_item (fs : list failure) (calls : nat) : item := {| i_started := true; i_fails := fs; i_calls := calls; i_conts := 0; i_lost := false |}.
Example ex_spec_rejects :
  spec ex_killed {| o_items := [mk_item [] 1; mk_item [] 0]; o_total := 0; o_failed := false; o_run := 2; o_ign := 0; o_late := false |} = false /\
  spec ex_killed {| o_items := [mk_item [FKilled 9; FKilled 9] 1; mk_item [] 0]; o_total := 2; o_failed := true; o_run := 2; o_ign := 0; o_late := false |} = false /\
  spec ex_killed {| o_items := [mk_item [FKilled 9] 1]; o_total := 1; o_failed := true; o_run := 1; o_ign := 0; o_late := false |} = false /\
  spec ex_killed {| o_items := [mk_item [FKilled 9] 1; mk_item [] 0]; o_total := 1; o_failed := false; o_run := 2; o_ign := 0; o_late := false |} = false /\
  spec ex_killed {| o_items := [mk_item [FKilled 9] 1; mk_item [] 0]; o_total := 1; o_failed := true; o_run := 2; o_ign := 0; o_late := false |} = true.
Proof. vm_compute. repeat split. Qed.

(* ignored tests: one dying in its body under -p -ri is one failure and the next test runs; without -ri it leaves no trace,
   is counted as ignored, and a run of ignored tests only is not a failure; the oracle rejects an ignored test that was run
   without the switch and one that was passed over under it *)
Definition ex_ign_prog : prog := {| p_pre := []; p_setup := []; p_body := [ARaise 11]; p_teardown := []; p_post := [] |}.
Definition ex_ign (ri : bool) : scenario :=
  {| s_all_sep := true; s_run_ign := ri; s_tests := [ign (TReal ex_ign_prog []); tst (TPlain false)] |}.
Example ex_ign_valid : valid (ex_ign true) = true /\ valid (ex_ign false) = true. Proof. split; reflexivity. Qed.
Example ex_ign_run :
  map (fun it => (i_started it, i_fails it, i_calls it)) (o_items (run (ex_ign true))) = [(true, [FKilled 11], 1%nat); (true, [], 1%nat)] /\
  (o_total (run (ex_ign true)), o_failed (run (ex_ign true)), o_run (run (ex_ign true)), o_ign (run (ex_ign true))) = (1, true, 2, 0) /\
  map (fun it => (i_started it, i_fails it, i_calls it)) (o_items (run (ex_ign false))) = [(false, [], 0%nat); (true, [], 1%nat)] /\
  (o_total (run (ex_ign false)), o_failed (run (ex_ign false)), o_run (run (ex_ign false)), o_ign (run (ex_ign false))) = (0, false, 1, 1) /\
  o_failed (run {| s_all_sep := true; s_run_ign := false; s_tests := [ign (TReal ex_ign_prog [])] |}) = false.
Proof. vm_compute. repeat split. Qed.
Definition skip_it : item := {| i_started := false; i_fails := []; i_calls := 0; i_conts := 0; i_lost := false |}.
Example ex_spec_rejects_ign :
  spec (ex_ign false) {| o_items := [mk_item [FKilled 11] 1; mk_item [] 1]; o_total := 1; o_failed := true; o_run := 2; o_ign := 0; o_late := false |} = false /\
  spec (ex_ign false) {| o_items := [skip_it; mk_item [] 1]; o_total := 0; o_failed := false; o_run := 2; o_ign := 0; o_late := false |} = false /\
  spec (ex_ign false) {| o_items := [skip_it; mk_item [] 1]; o_total := 0; o_failed := false; o_run := 1; o_ign := 1; o_late := false |} = true /\
  spec (ex_ign true) {| o_items := [skip_it; mk_item [] 1]; o_total := 0; o_failed := false; o_run := 1; o_ign := 1; o_late := false |} = false /\
  spec (ex_ign true) {| o_items := [mk_item [] 0; mk_item [] 1]; o_total := 0; o_failed := false; o_run := 2; o_ign := 0; o_late := false |} = false /\
  spec (ex_ign true) {| o_items := [mk_item [FKilled 11] 1; mk_item [] 1]; o_total := 1; o_failed := true; o_run := 2; o_ign := 0; o_late := false |} = true.
Proof. vm_compute. repeat split. Qed.

(* ---- a real child's stream always ends the loop ---- *)
Lemma smerge_never_out : forall inject evs final r, ends_loop (conc final) = true ->
  lr_end (parent_loop r (map conc (smerge inject (evs ++ [final])))) <> EndStreamOut.
Proof.
  induction inject as [|i tl IH]; intros evs final r H.
  - simpl. rewrite map_app. simpl. apply (terminal_ends (map conc evs) (conc final) [] r H).
  - destruct i; simpl.
    + destruct (gives_up r); simpl; [congruence|]. apply IH. exact H.
    + congruence.
    + destruct evs as [|e rest]; simpl.
      * destruct final as [| |e]; simpl in *; try discriminate. rewrite H. simpl. congruence.
      * destruct e as [| |e]; simpl.
        -- destruct (gives_up r); simpl; [congruence|]. apply IH. exact H.
        -- congruence.
        -- destruct (wifexited (encode e) || wifsignaled (encode e)); simpl; [congruence|]. apply IH. exact H.
Qed.

Lemma fate_ends f : fate_ok f = true -> ends_loop (conc (fate_sout f)) = true.
Proof.
  intro H. destruct f as [s|k|n]; simpl conc; simpl ends_loop.
  - apply (ends_encode (EvKill s false) H).
  - apply (ends_encode (EvExit k) H).
  - destruct (n =? 0); reflexivity.
Qed.

Lemma real_child_contained count p inject : prog_ok p = true ->
  forallb sout_ok (real_stream p inject) = true /\
  map conc (real_stream p inject) = merge inject (child_events count p) /\
  lr_end (parent_loop 0 (merge inject (child_events count p))) <> EndStreamOut.
Proof.
  intro H. split; [apply real_stream_ok; exact H|]. split; [apply real_stream_merge|].
  rewrite <- (real_stream_merge count p inject). unfold real_stream.
  destruct (child_trace_ok p H) as [_ F]. destruct (child_trace p) as [st f]. simpl in F.
  apply smerge_never_out. apply fate_ends. exact F.
Qed.

(* an ignored real child run under the switch is contained exactly like any other: same stream, same loop, same item *)
Lemma ignored_real_contained all_sep count p inject : prog_ok p = true ->
  run_case all_sep true count {| c_ign := true; c_test := TReal p inject |} =
    item_of_loop true (parent_loop 0 (map conc (real_stream p inject))) /\
  lr_end (parent_loop 0 (map conc (real_stream p inject))) <> EndStreamOut /\
  (forall run_ign, run_ign = false ->
     i_fails (run_case all_sep run_ign count {| c_ign := true; c_test := TReal p inject |}) = []).
Proof.
  intro H. split; [|split].
  - unfold run_case. cbn [c_ign c_test run_test]. unfold run_real. rewrite <- (real_stream_merge count p inject). reflexivity.
  - rewrite (real_stream_merge count p inject). apply (real_child_contained count p inject H).
  - intros r ->. reflexivity.
Qed.

(* ---- statements at retry count 0, as used in Properties_C11.v ---- *)
Lemma eintr_retries_bounded ws : (count_eintr (firstn (lr_calls (parent_loop 0 ws)) ws) <= S tolerated)%nat.
Proof. rewrite <- budget_0. exact (eintr_bounded ws 0). Qed.
Lemma loop_only_waits_for_a_live_child ws : lr_end (parent_loop 0 ws) = EndStreamOut ->
  forallb (fun o => negb (ends_loop o)) ws = true /\ (count_eintr ws <= tolerated)%nat /\ lr_calls (parent_loop 0 ws) = length ws.
Proof. intro H. rewrite <- budget_0. exact (stream_out_only_if ws 0 H). Qed.
Lemma eintr_transparent_0 ws : (count_eintr ws <= tolerated)%nat ->
  let a := parent_loop 0 ws in let b := parent_loop 0 (filter not_eintr ws) in
  lr_fails a = lr_fails b /\ lr_conts a = lr_conts b /\ lr_end a = lr_end b.
Proof. intro H. apply eintr_transparent. rewrite budget_0. exact H. Qed.
Lemma status_high_bits_ignored w : decode w = decode (w mod 65536) /\ set_failure_by_status w = set_failure_by_status (w mod 65536).
Proof. split; [apply decode_low16|apply set_failure_low16]. Qed.
Example ex_real_contained : prog_ok ex_prog = true. Proof. reflexivity. Qed.
