(* C07: the TRANSLATED per-test actions of MemoryLeakWarningPlugin and the MemoryLeakDetector member functions they call
   (gen/Gen_HeapC07.v, translated from /repo on every run), run on a heap that represents a world of the hand-written model
   (C07_HeapRep.world_at), compute what C07_Model.v says: pre_action, post_action, final_report, exec_stmt (SExpect / SIgnore).
   The table functions called are the translated ones of gen/Gen_HeapC04.v, proved for an embedded table in C07_HeapTable.v.
   Sections: A counting / demote facts, B the model's d_mark is `demote every record`, C the detector functions,
   D the walk of markCheckingPeriodLeaksAsNonCheckingPeriod, E the plugin functions, F a concrete heap (vm_compute). *)
From Coq Require Import ZArith NArith Bool List Lia.
From CppUVerif Require Import lib.CSem lib.CMem lib.CMemFacts lib.CHeap gen.Gen_Common gen.Gen_HeapC04 gen.Gen_HeapC07
  C04_Model C04_Lists C04_Table C04_Proofs C04_HeapRep C04_HeapList C04_HeapTable C04_HeapTableW C07_Model
  C07_HeapRep C07_HeapTable.
Import ListNotations.
Local Open Scope Z_scope.

(* ================================================================== A: counting, demote *)
(* the test of getFirstLeak / getNextLeak (mem_leak_period_checking) *)
Definition fchk (n : node) : bool := is_in_period n PChecking.
Lemma fchk_period n : fchk n = stamp_eqb (n_period n) SChecking.
Proof. unfold fchk, is_in_period. destruct (n_period n); reflexivity. Qed.
Lemma fchk_true n : fchk n = true -> n_period n = SChecking.
Proof. rewrite fchk_period. destruct (n_period n); [discriminate | discriminate | reflexivity]. Qed.
Lemma fchk_set_enabled n : fchk (set_period n SEnabled) = false.
Proof. reflexivity. Qed.
Lemma demote_chk n : fchk n = true -> demote n = set_period n SEnabled.
Proof. intro H. unfold demote. rewrite (fchk_true n H). reflexivity. Qed.
Lemma demote_not_chk n : fchk n = false -> demote n = n.
Proof. rewrite fchk_period. unfold demote. destruct (n_period n); [reflexivity | reflexivity | discriminate]. Qed.
Lemma demote_idem n : demote (demote n) = demote n.
Proof. unfold demote. destruct (n_period n) eqn:E; try rewrite E; reflexivity. Qed.

(* how many records satisfy f *)
Fixpoint lcnt (f : node -> bool) (ns : list node) : nat :=
  match ns with [] => 0%nat | n :: r => ((if f n then 1 else 0) + lcnt f r)%nat end.
Fixpoint tcnt (f : node -> bool) (t : table) : nat :=
  match t with [] => 0%nat | b :: r => (lcnt f b + tcnt f r)%nat end.
Lemma lcnt_le f : forall ns, (lcnt f ns <= length ns)%nat.
Proof. induction ns as [|n ns IH]; cbn [lcnt length]; [lia|]. destruct (f n); lia. Qed.
Lemma tcnt_le f : forall t, (tcnt f t <= t_count t)%nat.
Proof. induction t as [|b t IH]; cbn [tcnt t_count]; [lia|]. pose proof (lcnt_le f b). lia. Qed.
Lemma lcnt_upd f d n' : forall ns k, (k < length ns)%nat -> f (nth k ns d) = true -> f n' = false ->
  S (lcnt f (upd ns k n')) = lcnt f ns.
Proof.
  induction ns as [|n ns IH]; intros k Hk Hf Hn'; [cbn [length] in Hk; lia|]. cbn [length] in Hk. destruct k as [|k].
  - cbn [nth] in Hf. cbn [upd lcnt]. rewrite Hf, Hn'. lia.
  - cbn [nth] in Hf. cbn [upd lcnt]. rewrite <- (IH k) by (lia || assumption). lia.
Qed.
Lemma tcnt_upd f : forall t i b', (i < length t)%nat -> S (lcnt f b') = lcnt f (nth i t []) -> S (tcnt f (upd t i b')) = tcnt f t.
Proof.
  induction t as [|b t IH]; intros i b' Hi Hb; [cbn [length] in Hi; lia|]. cbn [length] in Hi. destruct i as [|i].
  - cbn [nth] in Hb. cbn [upd tcnt]. lia.
  - cbn [nth] in Hb. cbn [upd tcnt]. rewrite <- (IH i b') by (lia || assumption). lia.
Qed.
Lemma tcnt_set f d n' t i k : (i < length t)%nat -> (k < length (nth i t []))%nat -> f (nth k (nth i t []) d) = true ->
  f n' = false -> S (tcnt f (t_set t i k n')) = tcnt f t.
Proof. intros Hi Hk Hf Hn'. unfold t_set. apply tcnt_upd; [exact Hi|]. apply (lcnt_upd f d); assumption. Qed.

(* no record in the checking period: demote changes nothing *)
Lemma lcnt0_demote : forall ns, lcnt fchk ns = 0%nat -> map demote ns = ns.
Proof.
  induction ns as [|n ns IH]; intro H; [reflexivity|]. cbn [lcnt] in H. destruct (fchk n) eqn:E; [lia|].
  cbn [map]. rewrite (demote_not_chk n E), IH by lia. reflexivity.
Qed.
Lemma tcnt0_demote : forall t, tcnt fchk t = 0%nat -> map (map demote) t = t.
Proof.
  induction t as [|b t IH]; intro H; [reflexivity|]. cbn [tcnt] in H. cbn [map]. rewrite (lcnt0_demote b), IH by lia. reflexivity.
Qed.
(* demoting one record first does not change what demoting all gives *)
Lemma map_demote_upd d : forall ns k, (k < length ns)%nat -> map demote (upd ns k (demote (nth k ns d))) = map demote ns.
Proof.
  induction ns as [|n ns IH]; intros k Hk; [cbn [length] in Hk; lia|]. cbn [length] in Hk. destruct k as [|k].
  - cbn [nth upd map]. rewrite demote_idem. reflexivity.
  - cbn [nth upd map]. rewrite IH by lia. reflexivity.
Qed.
Lemma map_map_demote_upd : forall (t : table) i b', (i < length t)%nat -> map demote b' = map demote (nth i t []) ->
  map (map demote) (upd t i b') = map (map demote) t.
Proof.
  induction t as [|b t IH]; intros i b' Hi Hb; [cbn [length] in Hi; lia|]. cbn [length] in Hi. destruct i as [|i].
  - cbn [nth] in Hb. cbn [upd map]. rewrite Hb. reflexivity.
  - cbn [nth] in Hb. cbn [upd map]. rewrite IH by (lia || assumption). reflexivity.
Qed.
Lemma map_demote_t_set d t i k : (i < length t)%nat -> (k < length (nth i t []))%nat ->
  map (map demote) (t_set t i k (demote (nth k (nth i t []) d))) = map (map demote) t.
Proof. intros Hi Hk. unfold t_set. apply map_map_demote_upd; [exact Hi|]. apply map_demote_upd. exact Hk. Qed.

(* every record sits in the bucket of its key: the form the translated getNextLeak needs (position, not key) *)
Definition hash_ok (t : table) : Prop :=
  forall i k d, (i < length t)%nat -> (k < length (nth i t []))%nat -> hashN (n_addr (nth k (nth i t []) d)) = i.
Lemma bok_hash_at : forall t k0, bucket_ok_from k0 t -> forall i k d, (i < length t)%nat -> (k < length (nth i t []))%nat ->
  hashN (n_addr (nth k (nth i t []) d)) = (k0 + i)%nat.
Proof.
  induction t as [|b t IH]; intros k0 Hbk i k d Hi Hk; [cbn [length] in Hi; lia|]. destruct Hbk as [Hb Hr].
  cbn [length] in Hi. destruct i as [|i].
  - cbn [nth] in Hk |- *. rewrite Forall_forall in Hb. rewrite (Hb _ (nth_In b d Hk)). lia.
  - cbn [nth] in Hk |- *. rewrite (IH (S k0) Hr i k d) by (lia || assumption). lia.
Qed.
Lemma inv_hash_ok t : Inv t -> hash_ok t.
Proof. intros [_ [Hb _]] i k d Hi Hk. exact (bok_hash_at t 0%nat Hb i k d Hi Hk). Qed.
Lemma hash_ok_set t i k n' d : hash_ok t -> (i < length t)%nat -> (k < length (nth i t []))%nat ->
  n_addr n' = n_addr (nth k (nth i t []) d) -> hash_ok (t_set t i k n').
Proof.
  intros H Hi Hk Ha j k' d' Hj Hk'. rewrite t_set_length in Hj. rewrite t_set_bucket_length in Hk'.
  destruct (Nat.eq_dec j i) as [->|Hne]; [|rewrite t_set_nth_other by exact Hne; exact (H j k' d' Hj Hk')].
  rewrite t_set_nth_same by exact Hi. destruct (Nat.eq_dec k' k) as [->|Hnk].
  - rewrite nth_upd_same by exact Hk. rewrite Ha. exact (H i k d Hi Hk).
  - rewrite nth_upd_other by (intro E; apply Hnk; symmetry; exact E). exact (H i k' d' Hi Hk').
Qed.

(* ================================================================== B: the model's d_mark *)
Lemma app_inj_pred (P : node -> Prop) : forall l1 l2 m1 m2 : list node, Forall P l1 -> Forall P l2 ->
  (forall x, In x m1 -> ~ P x) -> (forall x, In x m2 -> ~ P x) -> l1 ++ m1 = l2 ++ m2 -> l1 = l2 /\ m1 = m2.
Proof.
  induction l1 as [|x l1 IH]; intros l2 m1 m2 H1 H2 N1 N2 E; destruct l2 as [|y l2].
  - split; [reflexivity | exact E].
  - exfalso. cbn [app] in E. apply (N1 y); [rewrite E; left; reflexivity | exact (Forall_inv H2)].
  - exfalso. cbn [app] in E. apply (N2 x); [rewrite <- E; left; reflexivity | exact (Forall_inv H1)].
  - cbn [app] in E. injection E as Exy E. subst y.
    destruct (IH l2 m1 m2 (Forall_inv_tail H1) (Forall_inv_tail H2) N1 N2 E) as [-> ->]. split; reflexivity.
Qed.
(* a table is determined by the concatenation of its buckets when every record is in the bucket of its key *)
Lemma bok_flat_inj : forall t1 t2 k, length t1 = length t2 -> bucket_ok_from k t1 -> bucket_ok_from k t2 ->
  flat t1 = flat t2 -> t1 = t2.
Proof.
  induction t1 as [|b1 r1 IH]; intros t2 k Hl B1 B2 E; destruct t2 as [|b2 r2]; try discriminate Hl; [reflexivity|].
  destruct B1 as [Hb1 Hr1], B2 as [Hb2 Hr2]. unfold flat in E. cbn [concat] in E.
  destruct (app_inj_pred (fun n => hashN (n_addr n) = k) b1 b2 (concat r1) (concat r2) Hb1 Hb2) as [-> Er].
  - intros x Hx Hk. pose proof (bok_range r1 (S k) x Hr1 Hx). lia.
  - intros x Hx Hk. pose proof (bok_range r2 (S k) x Hr2 Hx). lia.
  - exact E.
  - f_equal. apply (IH r2 (S k)); [cbn [length] in Hl; lia | exact Hr1 | exact Hr2 | exact Er].
Qed.
Lemma bok_map_demote : forall t k, bucket_ok_from k t -> bucket_ok_from k (map (map demote) t).
Proof.
  induction t as [|b t IH]; intros k H; [exact I|]. destruct H as [Hb Hr]. cbn [map bucket_ok_from]. split; [|exact (IH _ Hr)].
  rewrite Forall_forall in *. intros x Hx. apply in_map_iff in Hx. destruct Hx as [c [<- Hc]]. rewrite demote_addr. exact (Hb c Hc).
Qed.
(* markCheckingPeriodLeaksAsNonCheckingPeriod of the model, for a table that satisfies its invariant: never out of fuel, and the
   result is the table with every record demoted in place *)
Theorem d_mark_is_map_demote st : Inv (d_tbl st) -> d_mark st = Some (with_tbl st (map (map demote) (d_tbl st))).
Proof.
  intro HI. destruct (mark_spec st HI) as [t' [E [F I']]]. rewrite E. f_equal. f_equal.
  destruct HI as [L [B _]], I' as [L' [B' _]].
  apply (bok_flat_inj t' _ 0%nat); [rewrite map_length; exact (eq_trans L' (eq_sym L)) | exact B' | exact (bok_map_demote _ _ B)|].
  rewrite F. unfold flat. apply concat_map.
Qed.

(* ================================================================== C: the detector functions *)
(* fuel: every bucket walk and the walk over the 73 buckets end *)
Definition fuel_ok (fuel : nat) (t : table) : Prop :=
  (forall i, (i < nbuckets)%nat -> (length (nth i t []) < fuel)%nat) /\ (73 < fuel)%nat.
Lemma bucket_le_count : forall (t : table) i, (length (nth i t []) <= t_count t)%nat.
Proof.
  induction t as [|b t IH]; intros [|i]; cbn [nth t_count length]; try lia. specialize (IH i). lia.
Qed.
Lemma fuel_ok_of_count fuel t : (t_count t + 80 < fuel)%nat -> fuel_ok fuel t.
Proof. intro H. split; [|lia]. intros i _. pose proof (bucket_le_count t i). lia. Qed.
Lemma fuel_ok_set fuel t i k n' : fuel_ok fuel t -> fuel_ok fuel (t_set t i k n').
Proof. intros [H1 H2]. split; [|exact H2]. intros j Hj. rewrite t_set_bucket_length. exact (H1 j Hj). Qed.

Lemma det_lt h dt bss d : det_at h dt bss d -> (dt < length h)%nat.
Proof. intros [_ [_ [_ [_ [_ [H _]]]]]]. exact H. Qed.
Lemma det_not_node h dt bss d : det_at h dt bss d -> ~ In dt (concat bss).
Proof. intros [_ [_ [_ [_ [_ [_ [_ [H _]]]]]]]]. exact H. Qed.
(* &this->member *)
Lemma blk80_padd h dt k : length (hblock h dt) = 80%nat -> 0 <= k <= 80 -> hpadd h (HPtr dt 0) k = Some (HPtr dt k).
Proof. intros Hl Hk. rewrite (hpadd_lit h dt 0 k) by (rewrite Hl; lia). rewrite Z.add_0_l. reflexivity. Qed.
(* current_period_ = c *)
Lemma blk80_store_period h dt c : length (hblock h dt) = 80%nat -> (dt < length h)%nat ->
  hstore h (HPtr dt 1) (VInt c) = Some (set_cell h dt 1 (VInt c)).
Proof. intros Hl Hdt. apply (hstore_lit h dt 1 (VInt c)); [lia | rewrite Hl; cbn; lia | exact Hdt]. Qed.
(* a store into another object leaves the detector alone *)
Lemma det_at_set_other h dt bss d b k v : det_at h dt bss d -> b <> dt -> ~ In b (concat bss) ->
  det_at (set_cell h b k v) dt bss d.
Proof.
  intros Hd Hb Hn. apply (det_at_frame h _ dt bss d Hd); [apply set_cell_length | |].
  - apply set_cell_other. intro E. apply Hb. symmetry. exact E.
  - intros b' Hb'. apply set_cell_other. intro E. subst b'. exact (Hn Hb').
Qed.

Section Detector.
  Variables (fuel : nat) (h : heap) (dt : nat) (bss : list (list nat)) (d : det).
  Variables (evs : list pev) (counts : list Z) (ov : Z).
  Hypothesis Hd : det_at h dt bss d.

  (* startChecking: outputBuffer_.clear(); current_period_ = mem_leak_period_checking *)
  Theorem src_det_startChecking_spec :
    src_det_startChecking fuel h evs counts ov (HPtr dt 0) =
      FOk (tt, set_cell h dt 1 (VInt 3), evs ++ [PClearBuffer], counts, ov) /\
    det_at (set_cell h dt 1 (VInt 3)) dt bss (with_period d SChecking).
  Proof.
    pose proof Hd as [Hl _]. split; [|exact (det_at_set_period h dt bss d SChecking Hd)].
    unfold src_det_startChecking. cbv zeta. rewrite (blk80_padd h dt 1 Hl) by lia.
    rewrite (blk80_store_period h dt 3 Hl (det_lt h dt bss d Hd)). reflexivity.
  Qed.
  (* stopChecking / enable: current_period_ = mem_leak_period_enabled *)
  Theorem src_det_stopChecking_spec :
    src_det_stopChecking fuel h evs counts ov (HPtr dt 0) = FOk (tt, set_cell h dt 1 (VInt 2), evs, counts, ov) /\
    det_at (set_cell h dt 1 (VInt 2)) dt bss (with_period d SEnabled).
  Proof.
    pose proof Hd as [Hl _]. split; [|exact (det_at_set_period h dt bss d SEnabled Hd)].
    unfold src_det_stopChecking. rewrite (blk80_padd h dt 1 Hl) by lia.
    rewrite (blk80_store_period h dt 2 Hl (det_lt h dt bss d Hd)). reflexivity.
  Qed.
  Theorem src_det_enable_spec :
    src_det_enable fuel h evs counts ov (HPtr dt 0) = FOk (tt, set_cell h dt 1 (VInt 2), evs, counts, ov) /\
    det_at (set_cell h dt 1 (VInt 2)) dt bss (with_period d SEnabled).
  Proof.
    pose proof Hd as [Hl _]. split; [|exact (det_at_set_period h dt bss d SEnabled Hd)].
    unfold src_det_enable. rewrite (blk80_padd h dt 1 Hl) by lia.
    rewrite (blk80_store_period h dt 2 Hl (det_lt h dt bss d Hd)). reflexivity.
  Qed.
  (* disable: current_period_ = mem_leak_period_disabled *)
  Theorem src_det_disable_spec :
    src_det_disable fuel h evs counts ov (HPtr dt 0) = FOk (tt, set_cell h dt 1 (VInt 1), evs, counts, ov) /\
    det_at (set_cell h dt 1 (VInt 1)) dt bss (with_period d SDisabled).
  Proof.
    pose proof Hd as [Hl _]. split; [|exact (det_at_set_period h dt bss d SDisabled Hd)].
    unfold src_det_disable. rewrite (blk80_padd h dt 1 Hl) by lia.
    rewrite (blk80_store_period h dt 1 Hl (det_lt h dt bss d Hd)). reflexivity.
  Qed.

  (* totalMemoryLeaks(period) = memoryTable_.getTotalLeaks(period) *)
  Theorem src_det_totalMemoryLeaks_spec : forall per, fuel_ok fuel (d_tbl d) -> Z.of_nat (t_count (d_tbl d)) < 2 ^ 64 ->
    src_det_totalMemoryLeaks fuel h evs counts ov (HPtr dt 0) (period_code per) =
      FOk (Z.of_N (t_total per (d_tbl d)), h, evs, counts, ov).
  Proof.
    intros per [Hf1 Hf2] Hc. pose proof Hd as [Hl [_ Ht]]. unfold src_det_totalMemoryLeaks.
    rewrite (blk80_padd h dt 3 Hl) by lia.
    rewrite (src_table_getTotalLeaks_off_spec fuel h dt 3 bss (d_tbl d) per Ht Hf1 Hc Hf2 : src_table_getTotalLeaks fuel h (HPtr dt 3) _ = _).
    reflexivity.
  Qed.
  (* the two calls the plugin makes: mem_leak_period_checking = 3, mem_leak_period_enabled = 2 *)
  Corollary src_det_totalMemoryLeaks_checking : fuel_ok fuel (d_tbl d) -> Z.of_nat (t_count (d_tbl d)) < 2 ^ 64 ->
    src_det_totalMemoryLeaks fuel h evs counts ov (HPtr dt 0) 3 = FOk (Z.of_N (t_total PChecking (d_tbl d)), h, evs, counts, ov).
  Proof. exact (src_det_totalMemoryLeaks_spec PChecking). Qed.
  Corollary src_det_totalMemoryLeaks_enabled : fuel_ok fuel (d_tbl d) -> Z.of_nat (t_count (d_tbl d)) < 2 ^ 64 ->
    src_det_totalMemoryLeaks fuel h evs counts ov (HPtr dt 0) 2 = FOk (Z.of_N (t_total PEnabled (d_tbl d)), h, evs, counts, ov).
  Proof. exact (src_det_totalMemoryLeaks_spec PEnabled). Qed.
End Detector.

(* ================================================================== D: markCheckingPeriodLeaksAsNonCheckingPeriod *)
Lemma ptr_first_null_lcnt f : forall ns bs, length bs = length ns -> ptr_first f bs ns = HNull -> lcnt f ns = 0%nat.
Proof.
  induction ns as [|n ns IH]; intros bs Hl Hp; [reflexivity|]. destruct bs as [|b bs]; [discriminate Hl|].
  cbn [ptr_first] in Hp. cbn [lcnt]. destruct (f n); [discriminate Hp|]. cbn [length] in Hl. rewrite (IH bs) by (lia || assumption).
  reflexivity.
Qed.
Lemma tptr_first_null_tcnt f : forall bss t, Forall2 (fun (bs : list nat) (bk : bucket) => length bs = length bk) bss t ->
  tptr_first f bss t = HNull -> tcnt f t = 0%nat.
Proof.
  intros bss t H. induction H as [|bs bk bss t Hl H IH]; intro Hp; [reflexivity|]. cbn [tptr_first] in Hp. cbn [tcnt].
  destruct (ptr_first f bs bk) as [|b c] eqn:E; [|discriminate Hp]. rewrite (ptr_first_null_lcnt f bk bs Hl E), (IH Hp). reflexivity.
Qed.

Definition dnode : node := mkNode 0 0 0 0 0 0 SDisabled 0.

(* getNextLeak(leak, mem_leak_period_checking) and getFirstLeak(mem_leak_period_checking) on the detector's table *)
Lemma det_getNextLeak fuel h dt bss t i k : table_at_off h dt 3 bss t -> (i < nbuckets)%nat -> (k < length (nth i t []))%nat ->
  hash_ok t -> fuel_ok fuel t ->
  src_table_getNextLeak fuel h (HPtr dt 3) (HPtr (nth k (nth i bss []) 0%nat) 0) 3 = FOk (tptr_next fchk i k bss t).
Proof.
  intros Ht Hi Hk Hh [Hf1 Hf2]. pose proof Ht as [Hlt _].
  apply (src_table_getNextLeak_off_spec fuel h dt 3 bss t i k PChecking dnode Ht Hi Hk); [|exact Hf1 | lia].
  apply Hh; [rewrite Hlt; exact Hi | exact Hk].
Qed.
Lemma det_getFirstLeak fuel h dt bss t : table_at_off h dt 3 bss t -> fuel_ok fuel t ->
  src_table_getFirstLeak fuel h (HPtr dt 3) 3 = FOk (tptr_first fchk bss t).
Proof. intros Ht [Hf1 Hf2]. exact (src_table_getFirstLeak_off_spec fuel h dt 3 bss t PChecking Ht Hf1 Hf2). Qed.

(* the loop: `leak` is the first record of the CURRENT table that is in the checking period (true at entry; after leak's period
   was rewritten, getNextLeak(leak) -- which starts from leak->next_ in leak's bucket -- is the first such record of the new
   table, because no record before leak is in the checking period and leak no longer is).  Induction on the number of records
   in the checking period. *)
Lemma mark_walk dt bss fuel0 : forall m t h fuel, tcnt fchk t = m -> table_at_off h dt 3 bss t ->
  length (hblock h dt) = 80%nat -> hash_ok t -> fuel_ok fuel0 t -> (m < fuel)%nat ->
  exists h', (forall evs counts ov,
               src_det_markCheckingPeriodLeaksAsNonCheckingPeriod_loop1 fuel0 fuel (HPtr dt 0) h evs counts ov
                 (tptr_first fchk bss t) = Go (h', evs, counts, ov, HNull)) /\
             table_at_off h' dt 3 bss (map (map demote) t) /\ length h' = length h /\
             (forall b, ~ In b (concat bss) -> hblock h' b = hblock h b) /\
             (forall b k, k <> 6%nat -> nth_error (hblock h' b) k = nth_error (hblock h b) k).
Proof.
  induction m as [|m IH]; intros t h fuel Hm Ht Hl Hh Hf Hfl; destruct (tptr_first fchk bss t) as [|b c] eqn:E.
  - (* nothing (left) in the checking period *)
    exists h. split; [|rewrite (tcnt0_demote t Hm); split; [exact Ht|]; split; [reflexivity|]; split; intros; reflexivity].
    intros evs counts ov. destruct fuel as [|fuel]; [lia|]. cbn [src_det_markCheckingPeriodLeaksAsNonCheckingPeriod_loop1].
    rewrite z2b_false_null. reflexivity.
  - exfalso. destruct (tptr_first_found fchk dnode t bss b c (toff_lengths h dt 3 bss t Ht) E) as [i [k [Hi [Hk [_ [_ [Hfk _]]]]]]].
    pose proof (tcnt_set fchk dnode (set_period (nth k (nth i t []) dnode) SEnabled) t i k Hi Hk Hfk (fchk_set_enabled _)). lia.
  - exfalso. pose proof (tptr_first_null_tcnt fchk bss t (toff_lengths h dt 3 bss t Ht) E). lia.
  - destruct (tptr_first_found fchk dnode t bss b c (toff_lengths h dt 3 bss t Ht) E) as [i [k [Hi [Hk [Hb [Hc [Hfk Hrest]]]]]]].
    subst b c. pose proof Ht as [Hlt _]. assert (Hin : (i < nbuckets)%nat) by (rewrite <- Hlt; exact Hi).
    set (n := nth k (nth i t []) dnode) in *. set (b := nth k (nth i bss []) 0%nat) in *.
    destruct (toff_node h dt 3 bss t i k dnode Ht Hin Hk) as [nxt [Hblk [Hinb Hltb]]]. fold n b in Hblk, Hinb, Hltb.
    set (t1 := t_set t i k (set_period n SEnabled)).
    assert (Ht1 : table_at_off (set_cell h b 6 (VInt 2)) dt 3 bss t1)
      by exact (toff_set_period h dt 3 bss t i k dnode SEnabled Ht Hin Hk).
    assert (Hbdt : b <> dt).
    { intro Eb. destruct Ht as [_ [_ [_ [_ [_ [Hnt _]]]]]]. apply Hnt. rewrite <- Eb. exact (tw_in_nth_concat b bss i Hinb). }
    assert (Hl1 : length (hblock (set_cell h b 6 (VInt 2)) dt) = 80%nat) by (rewrite set_cell_block_length; exact Hl).
    assert (Hh1 : hash_ok t1) by (apply (hash_ok_set t i k _ dnode Hh Hi Hk); reflexivity).
    assert (Hf1 : fuel_ok fuel0 t1) by (apply fuel_ok_set; exact Hf).
    assert (Hm1 : tcnt fchk t1 = m).
    { pose proof (tcnt_set fchk dnode (set_period n SEnabled) t i k Hi Hk Hfk (fchk_set_enabled _)) as Hs. fold t1 in Hs. lia. }
    destruct fuel as [|fuel]; [lia|].
    destruct (IH t1 (set_cell h b 6 (VInt 2)) fuel Hm1 Ht1 Hl1 Hh1 Hf1) as [h' [Hgo [Ht' [Hlen [Hfr Hcells]]]]]; [lia|].
    exists h'. split; [|split; [|split; [|split]]].
    + intros evs counts ov. cbn [src_det_markCheckingPeriodLeaksAsNonCheckingPeriod_loop1]. rewrite z2b_true_ptr.
      rewrite (node_padd h b n nxt 6 Hblk) by lia. rewrite (node_period h b n nxt Hblk). rewrite (fchk_true n Hfk).
      change (z2b (c_eq (cw 32 true (stamp_code SChecking)) 3)) with true. cbv beta iota.
      rewrite (hstore_lit h b 6 (VInt 2)) by (try lia; try exact Hltb; rewrite Hblk; cbn; lia).
      change (Z.to_nat 6) with 6%nat. rewrite (blk80_padd _ dt 3 Hl1) by lia.
      assert (Hk1 : (k < length (nth i t1 []))%nat) by (unfold t1; rewrite t_set_bucket_length; exact Hk).
      pose proof (det_getNextLeak fuel0 _ dt bss t1 i k Ht1 Hin Hk1 Hh1 Hf1) as Enext.
      change (nth k (nth i bss []) 0%nat) with b in Enext. rewrite Enext. cbv beta iota zeta.
      pose proof (Hrest (set_period n SEnabled) (fchk_set_enabled n)) as Er.
      change (t_set t i k (set_period n SEnabled)) with t1 in Er. rewrite <- Er. apply Hgo.
    + replace (map (map demote) t) with (map (map demote) t1); [exact Ht'|].
      unfold t1. rewrite <- (demote_chk n Hfk). apply map_demote_t_set; assumption.
    + rewrite Hlen. apply set_cell_length.
    + intros b' Hb'. rewrite (Hfr b' Hb'). apply set_cell_other. intro Eb. subst b'. apply Hb'. exact (tw_in_nth_concat b bss i Hinb).
    + intros b' k' Hk'. rewrite (Hcells b' k' Hk'). apply set_cell_nth_other. right. exact Hk'.
Qed.

(* the function: every record of the checking period re-stamped enabled, in place; nothing else in the heap moves *)
Theorem src_det_mark_spec : forall fuel h dt bss d, det_at h dt bss d -> hash_ok (d_tbl d) -> (t_count (d_tbl d) + 80 < fuel)%nat ->
  exists h', (forall evs counts ov, src_det_markCheckingPeriodLeaksAsNonCheckingPeriod fuel h evs counts ov (HPtr dt 0) =
                                    FOk (tt, h', evs, counts, ov)) /\
             det_at h' dt bss (with_tbl d (map (map demote) (d_tbl d))) /\ length h' = length h /\
             (forall b, ~ In b (concat bss) -> hblock h' b = hblock h b) /\
             (forall b k, k <> 6%nat -> nth_error (hblock h' b) k = nth_error (hblock h b) k).
Proof.
  intros fuel h dt bss d Hd Hh Hfl. pose proof Hd as [Hl [Hp Ht]]. pose proof (fuel_ok_of_count fuel (d_tbl d) Hfl) as Hf.
  pose proof (tcnt_le fchk (d_tbl d)) as Hle.
  destruct (mark_walk dt bss fuel (tcnt fchk (d_tbl d)) (d_tbl d) h fuel eq_refl Ht Hl Hh Hf) as [h' [Hgo [Ht' [Hlen [Hfr Hcells]]]]]; [lia|].
  exists h'. split; [|split; [|split; [|split]]]; [| |exact Hlen | exact Hfr | exact Hcells].
  - intros evs counts ov. unfold src_det_markCheckingPeriodLeaksAsNonCheckingPeriod.
    rewrite (blk80_padd h dt 3 Hl) by lia. rewrite (det_getFirstLeak fuel h dt bss (d_tbl d) Ht Hf). cbv beta iota zeta.
    rewrite Hgo. reflexivity.
  - pose proof (Hfr dt (det_not_node h dt bss d Hd)) as Hdt. unfold det_at. cbn [with_tbl d_period d_tbl]. rewrite Hdt.
    split; [exact Hl|]. split; [exact Hp | exact Ht'].
Qed.
(* against the model: for a table that satisfies the invariant of C04_Table.v (kept by every history, C07_Main.v) *)
Corollary src_det_mark_model : forall fuel h dt bss d, det_at h dt bss d -> Inv (d_tbl d) -> (t_count (d_tbl d) + 80 < fuel)%nat ->
  exists h' d', d_mark d = Some d' /\
             (forall evs counts ov, src_det_markCheckingPeriodLeaksAsNonCheckingPeriod fuel h evs counts ov (HPtr dt 0) =
                                    FOk (tt, h', evs, counts, ov)) /\
             det_at h' dt bss d' /\ length h' = length h /\
             (forall b, ~ In b (concat bss) -> hblock h' b = hblock h b) /\
             (forall b k, k <> 6%nat -> nth_error (hblock h' b) k = nth_error (hblock h b) k).
Proof.
  intros fuel h dt bss d Hd HI Hfl.
  destruct (src_det_mark_spec fuel h dt bss d Hd (inv_hash_ok _ HI) Hfl) as [h' [Hrun [Hd' Hrest]]].
  exists h', (with_tbl d (map (map demote) (d_tbl d))). split; [exact (d_mark_is_map_demote d HI)|]. split; [exact Hrun|].
  split; [exact Hd' | exact Hrest].
Qed.

(* ================================================================== E: the plugin functions *)
(* the cells of the plugin object *)
Section PluginCells.
  Variables (h : heap) (pl dt : nat) (w : world) (x : Z).
  Hypothesis Hpl : hblock h pl = plugin_cells dt w x.
  Lemma pl_padd k : 0 <= k <= 5 -> hpadd h (HPtr pl 0) k = Some (HPtr pl k).
  Proof. intro Hk. rewrite (hpadd_lit h pl 0 k) by (rewrite Hpl; cbn; lia). rewrite Z.add_0_l. reflexivity. Qed.
  Lemma pl_load_det : hload_ptr h (HPtr pl 0) = Some (HPtr dt 0).
  Proof. unfold hload_ptr, hload. rewrite Hpl. reflexivity. Qed.
  Lemma pl_load_ignore : hload_int h (HPtr pl 1) = Some (b2z (w_ignore w)).
  Proof. unfold hload_int, hload. rewrite Hpl. reflexivity. Qed.
  Lemma pl_load_expected : hload_int h (HPtr pl 3) = Some (Z.of_N (w_expected w)).
  Proof. unfold hload_int, hload. rewrite Hpl. reflexivity. Qed.
  Lemma pl_load_fc : hload_int h (HPtr pl 4) = Some (Z.of_N (w_fc0 w)).
  Proof. unfold hload_int, hload. rewrite Hpl. reflexivity. Qed.
  Lemma pl_store k v : (pl < length h)%nat -> 0 <= k < 5 -> hstore h (HPtr pl k) v = Some (set_cell h pl (Z.to_nat k) v).
  Proof. intros Hlt Hk. apply hstore_lit; [lia | rewrite Hpl; cbn; lia | exact Hlt]. Qed.
End PluginCells.

(* C tests on represented values *)
Lemma lnot_b2z b : z2b (c_lnot (b2z b)) = negb b. Proof. destruct b; reflexivity. Qed.
Lemma ne_of_N a b : z2b (c_ne (Z.of_N a) (Z.of_N b)) = negb (a =? b)%N.
Proof. unfold c_ne. rewrite b2z_z2b, of_N_eqb. reflexivity. Qed.
Lemma eq_of_N a b : z2b (c_eq (Z.of_N a) (Z.of_N b)) = (a =? b)%N.
Proof. unfold c_eq. rewrite b2z_z2b, of_N_eqb. reflexivity. Qed.
Lemma gt0_of_N a : z2b (c_gt (Z.of_N a) 0) = (0 <? a)%N.
Proof.
  unfold c_gt. rewrite b2z_z2b. destruct (N.ltb_spec 0 a) as [L|L]; [apply Z.ltb_lt; lia | apply Z.ltb_ge; lia].
Qed.

(* a store into the plugin object of a represented world *)
Lemma world_at_plugin_store h pl dt bss w w' k v : world_at h pl dt bss w ->
  (forall x, upd (plugin_cells dt w x) k v = plugin_cells dt w' x) -> w_det w' = w_det w ->
  (w_expected w' < 2 ^ 64)%N -> (w_fc0 w' < 2 ^ 64)%N -> world_at (set_cell h pl k v) pl dt bss w'.
Proof.
  intros [[x Hpl] [Hlt [Hd [Hne [Hnn _]]]]] Hcells Hdet He Hf. unfold world_at.
  split. { exists x. rewrite set_cell_same by exact Hlt. rewrite Hpl. apply Hcells. }
  split; [rewrite set_cell_length; exact Hlt|]. split; [rewrite Hdet; apply det_at_set_other; assumption|].
  split; [exact Hne|]. split; [exact Hnn|]. split; assumption.
Qed.

(* ---------------------------------------------------------------- expectLeaksInTest / ignoreAllLeaksInTest *)
Theorem src_plugin_expectLeaksInTest_spec : forall fuel h pl dt bss w evs counts ov n, world_at h pl dt bss w -> (n < 2 ^ 64)%N ->
  src_plugin_expectLeaksInTest fuel h evs counts ov (HPtr pl 0) (Z.of_N n) =
    FOk (tt, set_cell h pl 3 (VInt (Z.of_N n)), evs, counts, ov) /\
  world_at (set_cell h pl 3 (VInt (Z.of_N n))) pl dt bss (exec_stmt w (SExpect n)).
Proof.
  intros fuel h pl dt bss w evs counts ov n Hw Hn. pose proof Hw as [[x Hpl] [Hlt [_ [_ [_ [_ Hf]]]]]]. split.
  - unfold src_plugin_expectLeaksInTest. rewrite (pl_padd h pl dt w x Hpl 3) by lia.
    rewrite (pl_store h pl dt w x Hpl 3 _ Hlt) by lia. reflexivity.
  - apply (world_at_plugin_store h pl dt bss w _ 3 _ Hw); [intro y; reflexivity | reflexivity | exact Hn | exact Hf].
Qed.
Theorem src_plugin_ignoreAllLeaksInTest_spec : forall fuel h pl dt bss w evs counts ov, world_at h pl dt bss w ->
  src_plugin_ignoreAllLeaksInTest fuel h evs counts ov (HPtr pl 0) = FOk (tt, set_cell h pl 1 (VInt 1), evs, counts, ov) /\
  world_at (set_cell h pl 1 (VInt 1)) pl dt bss (exec_stmt w SIgnore).
Proof.
  intros fuel h pl dt bss w evs counts ov Hw. pose proof Hw as [[x Hpl] [Hlt [_ [_ [_ [He Hf]]]]]]. split.
  - unfold src_plugin_ignoreAllLeaksInTest. rewrite (pl_padd h pl dt w x Hpl 1) by lia.
    rewrite (pl_store h pl dt w x Hpl 1 _ Hlt) by lia. reflexivity.
  - apply (world_at_plugin_store h pl dt bss w _ 1 _ Hw); [intro y; reflexivity | reflexivity | exact He | exact Hf].
Qed.

(* ---------------------------------------------------------------- preTestAction *)
(* result.getFailureCount() is the head of the ghost stream: the count the model keeps in w_failures, a C value *)
Theorem src_plugin_preTestAction_spec : forall fuel h pl dt bss w evs rest ov, world_at h pl dt bss w ->
  (w_failures w < 2 ^ 64)%N ->
  exists h', src_plugin_preTestAction fuel h evs (Z.of_N (w_failures w) :: rest) ov (HPtr pl 0) =
               FOk (tt, h', evs ++ [PClearBuffer], rest, ov) /\
             world_at h' pl dt bss (pre_action w) /\ length h' = length h /\
             (forall b, b <> pl -> b <> dt -> hblock h' b = hblock h b).
Proof.
  intros fuel h pl dt bss w evs rest ov Hw Hfail. pose proof Hw as [[x Hpl] [Hlt [Hd [Hne [Hnn [He Hf]]]]]].
  destruct (src_det_startChecking_spec fuel h dt bss (w_det w) evs (Z.of_N (w_failures w) :: rest) ov Hd) as [Estart Hd1].
  set (h1 := set_cell h dt 1 (VInt 3)) in *.
  assert (Hpl1 : hblock h1 pl = plugin_cells dt w x) by (unfold h1; rewrite set_cell_other by exact Hne; exact Hpl).
  assert (Hlt1 : (pl < length h1)%nat) by (unfold h1; rewrite set_cell_length; exact Hlt).
  assert (Hw1 : world_at h1 pl dt bss (mkW (with_period (w_det w) SChecking) (w_ignore w) (w_expected w) (w_fc0 w) (w_failures w) (w_err w))).
  { unfold world_at. split; [exists x; exact Hpl1|]. split; [exact Hlt1|]. split; [exact Hd1|]. repeat split; assumption. }
  exists (set_cell h1 pl 4 (VInt (Z.of_N (w_failures w)))). split; [|split; [|split]].
  - unfold src_plugin_preTestAction. rewrite (pl_load_det h pl dt w x Hpl). rewrite Estart. cbv beta iota.
    rewrite (pl_padd h1 pl dt w x Hpl1 4) by lia. rewrite (pl_store h1 pl dt w x Hpl1 4 _ Hlt1) by lia. reflexivity.
  - apply (world_at_plugin_store h1 pl dt bss _ _ 4 _ Hw1); [intro y; reflexivity | reflexivity | exact He | exact Hfail].
  - unfold h1. rewrite !set_cell_length. reflexivity.
  - intros b Hb1 Hb2. unfold h1. rewrite !set_cell_other by assumption. reflexivity.
Qed.

(* ---------------------------------------------------------------- FinalReport *)
Definition final_fires (w : world) (tbd : N) : bool := negb (t_total PEnabled (d_tbl (w_det w)) =? tbd)%N.
Lemma final_fires_model w tbd : (final_fires w tbd = true <-> exists l, fst (final_report w tbd) = Some l) /\
                                (final_fires w tbd = false <-> fst (final_report w tbd) = None).
Proof.
  unfold final_fires, final_report. destruct (negb (t_total PEnabled (d_tbl (w_det w)) =? tbd)%N).
  - destruct (d_report PEnabled (w_det w)) as [l|]; cbn [fst]; (split; split; [intros _; eexists; reflexivity | reflexivity | discriminate | discriminate]).
  - cbn [fst]. split; split; [discriminate | intros [l Hl]; discriminate Hl | reflexivity | reflexivity].
Qed.
(* returns the report text (1: a non-null address, event PReport mem_leak_period_enabled) exactly when the model's final_report is
   not the empty string; the heap is not written *)
Theorem src_plugin_FinalReport_spec : forall fuel h pl dt bss w evs counts ov tbd, world_at h pl dt bss w ->
  (t_count (d_tbl (w_det w)) + 80 < fuel)%nat -> Z.of_nat (t_count (d_tbl (w_det w))) < 2 ^ 64 ->
  src_plugin_FinalReport fuel h evs counts ov (HPtr pl 0) (Z.of_N tbd) =
    FOk (if final_fires w tbd then (1, h, evs ++ [PReport 2], counts, ov) else (0, h, evs, counts, ov)).
Proof.
  intros fuel h pl dt bss w evs counts ov tbd Hw Hfl Hc. pose proof Hw as [[x Hpl] [Hlt [Hd _]]].
  unfold src_plugin_FinalReport. rewrite (pl_load_det h pl dt w x Hpl).
  rewrite (src_det_totalMemoryLeaks_enabled fuel h dt bss (w_det w) evs counts ov Hd (fuel_ok_of_count _ _ Hfl) Hc).
  cbv beta iota zeta. rewrite ne_of_N. unfold final_fires. destruct (negb (t_total PEnabled (d_tbl (w_det w)) =? tbd)%N); reflexivity.
Qed.

(* ---------------------------------------------------------------- postTestAction *)
(* totalMemoryLeaks(mem_leak_period_checking) after stopChecking() *)
Definition post_leaks (w : world) : N := t_total PChecking (d_tbl (w_det w)).
(* result.getFailureCount() is evaluated (the && is lazy): not ignored and expectedLeaks_ != leaks *)
Definition post_reads (w : world) : bool := negb (w_ignore w) && negb (w_expected w =? post_leaks w)%N.
(* the condition of the if: the model's `fire` *)
Definition post_fire (w : world) : bool := post_reads w && (w_fc0 w =? w_failures w)%N.
(* overloaded: report(mem_leak_period_checking) and the TestFailure handed to result.addFailure; not overloaded: at most the
   warning that leak detection was disabled *)
Definition post_events (w : world) (ov : Z) : list pev :=
  if post_fire w then (if z2b ov then [PReport 3; PFailure] else if (0 <? w_expected w)%N then [PWarn] else []) else [].
Definition post_counts (w : world) (rest : list Z) : list Z := if post_reads w then rest else Z.of_N (w_failures w) :: rest.

Lemma post_fire_model w : (post_fire w = true <-> exists l, snd (post_action w) = Some l) /\
                          (post_fire w = false <-> snd (post_action w) = None).
Proof.
  unfold post_fire, post_reads, post_leaks, post_action. cbv zeta. cbn [snd].
  change (d_tbl (with_period (w_det w) SEnabled)) with (d_tbl (w_det w)).
  destruct (negb (w_ignore w) && negb (w_expected w =? t_total PChecking (d_tbl (w_det w)))%N && (w_fc0 w =? w_failures w)%N).
  - split; split; [intros _; eexists; reflexivity | reflexivity | discriminate | discriminate].
  - split; split; [discriminate | intros [l Hl]; discriminate Hl | reflexivity | reflexivity].
Qed.

Lemma blk5_padd h pl k : length (hblock h pl) = 5%nat -> 0 <= k <= 5 -> hpadd h (HPtr pl 0) k = Some (HPtr pl k).
Proof. intros Hl Hk. rewrite (hpadd_lit h pl 0 k) by (rewrite Hl; lia). rewrite Z.add_0_l. reflexivity. Qed.
Lemma blk5_store h pl k v : length (hblock h pl) = 5%nat -> (pl < length h)%nat -> 0 <= k < 5 ->
  hstore h (HPtr pl k) v = Some (set_cell h pl (Z.to_nat k) v).
Proof. intros Hl Hlt Hk. apply hstore_lit; [lia | rewrite Hl; lia | exact Hlt]. Qed.

Theorem src_plugin_postTestAction_spec : forall fuel h pl dt bss w evs rest ov, world_at h pl dt bss w ->
  Inv (d_tbl (w_det w)) -> (t_count (d_tbl (w_det w)) + 80 < fuel)%nat -> Z.of_nat (t_count (d_tbl (w_det w))) < 2 ^ 64 ->
  exists h', src_plugin_postTestAction fuel h evs (Z.of_N (w_failures w) :: rest) ov (HPtr pl 0) =
               FOk (tt, h', evs ++ post_events w ov, post_counts w rest, ov) /\
             world_at h' pl dt bss (fst (post_action w)) /\ length h' = length h /\
             (forall b, b <> pl -> b <> dt -> ~ In b (concat bss) -> hblock h' b = hblock h b) /\
             (forall b k, In b (concat bss) -> k <> 6%nat -> nth_error (hblock h' b) k = nth_error (hblock h b) k).
Proof.
  intros fuel h pl dt bss w evs rest ov Hw HI Hfl Hc. pose proof Hw as [[x Hpl] [Hlt [Hd [Hne [Hnn [He Hf]]]]]].
  set (d1 := with_period (w_det w) SEnabled). set (h1 := set_cell h dt 1 (VInt 2)).
  assert (Hd1 : det_at h1 dt bss d1) by exact (det_at_set_period h dt bss (w_det w) SEnabled Hd).
  assert (Hpl1 : hblock h1 pl = plugin_cells dt w x) by (unfold h1; rewrite set_cell_other by exact Hne; exact Hpl).
  assert (Hlt1 : (pl < length h1)%nat) by (unfold h1; rewrite set_cell_length; exact Hlt).
  destruct (src_det_mark_model fuel h1 dt bss d1 Hd1 HI Hfl) as [h2 [d2 [Edm [Emark [Hd2 [Hlen2 [Hfr2 Hcells2]]]]]]].
  assert (Hpl2 : hblock h2 pl = plugin_cells dt w x) by (rewrite (Hfr2 pl Hnn); exact Hpl1).
  assert (Hlt2 : (pl < length h2)%nat) by (rewrite Hlen2; exact Hlt1).
  set (h3 := set_cell h2 pl 1 (VInt 0)). set (h4 := set_cell h3 pl 3 (VInt 0)).
  assert (Hl3 : length (hblock h3 pl) = 5%nat) by (unfold h3; rewrite set_cell_block_length, Hpl2; reflexivity).
  assert (Hlt3 : (pl < length h3)%nat) by (unfold h3; rewrite set_cell_length; exact Hlt2).
  exists h4. split; [|split; [|split; [|split]]].
  - (* the run *)
    assert (Hld1 := pl_load_det h1 pl dt w x Hpl1).
    assert (Ep1 := pl_padd h2 pl dt w x Hpl2 1 ltac:(lia)).
    assert (Es1 : hstore h2 (HPtr pl 1) (VInt 0) = Some h3) by (apply (pl_store h2 pl dt w x Hpl2 1 _ Hlt2); lia).
    assert (Ep3 := blk5_padd h3 pl 3 Hl3 ltac:(lia)).
    assert (Es3 : hstore h3 (HPtr pl 3) (VInt 0) = Some h4) by (apply (blk5_store h3 pl 3 _ Hl3 Hlt3); lia).
    assert (Etot := fun e c => src_det_totalMemoryLeaks_checking fuel h1 dt bss d1 e c ov Hd1 (fuel_ok_of_count _ _ Hfl) Hc).
    change (t_total PChecking (d_tbl d1)) with (post_leaks w) in Etot.
    unfold src_plugin_postTestAction. rewrite (pl_load_det h pl dt w x Hpl).
    rewrite (proj1 (src_det_stopChecking_spec fuel h dt bss (w_det w) evs (Z.of_N (w_failures w) :: rest) ov Hd)).
    fold h1. cbv beta iota. rewrite Hld1. rewrite Etot. cbv beta iota zeta.
    rewrite (pl_padd h1 pl dt w x Hpl1 1) by lia. rewrite (pl_load_ignore h1 pl dt w x Hpl1). rewrite lnot_b2z.
    unfold post_events, post_counts, post_fire, post_reads.
    destruct (w_ignore w) eqn:Eig; cbn [negb andb]; cbv beta iota.
    { rewrite Hld1, Emark. cbv beta iota. rewrite Ep1, Es1, Ep3, Es3, app_nil_r. reflexivity. }
    rewrite (pl_padd h1 pl dt w x Hpl1 3) by lia. rewrite (pl_load_expected h1 pl dt w x Hpl1). rewrite ne_of_N.
    destruct (w_expected w =? post_leaks w)%N eqn:Eel; cbn [negb andb]; cbv beta iota.
    { rewrite Hld1, Emark. cbv beta iota. rewrite Ep1, Es1, Ep3, Es3, app_nil_r. reflexivity. }
    rewrite (pl_padd h1 pl dt w x Hpl1 4) by lia. rewrite (pl_load_fc h1 pl dt w x Hpl1). rewrite eq_of_N.
    destruct (w_fc0 w =? w_failures w)%N eqn:Efc; cbv beta iota.
    2:{ rewrite Hld1, Emark. cbv beta iota. rewrite Ep1, Es1, Ep3, Es3, app_nil_r. reflexivity. }
    destruct (z2b ov) eqn:Eov; cbv beta iota zeta.
    { rewrite Hld1, Emark. cbv beta iota. rewrite Ep1, Es1, Ep3, Es3, <- app_assoc. reflexivity. }
    rewrite gt0_of_N. destruct (0 <? w_expected w)%N eqn:Egt; cbv beta iota zeta.
    { rewrite Hld1, Emark. cbv beta iota. rewrite Ep1, Es1, Ep3, Es3. reflexivity. }
    { rewrite Hld1, Emark. cbv beta iota. rewrite Ep1, Es1, Ep3, Es3, app_nil_r. reflexivity. }
  - (* the new heap represents the model's new world *)
    assert (Ew : fst (post_action w) =
                 mkW d2 false 0 (w_fc0 w) (w_failures (fst (post_action w))) (w_err (fst (post_action w)))).
    { unfold post_action. cbv zeta. cbn [fst w_failures w_err]. fold d1. rewrite Edm. reflexivity. }
    rewrite Ew. unfold world_at. cbn [w_det w_ignore w_expected w_fc0].
    split. { exists x. unfold h4, h3. rewrite !set_cell_same, Hpl2 by (rewrite ?set_cell_length; exact Hlt2). reflexivity. }
    split; [unfold h4; rewrite set_cell_length; exact Hlt3|].
    split; [unfold h4, h3; apply det_at_set_other; [apply det_at_set_other|..]; assumption|].
    split; [exact Hne|]. split; [exact Hnn|]. split; [cbn; lia | exact Hf].
  - unfold h4, h3. rewrite !set_cell_length, Hlen2. apply set_cell_length.
  - intros b Hb1 Hb2 Hb3. unfold h4, h3. rewrite !set_cell_other by exact Hb1. rewrite (Hfr2 b Hb3). apply set_cell_other. exact Hb2.
  - intros b k Hb Hk. assert (Hbp : b <> pl) by (intro E; subst b; exact (Hnn Hb)).
    assert (Hbd : b <> dt) by (intro E; subst b; exact (det_not_node h dt bss (w_det w) Hd Hb)).
    unfold h4, h3. rewrite !set_cell_other by exact Hbp. rewrite (Hcells2 b k Hk). unfold h1. rewrite set_cell_other by exact Hbd.
    reflexivity.
Qed.

(* what the model's new world is, for a table that satisfies its invariant: flags cleared, period enabled, every record demoted *)
Lemma post_action_world w : Inv (d_tbl (w_det w)) ->
  w_det (fst (post_action w)) = mkDet (map (map demote) (d_tbl (w_det w))) SEnabled (d_stage (w_det w)) (d_seq (w_det w)) /\
  w_ignore (fst (post_action w)) = false /\ w_expected (fst (post_action w)) = 0%N /\ w_fc0 (fst (post_action w)) = w_fc0 w.
Proof.
  intro HI. unfold post_action. cbv zeta. cbn [fst w_det w_ignore w_expected w_fc0].
  rewrite (d_mark_is_map_demote (with_period (w_det w) SEnabled) HI). repeat split.
Qed.

(* MemoryLeakWarningPlugin::areNewDeleteOverloaded() (the model's assumption): the failure with the report is added exactly when
   the model's post_action returns Some _ *)
Corollary src_plugin_postTestAction_overloaded : forall fuel h pl dt bss w evs rest, world_at h pl dt bss w ->
  Inv (d_tbl (w_det w)) -> (t_count (d_tbl (w_det w)) + 80 < fuel)%nat -> Z.of_nat (t_count (d_tbl (w_det w))) < 2 ^ 64 ->
  exists h', src_plugin_postTestAction fuel h evs (Z.of_N (w_failures w) :: rest) 1 (HPtr pl 0) =
               FOk (tt, h', evs ++ (if post_fire w then [PReport 3; PFailure] else []), post_counts w rest, 1) /\
             world_at h' pl dt bss (fst (post_action w)) /\ length h' = length h /\
             (forall b, b <> pl -> b <> dt -> ~ In b (concat bss) -> hblock h' b = hblock h b) /\
             (forall b k, In b (concat bss) -> k <> 6%nat -> nth_error (hblock h' b) k = nth_error (hblock h b) k).
Proof. intros fuel h pl dt bss w evs rest. exact (src_plugin_postTestAction_spec fuel h pl dt bss w evs rest 1). Qed.
(* operator new / delete not overloaded: no failure is ever added *)
Corollary src_plugin_postTestAction_not_overloaded : forall fuel h pl dt bss w evs rest, world_at h pl dt bss w ->
  Inv (d_tbl (w_det w)) -> (t_count (d_tbl (w_det w)) + 80 < fuel)%nat -> Z.of_nat (t_count (d_tbl (w_det w))) < 2 ^ 64 ->
  exists h', src_plugin_postTestAction fuel h evs (Z.of_N (w_failures w) :: rest) 0 (HPtr pl 0) =
               FOk (tt, h', evs ++ (if post_fire w && (0 <? w_expected w)%N then [PWarn] else []), post_counts w rest, 0) /\
             world_at h' pl dt bss (fst (post_action w)).
Proof.
  intros fuel h pl dt bss w evs rest Hw HI Hfl Hc.
  destruct (src_plugin_postTestAction_spec fuel h pl dt bss w evs rest 0 Hw HI Hfl Hc) as [h' [E [Hw' _]]].
  exists h'. split; [|exact Hw']. rewrite E. unfold post_events. destruct (post_fire w); reflexivity.
Qed.
Lemma post_events_no_failure w : ~ In PFailure (post_events w 0).
Proof.
  unfold post_events. destruct (post_fire w); [|intros []]. change (z2b 0) with false. cbv iota.
  destruct (0 <? w_expected w)%N; [intros [H|[]]; discriminate H | intros []].
Qed.

(* ================================================================== F: a concrete heap *)
(* block 0: the plugin; block 1: the detector (80 cells, the table from cell 3); bucket 27 = records 173 -> 100 (blocks 3 -> 2),
   bucket 30 = record 103 (block 4).  Records 100 and 103 were allocated during the test (checking), 173 before it (enabled). *)
Definition exw_nA : node := mkNode 100 8 1 7 10 0 SChecking 2.
Definition exw_nB : node := mkNode 173 16 2 7 20 2 SEnabled 1.
Definition exw_nC : node := mkNode 103 4 3 7 30 1 SChecking 2.
Definition exw_heads : list val :=
  repeat (VPtr HNull) 27 ++ [VPtr (HPtr 3 0)] ++ repeat (VPtr HNull) 2 ++ [VPtr (HPtr 4 0)] ++ repeat (VPtr HNull) 42.
Definition exw_det_block (p : Z) : list val := [VInt 0; VInt p; VInt 0] ++ exw_heads ++ [VInt 1; VInt 4; VInt 0; VInt 0].
Definition exw_plugin (ig e fc : Z) : list val := [VPtr (HPtr 1 0); VInt ig; VInt 0; VInt e; VInt fc].
(* the heap as a function of what the plugin functions write: the plugin's three scalars, current_period_, the three period_ cells *)
Definition exw_heap_of (ig e fc p : Z) (sA sB sC : stamp) : heap :=
  [exw_plugin ig e fc; exw_det_block p; node_cells (set_period exw_nA sA) HNull; node_cells (set_period exw_nB sB) (HPtr 2 0);
   node_cells (set_period exw_nC sC) HNull].
Definition exw_heap : heap := exw_heap_of 0 0 0 2 SChecking SEnabled SChecking.

(* preTestAction with result.getFailureCount() = 5: buffer cleared, period checking (3), failureCount_ = 5 *)
Example exw_pre : src_plugin_preTestAction 200 exw_heap [] [5] 1 (HPtr 0 0) =
  FOk (tt, exw_heap_of 0 0 5 3 SChecking SEnabled SChecking, [PClearBuffer], [], 1).
Proof. vm_compute. reflexivity. Qed.
(* postTestAction: 2 leaks <> 0 expected, same failure count: the report and the failure; period enabled (2), both checking-period
   records (different buckets) re-stamped enabled, the enabled one untouched *)
Example exw_post : src_plugin_postTestAction 200 (exw_heap_of 0 0 5 3 SChecking SEnabled SChecking) [PClearBuffer] [5] 1 (HPtr 0 0) =
  FOk (tt, exw_heap_of 0 0 5 2 SEnabled SEnabled SEnabled, [PClearBuffer; PReport 3; PFailure], [], 1).
Proof. vm_compute. reflexivity. Qed.
(* the test failed by itself (count 6 <> 5): no leak failure, the count was read, records re-stamped all the same *)
Example exw_post_failed : src_plugin_postTestAction 200 (exw_heap_of 0 0 5 3 SChecking SEnabled SChecking) [] [6] 1 (HPtr 0 0) =
  FOk (tt, exw_heap_of 0 0 5 2 SEnabled SEnabled SEnabled, [], [], 1).
Proof. vm_compute. reflexivity. Qed.
(* IGNORE_ALL_LEAKS_IN_TEST: nothing reported, result.getFailureCount() not evaluated, flag cleared *)
Example exw_post_ignored : src_plugin_postTestAction 200 (exw_heap_of 1 0 5 3 SChecking SEnabled SChecking) [] [5] 1 (HPtr 0 0) =
  FOk (tt, exw_heap_of 0 0 5 2 SEnabled SEnabled SEnabled, [], [5], 1).
Proof. vm_compute. reflexivity. Qed.
(* EXPECT_N_LEAKS(2): as expected, expectedLeaks_ cleared *)
Example exw_post_expected : src_plugin_postTestAction 200 (exw_heap_of 0 2 5 3 SChecking SEnabled SChecking) [] [5] 1 (HPtr 0 0) =
  FOk (tt, exw_heap_of 0 0 5 2 SEnabled SEnabled SEnabled, [], [5], 1).
Proof. vm_compute. reflexivity. Qed.
(* new / delete not overloaded, 1 expected: the warning only *)
Example exw_post_not_overloaded : src_plugin_postTestAction 200 (exw_heap_of 0 1 5 3 SChecking SEnabled SChecking) [] [5] 0 (HPtr 0 0) =
  FOk (tt, exw_heap_of 0 0 5 2 SEnabled SEnabled SEnabled, [PWarn], [], 0).
Proof. vm_compute. reflexivity. Qed.
(* two checking-period records in the SAME bucket (173 -> 100): getNextLeak after the re-stamp of 173 starts from its next_ *)
Example exw_post_same_bucket : src_plugin_postTestAction 200 (exw_heap_of 0 0 5 3 SChecking SChecking SChecking) [] [5] 1 (HPtr 0 0) =
  FOk (tt, exw_heap_of 0 0 5 2 SEnabled SEnabled SEnabled, [PReport 3; PFailure], [], 1).
Proof. vm_compute. reflexivity. Qed.
Example exw_mark : src_det_markCheckingPeriodLeaksAsNonCheckingPeriod 200 exw_heap [] [] 1 (HPtr 1 0) =
  FOk (tt, exw_heap_of 0 0 0 2 SEnabled SEnabled SEnabled, [], [], 1).
Proof. vm_compute. reflexivity. Qed.
Example exw_total_checking : src_det_totalMemoryLeaks 200 exw_heap [] [] 1 (HPtr 1 0) 3 = FOk (2, exw_heap, [], [], 1).
Proof. vm_compute. reflexivity. Qed.
(* FinalReport: 3 records count for mem_leak_period_enabled *)
Example exw_final : src_plugin_FinalReport 200 exw_heap [] [] 1 (HPtr 0 0) 0 = FOk (1, exw_heap, [PReport 2], [], 1).
Proof. vm_compute. reflexivity. Qed.
Example exw_final_none : src_plugin_FinalReport 200 exw_heap [] [] 1 (HPtr 0 0) 3 = FOk (0, exw_heap, [], [], 1).
Proof. vm_compute. reflexivity. Qed.
Example exw_expect : src_plugin_expectLeaksInTest 200 exw_heap [] [] 1 (HPtr 0 0) 2 =
  FOk (tt, exw_heap_of 0 2 0 2 SChecking SEnabled SChecking, [], [], 1).
Proof. vm_compute. reflexivity. Qed.
Example exw_ignore : src_plugin_ignoreAllLeaksInTest 200 exw_heap [] [] 1 (HPtr 0 0) =
  FOk (tt, exw_heap_of 1 0 0 2 SChecking SEnabled SChecking, [], [], 1).
Proof. vm_compute. reflexivity. Qed.
(* too little fuel is reported, not turned into an answer *)
Example exw_post_nofuel : src_plugin_postTestAction 73 (exw_heap_of 0 0 5 3 SChecking SEnabled SChecking) [] [5] 1 (HPtr 0 0) = FNoFuel.
Proof. vm_compute. reflexivity. Qed.
(* an empty ghost stream where the code reads the count: an error *)
Example exw_post_nocount : src_plugin_postTestAction 200 (exw_heap_of 0 0 5 3 SChecking SEnabled SChecking) [] [] 1 (HPtr 0 0) = FOob.
Proof. vm_compute. reflexivity. Qed.

(* the hypotheses of the theorems are satisfiable: exw_heap represents a world whose table satisfies the invariant *)
Definition exw_bss : list (list nat) := repeat [] 27 ++ [[3; 2]%nat] ++ repeat [] 2 ++ [[4%nat]] ++ repeat [] 42.
Definition exw_t : table := repeat [] 27 ++ [[exw_nB; exw_nA]] ++ repeat [] 2 ++ [[exw_nC]] ++ repeat [] 42.
Definition exw_w : world := mkW (mkDet exw_t SEnabled 0 4) false 0 0 0 false.

Ltac exw_rest :=
  split; [repeat constructor; cbn; intuition discriminate|]; split; [repeat constructor; cbv; reflexivity|];
  split; [repeat constructor; cbn; lia|]; split; [cbn; intuition discriminate | cbn; lia].
Ltac exw_bucket :=
  first
  [ solve [ exists HNull; split; [reflexivity|]; split; [reflexivity|]; split; [constructor|]; split; [constructor|];
            split; [constructor|]; split; [vm_compute; tauto | cbn [exw_heap exw_heap_of length]; lia] ]
  | solve [ exists (HPtr 3 0); split; [reflexivity|]; split;
            [ change (chain exw_heap (HPtr 3 0) [3; 2]%nat [exw_nB; exw_nA]); cbn; split; [reflexivity|]; exists (HPtr 2 0);
              split; [reflexivity|]; split; [reflexivity|]; exists HNull; split; reflexivity
            | change (nth 27 exw_bss []) with [3; 2]%nat; change (nth 27 exw_t []) with [exw_nB; exw_nA]; exw_rest ] ]
  | solve [ exists (HPtr 4 0); split; [reflexivity|]; split;
            [ change (chain exw_heap (HPtr 4 0) [4%nat] [exw_nC]); cbn; split; [reflexivity|]; exists HNull; split; reflexivity
            | change (nth 30 exw_bss []) with [4%nat]; change (nth 30 exw_t []) with [exw_nC]; exw_rest ] ] ].
Example exw_table_at_off : table_at_off exw_heap 1 3 exw_bss exw_t.
Proof.
  split; [reflexivity|]. split; [reflexivity|]. split; [apply Nat.leb_le; reflexivity|]. split; [cbn [exw_heap exw_heap_of length]; lia|].
  change (concat exw_bss) with [3; 2; 4]%nat.
  split; [repeat constructor; cbn; intuition discriminate|]. split; [cbn; intuition discriminate|].
  intros i Hi. rewrite nbuckets_73 in Hi.
  do 73 (destruct i as [|i]; [exw_bucket|]). lia.
Qed.
Example exw_world_at : world_at exw_heap 0 1 exw_bss exw_w.
Proof.
  split; [exists 0; reflexivity|]. split; [cbn [exw_heap exw_heap_of length]; lia|].
  split; [split; [reflexivity|]; split; [reflexivity | exact exw_table_at_off]|].
  split; [discriminate|]. change (concat exw_bss) with [3; 2; 4]%nat. split; [cbn; intuition discriminate|].
  split; reflexivity.
Qed.
Example exw_inv : Inv (d_tbl (w_det exw_w)).
Proof.
  split; [reflexivity|]. split; [|repeat constructor; cbn; intuition discriminate].
  cbn [d_tbl w_det exw_w exw_t repeat app bucket_ok_from]. repeat (split; [repeat constructor|]). exact I.
Qed.
(* so the theorem speaks about the run evaluated above (the pre-action's world, failure count 0) *)
Example exw_post_by_theorem : exists h',
  src_plugin_postTestAction 200 exw_heap [] [0] 1 (HPtr 0 0) = FOk (tt, h', [PReport 3; PFailure], [], 1) /\
  world_at h' 0 1 exw_bss (fst (post_action exw_w)).
Proof.
  destruct (src_plugin_postTestAction_overloaded 200 exw_heap 0 1 exw_bss exw_w [] [] exw_world_at exw_inv) as [h' [E [Hw _]]];
    [vm_compute; lia | vm_compute; reflexivity|].
  exists h'. split; [exact E | exact Hw].
Qed.
