(* C18, mode 4 -- the ONE-TIME WARNING when the act of warning itself goes through the cache.
   printDeallocatingUnknownMemory sets hasWarnedAboutDeallocations and THEN prints through UtestShell::getCurrent()->print, i.e.
   into the current test's output.  An output that builds strings while printing (StringBufferTestOutput: `output += text`
   requests a new buffer of the new length and releases the old one) makes requests and releases on the cache from inside the
   release that warns; when its buffer predates the cache that inner release is itself a release of unknown memory.
   The print is the LAST thing dealloc does (releaseCachedBlockFrom / releaseNonCachedMemory end in it), so a history with such
   an output is a history of plain cache calls in which the output's calls follow the call that warned: `wcompile` writes that
   history down, the cache model of C18_Model runs it (`dealloc` sets the flag in `unknown_release`, i.e. BEFORE the
   output's own calls are processed).  Which release prints is decided from the scenario alone: a foreign pointer is
   never known, a release of a buffer in use with its own size always is, and only the first unknown release of the object
   prints.  No proofs in this file. *)
From Coq Require Import NArith Arith Bool List.
From CppUVerif Require Import gen.Gen_C18 C18_Model C18_ModelG C18_ModelE.
Import ListNotations.
Local Open Scope N_scope.

Inductive wop :=
| WAlloc (n : N)          (* a request of the test *)
| WRel (k : nat)          (* release of the k-th request of the scenario, with its size *)
| WFor (j n : N)          (* release of a buffer the cache never handed out, with size n *)
| WPrint.                 (* the test prints something itself *)
(* w_pre: the output's buffer was allocated BEFORE the cache came (foreign to it) / after (w_c0 bytes from the cache);
   w_g: bytes the buffer grows by at every print *)
Record wscenario := { w_pre : bool; w_c0 : N; w_g : N; w_ops : list wop }.

(* what the scenario alone determines: has the object warned, where the output's buffer is (None = the foreign one, Some i =
   the i-th request made on the cache), its size, requests made so far, the test's requests (index, size), print nesting
   reached, prints made *)
Record wc := { c_warned : bool; c_buf : option nat; c_size : N; c_na : nat; c_map : list (nat * N);
               c_depth : N; c_prints : N }.
Definition foreign_out : N := 7.

(* the output's printBuffer entered at nesting depth d: new buffer requested, old one released, then the new one becomes current.
   Releasing the foreign buffer while the object has not warned yet makes the cache print from inside that release: the
   nested print (depth d+1) sees the SAME old buffer, requests a buffer of its own, releases the old one again (now
   ignored silently) and makes its buffer current; the outer print then overwrites that with its own (as SimpleString::operator+=
   does: setInternalBufferTo after deallocateInternalBuffer) -- the nested buffer stays in use until the cache is cleared. *)
Definition out_print (g d : N) (c : wc) : list op * wc :=
  let newsz := c_size c + g in
  let i1 := c_na c in
  match c_buf c with
  | Some i =>
      ([OAlloc newsz; ODealloc i (c_size c)],
       {| c_warned := c_warned c; c_buf := Some i1; c_size := newsz; c_na := S i1; c_map := c_map c;
          c_depth := N.max (c_depth c) d; c_prints := c_prints c + 1 |})
  | None =>
      if c_warned c then
        ([OAlloc newsz; OForeign foreign_out (c_size c)],
         {| c_warned := true; c_buf := Some i1; c_size := newsz; c_na := S i1; c_map := c_map c;
            c_depth := N.max (c_depth c) d; c_prints := c_prints c + 1 |})
      else
        ([OAlloc newsz; OForeign foreign_out (c_size c); OAlloc newsz; OForeign foreign_out (c_size c)],
         {| c_warned := true; c_buf := Some i1; c_size := newsz; c_na := S (S i1); c_map := c_map c;
            c_depth := N.max (c_depth c) (d + 1); c_prints := c_prints c + 2 |})
  end.

Definition set_warned (c : wc) : wc :=
  {| c_warned := true; c_buf := c_buf c; c_size := c_size c; c_na := c_na c; c_map := c_map c;
     c_depth := c_depth c; c_prints := c_prints c |}.

Definition wstep (g : N) (c : wc) (o : wop) : list op * wc :=
  match o with
  | WAlloc n =>
      ([OAlloc n], {| c_warned := c_warned c; c_buf := c_buf c; c_size := c_size c; c_na := S (c_na c);
                      c_map := c_map c ++ [(c_na c, n)]; c_depth := c_depth c; c_prints := c_prints c |})
  | WRel k => match nth_error (c_map c) k with Some (i, n) => ([ODealloc i n], c) | None => ([], c) end
  | WFor j n =>
      if c_warned c then ([OForeign j n], c)
      else match out_print g 1 (set_warned c) with (l, c1) => (OForeign j n :: l, c1) end     (* the warning, printed *)
  | WPrint => out_print g 1 c
  end.
Fixpoint wsteps (g : N) (c : wc) (ops : list wop) : list op * wc :=
  match ops with
  | [] => ([], c)
  | o :: r => match wstep g c o with (l1, c1) => match wsteps g c1 r with (l2, c2) => (l1 ++ l2, c2) end end
  end.
Definition wc0 (s : wscenario) : list op * wc :=
  if w_pre s then ([], {| c_warned := false; c_buf := None; c_size := w_c0 s; c_na := 0; c_map := []; c_depth := 0; c_prints := 0 |})
  else ([OAlloc (w_c0 s)], {| c_warned := false; c_buf := Some O; c_size := w_c0 s; c_na := 1; c_map := []; c_depth := 0; c_prints := 0 |}).
(* at the end the output gives its buffer back (if it is one of the cache), then everything is cleared and the cache destroyed *)
Definition wclose (c : wc) : list op :=
  match c_buf c with Some i => [ODealloc i (c_size c)] | None => [] end ++ [OClearAll].
Definition wcompile (s : wscenario) : list op * wc :=
  match wc0 s with
  | (l0, c0) => match wsteps (w_g s) c0 (w_ops s) with (l1, c1) => (l0 ++ l1 ++ wclose c1, c1) end
  end.
Definition wflat (s : wscenario) : scenario := (1, fst (wcompile s)).

Record wobs := { wo_items : obs; wo_depth : N; wo_prints : N }.
Definition wrun (s : wscenario) : wobs :=
  {| wo_items := run (wflat s); wo_depth := c_depth (snd (wcompile s)); wo_prints := c_prints (snd (wcompile s)) |}.

Fixpoint wvalid_ops (nreq : nat) (rel : list nat) (ops : list wop) : bool :=
  match ops with
  | [] => true
  | WAlloc _ :: r => wvalid_ops (S nreq) rel r
  | WRel k :: r => (k <? nreq)%nat && negb (existsb (Nat.eqb k) rel) && wvalid_ops nreq (k :: rel) r
  | _ :: r => wvalid_ops nreq rel r
  end.
Definition wvalid (s : wscenario) : bool := (0 <? w_c0 s) && wvalid_ops 0 [] (w_ops s) && valid (wflat s).

(* the property on such a history: every call made on the cache -- by the test, by the output while it prints -- is judged by
   the oracle of the bare cache (no aliasing, capacity, class, books, and: an unknown release warns iff it is the first one
   of the object, so a second warning from inside the print is refused); the output was entered exactly as often as the test
   printed plus once for the one warning, nested at most once (depth 2 only for a print whose own release draws the warning) *)
Definition wspec (s : wscenario) (o : wobs) : bool :=
  spec (wflat s) (wo_items o) && (wo_depth o =? c_depth (snd (wcompile s))) && (wo_prints o =? c_prints (snd (wcompile s)))
  && (wo_depth o <=? 2).

Inductive zscenario := ZOld (y : yscenario) | ZWarn (w : wscenario).
Inductive zobs := ZOOld (o : yobs) | ZOWarn (o : wobs).
Definition zrun (s : zscenario) : zobs := match s with ZOld y => ZOOld (yrun y) | ZWarn w => ZOWarn (wrun w) end.
Definition zvalid (s : zscenario) : bool := match s with ZOld y => yvalid y | ZWarn w => wvalid w end.
Definition zspec (s : zscenario) (o : zobs) : bool :=
  match s, o with
  | ZOld y, ZOOld oy => yspec y oy
  | ZWarn w, ZOWarn ow => wspec w ow
  | _, _ => false
  end.

(* the red-team variant (flag set only AFTER the print): the release made by the print finds the flag still false, warns and
   prints again, and so on; cut off at nesting depth 3 as the harness does.  Written as the history of calls up to the cut. *)
Definition late_flag_items (n c0 g : N) : obs :=
  [item_of init_out;
   {| i_evs := []; i_ret := None; i_warn := true |};                                  (* :f n -- warns, prints (depth 1) *)
   {| i_evs := [EA 1 block_hdr_size; EA 2 (match cls (c0 + g) with Some k => k | None => c0 + g end)]; i_ret := Some (2, 0); i_warn := false |};
   {| i_evs := []; i_ret := None; i_warn := true |}].                                 (* the output's release warns AGAIN *)
