From Coq Require Import ExtrOcamlBasic ZArith.
From CppUVerif Require Import C07_Model C07_ModelM.
Extraction "c07_model.ml" C07_ModelM.mrun C07_ModelM.mspec C07_ModelM.mvalid BinInt.Z.of_N.
