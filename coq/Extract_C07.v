From Coq Require Import ExtrOcamlBasic ZArith.
From CppUVerif Require Import C07_Model.
Extraction "c07_model.ml" C07_Model.run C07_Model.spec C07_Model.valid BinInt.Z.of_N.
