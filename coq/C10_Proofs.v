(* C10 -- lemmas over the regenerated wiring tables (finite, by computation). *)
From Coq Require Import NArith Arith Bool List.
From CppUVerif Require Import C10_Wiring gen.Gen_C10 C10_Model.
Import ListNotations.

Lemma ts_wiring_ok : wiring_ok ts_table = true.
Proof. vm_compute. reflexivity. Qed.

Lemma default_wiring_same_actions : forallb (entry_unlocked_same default_table) all_entries = true.
Proof. vm_compute. reflexivity. Qed.

Lemma off_wiring_plain : forallb (entry_plain off_table) all_entries = true.
Proof. vm_compute. reflexivity. Qed.

Lemma dispatch_ok : forallb (fun p => entry_eqb (fst p) (snd p)) dispatch_table = true
                    /\ forallb (fun e => existsb (fun p => entry_eqb (fst p) e) dispatch_table) all_entries = true.
Proof. split; vm_compute; reflexivity. Qed.
