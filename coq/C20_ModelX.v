(* C20, second part of the model -- failures that are NOT produced by the check macros, under TeamCity output through the real runner:
   the TestFailure object with its four public constructors and the derived classes built on the short ones, the stages of a test
   (pre-test actions of plugins, setup, body, teardown, post-test actions) with exceptions, the harness' own plugin, MockSupportPlugin's
   unmet expectations, the leak plugin's report and a test run in a separate process; the registry loop over such tests; the
   model-free oracle `xspec`.  The writer (tc_step / tc_items), the pieces, the console path and the parser are those of C20_Model.v.
   No proofs here. *)
From Coq Require Import NArith Bool List.
From Coq Require String Ascii.
Import String.StringSyntax.
From CppUVerif Require Import lib.Str C16_Events C20_Model.
Import ListNotations.
Local Open Scope N_scope.

(* ------------------------------------------------------------------------------------------------------------
   The failure object (src/CppUTest/TestFailure.cpp): seven members, filled by one of four public constructors. *)
Record failure := { f_testName : bytes;      (* testName_: the formatted name "TEST(group, name)" *)
                    f_nameOnly : bytes;      (* testNameOnly_: what TeamCityTestOutput::printFailure prints as name='...' *)
                    f_file : bytes; f_line : N;          (* fileName_, lineNumber_: where the failure is reported *)
                    f_tfile : bytes; f_tline : N;        (* testFileName_, testLineNumber_: where the test is defined *)
                    f_msg : bytes }.                     (* message_ *)
(* how a failure object comes into being: the three constructors taking a shell (K2 (test, text), K3 (test, file, line),
   K4 (test, file, line, text)) and the two ways derived classes use the short ones: KD3 = built on the 3-argument constructor,
   text assigned afterwards (FailFailure, the CHECK / LONGS_EQUAL / ... family), KD2 = built on the 2-argument constructor, text
   assigned afterwards (the MockFailure family; UnexpectedExceptionFailure and the leak / separate-process failures are K2 itself) *)
Inductive fkind := K2 | K3 | K4 | KD3 | KD2.

Definition L_no_message := Eval vm_compute in B "no message"%string.
Definition L_TEST := Eval vm_compute in B "TEST"%string.
Definition L_IGNORE_TEST := Eval vm_compute in B "IGNORE_TEST"%string.
Definition L_base_text := Eval vm_compute in B "text of the base class, replaced by the derived class"%string.
(* UtestShell::getFormattedName: getMacroName() + "(" + group + ", " + name + ")" *)
Definition formatted_name (t : test) : bytes :=
  (if t_ignored t then L_IGNORE_TEST else L_TEST) ++ [40] ++ t_group t ++ [44; 32] ++ t_name t ++ [41].

Section Objects.
(* what the two-argument constructor stores in testNameOnly_: the code stores test->getName() (t_name); red-team change C20-1 of
   round 5 stores test->getFormattedName() *)
Variable short_name : test -> bytes.

Definition ctor4 (t : test) (file : bytes) (line : N) (msg : bytes) : failure :=
  {| f_testName := formatted_name t; f_nameOnly := t_name t; f_file := file; f_line := line;
     f_tfile := t_file t; f_tline := t_line t; f_msg := msg |}.
Definition ctor3 (t : test) (file : bytes) (line : N) : failure :=
  {| f_testName := formatted_name t; f_nameOnly := t_name t; f_file := file; f_line := line;
     f_tfile := t_file t; f_tline := t_line t; f_msg := L_no_message |}.
Definition ctor2 (t : test) (msg : bytes) : failure :=
  {| f_testName := formatted_name t; f_nameOnly := short_name t; f_file := t_file t; f_line := t_line t;
     f_tfile := t_file t; f_tline := t_line t; f_msg := msg |}.
Definition copy_ctor (f : failure) : failure :=
  {| f_testName := f_testName f; f_nameOnly := f_nameOnly f; f_file := f_file f; f_line := f_line f;
     f_tfile := f_tfile f; f_tline := f_tline f; f_msg := f_msg f |}.
Definition set_message (f : failure) (m : bytes) : failure :=
  {| f_testName := f_testName f; f_nameOnly := f_nameOnly f; f_file := f_file f; f_line := f_line f;
     f_tfile := f_tfile f; f_tline := f_tline f; f_msg := m |}.
Definition construct (k : fkind) (t : test) (file : bytes) (line : N) (msg : bytes) : failure :=
  match k with
  | K2 => ctor2 t msg
  | K3 => ctor3 t file line
  | K4 => ctor4 t file line msg
  | KD3 => set_message (ctor3 t file line) msg
  | KD2 => set_message (ctor2 t L_base_text) msg
  end.
Fixpoint copies (n : nat) (f : failure) : failure := match n with O => f | S k => copy_ctor (copies k f) end.
Definition make (k : fkind) (n : nat) (t : test) (file : bytes) (line : N) (msg : bytes) : failure := copies n (construct k t file line msg).
End Objects.

(* TeamCityTestOutput::printFailure reads the object through its getters: getTestNameOnly, isOutsideTestFile (testFileName_ !=
   fileName_), isInHelperFunction (lineNumber_ < testLineNumber_), getTestFileName, getTestLineNumber, getFileName,
   getFailureLineNumber, getMessage *)
Definition print_failure (pathseg : bytes -> seg) (f : failure) : pmsg :=
  {| pm_name := L_testFailed;
     pm_attrs := [(L_name, [Esc (f_nameOnly f)]);
                  (L_message,
                   (if negb (bytes_eqb (f_tfile f) (f_file f)) || (f_line f <? f_tline f)
                    then [Raw L_TEST_failed; pathseg (f_tfile f); Raw [58]; Raw (dec (f_tline f)); Raw L_close_colon] else [])
                   ++ [Esc (f_file f); Raw [58]; Raw (dec (f_line f))]);
                  (L_details, [Esc (f_msg f)])] |}.
(* the callback printFailure(failure) in the vocabulary of C16_Events: the event carries what the writer reads of the object *)
Definition shell_of_failure (f : failure) : test :=
  {| t_group := []; t_name := f_nameOnly f; t_file := f_tfile f; t_line := f_tline f; t_ignored := false; t_body := [] |}.
Definition ev_of_failure (f : failure) : ev := EFailure (shell_of_failure f) (f_file f) (f_line f) (f_msg f).

(* ------------------------------------------------------------------------------------------------------------
   Scripted tests with stages. *)
Inductive xstmt :=
| XFail (k : fkind) (ncopies : nat) (stop : bool) (file : bytes) (line : N) (msg : bytes)
    (* a failure object of kind k, copied ncopies times by the copy constructor; inside a test handed to UtestShell::addFailure
       (stop = false) or to failWith, which leaves the stage (stop = true); in a plugin action handed to TestResult::addFailure *)
| XThrow (std : bool) (what : bytes)      (* throw std::runtime_error(what) / throw 42: leaves the stage *)
| XExpect (fname : bytes)                 (* mock().expectOneCall(fname), never fulfilled *)
| XUnexpected (fname : bytes)             (* mock().actualCall(fname) that nothing expects *)
| XLeak (size : N).                       (* a block allocated on the leak plugin's detector and not released during the test *)

(* x_sep: 0 = run in this process; otherwise the shell is run in a separate process (-p) whose child 1 exits with 0, 2 exits with 1,
   3 is killed by a signal; nothing of the test happens in this process then *)
Record xtest := { x_group : bytes; x_name : bytes; x_file : bytes; x_line : N; x_ignored : bool; x_sep : N;
                  x_pre : list xstmt; x_setup : list xstmt; x_body : list xstmt; x_teardown : list xstmt; x_post : list xstmt }.
Definition shell (xt : xtest) : test :=
  {| t_group := x_group xt; t_name := x_name xt; t_file := x_file xt; t_line := x_line xt; t_ignored := x_ignored xt; t_body := [] |}.
Definition xarm (ri : bool) (xt : xtest) : xtest :=     (* if (runIgnored_) test->setRunIgnored(); *)
  if ri then {| x_group := x_group xt; x_name := x_name xt; x_file := x_file xt; x_line := x_line xt; x_ignored := false; x_sep := x_sep xt;
               x_pre := x_pre xt; x_setup := x_setup xt; x_body := x_body xt; x_teardown := x_teardown xt; x_post := x_post xt |}
  else xt.

(* verbosity and the plugins installed besides the harness' own: MockSupportPlugin, MemoryLeakWarningPlugin (installed last, as
   CommandLineTestRunner does: its pre-action runs first, its post-action last) *)
Record xcfg := { g_verb : N; g_mock : bool; g_leak : bool }.

(* texts the library writes itself; only the ones of UnexpectedExceptionFailure and of the separate-process failures are the library's
   wording, the mock and leak reports are stand-ins (nothing below depends on the wording; checks/C20.py does not compare it) *)
Definition L_exc_std := Eval vm_compute in B "Unexpected exception of type 'std::runtime_error' was thrown: "%string.
Definition L_exc_unknown := Eval vm_compute in B "Unexpected exception of unknown type was thrown."%string.
Definition L_mock_unexpected := Eval vm_compute in B "Mock Failure: Unexpected call to function: "%string.
Definition L_mock_expected := Eval vm_compute in B "Mock Failure: Expected call WAS NOT fulfilled."%string.
Definition L_leak := Eval vm_compute in B "Memory leak(s) found."%string.
Definition L_sep_failed := Eval vm_compute in B "Failed in separate process"%string.
Definition L_sep_signal := Eval vm_compute in B "Failed in separate process - killed by signal 11"%string.
Definition text_exception (std : bool) (what : bytes) : bytes := if std then L_exc_std ++ what else L_exc_unknown.
Definition text_expected (pending : list bytes) : bytes := L_mock_expected ++ flat_map (fun n => [10; 9; 9] ++ n) pending.
Definition text_sep (code : N) : bytes := if code =? 2 then L_sep_failed else L_sep_signal.

(* what the run of one test keeps track of: UtestShell::hasFailed_; whether a failure has reached the TestResult since the leak
   plugin's pre-action (failureCount_ != result.getFailureCount()); the expected mock calls not fulfilled; whether a block is
   still allocated on the leak plugin's detector *)
Record tstate := { q_failed : bool; q_any : bool; q_pending : list bytes; q_leaked : bool }.
Definition q_start : tstate := {| q_failed := false; q_any := false; q_pending := []; q_leaked := false |}.
Definition q_fail (shell_level : bool) (q : tstate) : tstate :=
  {| q_failed := q_failed q || shell_level; q_any := true; q_pending := q_pending q; q_leaked := q_leaked q |}.

Definition nonempty {A} (l : list A) : bool := match l with [] => false | _ => true end.

Section Run.
Variable short_name : test -> bytes.
Variable cfg : xcfg.

(* setup / body / teardown of the scripted Utest: the failure objects that reach the TestResult in order, the state, and whether the
   stage ran to its end (false: left by failWith's or the statement's exception, which Utest::run catches) *)
Fixpoint stage_run (sh : test) (ss : list xstmt) (q : tstate) : list failure * tstate * bool :=
  match ss with
  | [] => ([], q, true)
  | XFail k n stop file line msg :: r =>
      let f := make short_name k n sh file line msg in
      if stop then ([f], q_fail true q, false)
      else let '(fs, q', c) := stage_run sh r (q_fail true q) in (f :: fs, q', c)
  | XThrow std what :: _ =>               (* current->addFailure(UnexpectedExceptionFailure(current [, e])) in the catch clauses of Utest::run *)
      ([make short_name K2 0 sh [] 0 (text_exception std what)], q_fail true q, false)
  | XExpect fname :: r =>
      stage_run sh r {| q_failed := q_failed q; q_any := q_any q; q_pending := q_pending q ++ [fname]; q_leaked := q_leaked q |}
  | XUnexpected fname :: r =>             (* MockFailureReporter::failTest: if (!getTestToFail()->hasFailed()) failWith(failure) *)
      if q_failed q then stage_run sh r q
      else ([make short_name KD2 0 sh [] 0 (L_mock_unexpected ++ fname)], q_fail true q, false)
  | XLeak _ :: r =>
      stage_run sh r {| q_failed := q_failed q; q_any := q_any q; q_pending := q_pending q; q_leaked := true |}
  end.
(* pre / post action of the harness' own plugin: TestFailure f(&test, ...); result.addFailure(f) -- UtestShell::hasFailed_ is not touched *)
Fixpoint plugin_run (sh : test) (ss : list xstmt) (q : tstate) : list failure * tstate :=
  match ss with
  | [] => ([], q)
  | XFail k n _ file line msg :: r => let '(fs, q') := plugin_run sh r (q_fail false q) in (make short_name k n sh file line msg :: fs, q')
  | _ :: r => plugin_run sh r q
  end.

(* UtestShell::runOneTestInCurrentProcess for a test that is run: the failure objects by the place they come from *)
Record trun := { r_pre : list failure; r_setup : list failure; r_setup_done : bool; r_body : list failure; r_body_done : bool;
                 r_teardown : list failure; r_teardown_done : bool; r_post : list failure; r_mock : list failure; r_leak : list failure }.
Definition test_trun (xt : xtest) : trun :=
  let sh := shell xt in
  let '(f_pre, q1) := plugin_run sh (x_pre xt) q_start in                       (* runAllPreTestAction: leak, mock (nothing reported), own *)
  let '(f_su, q2, c_su) := stage_run sh (x_setup xt) q1 in
  let '(f_bo, q3, c_bo) := if c_su then stage_run sh (x_body xt) q2 else ([], q2, false) in
  let '(f_td, q4, c_td) := stage_run sh (x_teardown xt) q3 in
  let '(f_po, q5) := plugin_run sh (x_post xt) q4 in                            (* runAllPostTestAction: own, ... *)
  let f_mk := if g_mock cfg && negb (q_failed q5) && nonempty (q_pending q5)
              then [make short_name KD2 0 sh [] 0 (text_expected (q_pending q5))] else [] in      (* ... MockSupportPlugin: if (!test.hasFailed()) mock().checkExpectations() ... *)
  let any6 := q_any q5 || nonempty f_mk in
  let f_lk := if g_leak cfg && q_leaked q5 && negb any6
              then [make short_name K2 0 sh [] 0 L_leak] else [] in                               (* ... MemoryLeakWarningPlugin *)
  {| r_pre := f_pre; r_setup := f_su; r_setup_done := c_su; r_body := f_bo; r_body_done := c_su && c_bo;
     r_teardown := f_td; r_teardown_done := c_td; r_post := f_po; r_mock := f_mk; r_leak := f_lk |}.
Definition trun_failures (r : trun) : list failure := r_pre r ++ r_setup r ++ r_body r ++ r_teardown r ++ r_post r ++ r_mock r ++ r_leak r.

(* the progress texts of very verbose mode, by the place they are printed at *)
Definition vt (l : list bytes) : list ev := if g_verb cfg =? 2 then map EPrint l else [].
Definition vv_a : list bytes := Eval vm_compute in firstn 1 vv_pre.                (* before runAllPreTestAction *)
Definition vv_b : list bytes := Eval vm_compute in firstn 5 (skipn 1 vv_pre).      (* after runAllPreTestAction .. before setup *)
Definition vv_c : list bytes := Eval vm_compute in skipn 6 vv_pre.                 (* after setup, before body *)
Definition vv_d : list bytes := [vv_after_body].
Definition vv_e : list bytes := Eval vm_compute in firstn 1 vv_tail.               (* before teardown *)
Definition vv_f : list bytes := Eval vm_compute in firstn 1 (skipn 1 vv_tail).     (* after teardown *)
Definition vv_g : list bytes := Eval vm_compute in firstn 4 (skipn 2 vv_tail).     (* after runTest .. before runAllPostTestAction *)
Definition vv_h : list bytes := Eval vm_compute in skipn 6 vv_tail.                (* after runAllPostTestAction *)
Definition F (l : list failure) : list ev := map ev_of_failure l.
Definition trun_events (r : trun) : list ev :=
  vt vv_a ++ F (r_pre r) ++ vt vv_b ++ F (r_setup r) ++ (if r_setup_done r then vt vv_c else []) ++ F (r_body r)
  ++ (if r_body_done r then vt vv_d else []) ++ vt vv_e ++ F (r_teardown r) ++ (if r_teardown_done r then vt vv_f else [])
  ++ vt vv_g ++ F (r_post r) ++ F (r_mock r) ++ F (r_leak r) ++ vt vv_h.

(* the failure of a test run in a separate process, as the parent reports it (SetTestFailureByStatusCode) *)
Definition sep_failures (xt : xtest) : list failure :=
  if x_sep xt =? 1 then [] else [make short_name K2 0 (shell xt) [] 0 (text_sep (x_sep xt))].

(* currentTestStarted; runOneTest; currentTestEnded -- of a shell as the registry armed it; and how often its body is entered *)
Definition xtest_events (xt : xtest) : list ev :=
  let sh := shell xt in
  if x_ignored xt then [ETestStart sh; ETestEnd 0]
  else if 0 <? x_sep xt then ETestStart sh :: F (sep_failures xt) ++ [ETestEnd 0]
  else ETestStart sh :: trun_events (test_trun xt) ++ [ETestEnd 0].
Definition xtest_exec (xt : xtest) : N :=
  if x_ignored xt then 0 else if 0 <? x_sep xt then 0 else if r_setup_done (test_trun xt) then 1 else 0.

(* TestRegistry::runAllTests *)
Definition xselected (fs : list bytes) (xt : xtest) : bool :=
  match fs with [] => true | _ => existsb (bytes_eqb (x_name xt)) fs end.
Definition xend_of_group (xt : xtest) (rest : list xtest) : bool :=
  match rest with [] => true | n :: _ => negb (bytes_eqb (x_group xt) (x_group n)) end.
Fixpoint xreg_loop (ri : bool) (fs : list bytes) (groupStart : bool) (xts : list xtest) : list ev :=
  match xts with
  | [] => []
  | xt :: rest =>
      let xt' := xarm ri xt in
      (if groupStart then [EGroupStart (shell xt')] else []) ++ (if xselected fs xt' then xtest_events xt' else []) ++
      (if xend_of_group xt' rest then EGroupEnd :: xreg_loop ri fs true rest else xreg_loop ri fs false rest)
  end.
Definition xpass_exec (ri : bool) (fs : list bytes) (xts : list xtest) : list N :=
  map (fun xt => let xt' := xarm ri xt in if xselected fs xt' then xtest_exec xt' else 0) xts.
Fixpoint xpasses_events (ri : bool) (fs : list bytes) (passes : nat) (xts : list xtest) : list ev :=
  match passes with
  | O => []
  | S k => xreg_loop ri fs true xts ++ xpasses_events ri fs k (map (xarm ri) xts)
  end.
Fixpoint xpasses_exec (ri : bool) (fs : list bytes) (passes : nat) (xts : list xtest) : list N :=
  match passes with
  | O => []
  | S k => xpass_exec ri fs xts ++ xpasses_exec ri fs k (map (xarm ri) xts)
  end.
End Run.

Record xscenario := { xs_dur : N; xs_ri : bool; xs_passes : nat; xs_filters : list bytes; xs_tests : list xtest;
                      xs_verb : N; xs_sink : N; xs_mock : bool; xs_leak : bool }.
Definition xs_cfg (s : xscenario) : xcfg := {| g_verb := xs_verb s; g_mock := xs_mock s; g_leak := xs_leak s |}.
Definition xrun_events_with (short_name : test -> bytes) (s : xscenario) : list ev :=
  xpasses_events short_name (xs_cfg s) (xs_ri s) (xs_filters s) (xs_passes s) (xs_tests s).
Definition xrun_pieces_with (short_name : test -> bytes) (s : xscenario) : list bytes :=
  flat_map item_pieces (tc_items Esc true (xs_dur s) tc_init (xrun_events_with short_name s)).
Definition xrun_exec (s : xscenario) : list N := xpasses_exec t_name (xs_cfg s) (xs_ri s) (xs_filters s) (xs_passes s) (xs_tests s).
Definition xrun_with (short_name : test -> bytes) (s : xscenario) : obs :=
  {| o_stream := sink_stream (xs_sink s) (xrun_pieces_with short_name s); o_exec := xrun_exec s |}.
Definition xrun : xscenario -> obs := xrun_with t_name.                        (* the code *)
Definition xrun_formatted : xscenario -> obs := xrun_with formatted_name.      (* red-team change C20-1 of round 5 *)
Definition xrun_pieces : xscenario -> list bytes := xrun_pieces_with t_name.

(* ------------------------------------------------------------------------------------------------------------
   What the property demands of such a run, read off the parsed stream (no writer function, no failure object below). *)
(* what is demanded of the text of a failure: the scenario's own text exactly; for a text the library composes, that it carries the
   given pieces (the what() of the exception, the names of the calls) -- the wording is the library's business *)
Inductive req := RExact (m : bytes) | RHas (l : list bytes).
Definition want := (bytes * N * req)%type.       (* file and line the failure is reported at, its text *)
Definition req_ok (r : req) (v : bytes) : bool :=
  match r with RExact m => bytes_eqb v m | RHas l => forallb (contains v) l end.
(* loc = file and line of the test *)
Definition xloc (xt : xtest) : bytes * N := (x_file xt, x_line xt).
Definition want_of_fail (loc : bytes * N) (k : fkind) (file : bytes) (line : N) (msg : bytes) : want :=
  match k with
  | K2 | KD2 => (fst loc, snd loc, RExact msg)        (* no location given: the test's own *)
  | K3 => (file, line, RExact L_no_message)
  | K4 | KD3 => (file, line, RExact msg)
  end.
Definition lib_want (loc : bytes * N) (l : list bytes) : want := (fst loc, snd loc, RHas l).
(* one stage of a test: the failures it reports in order, the expected calls it leaves unfulfilled, whether it leaks, whether it
   runs to its end; failed = the test has failed before (an unexpected mock call is then not reported and does not end the stage) *)
Fixpoint stage_want (xt : bytes * N) (failed : bool) (ss : list xstmt) : list want * list bytes * bool * bool :=
  match ss with
  | [] => ([], [], false, true)
  | XFail k _ stop file line msg :: r =>
      let w := want_of_fail xt k file line msg in
      if stop then ([w], [], false, false)
      else let '(ws, p, l, c) := stage_want xt true r in (w :: ws, p, l, c)
  | XThrow std what :: _ => ([lib_want xt (if std then [what] else [])], [], false, false)
  | XExpect fname :: r => let '(ws, p, l, c) := stage_want xt failed r in (ws, fname :: p, l, c)
  | XUnexpected fname :: r => if failed then stage_want xt failed r else ([lib_want xt [fname]], [], false, false)
  | XLeak _ :: r => let '(ws, p, _, c) := stage_want xt failed r in (ws, p, true, c)
  end.
Fixpoint plugin_want (xt : bytes * N) (ss : list xstmt) : list want :=
  match ss with
  | [] => []
  | XFail k _ _ file line msg :: r => want_of_fail xt k file line msg :: plugin_want xt r
  | _ :: r => plugin_want xt r
  end.
(* the failures of a test that is run, and how often its body is entered: in a separate process nothing but the parent's report of a
   child that did not exit with 0; otherwise pre-actions, setup, the body unless setup was left early, teardown, post-actions; then
   the mock plugin reports the unfulfilled expectations unless setup / body / teardown reported a failure; then the leak plugin
   reports the leak unless anything at all was reported *)
Definition test_want (cfg : xcfg) (xt : xtest) : list want * N :=
  let loc := xloc xt in
  if 0 <? x_sep xt then ((if x_sep xt =? 1 then [] else [lib_want loc []]), 0)
  else
    let pre := plugin_want loc (x_pre xt) in
    let '(su, p1, l1, c1) := stage_want loc false (x_setup xt) in
    let '(bo, p2, l2, c2) := if c1 then stage_want loc (nonempty su) (x_body xt) else ([], [], false, false) in
    let '(td, p3, l3, c3) := stage_want loc (nonempty (su ++ bo)) (x_teardown xt) in
    let po := plugin_want loc (x_post xt) in
    let pending := p1 ++ p2 ++ p3 in
    let mk := if g_mock cfg && negb (nonempty (su ++ bo ++ td)) && nonempty pending then [lib_want loc pending] else [] in
    let before := pre ++ su ++ bo ++ td ++ po ++ mk in
    let lk := if g_leak cfg && (l1 || l2 || l3) && negb (nonempty before) then [lib_want loc []] else [] in
    (before ++ lk, if c1 then 1 else 0).

(* one testFailed message against one demanded failure of test xt: it names the test by its bare name, the details value is / carries
   the demanded text, the location value ends with file:line of the failure and, when that is outside the test's file or above the
   test's line, also carries file:line of the test *)
Definition xfailure_ok (xt : xtest) (w : want) (m : message) : bool :=
  let '(file, line, r) := w in
  is_msg L_testFailed m && attr_is L_name m (x_name xt)
  && match get_attr L_details m with Some v => req_ok r v | None => false end
  && match get_attr L_message m with
     | Some v => ends_with v (loc_text file line)
                 && (if negb (bytes_eqb (x_file xt) file) || (line <? x_line xt) then contains v (loc_text (x_file xt) (x_line xt)) else true)
     | None => false
     end.
Fixpoint xtake_failures (xt : xtest) (ws : list want) (ms : list message) : option (list message) :=
  match ws with
  | [] => Some ms
  | w :: wr => match ms with
               | m :: r => if xfailure_ok xt w m then xtake_failures xt wr r else None
               | [] => None
               end
  end.
Definition xruns (ri : bool) (xt : xtest) : bool := negb (x_ignored xt) || ri.
Definition xis_flag (xt : xtest) (m : message) : bool := is_msg L_testIgnored m && attr_is L_name m (x_name xt).
(* the messages of one selected test and the observed number c of entries into its body: started; flagged (testIgnored) iff ignored and
   not run; a flagged test has no testFailed and c = 0; any other test has one testFailed per demanded failure, in order, and c as
   demanded; finished *)
Definition xtake_test (cfg : xcfg) (ri : bool) (xt : xtest) (c : N) (ms : list message) : option (list message) :=
  match ms with
  | m :: r =>
      if is_msg L_testStarted m && attr_is L_name m (x_name xt) then
        let '(flagged, r1) := match r with
                              | i :: r' => if xis_flag xt i then (true, r') else (false, r)
                              | [] => (false, r)
                              end in
        let '(ws, ex) := test_want cfg xt in
        if Bool.eqb flagged (negb (xruns ri xt)) && (c =? (if flagged then 0 else ex)) then
          match xtake_failures xt (if flagged then [] else ws) r1 with
          | Some (e :: r2) => if is_msg L_testFinished e && attr_is L_name e (x_name xt) then Some r2 else None
          | _ => None
          end
        else None
      else None
  | [] => None
  end.
(* one pass over the registered tests: a suite bracket opens in front of a test that has no predecessor of the same group name
   (first) and closes behind a test that has no successor of it, whether or not the filters select any test in between; the counts
   go with the registered tests, the messages with the selected ones *)
Fixpoint xtake_pass (cfg : xcfg) (ri : bool) (fs : list bytes) (first : bool) (xts : list xtest) (cs : list N) (ms : list message)
  : option (list N * list message) :=
  match xts with
  | [] => Some (cs, ms)
  | xt :: rest =>
      match (if first then match ms with
                           | m :: r => if is_msg L_testSuiteStarted m && attr_is L_name m (x_group xt) then Some r else None
                           | [] => None
                           end
             else Some ms) with
      | None => None
      | Some ms1 =>
          match cs with
          | [] => None
          | c :: cr =>
              match (if xselected fs xt then xtake_test cfg ri xt c ms1 else if c =? 0 then Some ms1 else None) with
              | None => None
              | Some ms2 =>
                  if xend_of_group xt rest then
                    match ms2 with
                    | e :: r => if is_msg L_testSuiteFinished e && attr_is L_name e (x_group xt) then xtake_pass cfg ri fs true rest cr r else None
                    | [] => None
                    end
                  else xtake_pass cfg ri fs false rest cr ms2
              end
          end
      end
  end.
Fixpoint xtake_passes (cfg : xcfg) (ri : bool) (fs : list bytes) (passes : nat) (xts : list xtest) (cs : list N) (ms : list message) : bool :=
  match passes with
  | O => match cs, ms with [], [] => true | _, _ => false end
  | S k => match xtake_pass cfg ri fs true xts cs ms with
           | Some (cs', ms') => xtake_passes cfg ri fs k xts cs' ms'
           | None => false
           end
  end.
Definition xspec_msgs (s : xscenario) (cs : list N) (ms : list message) : bool :=
  balanced ms && xtake_passes (xs_cfg s) (xs_ri s) (xs_filters s) (xs_passes s) (xs_tests s) cs ms.
Definition xspec (s : xscenario) (o : obs) : bool :=
  match parse_for (xs_verb s) (o_stream o) with
  | Some ms => xspec_msgs s (o_exec o) ms
  | None => false
  end.

(* the ordinals (over all failures of the run, in order) of the failures whose text the library composes: checks/C20.py blanks the
   details value of those before it compares the model's observation with the implementation's *)
Fixpoint marks_from (i : N) (ws : list want) : list N :=
  match ws with
  | [] => []
  | (_, _, RHas _) :: r => i :: marks_from (i + 1) r
  | _ :: r => marks_from (i + 1) r
  end.
Definition xrun_wants (s : xscenario) : list want :=
  flat_map (fun xt => if xselected (xs_filters s) xt && xruns (xs_ri s) xt then fst (test_want (xs_cfg s) xt) else [])
           (concat (repeat (xs_tests s) (xs_passes s))).
Definition xrun_marks (s : xscenario) : list N := marks_from 0 (xrun_wants s).

(* scenarios the harness can hand to the real code *)
Definition ok_fail_stmt (in_plugin : bool) (s : xstmt) : bool :=
  match s with
  | XFail _ n stop file line msg => cstring file && (line <=? max_size) && cstring msg && Nat.leb n 64 && negb (in_plugin && stop)
  | XThrow _ what => negb in_plugin && cstring what
  | XExpect fname | XUnexpected fname => negb in_plugin && cstring fname
  | XLeak size => negb in_plugin && (1 <=? size) && (size <=? 65536)
  end.
Definition expected_names (ss : list xstmt) : list bytes := flat_map (fun s => match s with XExpect n => [n] | _ => [] end) ss.
Definition unexpected_names (ss : list xstmt) : list bytes := flat_map (fun s => match s with XUnexpected n => [n] | _ => [] end) ss.
Definition uses_mock (ss : list xstmt) : bool := existsb (fun s => match s with XExpect _ | XUnexpected _ => true | _ => false end) ss.
Definition x_stages (xt : xtest) : list xstmt := x_setup xt ++ x_body xt ++ x_teardown xt.
Definition xoktest (mock : bool) (xt : xtest) : bool :=
  cstring (x_group xt) && cstring (x_name xt) && cstring (x_file xt) && (x_line xt <=? max_size) && (x_sep xt <=? 3)
  && forallb (ok_fail_stmt true) (x_pre xt ++ x_post xt) && forallb (ok_fail_stmt false) (x_stages xt)
  && (mock || negb (uses_mock (x_stages xt)))
  (* an actual call that some expectation of the test names would fulfil it: not in the scenarios *)
  && forallb (fun u => negb (existsb (bytes_eqb u) (expected_names (x_stages xt)))) (unexpected_names (x_stages xt)).
Definition xvalid (s : xscenario) : bool :=
  (xs_dur s <=? max_size) && (xs_verb s <=? 2) && (xs_sink s <=? 2) && forallb cstring (xs_filters s) && forallb (xoktest (xs_mock s)) (xs_tests s).

(* ------------------------------------------------------------------------------------------------------------
   The scenarios of C20_Model.v are the ones without stages, plugins and separate processes: addFailure(FailFailure(...)) and fail()
   are the derived class on the three-argument constructor. *)
Definition embed_stmt (s : stmt) : list xstmt :=
  match s with
  | SPrint _ => []
  | SFail f l m => [XFail KD3 0 false f l m]
  | SFailStop f l m => [XFail KD3 0 true f l m]
  end.
Definition embed_test (t : test) : xtest :=
  {| x_group := t_group t; x_name := t_name t; x_file := t_file t; x_line := t_line t; x_ignored := t_ignored t; x_sep := 0;
     x_pre := []; x_setup := []; x_body := flat_map embed_stmt (t_body t); x_teardown := []; x_post := [] |}.
Definition embed (s : scenario) : xscenario :=
  {| xs_dur := s_dur s; xs_ri := s_ri s; xs_passes := s_passes s; xs_filters := s_filters s; xs_tests := map embed_test (s_tests s);
     xs_verb := s_verb s; xs_sink := s_sink s; xs_mock := false; xs_leak := false |}.
