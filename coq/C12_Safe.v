(* C12 -- memory safety: the parser on C buffers with bounds-checked primitives (C12_Checked.v) returns, on every valid vector,
   Ok of what the textbook-level parser returns: no read outside a buffer (Oob), no loop out of fuel, no int overflow. *)
From Coq Require Import String Ascii.
From Coq Require Import NArith ZArith Bool List Lia ZifyBool Arith.
From CppUVerif Require Import gen.Gen_C12 lib.Str C13_Text C13_Alloc C13_Model C13_Proofs C12_Model C12_Proofs C12_Checked.
Import ListNotations.
Local Open Scope N_scope.

Definition BYTES (s : list N) : Prop := Forall (fun c => c < 256) s.
(* the buffer b holds the C string s *)
Definition holds (b : list N) (s : bytes) : Prop := exists r, b = s ++ 0 :: r /\ NN s.
Lemma holds_cs s : NN s -> holds (cs s) s.
Proof. intro H. exists []. split; [reflexivity | exact H]. Qed.
Lemma cstr_of_holds b : forall s, cstr_of b = Some s -> holds b s.
Proof.
  induction b as [|c b IH]; intros s H; cbn in H; [discriminate|].
  destruct (N.eqb_spec c 0) as [E|E].
  - inversion H. subst. exists b. split; [reflexivity | constructor].
  - destruct (cstr_of b) as [t|] eqn:C; [|discriminate]. cbn in H. inversion H. subst s.
    destruct (IH t eq_refl) as [r [-> Ht]]. exists r. split; [reflexivity|]. constructor; assumption.
Qed.
Lemma newFrom_holds b s : holds b s -> newFrom b = Ok (cs s).
Proof. intros [r [-> H]]. apply newFrom_ok. exact H. Qed.
Lemma StrLen_holds b s : holds b s -> StrLen b = Ok (length s).
Proof. intros [r [-> H]]. apply StrLen_ok. exact H. Qed.
Lemma str_of_holds b s : holds b s -> str_of b = Ok s.
Proof. intros [r [-> H]]. unfold str_of. rewrite cstr_of_cs by exact H. reflexivity. Qed.
Lemma equal_holds a s b t : holds a s -> holds b t -> equal_m a b = Ok (bytes_eqb s t).
Proof. intros [r [-> H]] [r2 [-> H2]]. apply equal_ok; assumption. Qed.
Lemma startsWith_holds a s b t : holds a s -> holds b t -> startsWith_m a b = Ok (is_prefix t s).
Proof. intros [r [-> H]] [r2 [-> H2]]. apply startsWith_ok; assumption. Qed.
Lemma sstring_ok l : NN l -> sstring l = Ok (cs l).
Proof. intro H. unfold sstring. apply newFrom_holds. apply holds_cs. exact H. Qed.
Lemma rd_holds b s : holds b s -> rd b = Ok (at0 s).
Proof. intros [r [-> H]]. destruct s; reflexivity. Qed.

(* ---------------------------------------------------------------- character classes on (signed) char vs on bytes *)
Lemma isSpace_byte c : c < 256 -> isSpace c = is_space c.
Proof. intro H. unfold isSpace, is_space, sc. destruct (c <? 128) eqn:E; lia. Qed.
Lemma isDigit_byte c : c < 256 -> isDigit c = is_digit c.
Proof. intro H. unfold isDigit, is_digit, sc. destruct (c <? 128) eqn:E; lia. Qed.

(* ---------------------------------------------------------------- AtoI / AtoU *)
Lemma skip_space_ok s r : BYTES s -> skip_space (s ++ 0 :: r) = Ok (skip_spaces s ++ 0 :: r).
Proof.
  induction s as [|c s IH]; intro HB.
  - reflexivity.
  - inversion HB; subst. cbn [app skip_space skip_spaces]. rewrite isSpace_byte by assumption.
    destruct (is_space c); [apply IH; assumption | reflexivity].
Qed.
Lemma skip_spaces_bytes s : BYTES s -> BYTES (skip_spaces s).
Proof. induction s as [|c s IH]; intro HB; cbn; [constructor|]. inversion HB; subst. destruct (is_space c); auto. Qed.
Lemma digits_val_ge u : forall acc, acc <= digits_val acc u.
Proof.
  induction u as [|c u IH]; intro acc; cbn; [lia|]. destruct (is_digit c) eqn:D; [|lia].
  specialize (IH (acc * 10 + (c - 48))). unfold is_digit in D. lia.
Qed.
Lemma digits_val_bound u : forall acc, digits_val acc u < (acc + 1) * 10 ^ N.of_nat (digit_run u).
Proof.
  induction u as [|c u IH]; intro acc; cbn [digits_val digit_run].
  - cbn. lia.
  - destruct (is_digit c) eqn:D; [|cbn; lia].
    specialize (IH (acc * 10 + (c - 48))). rewrite Nat2N.inj_succ, N.pow_succ_r'.
    unfold is_digit in D. eapply N.lt_le_trans; [exact IH|].
    assert (acc * 10 + (c - 48) + 1 <= (acc + 1) * 10) by lia.
    replace ((acc + 1) * (10 * 10 ^ N.of_nat (digit_run u))) with ((acc + 1) * 10 * 10 ^ N.of_nat (digit_run u)) by lia.
    apply N.mul_le_mono_r. exact H.
Qed.
Lemma atoi_loop_ok u r : BYTES u -> forall acc, (Z.of_N (digits_val acc u) <= INT_MAX)%Z ->
  atoi_loop (u ++ 0 :: r) (Z.of_N acc) = Ok (Z.of_N (digits_val acc u)).
Proof.
  intro HB. induction u as [|c u IH]; intros acc L.
  - reflexivity.
  - inversion HB; subst. cbn [app atoi_loop digits_val] in *. rewrite isDigit_byte by assumption.
    destruct (is_digit c) eqn:D; [|reflexivity].
    assert (E : (Z.of_N acc * 10 + (Z.of_N c - 48))%Z = Z.of_N (acc * 10 + (c - 48))) by (unfold is_digit in D; lia).
    rewrite E. pose proof (digits_val_ge u (acc * 10 + (c - 48))) as G.
    replace (INT_MAX <? Z.of_N (acc * 10 + (c - 48)))%Z with false by lia. apply IH; assumption.
Qed.
Lemma AtoI_ok s r : BYTES s -> Nat.leb (digit_run (atoi_digits s)) 9 = true -> AtoI (s ++ 0 :: r) = Ok (atoi s).
Proof.
  intros HB L. unfold AtoI, atoi. rewrite skip_space_ok by exact HB. cbn [bind].
  unfold atoi_digits in *. pose proof (skip_spaces_bytes s HB) as Bt. destruct (skip_spaces s) as [|c t].
  - reflexivity.
  - cbn [app rd bind]. inversion Bt; subst.
    assert (BD : forall u, BYTES u -> Nat.leb (digit_run u) 9 = true -> (Z.of_N (digits_val 0 u) <= INT_MAX)%Z).
    { intros u _ Lu. pose proof (digits_val_bound u 0) as Bd. apply Nat.leb_le in Lu.
      assert (10 ^ N.of_nat (digit_run u) <= 10 ^ 9) by (apply N.pow_le_mono_r; lia). unfold INT_MAX. lia. }
    destruct ((c =? 45) || (c =? 43)) eqn:Sg.
    + change (c :: t ++ 0 :: r) with ((c :: t) ++ 0 :: r). rewrite adv_cs by (cbn; lia). cbn [skipn bind].
      change 0%Z with (Z.of_N 0). rewrite atoi_loop_ok; [reflexivity | assumption | apply BD; assumption].
    + cbn [bind]. change (c :: t ++ 0 :: r) with ((c :: t) ++ 0 :: r). change 0%Z with (Z.of_N 0).
      rewrite atoi_loop_ok; [| assumption | apply BD; assumption]. cbn [bind]. replace (c =? 45) with false by lia. reflexivity.
Qed.

Fixpoint dvm (acc : N) (u : bytes) : N :=
  match u with c :: r => if is_digit c then dvm ((acc * 10 + (c - 48)) mod 4294967296) r else acc | [] => acc end.
Lemma atou_loop_ok u r : BYTES u -> forall acc, atou_loop (u ++ 0 :: r) (Z.of_N acc) = Ok (Z.of_N (dvm acc u)).
Proof.
  intro HB. induction u as [|c u IH]; intro acc.
  - reflexivity.
  - inversion HB; subst. cbn [app atou_loop dvm]. rewrite isDigit_byte by assumption.
    destruct (is_digit c) eqn:D; [|reflexivity].
    replace (48 <=? sc c)%Z with true by (unfold is_digit in D; unfold sc; destruct (c <? 128) eqn:E; lia). cbn [andb].
    assert (E : ((Z.of_N acc * 10 + (Z.of_N c - 48)) mod UINT_MOD)%Z = Z.of_N ((acc * 10 + (c - 48)) mod 4294967296)).
    { unfold UINT_MOD. rewrite N2Z.inj_mod. f_equal. unfold is_digit in D. lia. }
    rewrite E. apply IH. assumption.
Qed.
Lemma dvm_congr u : forall a b, a mod 4294967296 = b mod 4294967296 -> dvm a u mod 4294967296 = digits_val b u mod 4294967296.
Proof.
  induction u as [|c u IH]; intros a b E; cbn; [exact E|]. destruct (is_digit c); [|exact E]. apply IH.
  rewrite N.mod_mod by lia. rewrite (N.add_mod (a * 10)), (N.add_mod (b * 10)) by lia.
  rewrite (N.mul_mod a), (N.mul_mod b) by lia. rewrite E. reflexivity.
Qed.
Lemma dvm_small u : forall a, a < 4294967296 -> dvm a u < 4294967296.
Proof. induction u as [|c u IH]; intros a L; cbn; [exact L|]. destruct (is_digit c); [|exact L]. apply IH. apply N.mod_lt. lia. Qed.
Lemma AtoU_ok s r : BYTES s -> AtoU (s ++ 0 :: r) = Ok (Z.of_N (atou s)).
Proof.
  intro HB. unfold AtoU, atou. rewrite skip_space_ok by exact HB. cbn [bind]. change 0%Z with (Z.of_N 0).
  rewrite atou_loop_ok by (apply skip_spaces_bytes; exact HB). do 2 f_equal.
  rewrite <- (dvm_congr (skip_spaces s) 0 0 eq_refl). symmetry. apply N.mod_small. apply dvm_small. lia.
Qed.

(* ---------------------------------------------------------------- getParameterField *)
Lemma cs_app s : cs s = s ++ 0 :: [].
Proof. reflexivity. Qed.
Lemma param_field_ok lit a nx : NN lit -> NN a -> (forall n, nx = Some n -> NN n) ->
  param_field_m lit (cs a) (option_map cs nx) = Ok (cs (fst (param_field (length lit) a nx)), snd (param_field (length lit) a nx))
  /\ NN (fst (param_field (length lit) a nx)).
Proof.
  intros Hl Ha Hn. unfold param_field_m, param_field. rewrite sstring_ok by exact Hl. cbn [bind].
  rewrite (StrLen_holds _ lit (holds_cs lit Hl)). cbn [bind]. rewrite (newFrom_holds _ a (holds_cs a Ha)). cbn [bind].
  rewrite (StrLen_holds _ a (holds_cs a Ha)). cbn [bind]. destruct (Nat.ltb (length lit) (length a)) eqn:L.
  - apply Nat.ltb_lt in L. rewrite cs_app, adv_cs by lia. cbn [bind]. rewrite newFrom_ok by (apply NN_skipn; exact Ha).
    cbn [bind fst snd]. split; [reflexivity | apply NN_skipn; exact Ha].
  - destruct nx as [n|]; cbn [option_map].
    + rewrite (newFrom_holds _ n (holds_cs n (Hn n eq_refl))). cbn [bind fst snd]. split; [reflexivity | apply Hn; reflexivity].
    + unfold emptyString. change [0] with (([] : list N) ++ 0 :: []). rewrite (newFrom_ok [] []) by constructor.
      cbn [bind fst snd]. split; [reflexivity | constructor].
Qed.

(* ---------------------------------------------------------------- find / subString on textbook lists *)
Lemma t_index_find_idx ch s : t_index ch s = find_idx ch s.
Proof. induction s as [|c r IH]; cbn; [reflexivity|]. rewrite IH. reflexivity. Qed.
Lemma t_skipN_nat b s : t_skipN (N.of_nat b) s = skipn b s.
Proof.
  unfold t_skipN. destruct (N.of_nat (length s) <=? N.of_nat b) eqn:E.
  - symmetry. apply skipn_all2. lia.
  - rewrite Nat2N.id. reflexivity.
Qed.
Lemma t_takeN_nat n s : t_takeN (N.of_nat n) s = firstn n s.
Proof.
  unfold t_takeN. destruct (N.of_nat (length s) <=? N.of_nat n) eqn:E.
  - symmetry. apply firstn_all2. lia.
  - rewrite Nat2N.id. reflexivity.
Qed.
Lemma t_takeN_npos s : N.of_nat (length s) < NPOS -> t_takeN NPOS s = s.
Proof. intro L. unfold t_takeN. replace (N.of_nat (length s) <=? NPOS) with true by lia. reflexivity. Qed.
Lemma find_idx_lt ch s i : find_idx ch s = Some i -> (i < length s)%nat.
Proof.
  revert i. induction s as [|c r IH]; intros i H; cbn in H; [discriminate|]. destruct (c =? ch).
  - inversion H. cbn. lia.
  - destruct (find_idx ch r) as [j|]; [|discriminate]. cbn in H. inversion H. specialize (IH j eq_refl). cbn. lia.
Qed.
Lemma subString_holds b s bp n : holds b s -> exists buf, subString_m b (N.of_nat bp) (N.of_nat n) = Ok buf /\ holds buf (firstn n (skipn bp s)).
Proof.
  intros [r [-> H]]. destruct (subString_ok s r (N.of_nat bp) (N.of_nat n) H) as [buf [E C]]. exists buf. split; [exact E|].
  apply cstr_of_holds. rewrite C. unfold t_substr. rewrite t_skipN_nat, t_takeN_nat. reflexivity.
Qed.
Lemma subString_npos_holds b s bp : holds b s -> N.of_nat (length s) < NPOS ->
  exists buf, subString_m b (N.of_nat bp) NPOS = Ok buf /\ holds buf (skipn bp s).
Proof.
  intros [r [-> H]] L. destruct (subString_ok s r (N.of_nat bp) NPOS H) as [buf [E C]]. exists buf. split; [exact E|].
  apply cstr_of_holds. rewrite C. unfold t_substr. rewrite t_skipN_nat, t_takeN_npos; [reflexivity|].
  rewrite skipn_length. lia.
Qed.
Lemma find_holds b s ch : holds b s -> find_m b ch = Ok (option_map N.of_nat (find_idx ch s)).
Proof.
  intros [r [-> H]]. unfold find_m. rewrite findFrom_ok by exact H. unfold t_find_from. change 0 with (N.of_nat 0).
  rewrite t_skipN_nat. cbn [skipn]. rewrite t_index_find_idx. destruct (find_idx ch s); reflexivity.
Qed.
Lemma findFrom_holds b s bp ch : holds b s ->
  findFrom_m b (N.of_nat bp) ch = Ok (option_map N.of_nat (find_from bp ch s)).
Proof.
  intros [r [-> H]]. rewrite findFrom_ok by exact H. unfold t_find_from, find_from. rewrite t_skipN_nat, t_index_find_idx.
  destruct (find_idx ch (skipn bp s)); cbn; [|reflexivity]. do 2 f_equal. lia.
Qed.
Lemma find_from_ge bp ch s ep : find_from bp ch s = Some ep -> (bp <= ep)%nat.
Proof. unfold find_from. destruct (find_idx ch (skipn bp s)); cbn; intro H; inversion H. lia. Qed.
Lemma fromTill_holds b s c1 c2 : holds b s -> N.of_nat (length s) < NPOS ->
  exists buf, subStringFromTill_m b c1 c2 = Ok buf /\ holds buf (sub_from_till c1 c2 s).
Proof.
  intros Hb L. unfold subStringFromTill_m, sub_from_till. rewrite (find_holds b s c1 Hb). cbn [bind].
  destruct (find_idx c1 s) as [bp|] eqn:F; cbn [option_map].
  - rewrite (findFrom_holds b s bp c2 Hb). cbn [bind]. destruct (find_from bp c2 s) as [ep|] eqn:G; cbn [option_map].
    + pose proof (find_from_ge bp c2 s ep G) as Ge. replace (N.of_nat ep - N.of_nat bp) with (N.of_nat (ep - bp)) by lia.
      apply subString_holds. exact Hb.
    + apply subString_npos_holds; assumption.
  - exists [0]. split; [apply (newFrom_ok [] []); constructor | apply (holds_cs []); constructor].
Qed.

(* ---------------------------------------------------------------- split(".") *)
Lemma find_sub_single d s : find_sub s [d] = find_idx d s.
Proof.
  induction s as [|c r IH]; cbn; [reflexivity|]. rewrite (N.eqb_sym d c). destruct (c =? d); cbn; [reflexivity|].
  rewrite IH. reflexivity.
Qed.
Lemma count_find d s :
  match find_idx d s with
  | None => t_count s [d] = 0%nat
  | Some off => t_count s [d] = S (t_count (skipn (S off) s) [d])
  end.
Proof.
  induction s as [|c r IH]; cbn [find_idx t_count]; [reflexivity|]. cbn [is_prefix]. rewrite (N.eqb_sym d c).
  destruct (c =? d); cbn [andb].
  - reflexivity.
  - destruct (find_idx d r) as [off|]; cbn [option_map]; cbn; exact IH.
Qed.
Lemma find_idx_split d s off : find_idx d s = Some off ->
  exists pre post, s = pre ++ d :: post /\ without d pre = true /\ length pre = off.
Proof.
  revert off. induction s as [|c r IH]; intros off H; cbn in H; [discriminate|]. destruct (N.eqb_spec c d) as [E|E].
  - inversion H. subst. exists [], r. repeat split.
  - destruct (find_idx d r) as [j|]; [|discriminate]. cbn in H. inversion H. subst off.
    destruct (IH j eq_refl) as [pre [post [-> [W L]]]]. exists (c :: pre), post. repeat split.
    + cbn. apply N.eqb_neq in E. rewrite E. exact W.
    + cbn. lia.
Qed.
Lemma firstn_S_app {A} (pre : list A) d post : firstn (S (length pre)) (pre ++ d :: post) = pre ++ [d].
Proof.
  replace (pre ++ d :: post) with ((pre ++ [d]) ++ post) by (rewrite <- app_assoc; reflexivity).
  replace (S (length pre)) with (length (pre ++ [d])) by (rewrite app_length; cbn; lia). apply firstn_app_len.
Qed.
Lemma skipn_S_app {A} (pre : list A) d post : skipn (S (length pre)) (pre ++ d :: post) = post.
Proof.
  replace (pre ++ d :: post) with ((pre ++ [d]) ++ post) by (rewrite <- app_assoc; reflexivity).
  replace (S (length pre)) with (length (pre ++ [d])) by (rewrite app_length; cbn; lia). apply skipn_app_len.
Qed.
Fixpoint cut (n : nat) (d : N) (s : bytes) : list bytes * bytes :=
  match n with
  | O => ([], s)
  | S n' => match find_idx d s with
            | Some off => (firstn (S off) s :: fst (cut n' d (skipn (S off) s)), snd (cut n' d (skipn (S off) s)))
            | None => ([], s)
            end
  end.
Lemma split_loop_ok d : d <> 0 -> forall n s r acc, NN s -> t_count s [d] = n ->
  exists bufs, split_loop (s ++ 0 :: r) (cs [d]) n acc = Ok (rev acc ++ bufs, snd (cut n d s) ++ 0 :: r)
               /\ Forall2 holds bufs (fst (cut n d s)).
Proof.
  intro Dnz. assert (Hd : NN [d]) by (constructor; [exact Dnz | constructor]).
  induction n as [|n IH]; intros s r acc Hs Cn.
  - exists []. cbn. rewrite app_nil_r. split; [reflexivity | constructor].
  - cbn [split_loop cut]. rewrite cs_app, StrStr_ok by assumption. cbn [bind]. rewrite find_sub_single.
    pose proof (count_find d s) as CF. destruct (find_idx d s) as [off|] eqn:F; [|congruence].
    pose proof (find_idx_lt d s off F) as Lt. rewrite adv_cs by lia. cbn [bind].
    rewrite newFrom_ok by exact Hs. cbn [bind].
    destruct (subString_holds (s ++ [0]) s 0 (S off) (holds_cs s Hs)) as [buf [E Hb]]. cbn [skipn] in Hb.
    change (N.of_nat 0) with 0 in E. rewrite E. cbn [bind].
    destruct (IH (skipn (S off) s) r (buf :: acc) (NN_skipn _ _ Hs) ltac:(congruence)) as [bufs [E2 F2]].
    exists (buf :: bufs). cbn [fst snd]. split.
    + rewrite <- (cs_app [d]). rewrite E2. cbn [rev]. rewrite <- app_assoc. reflexivity.
    + constructor; assumption.
Qed.
Lemma count0_without d s : t_count s [d] = 0%nat -> without d s = true.
Proof.
  induction s as [|c r IH]; cbn [t_count]; intro H; [reflexivity|]. cbn [is_prefix] in H. cbn. rewrite (N.eqb_sym c d).
  destruct (d =? c); cbn in *; [discriminate | apply IH; lia].
Qed.
Lemma cut_split_go d n : forall s, t_count s [d] = n ->
  split_go d s = fst (cut n d s) ++ split_go d (snd (cut n d s)) /\ without d (snd (cut n d s)) = true.
Proof.
  induction n as [|n IH]; intros s Cn.
  - cbn. split; [reflexivity | apply count0_without; exact Cn].
  - cbn [cut]. pose proof (count_find d s) as CF. destruct (find_idx d s) as [off|] eqn:F; [|congruence].
    destruct (find_idx_split d s off F) as [pre [post [-> [W L]]]]. subst off. rewrite skipn_S_app in *. rewrite firstn_S_app.
    cbn [fst snd]. destruct (IH post ltac:(congruence)) as [G W2]. split; [|exact W2].
    rewrite (split_go_piece d pre post W). rewrite G. reflexivity.
Qed.
Lemma cut_NN d n : forall s, NN s -> NN (snd (cut n d s)).
Proof.
  induction n as [|n IH]; intros s H; cbn [cut]; [exact H|]. destruct (find_idx d s); [|exact H]. cbn [snd]. apply IH. apply NN_skipn. exact H.
Qed.
Definition ew (d : N) (s : bytes) : bool := t_ends_with s [d].
Lemma ew_app d pre post : ew d (pre ++ d :: post) = match post with [] => true | _ => ew d post end.
Proof.
  unfold ew, t_ends_with. cbn [rev app]. rewrite rev_app_distr. cbn [rev]. rewrite <- app_assoc. cbn [app].
  destruct post as [|x post].
  - cbn. rewrite N.eqb_refl. reflexivity.
  - destruct (rev (x :: post)) as [|y t] eqn:R.
    + apply (f_equal (@length N)) in R. rewrite rev_length in R. discriminate R.
    + reflexivity.
Qed.
Lemma without_ew d s : without d s = true -> ew d s = false.
Proof.
  intro W. unfold ew, t_ends_with. cbn [rev app]. destruct (rev s) as [|y t] eqn:R; [reflexivity|]. cbn.
  assert (I : In y s) by (apply in_rev; rewrite R; left; reflexivity).
  unfold without in W. rewrite forallb_forall in W. specialize (W y I). rewrite (N.eqb_sym d y).
  destruct (y =? d); [discriminate | reflexivity].
Qed.
Lemma cut_ew d n : forall s, t_count s [d] = n ->
  ew d s = match snd (cut n d s) with [] => negb (Nat.eqb n 0) | _ :: _ => false end.
Proof.
  induction n as [|n IH]; intros s Cn.
  - cbn [cut snd Nat.eqb negb]. destruct s as [|c r]; [reflexivity|]. apply without_ew. apply count0_without. exact Cn.
  - cbn [cut]. pose proof (count_find d s) as CF. destruct (find_idx d s) as [off|] eqn:F; [|congruence].
    destruct (find_idx_split d s off F) as [pre [post [-> [W L]]]]. subst off. rewrite skipn_S_app in *. cbn [snd Nat.eqb negb].
    rewrite ew_app. assert (Cp : t_count post [d] = n) by congruence. rewrite (IH post Cp) . destruct post as [|x post].
    + cbn in Cp. subst n. reflexivity.
    + destruct (snd (cut n d (x :: post))) eqn:S; [|reflexivity]. destruct n; [cbn in S; discriminate S | reflexivity].
Qed.
Lemma split_incl_cut d s : let pr := cut (t_count s [d]) d s in
  split_incl d s = if ew d s then fst pr else fst pr ++ [snd pr].
Proof.
  cbn zeta. destruct (cut_split_go d _ s eq_refl) as [G W]. rewrite (cut_ew d _ s eq_refl).
  destruct s as [|c r]; [reflexivity|]. unfold split_incl. rewrite G.
  destruct (snd (cut (t_count (c :: r) [d]) d (c :: r))) as [|y t] eqn:S.
  - destruct (t_count (c :: r) [d]) eqn:Cn; [cbn in S; discriminate S|]. cbn. apply app_nil_r.
  - rewrite split_go_plain; [reflexivity | exact W | discriminate].
Qed.
Lemma split_holds v s : holds v s -> exists col, split_m v (cs [46]) = Ok col /\ Forall2 holds col (split_incl 46 s).
Proof.
  intros [r [-> Hs]]. assert (Hd : NN [46]) by (constructor; [lia | constructor]).
  unfold split_m. rewrite cs_app, count_ok by assumption. cbn [bind]. rewrite endsWith_ok by assumption. cbn [bind].
  destruct (split_loop_ok 46 ltac:(lia) (t_count s [46]) s r [] Hs eq_refl) as [bufs [E F]]. rewrite <- cs_app, E. cbn [bind rev app fst snd].
  rewrite split_incl_cut. cbn zeta. unfold ew. destruct (t_ends_with s [46]).
  - exists bufs. split; [reflexivity | exact F].
  - pose proof (cut_NN 46 (t_count s [46]) s Hs) as Hr. rewrite newFrom_ok by exact Hr. cbn [bind].
    eexists. split; [reflexivity|]. apply Forall2_app; [exact F|]. constructor; [apply holds_cs; exact Hr | constructor].
Qed.
Lemma split_go_shape d s : Forall (fun p => p <> [] /\ (length p <= length s)%nat) (split_go d s).
Proof.
  induction s as [|c r IH]; cbn; [constructor|]. destruct (c =? d).
  - constructor; [split; [discriminate | cbn; lia]|]. eapply Forall_impl; [|exact IH]. cbn. intros p [A Bd]. split; [exact A | lia].
  - destruct (split_go d r) as [|t ts]; [constructor; [split; [discriminate | cbn; lia] | constructor]|].
    inversion IH; subst. constructor; [split; [discriminate | cbn; lia]|]. eapply Forall_impl; [|eassumption]. cbn. intros p [A Bd]. split; [exact A | lia].
Qed.

(* ---------------------------------------------------------------- the handlers *)
Lemma arg_ok_facts a : arg_ok a = true ->
  NN a /\ BYTES a /\ Nat.leb (digit_run (atoi_digits a)) 9 = true /\ Nat.leb (digit_run (atoi_digits (skipn 2 a))) 9 = true /\
  N.of_nat (length a) < 4294967296.
Proof.
  unfold arg_ok. intro H. repeat (apply andb_true_iff in H; destruct H as [H ?]).
  repeat split; try assumption; try lia.
  - apply nonul_NN. exact H.
  - apply nonul_bytes. exact H.
Qed.
Lemma BYTES_skipn k s : BYTES s -> BYTES (skipn k s).
Proof. intro H. unfold BYTES in *. rewrite <- (firstn_skipn k s) in H. apply Forall_app in H. tauto. Qed.
Definition next_ok (nx : option bytes) : Prop := forall n, nx = Some n -> arg_ok n = true.
Lemma next_NN nx : next_ok nx -> forall n, nx = Some n -> NN n.
Proof. intros H n E. apply (arg_ok_facts n (H n E)). Qed.

Lemma set_repeat_count_ok c a nx : arg_ok a = true -> next_ok nx ->
  set_repeat_count_m c (cs a) (option_map cs nx) = Ok (set_repeat_count c a nx).
Proof.
  intros Ha Hn. destruct (arg_ok_facts a Ha) as [Na [Ba [_ [D2 _]]]]. unfold set_repeat_count_m, set_repeat_count.
  rewrite (newFrom_holds _ a (holds_cs a Na)). cbn [bind]. rewrite (StrLen_holds _ a (holds_cs a Na)). cbn [bind].
  destruct (Nat.ltb 2 (length a)) eqn:L.
  - apply Nat.ltb_lt in L. rewrite cs_app, adv_cs by lia. cbn [bind]. rewrite AtoI_ok; [reflexivity | apply BYTES_skipn; exact Ba | exact D2].
  - destruct nx as [n|]; cbn [option_map]; [|reflexivity]. destruct (arg_ok_facts n (Hn n eq_refl)) as [_ [Bn [D1 _]]].
    rewrite cs_app, AtoI_ok by assumption. reflexivity.
Qed.
Lemma set_shuffle_ok tm c a nx : arg_ok a = true -> next_ok nx ->
  set_shuffle_m tm c (cs a) (option_map cs nx) = Ok (set_shuffle tm c a nx).
Proof.
  intros Ha Hn. destruct (arg_ok_facts a Ha) as [Na [Ba _]]. unfold set_shuffle_m, set_shuffle.
  rewrite (newFrom_holds _ a (holds_cs a Na)). cbn [bind]. rewrite (StrLen_holds _ a (holds_cs a Na)). cbn [bind].
  destruct (Nat.ltb 2 (length a)) eqn:L.
  - apply Nat.ltb_lt in L. rewrite cs_app, adv_cs by lia. cbn [bind]. rewrite AtoU_ok by (apply BYTES_skipn; exact Ba).
    cbn [bind]. rewrite N2Z.id. reflexivity.
  - destruct nx as [n|]; cbn [option_map]; [|reflexivity]. destruct (arg_ok_facts n (Hn n eq_refl)) as [_ [Bn _]].
    rewrite cs_app, AtoU_ok by assumption. cbn [bind]. rewrite N2Z.id. destruct (atou n =? 0); reflexivity.
Qed.
Lemma add_filter_ok g st iv lit c a nx : NN lit -> arg_ok a = true -> next_ok nx ->
  add_filter_m g st iv lit c (cs a) (option_map cs nx) = Ok (add_filter g st iv (length lit) c a nx).
Proof.
  intros Hl Ha Hn. destruct (arg_ok_facts a Ha) as [Na _]. unfold add_filter_m, add_filter.
  destruct (param_field_ok lit a nx Hl Na (next_NN nx Hn)) as [E Nv]. rewrite E. cbn [bind fst snd].
  destruct (param_field (length lit) a nx) as [v used]. cbn [fst snd] in *.
  rewrite (newFrom_holds _ v (holds_cs v Nv)). cbn [bind]. rewrite (str_of_holds _ v (holds_cs v Nv)). reflexivity.
Qed.
Lemma param_field_len n a nx : N.of_nat (length a) < 4294967296 -> (forall x, nx = Some x -> N.of_nat (length x) < 4294967296) ->
  N.of_nat (length (fst (param_field n a nx))) < 4294967296.
Proof.
  intros La Ln. unfold param_field. destruct (Nat.ltb n (length a)); cbn [fst].
  - rewrite skipn_length. lia.
  - destruct nx as [x|]; cbn [fst]; [apply Ln; reflexivity | cbn; lia].
Qed.
Lemma next_len nx : next_ok nx -> forall x, nx = Some x -> N.of_nat (length x) < 4294967296.
Proof. intros H x E. apply (arg_ok_facts x (H x E)). Qed.
Lemma add_group_dot_name_ok st iv lit c a nx : NN lit -> arg_ok a = true -> next_ok nx ->
  add_group_dot_name_m st iv lit c (cs a) (option_map cs nx) = Ok (add_group_dot_name st iv (length lit) c a nx).
Proof.
  intros Hl Ha Hn. destruct (arg_ok_facts a Ha) as [Na [_ [_ [_ La]]]]. unfold add_group_dot_name_m, add_group_dot_name.
  destruct (param_field_ok lit a nx Hl Na (next_NN nx Hn)) as [E Nv]. rewrite E. cbn [bind fst snd].
  pose proof (param_field_len (length lit) a nx La (next_len nx Hn)) as Lv.
  destruct (param_field (length lit) a nx) as [v used]. cbn [fst snd] in *.
  rewrite sstring_ok by (constructor; [lia | constructor]). cbn [bind].
  destruct (split_holds (cs v) v (holds_cs v Nv)) as [col [Es F]]. rewrite Es. cbn [bind].
  assert (Sh : Forall (fun p => p <> [] /\ (length p <= length v)%nat) (split_incl 46 v) \/ v = []).
  { destruct v; [right; reflexivity | left; apply split_go_shape]. }
  destruct (split_incl 46 v) as [|p0 [|p1 [|p2 ps]]] eqn:Sp.
  - inversion F; subst. reflexivity.
  - inversion F as [|t0 ? l1 ? Ht0 F1]; subst. inversion F1; subst. reflexivity.
  - inversion F as [|t0 ? l1 ? Ht0 F1]; subst. inversion F1 as [|t1 ? l2 ? Ht1 F2]; subst. inversion F2; subst.
    destruct Sh as [Sh|Sh]; [|subst v; cbn in Sp; discriminate Sp]. inversion Sh as [|? ? [NE Le] ?]; subst.
    rewrite (StrLen_holds _ p0 Ht0). cbn [bind].
    assert (Ea : (N.of_nat (length p0) + NPOS) mod SIZE_MOD = N.of_nat (length p0 - 1)).
    { destruct p0 as [|x p0]; [congruence|]. cbn [length] in *. unfold NPOS, SIZE_MOD.
      replace (N.of_nat (S (length p0)) + (18446744073709551616 - 1)) with (N.of_nat (length p0) + 1 * 18446744073709551616) by lia.
      rewrite N.mod_add by lia. rewrite N.mod_small by lia. f_equal. lia. }
    rewrite Ea. destruct (subString_holds _ p0 0 (length p0 - 1) Ht0) as [buf [E2 Hb]]. change (N.of_nat 0) with 0 in E2. rewrite E2. cbn [bind].
    cbn [skipn] in Hb. rewrite (str_of_holds _ _ Hb). cbn [bind]. rewrite (str_of_holds _ _ Ht1). reflexivity.
  - inversion F as [|t0 ? l1 ? Ht0 F1]; subst. inversion F1 as [|t1 ? l2 ? Ht1 F2]; subst. inversion F2 as [|t2 ? l3 ? Ht2 F3]; subst. reflexivity.
Qed.
Lemma sub_from_till_len c1 c2 s : (length (sub_from_till c1 c2 s) <= length s)%nat.
Proof.
  unfold sub_from_till. destruct (find_idx c1 s) as [bp|]; [|cbn; lia]. destruct (find_from bp c2 s) as [ep|].
  - rewrite firstn_length, skipn_length. lia.
  - rewrite skipn_length. lia.
Qed.
Lemma add_verbose_test_ok lit c a nx : NN lit -> arg_ok a = true -> next_ok nx ->
  add_verbose_test_m (fun t => subString_m t 2 NPOS) lit c (cs a) (option_map cs nx) = Ok (add_verbose_test (length lit) c a nx).
Proof.
  intros Hl Ha Hn. destruct (arg_ok_facts a Ha) as [Na [_ [_ [_ La]]]]. unfold add_verbose_test_m, add_verbose_test.
  destruct (param_field_ok lit a nx Hl Na (next_NN nx Hn)) as [E Nv]. rewrite E. cbn [bind fst snd].
  pose proof (param_field_len (length lit) a nx La (next_len nx Hn)) as Lv.
  destruct (param_field (length lit) a nx) as [w used]. cbn [fst snd] in *.
  assert (Lw : N.of_nat (length w) < NPOS) by (unfold NPOS, SIZE_MOD; lia).
  destruct (fromTill_holds (cs w) w 44 41 (holds_cs w Nv) Lw) as [t [Et Ht]]. rewrite Et. cbn [bind].
  pose proof (sub_from_till_len 44 41 w) as Lt.
  destruct (subString_npos_holds t _ 2 Ht ltac:(unfold NPOS, SIZE_MOD in *; lia)) as [tn [En Hn2]].
  change (N.of_nat 2) with 2 in En. rewrite En. cbn [bind]. rewrite (str_of_holds _ _ Hn2). cbn [bind].
  rewrite (rd_holds _ w (holds_cs w Nv)). cbn [bind].
  destruct (fromTill_holds (cs w) w (at0 w) 44 (holds_cs w Nv) Lw) as [g [Eg Hg]]. rewrite Eg. cbn [bind].
  rewrite (str_of_holds _ _ Hg). reflexivity.
Qed.
Lemma lookup_output_ok tbl v : Forall (fun r => NN (fst r)) tbl -> NN v ->
  lookup_output_m tbl (cs v) = Ok (lookup_output tbl v).
Proof.
  intros F Hv. induction tbl as [|[n k] r IH]; [reflexivity|]. inversion F; subst. cbn [lookup_output_m lookup_output fst] in *.
  rewrite sstring_ok by assumption. cbn [bind]. rewrite (equal_holds _ v _ n (holds_cs v Hv) (holds_cs n H1)). cbn [bind].
  destruct (bytes_eqb v n); [reflexivity | apply IH; assumption].
Qed.
Lemma outputs_NN : Forall (fun r => NN (fst r)) c12_outputs.
Proof. unfold c12_outputs. repeat constructor; cbn; lia. Qed.
Lemma set_output_type_ok lit c a nx : NN lit -> arg_ok a = true -> next_ok nx ->
  set_output_type_m lit c (cs a) (option_map cs nx) = Ok (set_output_type (length lit) c a nx).
Proof.
  intros Hl Ha Hn. destruct (arg_ok_facts a Ha) as [Na _]. unfold set_output_type_m, set_output_type.
  destruct (param_field_ok lit a nx Hl Na (next_NN nx Hn)) as [E Nv]. rewrite E. cbn [bind fst snd].
  destruct (param_field (length lit) a nx) as [v used]. cbn [fst snd] in *.
  rewrite (StrLen_holds _ v (holds_cs v Nv)). cbn [bind]. destruct v as [|x v]; [reflexivity|]. cbn [length Nat.eqb].
  rewrite (lookup_output_ok _ _ outputs_NN Nv). cbn [bind]. destruct (lookup_output c12_outputs (x :: v)); reflexivity.
Qed.
Lemma set_package_name_ok lit c a nx : NN lit -> arg_ok a = true -> next_ok nx ->
  set_package_name_m lit c (cs a) (option_map cs nx) = Ok (set_package_name (length lit) c a nx).
Proof.
  intros Hl Ha Hn. destruct (arg_ok_facts a Ha) as [Na _]. unfold set_package_name_m, set_package_name.
  destruct (param_field_ok lit a nx Hl Na (next_NN nx Hn)) as [E Nv]. rewrite E. cbn [bind fst snd].
  destruct (param_field (length lit) a nx) as [v used]. cbn [fst snd] in *.
  rewrite (StrLen_holds _ v (holds_cs v Nv)). cbn [bind]. destruct v as [|x v]; [reflexivity|]. cbn [length Nat.eqb].
  rewrite (str_of_holds _ _ (holds_cs _ Nv)). reflexivity.
Qed.

(* ---------------------------------------------------------------- dispatch, loop *)
Notation sub2 := (fun t => subString_m t 2 NPOS).
Lemma action_ok tm c k lit a nx : NN lit -> arg_ok a = true -> next_ok nx ->
  action_m sub2 tm c k lit (cs a) (option_map cs nx) = Ok (action tm c k lit a nx).
Proof.
  intros Hl Ha Hn. destruct (arg_ok_facts a Ha) as [Na _]. unfold action_m, action.
  repeat (match goal with
          | |- (if key ?p ?q ?r ?s then _ else _) = Ok (if key ?p ?q ?r ?s then _ else _) => destruct (key p q r s)
          end;
          [ first [ reflexivity
                  | apply set_repeat_count_ok; assumption | apply set_shuffle_ok; assumption | apply add_filter_ok; assumption
                  | apply add_group_dot_name_ok; assumption | apply add_verbose_test_ok; assumption
                  | apply set_output_type_ok; assumption | apply set_package_name_ok; assumption
                  | (rewrite (str_of_holds _ a (holds_cs a Na)); reflexivity) ] |]).
  reflexivity.
Qed.
Lemma dispatch_NN : Forall (fun r => NN (snd r)) c12_dispatch.
Proof. unfold c12_dispatch. repeat constructor; cbn; lia. Qed.
Lemma first_match_ok tbl a : Forall (fun r => NN (snd r)) tbl -> NN a -> first_match_m tbl (cs a) = Ok (first_match tbl a).
Proof.
  intros F Ha. induction tbl as [|[k lit] t IH]; [reflexivity|]. inversion F; subst. cbn [first_match_m first_match snd] in *.
  rewrite sstring_ok by assumption. cbn [bind]. unfold rule_matches. cbn [fst snd]. destruct k.
  - rewrite (equal_holds _ a _ lit (holds_cs a Ha) (holds_cs lit H1)). cbn [bind]. destruct (bytes_eqb a lit); [reflexivity | apply IH; assumption].
  - rewrite (startsWith_holds _ a _ lit (holds_cs a Ha) (holds_cs lit H1)). cbn [bind]. destruct (is_prefix lit a); [reflexivity | apply IH; assumption].
Qed.
Lemma handle_ok tm c a nx : arg_ok a = true -> next_ok nx ->
  handle_m sub2 tm c (cs a) (option_map cs nx) = Ok (handle tm c a nx).
Proof.
  intros Ha Hn. destruct (arg_ok_facts a Ha) as [Na _]. unfold handle_m, handle.
  rewrite (newFrom_holds _ a (holds_cs a Na)). cbn [bind]. rewrite (first_match_ok _ a dispatch_NN Na). cbn [bind].
  destruct (first_match c12_dispatch a) as [[k lit]|] eqn:E; [|reflexivity].
  apply action_ok; try assumption. apply first_match_in in E.
  pose proof dispatch_NN as D. rewrite Forall_forall in D. apply (D (k, lit) E).
Qed.
Lemma hd_error_map {X Y} (f : X -> Y) l : hd_error (map f l) = option_map f (hd_error l).
Proof. destruct l; reflexivity. Qed.
Lemma parse_args_ok_n n : forall tm c args, (length args <= n)%nat -> forallb arg_ok args = true ->
  parse_args_m sub2 tm c (map cs args) = Ok (parse_args tm c args).
Proof.
  induction n as [|n IH]; intros tm c args L V.
  - destruct args; [reflexivity | cbn in L; lia].
  - destruct args as [|a rest]; [reflexivity|]. cbn [map parse_args_m parse_args]. cbn in L. cbn [forallb] in V.
    apply andb_true_iff in V. destruct V as [Va Vr]. rewrite hd_error_map.
    assert (Hn : next_ok (hd_error rest)).
    { intros x E. destruct rest as [|b rest']; [discriminate E|]. cbn in E. inversion E; subst. cbn in Vr. apply andb_true_iff in Vr. tauto. }
    pose proof (handle_ok tm c a (hd_error rest) Va Hn) as HH. unfold bytes in *. rewrite HH. clear HH. cbn [bind].
    destruct (handle tm c a (hd_error rest)) as [h|c' [|]|]; try reflexivity.
    + destruct rest as [|b rest']; [reflexivity|]. cbn [map]. apply IH; [cbn in L; lia|]. cbn in Vr. apply andb_true_iff in Vr. tauto.
    + apply IH; [lia | exact Vr].
Qed.
Lemma forallb_tl {A} (f : A -> bool) l : forallb f l = true -> forallb f (tl l) = true.
Proof. destruct l; cbn; [auto|]. intro H. apply andb_true_iff in H. tauto. Qed.
(* every valid vector: the parser on buffers reads nothing outside them, every loop ends, no int overflows -- and it
   returns what the textbook-level parser returns *)
Lemma memory_safe tm argv : valid tm argv = true -> parse_m tm argv = Ok (parse tm argv).
Proof.
  unfold valid. intro V. apply andb_true_iff in V. destruct V as [V _]. unfold parse_m, parse.
  apply (parse_args_ok_n (length (tl argv))); [lia | apply forallb_tl; exact V].
Qed.
Lemma memory_safe_result tm argv : valid tm argv = true ->
  (exists h, parse_m tm argv = Ok (Reject h)) \/ (exists c, parse_m tm argv = Ok (Accept c)).
Proof.
  intro V. rewrite (memory_safe tm argv V). destruct (parse_total tm argv) as [[h E]|[c E]]; rewrite E; [left; exists h | right; exists c]; reflexivity.
Qed.
(* the code before the D8 repair (subString's `beginPos > size()-1` in size_t): "TEST(" as the last argument read past a buffer *)
Definition memory_safe_old_stmt : Prop := forall tm argv, valid tm argv = true -> parse_m_old tm argv <> Oob.
Lemma memory_safe_old_refuted : ~ memory_safe_old_stmt.
Proof. intro H. apply (H 5 [B "prog"; B "TEST("]); vm_compute; reflexivity. Qed.
