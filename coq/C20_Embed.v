(* C20 -- the scenarios of C20_Model.v (no stages, no plugins), embedded into the extended scenario language, are the same runs. *)
From Coq Require Import NArith Bool List Lia Arith.
From CppUVerif Require Import lib.Str C16_Events C20_Model C20_ModelX C20_Escape C20_Parse C20_Console C20_Proofs C20_FailProofs.
Import ListNotations.
Local Open Scope N_scope.

(* ================= the scenarios of C20_Model.v, embedded, are the same runs ================= *)
(* two callbacks the writer cannot tell apart: it reads the group of a group start, name and ignored marker of a test start, name, file
   and line of the shell of a failure *)
Definition ev_same (a b : ev) : Prop :=
  match a, b with
  | EGroupStart t, EGroupStart t' => t_group t = t_group t'
  | ETestStart t, ETestStart t' => t_name t = t_name t' /\ t_ignored t = t_ignored t'
  | EPrint s, EPrint s' => s = s'
  | EFailure t f l m, EFailure t' f' l' m' => t_name t = t_name t' /\ t_file t = t_file t' /\ t_line t = t_line t' /\ f = f' /\ l = l' /\ m = m'
  | ETestEnd _, ETestEnd _ => True
  | EGroupEnd, EGroupEnd => True
  | _, _ => False
  end.
Definition st_same (a b : tcst) : Prop :=
  c_group a = c_group b /\ c_open a = c_open b /\
  match c_test a, c_test b with
  | Some t, Some t' => t_name t = t_name t' /\ t_ignored t = t_ignored t'
  | None, None => True
  | _, _ => False
  end.
Lemma st_same_refl st : st_same st st.
Proof. unfold st_same. destruct (c_test st); repeat split; reflexivity. Qed.

Lemma step_same dur st st' e e' : st_same st st' -> ev_same e e' ->
  snd (tc_step Esc true dur st e) = snd (tc_step Esc true dur st' e') /\ st_same (fst (tc_step Esc true dur st e)) (fst (tc_step Esc true dur st' e')).
Proof.
  intros [Hg [Ho Ht]] He. destruct e, e'; cbn [ev_same] in He; try contradiction; cbn [tc_step fst snd].
  - rewrite He. split; [reflexivity|]. unfold st_same. cbn [c_group c_open c_test]. repeat split; exact Ht.
  - destruct He as [Hn Hi]. rewrite Hn, Hi. split; [reflexivity|]. unfold st_same. cbn [c_group c_open c_test]. repeat split; assumption.
  - subst. split; [reflexivity | repeat split; assumption].
  - destruct He as [H1 [H2 [H3 [H4 [H5 H6]]]]]. subst. unfold failure_pmsg. rewrite H1, H2, H3. split; [reflexivity | repeat split; assumption].
  - destruct (c_test st) as [t1|] eqn:E1, (c_test st') as [t2|] eqn:E2; try contradiction; cbn [fst snd].
    + destruct Ht as [Hn Hi]. rewrite Hn, Hi. split; [reflexivity|]. unfold st_same. rewrite E1, E2. auto.
    + split; [reflexivity|]. unfold st_same. rewrite E1, E2. auto.
  - rewrite Ho, Hg. destruct (negb (c_open st')); cbn [fst snd]; split; try reflexivity; repeat split; try assumption.
Qed.
Lemma items_same dur es es' : Forall2 ev_same es es' -> forall st st', st_same st st' ->
  tc_items Esc true dur st es = tc_items Esc true dur st' es'.
Proof.
  induction 1 as [|e e' es es' He _ IH]; intros st st' Hs; [reflexivity|].
  rewrite !items_cons_w. destruct (step_same dur st st' e e' Hs He) as [H1 H2]. rewrite H1, (IH _ _ H2). reflexivity.
Qed.

Lemma ev_same_prints l : Forall2 ev_same (map EPrint l) (map EPrint l).
Proof. induction l as [|x l IH]; constructor; [reflexivity | exact IH]. Qed.

Section Embed.
Variable verb : N.
Variable ri : bool.
Variable fs : list bytes.
Definition ecfg : xcfg := {| g_verb := verb; g_mock := false; g_leak := false |}.
Definition dec (b : bool) (es : list ev) : list ev := if verb =? 2 then vv_decorate b es else es.
Definition vtx (l : list bytes) : list ev := if verb =? 2 then map EPrint l else [].

Lemma vt_vtx l : vt ecfg l = vtx l. Proof. reflexivity. Qed.
Lemma vtx_app a b : vtx (a ++ b) = vtx a ++ vtx b.
Proof. unfold vtx. destruct (verb =? 2); [apply map_app | reflexivity]. Qed.
Lemma vtx_nil : vtx [] = [].
Proof. unfold vtx. destruct (verb =? 2); reflexivity. Qed.
Lemma vtx_same l : Forall2 ev_same (vtx l) (vtx l).
Proof. unfold vtx. destruct (verb =? 2); [apply ev_same_prints | constructor]. Qed.
Lemma dec_gstart b t r : dec b (EGroupStart t :: r) = EGroupStart t :: dec b r.
Proof. unfold dec. destruct (verb =? 2); reflexivity. Qed.
Lemma dec_gend b r : dec b (EGroupEnd :: r) = EGroupEnd :: dec b r.
Proof. unfold dec. destruct (verb =? 2); reflexivity. Qed.

(* the callbacks of a body: failures (and texts) only; the progress texts are put around them *)
Definition body_ev (e : ev) : Prop := match e with EPrint _ | EFailure _ _ _ _ => True | _ => False end.
Lemma vvd_body es : Forall body_ev es -> forall b r, vv_decorate b (es ++ r) = es ++ vv_decorate b r.
Proof.
  induction 1 as [|e es He _ IH]; intros b r; [reflexivity|].
  destruct e; cbn [body_ev] in He; try contradiction; cbn [app vv_decorate]; rewrite IH; reflexivity.
Qed.
Lemma body_events_body t b : Forall body_ev (fst (body_events t b)).
Proof.
  induction b as [|s b IH]; [constructor|]. destruct s; cbn [body_events].
  - destruct (body_events t b). cbn [fst] in *. constructor; [exact I | exact IH].
  - destruct (body_events t b). cbn [fst] in *. constructor; [exact I | exact IH].
  - cbn [fst]. constructor; [exact I | constructor].
Qed.
Definition core_test_events (t : test) : list ev :=
  if t_ignored t then [ETestStart t; ETestEnd 0]
  else ETestStart t :: vtx vv_pre ++ fst (body_events t (t_body t)) ++ vtx (vv_post (snd (body_events t (t_body t)) =? 0))
       ++ [ETestEnd (snd (body_events t (t_body t)))].
Lemma dec_test b t r : dec b (test_events t ++ r) = core_test_events t ++ dec false r.
Proof.
  unfold dec, test_events, core_test_events, vtx. destruct (verb =? 2).
  - destruct (t_ignored t) eqn:Ei.
    + cbn [app vv_decorate]. rewrite Ei. cbn [app negb]. reflexivity.
    + pose proof (body_events_body t (t_body t)) as Hb. destruct (body_events t (t_body t)) as [e c]. cbn [fst snd] in *.
      cbn [app vv_decorate]. rewrite Ei. cbn [negb]. rewrite <- !app_assoc. f_equal. f_equal.
      rewrite (vvd_body e Hb). f_equal.
  - destruct (t_ignored t); [reflexivity|]. destruct (body_events t (t_body t)) as [e c]. cbn [fst snd app]. rewrite <- !app_assoc. reflexivity.
Qed.

(* the embedded body reports the same failures and is left early in the same cases *)
Definition stmts_noprint (b : list stmt) : bool := forallb (fun s => match s with SPrint _ => false | _ => true end) b.
Lemma embed_body t sh b : t_name sh = t_name t -> t_file sh = t_file t -> t_line sh = t_line t -> stmts_noprint b = true ->
  forall q, exists objs q', stage_run t_name sh (flat_map embed_stmt b) q = (objs, q', snd (body_events t b) =? 0)
                           /\ Forall2 ev_same (fst (body_events t b)) (F objs).
Proof.
  intros H1 H2 H3. induction b as [|s b IH]; intros Hp q.
  - exists [], q. split; [reflexivity | constructor].
  - cbn [stmts_noprint forallb] in Hp. apply andb_true_iff in Hp. destruct Hp as [Hs Hp]. destruct s as [x|f l m|f l m]; [discriminate Hs| |].
    + cbn [flat_map embed_stmt app stage_run body_events].
      destruct (IH Hp (q_fail true q)) as [objs [q' [E Hf]]]. rewrite E.
      destruct (body_events t b) as [e c]. cbn [fst snd] in *.
      exists (make t_name KD3 0 sh f l m :: objs), q'. split; [reflexivity|].
      cbn [F map]. constructor; [|exact Hf]. cbn. rewrite H1, H2, H3. repeat split; reflexivity.
    + cbn [flat_map embed_stmt app stage_run body_events fst snd].
      exists [make t_name KD3 0 sh f l m], (q_fail true q). split; [reflexivity|].
      cbn [F map]. constructor; [|constructor]. cbn. rewrite H1, H2, H3. repeat split; reflexivity.
Qed.

Lemma shell_embed t : t_name (shell (embed_test t)) = t_name t /\ t_file (shell (embed_test t)) = t_file t /\ t_line (shell (embed_test t)) = t_line t
  /\ t_group (shell (embed_test t)) = t_group t /\ t_ignored (shell (embed_test t)) = t_ignored t.
Proof. repeat split; reflexivity. Qed.
Lemma vv_pre_split : vv_pre = vv_a ++ vv_b ++ vv_c. Proof. reflexivity. Qed.
Lemma vv_tail_split : vv_tail = vv_e ++ vv_f ++ vv_g ++ vv_h. Proof. reflexivity. Qed.

Lemma test_events_same t : noprint t = true ->
  Forall2 ev_same (core_test_events t) (xtest_events t_name ecfg (embed_test t))
  /\ xtest_exec t_name ecfg (embed_test t) = (if t_ignored t then 0 else 1).
Proof.
  intro Hp. unfold core_test_events, xtest_events, xtest_exec. cbn [embed_test x_ignored x_sep N.ltb N.compare].
  destruct (t_ignored t) eqn:Ei.
  - split; [|reflexivity]. constructor; [split; [reflexivity | cbn; rewrite Ei; reflexivity]|]. constructor; [exact I | constructor].
  - destruct (shell_embed t) as [H1 [H2 [H3 _]]].
    destruct (embed_body t (shell (embed_test t)) (t_body t) H1 H2 H3 Hp q_start) as [objs [q' [E Hf]]].
    unfold test_trun.
    change (x_pre (embed_test t)) with (@nil xstmt). change (x_setup (embed_test t)) with (@nil xstmt).
    change (x_teardown (embed_test t)) with (@nil xstmt). change (x_post (embed_test t)) with (@nil xstmt).
    change (x_body (embed_test t)) with (flat_map embed_stmt (t_body t)).
    cbn [plugin_run stage_run]. rewrite E. cbn [plugin_run stage_run ecfg g_mock g_leak andb].
    cbn [r_setup_done]. split; [|reflexivity].
    unfold trun_events. cbn [r_pre r_setup r_setup_done r_body r_body_done r_teardown r_teardown_done r_post r_mock r_leak andb F map app].
    change (vt ecfg) with vtx. constructor; [split; [reflexivity | cbn; rewrite Ei; reflexivity]|].
    rewrite vv_pre_split, !vtx_app, <- !app_assoc.
    apply Forall2_app; [apply vtx_same|]. apply Forall2_app; [apply vtx_same|]. apply Forall2_app; [apply vtx_same|].
    apply Forall2_app; [exact Hf|].
    unfold vv_post. rewrite vv_tail_split, !vtx_app, <- !app_assoc.
    destruct (snd (body_events t (t_body t)) =? 0); rewrite ?vtx_nil; cbn [app];
      repeat (apply Forall2_app; [apply vtx_same|]); repeat constructor.
Qed.

Lemma embed_arm t : embed_test (arm ri t) = xarm ri (embed_test t).
Proof. destruct ri; reflexivity. Qed.
Lemma selected_embed t : xselected fs (embed_test t) = selected fs t.
Proof. reflexivity. Qed.
Lemma end_of_group_embed t rest : xend_of_group (embed_test t) (map embed_test rest) = end_of_group t rest.
Proof. destruct rest; reflexivity. Qed.

Lemma loop_same ts : forallb noprint ts = true -> forall gs R R', (forall b, Forall2 ev_same (dec b R) R') ->
  forall b, Forall2 ev_same (dec b (reg_loop_sel ri fs gs ts ++ R)) (xreg_loop t_name ecfg ri fs gs (map embed_test ts) ++ R').
Proof.
  induction ts as [|t rest IH]; intros Hp gs R R' HR b; [apply HR|].
  cbn [forallb] in Hp. apply andb_true_iff in Hp. destruct Hp as [Ht Hrest].
  cbn [reg_loop_sel map xreg_loop]. rewrite <- embed_arm, selected_embed, end_of_group_embed.
  set (t' := arm ri t). assert (Ht' : noprint t' = true) by (unfold t'; rewrite noprint_arm; exact Ht).
  rewrite <- !app_assoc.
  assert (Hgs : forall X X', (forall b, Forall2 ev_same (dec b X) X') ->
            forall b, Forall2 ev_same (dec b ((if gs then [EGroupStart t'] else []) ++ X)) ((if gs then [EGroupStart (shell (embed_test t'))] else []) ++ X')).
  { intros X X' HX b0. destruct gs; [|apply HX]. cbn [app]. rewrite dec_gstart. constructor; [reflexivity | apply HX]. }
  apply Hgs. clear Hgs b. intro b.
  assert (Hsel : forall X X', (forall b, Forall2 ev_same (dec b X) X') ->
            Forall2 ev_same (dec b (sel_events fs t' ++ X)) ((if selected fs t' then xtest_events t_name ecfg (embed_test t') else []) ++ X')).
  { intros X X' HX. unfold sel_events. destruct (selected fs t'); [|apply HX].
    rewrite dec_test. apply Forall2_app; [apply (test_events_same t' Ht') | apply HX]. }
  apply Hsel. clear Hsel b. intro b.
  destruct (end_of_group t' rest).
  - cbn [app]. rewrite dec_gend. constructor; [exact I|]. apply IH; assumption.
  - apply IH; assumption.
Qed.

Lemma embed_arm_map ts : map embed_test (map (arm ri) ts) = map (xarm ri) (map embed_test ts).
Proof. rewrite !map_map. apply map_ext. apply embed_arm. Qed.
Lemma noprint_arm_map ts : forallb noprint ts = true -> forallb noprint (map (arm ri) ts) = true.
Proof. intro H. rewrite forallb_forall in *. intros x Hx. apply in_map_iff in Hx. destruct Hx as [t [<- Hin]]. rewrite noprint_arm. apply H, Hin. Qed.
Lemma passes_same n : forall ts, forallb noprint ts = true -> forall b,
  Forall2 ev_same (dec b (passes_events ri fs n ts)) (xpasses_events t_name ecfg ri fs n (map embed_test ts)).
Proof.
  induction n as [|n IH]; intros ts Hp b.
  - unfold dec. cbn [passes_events xpasses_events]. destruct (verb =? 2); constructor.
  - cbn [passes_events xpasses_events]. unfold events_sel. rewrite <- embed_arm_map.
    apply loop_same; [exact Hp|]. intro b0. apply IH. apply noprint_arm_map, Hp.
Qed.
Lemma exec_same n : forall ts, forallb noprint ts = true ->
  xpasses_exec t_name ecfg ri fs n (map embed_test ts) = passes_exec ri fs n ts.
Proof.
  induction n as [|n IH]; intros ts Hp; [reflexivity|].
  cbn [passes_exec xpasses_exec]. rewrite <- embed_arm_map, (IH _ (noprint_arm_map ts Hp)). f_equal.
  unfold xpass_exec, pass_exec. rewrite map_map. apply map_ext_in. intros t Hin.
  rewrite <- embed_arm, selected_embed. unfold exec_count.
  assert (Ht : noprint (arm ri t) = true) by (rewrite noprint_arm; rewrite forallb_forall in Hp; apply Hp, Hin).
  rewrite (proj2 (test_events_same (arm ri t) Ht)). destruct (selected fs (arm ri t)), (t_ignored (arm ri t)); reflexivity.
Qed.
End Embed.

Lemma xrun_embed s : valid s = true -> xrun (embed s) = run s.
Proof.
  intro Hv. pose proof (valid_noprint s Hv) as Hp.
  unfold xrun, xrun_with, run, xrun_pieces_with, run_pieces, run_items_of, xrun_events_with, run_events, xrun_exec, run_exec.
  cbn [embed xs_dur xs_ri xs_passes xs_filters xs_tests xs_verb xs_sink xs_cfg xs_mock xs_leak].
  f_equal.
  - f_equal. f_equal. symmetry. apply items_same; [|apply st_same_refl].
    exact (passes_same (s_verb s) (s_ri s) (s_filters s) (s_passes s) (s_tests s) Hp false).
  - exact (exec_same (s_verb s) (s_ri s) (s_filters s) (s_passes s) (s_tests s) Hp).
Qed.
